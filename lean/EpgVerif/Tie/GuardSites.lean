import EpgVerif.Gen.GuardSites
import EpgVerif.Model.Guards
/-
  Tie obligation for C20: the guard conditions of the documented input checks, as they stand in the current source
  (read from the AST by the translator into `Gen/GuardSites.lean` on every run), are the ones the guard model
  (`Model/Guards.lean`) was written against.  Any textual change of a guard — even a harmless one — breaks this
  obligation and sends the check to its class-driven failing-input search.

  site → model function:  Operator.__init__ / G / C / exchange_matrix → `anyNegative`;  S.__init__ → `zeroShift`,
  `badNcomp`;  S._apply → `noGrid`;  _format_states → `badStatesShape`, `badSymmetry`;  scalar_format →
  `badScalarShape`, `badScalarCoeff`;  matrix_format → `badMatrixShape`, `badMatrixCoeff`;  Operator.prepare /
  broadcast_shapes → `notBroadcastable`;  X.__init__ → `badKinetic`;  X._apply → `notConserving`;  get_shape →
  `badDiffusion`;  simulate / flatten_sequence → `badSequence`;  Sequence.check / build / Variable.__call__ →
  `badSeqVars`;  make_pulse_sequence / estimate_rf → `pulseTooLarge`.
-/
namespace EpgVerif.Tie.GuardSites

def expected : List (String × List (String × String)) := [
  ("operator.py:Operator.__init__", [("np.any(np.asarray(duration) < 0)", "ValueError")]),
  ("operator.py:Operator.prepare", [("not isinstance(sm, statematrix.StateMatrix)", "TypeError"), ("not common.broadcastable(sm.shape, self.shape, append=True)", "ValueError")]),
  ("operator.py:MultiOperator.append", [("not isinstance(op, Operator)", "TypeError")]),
  ("statematrix.py:_format_states", [("check and states.size != 3", "ValueError"), ("check and states.shape[1] != 3", "ValueError"), ("check and states.shape[0] % 2 != 1", "ValueError"), ("check and states.shape[-1] != 3", "ValueError"), ("check and states.shape[-2] % 2 != 1", "ValueError"), ("not xp.allclose(states[..., 1], states[..., ::-1, 0].conj())", "ValueError"), ("not xp.allclose(states[..., 2], states[..., ::-1, 2].conj())", "ValueError")]),
  ("shift.py:S.__init__", [("np.allclose(k, 0)", "TypeError"), ("not k.shape[-1] in [1, 2, 3, 4]", "ValueError")]),
  ("shift.py:S._apply", [("sm.coords is not None", "RuntimeError"), ("kgrid is None or not np.all(np.asarray(kgrid, dtype=float) > 0)", "AttributeError"), ("else", "ValueError")]),
  ("shift.py:G.__init__", [("np.any(tau < 0)", "ValueError"), ("not common.isscalar(gradient) and common.get_shape(gradient)[-1] > 3", "ValueError")]),
  ("shift.py:C.__init__", [("np.any(tau < 0)", "ValueError")]),
  ("diffusion.py:get_shape", [("len(D_shape) == 1", "ValueError"), ("len(set(D_shape[-2:])) == 2", "ValueError"), ("len(D_shape) and len(k_shape) and (D_shape[-1] != k_shape[-1])", "ValueError")]),
  ("exchange.py:X.__init__", [("np.any(np.asarray(tau) < 0)", "ValueError"), ("any((np.any(np.asarray(T) < 0) for T in (T1, T2) if T is not None))", "ValueError"), ("khi.ndim < 2", "ValueError"), ("khi.shape[:-1][axis] != khi.shape[-1]", "ValueError"), ("not all([np.allclose(khi[..., i].sum(axis=axis), 0, atol=1e-08 * max(1.0, np.abs(khi).max())) for i in range(khi.shape[-1])])", "ValueError")]),
  ("exchange.py:X._apply", [("not xp.allclose(flux, 0, atol=1e-08 * scale)", "RuntimeError"), ("sm.shape[ax] != ncomp", "RuntimeError")]),
  ("exchange.py:exchange_matrix", [("np.any(k < 0)", "ValueError")]),
  ("opscalar.py:scalar_format", [("arr.ndim < 2 or arr.shape[-1] != 3", "ValueError"), ("check and (not xp.allclose(arr, arr[..., (1, 0, 2)].conj()))", "ValueError")]),
  ("opmatrix.py:matrix_format", [("mat.ndim < 3 or mat.shape[-2:] != (3, 3)", "ValueError"), ("not xp.allclose(mat, mat[..., (1, 0, 2), :][..., (1, 0, 2)].conj())", "ValueError")]),
  ("functions.py:simulate", [("not any((isinstance(op, operators.Probe) for op in sequence))", "ValueError")]),
  ("functions.py:flatten_sequence", [("else", "ValueError")]),
  ("rfpulse.py:make_pulse_sequence", [("values.ndim > 1", "ValueError"), ("np.max(np.abs(values)) > 1 + 1e-12", "ValueError"), ("else", "ValueError")]),
  ("rfpulse.py:estimate_rf", [("np.max(np.abs(values)) > 1 + 1e-12", "ValueError"), ("not optimize", "RuntimeError")]),
  ("sequence.py:Sequence.check", [("invalid", "ValueError")]),
  ("sequence.py:Sequence.build", [("invalid", "ValueError"), ("invalid", "ValueError")]),
  ("sequence.py:Variable.__call__", [("not self.name in kwargs", "ValueError")]),
  ("common.py:broadcast_shapes", [("len(dims) > 1", "ValueError")]),
  ("evolution.py:E.__init__", [("np.any(np.asarray(tau) < 0)", "ValueError"), ("np.any(np.asarray(T1) < 0) or np.any(np.asarray(T2) < 0)", "ValueError")]),
  ("evolution.py:P.__init__", [("np.any(np.asarray(tau) < 0)", "ValueError")]),
  ("diffusion.py:D.__init__", [("np.any(np.asarray(tau) < 0)", "ValueError")]),
  ("operator.py:Operator.copy", [("np.any(np.asarray(duration) < 0)", "ValueError")]),
  ("sequence.py:VirtualOperator.build", [("invalid", "ValueError")])
]

theorem guards_as_modelled : Gen.GuardSites.guards = expected := rfl

end EpgVerif.Tie.GuardSites
