import EpgVerif.Lemmas.SExprLemmas
import EpgVerif.Gen.MathTable
/-
  Tie obligation for `sequence.math`: the derivative table introspected from the current source
  (`Gen.mathTable`) is correct for every function (`TableOK`).
-/
namespace EpgVerif.Tie
open EpgVerif SE

private theorem sign_locally_const (x : ℝ) (hx : x ≠ 0) :
    HasDerivAt (fun y : ℝ => (SignType.sign y : ℝ)) 0 x := by
  have : (fun y : ℝ => (SignType.sign y : ℝ)) =ᶠ[nhds x] fun _ => (SignType.sign x : ℝ) := by
    rcases lt_or_gt_of_ne hx with h | h
    · filter_upwards [Iio_mem_nhds h] with y hy
      simp [sign_neg (Set.mem_Iio.mp hy), sign_neg h]
    · filter_upwards [Ioi_mem_nhds h] with y hy
      simp [sign_pos (Set.mem_Ioi.mp hy), sign_pos h]
  exact (hasDerivAt_const x _).congr_of_eventuallyEq this

theorem mathTable_ok : TableOK (Gen.mathTable (K := ℝ)) where
  unary := by
    intro f t hf ht env a a' x ha hdom
    cases f with
    | left | right | add | sub | mul | div | pow => simp [Fn.binary] at hf
    | sign =>
      -- `sign` has an entry only once the source defines one; it must then be the zero derivative
      first
        | (simp [Gen.mathTable] at ht; done)
        | (simp only [Gen.mathTable, Option.some.injEq] at ht; subst ht
           simp only [eval, fn1, intK_real, RealOps.sign]
           have h := (sign_locally_const (a x) hdom).comp x ha
           exact h.congr_deriv (by simp))
    | neg =>
      simp only [Gen.mathTable, Option.some.injEq] at ht; subst ht
      simp only [eval, fn1, intK_real]
      exact (ha.neg).congr_deriv (by simp)
    | abs =>
      simp only [Gen.mathTable, Option.some.injEq] at ht; subst ht
      simp only [eval, fn1, RealOps.abs, RealOps.sign, if_true]
      have h := (hasDerivAt_abs hdom).comp x ha
      simpa [Function.comp_def] using h
    | inv =>
      simp only [Gen.mathTable, Option.some.injEq] at ht; subst ht
      simp only [eval, fn1, fn2, intK_real, RealOps.pow, if_true]
      have hne : a x ≠ 0 := hdom
      have h := (ha.inv hne)
      have e : (fun y => 1 / a y) = fun y => (a y)⁻¹ := by funext y; simp
      rw [e]
      refine h.congr_deriv ?_
      have h2 : (((2 : ℤ) : ℝ)) = (2 : ℝ) := by norm_num
      rw [h2, Real.rpow_two]; push_cast; field_simp
    | log =>
      simp only [Gen.mathTable, Option.some.injEq] at ht; subst ht
      simp only [eval, fn1, RealOps.log, if_true]
      have hpos : 0 < a x := hdom
      have h := ha.log (ne_of_gt hpos)
      exact h.congr_deriv (by field_simp)
    | exp =>
      simp only [Gen.mathTable, Option.some.injEq] at ht; subst ht
      simp only [eval, fn1, RealOps.exp, if_true]
      have h := ha.exp
      exact h.congr_deriv (by ring)
  binary := by
    intro f t0 t1 h0 h1 env a b a' b' x ha hb hdom
    cases f with
    | sign | neg | abs | inv | log | exp => simp [Gen.mathTable] at h1
    | left =>
      simp only [Gen.mathTable, Option.some.injEq] at h0 h1; subst h0; subst h1
      simp only [eval, fn2, intK_real]; simpa using ha
    | right =>
      simp only [Gen.mathTable, Option.some.injEq] at h0 h1; subst h0; subst h1
      simp only [eval, fn2, intK_real]; simpa using hb
    | add =>
      simp only [Gen.mathTable, Option.some.injEq] at h0 h1; subst h0; subst h1
      simp only [eval, fn2, intK_real]
      exact (ha.add hb).congr_deriv (by simp)
    | sub =>
      simp only [Gen.mathTable, Option.some.injEq] at h0 h1; subst h0; subst h1
      simp only [eval, fn2, intK_real]
      exact (ha.sub hb).congr_deriv (by push_cast; ring)
    | mul =>
      simp only [Gen.mathTable, Option.some.injEq] at h0 h1; subst h0; subst h1
      simp only [eval, fn2, if_true]
      exact (ha.mul hb).congr_deriv (by simp; ring)
    | div =>
      simp only [Gen.mathTable, Option.some.injEq] at h0 h1; subst h0; subst h1
      simp only [eval, fn1, fn2, intK_real, RealOps.pow, if_true]
      have hne : b x ≠ 0 := hdom
      refine (ha.div hb hne).congr_deriv ?_
      have h2 : (((2 : ℤ) : ℝ)) = (2 : ℝ) := by norm_num
      simp only [show ¬ (2 = 1) by decide, if_false]
      rw [h2, Real.rpow_two]; field_simp; ring
    | pow =>
      simp only [Gen.mathTable, Option.some.injEq] at h0 h1; subst h0; subst h1
      simp only [eval, fn1, fn2, intK_real, RealOps.pow, RealOps.log, if_true]
      have hpos : 0 < a x := hdom
      refine (ha.rpow hb hpos).congr_deriv ?_
      simp; ring
  proxies := by
    intro f i t ht h2
    cases f <;> rcases i with _ | _ | i <;>
      simp only [Gen.mathTable, Option.some.injEq, reduceCtorEq] at ht <;> subst ht <;>
      simp_all [hasProxy]
  both := by
    intro f hf
    cases f <;> simp_all [Fn.binary, Gen.mathTable]
  novars := by
    intro f i t ht v
    cases f <;> rcases i with _ | _ | i <;>
      simp only [Gen.mathTable, Option.some.injEq, reduceCtorEq] at ht <;> subst ht <;>
      simp [mentions]

end EpgVerif.Tie
