import Mathlib.Tactic.IntervalCases
import EpgVerif.Lemmas.ExTac
import EpgVerif.Gen.Functions
import EpgVerif.Model.Exchange
/-
  Tie obligations for exchange.py (regenerated expressions in `Gen/Functions.lean`):
  * the matrices `exchange_operator` hands to the matrix exponential are `τ · genT` / `τ · genL` of the model
    (2 and 3 compartments; variables 0 = tau, khi row-major, T1, T2, g per compartment).
-/
namespace EpgVerif.Tie.Exchange
open EpgVerif Ex Exch

theorem genT2_tie (env : Nat → ℂ) (i j : Nat) (hi : i < 2) (hj : j < 2) :
    eval env (Gen.Exchange.genT2[2 * i + j]!)
      = matScale (env 0) (genT (fun a b => env (1 + 2 * a + b)) (fun a => 1 / env (7 + a)) (fun a => env (9 + a))) i j := by
  interval_cases i <;> interval_cases j <;>
    simp [Gen.Exchange.genT2, Gen.Exchange.genT2_0, Gen.Exchange.genT2_1, Gen.Exchange.genT2_2, Gen.Exchange.genT2_3,
      eval, matScale, genT] <;> ring

theorem genL2_tie (env : Nat → ℂ) (i j : Nat) (hi : i < 2) (hj : j < 2) :
    eval env (Gen.Exchange.genL2[2 * i + j]!)
      = matScale (env 0) (genL (fun a b => env (1 + 2 * a + b)) (fun a => 1 / env (5 + a))) i j := by
  interval_cases i <;> interval_cases j <;>
    simp [Gen.Exchange.genL2, Gen.Exchange.genL2_0, Gen.Exchange.genL2_1, Gen.Exchange.genL2_2, Gen.Exchange.genL2_3,
      eval, matScale, genL] <;> ring

theorem genT3_tie (env : Nat → ℂ) (i j : Nat) (hi : i < 3) (hj : j < 3) :
    eval env (Gen.Exchange.genT3[3 * i + j]!)
      = matScale (env 0) (genT (fun a b => env (1 + 3 * a + b)) (fun a => 1 / env (13 + a)) (fun a => env (16 + a))) i j := by
  interval_cases i <;> interval_cases j <;>
    simp [Gen.Exchange.genT3, Gen.Exchange.genT3_0, Gen.Exchange.genT3_1, Gen.Exchange.genT3_2, Gen.Exchange.genT3_3,
      Gen.Exchange.genT3_4, Gen.Exchange.genT3_5, Gen.Exchange.genT3_6, Gen.Exchange.genT3_7, Gen.Exchange.genT3_8,
      eval, matScale, genT] <;> ring

theorem genL3_tie (env : Nat → ℂ) (i j : Nat) (hi : i < 3) (hj : j < 3) :
    eval env (Gen.Exchange.genL3[3 * i + j]!)
      = matScale (env 0) (genL (fun a b => env (1 + 3 * a + b)) (fun a => 1 / env (10 + a))) i j := by
  interval_cases i <;> interval_cases j <;>
    simp [Gen.Exchange.genL3, Gen.Exchange.genL3_0, Gen.Exchange.genL3_1, Gen.Exchange.genL3_2, Gen.Exchange.genL3_3,
      Gen.Exchange.genL3_4, Gen.Exchange.genL3_5, Gen.Exchange.genL3_6, Gen.Exchange.genL3_7, Gen.Exchange.genL3_8,
      eval, matScale, genL] <;> ring

end EpgVerif.Tie.Exchange
