import Mathlib.Tactic.IntervalCases
import EpgVerif.Lemmas.ExTac
import EpgVerif.Gen.Functions
import EpgVerif.Model.Diffusion
/-
  Tie obligations for diffusion.py: the expressions obtained by symbolic execution of
  `compute_bmatrix` / `diffusion_operator` (regenerated on every run into `Gen/Functions.lean`)
  are the model's `bmatConst` / `bmatRamp` / `attScalar` / `attTensor`.
  Variable numbering of the translator: 0 = tau, 1..3 = k1, 4..6 = k2;  for the attenuations
  0..8 = bL (row-major), 9..17 = bT, 18.. = D.
-/
namespace EpgVerif.Tie.Diffusion
open EpgVerif Ex Diff5

theorem sumTo3 (f : Nat → ℂ) : sumTo 3 f = f 0 + f 1 + f 2 := by
  simp [sumTo, List.range_succ]

theorem bmat3_const_tie (env : Nat → ℂ) (i j : Nat) (hi : i < 3) (hj : j < 3) :
    eval env (Gen.Diffusion.bmat3_const[3 * i + j]!) = bmatConst (env 0) (fun n => env (1 + n)) i j := by
  interval_cases i <;> interval_cases j <;>
    simp [Gen.Diffusion.bmat3_const, Gen.Diffusion.bmat3_const_0_0, Gen.Diffusion.bmat3_const_0_1,
      Gen.Diffusion.bmat3_const_0_2, Gen.Diffusion.bmat3_const_1_0, Gen.Diffusion.bmat3_const_1_1,
      Gen.Diffusion.bmat3_const_1_2, Gen.Diffusion.bmat3_const_2_0, Gen.Diffusion.bmat3_const_2_1,
      Gen.Diffusion.bmat3_const_2_2, eval, bmatConst, milli]

theorem bmat3_ramp_tie (env : Nat → ℂ) (i j : Nat) (hi : i < 3) (hj : j < 3) :
    eval env (Gen.Diffusion.bmat3_ramp[3 * i + j]!)
      = bmatRamp (env 0) (fun n => env (1 + n)) (fun n => env (4 + n)) i j := by
  interval_cases i <;> interval_cases j <;>
    simp [Gen.Diffusion.bmat3_ramp, Gen.Diffusion.bmat3_ramp_0_0, Gen.Diffusion.bmat3_ramp_0_1,
      Gen.Diffusion.bmat3_ramp_0_2, Gen.Diffusion.bmat3_ramp_1_0, Gen.Diffusion.bmat3_ramp_1_1,
      Gen.Diffusion.bmat3_ramp_1_2, Gen.Diffusion.bmat3_ramp_2_0, Gen.Diffusion.bmat3_ramp_2_1,
      Gen.Diffusion.bmat3_ramp_2_2, eval, bmatRamp, milli]

/-- the `allclose(kd, 0)` shortcut of the code returns the constant-wavenumber matrix -/
theorem bmat3_ramp_kd0_tie (env : Nat → ℂ) (i j : Nat) (hi : i < 3) (hj : j < 3) :
    eval env (Gen.Diffusion.bmat3_ramp_kd0[3 * i + j]!) = bmatConst (env 0) (fun n => env (1 + n)) i j := by
  interval_cases i <;> interval_cases j <;>
    simp [Gen.Diffusion.bmat3_ramp_kd0, Gen.Diffusion.bmat3_ramp_kd0_0_0, Gen.Diffusion.bmat3_ramp_kd0_0_1,
      Gen.Diffusion.bmat3_ramp_kd0_0_2, Gen.Diffusion.bmat3_ramp_kd0_1_0, Gen.Diffusion.bmat3_ramp_kd0_1_1,
      Gen.Diffusion.bmat3_ramp_kd0_1_2, Gen.Diffusion.bmat3_ramp_kd0_2_0, Gen.Diffusion.bmat3_ramp_kd0_2_1,
      Gen.Diffusion.bmat3_ramp_kd0_2_2, eval, bmatConst, milli]

theorem bmat1_tie (env : Nat → ℂ) :
    eval env Gen.Diffusion.bmat1_const_0 = bmatConst (env 0) (fun n => env (1 + n)) 0 0 ∧
    eval env Gen.Diffusion.bmat1_ramp_0 = bmatRamp (env 0) (fun n => env (1 + n)) (fun n => env (2 + n)) 0 0 := by
  constructor <;> simp [Gen.Diffusion.bmat1_const_0, Gen.Diffusion.bmat1_ramp_0, eval, bmatConst, bmatRamp, milli]

theorem att_scalar_tie (env : Nat → ℂ) :
    eval env Gen.Diffusion.att_scalar_L_0 = attScalar 3 (fun i j => env (3 * i + j)) (env 18) ∧
    eval env Gen.Diffusion.att_scalar_T_0 = attScalar 3 (fun i j => env (9 + 3 * i + j)) (env 18) := by
  constructor <;> simp [Gen.Diffusion.att_scalar_L_0, Gen.Diffusion.att_scalar_T_0, eval, attScalar, sumTo3]

theorem att_tensor_tie (env : Nat → ℂ) :
    eval env Gen.Diffusion.att_tensor_L_0 = attTensor 3 (fun i j => env (3 * i + j)) (fun i j => env (18 + 3 * i + j)) ∧
    eval env Gen.Diffusion.att_tensor_T_0 = attTensor 3 (fun i j => env (9 + 3 * i + j)) (fun i j => env (18 + 3 * i + j)) := by
  constructor <;>
  · simp only [Gen.Diffusion.att_tensor_L_0, Gen.Diffusion.att_tensor_T_0, eval, attTensor, sumTo3, expc_C]
    congr 1; ring

end EpgVerif.Tie.Diffusion
