import EpgVerif.Lemmas.ExTac
import EpgVerif.Gen.Functions
import EpgVerif.Model.RF
/-
  Tie obligation for rfpulse.make_pulse_sequence (regenerated in `Gen/Functions.lean` by calling the real function
  with a recording `transform` on the waveform [0.5, 1, 0.25j], symbolic rf (var 0), duration (var 1), offset (var 2)):
  the hard pulses, their durations and the two frame rotations are those of the model.
-/
namespace EpgVerif.Tie.RFPulse
open EpgVerif Ex RF Sim

theorem frame_ops_are_Phi : Gen.RFPulse.frame_ops = ["Phi", "Phi"] := by decide

theorem phis_are_sample_phases : Gen.RFPulse.phis = [0, 0, 90] := by
  simp [Gen.RFPulse.phis]

/-- the generated pulse is `makePulseSequence rf [0.5∠0, 1∠0, 0.25∠90] (duration/3 each) (some offset)` -/
theorem pulse_tie (env : Nat → ℂ) :
    makePulseSequence (env 0)
        [⟨((1 : ℚ) / 2 : ℚ), (0 : ℂ)⟩, ⟨(1 : ℂ), (0 : ℂ)⟩, ⟨((1 : ℚ) / 4 : ℚ), (90 : ℂ)⟩]
        (scalarDurations 3 (env 1)) (some (env 2))
      = [Item.op (.Phi (eval env Gen.RFPulse.offsets_0)) 0,
         Item.op (.T (eval env Gen.RFPulse.alphas_0) 0) (eval env Gen.RFPulse.durations_0),
         Item.op (.T (eval env Gen.RFPulse.alphas_1) 0) (eval env Gen.RFPulse.durations_1),
         Item.op (.T (eval env Gen.RFPulse.alphas_2) 90) (eval env Gen.RFPulse.durations_2),
         Item.op (.Phi (eval env Gen.RFPulse.offsets_1)) 0] := by
  simp only [makePulseSequence, pulseCore, scalarDurations, List.replicate, List.cons_append, List.nil_append,
    Gen.RFPulse.offsets_0, Gen.RFPulse.offsets_1, Gen.RFPulse.alphas_0, Gen.RFPulse.alphas_1, Gen.RFPulse.alphas_2,
    Gen.RFPulse.durations_0, Gen.RFPulse.durations_1, Gen.RFPulse.durations_2, eval, ofRat_C]
  have e1 : ((180 : ℚ) : ℂ) * (((1 : ℚ) / 2 : ℚ) : ℂ) * env 0 = ((90 : ℚ) : ℂ) * env 0 := by push_cast; ring
  have e2 : ((180 : ℚ) : ℂ) * (1 : ℂ) * env 0 = ((180 : ℚ) : ℂ) * env 0 := by ring
  have e3 : ((180 : ℚ) : ℂ) * (((1 : ℚ) / 4 : ℚ) : ℂ) * env 0 = ((45 : ℚ) : ℂ) * env 0 := by push_cast; ring
  have e4 : (1 : ℂ) * env 1 / (((3 : ℕ) : ℚ) : ℂ) = env 1 / ((3 : ℚ) : ℂ) := by push_cast; ring
  rw [e1, e2, e3, e4]

end EpgVerif.Tie.RFPulse
