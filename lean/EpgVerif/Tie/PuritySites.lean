import EpgVerif.Gen.PuritySites
import EpgVerif.Model.Heap
import EpgVerif.Model.Sim
/-
  Tie obligation for C09 (and the loop of C12): the functions that implement the copy discipline — `Operator.prepare`
  (copy unless in place), `Operator.__call__`, `Probe.acquire` (snapshot with copy=True), `common.asnumpy`,
  `StateMatrix.copy` / `ArrayCollection.copy` (deep copies, own system arrays), the two copies in `simulate`, and the
  loop `simulate_simple` — read from the AST of the current source on every run, are the texts the object model
  `Model/Heap.lean` (and `Model/Sim.lean` for the loop) were written against.  A change of any of these functions breaks
  this obligation; the check then falls back to the history search on the live objects.
-/
namespace EpgVerif.Tie.PuritySites

def expected : List (String × List String) := [
  ("operator.py:Operator.prepare", ["if not isinstance(sm, statematrix.StateMatrix):\n    raise TypeError(f'Not a StateMatrix: {sm}')\nelif not common.broadcastable(sm.shape, self.shape, append=True):\n    raise ValueError(f'Incompatible StateMatrix and operator shapes: {sm.shape}, {self.shape}')", "if not inplace or not sm.writeable:\n    sm = sm.copy()", "if sm.ndim < self.ndim:\n    sm.expand(self.ndim)", "return sm"]),
  ("operator.py:Operator.__call__", ["sm = self.prepare(sm, inplace=inplace)", "sm = self._apply(sm)", "return sm"]),
  ("probe.py:Probe.acquire", ["post = post if post else self.post", "return post(common.asnumpy(self._acquire(sm), copy=True))"]),
  ("common.py:asnumpy", ["if isinstance(arr, dict):\n    return {key: asnumpy(arr[key], copy=copy) for key in arr}\nelif isinstance(arr, tuple) and hasattr(arr, '_fields'):\n    return type(arr)(*(asnumpy(item, copy=copy) for item in arr))\nelif isinstance(arr, (list, tuple)):\n    return type(arr)((asnumpy(item, copy=copy) for item in arr))\nelif is_array_module(arr, 'cupy'):\n    xp = get_array_module(arr)\n    return xp.asarray(arr).get()", "if copy:\n    return np.copy(arr)", "return np.asarray(arr)"]),
  ("statematrix.py:StateMatrix.copy", ["sm = self.__new__(type(self))", "coll = self.arrays.copy()", "if states is not None:\n    coll.update('states', states, resize=True)", "if 'equilibrium' in kwargs:\n    coll.update('equilibrium', kwargs.pop('equilibrium'), resize=True)", "if 'coords' in kwargs:\n    coll.update('coords', kwargs.pop('coords'), resize=True)", "sm.arrays = coll", "sm.kvalue = kwargs.pop('kvalue', self.kvalue)", "sm.tvalue = kwargs.pop('tvalue', self.tvalue)", "sm.options = {**self.options, **kwargs}", "sm.system = self.system.copy()", "coll._linked = {sm.system}", "coll._update_shape()", "return sm"]),
  ("statematrix.py:ArrayCollection.copy", ["coll = self.__new__(type(self))", "layouts, arrays = (self._layouts, self._arrays)", "coll._expand_axis = self._expand_axis", "coll._shape = self._shape", "coll._arrays = {name: coll.xp.array(arrays[name]) for name in arrays}", "coll._layouts = dict(layouts)", "coll._shapes = dict(self._shapes)", "coll._axes = dict(self._axes)", "coll._default = self._default", "coll._linked = set()", "return coll"]),
  ("functions.py:simulate", ["sm = init.copy(**options)", "sm = sm.copy()", "part = part.copy(**popts)"]),
  ("functions.py:simulate_simple", ["if disp:\n    sequence = utils.progressbar(sequence, 'Simulating: ')", "tic = 0", "times, values = ([], [])", "for op in sequence:\n    sm = op(sm, inplace=True)\n    tic = np.add(*common.expand_arrays(tic, op.duration, append=True))\n    if isinstance(op, Probe):\n        values.append([(pb or op).acquire(sm, post=op.post) for pb in probes or [op]])\n        times.append(tic)\n    elif callback:\n        callback(sm)", "return (values, times)"])
]

theorem sites_as_modelled : Gen.PuritySites.sites = expected := rfl

end EpgVerif.Tie.PuritySites
