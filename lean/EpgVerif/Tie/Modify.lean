import EpgVerif.Lemmas.ExTac
import EpgVerif.Gen.Functions
import EpgVerif.Model.Sim
/-
  Tie obligations for functions.default_modifier (regenerated in `Gen/Functions.lean` by calling the real function on
  `T(alpha, phi, duration=2)` / `duration=0` with symbolic T1, T2, g, att): the operators it returns, their arguments
  and durations are those of the model's `defaultModifier`.
  Variables: alpha 0, phi 1, T1 2, T2 3, g 4, att 5.
-/
namespace EpgVerif.Tie.Modify
open EpgVerif Ex Sim

theorem kinds : Gen.Modify.full_kinds = ["T", "E"] ∧ Gen.Modify.gonly_kinds = ["T", "P"] ∧
    Gen.Modify.t1only_kinds = ["T", "E"] ∧ Gen.Modify.zerodur_kinds = ["T"] := by decide

theorem durations : Gen.Modify.full_durations = [2, 0, 2] ∧ Gen.Modify.gonly_durations = [2, 0, 2] ∧
    Gen.Modify.t1only_durations = [2, 0, 2] ∧ Gen.Modify.zerodur_durations = [0, 0] := by
  simp [Gen.Modify.full_durations, Gen.Modify.gonly_durations, Gen.Modify.t1only_durations, Gen.Modify.zerodur_durations]

variable (positive isOne : ℂ → Bool)

/-- T1, T2, g, att all given, positive duration: scaled flip angle, then `E(duration, T1, T2, g)` of duration 0 -/
theorem full_tie (env : Nat → ℂ) (hp : positive 2 = true) (h1 : isOne (env 5) = false) :
    defaultModifier positive isOne (some (env 2)) (some (env 3)) (some (env 4)) (some (env 5)) (.op (.T (env 0) (env 1)) 2)
      = [Item.op (.T (eval env Gen.Modify.full_0_0) (eval env Gen.Modify.full_0_1)) 2,
         Item.op (.E (eval env Gen.Modify.full_1_0) (eval env Gen.Modify.full_1_1) (eval env Gen.Modify.full_1_2)
            (eval env Gen.Modify.full_1_3)) 0] := by
  simp [defaultModifier, h1, hp, Item.dur, Gen.Modify.full_0_0, Gen.Modify.full_0_1, Gen.Modify.full_1_0,
    Gen.Modify.full_1_1, Gen.Modify.full_1_2, Gen.Modify.full_1_3, eval]

/-- only g given: precession `P(duration, g)` -/
theorem gonly_tie (env : Nat → ℂ) (hp : positive 2 = true) :
    defaultModifier positive isOne none none (some (env 4)) none (.op (.T (env 0) (env 1)) 2)
      = [Item.op (.T (eval env Gen.Modify.gonly_0_0) (eval env Gen.Modify.gonly_0_1)) 2,
         Item.op (.P (eval env Gen.Modify.gonly_1_0) (eval env Gen.Modify.gonly_1_1)) 0] := by
  simp [defaultModifier, hp, Item.dur, Gen.Modify.gonly_0_0, Gen.Modify.gonly_0_1, Gen.Modify.gonly_1_0,
    Gen.Modify.gonly_1_1, eval]

/-- only T1 given: the missing T2 is 1e10, the missing g is 0 -/
theorem t1only_tie (env : Nat → ℂ) (hp : positive 2 = true) :
    defaultModifier positive isOne (some (env 2)) none none none (.op (.T (env 0) (env 1)) 2)
      = [Item.op (.T (eval env Gen.Modify.t1only_0_0) (eval env Gen.Modify.t1only_0_1)) 2,
         Item.op (.E (eval env Gen.Modify.t1only_1_0) (eval env Gen.Modify.t1only_1_1) (eval env Gen.Modify.t1only_1_2)
            (eval env Gen.Modify.t1only_1_3)) 0] := by
  simp [defaultModifier, hp, Item.dur, Gen.Modify.t1only_0_0, Gen.Modify.t1only_0_1, Gen.Modify.t1only_1_0,
    Gen.Modify.t1only_1_1, Gen.Modify.t1only_1_2, Gen.Modify.t1only_1_3, eval]

/-- zero duration: the operator is returned unchanged -/
theorem zerodur_tie (env : Nat → ℂ) (hp : positive 0 = false) :
    defaultModifier positive isOne (some (env 2)) (some (env 3)) none none (.op (.T (env 0) (env 1)) 0)
      = [Item.op (.T (eval env Gen.Modify.zerodur_0_0) (eval env Gen.Modify.zerodur_0_1)) 0] := by
  simp [defaultModifier, hp, Item.dur, Gen.Modify.zerodur_0_0, Gen.Modify.zerodur_0_1, eval]

/-- `Adc._post`: the phasor is `exp(1j·phase/180·π)`, the factor of `Sim.AdcSpec.post` -/
theorem adc_phasor_tie (env : Nat → ℂ) (v : ℂ) :
    Sim.AdcSpec.post ({ attr := .F0, phase := some (env 0) } : Sim.AdcSpec ℂ) [v]
      = [v * eval env Gen.Probe.adc_phasor_0] := by
  simp [Sim.AdcSpec.post, Gen.Probe.adc_phasor_0, eval]


end EpgVerif.Tie.Modify
