import EpgVerif.Props.C02Run
import EpgVerif.Props.C03
import EpgVerif.Lemmas.ExDefined
import EpgVerif.Lemmas.ExTac
import Mathlib.Data.String.Basic
import Mathlib.Tactic.Abel
import Mathlib.Tactic.IntervalCases
/-
  C03, end to end for one RF pulse: the mixed second derivative.  Two variables `a` (moved by x) and `b` (moved by y)
  drive the flip angle and the phase with slopes (caA, cpA) and (caB, cpB).  If the carried first partials are the first
  derivatives and the carried second partial is the mixed derivative of the state, then
      L H + Σ_q c_q^b D_q J_a + Σ_p c_p^a D_p J_b + Σ_{p,q} c_p^a c_q^b D²_{pq} s
  — the value `order2_accumulates_every_term_once` shows `_apply_order2` stores under (a, b) — is the mixed derivative
  of the new state.
-/
namespace EpgVerif.Props.C03
open EpgVerif Diff Ex Finset EpgVerif.Props.C02

/-- `Σ_p (slope_p of variable a) ∂_p M`, with the slopes read from the environment slots 2, 3 -/
def Ma (M : Nat → Nat → Ex) (i j : Nat) : Ex :=
  Ex.add (Ex.mul (Ex.var 2) (Ex.d 0 (M i j))) (Ex.mul (Ex.var 3) (Ex.d 1 (M i j)))

theorem eval_d_Ma (M : Nat → Nat → Ex) (env : Nat → ℂ) (l : Nat) (hl : l < 2) (i j : Nat) :
    eval env (d l (Ma M i j)) = env 2 * eval env (d l (d 0 (M i j))) + env 3 * eval env (d l (d 1 (M i j))) := by
  have h2 : (2 : Nat) ≠ l := by omega
  have h3 : (3 : Nat) ≠ l := by omega
  simp [Ma, d, eval, h2, h3]

theorem eval_Ma (M : Nat → Nat → Ex) (env : Nat → ℂ) (i j : Nat) :
    eval env (Ma M i j) = env 2 * eval env (d 0 (M i j)) + env 3 * eval env (d 1 (M i j)) := by
  simp [Ma, eval]

/-- **mixed second derivative through a two-parameter matrix operator** -/
theorem mixed_step (M : Nat → Nat → Ex) (al ph : ℝ → ℝ) (caA cpA caB cpB y0 : ℝ)
    (hal : HasDerivAt al caB y0) (hph : HasDerivAt ph cpB y0)
    (hd : ∀ y i j, Defined (envOf [((al y : ℝ) : ℂ), ((ph y : ℝ) : ℂ), (caA : ℂ), (cpA : ℂ)]) (M i j))
    (s Ja : ℝ → PS ℂ) (Jb H : PS ℂ) (hs : PSHasDeriv s Jb y0) (hJ : PSHasDeriv Ja H y0) :
    let env := fun y : ℝ => envOf [((al y : ℝ) : ℂ), ((ph y : ℝ) : ℂ), (caA : ℂ), (cpA : ℂ)]
    let E := fun (f : Ex → Ex) (i j : Nat) => eval (env y0) (f (M i j))
    PSHasDeriv (fun y => PS.mmul (fun i j => eval (env y) (M i j)) (Ja y)
                    + PS.mmul (fun i j => eval (env y) (Ma M i j)) (s y))
      (PS.mmul (E id) H
        + (PS.smul (caB : ℂ) (PS.mmul (E (d 0)) (Ja y0)) + PS.smul (cpB : ℂ) (PS.mmul (E (d 1)) (Ja y0)))
        + (PS.smul (caA : ℂ) (PS.mmul (E (d 0)) Jb) + PS.smul (cpA : ℂ) (PS.mmul (E (d 1)) Jb))
        + (PS.smul ((caA : ℂ) * caB) (PS.mmul (E (fun e => d 0 (d 0 e))) (s y0))
          + PS.smul ((cpA : ℂ) * caB) (PS.mmul (E (fun e => d 0 (d 1 e))) (s y0))
          + PS.smul ((caA : ℂ) * cpB) (PS.mmul (E (fun e => d 1 (d 0 e))) (s y0))
          + PS.smul ((cpA : ℂ) * cpB) (PS.mmul (E (fun e => d 1 (d 1 e))) (s y0)))) y0 := by
  intro env E
  let c : Nat → ℂ := fun j => match j with | 0 => (caB : ℂ) | 1 => (cpB : ℂ) | _ => 0
  have henv : ∀ j, HasDerivAt (fun y => env y j) (c j) y0 := by
    intro j
    match j with
    | 0 => simpa [env, envOf, c] using hal.ofReal_comp
    | 1 => simpa [env, envOf, c] using hph.ofReal_comp
    | 2 => simpa [env, envOf, c] using hasDerivAt_const y0 (caA : ℂ)
    | 3 => simpa [env, envOf, c] using hasDerivAt_const y0 (cpA : ℂ)
    | (n + 4) => simpa [env, envOf, c] using hasDerivAt_const y0 (0 : ℂ)
  have hc : ∀ j, 2 ≤ j → c j = 0 := by
    intro j hj
    match j with
    | 0 => omega
    | 1 => omega
    | (n + 2) => rfl
  have hcr : ∀ j, (starRingEnd ℂ) (c j) = c j := by
    intro j
    match j with
    | 0 => simp [c]
    | 1 => simp [c]
    | (n + 2) => simp [c]
  have hdM : ∀ i j, Defined (env y0) (M i j) := hd y0
  have hdMa : ∀ i j, Defined (env y0) (Ma M i j) := by
    intro i j
    exact ⟨⟨trivial, defined_d _ 0 _ (hdM i j)⟩, ⟨trivial, defined_d _ 1 _ (hdM i j)⟩⟩
  have h1 := mat_step M env c 2 y0 henv hc hcr hdM Ja H hJ
  have h2 := mat_step (Ma M) env c 2 y0 henv hc hcr hdMa s Jb hs
  rw [psSum_two] at h1 h2
  obtain ⟨a1, a2, a3⟩ := h1
  obtain ⟨b1, b2, b3⟩ := h2
  have e2 : env y0 2 = (caA : ℂ) := by simp [env, envOf]
  have e3 : env y0 3 = (cpA : ℂ) := by simp [env, envOf]
  refine ⟨(a1.add b1).congr_deriv ?_, (a2.add b2).congr_deriv ?_, (a3.add b3).congr_deriv ?_⟩ <;>
  · simp only [PS.mmul, PS.smul, PS.add_fp, PS.add_fm, PS.add_z, E, id, c, eval_d_Ma M (env y0) 0 (by norm_num),
      eval_d_Ma M (env y0) 1 (by norm_num), eval_Ma, e2, e3]
    ring


/-! ### what the bookkeeping stores under a mixed pair -/
section bookkeeping
variable {K C : Type} [CommSemiring K] [AddCommMonoid C] [Module K C]

/-- the declaration of an RF pulse whose flip angle and phase both depend on two variables `a < b` -/
def twoVarOp (d0 : C → C) (d1 : Param → C → C) (d2 : PPair → C → C) (a b : Var) (caA cpA caB cpB : K)
    (c2 : List (Param × K) := []) : DOp K C where
  derive0 := d0
  derive1 := d1
  derive2 := d2
  order1 := [(a, [("alpha", caA), ("phi", cpA)]), (b, [("alpha", caB), ("phi", cpB)])]
  order2 := [((a, b), c2)]
  auto := false
  P2 := [("alpha", "alpha"), ("alpha", "phi"), ("phi", "phi")]

theorem pair_lt {a b : String} (h : a < b) : pair a b = (a, b) ∧ pair b a = (a, b) := by
  have h1 : ¬ a > b := by
    intro hgt; exact absurd (lt_trans h hgt) (lt_irrefl a)
  constructor
  · simp [pair, h1]
  · simp [pair, show b > a from h]

/-- **what `_apply_order2` stores under (a, b)** for that declaration -/
theorem twoVar_value (d0 : C → C) (h0 : d0 0 = 0) (d1 : Param → C → C) (d2 : PPair → C → C) (a b : Var) (hab : a < b)
    (caA cpA caB cpB : K) (c2 : List (Param × K)) (s Ja Jb H : C) :
    val (applyOrder2 (modCar (K := K)) (twoVarOp d0 d1 d2 a b caA cpA caB cpB c2) s [(a, Ja), (b, Jb)] [((a, b), H)]) (a, b)
      = d0 H
        + (c2.map (fun pc => pc.2 • d1 pc.1 s)).sum
        + (caB • d1 "alpha" Ja + cpB • d1 "phi" Ja)
        + (caA • d1 "alpha" Jb + cpA • d1 "phi" Jb)
        + ((caA * caB) • d2 ("alpha", "alpha") s + (caA * cpB) • d2 ("alpha", "phi") s
            + (cpA * caB) • d2 ("alpha", "phi") s + (cpA * cpB) • d2 ("phi", "phi") s) := by
  obtain ⟨p1, p2⟩ := pair_lt hab
  have hne : a ≠ b := ne_of_lt hab
  have hs : Sorted (a, b) := by
    intro hgt; exact absurd (lt_trans hab hgt) (lt_irrefl a)
  have hle : a ≤ b := le_of_lt hab
  have hnle : ¬ b ≤ a := not_le.mpr hab
  have hge : b ≥ a := hle
  have hnge : ¬ a ≥ b := hnle
  have hne' : b ≠ a := fun h => hne h.symm
  rw [order2_accumulates_every_term_once _ h0 _ _ _ _ hs]
  -- previous second partial
  have e0 : val (normalize [((a, b), H)]) (a, b) = H := by
    simp [Diff.normalize, pairOf, p1, Diff.insert, hasKey, Diff.val, lookup]
  -- no second-order coefficients declared
  have eA : tot (termsA (modCar (K := K)) (twoVarOp d0 d1 d2 a b caA cpA caB cpB c2) s) (a, b)
      = (c2.map (fun pc => pc.2 • d1 pc.1 s)).sum := by
    have hp : pairOf (a, b) = (a, b) := p1
    simp only [termsA, twoVarOp, List.flatMap_cons, List.flatMap_nil, List.append_nil, hp]
    rw [tot_map_const_key]; simp [modCar]
  -- products of first-order slopes with the second-derivative operators
  have eB : tot (termsB (modCar (K := K)) (twoVarOp d0 d1 d2 a b caA cpA caB cpB c2) s) (a, b)
      = (caA * caB) • d2 ("alpha", "alpha") s + (caA * cpB) • d2 ("alpha", "phi") s
        + (cpA * caB) • d2 ("alpha", "phi") s + (cpA * cpB) • d2 ("phi", "phi") s := by
    rw [termsB_single _ s a b c2 rfl hs]
    have ga : order1Get (twoVarOp d0 d1 d2 a b caA cpA caB cpB c2) a = [("alpha", caA), ("phi", cpA)] := by
      simp [order1Get, twoVarOp, lookup]
    have gb : order1Get (twoVarOp d0 d1 d2 a b caA cpA caB cpB c2) b = [("alpha", caB), ("phi", cpB)] := by
      simp [order1Get, twoVarOp, lookup, hne]
    rw [ga, gb]
    have s1 : supported (twoVarOp d0 d1 d2 a b caA cpA caB cpB c2) "alpha" "alpha" = true := by
      simp (config := {decide := true}) [supported, twoVarOp]
    have s2 : supported (twoVarOp d0 d1 d2 a b caA cpA caB cpB c2) "alpha" "phi" = true := by
      simp (config := {decide := true}) [supported, twoVarOp]
    have s3 : supported (twoVarOp d0 d1 d2 a b caA cpA caB cpB c2) "phi" "alpha" = true := by
      simp (config := {decide := true}) [supported, twoVarOp]
    have s4 : supported (twoVarOp d0 d1 d2 a b caA cpA caB cpB c2) "phi" "phi" = true := by
      simp (config := {decide := true}) [supported, twoVarOp]
    have q1 : pair "alpha" "alpha" = ("alpha", "alpha") := by decide
    have q2 : pair "alpha" "phi" = ("alpha", "phi") := by decide
    have q3 : pair "phi" "alpha" = ("alpha", "phi") := by decide
    have q4 : pair "phi" "phi" = ("phi", "phi") := by decide
    simp only [List.map_cons, List.map_nil, List.sum_cons, List.sum_nil, s1, s2, s3, s4, if_true, q1, q2, q3, q4, add_zero,
      twoVarOp]
    abel
  have paa : pair a a = (a, a) := by simp [pair]
  have pbb : pair b b = (b, b) := by simp [pair]
  have vc : varsCross (twoVarOp d0 d1 d2 a b caA cpA caB cpB c2) [(a, Ja), (b, Jb)] = [(a, b)] := by
    simp [varsCross, twoVarOp, dedup]
  have n1 : ((a, a) : VPair) ≠ (a, b) := by simp [hne]
  have n2 : ((b, b) : VPair) ≠ (a, b) := by simp [hne']
  have eX1 : tot (termsX (modCar (K := K)) (twoVarOp d0 d1 d2 a b caA cpA caB cpB c2) [(a, Ja), (b, Jb)] (fun v1 v2 => v1 ≥ v2)) (a, b)
      = caA • d1 "alpha" Jb + cpA • d1 "phi" Jb := by
    unfold termsX
    rw [vc]
    simp [twoVarOp, paa, pbb, p1, p2, n1, n2, hge, hnge, tot, modCar]
  have eX2 : tot (termsX (modCar (K := K)) (twoVarOp d0 d1 d2 a b caA cpA caB cpB c2) [(a, Ja), (b, Jb)] (fun v1 v2 => v1 ≤ v2)) (a, b)
      = caB • d1 "alpha" Ja + cpB • d1 "phi" Ja := by
    unfold termsX
    rw [vc]
    simp [twoVarOp, paa, pbb, p1, p2, n1, n2, hle, hnle, tot, modCar]
  rw [e0, eA, eB, eX1, eX2]
  simp only [twoVarOp, add_zero]
  abel


end bookkeeping

/-! ### end to end -/

open EpgVerif.Tie in
/-- mixed derivatives of the rotation coefficients commute (as values) -/
theorem T_mixed_symm (env : Nat → ℂ) (i j : Nat) (hi : i < 3) (hj : j < 3) :
    eval env (d 0 (d 1 (Coeff.T.mat i j))) = eval env (d 1 (d 0 (Coeff.T.mat i j))) := by
  interval_cases i <;> interval_cases j <;> ex_eq

/-- **C03 end to end, RF pulse, mixed pair (a, b)**: what `_apply_order2` stores under `(a, b)` for an RF pulse whose flip
    angle and phase depend on the variables `a < b` (slopes `caA, cpA` and `caB, cpB`) is the derivative with respect to
    `b` of the new first partial under `a` — i.e. the mixed second derivative of the new state — whenever the carried
    `J_b`, `H` are the corresponding derivatives of the old state and old `J_a` -/
theorem T_mixed_partial_exact (al ph : ℝ → ℝ) (caA cpA caB cpB y0 : ℝ) (a b : Var) (hab : a < b)
    (hal : HasDerivAt al caB y0) (hph : HasDerivAt ph cpB y0)
    (s Ja : ℝ → PS ℂ) (Jb H : PS ℂ) (hs : PSHasDeriv s Jb y0) (hJ : PSHasDeriv Ja H y0) :
    let env := fun y : ℝ => envOf [((al y : ℝ) : ℂ), ((ph y : ℝ) : ℂ), (caA : ℂ), (cpA : ℂ)]
    let E := fun (f : Ex → Ex) (i j : Nat) => eval (env y0) (f (Coeff.T.mat i j))
    let d0 : PS ℂ → PS ℂ := fun X => PS.mmul (E id) X
    let d1 : Param → PS ℂ → PS ℂ := fun p X => if p = "alpha" then PS.mmul (E (d 0)) X else PS.mmul (E (d 1)) X
    let d2 : PPair → PS ℂ → PS ℂ := fun pp X =>
      if pp = ("alpha", "alpha") then PS.mmul (E (fun e => d 0 (d 0 e))) X
      else if pp = ("alpha", "phi") then PS.mmul (E (fun e => d 1 (d 0 e))) X
      else PS.mmul (E (fun e => d 1 (d 1 e))) X
    -- the first partial under `a` after the pulse, as `_apply_order1` computes it at every y
    PSHasDeriv (fun y => PS.mmul (fun i j => eval (env y) (Coeff.T.mat i j)) (Ja y)
                    + ((caA : ℂ) • PS.mmul (fun i j => eval (env y) (d 0 (Coeff.T.mat i j))) (s y)
                      + (cpA : ℂ) • PS.mmul (fun i j => eval (env y) (d 1 (Coeff.T.mat i j))) (s y)))
      (Diff.val (applyOrder2 (modCar (K := ℂ)) (twoVarOp d0 d1 d2 a b (caA : ℂ) (cpA : ℂ) (caB : ℂ) (cpB : ℂ)) (s y0)
          [(a, Ja y0), (b, Jb)] [((a, b), H)]) (a, b)) y0 := by
  intro env E d0 d1 d2
  have h0 : d0 0 = 0 := by apply PS.ext' <;> simp [d0, PS.mmul]
  rw [twoVar_value d0 h0 d1 d2 a b hab]
  simp only [List.map_nil, List.sum_nil, add_zero]
  have hd : ∀ y i j, Defined (env y) (Coeff.T.mat i j) := fun y i j => rotation_defined _ i j
  have hm := mixed_step Coeff.T.mat al ph caA cpA caB cpB y0 hal hph hd s Ja Jb H hs hJ
  -- same function
  have hf : (fun y => PS.mmul (fun i j => eval (env y) (Coeff.T.mat i j)) (Ja y)
                    + PS.mmul (fun i j => eval (env y) (Ma Coeff.T.mat i j)) (s y))
      = (fun y => PS.mmul (fun i j => eval (env y) (Coeff.T.mat i j)) (Ja y)
                    + ((caA : ℂ) • PS.mmul (fun i j => eval (env y) (d 0 (Coeff.T.mat i j))) (s y)
                      + (cpA : ℂ) • PS.mmul (fun i j => eval (env y) (d 1 (Coeff.T.mat i j))) (s y))) := by
    funext y
    have e2 : env y 2 = (caA : ℂ) := by simp [env, envOf]
    have e3 : env y 3 = (cpA : ℂ) := by simp [env, envOf]
    apply PS.ext' <;> simp [PS.mmul, eval_Ma, e2, e3, smul_eq_PSsmul, PS.smul] <;> ring
  rw [← hf]
  refine hm.congr_deriv ?_
  -- same value: the mixed coefficient derivatives commute
  have hsy : ∀ i j, i < 3 → j < 3 → eval (envOf [((al y0 : ℝ) : ℂ), ((ph y0 : ℝ) : ℂ), (caA : ℂ), (cpA : ℂ)]) (d 0 (d 1 (Coeff.T.mat i j))) = eval (envOf [((al y0 : ℝ) : ℂ), ((ph y0 : ℝ) : ℂ), (caA : ℂ), (cpA : ℂ)]) (d 1 (d 0 (Coeff.T.mat i j))) :=
    fun i j hi hj => T_mixed_symm _ i j hi hj
  have q00 := hsy 0 0 (by norm_num) (by norm_num)
  have q01 := hsy 0 1 (by norm_num) (by norm_num)
  have q02 := hsy 0 2 (by norm_num) (by norm_num)
  have q10 := hsy 1 0 (by norm_num) (by norm_num)
  have q11 := hsy 1 1 (by norm_num) (by norm_num)
  have q12 := hsy 1 2 (by norm_num) (by norm_num)
  have q20 := hsy 2 0 (by norm_num) (by norm_num)
  have q21 := hsy 2 1 (by norm_num) (by norm_num)
  have q22 := hsy 2 2 (by norm_num) (by norm_num)
  apply PS.ext' <;>
  · simp only [d0, d1, d2, E, id, if_true, smul_eq_PSsmul, String.reduceEq, if_false, Prod.mk.injEq, and_true, and_false,
      PS.mmul, PS.smul, PS.add_fp, PS.add_fm, PS.add_z, q00, q01, q02, q10, q11, q12, q20, q21, q22]
    ring

/-! ### non-linear parameter expressions

When the flip angle and the phase are non-linear functions of the two variables (as the `Sequence` layer produces), the
slopes of `a` themselves move with `b`: `sa, sp : ℝ → ℝ` with derivatives `c2a = ∂²α/∂a∂b`, `c2p = ∂²φ/∂a∂b`, which
the declaration carries as second-order coefficients `order2 = {(a, b): {alpha: c2a, phi: c2p}}`. -/

theorem PSHasDeriv.rsmul {g : ℝ → ℝ} {g' y0 : ℝ} (hg : HasDerivAt g g' y0) {v : ℝ → PS ℂ} {v' : PS ℂ}
    (hv : PSHasDeriv v v' y0) :
    PSHasDeriv (fun y => PS.smul ((g y : ℝ) : ℂ) (v y)) (PS.smul ((g y0 : ℝ) : ℂ) v' + PS.smul ((g' : ℝ) : ℂ) (v y0)) y0 := by
  obtain ⟨h1, h2, h3⟩ := hv
  have hc := hg.ofReal_comp
  refine ⟨(hc.mul h1).congr_deriv ?_, (hc.mul h2).congr_deriv ?_, (hc.mul h3).congr_deriv ?_⟩ <;>
  · simp only [PS.smul, PS.add_fp, PS.add_fm, PS.add_z]; ring

theorem PSHasDeriv.add' {u v : ℝ → PS ℂ} {u' v' : PS ℂ} {y0 : ℝ} (hu : PSHasDeriv u u' y0) (hv : PSHasDeriv v v' y0) :
    PSHasDeriv (fun y => u y + v y) (u' + v') y0 :=
  ⟨hu.1.add hv.1, hu.2.1.add hv.2.1, hu.2.2.add hv.2.2⟩

/-- **mixed second derivative through a two-parameter matrix operator, non-linear dependence** -/
theorem mixed_step_nl (M : Nat → Nat → Ex) (al ph sa sp : ℝ → ℝ) (caB cpB c2a c2p y0 : ℝ)
    (hal : HasDerivAt al caB y0) (hph : HasDerivAt ph cpB y0) (hsa : HasDerivAt sa c2a y0) (hsp : HasDerivAt sp c2p y0)
    (hd : ∀ i j, Defined (envOf [((al y0 : ℝ) : ℂ), ((ph y0 : ℝ) : ℂ)]) (M i j))
    (s Ja : ℝ → PS ℂ) (Jb H : PS ℂ) (hs : PSHasDeriv s Jb y0) (hJ : PSHasDeriv Ja H y0) :
    let env := fun y : ℝ => envOf [((al y : ℝ) : ℂ), ((ph y : ℝ) : ℂ)]
    let E := fun (f : Ex → Ex) (i j : Nat) => eval (env y0) (f (M i j))
    PSHasDeriv (fun y => PS.mmul (fun i j => eval (env y) (M i j)) (Ja y)
                    + (PS.smul ((sa y : ℝ) : ℂ) (PS.mmul (fun i j => eval (env y) (d 0 (M i j))) (s y))
                      + PS.smul ((sp y : ℝ) : ℂ) (PS.mmul (fun i j => eval (env y) (d 1 (M i j))) (s y))))
      (PS.mmul (E id) H
        + (PS.smul (c2a : ℂ) (PS.mmul (E (d 0)) (s y0)) + PS.smul (c2p : ℂ) (PS.mmul (E (d 1)) (s y0)))
        + (PS.smul (caB : ℂ) (PS.mmul (E (d 0)) (Ja y0)) + PS.smul (cpB : ℂ) (PS.mmul (E (d 1)) (Ja y0)))
        + (PS.smul ((sa y0 : ℝ) : ℂ) (PS.mmul (E (d 0)) Jb) + PS.smul ((sp y0 : ℝ) : ℂ) (PS.mmul (E (d 1)) Jb))
        + (PS.smul (((sa y0 : ℝ) : ℂ) * caB) (PS.mmul (E (fun e => d 0 (d 0 e))) (s y0))
          + PS.smul (((sp y0 : ℝ) : ℂ) * caB) (PS.mmul (E (fun e => d 0 (d 1 e))) (s y0))
          + PS.smul (((sa y0 : ℝ) : ℂ) * cpB) (PS.mmul (E (fun e => d 1 (d 0 e))) (s y0))
          + PS.smul (((sp y0 : ℝ) : ℂ) * cpB) (PS.mmul (E (fun e => d 1 (d 1 e))) (s y0)))) y0 := by
  intro env E
  let c : Nat → ℂ := fun j => match j with | 0 => (caB : ℂ) | 1 => (cpB : ℂ) | _ => 0
  have henv : ∀ j, HasDerivAt (fun y => env y j) (c j) y0 := by
    intro j
    match j with
    | 0 => simpa [env, envOf, c] using hal.ofReal_comp
    | 1 => simpa [env, envOf, c] using hph.ofReal_comp
    | (n + 2) => simpa [env, envOf, c] using hasDerivAt_const y0 (0 : ℂ)
  have hc : ∀ j, 2 ≤ j → c j = 0 := by
    intro j hj
    match j with
    | 0 => omega
    | 1 => omega
    | (n + 2) => rfl
  have hcr : ∀ j, (starRingEnd ℂ) (c j) = c j := by
    intro j
    match j with
    | 0 => simp [c]
    | 1 => simp [c]
    | (n + 2) => simp [c]
  have hdM : ∀ i j, Defined (env y0) (M i j) := hd
  have hd0 : ∀ i j, Defined (env y0) (d 0 (M i j)) := fun i j => defined_d _ 0 _ (hdM i j)
  have hd1 : ∀ i j, Defined (env y0) (d 1 (M i j)) := fun i j => defined_d _ 1 _ (hdM i j)
  have h1 := mat_step M env c 2 y0 henv hc hcr hdM Ja H hJ
  have h2 := mat_step (fun i j => d 0 (M i j)) env c 2 y0 henv hc hcr hd0 s Jb hs
  have h3 := mat_step (fun i j => d 1 (M i j)) env c 2 y0 henv hc hcr hd1 s Jb hs
  rw [psSum_two] at h1 h2 h3
  have h2' := PSHasDeriv.rsmul hsa h2
  have h3' := PSHasDeriv.rsmul hsp h3
  have hall := PSHasDeriv.add' h1 (PSHasDeriv.add' h2' h3')
  obtain ⟨a1, a2, a3⟩ := hall
  refine ⟨a1.congr_deriv ?_, a2.congr_deriv ?_, a3.congr_deriv ?_⟩ <;>
  · simp only [PS.mmul, PS.smul, PS.add_fp, PS.add_fm, PS.add_z, E, id, c]
    ring

/-- **C03 end to end, RF pulse, mixed pair (a, b), non-linear parameter expressions**: the value `_apply_order2` stores
    under `(a, b)` for the declaration `order1 = {a: {alpha: sa, phi: sp}, b: {alpha: caB, phi: cpB}}`,
    `order2 = {(a, b): {alpha: c2a, phi: c2p}}` is the derivative with respect to `b` of the new first partial under
    `a`, where the slopes `sa, sp` of `a` themselves depend on `b` with derivatives `c2a, c2p` -/
theorem T_mixed_partial_exact_nl (al ph sa sp : ℝ → ℝ) (caB cpB c2a c2p y0 : ℝ) (a b : Var) (hab : a < b)
    (hal : HasDerivAt al caB y0) (hph : HasDerivAt ph cpB y0) (hsa : HasDerivAt sa c2a y0) (hsp : HasDerivAt sp c2p y0)
    (s Ja : ℝ → PS ℂ) (Jb H : PS ℂ) (hs : PSHasDeriv s Jb y0) (hJ : PSHasDeriv Ja H y0) :
    let env := fun y : ℝ => envOf [((al y : ℝ) : ℂ), ((ph y : ℝ) : ℂ)]
    let E := fun (f : Ex → Ex) (i j : Nat) => eval (env y0) (f (Coeff.T.mat i j))
    let d0 : PS ℂ → PS ℂ := fun X => PS.mmul (E id) X
    let d1 : Param → PS ℂ → PS ℂ := fun p X => if p = "alpha" then PS.mmul (E (d 0)) X else PS.mmul (E (d 1)) X
    let d2 : PPair → PS ℂ → PS ℂ := fun pp X =>
      if pp = ("alpha", "alpha") then PS.mmul (E (fun e => d 0 (d 0 e))) X
      else if pp = ("alpha", "phi") then PS.mmul (E (fun e => d 1 (d 0 e))) X
      else PS.mmul (E (fun e => d 1 (d 1 e))) X
    PSHasDeriv (fun y => PS.mmul (fun i j => eval (env y) (Coeff.T.mat i j)) (Ja y)
                    + (((sa y : ℝ) : ℂ) • PS.mmul (fun i j => eval (env y) (d 0 (Coeff.T.mat i j))) (s y)
                      + ((sp y : ℝ) : ℂ) • PS.mmul (fun i j => eval (env y) (d 1 (Coeff.T.mat i j))) (s y)))
      (Diff.val (applyOrder2 (modCar (K := ℂ))
          (twoVarOp d0 d1 d2 a b ((sa y0 : ℝ) : ℂ) ((sp y0 : ℝ) : ℂ) (caB : ℂ) (cpB : ℂ) [("alpha", (c2a : ℂ)), ("phi", (c2p : ℂ))])
          (s y0) [(a, Ja y0), (b, Jb)] [((a, b), H)]) (a, b)) y0 := by
  intro env E d0 d1 d2
  have h0 : d0 0 = 0 := by apply PS.ext' <;> simp [d0, PS.mmul]
  rw [twoVar_value d0 h0 d1 d2 a b hab]
  have hd : ∀ i j, Defined (env y0) (Coeff.T.mat i j) := fun i j => rotation_defined _ i j
  have hm := mixed_step_nl Coeff.T.mat al ph sa sp caB cpB c2a c2p y0 hal hph hsa hsp hd s Ja Jb H hs hJ
  refine hm.congr_deriv ?_
  have hsy : ∀ i j, i < 3 → j < 3 → eval (envOf [((al y0 : ℝ) : ℂ), ((ph y0 : ℝ) : ℂ)]) (d 0 (d 1 (Coeff.T.mat i j))) = eval (envOf [((al y0 : ℝ) : ℂ), ((ph y0 : ℝ) : ℂ)]) (d 1 (d 0 (Coeff.T.mat i j))) :=
    fun i j hi hj => T_mixed_symm _ i j hi hj
  have q00 := hsy 0 0 (by norm_num) (by norm_num)
  have q01 := hsy 0 1 (by norm_num) (by norm_num)
  have q02 := hsy 0 2 (by norm_num) (by norm_num)
  have q10 := hsy 1 0 (by norm_num) (by norm_num)
  have q11 := hsy 1 1 (by norm_num) (by norm_num)
  have q12 := hsy 1 2 (by norm_num) (by norm_num)
  have q20 := hsy 2 0 (by norm_num) (by norm_num)
  have q21 := hsy 2 1 (by norm_num) (by norm_num)
  have q22 := hsy 2 2 (by norm_num) (by norm_num)
  apply PS.ext' <;>
  · simp only [d0, d1, d2, E, id, if_true, smul_eq_PSsmul, String.reduceEq, if_false, Prod.mk.injEq, and_true, and_false,
      List.map_cons, List.map_nil, List.sum_cons, List.sum_nil,
      PS.mmul, PS.smul, PS.add_fp, PS.add_fm, PS.add_z, PS.zero_fp, PS.zero_fm, PS.zero_z, q00, q01, q02, q10, q11, q12, q20, q21, q22]
    ring

end EpgVerif.Props.C03
