import EpgVerif.Props.C02
import EpgVerif.Props.C03
/-
  C19 — differentiation is non-intrusive and independent of what else is derived.
-/
namespace EpgVerif.Props.C19
open EpgVerif Diff

/-- **non-intrusive**: whatever is declared (any order1 / order2 / flag), the state matrix an
    operator returns is the one the plain operator returns. -/
theorem state_unaffected (o : Opts) (op : Op ℂ) (dc : Decl ℂ) (ds : DS ℂ) (mirror : Bool) :
    (callOp o op dc ds mirror).sm = applyOp o op ds.sm := by
  unfold callOp; split <;> rfl

/-- hence for whole programs: the simulated state does not depend on the declarations -/
theorem run_state_unaffected (o : Opts) (prog : List (Op ℂ × Decl ℂ)) (ds : DS ℂ) :
    (runD o prog ds).sm = run o (prog.map (·.1)) ds.sm := by
  induction prog generalizing ds with
  | nil => rfl
  | cons x rest ih =>
    obtain ⟨op, dc⟩ := x
    simp only [runD, List.map_cons, run]
    rw [ih, state_unaffected]

section independence
variable {K C : Type} [Semiring K] [AddCommMonoid C] [Module K C]

/-- **column independence** (first order): the partial for `v` after an operator depends only on
    the previous partial for `v` and on the operator's declarations *for `v`* — adding, removing or
    changing declarations of other variables, or carrying other partials, changes nothing. -/
theorem column_independent (op op' : DOp K C) (h0 : op.derive0 0 = 0)
    (hd0 : op'.derive0 = op.derive0) (hd1 : op'.derive1 = op.derive1) (s : C)
    (o1 o1' : List (Var × C)) (v : Var)
    (hdecl : op'.order1.filter (fun e => e.1 = v) = op.order1.filter (fun e => e.1 = v))
    (hprev : val o1' v = val o1 v) :
    val (applyOrder1 (modCar (K := K)) op' s o1') v = val (applyOrder1 (modCar (K := K)) op s o1) v := by
  rw [C02.order1_refines_jet op h0, C02.order1_refines_jet op' (by rw [hd0]; exact h0), hd0, hd1, hdecl, hprev]

/-- **renaming**: the value under a variable does not depend on its name — declaring the same
    coefficients under another (fresh) name yields the same partial under the new name. -/
theorem rename_single (op : DOp K C) (h0 : op.derive0 0 = 0) (s : C) (v w : Var) (ps : List (Param × K))
    (op' : DOp K C) (hd0 : op'.derive0 = op.derive0) (hd1 : op'.derive1 = op.derive1)
    (h1 : op.order1 = [(v, ps)]) (h1' : op'.order1 = [(w, ps)]) :
    val (applyOrder1 (modCar (K := K)) op' s []) w = val (applyOrder1 (modCar (K := K)) op s []) v := by
  rw [C02.order1_refines_jet op h0, C02.order1_refines_jet op' (by rw [hd0]; exact h0), hd0, hd1, h1, h1']
  simp [val, lookup_nil]

end independence
end EpgVerif.Props.C19
