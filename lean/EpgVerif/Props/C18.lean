import EpgVerif.Lemmas.RFLemmas
import EpgVerif.Lemmas.SimLemmas
import EpgVerif.Model.RF
import EpgVerif.Props.C08
/-
  C18 — a shaped RF pulse is the ordered product of hard pulses and evolutions; a phase offset is a
  rotation of all samples; constant-phase waveforms on resonance are one rotation by the summed angle;
  estimate_rf / estimate_alpha are mutual inverses on [0°, 180°); the pulse keeps its duration.
-/
namespace EpgVerif.Props.C18
open EpgVerif Sim RF Complex SM

/-! ### the pulse *is* the ordered product (by construction of the model; the model is tied by execution) -/

theorem runItems_append (o : Opts) (xs ys : List (Item ℂ)) (s : SM ℂ) :
    runItems o (xs ++ ys) s = runItems o ys (runItems o xs s) := by
  induction xs generalizing s with
  | nil => rfl
  | cons x xs ih => simp only [List.cons_append, runItems]; exact ih _

/-- `RFPulse(values, durations, rf)` without offset and evolution acts as the hard pulses
    `T(180·|v_i|·rf, arg v_i)` applied in order -/
theorem pulse_is_ordered_product (o : Opts) (rf : ℂ) (v : Sample ℂ) (vs : List (Sample ℂ)) (d : ℂ) (ds : List ℂ) (s : SM ℂ) :
    runItems o (makePulseSequence rf (v :: vs) (d :: ds) none) s
      = runItems o (makePulseSequence rf vs ds none) (applyOp o (.T (180 * v.mag * rf) v.ang) s) := by
  simp [makePulseSequence, pulseCore, runItems, Item.toSOp]

/-- with T1/T2/g every hard pulse of positive duration is followed by the evolution over its own share -/
theorem pulse_with_relaxation_step (o : Opts) (positive isOne : ℂ → Bool) (rf : ℂ) (v : Sample ℂ) (vs : List (Sample ℂ))
    (d : ℂ) (ds : List ℂ) (T1 T2 g : ℂ) (hd : positive d = true) (s : SM ℂ) :
    runItems o (rfpulse positive isOne rf (v :: vs) (d :: ds) none (some T1) (some T2) (some g)) s
      = runItems o (rfpulse positive isOne rf vs ds none (some T1) (some T2) (some g))
          (applyOp o (.E d T1 T2 g) (applyOp o (.T (180 * v.mag * rf) v.ang) s)) := by
  simp [rfpulse, makePulseSequence, pulseCore, modifyItems, defaultModifier, Item.dur, hd, runItems, Item.toSOp]

/-! ### phase offset -/

/-- multiply a sample by `exp(i·offset)`: same magnitude, phase advanced -/
def rot (off : ℂ) (v : Sample ℂ) : Sample ℂ := ⟨v.mag, v.ang + off⟩

def shiftPhase (off : ℂ) : Item ℂ → Item ℂ
  | .op (.T a p) d => .op (.T a (p + off)) d
  | it => it

/-- hard pulses and evolutions (what a pulse is made of) -/
def PulseLike : Item ℂ → Prop
  | .op (.T _ _) _ => True
  | .op (.E _ _ _ _) _ => True
  | .op (.P _ _) _ => True
  | _ => False

theorem matApply_comp2 (m1 m2 m3 m4 : Nat → Nat → ℂ) (s : SM ℂ)
    (h : ∀ v, PS.mmul m1 (PS.mmul m2 v) = PS.mmul m3 (PS.mmul m4 v)) :
    matApply m1 (matApply m2 s) = matApply m3 (matApply m4 s) := by
  show mk' (matApply m2 s).n _ _ = mk' (matApply m4 s).n _ _
  have hn : (matApply m2 s).n = s.n := rfl
  have hn' : (matApply m4 s).n = s.n := rfl
  rw [hn, hn']
  apply SM.mk'_congr
  · intro k _; rw [get_matApply, get_matApply]; exact h _
  · intro k hk; unfold matApply; rw [geq_mk', geq_mk', hk]

theorem T_Phi_swap (a p off : ℂ) (v : PS ℂ) :
    PS.mmul (coeffT a p) (PS.mmul (coeffPhi (-off)) v) = PS.mmul (coeffPhi (-off)) (PS.mmul (coeffT a (p + off)) v) := by
  rw [← T_offset a p off v]
  have := Phi_inverse (-off) (PS.mmul (coeffT a p) (PS.mmul (coeffPhi (-off)) v))
  rw [neg_neg] at this
  exact this.symm

theorem sized_apply (o : Opts) (it : Item ℂ) (s : SM ℂ) (h : PulseLike it) : ((it.toSOp o).apply s).Sized := by
  match it, h with
  | .op (.T _ _) _, _ => exact sized_matApply _ _
  | .op (.E _ _ _ _) _, _ => exact sized_scalApply _ _ _
  | .op (.P _ _) _, _ => exact sized_scalApply _ _ _

/-- one item: applying it after `Phi(−off)` is applying the phase-shifted item before `Phi(−off)` -/
theorem item_Phi_swap (o : Opts) (off : ℂ) (it : Item ℂ) (h : PulseLike it) (s : SM ℂ) :
    (it.toSOp o).apply (matApply (coeffPhi (-off)) s) = matApply (coeffPhi (-off)) (((shiftPhase off it).toSOp o).apply s) := by
  match it, h with
  | .op (.T a p) d, _ =>
    simp only [Item.toSOp, shiftPhase, applyOp]
    exact matApply_comp2 _ _ _ _ s (T_Phi_swap a p off)
  | .op (.E tau T1 T2 g) d, _ =>
    simp only [Item.toSOp, shiftPhase, applyOp]
    exact (matApply_scalApply_comm _ _ _ s (Phi_diag _) (Phi_22 _) (by simp [Coeff.E.arr0, Ex.eval]) (by simp [Coeff.E.arr0, Ex.eval])).symm
  | .op (.P tau g) d, _ =>
    simp only [Item.toSOp, shiftPhase, applyOp]
    exact (matApply_scalApply_comm _ _ _ s (Phi_diag _) (Phi_22 _) rfl rfl).symm

/-- **a phase offset equals rotating every sample**: `Phi(−off)`, the pulse, `Phi(off)` act as the pulse
    with every hard-pulse phase advanced by `off` (evolutions unchanged) -/
theorem offset_general (o : Opts) (off : ℂ) (items : List (Item ℂ)) (h : ∀ it ∈ items, PulseLike it)
    (s : SM ℂ) (hs : s.Sized) :
    matApply (coeffPhi off) (runItems o items (matApply (coeffPhi (-off)) s))
      = runItems o (items.map (shiftPhase off)) s := by
  induction items generalizing s with
  | nil =>
    simp only [runItems, List.map_nil]
    rw [matApply_comp _ _ (fun i j => if i = j then 1 else 0) s (fun v => by
      rw [Phi_inverse]; apply PS.ext' <;> simp [PS.mmul])]
    exact matApply_id _ s hs (fun v => by apply PS.ext' <;> simp [PS.mmul])
  | cons it rest ih =>
    simp only [runItems, List.map_cons]
    rw [item_Phi_swap o off it (h it List.mem_cons_self)]
    have hsh : PulseLike (shiftPhase off it) := by
      have := h it List.mem_cons_self
      match it, this with
      | .op (.T _ _) _, _ => trivial
      | .op (.E _ _ _ _) _, _ => trivial
      | .op (.P _ _) _, _ => trivial
    exact ih (fun x hx => h x (List.mem_cons_of_mem _ hx)) _ (sized_apply o _ s hsh)

theorem pulseCore_pulseLike (rf : ℂ) (vs : List (Sample ℂ)) (ds : List ℂ) : ∀ it ∈ pulseCore rf vs ds, PulseLike it := by
  induction vs generalizing ds with
  | nil => intro it h; simp [pulseCore] at h
  | cons v vs ih =>
    cases ds with
    | nil => intro it h; simp [pulseCore] at h
    | cons d ds =>
      intro it h
      simp only [pulseCore, List.mem_cons] at h
      rcases h with h | h
      · subst h; trivial
      · exact ih ds it h

theorem pulseCore_shift (rf off : ℂ) (vs : List (Sample ℂ)) (ds : List ℂ) :
    (pulseCore rf vs ds).map (shiftPhase off) = pulseCore rf (vs.map (rot off)) ds := by
  induction vs generalizing ds with
  | nil => simp [pulseCore]
  | cons v vs ih =>
    cases ds with
    | nil => simp [pulseCore]
    | cons d ds => simp [pulseCore, shiftPhase, rot, ih]

/-- **`phi=` offset of an RF pulse = all samples multiplied by `exp(i·phi)`** (no evolution) -/
theorem pulse_offset (o : Opts) (rf off : ℂ) (vs : List (Sample ℂ)) (ds : List ℂ) (s : SM ℂ) (hs : s.Sized) :
    runItems o (makePulseSequence rf vs ds (some off)) s
      = runItems o (makePulseSequence rf (vs.map (rot off)) ds none) s := by
  simp only [makePulseSequence]
  rw [runItems_append, runItems_append]
  simp only [runItems, Item.toSOp, applyOp]
  rw [offset_general o off _ (pulseCore_pulseLike rf vs ds) s hs, pulseCore_shift]

theorem evol_pulseLike (T1 T2 g : Option ℂ) (d : ℂ) : ∀ it ∈ evol T1 T2 g d, PulseLike it := by
  intro it h
  cases T1 <;> cases T2 <;> cases g <;> simp [evol] at h <;> subst h <;> trivial

theorem modify_pulseLike (positive isOne : ℂ → Bool) (T1 T2 g : Option ℂ) (items : List (Item ℂ))
    (h : ∀ it ∈ items, PulseLike it) : ∀ it ∈ modifyItems positive isOne T1 T2 g none items, PulseLike it := by
  intro it hit
  simp only [modifyItems, List.mem_flatMap] at hit
  obtain ⟨x, hx, hit⟩ := hit
  rw [defaultModifier_none] at hit
  rcases List.mem_cons.mp hit with hit | hit
  · subst hit; exact h _ hx
  · split at hit
    · exact evol_pulseLike _ _ _ _ it hit
    · simp at hit

theorem shiftPhase_dur (off : ℂ) (x : Item ℂ) : (shiftPhase off x).dur = x.dur := by
  cases x with
  | op y d => cases y <;> rfl
  | adc a d => rfl

theorem evol_shift (T1 T2 g : Option ℂ) (d off : ℂ) : (evol T1 T2 g d).map (shiftPhase off) = evol T1 T2 g d := by
  cases T1 <;> cases T2 <;> cases g <;> simp [evol, shiftPhase]

theorem modify_shift (positive isOne : ℂ → Bool) (T1 T2 g : Option ℂ) (off : ℂ) (items : List (Item ℂ)) :
    (modifyItems positive isOne T1 T2 g none items).map (shiftPhase off)
      = modifyItems positive isOne T1 T2 g none (items.map (shiftPhase off)) := by
  induction items with
  | nil => rfl
  | cons x rest ih =>
    rw [List.map_cons, modifyItems_cons, modifyItems_cons, List.map_append, ih, defaultModifier_none,
      defaultModifier_none, shiftPhase_dur]
    congr 1
    simp only [List.map_cons]
    congr 1
    split
    · exact evol_shift _ _ _ _ _
    · rfl

/-- **`phi=` offset with relaxation/precession interleaved** -/
theorem rfpulse_offset (o : Opts) (positive isOne : ℂ → Bool) (hp : positive 0 = false) (rf off : ℂ)
    (vs : List (Sample ℂ)) (ds : List ℂ) (T1 T2 g : Option ℂ) (s : SM ℂ) (hs : s.Sized) :
    runItems o (rfpulse positive isOne rf vs ds (some off) T1 T2 g) s
      = runItems o (rfpulse positive isOne rf (vs.map (rot off)) ds none T1 T2 g) s := by
  by_cases hnone : T1 = none ∧ T2 = none ∧ g = none
  · obtain ⟨h1, h2, h3⟩ := hnone
    subst h1 h2 h3
    simp only [rfpulse]
    exact pulse_offset o rf off vs ds s hs
  · have hr : ∀ (samples : List (Sample ℂ)) (offset : Option ℂ), rfpulse positive isOne rf samples ds offset T1 T2 g
        = modifyItems positive isOne (some (T1.getD ((10000000000 : ℚ) : ℂ))) (some (T2.getD ((10000000000 : ℚ) : ℂ)))
            (some (g.getD 0)) none (makePulseSequence rf samples ds offset) := by
      intro samples offset
      unfold rfpulse
      cases T1 <;> cases T2 <;> cases g <;> simp_all
    rw [hr, hr]
    have hphi : ∀ (A B C : Option ℂ) (x : ℂ), modifyItems positive isOne A B C none [Item.op (Op.Phi x) 0] = [Item.op (Op.Phi x) 0] := by
      intro A B C x
      rw [modifyItems_cons, defaultModifier_none]
      simp [modifyItems, Item.dur, hp]
    simp only [makePulseSequence]
    rw [modifyItems_append, modifyItems_append, hphi, hphi, runItems_append, runItems_append]
    simp only [runItems, Item.toSOp, applyOp]
    rw [offset_general o off _ (modify_pulseLike _ _ _ _ _ _ (pulseCore_pulseLike rf vs ds)) s hs, modify_shift, pulseCore_shift]

/-! ### constant-phase waveforms on resonance -/

/-- sample `x·exp(iφ)` with real signed amplitude `x`, as `np.abs` / `np.angle` read it (up to 360°) -/
noncomputable def sampleOf (φ : ℂ) (x : ℝ) : Sample ℂ := ⟨((|x| : ℝ) : ℂ), if 0 ≤ x then φ else φ + 180⟩

theorem T_sampleOf (rf : ℝ) (φ : ℂ) (x : ℝ) (v : PS ℂ) :
    PS.mmul (coeffT (ofRat 180 * (sampleOf φ x).mag * rf) (sampleOf φ x).ang) v = PS.mmul (coeffT (180 * (x : ℂ) * rf) φ) v := by
  rw [show (ofRat 180 : ℂ) = 180 by simp]
  unfold sampleOf
  by_cases hx : 0 ≤ x
  · simp [hx, abs_of_nonneg hx]
  · have hx' : x < 0 := not_le.mp hx
    simp only [hx, if_false, abs_of_neg hx']
    rw [T_phase_180]
    congr 2
    push_cast; ring

theorem constant_phase_acc (o : Opts) (rf : ℝ) (φ : ℂ) (xs : List ℝ) (ds : List ℂ) (hlen : ds.length = xs.length)
    (acc : ℂ) (s : SM ℂ) :
    runItems o (pulseCore (rf : ℂ) (xs.map (sampleOf φ)) ds) (matApply (coeffT acc φ) s)
      = matApply (coeffT (acc + 180 * ((xs.sum : ℝ) : ℂ) * rf) φ) s := by
  induction xs generalizing ds acc with
  | nil => simp [pulseCore, runItems]
  | cons x xs ih =>
    cases ds with
    | nil => simp at hlen
    | cons d ds =>
      simp only [List.map_cons, pulseCore, runItems, Item.toSOp, applyOp]
      rw [matApply_comp _ _ (coeffT (acc + 180 * (x : ℂ) * rf) φ) s (fun v => by
        rw [T_sampleOf, T_same_axis]; congr 2; ring)]
      rw [ih ds (by simpa using hlen)]
      congr 2
      push_cast [List.sum_cons]; ring

/-- **constant-phase waveform, on resonance, no relaxation = one rotation** by `180·rf·Σ x_i` about the
    common axis (negative samples are the samples of phase φ+180°) -/
theorem constant_phase_pulse (o : Opts) (rf : ℝ) (φ : ℂ) (x : ℝ) (xs : List ℝ) (d : ℂ) (ds : List ℂ)
    (hlen : ds.length = xs.length) (s : SM ℂ) :
    runItems o (makePulseSequence (rf : ℂ) ((x :: xs).map (sampleOf φ)) (d :: ds) none) s
      = matApply (coeffT (180 * (((x :: xs).sum : ℝ) : ℂ) * rf) φ) s := by
  simp only [makePulseSequence, List.map_cons, pulseCore, runItems, Item.toSOp, applyOp]
  rw [matApply_congr _ (coeffT (180 * (x : ℂ) * rf) φ) s (T_sampleOf rf φ x)]
  rw [constant_phase_acc o rf φ xs ds hlen]
  congr 2
  push_cast [List.sum_cons]; ring

/-- with `rf = estimate_rf(values, α) = α/180/|Σ values|` and a positive signed sum, that rotation is
    the target `T(α, φ)` -/
theorem estimate_rf_hits_target (α S : ℝ) (hS : 0 < S) : 180 * S * (α / 180 / |S|) = α := by
  rw [abs_of_pos hS]; field_simp

/-- `estimate_alpha` reads the flip angle back from the longitudinal magnetisation `cos θ` of the rotated
    equilibrium (`T_equilibrium_z`): on [0°, 180°] it returns the angle itself, hence
    `estimate_alpha ∘ estimate_rf = id` and `estimate_rf ∘ estimate_alpha = id` there -/
theorem estimate_alpha_reads_angle (θ : ℝ) (h0 : 0 ≤ θ) (h1 : θ ≤ 180) :
    Real.arccos (Real.cos (Real.pi / 180 * θ)) / Real.pi * 180 = θ := by
  have hpi := Real.pi_pos
  rw [Real.arccos_cos]
  · field_simp
  · positivity
  · calc Real.pi / 180 * θ ≤ Real.pi / 180 * 180 := by
          apply mul_le_mul_of_nonneg_left h1; positivity
      _ = Real.pi := by field_simp

theorem estimate_roundtrip (α S : ℝ) (hS : 0 < S) (h0 : 0 ≤ α) (h1 : α ≤ 180) :
    Real.arccos (Real.cos (Real.pi / 180 * (180 * S * (α / 180 / |S|)))) / Real.pi * 180 = α := by
  rw [estimate_rf_hits_target α S hS]; exact estimate_alpha_reads_angle α h0 h1

/-! ### duration -/

theorem scalar_durations_sum (n : Nat) (hn : 0 < n) (d : ℂ) : (scalarDurations n d).sum = d := by
  have hn' : ((n : ℚ) : ℂ) ≠ 0 := by
    have : (n : ℚ) ≠ 0 := by positivity
    exact_mod_cast this
  simp only [scalarDurations, List.sum_replicate, ofRat_C, nsmul_eq_mul]
  push_cast at hn' ⊢
  field_simp

theorem pulseCore_duration (rf : ℂ) (vs : List (Sample ℂ)) (ds : List ℂ) (h : ds.length = vs.length) :
    ((pulseCore rf vs ds).map Item.dur).sum = ds.sum := by
  induction vs generalizing ds with
  | nil => cases ds with
    | nil => rfl
    | cons d ds => simp at h
  | cons v vs ih =>
    cases ds with
    | nil => simp at h
    | cons d ds => simp [pulseCore, Item.dur, ih ds (by simpa using h)]

/-- interleaving evolutions (duration 0) keeps the total duration -/
theorem modify_duration (positive isOne : ℂ → Bool) (T1 T2 g : Option ℂ) (items : List (Item ℂ)) :
    ((modifyItems positive isOne T1 T2 g none items).map Item.dur).sum = (items.map Item.dur).sum := by
  induction items with
  | nil => rfl
  | cons x rest ih =>
    rw [modifyItems_cons, List.map_append, List.sum_append, ih, List.map_cons, List.sum_cons, defaultModifier_none]
    congr 1
    simp only [List.map_cons, List.sum_cons]
    have : ((if positive x.dur = true then evol T1 T2 g x.dur else []).map Item.dur).sum = 0 := by
      split
      · apply List.sum_eq_zero
        intro y hy
        obtain ⟨it, hit, rfl⟩ := List.mem_map.mp hy
        exact evol_dur _ _ _ _ it hit
      · rfl
    rw [this, add_zero]

end EpgVerif.Props.C18
