import EpgVerif.Lemmas.Diff2Lemmas
import EpgVerif.Lemmas.Cx
import EpgVerif.Model.DiffSM
import EpgVerif.Lemmas.ExTotal
import EpgVerif.Lemmas.OpsLemmas
/-
  C02 — first-order partials equal the true derivative.
  (1) every coefficient's symbolic derivative `Ex.d` is its derivative (`HasDerivAt`); the
      regenerated tie obligations `Gen.Tie*D1` equate the tables stored by the real constructors
      with these symbolic derivatives;
  (2) the dictionary bookkeeping of `_apply_order1` computes, under every variable, the chain
      rule `J1'[v] = L J1[v] + Σ_p (∂p/∂v) D_p s` — every declared coefficient exactly once.
-/
namespace EpgVerif.Props.C02
open EpgVerif Diff

/-- **derivative tables**: for every canonical coefficient entry `e` (any operator, any entry,
    linear or equilibrium part) and every parameter index `i`, the operator `D_i` used by the
    model (`Ex.d i e`) is the derivative of the entry along the (real) parameter `i`, wherever
    the expression is defined (non-zero denominators: exactly `T1, T2 ≠ 0`). -/
theorem coeff_hasDerivAt (e : Ex) (env : Nat → ℂ) (i : Nat) (x0 : ℝ) (h0 : env i = (x0 : ℂ))
    (hd : Ex.Defined env e) :
    HasDerivAt (fun x : ℝ => Ex.eval (Function.update env i (x : ℂ)) e) (Ex.eval env (Ex.d i e)) x0 :=
  Ex.hasDerivAt_eval e env i x0 h0 hd

/-- the relaxation coefficients are defined exactly when `T1 ≠ 0` and `T2 ≠ 0` -/
theorem relaxation_defined (env : Nat → ℂ) (h1 : env 1 ≠ 0) (h2 : env 2 ≠ 0) (i : Nat) :
    Ex.Defined env (Coeff.E.arr i) ∧ Ex.Defined env (Coeff.E.arr0 i) := by
  match i with
  | 0 => simp [Coeff.E.arr, Coeff.E.arr0, Coeff.E.rT, Coeff.two_pi_i, Ex.Defined, Ex.eval, h2]
  | 1 => simp [Coeff.E.arr, Coeff.E.arr0, Coeff.E.rT, Coeff.two_pi_i, Ex.Defined, Ex.eval, h2]
  | 2 => simp [Coeff.E.arr, Coeff.E.arr0, Coeff.E.rL, Ex.Defined, Ex.eval, h1]
  | (n + 3) => simp [Coeff.E.arr, Coeff.E.arr0, Ex.Defined]

/-- rotation coefficients are defined everywhere -/
theorem rotation_defined (env : Nat → ℂ) (i j : Nat) : Ex.Defined env (Coeff.T.mat i j) := by
  have h180 : ((180 : ℚ) : ℂ) ≠ 0 := by norm_num
  have h2 : ((2 : ℚ) : ℂ) ≠ 0 := by norm_num
  have hp : Ex.Defined env Coeff.T.p := by simp [Coeff.T.p, Coeff.rad, Ex.Defined, Ex.eval, h180]
  have hph : ∀ x, Ex.Defined env x → ∀ j, Ex.Defined env (Coeff.T.ph x j) := by
    intro x hx j; unfold Coeff.T.ph; split <;> simp [Ex.Defined, hx]
  have hrx : Ex.Defined env (Coeff.T.rx i j) := by
    unfold Coeff.T.rx; split <;> simp [Coeff.T.a, Coeff.rad, Ex.Defined, Ex.eval, h180, h2]
  exact ⟨⟨hph _ hp i, hrx⟩, hph _ (by simpa [Ex.Defined] using hp) j⟩

section bookkeeping
variable {K C : Type} [Semiring K] [AddCommMonoid C] [Module K C]

/-- **chain-rule bookkeeping, first order** (any carrier: state matrices or operator arrays).
    `J1'[v] = L (J1[v]) + Σ over declared (v ↦ {p ↦ c}) of c • D_p s`; a variable the state does not
    carry reads as the zero partial, a variable the operator does not declare contributes nothing. -/
theorem order1_refines_jet (op : DOp K C) (h0 : op.derive0 0 = 0) (s : C) (o1 : List (Var × C)) (v : Var) :
    val (applyOrder1 (modCar (K := K)) op s o1) v
      = op.derive0 (val o1 v)
        + ((op.order1.filter (fun e => e.1 = v)).map
            (fun e => (e.2.map (fun pc => pc.2 • op.derive1 pc.1 s)).sum)).sum :=
  val_applyOrder1 op h0 s o1 v

/-- variables no operator declares stay zero: an undeclared variable only sees `L` -/
theorem undeclared_variable (op : DOp K C) (h0 : op.derive0 0 = 0) (s : C) (o1 : List (Var × C)) (v : Var)
    (hv : ∀ e ∈ op.order1, e.1 ≠ v) (hz : val o1 v = 0) :
    val (applyOrder1 (modCar (K := K)) op s o1) v = 0 := by
  rw [order1_refines_jet op h0, hz, h0]
  have : op.order1.filter (fun e => e.1 = v) = [] := by
    rw [List.filter_eq_nil_iff]; intro e he; simpa using hv e he
  simp [this]

/-- coefficient maps are linear (C19): `{v: {p: c}}` contributes `c` times the partial for `p` -/
theorem coeff_linear (op : DOp K C) (h0 : op.derive0 0 = 0) (s : C) (v : Var) (p : Param) (c : K)
    (h1 : op.order1 = [(v, [(p, c)])]) :
    val (applyOrder1 (modCar (K := K)) op s []) v = c • op.derive1 p s := by
  rw [order1_refines_jet op h0, h1]
  simp [val, lookup_nil, h0]

end bookkeeping

/-- non-vacuity: a concrete declaration of two variables driving one parameter, evaluated -/
example : (applyOrder1 (modCar (K := ℤ) (C := ℤ))
    { derive0 := fun x => 2 * x, derive1 := fun _ x => 3 * x, derive2 := fun _ x => x,
      order1 := [("a", [("alpha", 5)]), ("b", [("alpha", 7)])], order2 := [], auto := true, P2 := [] }
    1 [("a", 10)]) = [("a", 35), ("b", 21)] := by decide

/-! ### end to end: what the bookkeeping stores is the derivative of the new state -/
section endtoend
open Ex Finset SM


/-- component-wise derivative of a phase-state vector depending on one real variable -/
def PSHasDeriv (f : ℝ → PS ℂ) (f' : PS ℂ) (x0 : ℝ) : Prop :=
  HasDerivAt (fun x => (f x).fp) f'.fp x0 ∧ HasDerivAt (fun x => (f x).fm) f'.fm x0 ∧
    HasDerivAt (fun x => (f x).z) f'.z x0

/-- finite sum of phase-state vectors -/
noncomputable def psSum (N : Nat) (f : Nat → PS ℂ) : PS ℂ :=
  ⟨∑ j ∈ range N, (f j).fp, ∑ j ∈ range N, (f j).fm, ∑ j ∈ range N, (f j).z⟩

/-- **product + chain rule for a matrix operator** whose entries are coefficient expressions of parameters moving
    along a curve: `d/dx [M(p(x)) v(x)] = M v' + Σ_j (dp_j/dx) (∂M/∂p_j) v` -/
theorem mat_step (M : Nat → Nat → Ex) (env : ℝ → Nat → ℂ) (c : Nat → ℂ) (N : Nat) (x0 : ℝ)
    (henv : ∀ j, HasDerivAt (fun x => env x j) (c j) x0) (hc : ∀ j, N ≤ j → c j = 0)
    (hcr : ∀ j, (starRingEnd ℂ) (c j) = c j) (hd : ∀ i j, Defined (env x0) (M i j))
    (v : ℝ → PS ℂ) (v' : PS ℂ) (hv : PSHasDeriv v v' x0) :
    PSHasDeriv (fun x => PS.mmul (fun i j => eval (env x) (M i j)) (v x))
      (PS.mmul (fun i j => eval (env x0) (M i j)) v'
        + psSum N (fun l => PS.smul (c l) (PS.mmul (fun i j => eval (env x0) (d l (M i j))) (v x0)))) x0 := by
  have hM := fun i j => hasDerivAt_eval_total (M i j) env c N x0 henv hc hcr (hd i j)
  obtain ⟨h1, h2, h3⟩ := hv
  have row : ∀ i, HasDerivAt (fun x => eval (env x) (M i 0) * (v x).fp + eval (env x) (M i 1) * (v x).fm + eval (env x) (M i 2) * (v x).z)
      ((eval (env x0) (M i 0) * v'.fp + eval (env x0) (M i 1) * v'.fm + eval (env x0) (M i 2) * v'.z)
        + ∑ l ∈ range N, c l * (eval (env x0) (d l (M i 0)) * (v x0).fp + eval (env x0) (d l (M i 1)) * (v x0).fm
            + eval (env x0) (d l (M i 2)) * (v x0).z)) x0 := by
    intro i
    refine ((((hM i 0).mul h1).add ((hM i 1).mul h2)).add ((hM i 2).mul h3)).congr_deriv ?_
    simp only [mul_add, Finset.sum_add_distrib, Finset.sum_mul]
    have e : ∀ (a b : ℂ) (l : ℕ), c l * (a * b) = c l * a * b := fun a b l => by ring
    simp only [e]
    ring
  refine ⟨?_, ?_, ?_⟩
  · simpa [PS.mmul, psSum, PS.smul] using row 0
  · simpa [PS.mmul, psSum, PS.smul] using row 1
  · simpa [PS.mmul, psSum, PS.smul] using row 2



theorem scal_step (A A0 : Nat → Ex) (env : ℝ → Nat → ℂ) (c : Nat → ℂ) (N : Nat) (x0 : ℝ)
    (henv : ∀ j, HasDerivAt (fun x => env x j) (c j) x0) (hc : ∀ j, N ≤ j → c j = 0)
    (hcr : ∀ j, (starRingEnd ℂ) (c j) = c j) (hd : ∀ i, Defined (env x0) (A i) ∧ Defined (env x0) (A0 i))
    (e : PS ℂ) (v : ℝ → PS ℂ) (v' : PS ℂ) (hv : PSHasDeriv v v' x0) :
    PSHasDeriv (fun x => PS.dmul (fun i => eval (env x) (A i)) (v x) + PS.dmul (fun i => eval (env x) (A0 i)) e)
      (PS.dmul (fun i => eval (env x0) (A i)) v'
        + psSum N (fun l => PS.smul (c l)
            (PS.dmul (fun i => eval (env x0) (d l (A i))) (v x0) + PS.dmul (fun i => eval (env x0) (d l (A0 i))) e))) x0 := by
  have hA := fun i => hasDerivAt_eval_total (A i) env c N x0 henv hc hcr (hd i).1
  have hA0 := fun i => hasDerivAt_eval_total (A0 i) env c N x0 henv hc hcr (hd i).2
  obtain ⟨h1, h2, h3⟩ := hv
  have comp : ∀ (i : Nat) (w : ℝ → ℂ) (w' ec : ℂ), HasDerivAt w w' x0 →
      HasDerivAt (fun x => eval (env x) (A i) * w x + eval (env x) (A0 i) * ec)
        (eval (env x0) (A i) * w' + ∑ l ∈ range N, c l * (eval (env x0) (d l (A i)) * w x0 + eval (env x0) (d l (A0 i)) * ec)) x0 := by
    intro i w w' ec hw
    refine (((hA i).mul hw).add ((hA0 i).mul_const ec)).congr_deriv ?_
    simp only [mul_add, Finset.sum_add_distrib, Finset.sum_mul]
    have e1 : ∀ (a b : ℂ) (l : ℕ), c l * (a * b) = c l * a * b := fun a b l => by ring
    simp only [e1]
    ring
  refine ⟨?_, ?_, ?_⟩
  · simpa [PS.dmul, psSum, PS.smul] using comp 0 _ _ e.fp h1
  · simpa [PS.dmul, psSum, PS.smul] using comp 1 _ _ e.fm h2
  · simpa [PS.dmul, psSum, PS.smul] using comp 2 _ _ e.z h3

theorem psSum_two (f : Nat → PS ℂ) : psSum 2 f = f 0 + f 1 := by
  apply PS.ext' <;> simp [psSum, Finset.sum_range_succ]

theorem psSum_four (f : Nat → PS ℂ) : psSum 4 f = f 0 + f 1 + f 2 + f 3 := by
  apply PS.ext' <;> simp [psSum, Finset.sum_range_succ]

theorem get_zeroEq (s : SM ℂ) (k : ℤ) : (zeroEq s).get k = s.get k := by
  unfold zeroEq
  rw [get_mk']
  by_cases h : inRange s.n k = true
  · simp [h]
  · simp only [h]; rw [get_of_not_inRange s k (by simpa using h)]; simp

/-- **C02 end to end, RF pulse**: if the carried partial `J` is the derivative of the state along a variable `x`, and
    the flip angle and phase depend on `x` with slopes `ca`, `cp` (the declared coefficients), then what
    `_apply_order1` stores for that variable — `L J + ca·D_alpha s + cp·D_phi s` (`order1_refines_jet`) — is the
    derivative of the new state along `x`, for every phase state -/
theorem T_partial_exact (o : Opts) (a p : ℝ → ℝ) (ca cp x0 : ℝ) (ha : HasDerivAt a ca x0) (hp : HasDerivAt p cp x0)
    (dc : Decl ℂ) (s : ℝ → SM ℂ) (J : SM ℂ) (hJ : ∀ k, PSHasDeriv (fun x => (s x).get k) (J.get k) x0) (k : ℤ) :
    PSHasDeriv (fun x => (applyOp o (.T ((a x : ℝ) : ℂ) ((p x : ℝ) : ℂ)) (s x)).get k)
      ((applyOp o (.T ((a x0 : ℝ) : ℂ) ((p x0 : ℝ) : ℂ)) J).get k
        + (PS.smul (ca : ℂ) (((dopOf o (.T ((a x0 : ℝ) : ℂ) ((p x0 : ℝ) : ℂ)) dc).derive1 "alpha" (s x0)).get k)
          + PS.smul (cp : ℂ) (((dopOf o (.T ((a x0 : ℝ) : ℂ) ((p x0 : ℝ) : ℂ)) dc).derive1 "phi" (s x0)).get k))) x0 := by
  let env : ℝ → Nat → ℂ := fun x => envOf [((a x : ℝ) : ℂ), ((p x : ℝ) : ℂ)]
  let c : Nat → ℂ := fun j => match j with | 0 => (ca : ℂ) | 1 => (cp : ℂ) | _ => 0
  have henv : ∀ j, HasDerivAt (fun x => env x j) (c j) x0 := by
    intro j
    match j with
    | 0 => simpa [env, envOf, c] using ha.ofReal_comp
    | 1 => simpa [env, envOf, c] using hp.ofReal_comp
    | (n + 2) => simpa [env, envOf, c] using hasDerivAt_const x0 (0 : ℂ)
  have hc : ∀ j, 2 ≤ j → c j = 0 := by
    intro j hj
    match j with
    | 0 => omega
    | 1 => omega
    | (n + 2) => rfl
  have hcr : ∀ j, (starRingEnd ℂ) (c j) = c j := by
    intro j
    match j with
    | 0 => simp [c]
    | 1 => simp [c]
    | (n + 2) => simp [c]
  have h := mat_step Coeff.T.mat env c 2 x0 henv hc hcr (fun i j => rotation_defined _ i j) _ _ (hJ k)
  rw [psSum_two] at h
  simp only [applyOp, get_matApply, dopOf, applyWith, get_zeroEq, coeffT, paramEnv]
  have i0 : paramIdx (K := ℂ) (.T ((a x0 : ℝ) : ℂ) ((p x0 : ℝ) : ℂ)) "alpha" = 0 := by
    simp [paramIdx, paramNames, List.idxOf, List.findIdx_cons]
  have i1 : paramIdx (K := ℂ) (.T ((a x0 : ℝ) : ℂ) ((p x0 : ℝ) : ℂ)) "phi" = 1 := by
    simp [paramIdx, paramNames, List.idxOf, List.findIdx_cons]
  rw [i0, i1]
  exact h

/-- **C02 end to end, relaxation / precession**: same statement for `E(tau, T1, T2, g)` with all four parameters
    moving (slopes `c0..c3`), the recovery term included; requires `T1, T2 ≠ 0` -/
theorem E_partial_exact (o : Opts) (tau T1 T2 g : ℝ → ℝ) (c0 c1 c2 c3 x0 : ℝ)
    (h0 : HasDerivAt tau c0 x0) (h1 : HasDerivAt T1 c1 x0) (h2 : HasDerivAt T2 c2 x0) (h3 : HasDerivAt g c3 x0)
    (hT1 : T1 x0 ≠ 0) (hT2 : T2 x0 ≠ 0)
    (dc : Decl ℂ) (s : ℝ → SM ℂ) (J : SM ℂ) (eq : ℤ → PS ℂ) (heq : ∀ x k, (s x).geq k = eq k) (hJeq : ∀ k, J.geq k = 0)
    (hJ : ∀ k, PSHasDeriv (fun x => (s x).get k) (J.get k) x0) (k : ℤ) :
    let op := fun x : ℝ => Op.E ((tau x : ℝ) : ℂ) ((T1 x : ℝ) : ℂ) ((T2 x : ℝ) : ℂ) ((g x : ℝ) : ℂ)
    let dop := dopOf o (op x0) dc
    PSHasDeriv (fun x => (applyOp o (op x) (s x)).get k)
      ((applyOp o (op x0) J).get k
        + (PS.smul (c0 : ℂ) ((dop.derive1 "tau" (s x0)).get k) + PS.smul (c1 : ℂ) ((dop.derive1 "T1" (s x0)).get k)
          + PS.smul (c2 : ℂ) ((dop.derive1 "T2" (s x0)).get k) + PS.smul (c3 : ℂ) ((dop.derive1 "g" (s x0)).get k))) x0 := by
  intro op dop
  let env : ℝ → Nat → ℂ := fun x => envOf [((tau x : ℝ) : ℂ), ((T1 x : ℝ) : ℂ), ((T2 x : ℝ) : ℂ), ((g x : ℝ) : ℂ)]
  let c : Nat → ℂ := fun j => match j with | 0 => (c0 : ℂ) | 1 => (c1 : ℂ) | 2 => (c2 : ℂ) | 3 => (c3 : ℂ) | _ => 0
  have henv : ∀ j, HasDerivAt (fun x => env x j) (c j) x0 := by
    intro j
    match j with
    | 0 => simpa [env, envOf, c] using h0.ofReal_comp
    | 1 => simpa [env, envOf, c] using h1.ofReal_comp
    | 2 => simpa [env, envOf, c] using h2.ofReal_comp
    | 3 => simpa [env, envOf, c] using h3.ofReal_comp
    | (n + 4) => simpa [env, envOf, c] using hasDerivAt_const x0 (0 : ℂ)
  have hc : ∀ j, 4 ≤ j → c j = 0 := by
    intro j hj
    match j with
    | 0 => omega
    | 1 => omega
    | 2 => omega
    | 3 => omega
    | (n + 4) => rfl
  have hcr : ∀ j, (starRingEnd ℂ) (c j) = c j := by
    intro j
    match j with
    | 0 => simp [c]
    | 1 => simp [c]
    | 2 => simp [c]
    | 3 => simp [c]
    | (n + 4) => simp [c]
  have hdef : ∀ i, Defined (env x0) (Coeff.E.arr i) ∧ Defined (env x0) (Coeff.E.arr0 i) := by
    intro i
    apply relaxation_defined
    · simpa [env, envOf] using hT1
    · simpa [env, envOf] using hT2
  have h := scal_step Coeff.E.arr Coeff.E.arr0 env c 4 x0 henv hc hcr hdef (eq k) _ _ (hJ k)
  rw [psSum_four] at h
  have i0 : paramIdx (K := ℂ) (op x0) "tau" = 0 := by simp [op, paramIdx, paramNames, List.idxOf, List.findIdx_cons]
  have i1 : paramIdx (K := ℂ) (op x0) "T1" = 1 := by simp [op, paramIdx, paramNames, List.idxOf, List.findIdx_cons]
  have i2 : paramIdx (K := ℂ) (op x0) "T2" = 2 := by simp [op, paramIdx, paramNames, List.idxOf, List.findIdx_cons]
  have i3 : paramIdx (K := ℂ) (op x0) "g" = 3 := by simp [op, paramIdx, paramNames, List.idxOf, List.findIdx_cons]
  simp only [dop, dopOf, i0, i1, i2, i3]
  simp only [op, applyOp, applyWith, get_scalApply, get_zeroEq, paramEnv, heq, hJeq]
  have hz : ∀ a : Nat → ℂ, PS.dmul a (0 : PS ℂ) = 0 := fun a => by apply PS.ext' <;> simp [PS.dmul]
  simp only [hz, PS.add_zero']
  exact h


end endtoend

end EpgVerif.Props.C02
