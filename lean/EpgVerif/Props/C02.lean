import EpgVerif.Lemmas.Diff2Lemmas
import EpgVerif.Lemmas.Cx
import EpgVerif.Model.DiffSM
/-
  C02 — first-order partials equal the true derivative.
  (1) every coefficient's symbolic derivative `Ex.d` is its derivative (`HasDerivAt`); the
      regenerated tie obligations `Gen.Tie*D1` equate the tables stored by the real constructors
      with these symbolic derivatives;
  (2) the dictionary bookkeeping of `_apply_order1` computes, under every variable, the chain
      rule `J1'[v] = L J1[v] + Σ_p (∂p/∂v) D_p s` — every declared coefficient exactly once.
-/
namespace EpgVerif.Props.C02
open EpgVerif Diff

/-- **derivative tables**: for every canonical coefficient entry `e` (any operator, any entry,
    linear or equilibrium part) and every parameter index `i`, the operator `D_i` used by the
    model (`Ex.d i e`) is the derivative of the entry along the (real) parameter `i`, wherever
    the expression is defined (non-zero denominators: exactly `T1, T2 ≠ 0`). -/
theorem coeff_hasDerivAt (e : Ex) (env : Nat → ℂ) (i : Nat) (x0 : ℝ) (h0 : env i = (x0 : ℂ))
    (hd : Ex.Defined env e) :
    HasDerivAt (fun x : ℝ => Ex.eval (Function.update env i (x : ℂ)) e) (Ex.eval env (Ex.d i e)) x0 :=
  Ex.hasDerivAt_eval e env i x0 h0 hd

/-- the relaxation coefficients are defined exactly when `T1 ≠ 0` and `T2 ≠ 0` -/
theorem relaxation_defined (env : Nat → ℂ) (h1 : env 1 ≠ 0) (h2 : env 2 ≠ 0) (i : Nat) :
    Ex.Defined env (Coeff.E.arr i) ∧ Ex.Defined env (Coeff.E.arr0 i) := by
  match i with
  | 0 => simp [Coeff.E.arr, Coeff.E.arr0, Coeff.E.rT, Coeff.two_pi_i, Ex.Defined, Ex.eval, h2]
  | 1 => simp [Coeff.E.arr, Coeff.E.arr0, Coeff.E.rT, Coeff.two_pi_i, Ex.Defined, Ex.eval, h2]
  | 2 => simp [Coeff.E.arr, Coeff.E.arr0, Coeff.E.rL, Ex.Defined, Ex.eval, h1]
  | (n + 3) => simp [Coeff.E.arr, Coeff.E.arr0, Ex.Defined]

/-- rotation coefficients are defined everywhere -/
theorem rotation_defined (env : Nat → ℂ) (i j : Nat) : Ex.Defined env (Coeff.T.mat i j) := by
  have h180 : ((180 : ℚ) : ℂ) ≠ 0 := by norm_num
  have h2 : ((2 : ℚ) : ℂ) ≠ 0 := by norm_num
  have hp : Ex.Defined env Coeff.T.p := by simp [Coeff.T.p, Coeff.rad, Ex.Defined, Ex.eval, h180]
  have hph : ∀ x, Ex.Defined env x → ∀ j, Ex.Defined env (Coeff.T.ph x j) := by
    intro x hx j; unfold Coeff.T.ph; split <;> simp [Ex.Defined, hx]
  have hrx : Ex.Defined env (Coeff.T.rx i j) := by
    unfold Coeff.T.rx; split <;> simp [Coeff.T.a, Coeff.rad, Ex.Defined, Ex.eval, h180, h2]
  exact ⟨⟨hph _ hp i, hrx⟩, hph _ (by simpa [Ex.Defined] using hp) j⟩

section bookkeeping
variable {K C : Type} [Semiring K] [AddCommMonoid C] [Module K C]

/-- **chain-rule bookkeeping, first order** (any carrier: state matrices or operator arrays).
    `J1'[v] = L (J1[v]) + Σ over declared (v ↦ {p ↦ c}) of c • D_p s`; a variable the state does not
    carry reads as the zero partial, a variable the operator does not declare contributes nothing. -/
theorem order1_refines_jet (op : DOp K C) (h0 : op.derive0 0 = 0) (s : C) (o1 : List (Var × C)) (v : Var) :
    val (applyOrder1 (modCar (K := K)) op s o1) v
      = op.derive0 (val o1 v)
        + ((op.order1.filter (fun e => e.1 = v)).map
            (fun e => (e.2.map (fun pc => pc.2 • op.derive1 pc.1 s)).sum)).sum :=
  val_applyOrder1 op h0 s o1 v

/-- variables no operator declares stay zero: an undeclared variable only sees `L` -/
theorem undeclared_variable (op : DOp K C) (h0 : op.derive0 0 = 0) (s : C) (o1 : List (Var × C)) (v : Var)
    (hv : ∀ e ∈ op.order1, e.1 ≠ v) (hz : val o1 v = 0) :
    val (applyOrder1 (modCar (K := K)) op s o1) v = 0 := by
  rw [order1_refines_jet op h0, hz, h0]
  have : op.order1.filter (fun e => e.1 = v) = [] := by
    rw [List.filter_eq_nil_iff]; intro e he; simpa using hv e he
  simp [this]

/-- coefficient maps are linear (C19): `{v: {p: c}}` contributes `c` times the partial for `p` -/
theorem coeff_linear (op : DOp K C) (h0 : op.derive0 0 = 0) (s : C) (v : Var) (p : Param) (c : K)
    (h1 : op.order1 = [(v, [(p, c)])]) :
    val (applyOrder1 (modCar (K := K)) op s []) v = c • op.derive1 p s := by
  rw [order1_refines_jet op h0, h1]
  simp [val, lookup_nil, h0]

end bookkeeping

/-- non-vacuity: a concrete declaration of two variables driving one parameter, evaluated -/
example : (applyOrder1 (modCar (K := ℤ) (C := ℤ))
    { derive0 := fun x => 2 * x, derive1 := fun _ x => 3 * x, derive2 := fun _ x => x,
      order1 := [("a", [("alpha", 5)]), ("b", [("alpha", 7)])], order2 := [], auto := true, P2 := [] }
    1 [("a", 10)]) = [("a", 35), ("b", 21)] := by decide

end EpgVerif.Props.C02
