import EpgVerif.Props.C14Bound
/-
  C14 — anisotropic diffusion never increases the norm: for a real, positive semi-definite tensor D (in the sense
  0 ≤ Σ_ij D_ij u_i u_j for every real u), τ ≥ 0 and real wavenumbers, `exp(-b:D)` has modulus ≤ 1 for the constant
  b-matrix (b:D = τ·Q(k,k)) and for the ramp b-matrix (b:D = τ·(Q(a+δ/2, a+δ/2) + Q(δ,δ)/12)), so that `D._apply` with a
  tensor is one of the diagonal contractions of `nd_signal_le_PD`.
-/
namespace EpgVerif.Props.C14
open Complex EpgVerif EpgVerif.Diff5 EpgVerif.Props.C04 EpgVerif.Props.C05 EpgVerif.Props.C08 Finset

local notation "cj" => starRingEnd ℂ

theorem sumTo_eq_sum (d : Nat) (f : Nat → ℂ) : sumTo d f = ∑ i ∈ range d, f i := by
  induction d with
  | zero => simp [sumTo]
  | succ d ih => rw [sumTo_succ, ih, Finset.sum_range_succ]

/-- positive semi-definite on the first `d` coordinates -/
def PSD (d : Nat) (D : Nat → Nat → ℝ) : Prop := ∀ u : Nat → ℝ, 0 ≤ ∑ i ∈ range d, ∑ j ∈ range d, D i j * u i * u j

theorem attTensor_real (d : Nat) (b : Nat → Nat → ℂ) (br : Nat → Nat → ℝ) (hb : ∀ i j, b i j = ((br i j : ℝ) : ℂ))
    (D : Nat → Nat → ℝ) (hpos : 0 ≤ ∑ i ∈ range d, ∑ j ∈ range d, br i j * D i j) :
    normSq (attTensor d b (fun i j => ((D i j : ℝ) : ℂ))) ≤ 1
    ∧ cj (attTensor d b (fun i j => ((D i j : ℝ) : ℂ))) = attTensor d b (fun i j => ((D i j : ℝ) : ℂ)) := by
  unfold attTensor
  have e : sumTo d (fun i => sumTo d (fun j => b i j * ((D i j : ℝ) : ℂ)))
      = (((∑ i ∈ range d, ∑ j ∈ range d, br i j * D i j : ℝ)) : ℂ) := by
    rw [sumTo_eq_sum]
    push_cast
    refine Finset.sum_congr rfl (fun i _ => ?_)
    rw [sumTo_eq_sum]
    refine Finset.sum_congr rfl (fun j _ => ?_)
    rw [hb]
  rw [e]
  simp only [expc_C]
  constructor
  · apply normSq_exp_real_le
    simp only [Complex.ofReal_re]; exact hpos
  · rw [← Complex.exp_conj]; congr 1; simp

theorem bmatConst_real (τ : ℝ) (w : Nat → ℝ) (i j : Nat) :
    bmatConst (τ : ℂ) (fun n => ((w n : ℝ) : ℂ)) i j = (((w i / 1000) * (w j / 1000) * (τ / 1000) : ℝ) : ℂ) := by
  simp only [bmatConst, milli, ofRat_C]; push_cast; ring

theorem bmatRamp_real (τ : ℝ) (w1 w2 : Nat → ℝ) (i j : Nat) :
    bmatRamp (τ : ℂ) (fun n => ((w1 n : ℝ) : ℂ)) (fun n => ((w2 n : ℝ) : ℂ)) i j
      = (((τ / 1000) * ((w1 i / 1000) * (w1 j / 1000)
            + (1 / 2) * ((w1 i / 1000) * (w2 j / 1000 - w1 j / 1000)) + (1 / 2) * ((w2 i / 1000 - w1 i / 1000) * (w1 j / 1000))
            + (1 / 3) * ((w2 i / 1000 - w1 i / 1000) * (w2 j / 1000 - w1 j / 1000))) : ℝ) : ℂ) := by
  simp only [bmatRamp, milli, ofRat_C]; push_cast; ring

/-- constant wavenumber: `b:D = τ·Q(k, k) ≥ 0` -/
theorem tensor_const_nonneg (d : Nat) (D : Nat → Nat → ℝ) (hD : PSD d D) (τ : ℝ) (hτ : 0 ≤ τ) (w : Nat → ℝ) :
    0 ≤ ∑ i ∈ range d, ∑ j ∈ range d, ((w i / 1000) * (w j / 1000) * (τ / 1000)) * D i j := by
  have h := hD (fun i => w i / 1000)
  have e : ∑ i ∈ range d, ∑ j ∈ range d, ((w i / 1000) * (w j / 1000) * (τ / 1000)) * D i j
      = (τ / 1000) * ∑ i ∈ range d, ∑ j ∈ range d, D i j * (w i / 1000) * (w j / 1000) := by
    rw [Finset.mul_sum]
    refine Finset.sum_congr rfl (fun i _ => ?_)
    rw [Finset.mul_sum]
    exact Finset.sum_congr rfl (fun j _ => by ring)
  rw [e]
  have : 0 ≤ τ / 1000 := by positivity
  exact mul_nonneg this h

/-- linear ramp: `b:D = τ·(Q(a + δ/2, a + δ/2) + Q(δ, δ)/12) ≥ 0` -/
theorem tensor_ramp_nonneg (d : Nat) (D : Nat → Nat → ℝ) (hD : PSD d D) (τ : ℝ) (hτ : 0 ≤ τ) (w1 w2 : Nat → ℝ) :
    0 ≤ ∑ i ∈ range d, ∑ j ∈ range d,
      ((τ / 1000) * ((w1 i / 1000) * (w1 j / 1000)
            + (1 / 2) * ((w1 i / 1000) * (w2 j / 1000 - w1 j / 1000)) + (1 / 2) * ((w2 i / 1000 - w1 i / 1000) * (w1 j / 1000))
            + (1 / 3) * ((w2 i / 1000 - w1 i / 1000) * (w2 j / 1000 - w1 j / 1000)))) * D i j := by
  have h1 := hD (fun i => w1 i / 1000 + (w2 i / 1000 - w1 i / 1000) / 2)
  have h2 := hD (fun i => w2 i / 1000 - w1 i / 1000)
  have e : ∑ i ∈ range d, ∑ j ∈ range d,
      ((τ / 1000) * ((w1 i / 1000) * (w1 j / 1000)
            + (1 / 2) * ((w1 i / 1000) * (w2 j / 1000 - w1 j / 1000)) + (1 / 2) * ((w2 i / 1000 - w1 i / 1000) * (w1 j / 1000))
            + (1 / 3) * ((w2 i / 1000 - w1 i / 1000) * (w2 j / 1000 - w1 j / 1000)))) * D i j
      = (τ / 1000) * ((∑ i ∈ range d, ∑ j ∈ range d, D i j * (w1 i / 1000 + (w2 i / 1000 - w1 i / 1000) / 2)
              * (w1 j / 1000 + (w2 j / 1000 - w1 j / 1000) / 2))
          + (1 / 12) * ∑ i ∈ range d, ∑ j ∈ range d, D i j * (w2 i / 1000 - w1 i / 1000) * (w2 j / 1000 - w1 j / 1000)) := by
    rw [Finset.mul_sum (a := (1 / 12 : ℝ)), ← Finset.sum_add_distrib, Finset.mul_sum]
    refine Finset.sum_congr rfl (fun i _ => ?_)
    rw [Finset.mul_sum (a := (1 / 12 : ℝ)), ← Finset.sum_add_distrib, Finset.mul_sum]
    exact Finset.sum_congr rfl (fun j _ => by ring)
  rw [e]
  have : 0 ≤ τ / 1000 := by positivity
  apply mul_nonneg this
  have : 0 ≤ (1 / 12 : ℝ) * ∑ i ∈ range d, ∑ j ∈ range d, D i j * (w2 i / 1000 - w1 i / 1000) * (w2 j / 1000 - w1 j / 1000) :=
    mul_nonneg (by norm_num) h2
  linarith

section nd
variable {κ : Type} [DecidableEq κ] [AddCommGroup κ]

/-- **anisotropic diffusion (D positive semi-definite, τ ≥ 0, real wavenumbers) is one of the diagonal contractions of
    `nd_signal_le_PD`** -/
theorem tensor_diffusion_is_bounded_step (d : Nat) (wr : κ → Nat → ℝ) (hodd : ∀ k n, wr (-k) n = -wr k n)
    (τ : ℝ) (hτ : 0 ≤ τ) (D : Nat → Nat → ℝ) (hD : PSD d D) (shift : Option (Nat → ℝ)) (s : NDS κ ℂ) (h : WFN s) :
    ∃ a : κ → Nat → ℂ, BoundedF (FOp.diag a) ∧
      (diffuse d (fun k n => ((wr k n : ℝ) : ℂ)) (τ : ℂ) (.tensor (fun i j => ((D i j : ℝ) : ℂ)))
          (shift.map (fun g n => ((g n : ℝ) : ℂ))) s).get
        = fstep s.pd (FOp.diag a) s.get := by
  have hL : ∀ k, normSq (att d (bmatConst (τ : ℂ) (fun n => ((wr k n : ℝ) : ℂ))) (.tensor (fun i j => ((D i j : ℝ) : ℂ)))) ≤ 1
      ∧ cj (att d (bmatConst (τ : ℂ) (fun n => ((wr k n : ℝ) : ℂ))) (.tensor (fun i j => ((D i j : ℝ) : ℂ))))
          = att d (bmatConst (τ : ℂ) (fun n => ((wr k n : ℝ) : ℂ))) (.tensor (fun i j => ((D i j : ℝ) : ℂ))) := by
    intro k
    exact attTensor_real d _ _ (fun i j => bmatConst_real τ (wr k) i j) D (tensor_const_nonneg d D hD τ hτ (wr k))
  have hLeven : ∀ k, att d (bmatConst (τ : ℂ) (fun n => ((wr (-k) n : ℝ) : ℂ))) (.tensor (fun i j => ((D i j : ℝ) : ℂ)))
      = att d (bmatConst (τ : ℂ) (fun n => ((wr k n : ℝ) : ℂ))) (.tensor (fun i j => ((D i j : ℝ) : ℂ))) := by
    intro k
    have : bmatConst (τ : ℂ) (fun n => ((wr (-k) n : ℝ) : ℂ)) = bmatConst (τ : ℂ) (fun n => ((wr k n : ℝ) : ℂ)) := by
      funext i j
      rw [bmatConst_real, bmatConst_real, hodd, hodd]; congr 1; ring
    rw [this]
  cases shift with
  | none =>
    refine ⟨difDiag _ _, difDiag_bounded _ _ (fun k => (hL k).1) (fun k => (hL k).1) (fun k => (hL k).2) hLeven, ?_⟩
    funext k
    have := get_diffuse d (fun k n => ((wr k n : ℝ) : ℂ)) (τ : ℂ) (.tensor (fun i j => ((D i j : ℝ) : ℂ))) none s h k
    simp only [Option.map_none] at this ⊢
    rw [this]
    rfl
  | some g =>
    have hT : ∀ k, normSq (att d (bmatRamp (τ : ℂ) (fun n => ((wr k n : ℝ) : ℂ) - ((g n : ℝ) : ℂ)) (fun n => ((wr k n : ℝ) : ℂ)))
        (.tensor (fun i j => ((D i j : ℝ) : ℂ)))) ≤ 1 := by
      intro k
      have e : (fun n => ((wr k n : ℝ) : ℂ) - ((g n : ℝ) : ℂ)) = fun n => (((wr k n - g n : ℝ)) : ℂ) := by
        funext n; simp
      rw [e]
      exact (attTensor_real d _ _ (fun i j => bmatRamp_real τ (fun n => wr k n - g n) (wr k) i j) D
        (tensor_ramp_nonneg d D hD τ hτ (fun n => wr k n - g n) (wr k))).1
    refine ⟨difDiag (fun k => att d (bmatRamp (τ : ℂ) (fun n => ((wr k n : ℝ) : ℂ) - ((g n : ℝ) : ℂ)) (fun n => ((wr k n : ℝ) : ℂ)))
          (.tensor (fun i j => ((D i j : ℝ) : ℂ))))
        (fun k => att d (bmatConst (τ : ℂ) (fun n => ((wr k n : ℝ) : ℂ))) (.tensor (fun i j => ((D i j : ℝ) : ℂ)))),
      difDiag_bounded _ _ hT (fun k => (hL k).1) (fun k => (hL k).2) hLeven, ?_⟩
    funext k
    have := get_diffuse d (fun k n => ((wr k n : ℝ) : ℂ)) (τ : ℂ) (.tensor (fun i j => ((D i j : ℝ) : ℂ)))
      (some (fun n => ((g n : ℝ) : ℂ))) s h k
    simp only [Option.map_some] at this ⊢
    rw [this]
    rfl

end nd
end EpgVerif.Props.C14
