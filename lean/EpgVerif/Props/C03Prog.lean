import EpgVerif.Props.C03E
/-
  C03 for whole programs.  Two variables a < b; everything is looked at along `b` (parameter y) at a fixed value of `a`.
  A step knows: how it updates the state at parameter value y (`S`), how `_apply_order1` updates the partial under `a` at
  parameter value y (`J`, exact for every y by C02), how it updates the partial under `b` at y0 (`Jb`), and what
  `_apply_order2` stores under (a, b) at y0 (`Hn`).  If every step satisfies the two one-step facts (`first`: C02's
  `*_partial_exact`; `mixed`: `T_mixed_partial_exact_nl`, `E_mixed_partial_exact_nl`, shifts), then after ANY program the
  stored value under (a, b) is the derivative with respect to b of the first partial under a — the mixed second
  derivative of the final state (and of every signal read from it), at every wavenumber index.
-/
namespace EpgVerif.Props.C03
open EpgVerif Diff Ex Finset EpgVerif.Props.C02 EpgVerif.Props.C04

variable {κ : Type}

structure Step2 (y0 : ℝ) (κ : Type) where
  S : ℝ → (κ → PS ℂ) → (κ → PS ℂ)
  J : ℝ → (κ → PS ℂ) → (κ → PS ℂ) → (κ → PS ℂ)
  Jb : (κ → PS ℂ) → (κ → PS ℂ) → (κ → PS ℂ)
  Hn : (κ → PS ℂ) → (κ → PS ℂ) → (κ → PS ℂ) → (κ → PS ℂ) → (κ → PS ℂ)
  first : ∀ (s : ℝ → κ → PS ℂ) (Jb0 : κ → PS ℂ), (∀ k, PSHasDeriv (fun y => s y k) (Jb0 k) y0) →
      ∀ k, PSHasDeriv (fun y => S y (s y) k) (Jb (s y0) Jb0 k) y0
  mixed : ∀ (s Ja : ℝ → κ → PS ℂ) (Jb0 H : κ → PS ℂ), (∀ k, PSHasDeriv (fun y => s y k) (Jb0 k) y0) →
      (∀ k, PSHasDeriv (fun y => Ja y k) (H k) y0) →
      ∀ k, PSHasDeriv (fun y => J y (s y) (Ja y) k) (Hn (s y0) (Ja y0) Jb0 H k) y0

/-- what is carried along: the state and its `a`-partial as functions of y, the `b`-partial and the mixed partial at y0 -/
structure St2 (κ : Type) where
  s : ℝ → κ → PS ℂ
  Ja : ℝ → κ → PS ℂ
  Jb : κ → PS ℂ
  H : κ → PS ℂ

def run2 {y0 : ℝ} : List (Step2 y0 κ) → St2 κ → St2 κ
  | [], st => st
  | p :: rest, st =>
    run2 rest ⟨fun y => p.S y (st.s y), fun y => p.J y (st.s y) (st.Ja y), p.Jb (st.s y0) st.Jb,
               p.Hn (st.s y0) (st.Ja y0) st.Jb st.H⟩

/-- **C03 for whole programs**: the invariant "Jb = ∂s/∂b and H = ∂Ja/∂b at y0" is kept by every program -/
theorem hessian_exact {y0 : ℝ} (prog : List (Step2 y0 κ)) (st : St2 κ)
    (h1 : ∀ k, PSHasDeriv (fun y => st.s y k) (st.Jb k) y0) (h2 : ∀ k, PSHasDeriv (fun y => st.Ja y k) (st.H k) y0) :
    (∀ k, PSHasDeriv (fun y => (run2 prog st).s y k) ((run2 prog st).Jb k) y0)
    ∧ (∀ k, PSHasDeriv (fun y => (run2 prog st).Ja y k) ((run2 prog st).H k) y0) := by
  induction prog generalizing st with
  | nil => exact ⟨h1, h2⟩
  | cons p rest ih =>
    exact ih _ (p.first st.s st.Jb h1) (p.mixed st.s st.Ja st.Jb st.H h1 h2)

/-! ### the steps of epgpy -/

section shifts
variable [AddCommGroup κ]

/-- a shift (any number of axes) moves the state and all its partials alike -/
def stepShift (y0 : ℝ) (g : κ) : Step2 y0 κ where
  S := fun _ f => shiftF g f
  J := fun _ _ ja => shiftF g ja
  Jb := fun _ jb => shiftF g jb
  Hn := fun _ _ _ h => shiftF g h
  first := by
    intro s Jb0 h k
    obtain ⟨a1, _, _⟩ := h (k - g)
    obtain ⟨_, b2, _⟩ := h (k + g)
    obtain ⟨_, _, c3⟩ := h k
    exact ⟨a1, b2, c3⟩
  mixed := by
    intro s Ja Jb0 H _ h k
    obtain ⟨a1, _, _⟩ := h (k - g)
    obtain ⟨_, b2, _⟩ := h (k + g)
    obtain ⟨_, _, c3⟩ := h k
    exact ⟨a1, b2, c3⟩

end shifts

/-- an RF pulse whose flip angle `al` and phase `ph` depend on both variables: along b with slopes `caB, cpB`; the slopes
    `sa, sp` of a move with b with slopes `c2a, c2p` -/
noncomputable def stepT (y0 : ℝ) (a b : Var) (hab : a < b) (al ph sa sp : ℝ → ℝ) (caB cpB c2a c2p : ℝ)
    (hal : HasDerivAt al caB y0) (hph : HasDerivAt ph cpB y0) (hsa : HasDerivAt sa c2a y0) (hsp : HasDerivAt sp c2p y0) :
    Step2 y0 κ where
  S := fun y f k => PS.mmul (fun i j => eval (envOf [((al y : ℝ) : ℂ), ((ph y : ℝ) : ℂ)]) (Coeff.T.mat i j)) (f k)
  J := fun y f ja k =>
    PS.mmul (fun i j => eval (envOf [((al y : ℝ) : ℂ), ((ph y : ℝ) : ℂ)]) (Coeff.T.mat i j)) (ja k)
      + (((sa y : ℝ) : ℂ) • PS.mmul (fun i j => eval (envOf [((al y : ℝ) : ℂ), ((ph y : ℝ) : ℂ)]) (d 0 (Coeff.T.mat i j))) (f k)
        + ((sp y : ℝ) : ℂ) • PS.mmul (fun i j => eval (envOf [((al y : ℝ) : ℂ), ((ph y : ℝ) : ℂ)]) (d 1 (Coeff.T.mat i j))) (f k))
  Jb := fun f jb k =>
    PS.mmul (fun i j => eval (envOf [((al y0 : ℝ) : ℂ), ((ph y0 : ℝ) : ℂ)]) (Coeff.T.mat i j)) (jb k)
      + (PS.smul (caB : ℂ) (PS.mmul (fun i j => eval (envOf [((al y0 : ℝ) : ℂ), ((ph y0 : ℝ) : ℂ)]) (d 0 (Coeff.T.mat i j))) (f k))
        + PS.smul (cpB : ℂ) (PS.mmul (fun i j => eval (envOf [((al y0 : ℝ) : ℂ), ((ph y0 : ℝ) : ℂ)]) (d 1 (Coeff.T.mat i j))) (f k)))
  Hn := fun f ja jb h k =>
    let env := fun y : ℝ => envOf [((al y : ℝ) : ℂ), ((ph y : ℝ) : ℂ)]
    let E := fun (f : Ex → Ex) (i j : Nat) => eval (env y0) (f (Coeff.T.mat i j))
    let d0 : PS ℂ → PS ℂ := fun X => PS.mmul (E id) X
    let d1 : Param → PS ℂ → PS ℂ := fun p X => if p = "alpha" then PS.mmul (E (d 0)) X else PS.mmul (E (d 1)) X
    let d2 : PPair → PS ℂ → PS ℂ := fun pp X =>
      if pp = ("alpha", "alpha") then PS.mmul (E (fun e => d 0 (d 0 e))) X
      else if pp = ("alpha", "phi") then PS.mmul (E (fun e => d 1 (d 0 e))) X
      else PS.mmul (E (fun e => d 1 (d 1 e))) X
    Diff.val (applyOrder2 (modCar (K := ℂ))
      (twoVarOp d0 d1 d2 a b ((sa y0 : ℝ) : ℂ) ((sp y0 : ℝ) : ℂ) (caB : ℂ) (cpB : ℂ) [("alpha", (c2a : ℂ)), ("phi", (c2p : ℂ))])
      (f k) [(a, ja k), (b, jb k)] [((a, b), h k)]) (a, b)
  first := by
    intro s Jb0 h k
    let env : ℝ → Nat → ℂ := fun y => envOf [((al y : ℝ) : ℂ), ((ph y : ℝ) : ℂ)]
    let c : Nat → ℂ := fun j => match j with | 0 => (caB : ℂ) | 1 => (cpB : ℂ) | _ => 0
    have henv : ∀ j, HasDerivAt (fun y => env y j) (c j) y0 := by
      intro j
      match j with
      | 0 => simpa [env, envOf, c] using hal.ofReal_comp
      | 1 => simpa [env, envOf, c] using hph.ofReal_comp
      | (n + 2) => simpa [env, envOf, c] using hasDerivAt_const y0 (0 : ℂ)
    have hc : ∀ j, 2 ≤ j → c j = 0 := by
      intro j hj
      match j with
      | 0 => omega
      | 1 => omega
      | (n + 2) => rfl
    have hcr : ∀ j, (starRingEnd ℂ) (c j) = c j := by
      intro j
      match j with
      | 0 => simp [c]
      | 1 => simp [c]
      | (n + 2) => simp [c]
    have hm := mat_step Coeff.T.mat env c 2 y0 henv hc hcr (fun i j => rotation_defined _ i j) (fun y => s y k) (Jb0 k) (h k)
    rw [psSum_two] at hm
    exact hm
  mixed := by
    intro s Ja Jb0 H h1 h2 k
    exact T_mixed_partial_exact_nl al ph sa sp caB cpB c2a c2p y0 a b hab hal hph hsa hsp
      (fun y => s y k) (fun y => Ja y k) (Jb0 k) (H k) (h1 k) (h2 k)

section relaxation
variable [DecidableEq κ] [Zero κ]

/-- a relaxation interval `E(tau, T1, T2, g)` whose four parameters `par 0..3` depend on both variables (along b with slopes
    `cB`; the slopes `sa` of a move with b with slopes `c2`), acting on a table whose equilibrium is `[0, 0, pd]` at the
    origin -/
noncomputable def stepE (y0 : ℝ) (pd : ℂ) (a b : Var) (hab : a < b) (par sa : Nat → ℝ → ℝ) (cB c2 : Nat → ℝ)
    (hpar : ∀ j, j < 4 → HasDerivAt (par j) (cB j) y0) (hsa : ∀ j, j < 4 → HasDerivAt (sa j) (c2 j) y0)
    (hT1 : par 1 y0 ≠ 0) (hT2 : par 2 y0 ≠ 0) : Step2 y0 κ where
  S := fun y f k => PS.dmul (fun i => eval (fun j => if j < 4 then ((par j y : ℝ) : ℂ) else 0) (Coeff.E.arr i)) (f k)
      + PS.dmul (fun i => eval (fun j => if j < 4 then ((par j y : ℝ) : ℂ) else 0) (Coeff.E.arr0 i)) (eqRow pd k)
  J := fun y f ja k => PS.dmul (fun i => eval (fun j => if j < 4 then ((par j y : ℝ) : ℂ) else 0) (Coeff.E.arr i)) (ja k)
      + psSum 4 (fun p => PS.smul ((sa p y : ℝ) : ℂ)
          (PS.dmul (fun i => eval (fun j => if j < 4 then ((par j y : ℝ) : ℂ) else 0) (d p (Coeff.E.arr i))) (f k)
            + PS.dmul (fun i => eval (fun j => if j < 4 then ((par j y : ℝ) : ℂ) else 0) (d p (Coeff.E.arr0 i))) (eqRow pd k)))
  Jb := fun f jb k => PS.dmul (fun i => eval (fun j => if j < 4 then ((par j y0 : ℝ) : ℂ) else 0) (Coeff.E.arr i)) (jb k)
      + psSum 4 (fun l => PS.smul (if l < 4 then ((cB l : ℝ) : ℂ) else 0)
          (PS.dmul (fun i => eval (fun j => if j < 4 then ((par j y0 : ℝ) : ℂ) else 0) (d l (Coeff.E.arr i))) (f k)
            + PS.dmul (fun i => eval (fun j => if j < 4 then ((par j y0 : ℝ) : ℂ) else 0) (d l (Coeff.E.arr0 i))) (eqRow pd k)))
  Hn := fun f ja jb h k =>
    (Diff.val (applyOrder2 (modCar (K := ℂ))
        (eDOp (fun j => if j < 4 then ((par j y0 : ℝ) : ℂ) else 0) a b [("tau", (((sa 0 y0 : ℝ) : ℂ))), ("T1", (((sa 1 y0 : ℝ) : ℂ))), ("T2", (((sa 2 y0 : ℝ) : ℂ))), ("g", (((sa 3 y0 : ℝ) : ℂ)))] [("tau", ((cB 0 : ℝ) : ℂ)), ("T1", ((cB 1 : ℝ) : ℂ)), ("T2", ((cB 2 : ℝ) : ℂ)), ("g", ((cB 3 : ℝ) : ℂ))] [("tau", ((c2 0 : ℝ) : ℂ)), ("T1", ((c2 1 : ℝ) : ℂ)), ("T2", ((c2 2 : ℝ) : ℂ)), ("g", ((c2 3 : ℝ) : ℂ))])
        (f k, eqRow pd k) [(a, (ja k, 0)), (b, (jb k, 0))] [((a, b), (h k, 0))]) (a, b)).1
  first := by
    intro s Jb0 h k
    let env : ℝ → Nat → ℂ := fun y j => if j < 4 then ((par j y : ℝ) : ℂ) else 0
    let c : Nat → ℂ := fun j => if j < 4 then ((cB j : ℝ) : ℂ) else 0
    have henv : ∀ j, HasDerivAt (fun y => env y j) (c j) y0 := by
      intro j
      by_cases hj : j < 4
      · simpa [env, c, hj] using (hpar j hj).ofReal_comp
      · simpa [env, c, hj] using hasDerivAt_const y0 (0 : ℂ)
    have hc : ∀ j, 4 ≤ j → c j = 0 := by
      intro j hj
      have : ¬ j < 4 := by omega
      simp [c, this]
    have hcr : ∀ j, (starRingEnd ℂ) (c j) = c j := by
      intro j
      by_cases hj : j < 4 <;> simp [c, hj]
    have hE1 : env y0 1 ≠ 0 := by simp [env]; exact hT1
    have hE2 : env y0 2 ≠ 0 := by simp [env]; exact hT2
    exact scal_step Coeff.E.arr Coeff.E.arr0 env c 4 y0 henv hc hcr (fun i => relaxation_defined _ hE1 hE2 i)
      (eqRow pd k) (fun y => s y k) (Jb0 k) (h k)
  mixed := by
    intro s Ja Jb0 H h1 h2 k
    exact E_mixed_partial_exact_nl par sa cB c2 y0 a b hab hpar hsa hT1 hT2 (eqRow pd k)
      (fun y => s y k) (fun y => Ja y k) (Jb0 k) (H k) (h1 k) (h2 k)

end relaxation

/-- the hypotheses are satisfiable: a two-pulse program with a shift in between, flip angles `x·y` and `x + y²` -/
example : ∃ prog : List (Step2 (1 : ℝ) ℤ), prog.length = 3 :=
  ⟨[stepT 1 "a" "b" (by decide) (fun y => 2 * y) (fun _ => 0) (fun y => y) (fun _ => 0) 2 0 1 0
      (by simpa using (hasDerivAt_id (1 : ℝ)).const_mul 2) (hasDerivAt_const _ _) (hasDerivAt_id _) (hasDerivAt_const _ _),
    stepShift 1 (1 : ℤ),
    stepT 1 "a" "b" (by decide) (fun y => 2 + y ^ 2) (fun _ => 0) (fun _ => 1) (fun _ => 0) 2 0 0 0
      (by simpa using ((hasDerivAt_pow 2 (1 : ℝ)).const_add 2)) (hasDerivAt_const _ _) (hasDerivAt_const _ _) (hasDerivAt_const _ _)],
   rfl⟩

end EpgVerif.Props.C03
