import Mathlib.Algebra.BigOperators.Finprod
import Mathlib.Algebra.FiniteSupport.Basic
import EpgVerif.Props.C08
import EpgVerif.Props.C04
/-
  C14 — lossless operators are isometries, dissipative ones are contractions (1-D state model).
  The squared norm is taken in its symmetric form
      N(s) = Σ_k ( ½|F+(k)|² + ½|F-(k)|² + |Z(k)|² ),
  which for a well-formed state matrix (F-(k) = conj F+(-k)) equals the code's
  `Σ_k |F-(k)|² + |Z(k)|²` (`normSq_eq_code_norm`).
-/
namespace EpgVerif.Props.C14
open Complex EpgVerif SM

/-- per-state energy `½|F+|² + ½|F-|² + |Z|²` (the squared length of the complex magnetisation
    vector in Cartesian coordinates) -/
noncomputable def q (p : PS ℂ) : ℝ := (normSq p.fp + normSq p.fm) / 2 + normSq p.z

noncomputable def normSq' (s : SM ℂ) : ℝ := ∑ᶠ k : ℤ, q (s.get k)

@[simp] theorem q_zero : q (0 : PS ℂ) = 0 := by simp [q]

theorem q_nonneg (p : PS ℂ) : 0 ≤ q p := by
  unfold q
  have := normSq_nonneg p.fp; have := normSq_nonneg p.fm; have := normSq_nonneg p.z
  linarith

/-- **RF pulses preserve the length of every magnetisation vector** (any flip angle and phase) -/
theorem q_rotation (α φ : ℝ) (p : PS ℂ) : q (PS.mmul (coeffT (α : ℂ) (φ : ℂ)) p) = q p := by
  have hr : ∀ i, (starRingEnd ℂ) (envOf [(α : ℂ), (φ : ℂ)] i) = envOf [(α : ℂ), (φ : ℂ)] i := by
    intro i
    match i with
    | 0 => simp [envOf]
    | 1 => simp [envOf]
    | (n + 2) => simp [envOf]
  -- work in ℂ: |z|² = z * conj z
  have key : ∀ z : ℂ, ((normSq z : ℝ) : ℂ) = z * (starRingEnd ℂ) z := fun z => (mul_conj z).symm
  apply Complex.ofReal_injective
  simp only [q, PS.mmul, coeffT]
  push_cast
  simp only [key]
  ex_unfold
  push_cast
  simp only [map_add, map_mul, map_sub, map_neg, map_div₀, map_one, map_ofNat, Complex.conj_I, Complex.conj_ofReal,
    ← Complex.exp_conj, ← Complex.cos_conj, ← Complex.sin_conj, envOf, List.getD_cons_zero, List.getD_cons_succ]
  set c := Complex.cos ((Real.pi : ℂ) / 180 * (α : ℂ)) with hc
  set sn := Complex.sin ((Real.pi : ℂ) / 180 * (α : ℂ)) with hsn
  have hcs : sn ^ 2 + c ^ 2 = 1 := Complex.sin_sq_add_cos_sq _
  simp only [neg_mul, mul_neg, neg_neg, Complex.exp_neg]
  set E := Complex.exp (Complex.I * ((Real.pi : ℂ) / 180 * (φ : ℂ))) with hE
  have hE0 : E ≠ 0 := Complex.exp_ne_zero _
  have hI : Complex.I ^ 2 = -1 := Complex.I_sq
  field_simp
  grind


/-- diagonal operators with unit-modulus entries preserve the length of every vector -/
theorem q_diag_unit (a : Nat → ℂ) (h0 : normSq (a 0) = 1) (h1 : normSq (a 1) = 1) (h2 : normSq (a 2) = 1)
    (p : PS ℂ) : q (PS.dmul a p) = q p := by
  simp [q, PS.dmul, normSq_mul, h0, h1, h2]

/-- diagonal operators with entries of modulus ≤ 1 shrink every vector -/
theorem q_diag_le (a : Nat → ℂ) (h0 : normSq (a 0) ≤ 1) (h1 : normSq (a 1) ≤ 1) (h2 : normSq (a 2) ≤ 1)
    (p : PS ℂ) : q (PS.dmul a p) ≤ q p := by
  simp only [q, PS.dmul, normSq_mul]
  have := normSq_nonneg p.fp; have := normSq_nonneg p.fm; have := normSq_nonneg p.z
  nlinarith [mul_le_mul_of_nonneg_right h0 (normSq_nonneg p.fp), mul_le_mul_of_nonneg_right h1 (normSq_nonneg p.fm),
    mul_le_mul_of_nonneg_right h2 (normSq_nonneg p.z)]

theorem fin_q (s : SM ℂ) : Function.HasFiniteSupport (fun k : ℤ => q (s.get k)) := by
  show (Function.support _).Finite
  apply Set.Finite.subset (Set.finite_Icc (-(s.n : ℤ)) s.n)
  intro k hk
  by_contra hout
  apply hk
  have : s.get k = 0 := by
    apply get_of_not_inRange
    cases hr : inRange s.n k
    · rfl
    · rw [inRange_iff] at hr; exact absurd (Set.mem_Icc.mpr hr) hout
  simp [this]

/-- **T is an isometry** (every flip angle and phase, every state matrix of any size) -/
theorem T_isometry (α φ : ℝ) (s : SM ℂ) :
    normSq' (applyOp {} (.T (α : ℂ) (φ : ℂ)) s) = normSq' s := by
  unfold normSq'
  congr 1; funext k
  simp only [applyOp, get_matApply, q_rotation]

private theorem unit_exp_I (x : ℝ) : normSq (Complex.exp (Complex.I * (x : ℂ))) = 1 := by
  rw [mul_comm, normSq_eq_norm_sq, Complex.norm_exp_ofReal_mul_I]; norm_num

/-- **Phi (phase offset) is an isometry** -/
theorem Phi_isometry (φ : ℝ) (s : SM ℂ) :
    normSq' (applyOp {} (.Phi (φ : ℂ)) s) = normSq' s := by
  unfold normSq'
  congr 1; funext k
  simp only [applyOp, get_matApply]
  have hd : ∀ p : PS ℂ, PS.mmul (coeffPhi (φ : ℂ)) p
      = PS.dmul (fun i => coeffPhi (φ : ℂ) i i) p := by
    intro p
    apply PS.ext' <;> simp [PS.mmul, PS.dmul, coeffPhi, Coeff.Phi.mat, Ex.eval]
  rw [hd]
  apply q_diag_unit
  · simp only [coeffPhi, Coeff.Phi.mat, Coeff.Phi.p, Coeff.rad, Ex.eval, envOf, expc_C, I_C, pi_C, ofRat_C,
      List.getD_cons_zero]
    have : (Real.pi : ℂ) / ((180 : ℚ) : ℂ) * (φ : ℂ) = ((Real.pi / 180 * φ : ℝ) : ℂ) := by push_cast; ring
    rw [this]; exact unit_exp_I _
  · simp only [coeffPhi, Coeff.Phi.mat, Coeff.Phi.p, Coeff.rad, Ex.eval, envOf, expc_C, I_C, pi_C, ofRat_C,
      List.getD_cons_zero]
    have : -(Complex.I * ((Real.pi : ℂ) / ((180 : ℚ) : ℂ) * (φ : ℂ))) = Complex.I * ((-(Real.pi / 180 * φ) : ℝ) : ℂ) := by
      push_cast; ring
    rw [this]; exact unit_exp_I _
  · simp [coeffPhi, Coeff.Phi.mat, Ex.eval]

/-- **pure precession is an isometry** -/
theorem P_isometry (τ g : ℝ) (s : SM ℂ) :
    normSq' (applyOp {} (.P (τ : ℂ) (g : ℂ)) s) = normSq' s := by
  unfold normSq'
  congr 1; funext k
  simp only [applyOp, get_scalApply]
  have hz : PS.dmul (fun _ => (0 : ℂ)) (s.geq k) = 0 := by apply PS.ext' <;> simp [PS.dmul]
  rw [hz, PS.add_zero']
  have harg : Ex.eval (envOf [(τ : ℂ), (g : ℂ)]) Coeff.P.rT = Complex.I * ((2 * Real.pi * g * τ : ℝ) : ℂ) := by
    simp [Coeff.P.rT, Coeff.two_pi_i, Ex.eval, envOf]; push_cast; ring
  apply q_diag_unit
  · simp only [Coeff.P.arr, Ex.eval, conj_C, expc_C, harg]
    rw [Complex.normSq_conj]
    have : -(Complex.I * ((2 * Real.pi * g * τ : ℝ) : ℂ)) = Complex.I * ((-(2 * Real.pi * g * τ) : ℝ) : ℂ) := by
      push_cast; ring
    rw [this]; exact unit_exp_I _
  · simp only [Coeff.P.arr, Ex.eval, expc_C, harg]
    have : -(Complex.I * ((2 * Real.pi * g * τ : ℝ) : ℂ)) = Complex.I * ((-(2 * Real.pi * g * τ) : ℝ) : ℂ) := by
      push_cast; ring
    rw [this]; exact unit_exp_I _
  · simp [Coeff.P.arr, Ex.eval]

private theorem fin_r (s : SM ℂ) (g : PS ℂ → ℝ) (hg : g 0 = 0) :
    Function.HasFiniteSupport (fun k : ℤ => g (s.get k)) := by
  show (Function.support _).Finite
  apply Set.Finite.subset (Set.finite_Icc (-(s.n : ℤ)) s.n)
  intro k hk
  by_contra hout
  apply hk
  have : s.get k = 0 := by
    apply get_of_not_inRange
    cases hr : inRange s.n k
    · rfl
    · rw [inRange_iff] at hr; exact absurd (Set.mem_Icc.mpr hr) hout
  simp [this, hg]

/-- **untruncated shifts are isometries**, any step size and sign -/
theorem S_isometry (m : ℤ) (s : SM ℂ) :
    normSq' (applyOp {} (.S m none) s) = normSq' s := by
  unfold normSq'
  simp only [applyOp, get_shift1d_untruncated, q]
  have fA := fin_r s (fun p => normSq p.fp / 2) (by simp)
  have fB := fin_r s (fun p => normSq p.fm / 2) (by simp)
  have fC := fin_r s (fun p => normSq p.z) (by simp)
  have fA' : Function.HasFiniteSupport (fun k : ℤ => normSq (s.get (k - m)).fp / 2) :=
    fA.comp_of_injective (g := fun k : ℤ => k - m) (sub_left_injective)
  have fB' : Function.HasFiniteSupport (fun k : ℤ => normSq (s.get (k + m)).fm / 2) :=
    fB.comp_of_injective (g := fun k : ℤ => k + m) (add_left_injective m)
  have e1 : (fun k : ℤ => (normSq (s.get (k - m)).fp + normSq (s.get (k + m)).fm) / 2 + normSq (s.get k).z)
      = fun k => (normSq (s.get (k - m)).fp / 2 + normSq (s.get (k + m)).fm / 2) + normSq (s.get k).z := by
    funext k; ring
  have e2 : (fun k : ℤ => (normSq (s.get k).fp + normSq (s.get k).fm) / 2 + normSq (s.get k).z)
      = fun k => (normSq (s.get k).fp / 2 + normSq (s.get k).fm / 2) + normSq (s.get k).z := by
    funext k; ring
  have fAB' : Function.HasFiniteSupport
      (fun k : ℤ => normSq (s.get (k - m)).fp / 2 + normSq (s.get (k + m)).fm / 2) := fA'.add fB'
  have fAB : Function.HasFiniteSupport
      (fun k : ℤ => normSq (s.get k).fp / 2 + normSq (s.get k).fm / 2) := fA.add fB
  rw [e1, e2, finsum_add_distrib fAB' fC, finsum_add_distrib fA' fB',
    finsum_add_distrib fAB fC, finsum_add_distrib fA fB]
  have r1 : ∑ᶠ k : ℤ, normSq (s.get (k - m)).fp / 2 = ∑ᶠ k : ℤ, normSq (s.get k).fp / 2 :=
    finsum_comp_equiv (Equiv.subRight m) (f := fun k => normSq (s.get k).fp / 2)
  have r2 : ∑ᶠ k : ℤ, normSq (s.get (k + m)).fm / 2 = ∑ᶠ k : ℤ, normSq (s.get k).fm / 2 :=
    finsum_comp_equiv (Equiv.addRight m) (f := fun k => normSq (s.get k).fm / 2)
  rw [r1, r2]


/-- squared norm of the deviation from equilibrium -/
noncomputable def devSq (s : SM ℂ) : ℝ := ∑ᶠ k : ℤ, q (s.get k - s.geq k)

private theorem fin_dev (s : SM ℂ) : Function.HasFiniteSupport (fun k : ℤ => q (s.get k - s.geq k)) := by
  show (Function.support _).Finite
  apply Set.Finite.subset (Set.finite_Icc (-(s.n : ℤ)) s.n)
  intro k hk
  by_contra hout
  apply hk
  have hr : inRange s.n k = false := by
    cases hr : inRange s.n k
    · rfl
    · rw [inRange_iff] at hr; exact absurd (Set.mem_Icc.mpr hr) hout
  show q (s.get k - s.geq k) = 0
  rw [get_of_not_inRange s k hr, geq_of_not_inRange s k hr]
  have : (0 : PS ℂ) - 0 = 0 := by apply PS.ext' <;> (show (0 : ℂ) - 0 = 0; simp)
  rw [this]; simp

private theorem geq_scalApply (a a0 : Nat → ℂ) (s : SM ℂ) (k : ℤ) : (scalApply a a0 s).geq k = s.geq k := by
  unfold scalApply; rw [geq_mk']
  by_cases h : inRange s.n k = true
  · simp [h]
  · simp only [h]; rw [geq_of_not_inRange s k (by simpa using h)]; rfl

theorem normSq_exp_real_le (x : ℂ) (hx : 0 ≤ x.re) : normSq (Complex.exp (-x)) ≤ 1 := by
  rw [normSq_eq_norm_sq, Complex.norm_exp]
  have : Real.exp (-x).re ≤ 1 := by
    rw [Real.exp_le_one_iff]; simpa using hx
  have h0 : 0 ≤ Real.exp (-x).re := (Real.exp_pos _).le
  nlinarith

/-- **relaxation never increases the norm of the deviation from equilibrium**
    (`τ ≥ 0`, `T1, T2 > 0`, any precession rate) -/
theorem E_contracts_deviation (τ T1 T2 g : ℝ) (hτ : 0 ≤ τ) (h1 : 0 < T1) (h2 : 0 < T2) (s : SM ℂ)
    (pd : ℂ) (he : EqWF s pd) :
    devSq (applyOp {} (.E (τ : ℂ) (T1 : ℂ) (T2 : ℂ) (g : ℂ)) s) ≤ devSq s := by
  unfold devSq
  apply finsum_le_finsum' (fin_dev _) (fin_dev _)
  intro k
  simp only [applyOp, get_scalApply, geq_scalApply]
  have hg := he k
  set env := envOf [(τ : ℂ), (T1 : ℂ), (T2 : ℂ), (g : ℂ)] with henv
  -- E s - eq = arr * (s - eq): the recovery term is (1 - e^{-τ/T1}) eq_z and eq has no transverse part
  have hrew : PS.dmul (fun i => Ex.eval env (Coeff.E.arr i)) (s.get k)
        + PS.dmul (fun i => Ex.eval env (Coeff.E.arr0 i)) (s.geq k) - s.geq k
      = PS.dmul (fun i => Ex.eval env (Coeff.E.arr i)) (s.get k - s.geq k) := by
    rw [hg]
    by_cases hk : k = 0
    · simp only [hk, if_true]
      apply PS.ext'
      · show _ + _ - (0 : ℂ) = _ * (_ - (0 : ℂ)); simp [PS.dmul]
      · show _ + _ - (0 : ℂ) = _ * (_ - (0 : ℂ)); simp [PS.dmul]
      · show _ + _ - pd = _ * (_ - pd)
        simp only [PS.dmul, Coeff.E.arr, Coeff.E.arr0, Ex.eval]
        ring
    · simp only [hk, if_false]
      apply PS.ext' <;> (show _ + _ - (0 : ℂ) = _ * (_ - (0 : ℂ)); simp [PS.dmul])
  show q (_ + _ - _) ≤ _
  rw [hrew]
  have hT2 : (T2 : ℂ) ≠ 0 := by exact_mod_cast h2.ne'
  have hT1 : (T1 : ℂ) ≠ 0 := by exact_mod_cast h1.ne'
  have hrT : (Ex.eval env Coeff.E.rT).re = τ / T2 := by
    simp [Coeff.E.rT, Coeff.two_pi_i, Ex.eval, henv, envOf]
    field_simp
  have hrL : (Ex.eval env Coeff.E.rL).re = τ / T1 := by
    have : Ex.eval env Coeff.E.rL = ((τ / T1 : ℝ) : ℂ) := by
      simp [Coeff.E.rL, Ex.eval, henv, envOf]
    rw [this]; exact Complex.ofReal_re _
  apply q_diag_le
  · simp only [Coeff.E.arr, Ex.eval, conj_C, expc_C]
    rw [Complex.normSq_conj]
    exact normSq_exp_real_le _ (by rw [hrT]; positivity)
  · simp only [Coeff.E.arr, Ex.eval, expc_C]
    exact normSq_exp_real_le _ (by rw [hrT]; positivity)
  · simp only [Coeff.E.arr, Ex.eval, expc_C]
    exact normSq_exp_real_le _ (by rw [hrL]; positivity)

/-- **the ideal spoiler never increases the norm** -/
theorem spoiler_contracts (s : SM ℂ) : normSq' (applyOp {} .Spoiler s) ≤ normSq' s := by
  unfold normSq'
  apply finsum_le_finsum' (fin_q _) (fin_q _)
  intro k
  simp only [applyOp]
  rw [get_mk']
  by_cases hr : inRange s.n k = true
  · simp only [hr, if_true, q]
    have := normSq_nonneg (s.get k).fp; have := normSq_nonneg (s.get k).fm
    simp; linarith
  · simp only [hr]; simp [q_nonneg]

/-- for a well-formed state matrix the symmetric form is the code's `Σ_k |F-(k)|² + |Z(k)|²`
    (`utils.get_norm`) -/
theorem normSq_eq_code_norm (s : SM ℂ) (h : C08.WF s) :
    normSq' s = ∑ᶠ k : ℤ, (normSq (s.get k).fm + normSq (s.get k).z) := by
  unfold normSq'
  have fA := fin_r s (fun p => normSq p.fp / 2) (by simp)
  have fB := fin_r s (fun p => normSq p.fm / 2) (by simp)
  have fC := fin_r s (fun p => normSq p.z) (by simp)
  have fB2 := fin_r s (fun p => normSq p.fm) (by simp)
  have fAB : Function.HasFiniteSupport
      (fun k : ℤ => normSq (s.get k).fp / 2 + normSq (s.get k).fm / 2) := fA.add fB
  have e1 : (fun k : ℤ => q (s.get k))
      = fun k => (normSq (s.get k).fp / 2 + normSq (s.get k).fm / 2) + normSq (s.get k).z := by
    funext k; simp only [q]; ring
  rw [e1, finsum_add_distrib fAB fC, finsum_add_distrib fA fB, finsum_add_distrib fB2 fC]
  -- Σ |F+(k)|² = Σ |F-(-k)|² = Σ |F-(k)|²
  have hsym : ∑ᶠ k : ℤ, normSq (s.get k).fp / 2 = ∑ᶠ k : ℤ, normSq (s.get k).fm / 2 := by
    have : (fun k : ℤ => normSq (s.get k).fp / 2) = fun k => normSq (s.get (-k)).fm / 2 := by
      funext k
      have := h.fsym (-k)
      rw [neg_neg] at this
      rw [this, Complex.normSq_conj]
    rw [this]
    exact finsum_comp_equiv (Equiv.neg ℤ) (f := fun k => normSq (s.get k).fm / 2)
  rw [hsym]
  have : ∑ᶠ k : ℤ, normSq (s.get k).fm = ∑ᶠ k : ℤ, (normSq (s.get k).fm / 2 + normSq (s.get k).fm / 2) := by
    congr 1; funext k; ring
  rw [this, finsum_add_distrib fB fB]

/-! ### shifts along any number of axes -/
section nd
open EpgVerif.Props.C04
variable {κ : Type} [DecidableEq κ] [AddCommGroup κ]

/-- total squared length of a coordinate table (finite: only stored coordinates contribute) -/
noncomputable def energy (f : κ → PS ℂ) : ℝ := ∑ᶠ k, q (f k)

/-- **n-D shifts are isometries**: moving F+ by `+g`, F- by `−g` and leaving Z in place permutes the terms of the
    sum of squares (any number of axes, time axis included) -/
theorem energy_shiftF (g : κ) (f : κ → PS ℂ) (hf : (Function.support f).Finite) :
    energy (shiftF g f) = energy f := by
  unfold energy
  have hsup : ∀ (c : PS ℂ → ℝ), c 0 = 0 → Function.HasFiniteSupport (fun k => c (f k)) := by
    intro c hc
    show (Function.support _).Finite
    apply hf.subset
    intro k hk
    by_contra h0
    apply hk
    have : f k = 0 := by simpa using h0
    simp [this, hc]
  have h1 := hsup (fun p => normSq p.fp / 2) (by simp)
  have h2 := hsup (fun p => normSq p.fm / 2) (by simp)
  have h3 := hsup (fun p => normSq p.z) (by simp)
  have e : ∀ h : κ → PS ℂ, (fun k => q (h k)) = fun k => (normSq (h k).fp / 2 + normSq (h k).fm / 2) + normSq (h k).z := by
    intro h; funext k; simp [q]; ring
  rw [e f, e (shiftF g f)]
  have s1 : Function.HasFiniteSupport (fun k => normSq (shiftF g f k).fp / 2) := by
    have : (fun k => normSq (shiftF g f k).fp / 2) = (fun k => normSq (f k).fp / 2) ∘ (Equiv.subRight g) := by
      funext k; simp [shiftF]
    rw [this]; exact Set.Finite.preimage (Equiv.injective _).injOn h1
  have s2 : Function.HasFiniteSupport (fun k => normSq (shiftF g f k).fm / 2) := by
    have : (fun k => normSq (shiftF g f k).fm / 2) = (fun k => normSq (f k).fm / 2) ∘ (Equiv.addRight g) := by
      funext k; simp [shiftF]
    rw [this]; exact Set.Finite.preimage (Equiv.injective _).injOn h2
  have s3 : Function.HasFiniteSupport (fun k => normSq (shiftF g f k).z) := by simpa [shiftF] using h3
  have s12 : Function.HasFiniteSupport (fun k => normSq (shiftF g f k).fp / 2 + normSq (shiftF g f k).fm / 2) := s1.add s2
  have h12 : Function.HasFiniteSupport (fun k => normSq (f k).fp / 2 + normSq (f k).fm / 2) := h1.add h2
  rw [finsum_add_distrib s12 s3, finsum_add_distrib s1 s2, finsum_add_distrib h12 h3, finsum_add_distrib h1 h2]
  congr 1
  · congr 1
    · have : (fun k => normSq (shiftF g f k).fp / 2) = fun k => normSq (f (Equiv.subRight g k)).fp / 2 := by
        funext k; simp [shiftF]
      rw [this, finsum_comp_equiv (Equiv.subRight g) (f := fun k => normSq (f k).fp / 2)]
    · have : (fun k => normSq (shiftF g f k).fm / 2) = fun k => normSq (f (Equiv.addRight g k)).fm / 2 := by
        funext k; simp [shiftF]
      rw [this, finsum_comp_equiv (Equiv.addRight g) (f := fun k => normSq (f k).fm / 2)]

end nd

end EpgVerif.Props.C14
