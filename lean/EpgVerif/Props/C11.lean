import EpgVerif.Tie.MathTable
/-
  C11 — symbolic Sequence layer: `Expression.derive` is the mathematical derivative for every
  composition of the provided functions; substitution commutes with evaluation; every virtual
  operator is bound to the concrete operator it is named after, parameter by parameter.
-/
namespace EpgVerif.Props.C11
open EpgVerif SE

/-- **`Expression.derive` equals the mathematical derivative**, for every expression tree over
    `+ - * / ** neg abs log exp` (and the auxiliary `left/right/inv/sign`), variables and constants,
    with the derivative table of the *current* source (`Gen.mathTable`, proved correct in
    `Tie/MathTable.lean`): whenever the code returns a derivative expression, evaluating it gives
    the derivative of the evaluated expression along that variable. -/
theorem expression_derive_exact (v : String) (env : String → ℝ) (e : SE ℝ) (hc : Closed e)
    (de : SE ℝ) (hd : derive (Gen.mathTable (K := ℝ)) v e = some de) (hdef : Defined env e) :
    HasDerivAt (fun x => eval (Function.update env v x) 0 0 e) (eval env 0 0 de) (env v) :=
  derive_correct _ Tie.mathTable_ok v env e hc de hd hdef

/-- **substitution commutes with evaluation** (`Expression.map` / `__call__` / `repeat`) -/
theorem subst_eval (σ : String → Option (SE ℝ)) (env : String → ℝ) (p1 p2 : ℝ) (e : SE ℝ)
    (hσ : ∀ v s, σ v = some s → Closed s) :
    eval env p1 p2 (subst σ e)
      = eval (fun v => match σ v with | some s => eval env p1 p2 s | none => env v) p1 p2 e := by
  induction e with
  | const c => rfl
  | var v =>
    simp only [subst, eval]
    cases h : σ v <;> simp [eval]
  | proxy n => rfl
  | app1 f a ih => simp [subst, eval, ih]
  | app2 f a b iha ihb => simp [subst, eval, iha, ihb]

/-- a virtual operator is well bound: named after its concrete operator, its positional slots are,
    in order, the leading positional parameters of the concrete constructor and cover every required
    one, its keyword slots are parameters of that constructor -/
def wellBound (e : Gen.VEntry) : Bool :=
  (e.name == e.opname || e.name == "Null")
    && (e.positionals == e.initPositional.take e.positionals.length)
    && e.initRequired.all (fun r => e.positionals.contains r)
    && e.keywords.all (fun k => (e.initPositional ++ e.initKwonly).contains k)

/-- **binding table** (introspected from the current source): every virtual operator is well bound -/
theorem virtual_table_wellbound : Gen.virtualTable.all wellBound = true := by decide

/-- non-vacuity: the derivative of `a * exp(a / b)` in `a` computed by the model of the code -/
example : ∃ de, derive (Gen.mathTable (K := ℝ)) "a"
    (app2 .mul (var "a") (app1 .exp (app2 .div (var "a") (var "b")))) = some de := ⟨_, rfl⟩

end EpgVerif.Props.C11
