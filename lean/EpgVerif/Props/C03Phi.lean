import EpgVerif.Props.C03Gen
import EpgVerif.Props.C02Fam
import EpgVerif.Props.C03Prog
/-
  C03, end to end for the phase-offset operator Phi(phi) — a matrix operator with one parameter — mixed pair (a, b),
  the phase driven by both variables through a (non-linear) expression.
-/
namespace EpgVerif.Props.C03
open EpgVerif Diff Ex Finset EpgVerif.Props.C02

/-- the phase-offset operator as `_apply_order2` sees it -/
noncomputable def phiDOp (env : Nat → ℂ) (a b : Var) (ca cb c2 : ℂ) : DOp ℂ (PS ℂ) where
  derive0 X := PS.mmul (fun i j => eval env (Coeff.Phi.mat i j)) X
  derive1 _ X := PS.mmul (fun i j => eval env (d 0 (Coeff.Phi.mat i j))) X
  derive2 _ X := PS.mmul (fun i j => eval env (d 0 (d 0 (Coeff.Phi.mat i j)))) X
  order1 := [(a, [("phi", ca)]), (b, [("phi", cb)])]
  order2 := [((a, b), [("phi", c2)])]
  auto := false
  P2 := [("phi", "phi")]

/-- **C03 end to end, phase offset, mixed pair (a, b)**: `phi` depends on the variables `a < b` — along `b` with slope
    `cB`, the slope `sa` of `a` moving with `b` with slope `c2` — and the value `_apply_order2` stores under `(a, b)` is
    the derivative with respect to `b` of the new first partial under `a` -/
theorem Phi_mixed_partial_exact_nl (phi sa : ℝ → ℝ) (cB c2 y0 : ℝ) (a b : Var) (hab : a < b)
    (hphi : HasDerivAt phi cB y0) (hsa : HasDerivAt sa c2 y0)
    (s Ja : ℝ → PS ℂ) (Jb H : PS ℂ) (hs : PSHasDeriv s Jb y0) (hJ : PSHasDeriv Ja H y0) :
    let env := fun y : ℝ => envOf [((phi y : ℝ) : ℂ), (((0 : ℝ)) : ℂ)]
    PSHasDeriv (fun y => PS.mmul (fun i j => eval (env y) (Coeff.Phi.mat i j)) (Ja y)
                    + PS.smul ((sa y : ℝ) : ℂ) (PS.mmul (fun i j => eval (env y) (d 0 (Coeff.Phi.mat i j))) (s y)))
      (Diff.val (applyOrder2 (modCar (K := ℂ))
          (phiDOp (env y0) a b ((sa y0 : ℝ) : ℂ) (cB : ℂ) (c2 : ℂ))
          (s y0) [(a, Ja y0), (b, Jb)] [((a, b), H)]) (a, b)) y0 := by
  intro env
  set op := phiDOp (env y0) a b ((sa y0 : ℝ) : ℂ) (cB : ℂ) (c2 : ℂ) with hop
  have h0 : op.derive0 0 = 0 := by
    simp only [hop, phiDOp]
    apply PS.ext' <;> simp [PS.mmul]
  rw [pairVar_value op a b hab _ _ _ rfl rfl rfl h0]
  have hd : ∀ i j, Defined (envOf [((phi y0 : ℝ) : ℂ), (((0 : ℝ)) : ℂ)]) (Coeff.Phi.mat i j) := fun i j => phi_defined _ i j
  have hm := mixed_step_nl Coeff.Phi.mat phi (fun _ => 0) sa (fun _ => 0) cB 0 c2 0 y0 hphi (hasDerivAt_const _ _) hsa
    (hasDerivAt_const _ _) hd s Ja Jb H hs hJ
  have hfun : (fun y => PS.mmul (fun i j => eval (env y) (Coeff.Phi.mat i j)) (Ja y)
                    + PS.smul ((sa y : ℝ) : ℂ) (PS.mmul (fun i j => eval (env y) (d 0 (Coeff.Phi.mat i j))) (s y)))
      = (fun y => PS.mmul (fun i j => eval (envOf [((phi y : ℝ) : ℂ), (((fun _ : ℝ => (0 : ℝ)) y : ℝ) : ℂ)]) (Coeff.Phi.mat i j)) (Ja y)
                    + (PS.smul ((sa y : ℝ) : ℂ) (PS.mmul (fun i j => eval (envOf [((phi y : ℝ) : ℂ), (((fun _ : ℝ => (0 : ℝ)) y : ℝ) : ℂ)]) (d 0 (Coeff.Phi.mat i j))) (s y))
                      + PS.smul (((fun _ : ℝ => (0 : ℝ)) y : ℝ) : ℂ) (PS.mmul (fun i j => eval (envOf [((phi y : ℝ) : ℂ), (((fun _ : ℝ => (0 : ℝ)) y : ℝ) : ℂ)]) (d 1 (Coeff.Phi.mat i j))) (s y)))) := by
    funext y
    apply PS.ext' <;> simp [PS.smul, env]
  rw [hfun]
  refine hm.congr_deriv ?_
  have sp : supported op "phi" "phi" = true := by simp (config := {decide := true}) [supported, op, phiDOp]
  have pp : pair "phi" "phi" = ("phi", "phi") := by decide
  simp only [List.map_cons, List.map_nil, List.sum_cons, List.sum_nil, add_zero, sp, pp, if_true]
  apply PS.ext' <;>
  · simp only [op, phiDOp, smul_eq_PSsmul, PS.mmul, PS.smul, PS.add_fp, PS.add_fm, PS.add_z, env, id]
    push_cast
    ring

/-! ### the phase-offset step of whole programs -/
section program
variable {κ : Type}

noncomputable def stepPhi (y0 : ℝ) (a b : Var) (hab : a < b) (phi sa : ℝ → ℝ) (cB c2 : ℝ)
    (hphi : HasDerivAt phi cB y0) (hsa : HasDerivAt sa c2 y0) : Step2 y0 κ where
  S := fun y f k => PS.mmul (fun i j => eval (envOf [((phi y : ℝ) : ℂ), (((0 : ℝ)) : ℂ)]) (Coeff.Phi.mat i j)) (f k)
  J := fun y f ja k =>
    PS.mmul (fun i j => eval (envOf [((phi y : ℝ) : ℂ), (((0 : ℝ)) : ℂ)]) (Coeff.Phi.mat i j)) (ja k)
      + PS.smul ((sa y : ℝ) : ℂ) (PS.mmul (fun i j => eval (envOf [((phi y : ℝ) : ℂ), (((0 : ℝ)) : ℂ)]) (d 0 (Coeff.Phi.mat i j))) (f k))
  Jb := fun f jb k =>
    PS.mmul (fun i j => eval (envOf [((phi y0 : ℝ) : ℂ), (((0 : ℝ)) : ℂ)]) (Coeff.Phi.mat i j)) (jb k)
      + PS.smul (cB : ℂ) (PS.mmul (fun i j => eval (envOf [((phi y0 : ℝ) : ℂ), (((0 : ℝ)) : ℂ)]) (d 0 (Coeff.Phi.mat i j))) (f k))
  Hn := fun f ja jb h k =>
    Diff.val (applyOrder2 (modCar (K := ℂ))
      (phiDOp (envOf [((phi y0 : ℝ) : ℂ), (((0 : ℝ)) : ℂ)]) a b ((sa y0 : ℝ) : ℂ) (cB : ℂ) (c2 : ℂ))
      (f k) [(a, ja k), (b, jb k)] [((a, b), h k)]) (a, b)
  first := by
    intro s Jb0 h k
    let env : ℝ → Nat → ℂ := fun y => envOf [((phi y : ℝ) : ℂ), (((0 : ℝ)) : ℂ)]
    let c : Nat → ℂ := fun j => match j with | 0 => (cB : ℂ) | _ => 0
    have henv : ∀ j, HasDerivAt (fun y => env y j) (c j) y0 := by
      intro j
      match j with
      | 0 => simpa [env, envOf, c] using hphi.ofReal_comp
      | (n + 1) => simpa [env, envOf, c] using hasDerivAt_const y0 (_ : ℂ)
    have hc : ∀ j, 1 ≤ j → c j = 0 := by
      intro j hj
      match j with
      | 0 => omega
      | (n + 1) => rfl
    have hcr : ∀ j, (starRingEnd ℂ) (c j) = c j := by
      intro j
      match j with
      | 0 => simp [c]
      | (n + 1) => simp [c]
    have hm := mat_step Coeff.Phi.mat env c 1 y0 henv hc hcr (fun i j => phi_defined _ i j) (fun y => s y k) (Jb0 k) (h k)
    refine hm.congr_deriv ?_
    apply PS.ext' <;> simp [psSum, Finset.sum_range_succ, c, env]
  mixed := by
    intro s Ja Jb0 H h1 h2 k
    exact Phi_mixed_partial_exact_nl phi sa cB c2 y0 a b hab hphi hsa
      (fun y => s y k) (fun y => Ja y k) (Jb0 k) (H k) (h1 k) (h2 k)

end program

end EpgVerif.Props.C03
