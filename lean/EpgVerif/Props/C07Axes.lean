import EpgVerif.Model.Shape
/-
  C07, `common.set_axes` as coded (through numpy's `expand_dims`) — `Shp.setAxesFull`, the function the driver runs against
  the real code — agrees, for an integer `axes`, with the closed form `Shp.setAxes` that `Props/C07.lean` reasons about:
  `a` singleton axes in front, then the array's own axes, for every shape with at least one batch axis.
-/
namespace EpgVerif.Props.C07Axes
open EpgVerif Shp

theorem placeDims_range (a : Nat) : ∀ (i n : Nat) (s : Shape), s.length + (a - i) = n →
    placeDims i n (List.range a) s = List.replicate (a - i) 1 ++ s := by
  intro i n
  induction n generalizing i with
  | zero =>
    intro s h
    have h1 : s.length = 0 := by omega
    have h2 : a - i = 0 := by omega
    have : s = [] := List.length_eq_zero_iff.mp h1
    subst this; simp [placeDims, h2]
  | succ n ih =>
    intro s h
    by_cases hlt : i < a
    · have hc : (List.range a).contains i = true := by simp [hlt]
      simp only [placeDims, hc, if_true]
      rw [ih (i + 1) s (by omega)]
      have : a - i = (a - (i + 1)) + 1 := by omega
      rw [this, List.replicate_succ]; rfl
    · have hc : (List.range a).contains i = false := by simp; omega
      have h2 : a - i = 0 := by omega
      cases s with
      | nil => simp at h; omega
      | cons d r =>
        simp only [placeDims, hc, Bool.false_eq_true, if_false]
        rw [ih (i + 1) r (by simp at h; omega)]
        have h3 : a - (i + 1) = 0 := by omega
        simp [h2, h3]

theorem expandDims_range (s : Shape) (a : Nat) : expandDims s (List.range a) = some (List.replicate a 1 ++ s) := by
  unfold expandDims
  have h : (List.range a).any (fun p => s.length + (List.range a).length ≤ p) = false := by
    simp [List.any_eq_false]; intro p hp; omega
  simp only [h, Bool.false_eq_true, if_false]
  rw [placeDims_range a 0 _ s (by simp)]
  simp

theorem int_axes_filter (a nb : Nat) (h : 0 < nb) :
    (List.range (a + nb - 1)).filter (fun i => !((List.range nb).map (· + a)).contains i) = List.range a := by
  have e : List.range (a + nb - 1) = List.range a ++ (List.range (nb - 1)).map (· + a) := by
    have : a + nb - 1 = a + (nb - 1) := by omega
    rw [this, List.range_add]
    simp [Nat.add_comm]
  rw [e, List.filter_append]
  have h1 : (List.range a).filter (fun i => !((List.range nb).map (· + a)).contains i) = List.range a := by
    apply List.filter_eq_self.mpr
    intro i hi
    simp at hi ⊢
    intro x _ ; omega
  have h2 : ((List.range (nb - 1)).map (· + a)).filter (fun i => !((List.range nb).map (· + a)).contains i) = [] := by
    apply List.filter_eq_nil_iff.mpr
    intro i hi
    simp at hi ⊢
    obtain ⟨x, hx, rfl⟩ := hi
    exact ⟨x, by omega, rfl⟩
  rw [h1, h2]; simp

theorem int_axes_max (a nb : Nat) (h : 0 < nb) : ((List.range nb).map (· + a)).max? = some (a + nb - 1) := by
  obtain ⟨n, rfl⟩ : ∃ n, nb = n + 1 := ⟨nb - 1, by omega⟩
  rw [List.max?_eq_some_iff]
  constructor
  · simp; exact ⟨n, by omega, by omega⟩
  · intro b hb; simp at hb; obtain ⟨x, hx, rfl⟩ := hb; omega

/-- **`set_axes` with an integer `axes`**: `a` singleton axes, then the array's own axes -/
theorem setAxesFull_int (ndim : Nat) (s : Shape) (a : Nat) (h : ndim < s.length) :
    setAxesFull ndim s (.inl a) = some (setAxes s a) := by
  unfold setAxesFull
  simp only [int_axes_max a (s.length - ndim) (by omega)]
  rw [int_axes_filter a (s.length - ndim) (by omega), expandDims_range]
  rfl

/-- without a batch axis the call raises (`max(())`) -/
theorem setAxesFull_int_nobatch (ndim : Nat) (s : Shape) (a : Nat) (h : s.length ≤ ndim) :
    setAxesFull ndim s (.inl a) = none := by
  unfold setAxesFull
  have : s.length - ndim = 0 := by omega
  simp [this]

example : setAxesFull 1 [2, 5, 3] (.inl 2) = some [1, 1, 2, 5, 3] := by decide
example : setAxesFull 0 [2, 3] (.inr [0, 2]) = some [2, 1, 3] := by decide
example : setAxesFull 0 [2, 3] (.inr [2, 0]) = some [2, 1, 3] := by decide   -- own axes keep their order
example : setAxesFull 0 [2] (.inr [0, 1, 3]) = none := by decide

end EpgVerif.Props.C07Axes
