import EpgVerif.Props.C13Prune
/-!
  C13, n-D state cap (`max_nstate` / `nmax` with the integer n-D back-end): the exactness horizon at function level.

  `shiftnd` drops, after the shift, every row one of whose *spatial* wavenumber indices exceeds the cap in modulus
  (the accumulated-time column is not capped).  Abstractly: a size function `sz` on the wavenumber group that is
  even, subadditive and zero at the origin (for `K4`: `max |x| |y| |z|`, a seminorm that ignores `t`), and the mask
  `sz k ≤ n` applied at every shift.

  Theorems: the capped run keeps nothing beyond the cap after a shift; it agrees with the uncapped run on every
  wavenumber `k` with `sz k + (accumulated shift size) ≤ n` (light cone); hence every acquisition (`k = 0`) is exact
  as long as the accumulated shift size does not exceed `n`.
-/
namespace EpgVerif.Props.C13
open Complex EpgVerif EpgVerif.Props.C04 EpgVerif.Props.C08 EpgVerif.Props.C14

variable {κ : Type} [DecidableEq κ] [AddCommGroup κ]

/-- size of a wavenumber for the cap: even, subadditive, zero at the origin -/
structure Size (κ : Type) [AddCommGroup κ] where
  sz : κ → ℕ
  neg : ∀ k, sz (-k) = sz k
  tri : ∀ a b, sz (a + b) ≤ sz a + sz b
  zero : sz 0 = 0

theorem Size.sub_le (S : Size κ) (a b : κ) : S.sz (a - b) ≤ S.sz a + S.sz b := by
  have := S.tri a (-b)
  rw [S.neg] at this
  simpa [sub_eq_add_neg] using this

/-- the cap: rows beyond `n` are dropped -/
noncomputable def capF (S : Size κ) (n : ℕ) (f : κ → PS ℂ) : κ → PS ℂ :=
  fun k => if S.sz k ≤ n then f k else 0

/-- a step of the capped simulation: the cap acts where new rows appear, at the shifts -/
noncomputable def cstep (S : Size κ) (n : ℕ) (pd : ℂ) : FOp κ → (κ → PS ℂ) → (κ → PS ℂ)
  | .shift g, f => capF S n (shiftF g f)
  | op, f => fstep pd op f

noncomputable def crun (S : Size κ) (n : ℕ) (pd : ℂ) (ops : List (FOp κ)) (f : κ → PS ℂ) : κ → PS ℂ :=
  ops.foldl (fun f o => cstep S n pd o f) f

/-- size of the shift of a step -/
def amt (S : Size κ) : FOp κ → ℕ
  | .shift g => S.sz g
  | _ => 0

def total (S : Size κ) (ops : List (FOp κ)) : ℕ := (ops.map (amt S)).sum

/-- light cone: the capped and the uncapped state agree wherever `sz k + A ≤ n` -/
def Agree (S : Size κ) (n A : ℕ) (tr full : κ → PS ℂ) : Prop := ∀ k, S.sz k + A ≤ n → tr k = full k

theorem agree_step (S : Size κ) (n A : ℕ) (pd : ℂ) (op : FOp κ) (tr full : κ → PS ℂ)
    (h : Agree S n A tr full) : Agree S n (A + amt S op) (cstep S n pd op tr) (fstep pd op full) := by
  intro k hk
  cases op with
  | pt o =>
    simp only [amt, add_zero] at hk
    simp only [cstep, fstep, pointF]
    rw [h k hk]
  | diag a =>
    simp only [amt, add_zero] at hk
    simp only [cstep, fstep]
    rw [h k hk]
  | shift g =>
    simp only [amt] at hk
    have hkn : S.sz k ≤ n := by omega
    simp only [cstep, fstep, capF, hkn, if_true, shiftF]
    have h1 : S.sz (k - g) + A ≤ n := by have := S.sub_le k g; omega
    have h2 : S.sz (k + g) + A ≤ n := by have := S.tri k g; omega
    have h3 : S.sz k + A ≤ n := by omega
    rw [h (k - g) h1, h (k + g) h2, h k h3]

theorem agree_run (S : Size κ) (n : ℕ) (pd : ℂ) (ops : List (FOp κ)) (A : ℕ) (tr full : κ → PS ℂ)
    (h : Agree S n A tr full) : Agree S n (A + total S ops) (crun S n pd ops tr) (frun pd ops full) := by
  induction ops generalizing A tr full with
  | nil => simpa [total, crun, frun] using h
  | cons op ops ih =>
    have := ih (A + amt S op) _ _ (agree_step S n A pd op tr full h)
    simpa [total, crun, frun, List.foldl, add_assoc] using this

/-- **exactness horizon of the n-D cap**: started from the same state, the capped run equals the uncapped run on
    every wavenumber within the light cone -/
theorem nd_cap_horizon (S : Size κ) (n : ℕ) (pd : ℂ) (ops : List (FOp κ)) (f : κ → PS ℂ) (k : κ)
    (hk : S.sz k + total S ops ≤ n) : crun S n pd ops f k = frun pd ops f k := by
  have := agree_run S n pd ops 0 f f (fun _ _ => rfl) k (by simpa using hk)
  exact this

/-- **acquisitions are exact** (`F0`, `Z0` are read at `k = 0`) while the accumulated shift size is at most `n` -/
theorem nd_acquisition_exact (S : Size κ) (n : ℕ) (pd : ℂ) (ops : List (FOp κ)) (f : κ → PS ℂ)
    (h : total S ops ≤ n) : crun S n pd ops f 0 = frun pd ops f 0 :=
  nd_cap_horizon S n pd ops f 0 (by simpa [S.zero] using h)

/-- **nothing beyond the cap is kept**: right after a shift every row of size above `n` is empty -/
theorem nd_cap_drops (S : Size κ) (n : ℕ) (pd : ℂ) (g : κ) (f : κ → PS ℂ) (k : κ) (hk : n < S.sz k) :
    cstep S n pd (.shift g) f k = 0 := by
  simp [cstep, capF, Nat.not_le.mpr hk]

/-- and per-state operators keep it empty (they act linearly on each row, the equilibrium sits at the origin) -/
theorem nd_cap_stays_dropped (S : Size κ) (n : ℕ) (pd : ℂ) (o : Op ℂ) (f : κ → PS ℂ) (k : κ) (hk : n < S.sz k)
    (hf : f k = 0) : cstep S n pd (.pt o) f k = 0 := by
  have hk0 : k ≠ 0 := by
    rintro rfl
    rw [S.zero] at hk
    omega
  simp only [cstep, fstep, pointF, hf, eqRow, hk0, if_false]
  exact pointOp_zero o

/-! ### the sharp horizon `2n + 1` (a dropped state would need more than `n` further shift units to come back) -/

/-- invariant of the sharp horizon after accumulated shift size `A`: the uncapped state lives within radius `A`,
    the capped one within `n`, and they agree on `sz k ≤ n`, `sz k + A ≤ 2n + 1` -/
structure Inv2 (S : Size κ) (n A : ℕ) (tr full : κ → PS ℂ) : Prop where
  radius : ∀ k, A < S.sz k → full k = 0
  cap : ∀ k, n < S.sz k → tr k = 0
  agree : ∀ k, S.sz k ≤ n → S.sz k + A ≤ 2 * n + 1 → tr k = full k

theorem Size.le_add_of_sub (S : Size κ) (k g : κ) : S.sz k ≤ S.sz (k - g) + S.sz g := by
  have := S.tri (k - g) g
  simpa using this

theorem Size.le_add_of_add (S : Size κ) (k g : κ) : S.sz k ≤ S.sz (k + g) + S.sz g := by
  have := S.tri (k + g) (-g)
  rw [S.neg] at this
  simpa using this

private theorem ps_zero_mk : (⟨0, 0, 0⟩ : PS ℂ) = 0 := rfl

private theorem dmul_zero (a : Nat → ℂ) : PS.dmul a (0 : PS ℂ) = 0 := by
  apply PS.ext' <;> (show _ * (0 : ℂ) = 0; simp)

theorem ne_zero_of_pos (S : Size κ) (k : κ) (m : ℕ) (h : m < S.sz k) : k ≠ 0 := by
  rintro rfl
  rw [S.zero] at h
  omega

/-- where either state of the invariant can be read at a wavenumber `x` of size at most `m + a` with
    `m ≤ n`, `m + A + a ≤ 2n + 1`, the two agree (both vanish beyond the cap) -/
private theorem Inv2.read (S : Size κ) (n A a m : ℕ) (tr full : κ → PS ℂ) (h : Inv2 S n A tr full) (x : κ)
    (hx : S.sz x ≤ m + a) (hm : m + A + a ≤ 2 * n + 1) : tr x = full x := by
  by_cases hn : S.sz x ≤ n
  · exact h.agree x hn (by omega)
  · rw [h.cap x (by omega), h.radius x (by omega)]

theorem inv2_step (S : Size κ) (n A : ℕ) (pd : ℂ) (op : FOp κ) (tr full : κ → PS ℂ)
    (h : Inv2 S n A tr full) : Inv2 S n (A + amt S op) (cstep S n pd op tr) (fstep pd op full) := by
  cases op with
  | pt o =>
    simp only [amt, add_zero]
    refine ⟨fun k hk => ?_, fun k hk => ?_, fun k hk hA => ?_⟩
    · simp only [fstep, pointF, h.radius k hk, eqRow, ne_zero_of_pos S k A hk, if_false]
      exact pointOp_zero o
    · exact nd_cap_stays_dropped S n pd o tr k hk (h.cap k hk)
    · simp only [cstep, fstep, pointF]; rw [h.agree k hk hA]
  | diag a =>
    simp only [amt, add_zero]
    refine ⟨fun k hk => ?_, fun k hk => ?_, fun k hk hA => ?_⟩
    · simp only [fstep, h.radius k hk]; exact dmul_zero _
    · simp only [cstep, fstep, h.cap k hk]; exact dmul_zero _
    · simp only [cstep, fstep]; rw [h.agree k hk hA]
  | shift g =>
    simp only [amt]
    refine ⟨fun k hk => ?_, fun k hk => ?_, fun k hk hA => ?_⟩
    · have h1 := S.le_add_of_sub k g
      have h2 := S.le_add_of_add k g
      simp only [fstep, shiftF]
      rw [h.radius (k - g) (by omega), h.radius (k + g) (by omega), h.radius k (by omega)]
    · exact nd_cap_drops S n pd g tr k hk
    · simp only [cstep, fstep, capF, hk, if_true, shiftF]
      rw [Inv2.read S n A (S.sz g) (S.sz k) tr full h (k - g) (S.sub_le k g) (by omega),
        Inv2.read S n A (S.sz g) (S.sz k) tr full h (k + g) (S.tri k g) (by omega),
        Inv2.read S n A (S.sz g) (S.sz k) tr full h k (by omega) (by omega)]

theorem inv2_run (S : Size κ) (n : ℕ) (pd : ℂ) (ops : List (FOp κ)) (A : ℕ) (tr full : κ → PS ℂ)
    (h : Inv2 S n A tr full) : Inv2 S n (A + total S ops) (crun S n pd ops tr) (frun pd ops full) := by
  induction ops generalizing A tr full with
  | nil => simpa [total, crun, frun] using h
  | cons op ops ih =>
    have := ih (A + amt S op) _ _ (inv2_step S n A pd op tr full h)
    simpa [total, crun, frun, List.foldl, add_assoc] using this

/-- **sharp exactness horizon of the n-D cap**: from a state that only occupies wavenumbers of size 0 (the initial
    state, also after time accumulation), state `k` of the capped run is exact while `sz k + (accumulated shift
    size) ≤ 2n + 1` -/
theorem nd_cap_horizon_sharp (S : Size κ) (n : ℕ) (pd : ℂ) (ops : List (FOp κ)) (f : κ → PS ℂ)
    (hf : ∀ k, 0 < S.sz k → f k = 0) (k : κ) (hk : S.sz k ≤ n) (hA : S.sz k + total S ops ≤ 2 * n + 1) :
    crun S n pd ops f k = frun pd ops f k := by
  have h0 : Inv2 S n 0 f f := ⟨hf, fun k hk => hf k (by omega), fun _ _ _ => rfl⟩
  have := inv2_run S n pd ops 0 f f h0
  exact this.agree k hk (by simpa using hA)

/-- **acquisitions are exact while the accumulated shift size is at most `2n + 1`** -/
theorem nd_acquisition_exact_sharp (S : Size κ) (n : ℕ) (pd : ℂ) (ops : List (FOp κ)) (f : κ → PS ℂ)
    (hf : ∀ k, 0 < S.sz k → f k = 0) (h : total S ops ≤ 2 * n + 1) :
    crun S n pd ops f 0 = frun pd ops f 0 :=
  nd_cap_horizon_sharp S n pd ops f hf 0 (by simp [S.zero]) (by simpa [S.zero] using h)

/-- **and the capped run never holds anything beyond the cap** -/
theorem nd_cap_bound (S : Size κ) (n : ℕ) (pd : ℂ) (ops : List (FOp κ)) (f : κ → PS ℂ)
    (hf : ∀ k, 0 < S.sz k → f k = 0) (k : κ) (hk : n < S.sz k) : crun S n pd ops f k = 0 := by
  have h0 : Inv2 S n 0 f f := ⟨hf, fun k hk => hf k (by omega), fun _ _ _ => rfl⟩
  exact (inv2_run S n pd ops 0 f f h0).cap k hk

/-! ### the cap of the code: the three spatial indices, not the accumulated time -/

/-- `max |kx| |ky| |kz|`: what `shiftnd` compares with `nmax` (the time column is left out) -/
def spatialSize : Size K4 where
  sz := K4.spatial
  neg k := by simp [K4.spatial]
  tri a b := by
    simp only [K4.spatial, K4.add_x, K4.add_y, K4.add_z]
    have hx := Int.natAbs_add_le a.x b.x
    have hy := Int.natAbs_add_le a.y b.y
    have hz := Int.natAbs_add_le a.z b.z
    omega
  zero := by simp [K4.spatial]

/-- time accumulation does not consume the horizon: a shift along `t` only has size 0 -/
theorem time_shift_free (τ : ℤ) : amt spatialSize (.shift (⟨0, 0, 0, τ⟩ : K4)) = 0 := by
  simp [amt, spatialSize, K4.spatial]

/-- non-vacuity: three unit gradient shifts along x interleaved with time accumulation stay exact under a cap of 3 -/
example (pd : ℂ) (f : K4 → PS ℂ) :
    crun spatialSize 3 pd [.shift ⟨1, 0, 0, 0⟩, .shift ⟨0, 0, 0, 5⟩, .shift ⟨1, 0, 0, 0⟩, .shift ⟨0, 0, 0, 5⟩,
        .shift ⟨1, 0, 0, 0⟩] f 0
      = frun pd [.shift ⟨1, 0, 0, 0⟩, .shift ⟨0, 0, 0, 5⟩, .shift ⟨1, 0, 0, 0⟩, .shift ⟨0, 0, 0, 5⟩,
        .shift ⟨1, 0, 0, 0⟩] f 0 :=
  nd_acquisition_exact spatialSize 3 pd _ f (by simp [total, amt, spatialSize, K4.spatial])

/-- the same three shifts are still exact under a cap of 1 (sharp horizon `2n + 1 = 3`), from a state at the origin -/
example (pd : ℂ) (f : K4 → PS ℂ) (hf : ∀ k, 0 < spatialSize.sz k → f k = 0) :
    crun spatialSize 1 pd [.shift ⟨1, 0, 0, 0⟩, .shift ⟨0, 0, 0, 5⟩, .shift ⟨1, 0, 0, 0⟩, .shift ⟨1, 0, 0, 0⟩] f 0
      = frun pd [.shift ⟨1, 0, 0, 0⟩, .shift ⟨0, 0, 0, 5⟩, .shift ⟨1, 0, 0, 0⟩, .shift ⟨1, 0, 0, 0⟩] f 0 :=
  nd_acquisition_exact_sharp spatialSize 1 pd _ f hf (by simp [total, amt, spatialSize, K4.spatial])

/-- **the executable capped shift is the function-level one** (per step; `NDS.capShift` is what the driver runs
    against epgpy's `shiftnd(..., nmax)` in the C13 correspondence) -/
theorem get_capShift (S : Size κ) (n : ℕ) (g : κ) (s : NDS κ ℂ) (h : WFN s) (k : κ) :
    (s.capShift S.sz n g).get k = capF S n (shiftF g s.get) k := by
  unfold NDS.capShift capF
  simp only [NDS.get]
  rw [List.find?_filter]
  by_cases hk : S.sz k ≤ n
  · simp only [hk, if_true]
    have : (fun e : κ × PS ℂ => decide (decide (S.sz e.1 ≤ n) = true ∧ decide (e.1 = k) = true))
        = fun e => decide (e.1 = k) := by
      funext e
      by_cases he : e.1 = k
      · simp [he, hk]
      · simp [he]
    rw [this]
    exact get_shift g s h k
  · simp only [hk, if_false]
    have : (fun e : κ × PS ℂ => decide (decide (S.sz e.1 ≤ n) = true ∧ decide (e.1 = k) = true))
        = fun _ => false := by
      funext e
      by_cases he : e.1 = k
      · simp [he, hk]
      · simp [he]
    rw [this, List.find?_eq_none.mpr (by simp)]

/-- **capped tables stay well-formed** (C08 for truncated n-D programs): the cap is even, so it removes a state
    together with its conjugate mirror; the origin is never removed -/
theorem wfn_capShift (S : Size κ) (n : ℕ) (g : κ) (s : NDS κ ℂ) (h : WFN s) : WFN (s.capShift S.sz n g) := by
  have hg := get_capShift S n g s h
  have hs := wfn_shift g s h
  refine ⟨?_, ?_, ?_, h.pdreal⟩
  · unfold NDS.capShift NDS.keys
    simp only [List.mem_map, List.mem_filter, decide_eq_true_eq]
    obtain ⟨e, he, he0⟩ := List.mem_map.mp hs.zero_mem
    exact ⟨e, ⟨he, by rw [he0, S.zero]; omega⟩, he0⟩
  · intro k
    rw [hg k, hg (-k)]
    unfold capF
    rw [S.neg]
    by_cases hk : S.sz k ≤ n
    · simp only [hk, if_true, shiftF]
      have := h.fsym (k + g)
      rw [this]; congr 2; abel
    · simp only [hk, if_false]; simp
  · intro k
    rw [hg k, hg (-k)]
    unfold capF
    rw [S.neg]
    by_cases hk : S.sz k ≤ n
    · simp only [hk, if_true, shiftF]; exact h.zsym k
    · simp only [hk, if_false]; simp

/-- the capped table after any program is the capped function-level run -/
theorem get_capRun (S : Size κ) (n : ℕ) (ops : List (NOp κ ℂ)) (hops : ∀ op ∈ ops, RealOp op) (s : NDS κ ℂ)
    (h : WFN s) :
    (s.capRun S.sz n ops).get = crun S n s.pd (ops.map toF) s.get ∧ (s.capRun S.sz n ops).pd = s.pd
      ∧ WFN (s.capRun S.sz n ops) := by
  induction ops generalizing s with
  | nil => exact ⟨rfl, rfl, h⟩
  | cons op ops ih =>
    have hop := hops op (by simp)
    cases op with
    | pt o =>
      have hw := wfn_point o hop s h
      have := ih (fun o' ho' => hops o' (by simp [ho'])) _ hw
      have hpd : (s.point o).pd = s.pd := rfl
      have hg : (s.point o).get = pointF o s.pd s.get := funext (get_point o s h.zero_mem)
      simp only [NDS.capRun, List.foldl_cons, NDS.capApply, List.map_cons, crun, toF, cstep, fstep] at this ⊢
      rw [hpd, hg] at this
      exact this
    | shift g =>
      have hw := wfn_capShift S n g s h
      have := ih (fun o' ho' => hops o' (by simp [ho'])) _ hw
      have hpd : (s.capShift S.sz n g).pd = s.pd := rfl
      have hg : (s.capShift S.sz n g).get = capF S n (shiftF g s.get) := funext (get_capShift S n g s h)
      simp only [NDS.capRun, List.foldl_cons, NDS.capApply, List.map_cons, crun, toF, cstep] at this ⊢
      rw [hpd, hg] at this
      exact this

/-- **C13 for the integer n-D back-end, in terms of the tables the driver runs**: from equilibrium, every state `k`
    with `sz k ≤ n` of the capped table equals that of the uncapped table while `sz k + (accumulated shift size)
    ≤ 2n + 1`; in particular `F0`, `Z0` (`k = 0`) while the accumulated shift size is at most `2n + 1` -/
theorem table_cap_horizon (S : Size κ) (n : ℕ) (pd : ℝ) (ops : List (NOp κ ℂ)) (hops : ∀ op ∈ ops, RealOp op)
    (k : κ) (hk : S.sz k ≤ n) (hA : S.sz k + total S (ops.map toF) ≤ 2 * n + 1) :
    ((NDS.init (0 : κ) (pd : ℂ)).capRun S.sz n ops).get k = ((NDS.init (0 : κ) (pd : ℂ)).run ops).get k := by
  have h0 := wfn_init (κ := κ) pd
  rw [(get_capRun S n ops hops _ h0).1, (get_run ops hops _ h0).1]
  apply nd_cap_horizon_sharp S n _ _ _ _ k hk hA
  intro k' hk'
  have hne : k' ≠ 0 := ne_zero_of_pos S k' 0 hk'
  unfold NDS.init NDS.get
  have : (0 : κ) ≠ k' := fun e => hne e.symm
  simp [this]

/-- and the capped table holds nothing beyond the cap -/
theorem table_cap_bound (S : Size κ) (n : ℕ) (pd : ℝ) (ops : List (NOp κ ℂ)) (hops : ∀ op ∈ ops, RealOp op)
    (k : κ) (hk : n < S.sz k) : ((NDS.init (0 : κ) (pd : ℂ)).capRun S.sz n ops).get k = 0 := by
  have h0 := wfn_init (κ := κ) pd
  rw [(get_capRun S n ops hops _ h0).1]
  apply nd_cap_bound S n _ _ _ _ k hk
  intro k' hk'
  have hne : k' ≠ 0 := ne_zero_of_pos S k' 0 hk'
  unfold NDS.init NDS.get
  have : (0 : κ) ≠ k' := fun e => hne e.symm
  simp [this]

end EpgVerif.Props.C13
