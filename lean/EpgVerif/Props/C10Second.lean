import EpgVerif.Props.C10
import EpgVerif.Props.C03
/-
  C10, second order — `_apply_order2` commutes with linear maps of the carrier.  `ScalarOp._combine` / `MatrixOp._combine`
  run the SAME `_apply_order2` bookkeeping on operator arrays (carrier: pairs (linear part, equilibrium part)) that
  sequential application runs on state matrices.  Evaluating an operator array on a state, `x ↦ x.1 • s + x.2 • e`, is a
  linear map of the carrier, and the closures `derive0/1/2` handed to `_apply_order2` by `_combine` are intertwined by it
  with those of the right operand acting on states.  Hence the second-order tables of `o1 @ o2`, applied to a state, are
  what sequential application stores (`combine_partials_second_order`).
-/
namespace EpgVerif.Props.C10
open EpgVerif Diff EpgVerif.Props.C03

section hom
variable {K C C' : Type} [CommSemiring K] [AddCommMonoid C] [Module K C] [AddCommMonoid C'] [Module K C']
variable {κ : Type} [DecidableEq κ]

def mapVals (φ : C →ₗ[K] C') (l : List (κ × C)) : List (κ × C') := l.map (fun e => (e.1, φ e.2))

theorem tot_mapVals (φ : C →ₗ[K] C') (l : List (κ × C)) (k : κ) : tot (mapVals φ l) k = φ (tot l k) := by
  induction l with
  | nil => simp [mapVals, tot_nil]
  | cons e l ih =>
    simp only [mapVals, List.map_cons] at ih ⊢
    rw [tot_cons, tot_cons, ih, map_add]
    by_cases h : e.1 = k <;> simp [h]

theorem hasKey_mapVals (φ : C →ₗ[K] C') (d : List (κ × C)) (k : κ) : hasKey (mapVals φ d) k = hasKey d k := by
  simp only [hasKey, mapVals, List.any_map]
  rfl

theorem insert_mapVals (φ : C →ₗ[K] C') (d : List (κ × C)) (k : κ) (v : C) :
    Diff.insert (mapVals φ d) k (φ v) = mapVals φ (Diff.insert d k v) := by
  unfold Diff.insert
  rw [hasKey_mapVals]
  by_cases h : hasKey d k = true
  · simp only [h, if_true, mapVals, List.map_map]
    apply List.map_congr_left
    intro e _
    simp only [Function.comp]
    by_cases he : e.1 = k <;> simp [he]
  · have h' : hasKey d k = false := by simpa using h
    simp [h', mapVals]

theorem lookup_mapVals (φ : C →ₗ[K] C') (d : List (κ × C)) (k : κ) : lookup (mapVals φ d) k = (lookup d k).map φ := by
  induction d with
  | nil => rfl
  | cons e d ih =>
    simp only [mapVals, List.map_cons] at ih ⊢
    simp only [lookup, List.find?_cons]
    by_cases h : e.1 = k
    · simp [h]
    · simp only [h, decide_false]
      exact ih

theorem val_mapVals (φ : C →ₗ[K] C') (d : List (κ × C)) (k : κ) : val (mapVals φ d) k = φ (val d k) := by
  unfold val
  rw [lookup_mapVals]
  cases lookup d k <;> simp

end hom

section order2
variable {K C C' : Type} [CommSemiring K] [AddCommMonoid C] [Module K C] [AddCommMonoid C'] [Module K C']

theorem normalize_mapVals (φ : C →ₗ[K] C') (o2 : List (VPair × C)) :
    Diff.normalize (mapVals φ o2) = mapVals φ (Diff.normalize o2) := by
  unfold Diff.normalize
  have gen : ∀ (acc : List (VPair × C)),
      (mapVals φ o2).foldl (fun acc e => Diff.insert acc (pairOf e.1) e.2) (mapVals φ acc)
        = mapVals φ (o2.foldl (fun acc e => Diff.insert acc (pairOf e.1) e.2) acc) := by
    induction o2 with
    | nil => intro acc; rfl
    | cons e o2 ih =>
      intro acc
      simp only [mapVals, List.map_cons, List.foldl_cons] at ih ⊢
      rw [show Diff.insert (List.map (fun e => (e.1, φ e.2)) acc) (pairOf e.1) (φ e.2)
            = mapVals φ (Diff.insert acc (pairOf e.1) e.2) from insert_mapVals φ acc _ _]
      exact ih _
  simpa [mapVals] using gen []

/-- **`_apply_order2` commutes with linear maps of the carrier** that intertwine the operator's closures -/
theorem applyOrder2_hom (op : DOp K C) (op' : DOp K C') (φ : C →ₗ[K] C') (s : C) (s' : C')
    (ho1 : op'.order1 = op.order1) (ho2 : op'.order2 = op.order2) (hau : op'.auto = op.auto) (hP : op'.P2 = op.P2)
    (h0 : ∀ x, φ (op.derive0 x) = op'.derive0 (φ x)) (h1 : ∀ p x, φ (op.derive1 p x) = op'.derive1 p (φ x))
    (h1s : ∀ p, φ (op.derive1 p s) = op'.derive1 p s') (h2s : ∀ pp, φ (op.derive2 pp s) = op'.derive2 pp s')
    (hz : op.derive0 0 = 0) (hz' : op'.derive0 0 = 0)
    (o1 : List (Var × C)) (o2 : List (VPair × C)) (k : VPair) (hk : Sorted k) :
    φ (val (applyOrder2 (modCar (K := K)) op s o1 o2) k)
      = val (applyOrder2 (modCar (K := K)) op' s' (mapVals φ o1) (mapVals φ o2)) k := by
  rw [order2_accumulates_every_term_once op hz s o1 o2 k hk,
    order2_accumulates_every_term_once op' hz' s' (mapVals φ o1) (mapVals φ o2) k hk]
  simp only [map_add]
  have eA : termsA (modCar (K := K)) op' s' = mapVals φ (termsA (modCar (K := K)) op s) := by
    simp only [termsA, ho2, mapVals, List.map_flatMap, List.map_map]
    congr 1; funext e
    apply List.map_congr_left
    intro pc _
    simp [modCar, h1s]
  have eG : ∀ v, order1Get op' v = order1Get op v := fun v => by simp [order1Get, ho1]
  have eS : ∀ p q, supported op' p q = supported op p q := fun p q => by simp [supported, hP]
  have eB : termsB (modCar (K := K)) op' s' = mapVals φ (termsB (modCar (K := K)) op s) := by
    simp only [termsB, ho2, mapVals, List.map_flatMap, eG, eS]
    congr 1; funext e
    congr 1; funext p1
    rw [List.map_filterMap]
    congr 1; funext p2
    by_cases hs : supported op p1.1 p2.1 = true
    · simp [hs, modCar, h2s]
    · simp [hs]
  have eV : varsCross op' (mapVals φ o1) = varsCross op o1 := by
    simp only [varsCross, hau, ho1, ho2, mapVals, List.map_map]
    congr 2
  have eX : ∀ keep, termsX (modCar (K := K)) op' (mapVals φ o1) keep = mapVals φ (termsX (modCar (K := K)) op o1 keep) := by
    intro keep
    simp only [termsX, eV, ho1]
    simp only [mapVals, List.flatMap_map, List.map_flatMap]
    congr 1; funext b
    congr 1; funext a
    by_cases hc : ((varsCross op o1).contains (pair b.1 a.1) && keep b.1 a.1) = true
    · simp only [hc, if_true, List.map_map]
      apply List.map_congr_left
      intro pc _
      simp [modCar, h1]
    · have hc' : ((varsCross op o1).contains (pair b.1 a.1) && keep b.1 a.1) = false := by simpa using hc
      simp only [hc', Bool.false_eq_true, if_false, List.map_nil]
  rw [eA, eB, eX, eX, tot_mapVals, tot_mapVals, tot_mapVals, tot_mapVals, normalize_mapVals, val_mapVals, h0]

/-- variant for declarations without second-order parameter coefficients (names, pairs, `True`): the closure for
    `Σ_p (∂²p/∂a∂b) D_p s` is never called, so nothing is required of `derive1` on the main state -/
theorem applyOrder2_hom' (op : DOp K C) (op' : DOp K C') (φ : C →ₗ[K] C') (s : C) (s' : C')
    (ho1 : op'.order1 = op.order1) (ho2 : op'.order2 = op.order2) (hau : op'.auto = op.auto) (hP : op'.P2 = op.P2)
    (h0 : ∀ x, φ (op.derive0 x) = op'.derive0 (φ x)) (h1 : ∀ p x, φ (op.derive1 p x) = op'.derive1 p (φ x))
    (hA : ∀ e ∈ op.order2, e.2 = []) (h2s : ∀ pp, φ (op.derive2 pp s) = op'.derive2 pp s')
    (hz : op.derive0 0 = 0) (hz' : op'.derive0 0 = 0)
    (o1 : List (Var × C)) (o2 : List (VPair × C)) (k : VPair) (hk : Sorted k) :
    φ (val (applyOrder2 (modCar (K := K)) op s o1 o2) k)
      = val (applyOrder2 (modCar (K := K)) op' s' (mapVals φ o1) (mapVals φ o2)) k := by
  -- replace `derive1` on both sides by closures that agree on the main states: the terms that use them are empty
  have hnil : ∀ (o : DOp K C) (x : C), o.order2 = op.order2 → termsA (modCar (K := K)) o x = [] := by
    intro o x ho
    simp only [termsA, ho]
    rw [List.flatMap_eq_nil_iff]
    intro e he
    simp [hA e he]
  have hnil' : termsA (modCar (K := K)) op' s' = [] := by
    simp only [termsA, ho2]
    rw [List.flatMap_eq_nil_iff]
    intro e he
    simp [hA e he]
  rw [order2_accumulates_every_term_once op hz s o1 o2 k hk,
    order2_accumulates_every_term_once op' hz' s' (mapVals φ o1) (mapVals φ o2) k hk]
  simp only [map_add]
  have eG : ∀ v, order1Get op' v = order1Get op v := fun v => by simp [order1Get, ho1]
  have eS : ∀ p q, supported op' p q = supported op p q := fun p q => by simp [supported, hP]
  have eB : termsB (modCar (K := K)) op' s' = mapVals φ (termsB (modCar (K := K)) op s) := by
    simp only [termsB, ho2, mapVals, List.map_flatMap, eG, eS]
    congr 1; funext e
    congr 1; funext p1
    rw [List.map_filterMap]
    congr 1; funext p2
    by_cases hs : supported op p1.1 p2.1 = true
    · simp [hs, modCar, h2s]
    · simp [hs]
  have eV : varsCross op' (mapVals φ o1) = varsCross op o1 := by
    simp only [varsCross, hau, ho1, ho2, mapVals, List.map_map]
    congr 2
  have eX : ∀ keep, termsX (modCar (K := K)) op' (mapVals φ o1) keep = mapVals φ (termsX (modCar (K := K)) op o1 keep) := by
    intro keep
    simp only [termsX, eV, ho1]
    simp only [mapVals, List.flatMap_map, List.map_flatMap]
    congr 1; funext b
    congr 1; funext a
    by_cases hc : ((varsCross op o1).contains (pair b.1 a.1) && keep b.1 a.1) = true
    · simp only [hc, if_true, List.map_map]
      apply List.map_congr_left
      intro pc _
      simp [modCar, h1]
    · have hc' : ((varsCross op o1).contains (pair b.1 a.1) && keep b.1 a.1) = false := by simpa using hc
      simp only [hc', Bool.false_eq_true, if_false, List.map_nil]
  rw [hnil op s rfl, hnil', eB, eX, eX, tot_mapVals, tot_mapVals, tot_mapVals, normalize_mapVals, val_mapVals, h0]
  simp [tot_nil]

end order2
section combine2
variable {R M : Type} [CommRing R] [AddCommGroup M] [Module R M]

/-- the closures `_combine` hands to `_apply_order2`: `derive0` = compose with the right operand, `derive1_2` = compose
    with its first-derivative table (no equilibrium part), `derive2` = compose with its second-derivative table -/
def combineDOp2 (A2 : R) (d2 : Param → R × R) (dd2 : PPair → R × R) (order1 : List (Var × List (Param × R)))
    (order2 : List (VPair × List (Param × R))) (auto : Bool) (P2 : List PPair) : DOp R (R × R) where
  derive0 x := (A2 * x.1, A2 * x.2)
  derive1 p x := ((d2 p).1 * x.1, (d2 p).1 * x.2)
  derive2 pp x := ((dd2 pp).1 * x.1, (dd2 pp).1 * x.2 + (dd2 pp).2)
  order1 := order1
  order2 := order2
  auto := auto
  P2 := P2

/-- the right operand as sequential application sees it, on (state, equilibrium) pairs; partial derivatives carry a zero
    equilibrium -/
def seqDOp2 (A2 a2 : R) (d2 : Param → R × R) (dd2 : PPair → R × R) (order1 : List (Var × List (Param × R)))
    (order2 : List (VPair × List (Param × R))) (auto : Bool) (P2 : List PPair) : DOp R (M × M) where
  derive0 x := (A2 • x.1 + a2 • x.2, x.2)
  derive1 p x := ((d2 p).1 • x.1 + (d2 p).2 • x.2, 0)
  derive2 pp x := ((dd2 pp).1 • x.1 + (dd2 pp).2 • x.2, 0)
  order1 := order1
  order2 := order2
  auto := auto
  P2 := P2

/-- evaluating an operator array (linear part, equilibrium part) on a state `s` with equilibrium `e`, as a partial
    derivative state (zero equilibrium) -/
def evalOn (s e : M) : (R × R) →ₗ[R] (M × M) where
  toFun x := (x.1 • s + x.2 • e, 0)
  map_add' x y := by ext <;> simp [add_smul]; abel
  map_smul' c x := by ext <;> simp [mul_smul, smul_add]

/-- **second-order tables of `o1 @ o2` are what sequential application stores**: the table `_combine` computes for the
    sorted pair `k`, evaluated on any state, equals the value `_apply_order2` of the right operand stores under `k` when
    it is applied to the state `o1(s)` carrying `o1`'s first- and second-order partials evaluated on `s` — for
    declarations without second-order parameter coefficients (names / pairs / `True`) -/
theorem combine_partials_second_order (A1 a1 A2 a2 : R) (d2 : Param → R × R) (dd2 : PPair → R × R)
    (order1 : List (Var × List (Param × R))) (order2 : List (VPair × List (Param × R))) (auto : Bool) (P2 : List PPair)
    (hA : ∀ e ∈ order2, e.2 = [])
    (darrs1 : List (Var × (R × R))) (d2arrs1 : List (VPair × (R × R))) (k : VPair) (hk : Sorted k) (s e : M) :
    evalOn s e (val (applyOrder2 (modCar (K := R)) (combineDOp2 A2 d2 dd2 order1 order2 auto P2) (A1, a1) darrs1 d2arrs1) k)
      = val (applyOrder2 (modCar (K := R)) (seqDOp2 (M := M) A2 a2 d2 dd2 order1 order2 auto P2) (A1 • s + a1 • e, e)
          (mapVals (evalOn s e) darrs1) (mapVals (evalOn s e) d2arrs1)) k := by
  have h0 : ∀ x : R × R, evalOn s e ((combineDOp2 A2 d2 dd2 order1 order2 auto P2).derive0 x)
      = (seqDOp2 (M := M) A2 a2 d2 dd2 order1 order2 auto P2).derive0 (evalOn s e x) := by
    intro x; ext <;> simp [combineDOp2, seqDOp2, evalOn, mul_smul, smul_add]
  have h1 : ∀ (p : Param) (x : R × R), evalOn s e ((combineDOp2 A2 d2 dd2 order1 order2 auto P2).derive1 p x)
      = (seqDOp2 (M := M) A2 a2 d2 dd2 order1 order2 auto P2).derive1 p (evalOn s e x) := by
    intro p x; ext <;> simp [combineDOp2, seqDOp2, evalOn, mul_smul, smul_add]
  have h2s : ∀ pp : PPair, evalOn s e ((combineDOp2 A2 d2 dd2 order1 order2 auto P2).derive2 pp (A1, a1))
      = (seqDOp2 (M := M) A2 a2 d2 dd2 order1 order2 auto P2).derive2 pp (A1 • s + a1 • e, e) := by
    intro pp; ext
    · simp [combineDOp2, seqDOp2, evalOn, mul_smul, smul_add, add_smul]; abel
    · simp [combineDOp2, seqDOp2, evalOn]
  have hz : (combineDOp2 A2 d2 dd2 order1 order2 auto P2).derive0 0 = 0 := by simp [combineDOp2]
  have hz' : (seqDOp2 (M := M) A2 a2 d2 dd2 order1 order2 auto P2).derive0 0 = 0 := by
    ext <;> simp [seqDOp2]
  exact applyOrder2_hom' (K := R) (C := R × R) (C' := M × M) (combineDOp2 A2 d2 dd2 order1 order2 auto P2)
    (seqDOp2 (M := M) A2 a2 d2 dd2 order1 order2 auto P2) (evalOn s e) (A1, a1) (A1 • s + a1 • e, e) rfl rfl rfl rfl
    h0 h1 hA h2s hz hz' darrs1 d2arrs1 k hk

end combine2

end EpgVerif.Props.C10
