import EpgVerif.Props.C15
/-
  C15 — the box voxel on three axes: the product of the three sinc form factors is the average of the point values over
  the cube, for every finite Fourier sum (iterated one-axis averages, `box_is_average` at each level).
-/
namespace EpgVerif.Props.C15
open Complex EpgVerif

/-- a finite Fourier sum in three variables: coefficients `c_n` at wavenumbers `(k1, k2, k3)_n` -/
noncomputable def fsum3 (l : List (ℂ × ℝ × ℝ × ℝ)) (u v w : ℝ) : ℂ :=
  (l.map (fun e => e.1 * Complex.exp (I * ((e.2.1 : ℂ) * u + (e.2.2.1 : ℂ) * v + (e.2.2.2 : ℂ) * w)))).sum

theorem fsum3_as_w (l : List (ℂ × ℝ × ℝ × ℝ)) (u v w : ℝ) :
    fsum3 l u v w = fsum (l.map (fun e => (e.1 * Complex.exp (I * ((e.2.1 : ℂ) * u + (e.2.2.1 : ℂ) * v)), e.2.2.2))) w := by
  unfold fsum3 fsum
  rw [List.map_map]
  congr 1
  apply List.map_congr_left
  intro e _
  simp only [Function.comp]
  rw [mul_assoc, ← Complex.exp_add]; congr 2; ring

/-- **three-axis box voxel = average of the point values over the cube** -/
theorem box3_is_average (l : List (ℂ × ℝ × ℝ × ℝ)) (x1 x2 x3 a : ℝ) (ha : a ≠ 0) :
    (1 / (a : ℂ)) * ∫ u in (x1 - a / 2)..(x1 + a / 2),
      (1 / (a : ℂ)) * ∫ v in (x2 - a / 2)..(x2 + a / 2),
        (1 / (a : ℂ)) * ∫ w in (x3 - a / 2)..(x3 + a / 2), fsum3 l u v w
      = (l.map (fun e => csinc ((e.2.1 : ℂ) * a / 2) * csinc ((e.2.2.1 : ℂ) * a / 2) * csinc ((e.2.2.2 : ℂ) * a / 2) * e.1
            * Complex.exp (I * ((e.2.1 : ℂ) * x1 + (e.2.2.1 : ℂ) * x2 + (e.2.2.2 : ℂ) * x3)))).sum := by
  -- innermost axis
  have h3 : ∀ u v : ℝ, (1 / (a : ℂ)) * ∫ w in (x3 - a / 2)..(x3 + a / 2), fsum3 l u v w
      = fsum (l.map (fun e => (csinc ((e.2.2.2 : ℂ) * a / 2) * e.1 * Complex.exp (I * ((e.2.1 : ℂ) * u + (e.2.2.2 : ℂ) * x3)),
                                e.2.2.1))) v := by
    intro u v
    simp_rw [fsum3_as_w]
    rw [box_is_average _ x3 a ha]
    unfold fsum
    rw [List.map_map, List.map_map]
    congr 1
    apply List.map_congr_left
    intro e _
    simp only [Function.comp]
    have : Complex.exp (I * ((e.2.1 : ℂ) * u + (e.2.2.1 : ℂ) * v)) * Complex.exp (I * (e.2.2.2 : ℂ) * x3)
        = Complex.exp (I * ((e.2.1 : ℂ) * u + (e.2.2.2 : ℂ) * x3)) * Complex.exp (I * (e.2.2.1 : ℂ) * v) := by
      rw [← Complex.exp_add, ← Complex.exp_add]; congr 1; ring
    calc _ = csinc ((e.2.2.2 : ℂ) * a / 2) * e.1 * (Complex.exp (I * ((e.2.1 : ℂ) * u + (e.2.2.1 : ℂ) * v)) * Complex.exp (I * (e.2.2.2 : ℂ) * x3)) := by ring
      _ = _ := by rw [this]; ring
  simp_rw [h3]
  -- middle axis
  have h2 : ∀ u : ℝ, (1 / (a : ℂ)) * ∫ v in (x2 - a / 2)..(x2 + a / 2),
        fsum (l.map (fun e => (csinc ((e.2.2.2 : ℂ) * a / 2) * e.1 * Complex.exp (I * ((e.2.1 : ℂ) * u + (e.2.2.2 : ℂ) * x3)),
                                e.2.2.1))) v
      = fsum (l.map (fun e => (csinc ((e.2.2.1 : ℂ) * a / 2) * csinc ((e.2.2.2 : ℂ) * a / 2) * e.1
                                  * Complex.exp (I * ((e.2.2.1 : ℂ) * x2 + (e.2.2.2 : ℂ) * x3)), e.2.1))) u := by
    intro u
    rw [box_is_average _ x2 a ha]
    unfold fsum
    rw [List.map_map, List.map_map]
    congr 1
    apply List.map_congr_left
    intro e _
    simp only [Function.comp]
    have : Complex.exp (I * ((e.2.1 : ℂ) * u + (e.2.2.2 : ℂ) * x3)) * Complex.exp (I * (e.2.2.1 : ℂ) * x2)
        = Complex.exp (I * ((e.2.2.1 : ℂ) * x2 + (e.2.2.2 : ℂ) * x3)) * Complex.exp (I * (e.2.1 : ℂ) * u) := by
      rw [← Complex.exp_add, ← Complex.exp_add]; congr 1; ring
    calc _ = csinc ((e.2.2.1 : ℂ) * a / 2) * csinc ((e.2.2.2 : ℂ) * a / 2) * e.1
              * (Complex.exp (I * ((e.2.1 : ℂ) * u + (e.2.2.2 : ℂ) * x3)) * Complex.exp (I * (e.2.2.1 : ℂ) * x2)) := by ring
      _ = _ := by rw [this]; ring
  simp_rw [h2]
  -- outer axis
  rw [box_is_average _ x1 a ha, List.map_map]
  congr 1
  apply List.map_congr_left
  intro e _
  simp only [Function.comp]
  have : Complex.exp (I * ((e.2.2.1 : ℂ) * x2 + (e.2.2.2 : ℂ) * x3)) * Complex.exp (I * (e.2.1 : ℂ) * x1)
      = Complex.exp (I * ((e.2.1 : ℂ) * x1 + (e.2.2.1 : ℂ) * x2 + (e.2.2.2 : ℂ) * x3)) := by
    rw [← Complex.exp_add]; congr 1; ring
  calc _ = csinc ((e.2.1 : ℂ) * a / 2) * csinc ((e.2.2.1 : ℂ) * a / 2) * csinc ((e.2.2.2 : ℂ) * a / 2) * e.1
            * (Complex.exp (I * ((e.2.2.1 : ℂ) * x2 + (e.2.2.2 : ℂ) * x3)) * Complex.exp (I * (e.2.1 : ℂ) * x1)) := by ring
    _ = _ := by rw [this]

end EpgVerif.Props.C15
