import Mathlib.Algebra.Group.Basic
import Mathlib.Algebra.BigOperators.Group.List.Basic
import EpgVerif.Model.Sim
/-
  C12 — probes, timing and modify(): one entry per probe occurrence, in order; each the requested
  quantity of the state at that point with the in-sequence probe's post-processing; times are the
  cumulative sums of durations; modify() keeps the timing and inserts evolutions.
-/
namespace EpgVerif.Props.C12
open EpgVerif Sim
theorem modify_cons {σ ν τ : Type} [Add τ] [Zero τ] (positive : τ → Bool) (relax : τ → σ → σ) (op : SOp σ ν τ) (rest : List (SOp σ ν τ)) :
    Sim.modify positive relax (op :: rest) =
      (if positive op.duration then [op, { apply := relax op.duration, duration := 0, probe := none }] else [op])
        ++ Sim.modify positive relax rest := by
  simp [Sim.modify]

variable {σ ν τ : Type} [AddMonoid τ]

def isProbe (op : SOp σ ν τ) : Bool := op.probe.isSome

/-- **one entry per probe occurrence** -/
theorem simulate_length (probes : List (Option (σ → ν))) (seq : List (SOp σ ν τ)) (s : σ) (t : τ) :
    (simulate probes seq s t).length = (seq.filter isProbe).length := by
  induction seq generalizing s t with
  | nil => rfl
  | cons op rest ih =>
    simp only [simulate]
    cases h : op.probe with
    | none => simp [isProbe, h, ih]
    | some p => obtain ⟨acq, post⟩ := p; simp [isProbe, h, ih]

/-- **reported times = `get_adc_times`** -/
theorem simulate_times (probes : List (Option (σ → ν))) (seq : List (SOp σ ν τ)) (s : σ) (t : τ) :
    (simulate probes seq s t).map (·.1) = adcTimes seq t := by
  induction seq generalizing s t with
  | nil => rfl
  | cons op rest ih =>
    simp only [simulate, adcTimes]
    cases h : op.probe with
    | none => simp [ih]
    | some p => obtain ⟨acq, post⟩ := p; simp [ih]

/-- **times are cumulative sums of the operator durations**: the time of the first probe of a
    sequence `pre ++ [p] ++ rest` (no probe in `pre`) is the sum of the durations up to and including `p` -/
theorem first_time_is_prefix_sum (pre rest : List (SOp σ ν τ)) (p : SOp σ ν τ)
    (hpre : ∀ o ∈ pre, o.probe = none) (hp : p.probe.isSome) (t : τ) :
    (adcTimes (pre ++ p :: rest) t).head? = some (t + (pre.map (·.duration)).sum + p.duration) := by
  induction pre generalizing t with
  | nil =>
    simp only [List.nil_append, adcTimes, List.map_nil, List.sum_nil, add_zero]
    cases h : p.probe with
    | none => simp [h] at hp
    | some x => simp
  | cons o pre ih =>
    simp only [List.cons_append, adcTimes]
    rw [hpre o List.mem_cons_self]
    simp only
    rw [ih (fun x hx => hpre x (List.mem_cons_of_mem _ hx))]
    simp [add_assoc]

/-- **what is recorded**: at the first probe, the in-sequence probe's post-processing applied to the
    acquisition (the substitute's acquisition when `probe=` is given) of the state *at that point* -/
theorem first_entry_value (probes : List (Option (σ → ν))) (pre rest : List (SOp σ ν τ)) (p : SOp σ ν τ)
    (acq : σ → ν) (post : ν → ν) (hpre : ∀ o ∈ pre, o.probe = none) (hp : p.probe = some (acq, post)) (s : σ) (t : τ) :
    ((simulate probes (pre ++ p :: rest) s t).head?).map (·.2) =
      some (if probes.isEmpty then [post (acq (p.apply (runOps pre s)))]
            else probes.map (fun pb => post ((pb.getD acq) (p.apply (runOps pre s))))) := by
  induction pre generalizing s t with
  | nil => simp [simulate, hp, runOps]
  | cons o pre ih =>
    simp only [List.cons_append, simulate]
    rw [hpre o List.mem_cons_self]
    simp only [runOps]
    exact ih (fun x hx => hpre x (List.mem_cons_of_mem _ hx)) _ _

/-- the remaining entries are those of the remaining sequence, started from the state and time
    reached at the probe (so the statement above applies to every probe occurrence in turn) -/
theorem simulate_after_first (probes : List (Option (σ → ν))) (pre rest : List (SOp σ ν τ)) (p : SOp σ ν τ)
    (hpre : ∀ o ∈ pre, o.probe = none) (hp : p.probe.isSome) (s : σ) (t : τ) :
    (simulate probes (pre ++ p :: rest) s t).tail =
      simulate probes rest (p.apply (runOps pre s)) (t + (pre.map (·.duration)).sum + p.duration) := by
  induction pre generalizing s t with
  | nil =>
    cases h : p.probe with
    | none => simp [h] at hp
    | some x => obtain ⟨a, b⟩ := x; simp [simulate, h, runOps]
  | cons o pre ih =>
    simp only [List.cons_append, simulate]
    rw [hpre o List.mem_cons_self]
    simp only [runOps, List.map_cons, List.sum_cons]
    rw [ih (fun x hx => hpre x (List.mem_cons_of_mem _ hx))]
    simp [add_assoc]

/-- **modify() keeps the timing** -/
theorem modify_times (positive : τ → Bool) (relax : τ → σ → σ) (seq : List (SOp σ ν τ)) (t : τ) :
    adcTimes (modify positive relax seq) t = adcTimes seq t := by
  induction seq generalizing t with
  | nil => rfl
  | cons op rest ih =>
    rw [modify_cons]
    by_cases hpos : positive op.duration = true
    · simp only [hpos, if_true, List.cons_append, List.nil_append, adcTimes, add_zero]
      cases h : op.probe <;> simp [ih]
    · simp only [hpos, if_false, Bool.false_eq_true, List.cons_append, List.nil_append, adcTimes]
      cases h : op.probe <;> simp [ih]

/-- **modify() = inserting an evolution after every operator with a positive duration** -/
theorem modify_run (positive : τ → Bool) (relax : τ → σ → σ) (seq : List (SOp σ ν τ)) (s : σ) :
    runOps (modify positive relax seq) s
      = seq.foldl (fun s op => if positive op.duration then relax op.duration (op.apply s) else op.apply s) s := by
  induction seq generalizing s with
  | nil => rfl
  | cons op rest ih =>
    rw [modify_cons]
    simp only [List.foldl_cons]
    by_cases hpos : positive op.duration = true
    · simp only [hpos, if_true, List.cons_append, List.nil_append, runOps]
      exact ih _
    · simp only [hpos, if_false, Bool.false_eq_true, List.cons_append, List.nil_append, runOps]
      exact ih _


/-! ### the concrete `default_modifier` is the abstract `modify` -/
section Concrete
variable {K : Type} [Add K] [Sub K] [Mul K] [Neg K] [Div K] [Zero K] [One K] [Conj K] [Transc K]

theorem toSOp_duration (o : Opts) (it : Item K) : (it.toSOp o).duration = it.dur := by
  cases it <;> rfl

/-- without `att`, with T1 given: `modify(seq, T1=, T2=, g=)` is the insertion, after every operator with a
    positive duration, of `E(duration, T1, T2 or 1e10, g or 0)` with duration 0 -/
theorem modifyItems_is_modify (o : Opts) (positive isOne : K → Bool) (T1 : K) (T2 g : Option K) (seq : List (Item K)) :
    (modifyItems positive isOne (some T1) T2 g none seq).map (Item.toSOp o) =
      Sim.modify positive (fun d => applyOp o (.E d T1 (T2.getD (ofRat 10000000000)) (g.getD 0)))
        (seq.map (Item.toSOp o)) := by
  induction seq with
  | nil => rfl
  | cons it rest ih =>
    have hc : modifyItems positive isOne (some T1) T2 g none (it :: rest)
        = defaultModifier positive isOne (some T1) T2 g none it ++ modifyItems positive isOne (some T1) T2 g none rest := by
      simp [modifyItems]
    rw [hc, List.map_append, ih, List.map_cons, modify_cons, toSOp_duration]
    congr 1
    have hit : (match it, (none : Option K) with
        | Item.op (Op.T a p) d, some t => if isOne t = true then it else Item.op (Op.T (a * t) p) d
        | x, x_1 => it) = it := by
      cases it with
      | op x d => cases x <;> rfl
      | adc a d => rfl
    unfold defaultModifier
    simp only [hit]
    by_cases hpos : positive it.dur = true
    · simp only [hpos, if_true, List.map_cons, List.map_nil]
      cases T2 <;> cases g <;> simp [Item.toSOp, Option.getD]
    · simp only [hpos, Bool.false_eq_true, if_false, List.map_cons, List.map_nil]

/-- `att` only rescales the flip angle of `T` operators and keeps their phase and duration -/
theorem att_scales_flip_angle (positive isOne : K → Bool) (a p d t : K) (h : isOne t = false) (hd : positive d = false) :
    defaultModifier positive isOne none none none (some t) (.op (.T a p) d) = [.op (.T (a * t) p) d] := by
  simp [defaultModifier, h, Item.dur, hd]

end Concrete

end EpgVerif.Props.C12
