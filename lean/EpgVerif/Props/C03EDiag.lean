import EpgVerif.Props.C03E
import EpgVerif.Props.C03Diag
/-
  C03, relaxation operator, the diagonal pair (a, a): second derivative with respect to one variable that drives all four
  parameters of E(tau, T1, T2, g) through (non-linear) expressions; and the corresponding step of whole programs.
-/
namespace EpgVerif.Props.C03
open EpgVerif Diff Ex Finset EpgVerif.Props.C02

/-- the relaxation operator as `_apply_order2` sees it for one variable, acting on (row, equilibrium row) -/
noncomputable def eDOp1 (env : Nat → ℂ) (a : Var) (la l2 : List (Param × ℂ)) : DOp ℂ (PS ℂ × PS ℂ) where
  derive0 X := (PS.dmul (fun i => eval env (Coeff.E.arr i)) X.1 + PS.dmul (fun i => eval env (Coeff.E.arr0 i)) X.2, X.2)
  derive1 p X := (PS.dmul (fun i => eval env (d (eIdx p) (Coeff.E.arr i))) X.1
                  + PS.dmul (fun i => eval env (d (eIdx p) (Coeff.E.arr0 i))) X.2, 0)
  derive2 pp X := (PS.dmul (fun i => eval env (d (eIdx pp.2) (d (eIdx pp.1) (Coeff.E.arr i)))) X.1
                  + PS.dmul (fun i => eval env (d (eIdx pp.2) (d (eIdx pp.1) (Coeff.E.arr0 i)))) X.2, 0)
  order1 := [(a, la)]
  order2 := [((a, a), l2)]
  auto := false
  P2 := [("T1", "T1"), ("T1", "tau"), ("T2", "T2"), ("T2", "g"), ("T2", "tau"), ("g", "g"), ("g", "tau"), ("tau", "tau")]

/-- **C03 end to end, relaxation, diagonal pair (a, a)**: the four parameters of `E(tau, T1, T2, g)` are functions `par j`
    of one variable with first derivatives `sa j` (functions again) and second derivatives `c2 j` at the point; the value
    `_apply_order2` stores under `(a, a)` is the derivative of the new first partial, i.e. the second derivative of the
    state, recovery term included -/
theorem E_diag_partial_exact_nl (par sa : Nat → ℝ → ℝ) (c2 : Nat → ℝ) (y0 : ℝ) (a : Var)
    (hpar : ∀ j, j < 4 → HasDerivAt (par j) (sa j y0) y0) (hsa : ∀ j, j < 4 → HasDerivAt (sa j) (c2 j) y0)
    (hT1 : par 1 y0 ≠ 0) (hT2 : par 2 y0 ≠ 0)
    (e : PS ℂ) (s Ja : ℝ → PS ℂ) (H : PS ℂ) (hs : PSHasDeriv s (Ja y0) y0) (hJ : PSHasDeriv Ja H y0) :
    let env := fun (y : ℝ) (j : Nat) => if j < 4 then ((par j y : ℝ) : ℂ) else 0
    PSHasDeriv (fun y => PS.dmul (fun i => eval (env y) (Coeff.E.arr i)) (Ja y)
        + psSum 4 (fun p => PS.smul ((sa p y : ℝ) : ℂ)
            (PS.dmul (fun i => eval (env y) (d p (Coeff.E.arr i))) (s y) + PS.dmul (fun i => eval (env y) (d p (Coeff.E.arr0 i))) e)))
      (Diff.val (applyOrder2 (modCar (K := ℂ))
          (eDOp1 (env y0) a [("tau", (((sa 0 y0 : ℝ) : ℂ))), ("T1", (((sa 1 y0 : ℝ) : ℂ))), ("T2", (((sa 2 y0 : ℝ) : ℂ))), ("g", (((sa 3 y0 : ℝ) : ℂ)))] [("tau", ((c2 0 : ℝ) : ℂ)), ("T1", ((c2 1 : ℝ) : ℂ)), ("T2", ((c2 2 : ℝ) : ℂ)), ("g", ((c2 3 : ℝ) : ℂ))])
          (s y0, e) [(a, (Ja y0, 0))] [((a, a), (H, 0))]) (a, a)).1 y0 := by
  intro env
  show PSHasDeriv _ (Diff.val (applyOrder2 _ (eDOp1 (fun j => if j < 4 then ((par j y0 : ℝ) : ℂ) else 0) a _ _) _ _ _) (a, a)).1 y0
  have hE1 : ((fun j => if j < 4 then ((par j y0 : ℝ) : ℂ) else 0) : Nat → ℂ) 1 ≠ 0 := by simp; exact hT1
  have hE2 : ((fun j => if j < 4 then ((par j y0 : ℝ) : ℂ) else 0) : Nat → ℂ) 2 ≠ 0 := by simp; exact hT2
  set op := eDOp1 (fun j => if j < 4 then ((par j y0 : ℝ) : ℂ) else 0) a [("tau", (((sa 0 y0 : ℝ) : ℂ))), ("T1", (((sa 1 y0 : ℝ) : ℂ))), ("T2", (((sa 2 y0 : ℝ) : ℂ))), ("g", (((sa 3 y0 : ℝ) : ℂ)))] [("tau", ((c2 0 : ℝ) : ℂ)), ("T1", ((c2 1 : ℝ) : ℂ)), ("T2", ((c2 2 : ℝ) : ℂ)), ("g", ((c2 3 : ℝ) : ℂ))] with hop
  have h0 : op.derive0 0 = 0 := by
    show ((_ : PS ℂ), (_ : PS ℂ)) = 0
    ext <;> simp [PS.dmul]
  rw [diagVar_value op a _ _ rfl rfl rfl h0]
  have hd : ∀ i, Defined (fun j => if j < 4 then ((par j y0 : ℝ) : ℂ) else 0) (Coeff.E.arr i) ∧ Defined (fun j => if j < 4 then ((par j y0 : ℝ) : ℂ) else 0) (Coeff.E.arr0 i) := fun i => relaxation_defined (fun j => if j < 4 then ((par j y0 : ℝ) : ℂ) else 0) hE1 hE2 i
  have hm := scal_mixed_step Coeff.E.arr Coeff.E.arr0 4 par sa (fun j => sa j y0) c2 y0 hpar hsa hd e s Ja (Ja y0) H hs hJ
  refine hm.congr_deriv ?_
  have s_tau_tau : supported op "tau" "tau" = true := by simp (config := {decide := true}) [supported, op, eDOp1]
  have s_tau_T1 : supported op "tau" "T1" = true := by simp (config := {decide := true}) [supported, op, eDOp1]
  have s_tau_T2 : supported op "tau" "T2" = true := by simp (config := {decide := true}) [supported, op, eDOp1]
  have s_tau_g : supported op "tau" "g" = true := by simp (config := {decide := true}) [supported, op, eDOp1]
  have s_T1_tau : supported op "T1" "tau" = true := by simp (config := {decide := true}) [supported, op, eDOp1]
  have s_T1_T1 : supported op "T1" "T1" = true := by simp (config := {decide := true}) [supported, op, eDOp1]
  have s_T1_T2 : supported op "T1" "T2" = false := by simp (config := {decide := true}) [supported, op, eDOp1]
  have s_T1_g : supported op "T1" "g" = false := by simp (config := {decide := true}) [supported, op, eDOp1]
  have s_T2_tau : supported op "T2" "tau" = true := by simp (config := {decide := true}) [supported, op, eDOp1]
  have s_T2_T1 : supported op "T2" "T1" = false := by simp (config := {decide := true}) [supported, op, eDOp1]
  have s_T2_T2 : supported op "T2" "T2" = true := by simp (config := {decide := true}) [supported, op, eDOp1]
  have s_T2_g : supported op "T2" "g" = true := by simp (config := {decide := true}) [supported, op, eDOp1]
  have s_g_tau : supported op "g" "tau" = true := by simp (config := {decide := true}) [supported, op, eDOp1]
  have s_g_T1 : supported op "g" "T1" = false := by simp (config := {decide := true}) [supported, op, eDOp1]
  have s_g_T2 : supported op "g" "T2" = true := by simp (config := {decide := true}) [supported, op, eDOp1]
  have s_g_g : supported op "g" "g" = true := by simp (config := {decide := true}) [supported, op, eDOp1]
  have p_tau_tau : pair "tau" "tau" = ("tau", "tau") := by decide
  have p_tau_T1 : pair "tau" "T1" = ("T1", "tau") := by decide
  have p_tau_T2 : pair "tau" "T2" = ("T2", "tau") := by decide
  have p_tau_g : pair "tau" "g" = ("g", "tau") := by decide
  have p_T1_tau : pair "T1" "tau" = ("T1", "tau") := by decide
  have p_T1_T1 : pair "T1" "T1" = ("T1", "T1") := by decide
  have p_T1_T2 : pair "T1" "T2" = ("T1", "T2") := by decide
  have p_T1_g : pair "T1" "g" = ("T1", "g") := by decide
  have p_T2_tau : pair "T2" "tau" = ("T2", "tau") := by decide
  have p_T2_T1 : pair "T2" "T1" = ("T1", "T2") := by decide
  have p_T2_T2 : pair "T2" "T2" = ("T2", "T2") := by decide
  have p_T2_g : pair "T2" "g" = ("T2", "g") := by decide
  have p_g_tau : pair "g" "tau" = ("g", "tau") := by decide
  have p_g_T1 : pair "g" "T1" = ("T1", "g") := by decide
  have p_g_T2 : pair "g" "T2" = ("T2", "g") := by decide
  have p_g_g : pair "g" "g" = ("g", "g") := by decide
  have y100 := E_mixed_symm (fun j => if j < 4 then ((par j y0 : ℝ) : ℂ) else 0) hE1 hE2 1 0 0 (by norm_num) (by norm_num) (by norm_num)
  have y101 := E_mixed_symm (fun j => if j < 4 then ((par j y0 : ℝ) : ℂ) else 0) hE1 hE2 1 0 1 (by norm_num) (by norm_num) (by norm_num)
  have y102 := E_mixed_symm (fun j => if j < 4 then ((par j y0 : ℝ) : ℂ) else 0) hE1 hE2 1 0 2 (by norm_num) (by norm_num) (by norm_num)
  have y200 := E_mixed_symm (fun j => if j < 4 then ((par j y0 : ℝ) : ℂ) else 0) hE1 hE2 2 0 0 (by norm_num) (by norm_num) (by norm_num)
  have y201 := E_mixed_symm (fun j => if j < 4 then ((par j y0 : ℝ) : ℂ) else 0) hE1 hE2 2 0 1 (by norm_num) (by norm_num) (by norm_num)
  have y202 := E_mixed_symm (fun j => if j < 4 then ((par j y0 : ℝ) : ℂ) else 0) hE1 hE2 2 0 2 (by norm_num) (by norm_num) (by norm_num)
  have y210 := E_mixed_symm (fun j => if j < 4 then ((par j y0 : ℝ) : ℂ) else 0) hE1 hE2 2 1 0 (by norm_num) (by norm_num) (by norm_num)
  have y211 := E_mixed_symm (fun j => if j < 4 then ((par j y0 : ℝ) : ℂ) else 0) hE1 hE2 2 1 1 (by norm_num) (by norm_num) (by norm_num)
  have y212 := E_mixed_symm (fun j => if j < 4 then ((par j y0 : ℝ) : ℂ) else 0) hE1 hE2 2 1 2 (by norm_num) (by norm_num) (by norm_num)
  have y300 := E_mixed_symm (fun j => if j < 4 then ((par j y0 : ℝ) : ℂ) else 0) hE1 hE2 3 0 0 (by norm_num) (by norm_num) (by norm_num)
  have y301 := E_mixed_symm (fun j => if j < 4 then ((par j y0 : ℝ) : ℂ) else 0) hE1 hE2 3 0 1 (by norm_num) (by norm_num) (by norm_num)
  have y302 := E_mixed_symm (fun j => if j < 4 then ((par j y0 : ℝ) : ℂ) else 0) hE1 hE2 3 0 2 (by norm_num) (by norm_num) (by norm_num)
  have y310 := E_mixed_symm (fun j => if j < 4 then ((par j y0 : ℝ) : ℂ) else 0) hE1 hE2 3 1 0 (by norm_num) (by norm_num) (by norm_num)
  have y311 := E_mixed_symm (fun j => if j < 4 then ((par j y0 : ℝ) : ℂ) else 0) hE1 hE2 3 1 1 (by norm_num) (by norm_num) (by norm_num)
  have y312 := E_mixed_symm (fun j => if j < 4 then ((par j y0 : ℝ) : ℂ) else 0) hE1 hE2 3 1 2 (by norm_num) (by norm_num) (by norm_num)
  have y320 := E_mixed_symm (fun j => if j < 4 then ((par j y0 : ℝ) : ℂ) else 0) hE1 hE2 3 2 0 (by norm_num) (by norm_num) (by norm_num)
  have y321 := E_mixed_symm (fun j => if j < 4 then ((par j y0 : ℝ) : ℂ) else 0) hE1 hE2 3 2 1 (by norm_num) (by norm_num) (by norm_num)
  have y322 := E_mixed_symm (fun j => if j < 4 then ((par j y0 : ℝ) : ℂ) else 0) hE1 hE2 3 2 2 (by norm_num) (by norm_num) (by norm_num)
  have z120 := E_mixed_zero (fun j => if j < 4 then ((par j y0 : ℝ) : ℂ) else 0) 1 2 0 (by norm_num) (by norm_num)
  have z121 := E_mixed_zero (fun j => if j < 4 then ((par j y0 : ℝ) : ℂ) else 0) 1 2 1 (by norm_num) (by norm_num)
  have z122 := E_mixed_zero (fun j => if j < 4 then ((par j y0 : ℝ) : ℂ) else 0) 1 2 2 (by norm_num) (by norm_num)
  have z130 := E_mixed_zero (fun j => if j < 4 then ((par j y0 : ℝ) : ℂ) else 0) 1 3 0 (by norm_num) (by norm_num)
  have z131 := E_mixed_zero (fun j => if j < 4 then ((par j y0 : ℝ) : ℂ) else 0) 1 3 1 (by norm_num) (by norm_num)
  have z132 := E_mixed_zero (fun j => if j < 4 then ((par j y0 : ℝ) : ℂ) else 0) 1 3 2 (by norm_num) (by norm_num)
  simp only [List.map_cons, List.map_nil, List.sum_cons, List.sum_nil, add_zero, s_tau_tau, s_tau_T1, s_tau_T2, s_tau_g, s_T1_tau, s_T1_T1, s_T1_T2, s_T1_g, s_T2_tau, s_T2_T1, s_T2_T2, s_T2_g, s_g_tau, s_g_T1, s_g_T2, s_g_g, p_tau_tau, p_tau_T1, p_tau_T2, p_tau_g, p_T1_tau, p_T1_T1, p_T1_T2, p_T1_g, p_T2_tau, p_T2_T1, p_T2_T2, p_T2_g, p_g_tau, p_g_T1, p_g_T2, p_g_g,
    if_true, Bool.false_eq_true, if_false, Prod.fst_add, Prod.smul_fst, Prod.fst_zero, psSum_four]
  simp (config := {decide := true}) only [op, eDOp1, eIdx, String.reduceEq, if_true, if_false, smul_eq_PSsmul, id]
  apply PS.ext' <;>
  · simp only [PS.dmul, PS.smul, PS.add_fp, PS.add_fm, PS.add_z, PS.zero_fp, PS.zero_fm, PS.zero_z, psSum,
      Finset.sum_range_succ, Finset.sum_range_zero, zero_add, y100.1, y100.2, y101.1, y101.2, y102.1, y102.2, y200.1, y200.2, y201.1, y201.2, y202.1, y202.2, y210.1, y210.2, y211.1, y211.2, y212.1, y212.2, y300.1, y300.2, y301.1, y301.2, y302.1, y302.2, y310.1, y310.2, y311.1, y311.2, y312.1, y312.2, y320.1, y320.2, y321.1, y321.2, y322.1, y322.2, z120.1, z120.2, z121.1, z121.2, z122.1, z122.2, z130.1, z130.2, z131.1, z131.2, z132.1, z132.2]
    ring


/-! ### the relaxation step of whole programs (diagonal pair) -/
section program
open EpgVerif.Props.C04
variable {κ : Type} [DecidableEq κ] [Zero κ]

/-- a relaxation interval whose four parameters are (non-linear) functions of the variable, acting on a table whose
    equilibrium is `[0, 0, pd]` at the origin -/
noncomputable def step1E (x0 : ℝ) (pd : ℂ) (a : Var) (par sa : Nat → ℝ → ℝ) (c2 : Nat → ℝ)
    (hpar : ∀ j, j < 4 → HasDerivAt (par j) (sa j x0) x0) (hsa : ∀ j, j < 4 → HasDerivAt (sa j) (c2 j) x0)
    (hT1 : par 1 x0 ≠ 0) (hT2 : par 2 x0 ≠ 0) : Step1 x0 κ where
  S := fun x f k => PS.dmul (fun i => eval (fun j => if j < 4 then ((par j x : ℝ) : ℂ) else 0) (Coeff.E.arr i)) (f k)
      + PS.dmul (fun i => eval (fun j => if j < 4 then ((par j x : ℝ) : ℂ) else 0) (Coeff.E.arr0 i)) (eqRow pd k)
  J := fun x f ja k => PS.dmul (fun i => eval (fun j => if j < 4 then ((par j x : ℝ) : ℂ) else 0) (Coeff.E.arr i)) (ja k)
      + psSum 4 (fun p => PS.smul ((sa p x : ℝ) : ℂ)
          (PS.dmul (fun i => eval (fun j => if j < 4 then ((par j x : ℝ) : ℂ) else 0) (d p (Coeff.E.arr i))) (f k)
            + PS.dmul (fun i => eval (fun j => if j < 4 then ((par j x : ℝ) : ℂ) else 0) (d p (Coeff.E.arr0 i))) (eqRow pd k)))
  Hn := fun f ja h k =>
    (Diff.val (applyOrder2 (modCar (K := ℂ))
        (eDOp1 (fun j => if j < 4 then ((par j x0 : ℝ) : ℂ) else 0) a [("tau", (((sa 0 x0 : ℝ) : ℂ))), ("T1", (((sa 1 x0 : ℝ) : ℂ))), ("T2", (((sa 2 x0 : ℝ) : ℂ))), ("g", (((sa 3 x0 : ℝ) : ℂ)))] [("tau", ((c2 0 : ℝ) : ℂ)), ("T1", ((c2 1 : ℝ) : ℂ)), ("T2", ((c2 2 : ℝ) : ℂ)), ("g", ((c2 3 : ℝ) : ℂ))])
        (f k, eqRow pd k) [(a, (ja k, 0))] [((a, a), (h k, 0))]) (a, a)).1
  first := by
    intro s Ja h k
    let env : ℝ → Nat → ℂ := fun y j => if j < 4 then ((par j y : ℝ) : ℂ) else 0
    let c : Nat → ℂ := fun j => if j < 4 then ((sa j x0 : ℝ) : ℂ) else 0
    have henv : ∀ j, HasDerivAt (fun y => env y j) (c j) x0 := by
      intro j
      by_cases hj : j < 4
      · simpa [env, c, hj] using (hpar j hj).ofReal_comp
      · simpa [env, c, hj] using hasDerivAt_const x0 (0 : ℂ)
    have hc : ∀ j, 4 ≤ j → c j = 0 := by
      intro j hj
      have : ¬ j < 4 := by omega
      simp [c, this]
    have hcr : ∀ j, (starRingEnd ℂ) (c j) = c j := by
      intro j
      by_cases hj : j < 4 <;> simp [c, hj]
    have hE1 : env x0 1 ≠ 0 := by simp [env]; exact hT1
    have hE2 : env x0 2 ≠ 0 := by simp [env]; exact hT2
    have hm := scal_step Coeff.E.arr Coeff.E.arr0 env c 4 x0 henv hc hcr (fun i => relaxation_defined _ hE1 hE2 i)
      (eqRow pd k) (fun y => s y k) (Ja x0 k) (h k)
    refine hm.congr_deriv ?_
    simp only [psSum_four]
    simp [c, env]
  second := by
    intro s Ja H h1 h2 k
    exact E_diag_partial_exact_nl par sa c2 x0 a hpar hsa hT1 hT2 (eqRow pd k)
      (fun y => s y k) (fun y => Ja y k) (H k) (h1 k) (h2 k)

/-- the hypotheses are satisfiable: pulse, relaxation with `T2 = 50 + x²` and `tau = x`, shift, pulse: by
    `hessian_diag_exact` the stored (a, a) entry of this program is its second derivative -/
example : ∃ prog : List (Step1 (1 : ℝ) ℤ), prog.length = 2 :=
  ⟨[step1E 1 1 "a" (fun j x => if j = 0 then x else if j = 1 then 1000 else if j = 2 then 50 + x ^ 2 else 0)
      (fun j x => if j = 0 then 1 else if j = 2 then 2 * x else 0) (fun j => if j = 2 then 2 else 0)
      (by
        intro j hj
        interval_cases j
        · simpa using hasDerivAt_id' (1 : ℝ)
        · simpa using hasDerivAt_const (1 : ℝ) (1000 : ℝ)
        · simpa using ((hasDerivAt_pow 2 (1 : ℝ)).const_add 50)
        · simpa using hasDerivAt_const (1 : ℝ) (0 : ℝ))
      (by
        intro j hj
        interval_cases j
        · simpa using hasDerivAt_const (1 : ℝ) (1 : ℝ)
        · simpa using hasDerivAt_const (1 : ℝ) (0 : ℝ)
        · simpa using (hasDerivAt_id' (1 : ℝ)).const_mul 2
        · simpa using hasDerivAt_const (1 : ℝ) (0 : ℝ))
      (by norm_num) (by norm_num),
    step1Shift 1 (1 : ℤ)],
   rfl⟩

end program

end EpgVerif.Props.C03
