import EpgVerif.Props.C11
import EpgVerif.Props.C02Run
/-
  C11 ∘ C02: a Sequence of virtual operators whose arguments are expressions of sequence variables.  The slopes
  handed to the differential operators are the values of `Expression.derive` (exact by `expression_derive_exact`);
  the dictionary maintained through the program then holds the derivative of the state with respect to the variable.
-/
namespace EpgVerif.Props.C11
open EpgVerif SE EpgVerif.Props.C02 EpgVerif.Props.C04 Diff

variable {κ : Type} [DecidableEq κ] [AddCommGroup κ]

/-- an argument of a virtual operator: an expression, its derivative expression as returned by the code, and the side
    conditions under which `Expression.derive` is exact -/
structure Arg (v : String) (env : String → ℝ) where
  e : SE ℝ
  de : SE ℝ
  closed : Closed e
  derived : derive (Gen.mathTable (K := ℝ)) v e = some de
  defined : Defined env e

noncomputable def Arg.fn {v : String} {env : String → ℝ} (a : Arg v env) : ℝ → ℝ :=
  fun x => eval (Function.update env v x) 0 0 a.e
noncomputable def Arg.slope {v : String} {env : String → ℝ} (a : Arg v env) : ℝ := eval env 0 0 a.de

theorem Arg.hasDerivAt {v : String} {env : String → ℝ} (a : Arg v env) : HasDerivAt a.fn a.slope (env v) :=
  expression_derive_exact v env a.e a.closed a.de a.derived a.defined

/-- virtual `T(alpha_expr, phi_expr)` -/
noncomputable def virtT (v : String) (env : String → ℝ) (alpha phi : Arg v env) : OpFam (env v) :=
  famT (env v) alpha.fn phi.fn alpha.slope phi.slope alpha.hasDerivAt phi.hasDerivAt

/-- virtual `E(tau_expr, T1_expr, T2_expr, g_expr)` -/
noncomputable def virtE (v : String) (env : String → ℝ) (tau T1 T2 g : Arg v env)
    (h1 : T1.fn (env v) ≠ 0) (h2 : T2.fn (env v) ≠ 0) : OpFam (env v) :=
  famE (env v) tau.fn T1.fn T2.fn g.fn tau.slope T1.slope T2.slope g.slope tau.hasDerivAt T1.hasDerivAt T2.hasDerivAt
    g.hasDerivAt h1 h2

/-- **jacobian of a Sequence**: for a program whose steps are virtual `T` / `E` operators (arguments = expressions,
    slopes = evaluated `Expression.derive`) and shifts, the partial stored under the sequence variable `v` is the
    derivative of the simulated state with respect to `v` through the expressions -/
theorem sequence_jacobian_exact (v : String) (env : String → ℝ) (pd : ℂ) (prog : List (Step (env v) κ))
    (s0 : κ → PS ℂ) (k : κ) :
    PSHasDeriv (fun x => runState pd prog x s0 k) (val (runDict pd v prog (fun _ => s0) []) v k) (env v) := by
  apply jacobian_exact
  intro k
  simp only [Diff.val, lookup_nil, Option.getD_none]
  exact ⟨hasDerivAt_const _ _, hasDerivAt_const _ _, hasDerivAt_const _ _⟩

end EpgVerif.Props.C11
