import EpgVerif.Model.Guards
import EpgVerif.Props.C07
/-
  C20 — every member of each documented invalid class is rejected, whatever its magnitude or position
  inside an array argument; boundary-valid inputs are accepted.  Each guard of the model (tied to the
  code by execution on the same inputs) is characterised by the class it rejects.
-/
namespace EpgVerif.Props.C20
open EpgVerif Guards
variable {K : Type}

/-- **negative durations / times / rates**: rejected iff some entry is negative — any entry, any position -/
theorem anyNegative_iff (neg : K → Bool) (xs : List K) :
    anyNegative neg xs = true ↔ ∃ x ∈ xs, neg x = true := by
  simp [anyNegative]

theorem anyNegative_position (neg : K → Bool) (pre post : List K) (x : K) (h : neg x = true) :
    anyNegative neg (pre ++ x :: post) = true := by
  simp [anyNegative, h]

/-- boundary: all-zero (non-negative) durations are accepted -/
theorem zero_duration_accepted (neg : K → Bool) (xs : List K) (h : ∀ x ∈ xs, neg x = false) :
    anyNegative neg xs = false := by
  simp only [anyNegative, List.any_eq_false]
  intro x hx; simp [h x hx]

/-- **zero shifts**: rejected iff every component is (numerically) zero -/
theorem zeroShift_iff (nearZero : K → Bool) (ks : List K) :
    zeroShift nearZero ks = true ↔ ∀ k ∈ ks, nearZero k = true := by
  simp [zeroShift]

/-- **shift vectors of more than 4 components** (array arguments) -/
theorem badNcomp_iff (n : Nat) : badNcomp false n = true ↔ (n = 0 ∨ 4 < n) := by
  simp only [badNcomp, Bool.not_false, Bool.true_and, Bool.not_eq_true', Bool.or_eq_false_iff, beq_eq_false_iff_ne]
  omega

theorem pyint_shift_unchecked (n : Nat) : badNcomp true n = false := by simp [badNcomp]

/-- **float shifts without a grid**: accepted iff the grid in force (the state matrix's if it has one, else the
    operator's) exists and is positive; a grid of size 0 is rejected like a missing one -/
theorem noGrid_iff (positive : K → Bool) (smGrid opGrid : Option K) :
    noGrid positive smGrid opGrid = false ↔
      (∃ g, smGrid = some g ∧ positive g = true) ∨ (smGrid = none ∧ ∃ g, opGrid = some g ∧ positive g = true) := by
  unfold noGrid
  cases smGrid with
  | none =>
    cases opGrid with
    | none => simp
    | some g => simp
  | some g => simp

/-- the state matrix's grid takes precedence, even when it is invalid -/
theorem noGrid_sm_precedence (positive : K → Bool) (g : K) (opGrid : Option K) (h : positive g = false) :
    noGrid positive (some g) opGrid = true := by
  simp [noGrid, h]

/-- **malformed state matrices** (at least 2 axes): last axis must be 3 and the state axis odd -/
theorem badStatesShape_iff (lead : List Nat) (n c : Nat) :
    badStatesShape (lead ++ [n, c]) = true ↔ (c ≠ 3 ∨ n % 2 ≠ 1) := by
  simp [badStatesShape, List.reverse_append]

theorem badStatesShape_vector (n : Nat) : badStatesShape [n] = true ↔ n ≠ 3 := by
  simp [badStatesShape]

/-- **non-conjugate-symmetric state matrices**: rejected iff some row disagrees with its mirror -/
theorem badSymmetry_iff (close : K → K → Bool) (cj : K → K) (rows : List (K × K × K)) :
    badSymmetry close cj rows = true ↔
      ∃ p ∈ rows.zip rows.reverse, ¬(close p.1.2.1 (cj p.2.1) = true ∧ close p.1.2.2 (cj p.2.2.2) = true) := by
  simp only [badSymmetry, Bool.not_eq_true', List.all_eq_false, Bool.and_eq_true, not_and]

/-- **malformed operator coefficients** -/
theorem badScalarShape_iff (lead : List Nat) (c : Nat) : badScalarShape (lead ++ [c]) = true ↔ c ≠ 3 := by
  simp [badScalarShape, List.reverse_append]

theorem badMatrixShape_iff (lead : List Nat) (r c : Nat) : badMatrixShape (lead ++ [r, c]) = true ↔ ¬(r = 3 ∧ c = 3) := by
  simp [badMatrixShape, List.reverse_append]; tauto

theorem badScalarCoeff_iff (close : K → K → Bool) (cj : K → K) (rows : List (K × K × K)) :
    badScalarCoeff close cj rows = false ↔
      ∀ r ∈ rows, close r.1 (cj r.2.1) = true ∧ close r.2.1 (cj r.1) = true ∧ close r.2.2 (cj r.2.2) = true := by
  simp [badScalarCoeff, and_assoc]

/-- **non-broadcastable operator/state shapes**: rejected iff some common leading axis has two different sizes ≠ 1 -/
theorem notBroadcastable_iff (a b : List Nat) :
    notBroadcastable a b = true ↔
      ∃ i, i < min a.length b.length ∧ Shp.dimA a i ≠ 1 ∧ Shp.dimA b i ≠ 1 ∧ Shp.dimA a i ≠ Shp.dimA b i := by
  rw [← EpgVerif.Props.C07.broadcast2_none_iff]
  simp [notBroadcastable, Shp.broadcastable2]

/-- **kinetic matrices**: rejected iff fewer than 2 axes, not square, or some column does not sum to zero -/
theorem badKinetic_iff (close0 : K → Bool) (sum : List K → K) (lead : List Nat) (r c : Nat) (cols : List (List K)) :
    badKinetic close0 sum (lead ++ [r, c]) cols = true ↔ (r ≠ c ∨ ∃ col ∈ cols, close0 (sum col) = false) := by
  simp [badKinetic, List.reverse_append]

theorem badKinetic_lowdim (close0 : K → Bool) (sum : List K → K) (n : Nat) (cols : List (List K)) :
    badKinetic close0 sum [n] cols = true ∧ badKinetic close0 sum [] cols = true := by
  simp [badKinetic]

/-- **kinetic matrix not conserving the equilibrium** of the state it is applied to -/
theorem notConserving_iff (close0 : K → Bool) (dot : List K → List K → K) (rows : List (List K)) (dens : List K) :
    notConserving close0 dot rows dens = true ↔ ∃ row ∈ rows, close0 (dot row dens) = false := by
  simp [notConserving]

/-- **inconsistent diffusion tensor / wavenumber dimensions** -/
theorem badDiffusion_vector (n : Nat) (kshape : List Nat) : badDiffusion [n] kshape = true := by
  simp [badDiffusion]

theorem badDiffusion_matrix (lead : List Nat) (a b : Nat) (klead : List Nat) (kd : Nat) :
    badDiffusion (lead ++ [a, b]) (klead ++ [kd]) = true ↔ (a ≠ b ∨ b ≠ kd) := by
  have hlen : (lead ++ [a, b]).length ≠ 1 := by simp
  unfold badDiffusion
  simp only [beq_iff_eq, hlen, if_false, List.reverse_append, List.reverse_cons, List.reverse_nil, List.nil_append,
    List.cons_append]
  by_cases hab : a = b
  · subst hab
    by_cases hkl : klead = []
    · subst hkl; simp
    · simp [hkl, List.reverse_append]
  · simp [hab]

theorem scalar_D_accepted (kshape : List Nat) : badDiffusion [] kshape = false := by
  simp [badDiffusion]

/-- **unknown differentiation parameters or pairs** -/
def ValidDecl (parameters : List String) (d : Decl) : Prop :=
  (∀ e ∈ d.order1, ∀ p ∈ e.2, p ∈ parameters) ∧
  (d.order2 ≠ [] →
    d.order1 ≠ [] ∧
    (∀ e ∈ d.order2, e.1.1 ∈ d.order1.map (·.1) ∨ e.1.2 ∈ d.order1.map (·.1)) ∧
    (∀ e ∈ d.order2, (e.1.1 ∈ d.order1.map (·.1) ∧ e.1.2 ∈ d.order1.map (·.1)) ∨ e.2 = []) ∧
    (∀ e ∈ d.order2, ∀ p ∈ e.2, p ∈ parameters))

theorem unknown_false {α : Type} (parameters : List String) (l : List (α × List String)) :
    (l.any fun e => e.2.any fun p => !parameters.contains p) = false ↔ ∀ e ∈ l, ∀ p ∈ e.2, p ∈ parameters := by
  simp

theorem badDecl_iff (parameters : List String) (d : Decl) :
    badDecl parameters d = false ↔ ValidDecl parameters d := by
  unfold badDecl ValidDecl
  by_cases h1 : (d.order1.any fun e => e.2.any fun p => !parameters.contains p) = true
  · have h1n : ¬ ∀ e ∈ d.order1, ∀ p ∈ e.2, p ∈ parameters := by
      rw [← unknown_false, h1]; simp
    simp only [h1, if_true, Bool.true_eq_false, false_iff]
    exact fun h => h1n h.1
  · have h1f : (d.order1.any fun e => e.2.any fun p => !parameters.contains p) = false := by simpa using h1
    have h1' := (unknown_false parameters d.order1).mp h1f
    simp only [h1f, Bool.false_eq_true, if_false]
    by_cases h2 : d.order2 = []
    · simp only [h2, List.isEmpty_nil, if_true, true_iff]
      exact ⟨h1', fun h => absurd rfl h⟩
    · have h2' : d.order2.isEmpty = false := by simpa using h2
      simp only [h2', Bool.false_eq_true, if_false]
      by_cases h3 : d.order1 = []
      · simp only [h3, List.isEmpty_nil, if_true, Bool.true_eq_false, false_iff]
        intro h; exact (h.2 h2).1 rfl
      · have h3' : d.order1.isEmpty = false := by simpa using h3
        simp only [h3', Bool.false_eq_true, if_false, Bool.or_eq_false_iff]
        rw [unknown_false]
        constructor
        · rintro ⟨⟨hm, hc⟩, hu⟩
          refine ⟨h1', fun _ => ⟨h3, ?_, ?_, hu⟩⟩
          · intro e he
            have := List.any_eq_false.mp hm e he
            by_cases hA : e.1.1 ∈ List.map (fun x => x.1) d.order1
            · exact Or.inl hA
            · by_cases hB : e.1.2 ∈ List.map (fun x => x.1) d.order1
              · exact Or.inr hB
              · exfalso
                simp only [List.contains_eq_mem, hA, hB, decide_false, Bool.or_false, Bool.not_false] at this
                exact absurd this (by decide)
          · intro e he
            have := List.any_eq_false.mp hc e he
            simp only [Bool.and_eq_true, Bool.not_eq_true', Bool.and_eq_false_iff, List.contains_eq_mem,
              decide_eq_false_iff_not, Bool.not_eq_true', List.isEmpty_iff, not_and, not_not] at this
            by_cases hb : e.1.1 ∈ d.order1.map (·.1) ∧ e.1.2 ∈ d.order1.map (·.1)
            · exact Or.inl hb
            · right
              have hb' : ¬ (e.1.1 ∈ d.order1.map (·.1)) ∨ ¬ (e.1.2 ∈ d.order1.map (·.1)) := by tauto
              simp_all
        · rintro ⟨_, h⟩
          obtain ⟨_, hm, hc, hu⟩ := h h2
          refine ⟨⟨?_, ?_⟩, hu⟩
          · apply List.any_eq_false.mpr
            intro e he
            have := hm e he
            rcases this with hA | hB
            · simp [hA]
            · simp [hB]
          · apply List.any_eq_false.mpr
            intro e he
            rcases hc e he with hb | hb
            · simp [hb.1, hb.2]
            · simp [hb]
/-! **`order2=True`** (all second derivatives of the activated variables) -/
theorem expandAll_mem (P2 : List (String × String)) (o1 : List (String × List String))
    (e : (String × String) × List String) :
    e ∈ expandAll P2 o1 ↔ ∃ a ∈ o1, ∃ b ∈ o1, e = ((a.1, b.1), []) ∧
      ∃ p1 ∈ a.2, ∃ p2 ∈ b.2, (p1, p2) ∈ P2 ∨ (p2, p1) ∈ P2 := by
  unfold expandAll
  simp only [List.mem_flatMap, List.mem_filterMap]
  constructor
  · rintro ⟨a, ha, b, hb, h⟩
    split at h
    · rename_i hc
      simp only [Option.some.injEq] at h
      refine ⟨a, ha, b, hb, h.symm, ?_⟩
      simpa using hc
    · simp at h
  · rintro ⟨a, ha, b, hb, rfl, hp⟩
    refine ⟨a, ha, b, hb, ?_⟩
    have : (a.2.any fun p1 => b.2.any fun p2 => P2.contains (p1, p2) || P2.contains (p2, p1)) = true := by
      simpa using hp
    rw [if_pos this]

/-- the expansion is symmetric: it denotes a set of unordered pairs -/
theorem expandAll_symm (P2 : List (String × String)) (o1 : List (String × List String)) (u v : String) :
    ((u, v), []) ∈ expandAll P2 o1 → ((v, u), []) ∈ expandAll P2 o1 := by
  rw [expandAll_mem, expandAll_mem]
  rintro ⟨a, ha, b, hb, he, p1, h1, p2, h2, h⟩
  simp only [Prod.mk.injEq, and_true] at he
  refine ⟨b, hb, a, ha, by simp [he.1, he.2], p2, h2, p1, h1, h.symm⟩

/-- `order2=True` is never rejected on top of an accepted first-order declaration
    (the repaired behaviour: it used to expand to *all* parameter pairs of the class and fail the pair check as soon as
    `order1` selected or renamed parameters) -/
theorem order2_true_never_rejected (parameters : List String) (P2 : List (String × String))
    (o1 : List (String × List String)) (h : badDecl parameters ⟨o1, []⟩ = false) :
    badDecl parameters ⟨o1, expandAll P2 o1⟩ = false := by
  rw [badDecl_iff] at h ⊢
  obtain ⟨h1, _⟩ := h
  refine ⟨h1, fun hne => ⟨?_, ?_, ?_, ?_⟩⟩
  · rintro rfl
    exact hne (by simp [expandAll])
  · intro e he
    obtain ⟨a, ha, b, hb, rfl, _⟩ := (expandAll_mem _ _ _).mp he
    exact Or.inl (List.mem_map.mpr ⟨a, ha, rfl⟩)
  · intro e he
    obtain ⟨a, ha, b, hb, rfl, _⟩ := (expandAll_mem _ _ _).mp he
    exact Or.inr rfl
  · intro e he p hp
    obtain ⟨a, ha, b, hb, rfl, _⟩ := (expandAll_mem _ _ _).mp he
    simp at hp

/-- and it contains exactly the diagonal pairs of every variable with a twice-differentiable parameter -/
theorem expandAll_diagonal (P2 : List (String × String)) (o1 : List (String × List String))
    (a : String × List String) (ha : a ∈ o1) (p : String) (hp : p ∈ a.2) (h2 : (p, p) ∈ P2) :
    ((a.1, a.1), []) ∈ expandAll P2 o1 :=
  (expandAll_mem _ _ _).mpr ⟨a, ha, a, ha, rfl, p, hp, p, hp, Or.inl h2⟩

example : expandAll [("T2", "T2"), ("T1", "T1")] [("x", ["T1"]), ("y", ["T2"])]
    = [(("x", "x"), []), (("y", "y"), [])] := by decide
/-! **sequences without a probe or with non-operator items**, in terms of the flattened sequence -/
mutual
def flattenItem : SeqItem → List (Option Bool)
  | .op p => [some p]
  | .multi is => flattenL is
  | .list is => flattenL is
  | .other => [none]
def flattenL : List SeqItem → List (Option Bool)
  | [] => []
  | x :: xs => flattenItem x ++ flattenL xs
end

mutual
theorem hasOther_iff : ∀ x : SeqItem, x.hasOther = true ↔ none ∈ flattenItem x
  | .op p => by simp [SeqItem.hasOther, flattenItem]
  | .multi is => by simp only [SeqItem.hasOther, flattenItem]; exact hasOtherL_iff is
  | .list is => by simp only [SeqItem.hasOther, flattenItem]; exact hasOtherL_iff is
  | .other => by simp [SeqItem.hasOther, flattenItem]
theorem hasOtherL_iff : ∀ xs : List SeqItem, hasOtherL xs = true ↔ none ∈ flattenL xs
  | [] => by simp [hasOtherL, flattenL]
  | x :: xs => by
    simp only [hasOtherL, flattenL, Bool.or_eq_true, List.mem_append]
    rw [hasOther_iff x, hasOtherL_iff xs]
end

mutual
theorem hasProbe_iff : ∀ x : SeqItem, x.hasProbe = true ↔ some true ∈ flattenItem x
  | .op p => by simp [SeqItem.hasProbe, flattenItem]
  | .multi is => by simp only [SeqItem.hasProbe, flattenItem]; exact hasProbeL_iff is
  | .list is => by simp only [SeqItem.hasProbe, flattenItem]; exact hasProbeL_iff is
  | .other => by simp [SeqItem.hasProbe, flattenItem]
theorem hasProbeL_iff : ∀ xs : List SeqItem, hasProbeL xs = true ↔ some true ∈ flattenL xs
  | [] => by simp [hasProbeL, flattenL]
  | x :: xs => by
    simp only [hasProbeL, flattenL, Bool.or_eq_true, List.mem_append]
    rw [hasProbe_iff x, hasProbeL_iff xs]
end

theorem badSequence_iff (seq : List SeqItem) :
    badSequence seq = true ↔ (none ∈ flattenL seq ∨ some true ∉ flattenL seq) := by
  unfold badSequence
  rw [Bool.or_eq_true, hasOtherL_iff, Bool.not_eq_true', ← hasProbeL_iff]
  simp

/-- **unknown or missing sequence variables** -/
theorem badSeqVars_iff (vars given order1 : List String) (order2 : List (String × String)) :
    badSeqVars vars given order1 order2 = true ↔
      ((∃ v ∈ order1, v ≠ "magnitude" ∧ v ∉ vars) ∨
       (∃ p ∈ order2, p.1 ≠ "magnitude" ∧ p.2 ≠ "magnitude" ∧ (p.1 ∉ vars ∨ p.2 ∉ vars)) ∨
       (∃ v ∈ vars, v ∉ given)) := by
  unfold badSeqVars
  simp only [Bool.or_eq_true, List.any_eq_true, List.mem_filter, bne_iff_ne, ne_eq, decide_eq_true_eq,
    Bool.not_eq_true', List.contains_eq_mem, decide_eq_false_iff_not, List.mem_flatMap, Bool.and_eq_true, or_assoc]
  constructor
  · rintro (⟨v, ⟨hv, hm⟩, hn⟩ | ⟨v, ⟨p, ⟨hp, h1, h2⟩, hvp⟩, hn⟩ | h)
    · exact Or.inl ⟨v, hv, hm, hn⟩
    · right; left
      refine ⟨p, hp, h1, h2, ?_⟩
      simp only [List.mem_cons, List.mem_nil_iff, or_false] at hvp
      rcases hvp with rfl | rfl
      · exact Or.inl hn
      · exact Or.inr hn
    · exact Or.inr (Or.inr h)
  · rintro (⟨v, hv, hm, hn⟩ | ⟨p, hp, h1, h2, hn | hn⟩ | h)
    · exact Or.inl ⟨v, ⟨hv, hm⟩, hn⟩
    · exact Or.inr (Or.inl ⟨p.1, ⟨p, ⟨hp, h1, h2⟩, by simp⟩, hn⟩)
    · exact Or.inr (Or.inl ⟨p.2, ⟨p, ⟨hp, h1, h2⟩, by simp⟩, hn⟩)
    · exact Or.inr (Or.inr h)

/-- **pulse samples above 1** -/
theorem pulseTooLarge_iff (gt1 : K → Bool) (mags : List K) :
    pulseTooLarge gt1 mags = true ↔ ∃ m ∈ mags, gt1 m = true := by
  simp [pulseTooLarge]

end EpgVerif.Props.C20
