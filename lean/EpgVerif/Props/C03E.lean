import EpgVerif.Props.C03Gen
/-
  C03, end to end for the relaxation operator E(tau, T1, T2, g) — a diagonal operator with a recovery term acting on the
  equilibrium — mixed pair (a, b), all four parameters driven by both variables, non-linear parameter expressions.
  The bookkeeping carrier is a phase-state row together with its equilibrium row (partials carry a zero equilibrium).
-/
namespace EpgVerif.Props.C03
open EpgVerif Diff Ex Finset EpgVerif.Props.C02

open EpgVerif.Tie in
/-- mixed derivatives of the relaxation coefficients commute (as values) -/
theorem E_mixed_symm (env : Nat → ℂ) (h1 : env 1 ≠ 0) (h2 : env 2 ≠ 0) (i j k : Nat) (hi : i < 4) (hj : j < 4) (hk : k < 3) :
    eval env (d i (d j (Coeff.E.arr k))) = eval env (d j (d i (Coeff.E.arr k)))
    ∧ eval env (d i (d j (Coeff.E.arr0 k))) = eval env (d j (d i (Coeff.E.arr0 k))) := by
  interval_cases i <;> interval_cases j <;> interval_cases k <;> (constructor <;> ex_eq)

open EpgVerif.Tie in
/-- the pairs the class does not list — (T1, T2) and (T1, g) — have zero mixed derivative -/
theorem E_mixed_zero (env : Nat → ℂ) (i j k : Nat) (hij : (i = 1 ∧ j = 2) ∨ (i = 1 ∧ j = 3)) (hk : k < 3) :
    eval env (d i (d j (Coeff.E.arr k))) = 0 ∧ eval env (d i (d j (Coeff.E.arr0 k))) = 0 := by
  rcases hij with ⟨rfl, rfl⟩ | ⟨rfl, rfl⟩ <;> interval_cases k <;> (constructor <;> ex_eq)

def eIdx (p : Param) : Nat := if p = "tau" then 0 else if p = "T1" then 1 else if p = "T2" then 2 else 3

/-- the relaxation operator as `_apply_order2` sees it, acting on (row, equilibrium row) -/
noncomputable def eDOp (env : Nat → ℂ) (a b : Var) (la lb l2 : List (Param × ℂ)) : DOp ℂ (PS ℂ × PS ℂ) where
  derive0 X := (PS.dmul (fun i => eval env (Coeff.E.arr i)) X.1 + PS.dmul (fun i => eval env (Coeff.E.arr0 i)) X.2, X.2)
  derive1 p X := (PS.dmul (fun i => eval env (d (eIdx p) (Coeff.E.arr i))) X.1
                  + PS.dmul (fun i => eval env (d (eIdx p) (Coeff.E.arr0 i))) X.2, 0)
  derive2 pp X := (PS.dmul (fun i => eval env (d (eIdx pp.2) (d (eIdx pp.1) (Coeff.E.arr i)))) X.1
                  + PS.dmul (fun i => eval env (d (eIdx pp.2) (d (eIdx pp.1) (Coeff.E.arr0 i)))) X.2, 0)
  order1 := [(a, la), (b, lb)]
  order2 := [((a, b), l2)]
  auto := false
  P2 := [("T1", "T1"), ("T1", "tau"), ("T2", "T2"), ("T2", "g"), ("T2", "tau"), ("g", "g"), ("g", "tau"), ("tau", "tau")]

/-- **C03 end to end, relaxation, mixed pair (a, b)**: for `E(tau, T1, T2, g)` whose four parameters depend on the variables
    `a < b` — along `b` with slopes `cB`, the slopes `sa` of `a` moving with `b` with slopes `c2` (second-order coefficients
    of the declaration) — the value `_apply_order2` stores under `(a, b)` is the derivative with respect to `b` of the new
    first partial under `a`, recovery term included -/
theorem E_mixed_partial_exact_nl (par sa : Nat → ℝ → ℝ) (cB c2 : Nat → ℝ) (y0 : ℝ) (a b : Var) (hab : a < b)
    (hpar : ∀ j, j < 4 → HasDerivAt (par j) (cB j) y0) (hsa : ∀ j, j < 4 → HasDerivAt (sa j) (c2 j) y0)
    (hT1 : par 1 y0 ≠ 0) (hT2 : par 2 y0 ≠ 0)
    (e : PS ℂ) (s Ja : ℝ → PS ℂ) (Jb H : PS ℂ) (hs : PSHasDeriv s Jb y0) (hJ : PSHasDeriv Ja H y0) :
    let env := fun (y : ℝ) (j : Nat) => if j < 4 then ((par j y : ℝ) : ℂ) else 0
    PSHasDeriv (fun y => PS.dmul (fun i => eval (env y) (Coeff.E.arr i)) (Ja y)
        + psSum 4 (fun p => PS.smul ((sa p y : ℝ) : ℂ)
            (PS.dmul (fun i => eval (env y) (d p (Coeff.E.arr i))) (s y) + PS.dmul (fun i => eval (env y) (d p (Coeff.E.arr0 i))) e)))
      (Diff.val (applyOrder2 (modCar (K := ℂ))
          (eDOp (env y0) a b [("tau", (((sa 0 y0 : ℝ) : ℂ))), ("T1", (((sa 1 y0 : ℝ) : ℂ))), ("T2", (((sa 2 y0 : ℝ) : ℂ))), ("g", (((sa 3 y0 : ℝ) : ℂ)))] [("tau", ((cB 0 : ℝ) : ℂ)), ("T1", ((cB 1 : ℝ) : ℂ)), ("T2", ((cB 2 : ℝ) : ℂ)), ("g", ((cB 3 : ℝ) : ℂ))] [("tau", ((c2 0 : ℝ) : ℂ)), ("T1", ((c2 1 : ℝ) : ℂ)), ("T2", ((c2 2 : ℝ) : ℂ)), ("g", ((c2 3 : ℝ) : ℂ))])
          (s y0, e) [(a, (Ja y0, 0)), (b, (Jb, 0))] [((a, b), (H, 0))]) (a, b)).1 y0 := by
  intro env
  show PSHasDeriv _ (Diff.val (applyOrder2 _ (eDOp (fun j => if j < 4 then ((par j y0 : ℝ) : ℂ) else 0) a b _ _ _) _ _ _) (a, b)).1 y0
  have hE1 : ((fun j => if j < 4 then ((par j y0 : ℝ) : ℂ) else 0) : Nat → ℂ) 1 ≠ 0 := by simp; exact hT1
  have hE2 : ((fun j => if j < 4 then ((par j y0 : ℝ) : ℂ) else 0) : Nat → ℂ) 2 ≠ 0 := by simp; exact hT2
  set op := eDOp (fun j => if j < 4 then ((par j y0 : ℝ) : ℂ) else 0) a b [("tau", (((sa 0 y0 : ℝ) : ℂ))), ("T1", (((sa 1 y0 : ℝ) : ℂ))), ("T2", (((sa 2 y0 : ℝ) : ℂ))), ("g", (((sa 3 y0 : ℝ) : ℂ)))] [("tau", ((cB 0 : ℝ) : ℂ)), ("T1", ((cB 1 : ℝ) : ℂ)), ("T2", ((cB 2 : ℝ) : ℂ)), ("g", ((cB 3 : ℝ) : ℂ))] [("tau", ((c2 0 : ℝ) : ℂ)), ("T1", ((c2 1 : ℝ) : ℂ)), ("T2", ((c2 2 : ℝ) : ℂ)), ("g", ((c2 3 : ℝ) : ℂ))] with hop
  have h0 : op.derive0 0 = 0 := by
    show ((_ : PS ℂ), (_ : PS ℂ)) = 0
    ext <;> simp [PS.dmul]
  rw [pairVar_value op a b hab _ _ _ rfl rfl rfl h0]
  have hd : ∀ i, Defined (fun j => if j < 4 then ((par j y0 : ℝ) : ℂ) else 0) (Coeff.E.arr i) ∧ Defined (fun j => if j < 4 then ((par j y0 : ℝ) : ℂ) else 0) (Coeff.E.arr0 i) := fun i => relaxation_defined (fun j => if j < 4 then ((par j y0 : ℝ) : ℂ) else 0) hE1 hE2 i
  have hm := scal_mixed_step Coeff.E.arr Coeff.E.arr0 4 par sa cB c2 y0 hpar hsa hd e s Ja Jb H hs hJ
  refine hm.congr_deriv ?_
  have s_tau_tau : supported op "tau" "tau" = true := by simp (config := {decide := true}) [supported, op, eDOp]
  have s_tau_T1 : supported op "tau" "T1" = true := by simp (config := {decide := true}) [supported, op, eDOp]
  have s_tau_T2 : supported op "tau" "T2" = true := by simp (config := {decide := true}) [supported, op, eDOp]
  have s_tau_g : supported op "tau" "g" = true := by simp (config := {decide := true}) [supported, op, eDOp]
  have s_T1_tau : supported op "T1" "tau" = true := by simp (config := {decide := true}) [supported, op, eDOp]
  have s_T1_T1 : supported op "T1" "T1" = true := by simp (config := {decide := true}) [supported, op, eDOp]
  have s_T1_T2 : supported op "T1" "T2" = false := by simp (config := {decide := true}) [supported, op, eDOp]
  have s_T1_g : supported op "T1" "g" = false := by simp (config := {decide := true}) [supported, op, eDOp]
  have s_T2_tau : supported op "T2" "tau" = true := by simp (config := {decide := true}) [supported, op, eDOp]
  have s_T2_T1 : supported op "T2" "T1" = false := by simp (config := {decide := true}) [supported, op, eDOp]
  have s_T2_T2 : supported op "T2" "T2" = true := by simp (config := {decide := true}) [supported, op, eDOp]
  have s_T2_g : supported op "T2" "g" = true := by simp (config := {decide := true}) [supported, op, eDOp]
  have s_g_tau : supported op "g" "tau" = true := by simp (config := {decide := true}) [supported, op, eDOp]
  have s_g_T1 : supported op "g" "T1" = false := by simp (config := {decide := true}) [supported, op, eDOp]
  have s_g_T2 : supported op "g" "T2" = true := by simp (config := {decide := true}) [supported, op, eDOp]
  have s_g_g : supported op "g" "g" = true := by simp (config := {decide := true}) [supported, op, eDOp]
  have p_tau_tau : pair "tau" "tau" = ("tau", "tau") := by decide
  have p_tau_T1 : pair "tau" "T1" = ("T1", "tau") := by decide
  have p_tau_T2 : pair "tau" "T2" = ("T2", "tau") := by decide
  have p_tau_g : pair "tau" "g" = ("g", "tau") := by decide
  have p_T1_tau : pair "T1" "tau" = ("T1", "tau") := by decide
  have p_T1_T1 : pair "T1" "T1" = ("T1", "T1") := by decide
  have p_T1_T2 : pair "T1" "T2" = ("T1", "T2") := by decide
  have p_T1_g : pair "T1" "g" = ("T1", "g") := by decide
  have p_T2_tau : pair "T2" "tau" = ("T2", "tau") := by decide
  have p_T2_T1 : pair "T2" "T1" = ("T1", "T2") := by decide
  have p_T2_T2 : pair "T2" "T2" = ("T2", "T2") := by decide
  have p_T2_g : pair "T2" "g" = ("T2", "g") := by decide
  have p_g_tau : pair "g" "tau" = ("g", "tau") := by decide
  have p_g_T1 : pair "g" "T1" = ("T1", "g") := by decide
  have p_g_T2 : pair "g" "T2" = ("T2", "g") := by decide
  have p_g_g : pair "g" "g" = ("g", "g") := by decide
  have y100 := E_mixed_symm (fun j => if j < 4 then ((par j y0 : ℝ) : ℂ) else 0) hE1 hE2 1 0 0 (by norm_num) (by norm_num) (by norm_num)
  have y101 := E_mixed_symm (fun j => if j < 4 then ((par j y0 : ℝ) : ℂ) else 0) hE1 hE2 1 0 1 (by norm_num) (by norm_num) (by norm_num)
  have y102 := E_mixed_symm (fun j => if j < 4 then ((par j y0 : ℝ) : ℂ) else 0) hE1 hE2 1 0 2 (by norm_num) (by norm_num) (by norm_num)
  have y200 := E_mixed_symm (fun j => if j < 4 then ((par j y0 : ℝ) : ℂ) else 0) hE1 hE2 2 0 0 (by norm_num) (by norm_num) (by norm_num)
  have y201 := E_mixed_symm (fun j => if j < 4 then ((par j y0 : ℝ) : ℂ) else 0) hE1 hE2 2 0 1 (by norm_num) (by norm_num) (by norm_num)
  have y202 := E_mixed_symm (fun j => if j < 4 then ((par j y0 : ℝ) : ℂ) else 0) hE1 hE2 2 0 2 (by norm_num) (by norm_num) (by norm_num)
  have y210 := E_mixed_symm (fun j => if j < 4 then ((par j y0 : ℝ) : ℂ) else 0) hE1 hE2 2 1 0 (by norm_num) (by norm_num) (by norm_num)
  have y211 := E_mixed_symm (fun j => if j < 4 then ((par j y0 : ℝ) : ℂ) else 0) hE1 hE2 2 1 1 (by norm_num) (by norm_num) (by norm_num)
  have y212 := E_mixed_symm (fun j => if j < 4 then ((par j y0 : ℝ) : ℂ) else 0) hE1 hE2 2 1 2 (by norm_num) (by norm_num) (by norm_num)
  have y300 := E_mixed_symm (fun j => if j < 4 then ((par j y0 : ℝ) : ℂ) else 0) hE1 hE2 3 0 0 (by norm_num) (by norm_num) (by norm_num)
  have y301 := E_mixed_symm (fun j => if j < 4 then ((par j y0 : ℝ) : ℂ) else 0) hE1 hE2 3 0 1 (by norm_num) (by norm_num) (by norm_num)
  have y302 := E_mixed_symm (fun j => if j < 4 then ((par j y0 : ℝ) : ℂ) else 0) hE1 hE2 3 0 2 (by norm_num) (by norm_num) (by norm_num)
  have y310 := E_mixed_symm (fun j => if j < 4 then ((par j y0 : ℝ) : ℂ) else 0) hE1 hE2 3 1 0 (by norm_num) (by norm_num) (by norm_num)
  have y311 := E_mixed_symm (fun j => if j < 4 then ((par j y0 : ℝ) : ℂ) else 0) hE1 hE2 3 1 1 (by norm_num) (by norm_num) (by norm_num)
  have y312 := E_mixed_symm (fun j => if j < 4 then ((par j y0 : ℝ) : ℂ) else 0) hE1 hE2 3 1 2 (by norm_num) (by norm_num) (by norm_num)
  have y320 := E_mixed_symm (fun j => if j < 4 then ((par j y0 : ℝ) : ℂ) else 0) hE1 hE2 3 2 0 (by norm_num) (by norm_num) (by norm_num)
  have y321 := E_mixed_symm (fun j => if j < 4 then ((par j y0 : ℝ) : ℂ) else 0) hE1 hE2 3 2 1 (by norm_num) (by norm_num) (by norm_num)
  have y322 := E_mixed_symm (fun j => if j < 4 then ((par j y0 : ℝ) : ℂ) else 0) hE1 hE2 3 2 2 (by norm_num) (by norm_num) (by norm_num)
  have z120 := E_mixed_zero (fun j => if j < 4 then ((par j y0 : ℝ) : ℂ) else 0) 1 2 0 (by norm_num) (by norm_num)
  have z121 := E_mixed_zero (fun j => if j < 4 then ((par j y0 : ℝ) : ℂ) else 0) 1 2 1 (by norm_num) (by norm_num)
  have z122 := E_mixed_zero (fun j => if j < 4 then ((par j y0 : ℝ) : ℂ) else 0) 1 2 2 (by norm_num) (by norm_num)
  have z130 := E_mixed_zero (fun j => if j < 4 then ((par j y0 : ℝ) : ℂ) else 0) 1 3 0 (by norm_num) (by norm_num)
  have z131 := E_mixed_zero (fun j => if j < 4 then ((par j y0 : ℝ) : ℂ) else 0) 1 3 1 (by norm_num) (by norm_num)
  have z132 := E_mixed_zero (fun j => if j < 4 then ((par j y0 : ℝ) : ℂ) else 0) 1 3 2 (by norm_num) (by norm_num)
  simp only [List.map_cons, List.map_nil, List.sum_cons, List.sum_nil, add_zero, s_tau_tau, s_tau_T1, s_tau_T2, s_tau_g, s_T1_tau, s_T1_T1, s_T1_T2, s_T1_g, s_T2_tau, s_T2_T1, s_T2_T2, s_T2_g, s_g_tau, s_g_T1, s_g_T2, s_g_g, p_tau_tau, p_tau_T1, p_tau_T2, p_tau_g, p_T1_tau, p_T1_T1, p_T1_T2, p_T1_g, p_T2_tau, p_T2_T1, p_T2_T2, p_T2_g, p_g_tau, p_g_T1, p_g_T2, p_g_g,
    if_true, Bool.false_eq_true, if_false, Prod.fst_add, Prod.smul_fst, Prod.fst_zero, psSum_four]
  simp (config := {decide := true}) only [op, eDOp, eIdx, String.reduceEq, if_true, if_false, smul_eq_PSsmul, id]
  apply PS.ext' <;>
  · simp only [PS.dmul, PS.smul, PS.add_fp, PS.add_fm, PS.add_z, PS.zero_fp, PS.zero_fm, PS.zero_z, psSum,
      Finset.sum_range_succ, Finset.sum_range_zero, zero_add, y100.1, y100.2, y101.1, y101.2, y102.1, y102.2, y200.1, y200.2, y201.1, y201.2, y202.1, y202.2, y210.1, y210.2, y211.1, y211.2, y212.1, y212.2, y300.1, y300.2, y301.1, y301.2, y302.1, y302.2, y310.1, y310.2, y311.1, y311.2, y312.1, y312.2, y320.1, y320.2, y321.1, y321.2, y322.1, y322.2, z120.1, z120.2, z121.1, z121.2, z122.1, z122.2, z130.1, z130.2, z131.1, z131.2, z132.1, z132.2]
    ring

end EpgVerif.Props.C03
