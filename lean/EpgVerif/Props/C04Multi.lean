import EpgVerif.Props.C13Prune
/-
  C04 / C07 — batched shifts store ONE slot layout for all batch entries, so for a given entry several slots may carry the
  same wavenumber.  A "multi-table" is a list of (wavenumber, phase state) slots with repetitions; it REPRESENTS the
  function k ↦ Σ of the slots at k.  Slot-wise operators act on the represented function as the operators of the property
  do, and the signal is the represented value at the origin — the sum over ALL zero-wavenumber slots (what
  `StateMatrix.F0/Z0` return since fix 2fc4d8b), not the centre slot alone.
-/
namespace EpgVerif.Props.C04
open EpgVerif EpgVerif.Props.C13 EpgVerif.Props.C14

variable {κ : Type} [DecidableEq κ] [AddCommGroup κ]

/-- slots with repetitions -/
abbrev MT (κ : Type) := List (κ × PS ℂ)

/-- the represented table: sum of the slots at `k` -/
def rep (t : MT κ) (k : κ) : PS ℂ := ((t.filter (fun e => e.1 = k)).map (·.2)).foldr (· + ·) 0

theorem rep_nil (k : κ) : rep ([] : MT κ) k = 0 := rfl

theorem rep_cons (e : κ × PS ℂ) (t : MT κ) (k : κ) : rep (e :: t) k = (if e.1 = k then e.2 else 0) + rep t k := by
  unfold rep
  by_cases h : e.1 = k
  · simp [List.filter_cons, h]
  · simp only [List.filter_cons, h, decide_false, if_false]
    apply PS.ext' <;> simp

theorem rep_append (t u : MT κ) (k : κ) : rep (t ++ u) k = rep t k + rep u k := by
  induction t with
  | nil => simp only [List.nil_append, rep_nil]; apply PS.ext' <;> simp
  | cons e t ih =>
    rw [List.cons_append, rep_cons, rep_cons, ih]
    apply PS.ext' <;> simp [add_assoc]

/-- slot-wise linear operator (the linear part of any non-shifting operator) -/
noncomputable def ptMT (op : Op ℂ) (t : MT κ) : MT κ := t.map (fun e => (e.1, pointOp op 0 e.2))

theorem rep_ptMT (op : Op ℂ) (t : MT κ) (k : κ) : rep (ptMT op t) k = pointOp op 0 (rep t k) := by
  induction t with
  | nil => simp only [ptMT, List.map_nil, rep_nil]; exact (pointOp_zero op).symm
  | cons e t ih =>
    have : ptMT op (e :: t) = (e.1, pointOp op 0 e.2) :: ptMT op t := rfl
    rw [this, rep_cons, rep_cons, ih, pointOp_add0]
    by_cases h : e.1 = k
    · simp [h]
    · simp only [h, if_false, pointOp_zero]

/-- slot-wise shift: each slot sends its F+ to `k + g`, its F- to `k − g`, and keeps its Z -/
def shiftMT (g : κ) (t : MT κ) : MT κ :=
  t.flatMap (fun e => [(e.1 + g, ⟨e.2.fp, 0, 0⟩), (e.1 - g, ⟨0, e.2.fm, 0⟩), (e.1, ⟨0, 0, e.2.z⟩)])

theorem rep_shiftMT (g : κ) (t : MT κ) (k : κ) : rep (shiftMT g t) k = shiftF g (rep t) k := by
  induction t with
  | nil => simp only [shiftMT, List.flatMap_nil, rep_nil, shiftF]
  | cons e t ih =>
    have : shiftMT g (e :: t)
        = [(e.1 + g, ⟨e.2.fp, 0, 0⟩), (e.1 - g, ⟨0, e.2.fm, 0⟩), (e.1, ⟨0, 0, e.2.z⟩)] ++ shiftMT g t := rfl
    rw [this, rep_append, ih]
    have h1 : (e.1 + g = k) ↔ (e.1 = k - g) := by constructor <;> intro h <;> [rw [← h]; rw [h]] <;> abel
    have h2 : (e.1 - g = k) ↔ (e.1 = k + g) := by constructor <;> intro h <;> [rw [← h]; rw [h]] <;> abel
    simp only [rep_cons, rep_nil, shiftF, h1, h2]
    apply PS.ext'
    · simp only [PS.add_fp]; split_ifs <;> simp
    · simp only [PS.add_fm]; split_ifs <;> simp
    · simp only [PS.add_z]; split_ifs <;> simp

/-- **the signal of a table with repeated wavenumbers is the sum over all its zero-wavenumber slots** -/
theorem signal_is_sum_of_zero_slots (t : MT κ) :
    (rep t 0).fp = ((t.filter (fun e => e.1 = 0)).map (fun e => e.2.fp)).sum := by
  unfold rep
  induction (t.filter (fun e => e.1 = 0)) with
  | nil => rfl
  | cons e l ih => simp only [List.map_cons, List.foldr_cons, List.sum_cons, PS.add_fp, ih]

/-- a whole program of slot-wise linear operators and shifts represents the program on functions -/
noncomputable def stepMT : FOp κ → MT κ → MT κ
  | .pt op, t => ptMT op t
  | .shift g, t => shiftMT g t
  | .diag a, t => t.map (fun e => (e.1, PS.dmul (a e.1) e.2))

theorem rep_stepMT (o : FOp κ) (t : MT κ) : rep (stepMT o t) = lstep o (rep t) := by
  funext k
  cases o with
  | pt op => simp only [stepMT, rep_ptMT, lstep, fstep, pointF, eqRow_zero]
  | shift g => simp only [stepMT, rep_shiftMT, lstep, fstep]
  | diag a =>
    simp only [stepMT, lstep, fstep]
    induction t with
    | nil => simp only [List.map_nil, rep_nil]; apply PS.ext' <;> simp [PS.dmul]
    | cons e t ih =>
      simp only [List.map_cons, rep_cons, ih]
      by_cases h : e.1 = k
      · subst h; simp only [if_true]; apply PS.ext' <;> simp [PS.dmul, mul_add]
      · simp only [h, if_false]; apply PS.ext' <;> simp [PS.dmul]

theorem rep_runMT (ops : List (FOp κ)) (t : MT κ) : rep (ops.foldl (fun t o => stepMT o t) t) = lrun ops (rep t) := by
  induction ops generalizing t with
  | nil => rfl
  | cons o ops ih => rw [List.foldl_cons, ih, rep_stepMT, lrun_cons]

end EpgVerif.Props.C04
