import EpgVerif.Props.C13
/-!
  C08 for the gridded (merging) shift back-ends: states whose wavenumbers fall into one grid cell are added up.
  If the cell map is odd (`ρ (−k) = −ρ k`: numpy's `round` and `astype(int)` both are) and the set of stored wavenumbers
  is symmetric, merging keeps the conjugate-mirror symmetry of a state matrix: `F−(c) = conj F+(−c)` and
  `Z(−c) = conj Z(c)` on the merged table.  (This is the clause the repair of F56 re-established for the wavenumber table
  of `shiftprune`: an antisymmetric table with a zero centre is what makes the cell map odd on the stored rows.)
-/
namespace EpgVerif.Props.C08
open Complex Finset

variable {κ κ' : Type} [DecidableEq κ] [DecidableEq κ'] [AddGroup κ] [AddGroup κ']

/-- amplitude of cell `c` after merging the component `a` of the stored states -/
noncomputable def mergeC (S : Finset κ) (ρ : κ → κ') (a : κ → ℂ) (c : κ') : ℂ :=
  ∑ k ∈ S.filter (fun k => ρ k = c), a k

/-- **merging keeps the conjugate mirror**: if `b k = conj (a (−k))` on the stored states (`b = F−`, `a = F+`; or
    `a = b = Z`), the merged components satisfy the same relation between mirrored cells -/
theorem merge_keeps_mirror (S : Finset κ) (hS : ∀ k, k ∈ S → -k ∈ S) (ρ : κ → κ') (hρ : ∀ k, ρ (-k) = -ρ k)
    (a b : κ → ℂ) (h : ∀ k, b k = (starRingEnd ℂ) (a (-k))) (c : κ') :
    mergeC S ρ b c = (starRingEnd ℂ) (mergeC S ρ a (-c)) := by
  unfold mergeC
  rw [map_sum]
  apply Finset.sum_bij (fun k _ => -k)
  · intro k hk
    simp only [Finset.mem_filter] at hk ⊢
    exact ⟨hS k hk.1, by rw [hρ, hk.2]⟩
  · intro k1 _ k2 _ h12
    exact neg_injective h12
  · intro k hk
    simp only [Finset.mem_filter] at hk
    refine ⟨-k, ?_, by simp⟩
    simp only [Finset.mem_filter]
    exact ⟨hS k hk.1, by rw [hρ, hk.2, neg_neg]⟩
  · intro k _
    rw [h k]

/-- the two clauses of a well-formed state matrix after merging -/
theorem merge_wellformed (S : Finset κ) (hS : ∀ k, k ∈ S → -k ∈ S) (ρ : κ → κ') (hρ : ∀ k, ρ (-k) = -ρ k)
    (fp fm z : κ → ℂ) (hf : ∀ k, fm k = (starRingEnd ℂ) (fp (-k))) (hz : ∀ k, z k = (starRingEnd ℂ) (z (-k)))
    (c : κ') :
    mergeC S ρ fm c = (starRingEnd ℂ) (mergeC S ρ fp (-c)) ∧ mergeC S ρ z c = (starRingEnd ℂ) (mergeC S ρ z (-c)) :=
  ⟨merge_keeps_mirror S hS ρ hρ fp fm hf c, merge_keeps_mirror S hS ρ hρ z z hz c⟩

/-- the cell of the origin collects only what is mapped to it, and is its own mirror: `Z` of the centre cell is real -/
theorem merge_centre_real (S : Finset κ) (hS : ∀ k, k ∈ S → -k ∈ S) (ρ : κ → κ') (hρ : ∀ k, ρ (-k) = -ρ k)
    (z : κ → ℂ) (hz : ∀ k, z k = (starRingEnd ℂ) (z (-k))) :
    (starRingEnd ℂ) (mergeC S ρ z 0) = mergeC S ρ z 0 := by
  have := merge_keeps_mirror S hS ρ hρ z z hz 0
  rw [neg_zero] at this
  exact this.symm

/-- the cell index of `shiftprune`: `round(x).astype(int)` with the package's `round(x) = x − 0.5 + (x > 0)` and
    numpy's truncation toward zero, i.e. rounding half away from zero -/
noncomputable def cellIndex (x : ℝ) : ℤ := if 0 < x then ⌊x + 1 / 2⌋ else ⌈x - 1 / 2⌉

/-- **it is odd**, so mirrored wavenumbers fall into mirrored cells and the hypothesis of `merge_keeps_mirror` holds
    for the stored rows (`shiftmerge` does not rely on it: it builds the mirrored indices as `−q[::-1]`) -/
theorem cellIndex_odd (x : ℝ) : cellIndex (-x) = -cellIndex x := by
  unfold cellIndex
  rcases lt_trichotomy x 0 with hx | hx | hx
  · have h1 : 0 < -x := by linarith
    have h2 : ¬ 0 < x := by linarith
    simp only [h1, h2, if_true, if_false]
    rw [← Int.floor_neg]; congr 1; ring
  · subst hx
    simp only [neg_zero, lt_irrefl, if_false, zero_sub]
    have : ⌈(-(1 / 2) : ℝ)⌉ = 0 := by
      rw [Int.ceil_eq_iff]; constructor <;> norm_num
    rw [this]; rfl
  · have h1 : ¬ 0 < -x := by linarith
    simp only [h1, hx, if_true, if_false]
    rw [← Int.ceil_neg]; congr 1; ring

end EpgVerif.Props.C08
