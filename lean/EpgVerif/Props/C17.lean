import Mathlib.Analysis.Calculus.Deriv.Mul
import Mathlib.Analysis.Calculus.Deriv.Add
import Mathlib.LinearAlgebra.Matrix.NonsingularInverse
import Mathlib.LinearAlgebra.Matrix.Trace
import Mathlib.Data.Complex.Basic
import EpgVerif.Gen.StatsSigs
/-
  C17 — CRLB, its gradient and confidence intervals match their defining formulas.
  The contraction patterns of stats.py are read from the source (einsum signature strings,
  `Gen.Stats`) and pinned here; the formulas they denote are stated with Mathlib matrices.
-/
namespace EpgVerif.Props.C17
open Matrix

/-- **contraction patterns of the current source** (a wrong index letter is a failed proof):
    Fisher matrix `JᴴJ`, Hessian term `Hᴴ J` with the gradient axis last, gradient contraction
    `tr(W I⁻¹ · I⁻¹)` per gradient direction. -/
theorem crlb_signatures : Gen.Stats.crlb_einsums =
    ["...np,...nq->...pq", "...npx,...nq->...qpx", "...pq,...qrx,...rp->...x"] := by decide
theorem crlb_split_signatures : Gen.Stats.crlb_split_einsums = ["...np,...nq->...pq"] := by decide
/-- confint: residual-weighted Hessian `Σ_n conj(H[n,q,p]) r[n]`, `JᴴJ`, prediction band `J cov Jᴴ` -/
theorem confint_signatures : Gen.Stats.confint_einsums =
    ["...nqp,...n->...pq", "...np,...nq->...pq", "...np,...nq->...pq", "...np,...pq,...nq->...n"] := by decide

variable {n m : Type} [Fintype n] [DecidableEq n] [Fintype m] [DecidableEq m]

/-- `"...np,...nq->...pq"` applied to `(conj J, J)`, real part: the Fisher information `Re(JᴴJ)` -/
noncomputable def fisher (J : Matrix m n ℂ) (σ2 : ℝ) : Matrix n n ℝ :=
  fun p q => (∑ k, (starRingEnd ℂ) (J k p) * J k q).re / σ2

theorem fisher_eq_re_JhJ (J : Matrix m n ℂ) (σ2 : ℝ) (p q : n) :
    fisher J σ2 p q = ((Jᴴ * J) p q).re / σ2 := by
  simp [fisher, Matrix.mul_apply, Matrix.conjTranspose_apply]

/-- the Fisher matrix is symmetric -/
theorem fisher_symm (J : Matrix m n ℂ) (σ2 : ℝ) (p q : n) : fisher J σ2 p q = fisher J σ2 q p := by
  unfold fisher
  congr 1
  rw [← Complex.conj_re (∑ k, (starRingEnd ℂ) (J k q) * J k p)]
  congr 1
  rw [map_sum]
  apply Finset.sum_congr rfl
  intro k _
  simp [mul_comm]

/-- cost `tr(W · I⁻¹)` (weights on the diagonal) -/
noncomputable def cost (W : n → ℝ) (Iinv : Matrix n n ℝ) : ℝ := ∑ p, W p * Iinv p p

/-- **derivative of the inverse**: if `A(x) · B(x) = 1` near `x₀` and both are differentiable
    entrywise, then `B' = − B A' B` (the formula the gradient of the CRLB is built on). -/
theorem inverse_derivative (A B : ℝ → Matrix n n ℝ) (A' B' : Matrix n n ℝ) (x0 : ℝ)
    (hA : ∀ i j, HasDerivAt (fun x => A x i j) (A' i j) x0)
    (hB : ∀ i j, HasDerivAt (fun x => B x i j) (B' i j) x0)
    (hinv : ∀ x, A x * B x = 1) (hinv' : B x0 * A x0 = 1) :
    B' = -(B x0 * A' * B x0) := by
  -- differentiate every entry of A(x) B(x) = 1
  have hprod : ∀ i j, HasDerivAt (fun x => (A x * B x) i j) ((A' * B x0 + A x0 * B') i j) x0 := by
    intro i j
    have : ∀ k ∈ (Finset.univ : Finset n), HasDerivAt (fun x => A x i k * B x k j) (A' i k * B x0 k j + A x0 i k * B' k j) x0 :=
      fun k _ => (hA i k).mul (hB k j)
    have hs := HasDerivAt.fun_sum this
    have e : (∑ k, (A' i k * B x0 k j + A x0 i k * B' k j)) = (A' * B x0 + A x0 * B') i j := by
      simp only [Matrix.mul_apply, Matrix.add_apply, Finset.sum_add_distrib]
    exact hs.congr_deriv e
  have hzero : A' * B x0 + A x0 * B' = 0 := by
    ext i j
    have h1 := hprod i j
    have h2 : HasDerivAt (fun x => (A x * B x) i j) 0 x0 := by
      have : (fun x => (A x * B x) i j) = fun _ => (1 : Matrix n n ℝ) i j := by funext x; rw [hinv x]
      rw [this]; exact hasDerivAt_const _ _
    exact h1.unique h2
  have : A x0 * B' = -(A' * B x0) := by
    rw [← sub_eq_zero, sub_neg_eq_add, add_comm]; exact hzero
  calc B' = (B x0 * A x0) * B' := by rw [hinv', one_mul]
    _ = B x0 * (A x0 * B') := by rw [Matrix.mul_assoc]
    _ = B x0 * -(A' * B x0) := by rw [this]
    _ = -(B x0 * A' * B x0) := by rw [Matrix.mul_neg, Matrix.mul_assoc]

/-- **the CRLB gradient is exact**: `d/dx tr(W I(x)⁻¹) = − tr(W · I⁻¹ I' I⁻¹)`, where `I'` is the
    derivative of the Fisher matrix along the direction encoded in `H`. -/
theorem crlb_gradient_exact (W : n → ℝ) (A B : ℝ → Matrix n n ℝ) (A' B' : Matrix n n ℝ) (x0 : ℝ)
    (hA : ∀ i j, HasDerivAt (fun x => A x i j) (A' i j) x0)
    (hB : ∀ i j, HasDerivAt (fun x => B x i j) (B' i j) x0)
    (hinv : ∀ x, A x * B x = 1) (hinv' : B x0 * A x0 = 1) :
    HasDerivAt (fun x => cost W (B x)) (-(cost W (B x0 * A' * B x0))) x0 := by
  have hB' := inverse_derivative A B A' B' x0 hA hB hinv hinv'
  unfold cost
  have : ∀ p ∈ (Finset.univ : Finset n), HasDerivAt (fun x => W p * B x p p) (W p * B' p p) x0 :=
    fun p _ => (hB p p).const_mul (W p)
  have hs := HasDerivAt.fun_sum this
  refine hs.congr_deriv ?_
  rw [hB', ← Finset.sum_neg_distrib]
  apply Finset.sum_congr rfl
  intro p _
  simp

/-- `crlb_split` returns the diagonal of the inverse Fisher matrix (times the weights) -/
theorem crlb_is_trace_of_split (W : n → ℝ) (Iinv : Matrix n n ℝ) :
    cost W Iinv = ∑ p, W p * (Matrix.diag Iinv) p := rfl

/-- confidence half-width: `t · sqrt(diag(SSE/dof · C))` with `C` the inverse of
    `Re(JᴴJ) − Re Σ_n conj(H_n) r_n` (second term only when a Hessian is given) -/
noncomputable def mleHessian (J : Matrix m n ℂ) (H : m → Matrix n n ℂ) (r : m → ℂ) : Matrix n n ℝ :=
  fun p q => (∑ k, (starRingEnd ℂ) (J k p) * J k q).re - (∑ k, (starRingEnd ℂ) (H k q p) * r k).re

/-- with zero residuals (or no Hessian) the covariance reduces to `(Re JᴴJ)⁻¹` -/
theorem mleHessian_zero_residual (J : Matrix m n ℂ) (H : m → Matrix n n ℂ) :
    mleHessian J H (fun _ => 0) = fisher J 1 := by
  ext p q; simp [mleHessian, fisher]

end EpgVerif.Props.C17
