import EpgVerif.Props.C02Run
/-
  C02, whole programs: the remaining differentiable operator families — phase offsets `Phi(phi)` and pure precession
  `P(tau, g)` — satisfy the one-step hypothesis of `jacobian_exact` (`famT`, `famE` are in C02Run).
-/
namespace EpgVerif.Props.C02
open EpgVerif Diff Ex Finset EpgVerif.Props.C04

theorem phi_defined (env : Nat → ℂ) (i j : Nat) : Ex.Defined env (Coeff.Phi.mat i j) := by
  match i, j with
  | 0, 0 => simp [Coeff.Phi.mat, Coeff.Phi.p, Coeff.rad, Ex.Defined, Ex.eval]
  | 1, 1 => simp [Coeff.Phi.mat, Coeff.Phi.p, Coeff.rad, Ex.Defined, Ex.eval]
  | 2, 2 => simp [Coeff.Phi.mat, Ex.Defined]
  | 0, (n + 1) => simp [Coeff.Phi.mat, Ex.Defined]
  | (n + 1), 0 => simp [Coeff.Phi.mat, Ex.Defined]
  | 1, (n + 2) => simp [Coeff.Phi.mat, Ex.Defined]
  | (n + 2), 1 => simp [Coeff.Phi.mat, Ex.Defined]
  | 2, (n + 3) => simp [Coeff.Phi.mat, Ex.Defined]
  | (n + 3), (m + 2) => simp [Coeff.Phi.mat, Ex.Defined]

theorem precession_defined (env : Nat → ℂ) (i : Nat) :
    Ex.Defined env (Coeff.P.arr i) ∧ Ex.Defined env (Coeff.P.arr0 i) := by
  match i with
  | 0 => simp [Coeff.P.arr, Coeff.P.arr0, Coeff.P.rT, Coeff.two_pi_i, Ex.Defined]
  | 1 => simp [Coeff.P.arr, Coeff.P.arr0, Coeff.P.rT, Coeff.two_pi_i, Ex.Defined]
  | 2 => simp [Coeff.P.arr, Coeff.P.arr0, Ex.Defined]
  | (n + 3) => simp [Coeff.P.arr, Coeff.P.arr0, Ex.Defined]

/-- phase offsets whose angle depends differentiably on the variable -/
noncomputable def famPhi (x0 : ℝ) (p : ℝ → ℝ) (cp : ℝ) (hp : HasDerivAt p cp x0) : OpFam x0 where
  op := fun x => .Phi ((p x : ℝ) : ℂ)
  slopes := [("phi", (cp : ℂ))]
  dpt := fun q _ w =>
    if q = "phi" then PS.mmul (fun i j => eval (envOf [((p x0 : ℝ) : ℂ)]) (d 0 (Coeff.Phi.mat i j))) w else 0
  exact := by
    intro e w w' hw
    let env : ℝ → Nat → ℂ := fun x => envOf [((p x : ℝ) : ℂ)]
    let c : Nat → ℂ := fun j => match j with | 0 => (cp : ℂ) | _ => 0
    have henv : ∀ j, HasDerivAt (fun x => env x j) (c j) x0 := by
      intro j
      match j with
      | 0 => simpa [env, envOf, c] using hp.ofReal_comp
      | (n + 1) => simpa [env, envOf, c] using hasDerivAt_const x0 (0 : ℂ)
    have hc : ∀ j, 1 ≤ j → c j = 0 := by
      intro j hj
      match j with
      | 0 => omega
      | (n + 1) => rfl
    have hcr : ∀ j, (starRingEnd ℂ) (c j) = c j := by
      intro j
      match j with
      | 0 => simp [c]
      | (n + 1) => simp [c]
    have h := mat_step Coeff.Phi.mat env c 1 x0 henv hc hcr (fun i j => phi_defined _ i j) w w' hw
    refine h.congr_deriv ?_
    have e1 : psSum 1 (fun l => PS.smul (c l) (PS.mmul (fun i j => eval (env x0) (d l (Coeff.Phi.mat i j))) (w x0)))
        = PS.smul (c 0) (PS.mmul (fun i j => eval (env x0) (d 0 (Coeff.Phi.mat i j))) (w x0)) := by
      apply PS.ext' <;> simp [psSum]
    rw [e1]
    simp only [pointOp, env, c, smul_eq_PSsmul, List.map_cons, List.map_nil, List.sum_cons, List.sum_nil, add_zero,
      if_true]
    rfl

/-- pure precession intervals whose duration and rate depend differentiably on the variable -/
noncomputable def famP (x0 : ℝ) (tau g : ℝ → ℝ) (c0 c1 : ℝ) (h0 : HasDerivAt tau c0 x0) (h1 : HasDerivAt g c1 x0) : OpFam x0 where
  op := fun x => .P ((tau x : ℝ) : ℂ) ((g x : ℝ) : ℂ)
  slopes := [("tau", (c0 : ℂ)), ("g", (c1 : ℂ))]
  dpt := fun q _ w =>
    let env := envOf [((tau x0 : ℝ) : ℂ), ((g x0 : ℝ) : ℂ)]
    if q = "tau" then PS.dmul (fun i => eval env (d 0 (Coeff.P.arr i))) w
    else if q = "g" then PS.dmul (fun i => eval env (d 1 (Coeff.P.arr i))) w else 0
  exact := by
    intro e w w' hw
    let env : ℝ → Nat → ℂ := fun x => envOf [((tau x : ℝ) : ℂ), ((g x : ℝ) : ℂ)]
    let c : Nat → ℂ := fun j => match j with | 0 => (c0 : ℂ) | 1 => (c1 : ℂ) | _ => 0
    have henv : ∀ j, HasDerivAt (fun x => env x j) (c j) x0 := by
      intro j
      match j with
      | 0 => simpa [env, envOf, c] using h0.ofReal_comp
      | 1 => simpa [env, envOf, c] using h1.ofReal_comp
      | (n + 2) => simpa [env, envOf, c] using hasDerivAt_const x0 (0 : ℂ)
    have hc : ∀ j, 2 ≤ j → c j = 0 := by
      intro j hj
      match j with
      | 0 => omega
      | 1 => omega
      | (n + 2) => rfl
    have hcr : ∀ j, (starRingEnd ℂ) (c j) = c j := by
      intro j
      match j with
      | 0 => simp [c]
      | 1 => simp [c]
      | (n + 2) => simp [c]
    have h := scal_step Coeff.P.arr Coeff.P.arr0 env c 2 x0 henv hc hcr (fun i => precession_defined _ i) e w w' hw
    rw [psSum_two] at h
    have hz : ∀ (env' : Nat → ℂ) (f : Ex → Ex), PS.dmul (fun i => eval env' (f (Coeff.P.arr0 i))) e = 0 ∨ True := fun _ _ => Or.inr trivial
    have hz0 : ∀ (env' : Nat → ℂ), PS.dmul (fun i => eval env' (Coeff.P.arr0 i)) e = 0 := by
      intro env'; apply PS.ext' <;> simp [PS.dmul, Coeff.P.arr0, Ex.eval]
    have hz1 : ∀ (env' : Nat → ℂ) (l : Nat), PS.dmul (fun i => eval env' (d l (Coeff.P.arr0 i))) e = 0 := by
      intro env' l; apply PS.ext' <;> simp [PS.dmul, Coeff.P.arr0, Ex.eval, Ex.d]
    simp only [hz0, hz1, PS.add_zero'] at h
    refine h.congr_deriv ?_
    simp only [pointOp, env, c, smul_eq_PSsmul, List.map_cons, List.map_nil, List.sum_cons, List.sum_nil, add_zero,
      if_true, String.reduceEq, if_false]

end EpgVerif.Props.C02
