import Mathlib.MeasureTheory.Integral.IntervalIntegral.FundThmCalculus
import Mathlib.Analysis.SpecialFunctions.Integrals.Basic
import EpgVerif.Tie.Diffusion
import EpgVerif.Props.C04
/-
  C05 — the diffusion operator attenuates by exp(-∫ k(t)ᵀ D k(t) dt): the code's b-matrix is the time
  integral of k kᵀ for a constant and for a linearly ramping wavenumber; scalar = isotropic tensor;
  k = 0 is not attenuated; attenuations compose along a pathway by adding b-matrices.
-/
namespace EpgVerif.Props.C05
open EpgVerif Diff5 Complex

/-- time integral of `k_i(s) k_j(s)` for a wavenumber ramping linearly from `a` to `a + d` over `[0, τ]` -/
theorem ramp_integral (τ a b da db : ℝ) (hτ : τ ≠ 0) :
    ∫ s in (0 : ℝ)..τ, (a + s / τ * da) * (b + s / τ * db)
      = a * b * τ + τ * (1 / 2 * (a * db) + 1 / 2 * (da * b) + 1 / 3 * (da * db)) := by
  have hderiv : ∀ x ∈ Set.uIcc (0 : ℝ) τ,
      HasDerivAt (fun s : ℝ => a * b * s + (a * db + da * b) * s ^ 2 / (2 * τ) + da * db * s ^ 3 / (3 * τ ^ 2))
        ((a + x / τ * da) * (b + x / τ * db)) x := by
    intro x _
    have h1 : HasDerivAt (fun s : ℝ => a * b * s) (a * b) x := by
      simpa using (hasDerivAt_id x).const_mul (a * b)
    have h2 : HasDerivAt (fun s : ℝ => (a * db + da * b) * s ^ 2 / (2 * τ)) ((a * db + da * b) * (2 * x) / (2 * τ)) x := by
      have := ((hasDerivAt_pow 2 x).const_mul (a * db + da * b)).div_const (2 * τ)
      simpa using this
    have h3 : HasDerivAt (fun s : ℝ => da * db * s ^ 3 / (3 * τ ^ 2)) (da * db * (3 * x ^ 2) / (3 * τ ^ 2)) x := by
      have := ((hasDerivAt_pow 3 x).const_mul (da * db)).div_const (3 * τ ^ 2)
      simpa using this
    have hval : a * b + (a * db + da * b) * (2 * x) / (2 * τ) + da * db * (3 * x ^ 2) / (3 * τ ^ 2)
        = (a + x / τ * da) * (b + x / τ * db) := by
      field_simp
      ring
    exact ((h1.add h2).add h3).congr_deriv hval
  rw [intervalIntegral.integral_eq_sub_of_hasDerivAt hderiv]
  · field_simp
    ring
  · apply Continuous.intervalIntegrable
    fun_prop

/-- constant wavenumber: `∫ a b ds = a b τ` -/
theorem const_integral (τ a b : ℝ) : ∫ _s in (0 : ℝ)..τ, a * b = a * b * τ := by
  simp; ring

/-- **the code's b-matrix for a ramp is the time integral of k kᵀ** (units: ms → s, rad/m → rad/mm) -/
theorem bmatRamp_is_integral (τ : ℝ) (hτ : τ ≠ 0) (k1 k2 : Nat → ℝ) (i j : Nat) :
    bmatRamp (τ : ℂ) (fun n => (k1 n : ℂ)) (fun n => (k2 n : ℂ)) i j
      = ((∫ s in (0 : ℝ)..(τ / 1000),
          (k1 i / 1000 + s / (τ / 1000) * (k2 i / 1000 - k1 i / 1000)) *
          (k1 j / 1000 + s / (τ / 1000) * (k2 j / 1000 - k1 j / 1000)) : ℝ) : ℂ) := by
  rw [ramp_integral _ _ _ _ _ (div_ne_zero hτ (by norm_num))]
  simp only [bmatRamp, milli, ofRat_C]
  push_cast
  ring

theorem bmatConst_is_integral (τ : ℝ) (k : Nat → ℝ) (i j : Nat) :
    bmatConst (τ : ℂ) (fun n => (k n : ℂ)) i j
      = ((∫ _s in (0 : ℝ)..(τ / 1000), (k i / 1000) * (k j / 1000) : ℝ) : ℂ) := by
  rw [const_integral]
  simp only [bmatConst, milli, ofRat_C]
  push_cast
  ring

/-- without a wavenumber change the ramp formula is the constant formula (the code's `allclose(kd, 0)` shortcut is
    consistent) -/
theorem bmatRamp_no_change (τ : ℂ) (k : Nat → ℂ) (i j : Nat) : bmatRamp τ k k i j = bmatConst τ k i j := by
  simp [bmatRamp, bmatConst]

theorem sumTo_succ (d : Nat) (f : Nat → ℂ) : sumTo (d + 1) f = sumTo d f + f d := by
  simp [sumTo, List.range_succ]

theorem sumTo_add (d : Nat) (f g : Nat → ℂ) : sumTo d (fun i => f i + g i) = sumTo d f + sumTo d g := by
  induction d with
  | zero => simp [sumTo]
  | succ d ih => rw [sumTo_succ, sumTo_succ, sumTo_succ, ih]; ring

theorem sumTo_zero (d : Nat) : sumTo d (fun _ => (0 : ℂ)) = 0 := by
  induction d with
  | zero => simp [sumTo]
  | succ d ih => rw [sumTo_succ, ih]; simp

theorem sumTo_congr (d : Nat) (f g : Nat → ℂ) (h : ∀ i, i < d → f i = g i) : sumTo d f = sumTo d g := by
  induction d with
  | zero => simp [sumTo]
  | succ d ih =>
    rw [sumTo_succ, sumTo_succ, ih (fun i hi => h i (Nat.lt_succ_of_lt hi)), h d (Nat.lt_succ_self d)]

/-- **a scalar diffusivity is the isotropic tensor** -/
theorem scalar_is_isotropic (d : Nat) (b : Nat → Nat → ℂ) (D : ℂ) :
    attScalar d b D = attTensor d b (fun i j => if i = j then D else 0) := by
  unfold attScalar attTensor
  congr 2
  have : ∀ i, i < d → sumTo d (fun j => b i j * (if i = j then D else 0)) = b i i * D := by
    intro i hi
    induction d with
    | zero => omega
    | succ d ih =>
      rw [sumTo_succ]
      by_cases hid : i = d
      · subst hid
        have : sumTo i (fun j => b i j * (if i = j then D else 0)) = 0 := by
          rw [sumTo_congr i _ (fun _ => 0) (fun j hj => by
            have : i ≠ j := by omega
            simp [this])]
          exact sumTo_zero i
        rw [this]; simp
      · have hlt : i < d := by omega
        rw [ih hlt]
        simp [hid]
  rw [sumTo_congr d _ (fun i => b i i * D) this]
  clear this
  induction d with
  | zero => simp [sumTo]
  | succ d ih =>
    rw [sumTo_succ, sumTo_succ, neg_add, neg_add, add_mul, ih]; ring

/-- **the zero wavenumber is never attenuated in a gradient-free interval** -/
theorem zero_wavenumber_unattenuated (d : Nat) (τ : ℂ) (D : Diffusivity ℂ) :
    att d (bmatConst τ (fun _ => 0)) D = 1 := by
  cases D with
  | scalar D => simp [att, attScalar, bmatConst, sumTo_zero]
  | tensor D => simp [att, attTensor, bmatConst, sumTo_zero]

/-- **attenuations multiply along a pathway, i.e. b-matrices add** -/
theorem att_mul (d : Nat) (b1 b2 : Nat → Nat → ℂ) (D : Diffusivity ℂ) :
    att d b1 D * att d b2 D = att d (fun i j => b1 i j + b2 i j) D := by
  cases D with
  | scalar D =>
    simp only [att, attScalar, expc_C]
    rw [← Complex.exp_add, sumTo_add]; congr 1; ring
  | tensor D =>
    simp only [att, attTensor, expc_C]
    rw [← Complex.exp_add]; congr 1
    have : ∀ i, sumTo d (fun j => (b1 i j + b2 i j) * D i j) = sumTo d (fun j => b1 i j * D i j) + sumTo d (fun j => b2 i j * D i j) := by
      intro i; rw [← sumTo_add]; congr 1; funext j; ring
    simp only [this, sumTo_add]; ring

/-- consecutive gradient-free intervals at the same wavenumber: durations add -/
theorem const_intervals_add (τ1 τ2 : ℂ) (k : Nat → ℂ) (i j : Nat) :
    bmatConst τ1 k i j + bmatConst τ2 k i j = bmatConst (τ1 + τ2) k i j := by
  simp [bmatConst]; ring

/-! ### the operator on the coordinate table -/
section table
open EpgVerif.Props.C04 NDS
variable {κ : Type} [DecidableEq κ] [AddCommGroup κ]
local notation "cj" => starRingEnd ℂ

/-- `D._apply`: every stored transverse state is multiplied by the attenuation of its own ramp `k − shift → k`,
    every longitudinal state by that of its constant wavenumber; nothing else changes -/
theorem get_diffuse (d : Nat) (wave : κ → Nat → ℂ) (τ : ℂ) (D : Diffusivity ℂ) (shift : Option (Nat → ℂ))
    (s : NDS κ ℂ) (h : WFN s) (k : κ) :
    let DL := fun k => att d (bmatConst τ (wave k)) D
    let DT := fun k => match shift with
      | none => DL k
      | some g => att d (bmatRamp τ (fun n => wave k n - g n) (wave k)) D
    (diffuse d wave τ D shift s).get k
      = ⟨DT k * (s.get k).fp, cj (DT (-k)) * (s.get k).fm, DL k * (s.get k).z⟩ := by
  intro DL DT
  unfold diffuse
  rw [get_ofFun]
  have hfm : (s.get k).fm = cj (s.get (-k)).fp := h.fsym k
  by_cases hk : k ∈ s.keys
  · cases shift <;> simp only [hk, if_true, conj_C, map_mul, hfm, DT, DL]
  · have e := get_of_not_mem s k hk
    simp only [hk, if_false, e]
    apply PS.ext' <;> simp

end table

end EpgVerif.Props.C05
