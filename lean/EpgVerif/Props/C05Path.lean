import Mathlib.Data.List.Sections
import Mathlib.Algebra.Module.LinearMap.End
import EpgVerif.Props.C05
import EpgVerif.Props.C02Run
/-
  C05 — coherence pathways.  Every operator of a diffusion-weighted sequence acts linearly on the coordinate table
  (RF pulse = sum of nine elementary transitions between the F+, F-, Z components, shift = relocation, diffusion =
  multiplication of every state by its own attenuation).  The product of sums is the sum over all choices
  (pathways) of the products: the simulated state is the sum over all coherence pathways of the pathway operator,
  whose attenuation factors multiply, i.e. whose b-matrices add (`att_mul`).
-/
namespace EpgVerif.Props.C05
open EpgVerif EpgVerif.Props.C02 EpgVerif.Props.C04

/-- **product of sums = sum over sections of products**, in any (non-commutative) semiring -/
theorem prod_map_sum_sections {R : Type} [Semiring R] (L : List (List R)) :
    (L.map List.sum).prod = ((List.sections L).map List.prod).sum := by
  induction L with
  | nil => simp [List.sections]
  | cons l L ih =>
    simp only [List.map_cons, List.prod_cons, ih, List.sections]
    induction (List.sections L) with
    | nil => simp
    | cons s S ihS =>
      simp only [List.map_cons, List.sum_cons, List.flatMap_cons, List.map_append, List.sum_append, mul_add, ihS]
      congr 1
      simp only [List.map_map, Function.comp_def, List.prod_cons]
      have := List.sum_map_mul_right l id s.prod
      simpa using this.symm

variable {κ : Type} [DecidableEq κ] [AddCommGroup κ]

/-- state-wise 3×3 matrix as a linear map on coordinate tables -/
noncomputable def ptLin (m : Nat → Nat → ℂ) : (κ → PS ℂ) →ₗ[ℂ] (κ → PS ℂ) where
  toFun f := fun k => PS.mmul m (f k)
  map_add' f g := by
    funext k; apply PS.ext' <;> simp [PS.mmul] <;> ring
  map_smul' c f := by
    funext k; apply PS.ext' <;> simp [PS.mmul, smul_eq_PSsmul, PS.smul] <;> ring

/-- the elementary transition "component j → component i with amplitude c" -/
def unitMat (i j : Nat) (c : ℂ) : Nat → Nat → ℂ := fun a b => if a = i ∧ b = j then c else 0

/-- relocation of the states by a shift -/
noncomputable def shiftLin (g : κ) : (κ → PS ℂ) →ₗ[ℂ] (κ → PS ℂ) where
  toFun f := shiftF g f
  map_add' f g' := by funext k; apply PS.ext' <;> simp [shiftF]
  map_smul' c f := by funext k; apply PS.ext' <;> simp [shiftF, smul_eq_PSsmul, PS.smul]

/-- multiplication of every state by its own diagonal factors (diffusion attenuation, relaxation without recovery) -/
noncomputable def diagLin (a : κ → Nat → ℂ) : (κ → PS ℂ) →ₗ[ℂ] (κ → PS ℂ) where
  toFun f := fun k => PS.dmul (a k) (f k)
  map_add' f g := by funext k; apply PS.ext' <;> simp [PS.dmul] <;> ring
  map_smul' c f := by funext k; apply PS.ext' <;> simp [PS.dmul, smul_eq_PSsmul, PS.smul] <;> ring

/-- **an RF pulse is the sum of its nine elementary transitions** -/
theorem ptLin_eq_sum (m : Nat → Nat → ℂ) :
    (ptLin (κ := κ) m) = (((List.range 3).flatMap (fun i => (List.range 3).map (fun j => ptLin (κ := κ) (unitMat i j (m i j))))).sum) := by
  apply LinearMap.ext
  intro f
  funext k
  simp only [List.range_succ, List.range_zero, List.nil_append, List.flatMap_cons, List.flatMap_nil, List.cons_append,
    List.map_cons, List.map_nil, List.append_nil, List.sum_cons, List.sum_nil, add_zero, LinearMap.add_apply,
    Pi.add_apply]
  apply PS.ext' <;> simp [ptLin, PS.mmul, unitMat, add_assoc]

/-- a step of the sequence, as the list of its elementary linear pieces -/
inductive PStep (κ : Type) where
  | rf (m : Nat → Nat → ℂ)
  | shift (g : κ)
  | diag (a : κ → Nat → ℂ)

noncomputable def PStep.op : PStep κ → Module.End ℂ (κ → PS ℂ)
  | .rf m => ptLin m
  | .shift g => shiftLin g
  | .diag a => diagLin a

noncomputable def PStep.pieces : PStep κ → List (Module.End ℂ (κ → PS ℂ))
  | .rf m => (List.range 3).flatMap (fun i => (List.range 3).map (fun j => ptLin (unitMat i j (m i j))))
  | .shift g => [shiftLin g]
  | .diag a => [diagLin a]

theorem PStep.op_eq_sum (st : PStep κ) : st.op = st.pieces.sum := by
  cases st with
  | rf m => exact ptLin_eq_sum m
  | shift g => simp [PStep.op, PStep.pieces]
  | diag a => simp [PStep.op, PStep.pieces]

/-- **C05, pathway expansion**: the operator of a whole sequence (last step leftmost) is the sum, over all choices of one
    elementary piece per step — the coherence pathways —, of the composed pieces -/
theorem pathway_expansion (prog : List (PStep κ)) :
    (prog.map PStep.op).prod = ((List.sections (prog.map PStep.pieces)).map List.prod).sum := by
  rw [← prod_map_sum_sections, List.map_map]
  congr 1
  apply List.map_congr_left
  intro st _
  exact st.op_eq_sum

/-- along a pathway the attenuations of successive intervals multiply: two diagonal steps compose into the diagonal step
    with the products of their factors (so the exponents, i.e. the b-matrices, add — `att_mul`) -/
theorem diag_comp (a b : κ → Nat → ℂ) :
    (diagLin a : Module.End ℂ (κ → PS ℂ)) * diagLin b = diagLin (fun k i => a k i * b k i) := by
  apply LinearMap.ext
  intro f
  funext k
  apply PS.ext' <;> simp [diagLin, PS.dmul, mul_assoc]

/-- the diffusion step of the table model is such a diagonal step on the transverse and longitudinal components
    (on a well-formed table; `get_diffuse`) -/
theorem diffuse_is_diag (d : Nat) (wave : κ → Nat → ℂ) (τ : ℂ) (D : Diff5.Diffusivity ℂ) (shift : Option (Nat → ℂ))
    (s : NDS κ ℂ) (h : WFN s) :
    (Diff5.diffuse d wave τ D shift s).get =
      diagLin (fun k i =>
        let DL := Diff5.att d (Diff5.bmatConst τ (wave k)) D
        let DT := fun k => match shift with
          | none => Diff5.att d (Diff5.bmatConst τ (wave k)) D
          | some g => Diff5.att d (Diff5.bmatRamp τ (fun n => wave k n - g n) (wave k)) D
        match i with | 0 => DT k | 1 => (starRingEnd ℂ) (DT (-k)) | _ => DL) s.get := by
  funext k
  rw [get_diffuse d wave τ D shift s h k]
  cases shift <;> simp [diagLin, PS.dmul]

end EpgVerif.Props.C05
