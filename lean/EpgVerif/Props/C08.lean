import EpgVerif.Lemmas.OpsLemmas
import EpgVerif.Lemmas.ExTac
/-
  C08 — state matrices stay well-formed under every operator (1-D state model: T, Phi, E, P,
  R, 1-D shift with and without truncation, Spoiler, Reset, PD, Wait).
-/
namespace EpgVerif.Props.C08
open Complex EpgVerif SM

/-- conjugation on ℂ, short name -/
local notation "cj" => starRingEnd ℂ

/-- well-formed state matrix: `2n+1` stored rows (centre = index n by construction of `get`),
    `F-(k) = conj F+(-k)`, `Z(-k) = conj Z(k)`, equilibrium `[0,0,pd]` (pd real) at k = 0 only. -/
structure WF (s : SM ℂ) : Prop where
  sized : s.Sized
  fsym : ∀ k, (s.get k).fm = cj (s.get (-k)).fp
  zsym : ∀ k, (s.get (-k)).z = cj (s.get k).z
  eq : ∃ pd : ℝ, EqWF s (pd : ℂ)

/-- conjugation pattern required of a 3×3 operator (`matrix_format`): `M[σi,σj] = conj M[i,j]`,
    σ swapping F+ and F- -/
def MatCompat (m : Nat → Nat → ℂ) : Prop :=
  m 1 1 = cj (m 0 0) ∧ m 1 0 = cj (m 0 1) ∧ m 1 2 = cj (m 0 2) ∧
  m 2 1 = cj (m 2 0) ∧ m 2 2 = cj (m 2 2)

/-- conjugation pattern of a scalar operator (`scalar_format`) -/
def ArrCompat (a : Nat → ℂ) : Prop := a 0 = cj (a 1) ∧ a 2 = cj (a 2)

theorem sized_mk' (n : Nat) (f g : Int → PS ℂ) : (mk' n f g).Sized := by
  simp [Sized, mk']

private theorem inRange_neg (n : Nat) (k : Int) : inRange n (-k) = inRange n k := by
  simp only [inRange]; rw [Bool.eq_iff_iff]; simp; omega

/-- a state-wise map that respects the conjugation pattern preserves well-formedness -/
theorem wf_pointwise (s : SM ℂ) (h : WF s) (n' : Nat) (f : Int → PS ℂ)
    (hf : ∀ k, (f k).fm = cj (f (-k)).fp) (hz : ∀ k, (f (-k)).z = cj (f k).z) :
    WF (mk' n' f s.geq) := by
  refine ⟨sized_mk' _ _ _, ?_, ?_, ?_⟩
  · intro k; rw [get_mk', get_mk', inRange_neg]
    by_cases hr : inRange n' k = true <;> simp [hr, hf k]
  · intro k; rw [get_mk', get_mk', inRange_neg]
    by_cases hr : inRange n' k = true <;> simp [hr, hz k]
  · obtain ⟨pd, hpd⟩ := h.eq; exact ⟨pd, eqwf_mk' hpd _ _⟩

theorem wf_matApply (m : Nat → Nat → ℂ) (hm : MatCompat m) (s : SM ℂ) (h : WF s) :
    WF (matApply m s) := by
  obtain ⟨h11, h10, h12, h21, h22⟩ := hm
  apply wf_pointwise s h
  · intro k
    have e1 := h.fsym k
    have e2 := h.fsym (-k)
    have e3 := h.zsym k
    simp only [neg_neg] at e2
    simp only [PS.mmul, map_add, map_mul, h11, h10, h12, e1, e2, e3, Complex.conj_conj]
    ring
  · intro k
    have e1 := h.fsym k
    have e2 := h.fsym (-k)
    have e3 := h.zsym k
    simp only [neg_neg] at e2
    have h22' : cj (m 2 2) = m 2 2 := h22.symm
    simp only [PS.mmul, map_add, map_mul, e1, e2, e3, h21, h22', Complex.conj_conj]
    ring

theorem wf_scalApply (a a0 : Nat → ℂ) (ha : ArrCompat a) (ha0 : ArrCompat a0) (s : SM ℂ) (h : WF s) :
    WF (scalApply a a0 s) := by
  obtain ⟨pd, hpd⟩ := h.eq
  have hg : ∀ k, s.geq k = if k = 0 then (⟨0, 0, (pd : ℂ)⟩ : PS ℂ) else 0 := hpd
  apply wf_pointwise s h
  · intro k
    have e2 := h.fsym k
    rw [hg k, hg (-k)]
    by_cases hk : k = 0
    · subst hk; simp [PS.dmul, e2, ha.1]
    · have : -k ≠ 0 := by omega
      simp [hk, this, PS.dmul, e2, ha.1]
  · intro k
    have e3 := h.zsym k
    rw [hg k, hg (-k)]
    by_cases hk : k = 0
    · subst hk
      simp only [neg_zero, if_true, PS.dmul, PS.add_z, map_add, map_mul, Complex.conj_ofReal]
      simp only [neg_zero] at e3
      rw [← ha.2, ← ha0.2, ← e3]
    · have : -k ≠ 0 := by omega
      simp only [hk, this, if_false, PS.dmul, PS.add_z, PS.zero_z, mul_zero, add_zero, map_mul, e3]
      rw [← ha.2]

theorem wf_resize (s : SM ℂ) (h : WF s) (n' : Nat) : WF (s.resize n') := by
  unfold resize
  refine ⟨sized_mk' _ _ _, ?_, ?_, ?_⟩
  · intro k; rw [get_mk', get_mk', inRange_neg]
    by_cases hr : inRange n' k = true <;> simp [hr, h.fsym k]
  · intro k; rw [get_mk', get_mk', inRange_neg]
    by_cases hr : inRange n' k = true <;> simp [hr, h.zsym k]
  · obtain ⟨pd, hpd⟩ := h.eq; exact ⟨pd, eqwf_mk' hpd _ _⟩

theorem wf_shiftCore (s : SM ℂ) (h : WF s) (m : Int) : WF (shiftCore s m) := by
  unfold shiftCore
  apply wf_pointwise s h
  · intro k
    have := h.fsym (k + m)
    simp only [this]; congr 3; ring
  · intro k; exact h.zsym k

/-- 1-D shift, with or without truncation (`max_nstate` option / `nmax` argument) -/
theorem wf_shift1d (o : Opts) (m : Int) (nmax : Option Nat) (s : SM ℂ) (h : WF s) :
    WF (shift1d o m nmax s) := by
  unfold shift1d
  exact wf_shiftCore _ (wf_resize s h _) m

/-- coefficients of RF pulses respect the conjugation pattern (real flip angle and phase) -/
theorem coeffT_compat (α φ : ℝ) : MatCompat (coeffT (α : ℂ) (φ : ℂ)) := by
  have hr : ∀ i, cj (envOf [(α : ℂ), (φ : ℂ)] i) = envOf [(α : ℂ), (φ : ℂ)] i := by
    intro i
    match i with
    | 0 => simp [envOf]
    | 1 => simp [envOf]
    | (n + 2) => simp [envOf]
  refine ⟨?_, ?_, ?_, ?_, ?_⟩ <;>
  · simp only [coeffT]
    ex_unfold
    push_cast
    ex_conj
    try ring_nf

theorem coeffPhi_compat (φ : ℝ) : MatCompat (coeffPhi (φ : ℂ)) := by
  have hr : ∀ i, cj (envOf [(φ : ℂ)] i) = envOf [(φ : ℂ)] i := by
    intro i
    match i with
    | 0 => simp [envOf]
    | (n + 1) => simp [envOf]
  refine ⟨?_, ?_, ?_, ?_, ?_⟩ <;>
  · simp only [coeffPhi]
    ex_unfold
    push_cast
    try ex_conj
    try ring_nf

/-- real-parameter side conditions of the property's quantifier -/
def RealParams : Op ℂ → Prop
  | .T a p => cj a = a ∧ cj p = p
  | .Phi p => cj p = p
  | .E tau T1 T2 g => cj tau = tau ∧ cj T1 = T1 ∧ cj T2 = T2 ∧ cj g = g
  | .P tau g => cj tau = tau ∧ cj g = g
  | .R _ rL r0 => cj rL = rL ∧ ∀ r, r0 = some r → cj r = r
  | .PD pd _ => cj pd = pd
  | _ => True


private theorem envreal (l : List ℂ) (hl : ∀ x ∈ l, cj x = x) : ∀ i, cj (envOf l i) = envOf l i := by
  intro i
  unfold envOf
  by_cases hi : i < l.length
  · have : l.getD i 0 = l[i] := by simp [List.getD, hi]
    rw [this]; exact hl _ (List.getElem_mem hi)
  · have : l.getD i 0 = 0 := by simp [List.getD, not_lt.mp hi]
    rw [this]; simp

theorem coeffE_compat (tau T1 T2 g : ℂ) (h : RealParams (.E tau T1 T2 g)) :
    ArrCompat (fun i => Ex.eval (envOf [tau, T1, T2, g]) (Coeff.E.arr i)) ∧
    ArrCompat (fun i => Ex.eval (envOf [tau, T1, T2, g]) (Coeff.E.arr0 i)) := by
  obtain ⟨h0, h1, h2, h3⟩ := h
  have hr := envreal [tau, T1, T2, g] (by simp; exact ⟨h0, h1, h2, h3⟩)
  refine ⟨⟨?_, ?_⟩, ⟨?_, ?_⟩⟩ <;>
  · ex_unfold
    try push_cast
    try ex_conj

theorem coeffP_compat (tau g : ℂ) (h : RealParams (.P tau g)) :
    ArrCompat (fun i => Ex.eval (envOf [tau, g]) (Coeff.P.arr i)) := by
  obtain ⟨h0, h1⟩ := h
  have hr := envreal [tau, g] (by simp; exact ⟨h0, h1⟩)
  refine ⟨?_, ?_⟩ <;>
  · ex_unfold
    try push_cast
    try ex_conj

theorem coeffR_compat (rT rL r : ℂ) (hL : cj rL = rL) (h0 : cj r = r) :
    ArrCompat (fun i => Ex.eval (envOf [rT, rL, r]) (Coeff.R.arr i)) ∧
    ArrCompat (fun i => Ex.eval (envOf [rT, rL, r]) (Coeff.R.arr0 i)) := by
  have e1 : envOf [rT, rL, r] 1 = rL := rfl
  have e2 : envOf [rT, rL, r] 2 = r := rfl
  refine ⟨⟨?_, ?_⟩, ⟨?_, ?_⟩⟩ <;>
  · ex_unfold
    try push_cast
    try simp only [e1, e2]
    try ex_conj

private theorem zero_compat : ArrCompat (fun _ => (0 : ℂ)) := by simp [ArrCompat]

/-- **C08, one operator** (all constructors of the 1-D model, any truncation option). -/
theorem wf_applyOp (o : Opts) (op : Op ℂ) (hp : RealParams op) (s : SM ℂ) (h : WF s) :
    WF (applyOp o op s) := by
  cases op with
  | T a p =>
    obtain ⟨ha, hp'⟩ := hp
    obtain ⟨a', rfl⟩ : ∃ r : ℝ, (r : ℂ) = a := ⟨a.re, (Complex.conj_eq_iff_re.mp ha)⟩
    obtain ⟨p', rfl⟩ : ∃ r : ℝ, (r : ℂ) = p := ⟨p.re, (Complex.conj_eq_iff_re.mp hp')⟩
    exact wf_matApply _ (coeffT_compat a' p') s h
  | Phi p =>
    obtain ⟨p', rfl⟩ : ∃ r : ℝ, (r : ℂ) = p := ⟨p.re, (Complex.conj_eq_iff_re.mp hp)⟩
    exact wf_matApply _ (coeffPhi_compat p') s h
  | E tau T1 T2 g =>
    have := coeffE_compat tau T1 T2 g hp
    exact wf_scalApply _ _ this.1 this.2 s h
  | P tau g => exact wf_scalApply _ _ (coeffP_compat tau g hp) zero_compat s h
  | R rT rL r0 =>
    cases r0 with
    | none =>
      have := coeffR_compat rT rL 0 hp.1 (by simp)
      exact wf_scalApply _ _ this.1 zero_compat s h
    | some r =>
      have := coeffR_compat rT rL r hp.1 (hp.2 r rfl)
      exact wf_scalApply _ _ this.1 this.2 s h
  | S k nmax => exact wf_shift1d o k nmax s h
  | Spoiler =>
    simp only [applyOp]
    apply wf_pointwise s h
    · intro k; simp
    · intro k; exact h.zsym k
  | Reset =>
    obtain ⟨pd, hpd⟩ := h.eq
    have h0 : s.geq 0 = ⟨0, 0, (pd : ℂ)⟩ := by rw [hpd 0]; simp
    refine ⟨sized_mk' _ _ _, ?_, ?_, ⟨pd, ?_⟩⟩
    · intro k; simp only [applyOp]; rw [get_mk', get_mk', inRange_neg, h0]
      by_cases hr : inRange 0 k = true <;> simp [hr]
    · intro k; simp only [applyOp]; rw [get_mk', get_mk', inRange_neg, h0]
      by_cases hr : inRange 0 k = true <;> simp [hr]
    · intro k; simp only [applyOp]; rw [geq_mk', h0]
      by_cases hk : k = 0
      · subst hk; simp [inRange_zero]
      · have : inRange 0 k = false := by simp [inRange]; omega
        simp [hk, this]
  | PD pd reset =>
    obtain ⟨pd', rfl⟩ : ∃ r : ℝ, (r : ℂ) = pd := ⟨pd.re, (Complex.conj_eq_iff_re.mp hp)⟩
    have he : ∀ k : ℤ, (if -k = 0 then (⟨0, 0, (pd' : ℂ)⟩ : PS ℂ) else 0) = if k = 0 then ⟨0, 0, (pd' : ℂ)⟩ else 0 := by
      intro k; by_cases hk : k = 0
      · subst hk; simp
      · have : -k ≠ 0 := by omega
        simp [hk, this]
    refine ⟨sized_mk' _ _ _, ?_, ?_, ⟨pd', ?_⟩⟩
    · intro k; simp only [applyOp]; rw [get_mk', get_mk', inRange_neg]
      cases reset
      · by_cases hr : inRange s.n k = true <;> simp [hr, h.fsym k]
      · simp only [if_true, he]
        by_cases hr : inRange s.n k = true <;> by_cases hk : k = 0 <;> simp [hr, hk, inRange_zero]
    · intro k; simp only [applyOp]; rw [get_mk', get_mk', inRange_neg]
      cases reset
      · by_cases hr : inRange s.n k = true <;> simp [hr, h.zsym k]
      · simp only [if_true, he]
        by_cases hr : inRange s.n k = true <;> by_cases hk : k = 0 <;> simp [hr, hk, inRange_zero]
    · intro k; simp only [applyOp]; rw [geq_mk']
      by_cases hk : k = 0
      · subst hk; simp [inRange_zero]
      · simp [hk]
  | Wait => exact h

/-- **C08 for every program**: any sequence (any length, order, repetition) of the modelled
    operators maps well-formed state matrices to well-formed state matrices. -/
theorem wf_run (o : Opts) (ops : List (Op ℂ)) (hp : ∀ op ∈ ops, RealParams op) (s : SM ℂ) (h : WF s) :
    WF (run o ops s) := by
  induction ops generalizing s with
  | nil => exact h
  | cons op ops ih =>
    exact ih (fun x hx => hp x (List.mem_cons_of_mem _ hx)) _
      (wf_applyOp o op (hp op List.mem_cons_self) s h)

/-- only PD changes the equilibrium -/
theorem only_PD_changes_equilibrium (o : Opts) (op : Op ℂ) (hnot : ∀ pd r, op ≠ .PD pd r)
    (s : SM ℂ) (pd : ℂ) (h : EqWF s pd) : EqWF (applyOp o op s) pd := by
  cases op with
  | PD pd' r => exact absurd rfl (hnot pd' r)
  | Reset =>
    have h0 : s.geq 0 = ⟨0, 0, pd⟩ := by rw [h 0]; simp
    intro k; simp only [applyOp]; rw [geq_mk', h0]
    by_cases hk : k = 0
    · subst hk; simp [inRange_zero]
    · have : inRange 0 k = false := by simp [inRange]; omega
      simp [hk, this]
  | S k nmax =>
    intro j
    simp only [applyOp, shift1d, shiftCore]
    rw [geq_mk', geq_resize, h j]
    by_cases hj : j = 0
    · subst hj; simp [inRange_zero]
    · simp [hj]
  | Wait => exact h
  | T a p => exact eqwf_mk' h _ _
  | Phi p => exact eqwf_mk' h _ _
  | E a b c d => exact eqwf_mk' h _ _
  | P a b => exact eqwf_mk' h _ _
  | R a b c => exact eqwf_mk' h _ _
  | Spoiler => exact eqwf_mk' h _ _

/-- the hypotheses are satisfiable: the default initial state is well-formed -/
theorem wf_init (pd : ℝ) : WF (SM.init (pd : ℂ)) := by
  refine ⟨sized_mk' _ _ _, ?_, ?_, ⟨pd, ?_⟩⟩
  · intro k; unfold SM.init; rw [get_mk', get_mk', inRange_neg]
    by_cases hr : inRange 0 k = true <;> simp [hr]
  · intro k; unfold SM.init; rw [get_mk', get_mk', inRange_neg]
    by_cases hr : inRange 0 k = true <;> simp [hr]
  · intro k; unfold SM.init; rw [geq_mk']
    by_cases hk : k = 0
    · subst hk; simp [inRange_zero]
    · have : inRange 0 k = false := by simp [inRange]; omega
      simp [hk, this]

end EpgVerif.Props.C08
