import EpgVerif.Props.C03P
import EpgVerif.Props.C03R
import EpgVerif.Props.C03Diag
import EpgVerif.Props.C03Phi
/-
  C03, the diagonal pair (a, a) for the precession operator P(tau, g) and the generic relaxation operator R(rT, rL, r0)
  with real parameters: one variable drives all parameters through (non-linear) expressions.
-/
namespace EpgVerif.Props.C03
open EpgVerif Diff Ex Finset EpgVerif.Props.C02

noncomputable def pDOp1 (env : Nat → ℂ) (a : Var) (la l2 : List (Param × ℂ)) : DOp ℂ (PS ℂ × PS ℂ) where
  derive0 X := (PS.dmul (fun i => eval env (Coeff.P.arr i)) X.1 + PS.dmul (fun i => eval env (Coeff.P.arr0 i)) X.2, X.2)
  derive1 p X := (PS.dmul (fun i => eval env (d (pIdx p) (Coeff.P.arr i))) X.1
                  + PS.dmul (fun i => eval env (d (pIdx p) (Coeff.P.arr0 i))) X.2, 0)
  derive2 pp X := (PS.dmul (fun i => eval env (d (pIdx pp.2) (d (pIdx pp.1) (Coeff.P.arr i)))) X.1
                  + PS.dmul (fun i => eval env (d (pIdx pp.2) (d (pIdx pp.1) (Coeff.P.arr0 i)))) X.2, 0)
  order1 := [(a, la)]
  order2 := [((a, a), l2)]
  auto := false
  P2 := [("g", "g"), ("g", "tau"), ("tau", "tau")]

theorem P_diag_partial_exact_nl (par sa : Nat → ℝ → ℝ) (c2 : Nat → ℝ) (y0 : ℝ) (a : Var)
    (hpar : ∀ j, j < 2 → HasDerivAt (par j) (sa j y0) y0) (hsa : ∀ j, j < 2 → HasDerivAt (sa j) (c2 j) y0)
    (e : PS ℂ) (s Ja : ℝ → PS ℂ) (H : PS ℂ) (hs : PSHasDeriv s (Ja y0) y0) (hJ : PSHasDeriv Ja H y0) :
    let env := fun (y : ℝ) (j : Nat) => if j < 2 then ((par j y : ℝ) : ℂ) else 0
    PSHasDeriv (fun y => PS.dmul (fun i => eval (env y) (Coeff.P.arr i)) (Ja y)
        + psSum 2 (fun p => PS.smul ((sa p y : ℝ) : ℂ)
            (PS.dmul (fun i => eval (env y) (d p (Coeff.P.arr i))) (s y) + PS.dmul (fun i => eval (env y) (d p (Coeff.P.arr0 i))) e)))
      (Diff.val (applyOrder2 (modCar (K := ℂ))
          (pDOp1 (env y0) a [("tau", (((sa 0 y0 : ℝ) : ℂ))), ("g", (((sa 1 y0 : ℝ) : ℂ)))] [("tau", ((c2 0 : ℝ) : ℂ)), ("g", ((c2 1 : ℝ) : ℂ))])
          (s y0, e) [(a, (Ja y0, 0))] [((a, a), (H, 0))]) (a, a)).1 y0 := by
  intro env
  show PSHasDeriv _ (Diff.val (applyOrder2 _ (pDOp1 (fun j => if j < 2 then ((par j y0 : ℝ) : ℂ) else 0) a _ _) _ _ _) (a, a)).1 y0
  set op := pDOp1 (fun j => if j < 2 then ((par j y0 : ℝ) : ℂ) else 0) a [("tau", (((sa 0 y0 : ℝ) : ℂ))), ("g", (((sa 1 y0 : ℝ) : ℂ)))] [("tau", ((c2 0 : ℝ) : ℂ)), ("g", ((c2 1 : ℝ) : ℂ))] with hop
  have h0 : op.derive0 0 = 0 := by
    show ((_ : PS ℂ), (_ : PS ℂ)) = 0
    ext <;> simp [PS.dmul]
  rw [diagVar_value op a _ _ rfl rfl rfl h0]
  have hd : ∀ i, Defined (fun j => if j < 2 then ((par j y0 : ℝ) : ℂ) else 0) (Coeff.P.arr i) ∧ Defined (fun j => if j < 2 then ((par j y0 : ℝ) : ℂ) else 0) (Coeff.P.arr0 i) := fun i => precession_defined _ i
  have hm := scal_mixed_step Coeff.P.arr Coeff.P.arr0 2 par sa (fun j => sa j y0) c2 y0 hpar hsa hd e s Ja (Ja y0) H hs hJ
  refine hm.congr_deriv ?_
  have s_tau_tau : supported op "tau" "tau" = true := by simp (config := {decide := true}) [supported, op, pDOp1]
  have s_tau_g : supported op "tau" "g" = true := by simp (config := {decide := true}) [supported, op, pDOp1]
  have s_g_tau : supported op "g" "tau" = true := by simp (config := {decide := true}) [supported, op, pDOp1]
  have s_g_g : supported op "g" "g" = true := by simp (config := {decide := true}) [supported, op, pDOp1]
  have p_tau_tau : pair "tau" "tau" = ("tau", "tau") := by decide
  have p_tau_g : pair "tau" "g" = ("g", "tau") := by decide
  have p_g_tau : pair "g" "tau" = ("g", "tau") := by decide
  have p_g_g : pair "g" "g" = ("g", "g") := by decide
  have y100 := P_mixed_symm (fun j => if j < 2 then ((par j y0 : ℝ) : ℂ) else 0) 1 0 0 (by norm_num) (by norm_num) (by norm_num)
  have y101 := P_mixed_symm (fun j => if j < 2 then ((par j y0 : ℝ) : ℂ) else 0) 1 0 1 (by norm_num) (by norm_num) (by norm_num)
  have y102 := P_mixed_symm (fun j => if j < 2 then ((par j y0 : ℝ) : ℂ) else 0) 1 0 2 (by norm_num) (by norm_num) (by norm_num)
  simp only [List.map_cons, List.map_nil, List.sum_cons, List.sum_nil, add_zero, s_tau_tau, s_tau_g, s_g_tau, s_g_g,
    p_tau_tau, p_tau_g, p_g_tau, p_g_g,
    if_true, Bool.false_eq_true, if_false, Prod.fst_add, Prod.smul_fst, Prod.fst_zero, psSum_two]
  simp (config := {decide := true}) only [op, pDOp1, pIdx, String.reduceEq, if_true, if_false, smul_eq_PSsmul, id]
  apply PS.ext' <;>
  · simp only [PS.dmul, PS.smul, PS.add_fp, PS.add_fm, PS.add_z, PS.zero_fp, PS.zero_fm, PS.zero_z, psSum,
      Finset.sum_range_succ, Finset.sum_range_zero, zero_add, y100.1, y100.2, y101.1, y101.2, y102.1, y102.2]
    ring


noncomputable def rDOp1 (env : Nat → ℂ) (a : Var) (la l2 : List (Param × ℂ)) : DOp ℂ (PS ℂ × PS ℂ) where
  derive0 X := (PS.dmul (fun i => eval env (Coeff.R.arr i)) X.1 + PS.dmul (fun i => eval env (Coeff.R.arr0 i)) X.2, X.2)
  derive1 p X := (PS.dmul (fun i => eval env (d (rIdx p) (Coeff.R.arr i))) X.1
                  + PS.dmul (fun i => eval env (d (rIdx p) (Coeff.R.arr0 i))) X.2, 0)
  derive2 pp X := (PS.dmul (fun i => eval env (d (rIdx pp.2) (d (rIdx pp.1) (Coeff.R.arr i)))) X.1
                  + PS.dmul (fun i => eval env (d (rIdx pp.2) (d (rIdx pp.1) (Coeff.R.arr0 i)))) X.2, 0)
  order1 := [(a, la)]
  order2 := [((a, a), l2)]
  auto := false
  P2 := [("r0", "r0"), ("rL", "rL"), ("rT", "rT")]

theorem R_diag_partial_exact_nl (par sa : Nat → ℝ → ℝ) (c2 : Nat → ℝ) (y0 : ℝ) (a : Var)
    (hpar : ∀ j, j < 3 → HasDerivAt (par j) (sa j y0) y0) (hsa : ∀ j, j < 3 → HasDerivAt (sa j) (c2 j) y0)
    (e : PS ℂ) (s Ja : ℝ → PS ℂ) (H : PS ℂ) (hs : PSHasDeriv s (Ja y0) y0) (hJ : PSHasDeriv Ja H y0) :
    let env := fun (y : ℝ) (j : Nat) => if j < 3 then ((par j y : ℝ) : ℂ) else 0
    PSHasDeriv (fun y => PS.dmul (fun i => eval (env y) (Coeff.R.arr i)) (Ja y)
        + psSum 3 (fun p => PS.smul ((sa p y : ℝ) : ℂ)
            (PS.dmul (fun i => eval (env y) (d p (Coeff.R.arr i))) (s y) + PS.dmul (fun i => eval (env y) (d p (Coeff.R.arr0 i))) e)))
      (Diff.val (applyOrder2 (modCar (K := ℂ))
          (rDOp1 (env y0) a [("rT", (((sa 0 y0 : ℝ) : ℂ))), ("rL", (((sa 1 y0 : ℝ) : ℂ))), ("r0", (((sa 2 y0 : ℝ) : ℂ)))] [("rT", ((c2 0 : ℝ) : ℂ)), ("rL", ((c2 1 : ℝ) : ℂ)), ("r0", ((c2 2 : ℝ) : ℂ))])
          (s y0, e) [(a, (Ja y0, 0))] [((a, a), (H, 0))]) (a, a)).1 y0 := by
  intro env
  show PSHasDeriv _ (Diff.val (applyOrder2 _ (rDOp1 (fun j => if j < 3 then ((par j y0 : ℝ) : ℂ) else 0) a _ _) _ _ _) (a, a)).1 y0
  set op := rDOp1 (fun j => if j < 3 then ((par j y0 : ℝ) : ℂ) else 0) a [("rT", (((sa 0 y0 : ℝ) : ℂ))), ("rL", (((sa 1 y0 : ℝ) : ℂ))), ("r0", (((sa 2 y0 : ℝ) : ℂ)))] [("rT", ((c2 0 : ℝ) : ℂ)), ("rL", ((c2 1 : ℝ) : ℂ)), ("r0", ((c2 2 : ℝ) : ℂ))] with hop
  have h0 : op.derive0 0 = 0 := by
    show ((_ : PS ℂ), (_ : PS ℂ)) = 0
    ext <;> simp [PS.dmul]
  rw [diagVar_value op a _ _ rfl rfl rfl h0]
  have hd : ∀ i, Defined (fun j => if j < 3 then ((par j y0 : ℝ) : ℂ) else 0) (Coeff.R.arr i) ∧ Defined (fun j => if j < 3 then ((par j y0 : ℝ) : ℂ) else 0) (Coeff.R.arr0 i) := fun i => R_defined _ i
  have hm := scal_mixed_step Coeff.R.arr Coeff.R.arr0 3 par sa (fun j => sa j y0) c2 y0 hpar hsa hd e s Ja (Ja y0) H hs hJ
  refine hm.congr_deriv ?_
  have s_rT_rT : supported op "rT" "rT" = true := by simp (config := {decide := true}) [supported, op, rDOp1]
  have p_rT_rT : pair "rT" "rT" = ("rT", "rT") := by decide
  have s_rT_rL : supported op "rT" "rL" = false := by simp (config := {decide := true}) [supported, op, rDOp1]
  have p_rT_rL : pair "rT" "rL" = ("rL", "rT") := by decide
  have s_rT_r0 : supported op "rT" "r0" = false := by simp (config := {decide := true}) [supported, op, rDOp1]
  have p_rT_r0 : pair "rT" "r0" = ("r0", "rT") := by decide
  have s_rL_rT : supported op "rL" "rT" = false := by simp (config := {decide := true}) [supported, op, rDOp1]
  have p_rL_rT : pair "rL" "rT" = ("rL", "rT") := by decide
  have s_rL_rL : supported op "rL" "rL" = true := by simp (config := {decide := true}) [supported, op, rDOp1]
  have p_rL_rL : pair "rL" "rL" = ("rL", "rL") := by decide
  have s_rL_r0 : supported op "rL" "r0" = false := by simp (config := {decide := true}) [supported, op, rDOp1]
  have p_rL_r0 : pair "rL" "r0" = ("r0", "rL") := by decide
  have s_r0_rT : supported op "r0" "rT" = false := by simp (config := {decide := true}) [supported, op, rDOp1]
  have p_r0_rT : pair "r0" "rT" = ("r0", "rT") := by decide
  have s_r0_rL : supported op "r0" "rL" = false := by simp (config := {decide := true}) [supported, op, rDOp1]
  have p_r0_rL : pair "r0" "rL" = ("r0", "rL") := by decide
  have s_r0_r0 : supported op "r0" "r0" = true := by simp (config := {decide := true}) [supported, op, rDOp1]
  have p_r0_r0 : pair "r0" "r0" = ("r0", "r0") := by decide
  have z010 := R_mixed_zero (fun j => if j < 3 then ((par j y0 : ℝ) : ℂ) else 0) 0 1 0 (by norm_num) (by norm_num) (by norm_num) (by norm_num)
  have z011 := R_mixed_zero (fun j => if j < 3 then ((par j y0 : ℝ) : ℂ) else 0) 0 1 1 (by norm_num) (by norm_num) (by norm_num) (by norm_num)
  have z012 := R_mixed_zero (fun j => if j < 3 then ((par j y0 : ℝ) : ℂ) else 0) 0 1 2 (by norm_num) (by norm_num) (by norm_num) (by norm_num)
  have z020 := R_mixed_zero (fun j => if j < 3 then ((par j y0 : ℝ) : ℂ) else 0) 0 2 0 (by norm_num) (by norm_num) (by norm_num) (by norm_num)
  have z021 := R_mixed_zero (fun j => if j < 3 then ((par j y0 : ℝ) : ℂ) else 0) 0 2 1 (by norm_num) (by norm_num) (by norm_num) (by norm_num)
  have z022 := R_mixed_zero (fun j => if j < 3 then ((par j y0 : ℝ) : ℂ) else 0) 0 2 2 (by norm_num) (by norm_num) (by norm_num) (by norm_num)
  have z100 := R_mixed_zero (fun j => if j < 3 then ((par j y0 : ℝ) : ℂ) else 0) 1 0 0 (by norm_num) (by norm_num) (by norm_num) (by norm_num)
  have z101 := R_mixed_zero (fun j => if j < 3 then ((par j y0 : ℝ) : ℂ) else 0) 1 0 1 (by norm_num) (by norm_num) (by norm_num) (by norm_num)
  have z102 := R_mixed_zero (fun j => if j < 3 then ((par j y0 : ℝ) : ℂ) else 0) 1 0 2 (by norm_num) (by norm_num) (by norm_num) (by norm_num)
  have z120 := R_mixed_zero (fun j => if j < 3 then ((par j y0 : ℝ) : ℂ) else 0) 1 2 0 (by norm_num) (by norm_num) (by norm_num) (by norm_num)
  have z121 := R_mixed_zero (fun j => if j < 3 then ((par j y0 : ℝ) : ℂ) else 0) 1 2 1 (by norm_num) (by norm_num) (by norm_num) (by norm_num)
  have z122 := R_mixed_zero (fun j => if j < 3 then ((par j y0 : ℝ) : ℂ) else 0) 1 2 2 (by norm_num) (by norm_num) (by norm_num) (by norm_num)
  have z200 := R_mixed_zero (fun j => if j < 3 then ((par j y0 : ℝ) : ℂ) else 0) 2 0 0 (by norm_num) (by norm_num) (by norm_num) (by norm_num)
  have z201 := R_mixed_zero (fun j => if j < 3 then ((par j y0 : ℝ) : ℂ) else 0) 2 0 1 (by norm_num) (by norm_num) (by norm_num) (by norm_num)
  have z202 := R_mixed_zero (fun j => if j < 3 then ((par j y0 : ℝ) : ℂ) else 0) 2 0 2 (by norm_num) (by norm_num) (by norm_num) (by norm_num)
  have z210 := R_mixed_zero (fun j => if j < 3 then ((par j y0 : ℝ) : ℂ) else 0) 2 1 0 (by norm_num) (by norm_num) (by norm_num) (by norm_num)
  have z211 := R_mixed_zero (fun j => if j < 3 then ((par j y0 : ℝ) : ℂ) else 0) 2 1 1 (by norm_num) (by norm_num) (by norm_num) (by norm_num)
  have z212 := R_mixed_zero (fun j => if j < 3 then ((par j y0 : ℝ) : ℂ) else 0) 2 1 2 (by norm_num) (by norm_num) (by norm_num) (by norm_num)
  simp only [List.map_cons, List.map_nil, List.sum_cons, List.sum_nil, add_zero, s_rT_rT, s_rT_rL, s_rT_r0, s_rL_rT, s_rL_rL, s_rL_r0, s_r0_rT, s_r0_rL, s_r0_r0, p_rT_rT, p_rT_rL, p_rT_r0, p_rL_rT, p_rL_rL, p_rL_r0, p_r0_rT, p_r0_rL, p_r0_r0,
    if_true, Bool.false_eq_true, if_false, Prod.fst_add, Prod.smul_fst, Prod.fst_zero, psSum_three]
  simp (config := {decide := true}) only [op, rDOp1, rIdx, String.reduceEq, if_true, if_false, smul_eq_PSsmul, id]
  apply PS.ext' <;>
  · simp only [PS.dmul, PS.smul, PS.add_fp, PS.add_fm, PS.add_z, PS.zero_fp, PS.zero_fm, PS.zero_z, psSum,
      Finset.sum_range_succ, Finset.sum_range_zero, zero_add, z010.1, z010.2, z011.1, z011.2, z012.1, z012.2, z020.1, z020.2, z021.1, z021.2, z022.1, z022.2, z100.1, z100.2, z101.1, z101.2, z102.1, z102.2, z120.1, z120.2, z121.1, z121.2, z122.1, z122.2, z200.1, z200.2, z201.1, z201.2, z202.1, z202.2, z210.1, z210.2, z211.1, z211.2, z212.1, z212.2]
    ring


/-- the phase-offset operator as `_apply_order2` sees it for one variable -/
noncomputable def phiDOp1 (env : Nat → ℂ) (a : Var) (ca c2 : ℂ) : DOp ℂ (PS ℂ) where
  derive0 X := PS.mmul (fun i j => eval env (Coeff.Phi.mat i j)) X
  derive1 _ X := PS.mmul (fun i j => eval env (d 0 (Coeff.Phi.mat i j))) X
  derive2 _ X := PS.mmul (fun i j => eval env (d 0 (d 0 (Coeff.Phi.mat i j)))) X
  order1 := [(a, [("phi", ca)])]
  order2 := [((a, a), [("phi", c2)])]
  auto := false
  P2 := [("phi", "phi")]

/-- **C03 end to end, phase offset, diagonal pair (a, a)** -/
theorem Phi_diag_partial_exact_nl (phi sa : ℝ → ℝ) (c2 y0 : ℝ) (a : Var)
    (hphi : HasDerivAt phi (sa y0) y0) (hsa : HasDerivAt sa c2 y0)
    (s Ja : ℝ → PS ℂ) (H : PS ℂ) (hs : PSHasDeriv s (Ja y0) y0) (hJ : PSHasDeriv Ja H y0) :
    let env := fun y : ℝ => envOf [((phi y : ℝ) : ℂ), (((0 : ℝ)) : ℂ)]
    PSHasDeriv (fun y => PS.mmul (fun i j => eval (env y) (Coeff.Phi.mat i j)) (Ja y)
                    + PS.smul ((sa y : ℝ) : ℂ) (PS.mmul (fun i j => eval (env y) (d 0 (Coeff.Phi.mat i j))) (s y)))
      (Diff.val (applyOrder2 (modCar (K := ℂ))
          (phiDOp1 (env y0) a ((sa y0 : ℝ) : ℂ) (c2 : ℂ))
          (s y0) [(a, Ja y0)] [((a, a), H)]) (a, a)) y0 := by
  intro env
  set op := phiDOp1 (env y0) a ((sa y0 : ℝ) : ℂ) (c2 : ℂ) with hop
  have h0 : op.derive0 0 = 0 := by
    simp only [hop, phiDOp1]
    apply PS.ext' <;> simp [PS.mmul]
  rw [diagVar_value op a _ _ rfl rfl rfl h0]
  have hd : ∀ i j, Defined (envOf [((phi y0 : ℝ) : ℂ), (((0 : ℝ)) : ℂ)]) (Coeff.Phi.mat i j) := fun i j => phi_defined _ i j
  have hm := mixed_step_nl Coeff.Phi.mat phi (fun _ => 0) sa (fun _ => 0) (sa y0) 0 c2 0 y0 hphi (hasDerivAt_const _ _) hsa
    (hasDerivAt_const _ _) hd s Ja (Ja y0) H hs hJ
  have hfun : (fun y => PS.mmul (fun i j => eval (env y) (Coeff.Phi.mat i j)) (Ja y)
                    + PS.smul ((sa y : ℝ) : ℂ) (PS.mmul (fun i j => eval (env y) (d 0 (Coeff.Phi.mat i j))) (s y)))
      = (fun y => PS.mmul (fun i j => eval (envOf [((phi y : ℝ) : ℂ), (((fun _ : ℝ => (0 : ℝ)) y : ℝ) : ℂ)]) (Coeff.Phi.mat i j)) (Ja y)
                    + (PS.smul ((sa y : ℝ) : ℂ) (PS.mmul (fun i j => eval (envOf [((phi y : ℝ) : ℂ), (((fun _ : ℝ => (0 : ℝ)) y : ℝ) : ℂ)]) (d 0 (Coeff.Phi.mat i j))) (s y))
                      + PS.smul (((fun _ : ℝ => (0 : ℝ)) y : ℝ) : ℂ) (PS.mmul (fun i j => eval (envOf [((phi y : ℝ) : ℂ), (((fun _ : ℝ => (0 : ℝ)) y : ℝ) : ℂ)]) (d 1 (Coeff.Phi.mat i j))) (s y)))) := by
    funext y
    apply PS.ext' <;> simp [PS.smul, env]
  rw [hfun]
  refine hm.congr_deriv ?_
  have sp : supported op "phi" "phi" = true := by simp (config := {decide := true}) [supported, op, phiDOp1]
  have pp : pair "phi" "phi" = ("phi", "phi") := by decide
  simp only [List.map_cons, List.map_nil, List.sum_cons, List.sum_nil, add_zero, sp, pp, if_true]
  apply PS.ext' <;>
  · simp only [op, phiDOp1, smul_eq_PSsmul, PS.mmul, PS.smul, PS.add_fp, PS.add_fm, PS.add_z, env, id]
    push_cast
    ring


/-! ### the precession and R steps of whole programs (diagonal pair) -/
section program
open EpgVerif.Props.C04
variable {κ : Type} [DecidableEq κ] [Zero κ]

noncomputable def step1P (x0 : ℝ) (pd : ℂ) (a : Var) (par sa : Nat → ℝ → ℝ) (c2 : Nat → ℝ)
    (hpar : ∀ j, j < 2 → HasDerivAt (par j) (sa j x0) x0) (hsa : ∀ j, j < 2 → HasDerivAt (sa j) (c2 j) x0) : Step1 x0 κ where
  S := fun x f k => PS.dmul (fun i => eval (fun j => if j < 2 then ((par j x : ℝ) : ℂ) else 0) (Coeff.P.arr i)) (f k)
      + PS.dmul (fun i => eval (fun j => if j < 2 then ((par j x : ℝ) : ℂ) else 0) (Coeff.P.arr0 i)) (eqRow pd k)
  J := fun x f ja k => PS.dmul (fun i => eval (fun j => if j < 2 then ((par j x : ℝ) : ℂ) else 0) (Coeff.P.arr i)) (ja k)
      + psSum 2 (fun p => PS.smul ((sa p x : ℝ) : ℂ)
          (PS.dmul (fun i => eval (fun j => if j < 2 then ((par j x : ℝ) : ℂ) else 0) (d p (Coeff.P.arr i))) (f k)
            + PS.dmul (fun i => eval (fun j => if j < 2 then ((par j x : ℝ) : ℂ) else 0) (d p (Coeff.P.arr0 i))) (eqRow pd k)))
  Hn := fun f ja h k =>
    (Diff.val (applyOrder2 (modCar (K := ℂ))
        (pDOp1 (fun j => if j < 2 then ((par j x0 : ℝ) : ℂ) else 0) a [("tau", (((sa 0 x0 : ℝ) : ℂ))), ("g", (((sa 1 x0 : ℝ) : ℂ)))] [("tau", ((c2 0 : ℝ) : ℂ)), ("g", ((c2 1 : ℝ) : ℂ))])
        (f k, eqRow pd k) [(a, (ja k, 0))] [((a, a), (h k, 0))]) (a, a)).1
  first := by
    intro s Ja h k
    let env : ℝ → Nat → ℂ := fun y j => if j < 2 then ((par j y : ℝ) : ℂ) else 0
    let c : Nat → ℂ := fun j => if j < 2 then ((sa j x0 : ℝ) : ℂ) else 0
    have henv : ∀ j, HasDerivAt (fun y => env y j) (c j) x0 := by
      intro j
      by_cases hj : j < 2
      · have he : (fun y => env y j) = fun y => ((par j y : ℝ) : ℂ) := by
          funext y; simp only [env, if_pos hj]
        rw [he]; simp only [c, if_pos hj]; exact (hpar j hj).ofReal_comp
      · have he : (fun y => env y j) = fun _ => (0 : ℂ) := by
          funext y; simp only [env, if_neg hj]
        rw [he]; simp only [c, if_neg hj]; exact hasDerivAt_const x0 (0 : ℂ)
    have hc : ∀ j, 2 ≤ j → c j = 0 := by
      intro j hj
      have : ¬ j < 2 := by omega
      simp only [c, if_neg this]
    have hcr : ∀ j, (starRingEnd ℂ) (c j) = c j := by
      intro j
      by_cases hj : j < 2
      · simp only [c, if_pos hj]; exact Complex.conj_ofReal _
      · simp only [c, if_neg hj]; simp
    have hm := scal_step Coeff.P.arr Coeff.P.arr0 env c 2 x0 henv hc hcr (fun i => precession_defined _ i)
      (eqRow pd k) (fun y => s y k) (Ja x0 k) (h k)
    refine hm.congr_deriv ?_
    simp only [psSum_two]
    simp [c, env]
  second := by
    intro s Ja H h1 h2 k
    exact P_diag_partial_exact_nl par sa c2 x0 a hpar hsa (eqRow pd k)
      (fun y => s y k) (fun y => Ja y k) (H k) (h1 k) (h2 k)


noncomputable def step1R (x0 : ℝ) (pd : ℂ) (a : Var) (par sa : Nat → ℝ → ℝ) (c2 : Nat → ℝ)
    (hpar : ∀ j, j < 3 → HasDerivAt (par j) (sa j x0) x0) (hsa : ∀ j, j < 3 → HasDerivAt (sa j) (c2 j) x0) : Step1 x0 κ where
  S := fun x f k => PS.dmul (fun i => eval (fun j => if j < 3 then ((par j x : ℝ) : ℂ) else 0) (Coeff.R.arr i)) (f k)
      + PS.dmul (fun i => eval (fun j => if j < 3 then ((par j x : ℝ) : ℂ) else 0) (Coeff.R.arr0 i)) (eqRow pd k)
  J := fun x f ja k => PS.dmul (fun i => eval (fun j => if j < 3 then ((par j x : ℝ) : ℂ) else 0) (Coeff.R.arr i)) (ja k)
      + psSum 3 (fun p => PS.smul ((sa p x : ℝ) : ℂ)
          (PS.dmul (fun i => eval (fun j => if j < 3 then ((par j x : ℝ) : ℂ) else 0) (d p (Coeff.R.arr i))) (f k)
            + PS.dmul (fun i => eval (fun j => if j < 3 then ((par j x : ℝ) : ℂ) else 0) (d p (Coeff.R.arr0 i))) (eqRow pd k)))
  Hn := fun f ja h k =>
    (Diff.val (applyOrder2 (modCar (K := ℂ))
        (rDOp1 (fun j => if j < 3 then ((par j x0 : ℝ) : ℂ) else 0) a [("rT", (((sa 0 x0 : ℝ) : ℂ))), ("rL", (((sa 1 x0 : ℝ) : ℂ))), ("r0", (((sa 2 x0 : ℝ) : ℂ)))] [("rT", ((c2 0 : ℝ) : ℂ)), ("rL", ((c2 1 : ℝ) : ℂ)), ("r0", ((c2 2 : ℝ) : ℂ))])
        (f k, eqRow pd k) [(a, (ja k, 0))] [((a, a), (h k, 0))]) (a, a)).1
  first := by
    intro s Ja h k
    let env : ℝ → Nat → ℂ := fun y j => if j < 3 then ((par j y : ℝ) : ℂ) else 0
    let c : Nat → ℂ := fun j => if j < 3 then ((sa j x0 : ℝ) : ℂ) else 0
    have henv : ∀ j, HasDerivAt (fun y => env y j) (c j) x0 := by
      intro j
      by_cases hj : j < 3
      · have he : (fun y => env y j) = fun y => ((par j y : ℝ) : ℂ) := by
          funext y; simp only [env, if_pos hj]
        rw [he]; simp only [c, if_pos hj]; exact (hpar j hj).ofReal_comp
      · have he : (fun y => env y j) = fun _ => (0 : ℂ) := by
          funext y; simp only [env, if_neg hj]
        rw [he]; simp only [c, if_neg hj]; exact hasDerivAt_const x0 (0 : ℂ)
    have hc : ∀ j, 3 ≤ j → c j = 0 := by
      intro j hj
      have : ¬ j < 3 := by omega
      simp only [c, if_neg this]
    have hcr : ∀ j, (starRingEnd ℂ) (c j) = c j := by
      intro j
      by_cases hj : j < 3
      · simp only [c, if_pos hj]; exact Complex.conj_ofReal _
      · simp only [c, if_neg hj]; simp
    have hm := scal_step Coeff.R.arr Coeff.R.arr0 env c 3 x0 henv hc hcr (fun i => R_defined _ i)
      (eqRow pd k) (fun y => s y k) (Ja x0 k) (h k)
    refine hm.congr_deriv ?_
    simp only [psSum_three]
    simp [c, env]
  second := by
    intro s Ja H h1 h2 k
    exact R_diag_partial_exact_nl par sa c2 x0 a hpar hsa (eqRow pd k)
      (fun y => s y k) (fun y => Ja y k) (H k) (h1 k) (h2 k)


end program

end EpgVerif.Props.C03
