import EpgVerif.Props.C03Prog
/-
  C03, the diagonal pair (a, a): second derivative with respect to ONE variable (which may drive several parameters of the
  operator, non-linearly).  Bookkeeping value for any operator class and parameter list, and the RF-pulse instance.
-/
namespace EpgVerif.Props.C03
open EpgVerif Diff Ex Finset EpgVerif.Props.C02

section bookkeeping
variable {K C : Type} [CommSemiring K] [AddCommMonoid C] [Module K C]

/-- **what `_apply_order2` stores under (a, a)**: the cross term is counted twice (once for each order of the two
    differentiations), every product of slopes once per ordered pair of parameters -/
theorem diagVar_value (op : DOp K C) (a : Var) (la l2 : List (Param × K))
    (h1 : op.order1 = [(a, la)]) (h2 : op.order2 = [((a, a), l2)]) (hauto : op.auto = false)
    (h0 : op.derive0 0 = 0) (s Ja H : C) :
    val (applyOrder2 (modCar (K := K)) op s [(a, Ja)] [((a, a), H)]) (a, a)
      = op.derive0 H
        + (l2.map (fun pc => pc.2 • op.derive1 pc.1 s)).sum
        + ((la.map (fun pc => pc.2 • op.derive1 pc.1 Ja)).sum + (la.map (fun pc => pc.2 • op.derive1 pc.1 Ja)).sum)
        + (la.map (fun p1 => (la.map (fun p2 =>
            if supported op p1.1 p2.1 then (p1.2 * p2.2) • op.derive2 (pair p1.1 p2.1) s else 0)).sum)).sum := by
  have paa : pair a a = (a, a) := by simp [pair]
  have hs : Sorted (a, a) := by intro hgt; exact absurd hgt (lt_irrefl a)
  rw [order2_accumulates_every_term_once _ h0 _ _ _ _ hs]
  have hp : pairOf (a, a) = (a, a) := paa
  have e0 : val (normalize [((a, a), H)]) (a, a) = H := by
    simp [Diff.normalize, pairOf, paa, Diff.insert, hasKey, Diff.val, lookup]
  have eA : tot (termsA (modCar (K := K)) op s) (a, a) = (l2.map (fun pc => pc.2 • op.derive1 pc.1 s)).sum := by
    simp only [termsA, h2, List.flatMap_cons, List.flatMap_nil, List.append_nil, hp]
    rw [tot_map_const_key]; simp [modCar]
  have ga : order1Get op a = la := by simp [order1Get, h1, lookup]
  have eB := termsB_single op s a a l2 h2 hs
  rw [ga] at eB
  have vc : varsCross op [(a, Ja)] = [(a, a)] := by simp [varsCross, hauto, h2, dedup]
  have eX : ∀ (keep : Var → Var → Bool), keep a a = true →
      tot (termsX (modCar (K := K)) op [(a, Ja)] keep) (a, a) = (la.map (fun pc => pc.2 • op.derive1 pc.1 Ja)).sum := by
    intro keep hk
    unfold termsX
    rw [vc, h1]
    simp only [List.flatMap_cons, List.flatMap_nil, List.append_nil, paa, List.contains_cons, List.contains_nil,
      Bool.or_false, beq_self_eq_true, hk, Bool.and_self, if_true]
    rw [tot_map_const_key]; simp [modCar]
  rw [e0, eA, eB, eX _ (by simp), eX _ (by simp)]
  abel

end bookkeeping

/-- **C03 end to end, RF pulse, diagonal pair (a, a)**: flip angle `al` and phase `ph` are (possibly non-linear) functions
    of one variable with first derivatives `sa, sp` (functions again) and second derivatives `c2a, c2p` at the point;
    the value stored under `(a, a)` is the derivative of the new first partial, i.e. the second derivative of the state -/
theorem T_diag_partial_exact_nl (al ph sa sp : ℝ → ℝ) (c2a c2p x0 : ℝ) (a : Var)
    (hal : HasDerivAt al (sa x0) x0) (hph : HasDerivAt ph (sp x0) x0) (hsa : HasDerivAt sa c2a x0) (hsp : HasDerivAt sp c2p x0)
    (s Ja : ℝ → PS ℂ) (H : PS ℂ) (hs : PSHasDeriv s (Ja x0) x0) (hJ : PSHasDeriv Ja H x0) :
    let env := fun x : ℝ => envOf [((al x : ℝ) : ℂ), ((ph x : ℝ) : ℂ)]
    let E := fun (f : Ex → Ex) (i j : Nat) => eval (env x0) (f (Coeff.T.mat i j))
    let d0 : PS ℂ → PS ℂ := fun X => PS.mmul (E id) X
    let d1 : Param → PS ℂ → PS ℂ := fun p X => if p = "alpha" then PS.mmul (E (d 0)) X else PS.mmul (E (d 1)) X
    let d2 : PPair → PS ℂ → PS ℂ := fun pp X =>
      if pp = ("alpha", "alpha") then PS.mmul (E (fun e => d 0 (d 0 e))) X
      else if pp = ("alpha", "phi") then PS.mmul (E (fun e => d 1 (d 0 e))) X
      else PS.mmul (E (fun e => d 1 (d 1 e))) X
    let op : DOp ℂ (PS ℂ) :=
      { derive0 := d0, derive1 := d1, derive2 := d2,
        order1 := [(a, [("alpha", ((sa x0 : ℝ) : ℂ)), ("phi", ((sp x0 : ℝ) : ℂ))])],
        order2 := [((a, a), [("alpha", (c2a : ℂ)), ("phi", (c2p : ℂ))])],
        auto := false, P2 := [("alpha", "alpha"), ("alpha", "phi"), ("phi", "phi")] }
    PSHasDeriv (fun x => PS.mmul (fun i j => eval (env x) (Coeff.T.mat i j)) (Ja x)
                    + (((sa x : ℝ) : ℂ) • PS.mmul (fun i j => eval (env x) (d 0 (Coeff.T.mat i j))) (s x)
                      + ((sp x : ℝ) : ℂ) • PS.mmul (fun i j => eval (env x) (d 1 (Coeff.T.mat i j))) (s x)))
      (Diff.val (applyOrder2 (modCar (K := ℂ)) op (s x0) [(a, Ja x0)] [((a, a), H)]) (a, a)) x0 := by
  intro env E d0 d1 d2 op
  have h0 : op.derive0 0 = 0 := by
    show d0 0 = 0
    apply PS.ext' <;> simp [d0, PS.mmul]
  rw [diagVar_value op a _ _ rfl rfl rfl h0]
  have hd : ∀ i j, Defined (env x0) (Coeff.T.mat i j) := fun i j => rotation_defined _ i j
  have hm := mixed_step_nl Coeff.T.mat al ph sa sp (sa x0) (sp x0) c2a c2p x0 hal hph hsa hsp hd s Ja (Ja x0) H hs hJ
  refine hm.congr_deriv ?_
  have hsy : ∀ i j, i < 3 → j < 3 → eval (envOf [((al x0 : ℝ) : ℂ), ((ph x0 : ℝ) : ℂ)]) (d 0 (d 1 (Coeff.T.mat i j))) = eval (envOf [((al x0 : ℝ) : ℂ), ((ph x0 : ℝ) : ℂ)]) (d 1 (d 0 (Coeff.T.mat i j))) :=
    fun i j hi hj => T_mixed_symm _ i j hi hj
  have q00 := hsy 0 0 (by norm_num) (by norm_num)
  have q01 := hsy 0 1 (by norm_num) (by norm_num)
  have q02 := hsy 0 2 (by norm_num) (by norm_num)
  have q10 := hsy 1 0 (by norm_num) (by norm_num)
  have q11 := hsy 1 1 (by norm_num) (by norm_num)
  have q12 := hsy 1 2 (by norm_num) (by norm_num)
  have q20 := hsy 2 0 (by norm_num) (by norm_num)
  have q21 := hsy 2 1 (by norm_num) (by norm_num)
  have q22 := hsy 2 2 (by norm_num) (by norm_num)
  have s1 : supported op "alpha" "alpha" = true := by simp (config := {decide := true}) [supported, op]
  have s2 : supported op "alpha" "phi" = true := by simp (config := {decide := true}) [supported, op]
  have s3 : supported op "phi" "alpha" = true := by simp (config := {decide := true}) [supported, op]
  have s4 : supported op "phi" "phi" = true := by simp (config := {decide := true}) [supported, op]
  have p1 : pair "alpha" "alpha" = ("alpha", "alpha") := by decide
  have p2 : pair "alpha" "phi" = ("alpha", "phi") := by decide
  have p3 : pair "phi" "alpha" = ("alpha", "phi") := by decide
  have p4 : pair "phi" "phi" = ("phi", "phi") := by decide
  simp only [List.map_cons, List.map_nil, List.sum_cons, List.sum_nil, add_zero, s1, s2, s3, s4, p1, p2, p3, p4, if_true]
  apply PS.ext' <;>
  · simp only [op, d0, d1, d2, E, id, if_true, smul_eq_PSsmul, String.reduceEq, if_false, Prod.mk.injEq, and_true, and_false,
      PS.mmul, PS.smul, PS.add_fp, PS.add_fm, PS.add_z, PS.zero_fp, PS.zero_fm, PS.zero_z, q00, q01, q02, q10, q11, q12, q20, q21, q22]
    ring

end EpgVerif.Props.C03
