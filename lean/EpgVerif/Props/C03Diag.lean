import EpgVerif.Props.C03Prog
/-
  C03, the diagonal pair (a, a): second derivative with respect to ONE variable (which may drive several parameters of the
  operator, non-linearly).  Bookkeeping value for any operator class and parameter list, and the RF-pulse instance.
-/
namespace EpgVerif.Props.C03
open EpgVerif Diff Ex Finset EpgVerif.Props.C02

section bookkeeping
variable {K C : Type} [CommSemiring K] [AddCommMonoid C] [Module K C]

/-- **what `_apply_order2` stores under (a, a)**: the cross term is counted twice (once for each order of the two
    differentiations), every product of slopes once per ordered pair of parameters -/
theorem diagVar_value (op : DOp K C) (a : Var) (la l2 : List (Param × K))
    (h1 : op.order1 = [(a, la)]) (h2 : op.order2 = [((a, a), l2)]) (hauto : op.auto = false)
    (h0 : op.derive0 0 = 0) (s Ja H : C) :
    val (applyOrder2 (modCar (K := K)) op s [(a, Ja)] [((a, a), H)]) (a, a)
      = op.derive0 H
        + (l2.map (fun pc => pc.2 • op.derive1 pc.1 s)).sum
        + ((la.map (fun pc => pc.2 • op.derive1 pc.1 Ja)).sum + (la.map (fun pc => pc.2 • op.derive1 pc.1 Ja)).sum)
        + (la.map (fun p1 => (la.map (fun p2 =>
            if supported op p1.1 p2.1 then (p1.2 * p2.2) • op.derive2 (pair p1.1 p2.1) s else 0)).sum)).sum := by
  have paa : pair a a = (a, a) := by simp [pair]
  have hs : Sorted (a, a) := by intro hgt; exact absurd hgt (lt_irrefl a)
  rw [order2_accumulates_every_term_once _ h0 _ _ _ _ hs]
  have hp : pairOf (a, a) = (a, a) := paa
  have e0 : val (normalize [((a, a), H)]) (a, a) = H := by
    simp [Diff.normalize, pairOf, paa, Diff.insert, hasKey, Diff.val, lookup]
  have eA : tot (termsA (modCar (K := K)) op s) (a, a) = (l2.map (fun pc => pc.2 • op.derive1 pc.1 s)).sum := by
    simp only [termsA, h2, List.flatMap_cons, List.flatMap_nil, List.append_nil, hp]
    rw [tot_map_const_key]; simp [modCar]
  have ga : order1Get op a = la := by simp [order1Get, h1, lookup]
  have eB := termsB_single op s a a l2 h2 hs
  rw [ga] at eB
  have vc : varsCross op [(a, Ja)] = [(a, a)] := by simp [varsCross, hauto, h2, dedup]
  have eX : ∀ (keep : Var → Var → Bool), keep a a = true →
      tot (termsX (modCar (K := K)) op [(a, Ja)] keep) (a, a) = (la.map (fun pc => pc.2 • op.derive1 pc.1 Ja)).sum := by
    intro keep hk
    unfold termsX
    rw [vc, h1]
    simp only [List.flatMap_cons, List.flatMap_nil, List.append_nil, paa, List.contains_cons, List.contains_nil,
      Bool.or_false, beq_self_eq_true, hk, Bool.and_self, if_true]
    rw [tot_map_const_key]; simp [modCar]
  rw [e0, eA, eB, eX _ (by simp), eX _ (by simp)]
  abel

end bookkeeping

/-- **C03 end to end, RF pulse, diagonal pair (a, a)**: flip angle `al` and phase `ph` are (possibly non-linear) functions
    of one variable with first derivatives `sa, sp` (functions again) and second derivatives `c2a, c2p` at the point;
    the value stored under `(a, a)` is the derivative of the new first partial, i.e. the second derivative of the state -/
theorem T_diag_partial_exact_nl (al ph sa sp : ℝ → ℝ) (c2a c2p x0 : ℝ) (a : Var)
    (hal : HasDerivAt al (sa x0) x0) (hph : HasDerivAt ph (sp x0) x0) (hsa : HasDerivAt sa c2a x0) (hsp : HasDerivAt sp c2p x0)
    (s Ja : ℝ → PS ℂ) (H : PS ℂ) (hs : PSHasDeriv s (Ja x0) x0) (hJ : PSHasDeriv Ja H x0) :
    let env := fun x : ℝ => envOf [((al x : ℝ) : ℂ), ((ph x : ℝ) : ℂ)]
    let E := fun (f : Ex → Ex) (i j : Nat) => eval (env x0) (f (Coeff.T.mat i j))
    let d0 : PS ℂ → PS ℂ := fun X => PS.mmul (E id) X
    let d1 : Param → PS ℂ → PS ℂ := fun p X => if p = "alpha" then PS.mmul (E (d 0)) X else PS.mmul (E (d 1)) X
    let d2 : PPair → PS ℂ → PS ℂ := fun pp X =>
      if pp = ("alpha", "alpha") then PS.mmul (E (fun e => d 0 (d 0 e))) X
      else if pp = ("alpha", "phi") then PS.mmul (E (fun e => d 1 (d 0 e))) X
      else PS.mmul (E (fun e => d 1 (d 1 e))) X
    let op : DOp ℂ (PS ℂ) :=
      { derive0 := d0, derive1 := d1, derive2 := d2,
        order1 := [(a, [("alpha", ((sa x0 : ℝ) : ℂ)), ("phi", ((sp x0 : ℝ) : ℂ))])],
        order2 := [((a, a), [("alpha", (c2a : ℂ)), ("phi", (c2p : ℂ))])],
        auto := false, P2 := [("alpha", "alpha"), ("alpha", "phi"), ("phi", "phi")] }
    PSHasDeriv (fun x => PS.mmul (fun i j => eval (env x) (Coeff.T.mat i j)) (Ja x)
                    + (((sa x : ℝ) : ℂ) • PS.mmul (fun i j => eval (env x) (d 0 (Coeff.T.mat i j))) (s x)
                      + ((sp x : ℝ) : ℂ) • PS.mmul (fun i j => eval (env x) (d 1 (Coeff.T.mat i j))) (s x)))
      (Diff.val (applyOrder2 (modCar (K := ℂ)) op (s x0) [(a, Ja x0)] [((a, a), H)]) (a, a)) x0 := by
  intro env E d0 d1 d2 op
  have h0 : op.derive0 0 = 0 := by
    show d0 0 = 0
    apply PS.ext' <;> simp [d0, PS.mmul]
  rw [diagVar_value op a _ _ rfl rfl rfl h0]
  have hd : ∀ i j, Defined (env x0) (Coeff.T.mat i j) := fun i j => rotation_defined _ i j
  have hm := mixed_step_nl Coeff.T.mat al ph sa sp (sa x0) (sp x0) c2a c2p x0 hal hph hsa hsp hd s Ja (Ja x0) H hs hJ
  refine hm.congr_deriv ?_
  have hsy : ∀ i j, i < 3 → j < 3 → eval (envOf [((al x0 : ℝ) : ℂ), ((ph x0 : ℝ) : ℂ)]) (d 0 (d 1 (Coeff.T.mat i j))) = eval (envOf [((al x0 : ℝ) : ℂ), ((ph x0 : ℝ) : ℂ)]) (d 1 (d 0 (Coeff.T.mat i j))) :=
    fun i j hi hj => T_mixed_symm _ i j hi hj
  have q00 := hsy 0 0 (by norm_num) (by norm_num)
  have q01 := hsy 0 1 (by norm_num) (by norm_num)
  have q02 := hsy 0 2 (by norm_num) (by norm_num)
  have q10 := hsy 1 0 (by norm_num) (by norm_num)
  have q11 := hsy 1 1 (by norm_num) (by norm_num)
  have q12 := hsy 1 2 (by norm_num) (by norm_num)
  have q20 := hsy 2 0 (by norm_num) (by norm_num)
  have q21 := hsy 2 1 (by norm_num) (by norm_num)
  have q22 := hsy 2 2 (by norm_num) (by norm_num)
  have s1 : supported op "alpha" "alpha" = true := by simp (config := {decide := true}) [supported, op]
  have s2 : supported op "alpha" "phi" = true := by simp (config := {decide := true}) [supported, op]
  have s3 : supported op "phi" "alpha" = true := by simp (config := {decide := true}) [supported, op]
  have s4 : supported op "phi" "phi" = true := by simp (config := {decide := true}) [supported, op]
  have p1 : pair "alpha" "alpha" = ("alpha", "alpha") := by decide
  have p2 : pair "alpha" "phi" = ("alpha", "phi") := by decide
  have p3 : pair "phi" "alpha" = ("alpha", "phi") := by decide
  have p4 : pair "phi" "phi" = ("phi", "phi") := by decide
  simp only [List.map_cons, List.map_nil, List.sum_cons, List.sum_nil, add_zero, s1, s2, s3, s4, p1, p2, p3, p4, if_true]
  apply PS.ext' <;>
  · simp only [op, d0, d1, d2, E, id, if_true, smul_eq_PSsmul, String.reduceEq, if_false, Prod.mk.injEq, and_true, and_false,
      PS.mmul, PS.smul, PS.add_fp, PS.add_fm, PS.add_z, PS.zero_fp, PS.zero_fm, PS.zero_z, q00, q01, q02, q10, q11, q12, q20, q21, q22]
    ring

end EpgVerif.Props.C03

/-! ### the diagonal pair over whole programs -/
namespace EpgVerif.Props.C03
open EpgVerif Diff Ex Finset EpgVerif.Props.C02 EpgVerif.Props.C04

variable {κ : Type}

/-- a step seen along ONE variable x: state update `S`, first-partial update `J` at parameter value x (the formula of
    `_apply_order1`), and what `_apply_order2` stores under (a, a) at x0 -/
structure Step1 (x0 : ℝ) (κ : Type) where
  S : ℝ → (κ → PS ℂ) → (κ → PS ℂ)
  J : ℝ → (κ → PS ℂ) → (κ → PS ℂ) → (κ → PS ℂ)
  Hn : (κ → PS ℂ) → (κ → PS ℂ) → (κ → PS ℂ) → (κ → PS ℂ)
  first : ∀ (s Ja : ℝ → κ → PS ℂ), (∀ k, PSHasDeriv (fun x => s x k) (Ja x0 k) x0) →
      ∀ k, PSHasDeriv (fun x => S x (s x) k) (J x0 (s x0) (Ja x0) k) x0
  second : ∀ (s Ja : ℝ → κ → PS ℂ) (H : κ → PS ℂ), (∀ k, PSHasDeriv (fun x => s x k) (Ja x0 k) x0) →
      (∀ k, PSHasDeriv (fun x => Ja x k) (H k) x0) →
      ∀ k, PSHasDeriv (fun x => J x (s x) (Ja x) k) (Hn (s x0) (Ja x0) H k) x0

structure St1 (κ : Type) where
  s : ℝ → κ → PS ℂ
  Ja : ℝ → κ → PS ℂ
  H : κ → PS ℂ

def run1 {x0 : ℝ} : List (Step1 x0 κ) → St1 κ → St1 κ
  | [], st => st
  | p :: rest, st =>
    run1 rest ⟨fun x => p.S x (st.s x), fun x => p.J x (st.s x) (st.Ja x), p.Hn (st.s x0) (st.Ja x0) st.H⟩

/-- **C03 for whole programs, diagonal entries**: "Ja = ∂s/∂a and H = ∂²s/∂a²" is kept by every program -/
theorem hessian_diag_exact {x0 : ℝ} (prog : List (Step1 x0 κ)) (st : St1 κ)
    (h1 : ∀ k, PSHasDeriv (fun x => st.s x k) (st.Ja x0 k) x0) (h2 : ∀ k, PSHasDeriv (fun x => st.Ja x k) (st.H k) x0) :
    (∀ k, PSHasDeriv (fun x => (run1 prog st).s x k) ((run1 prog st).Ja x0 k) x0)
    ∧ (∀ k, PSHasDeriv (fun x => (run1 prog st).Ja x k) ((run1 prog st).H k) x0) := by
  induction prog generalizing st with
  | nil => exact ⟨h1, h2⟩
  | cons p rest ih =>
    exact ih _ (p.first st.s st.Ja h1) (p.second st.s st.Ja st.H h1 h2)

section shifts
variable [AddCommGroup κ]

def step1Shift (x0 : ℝ) (g : κ) : Step1 x0 κ where
  S := fun _ f => shiftF g f
  J := fun _ _ ja => shiftF g ja
  Hn := fun _ _ h => shiftF g h
  first := by
    intro s Ja h k
    obtain ⟨a1, _, _⟩ := h (k - g)
    obtain ⟨_, b2, _⟩ := h (k + g)
    obtain ⟨_, _, c3⟩ := h k
    exact ⟨a1, b2, c3⟩
  second := by
    intro s Ja H _ h k
    obtain ⟨a1, _, _⟩ := h (k - g)
    obtain ⟨_, b2, _⟩ := h (k + g)
    obtain ⟨_, _, c3⟩ := h k
    exact ⟨a1, b2, c3⟩

end shifts

/-- an RF pulse whose flip angle and phase are (non-linear) functions of the variable -/
noncomputable def step1T (x0 : ℝ) (a : Var) (al ph sa sp : ℝ → ℝ) (c2a c2p : ℝ)
    (hal : ∀ x, HasDerivAt al (sa x) x) (hph : ∀ x, HasDerivAt ph (sp x) x)
    (hsa : HasDerivAt sa c2a x0) (hsp : HasDerivAt sp c2p x0) : Step1 x0 κ where
  S := fun x f k => PS.mmul (fun i j => eval (envOf [((al x : ℝ) : ℂ), ((ph x : ℝ) : ℂ)]) (Coeff.T.mat i j)) (f k)
  J := fun x f ja k =>
    PS.mmul (fun i j => eval (envOf [((al x : ℝ) : ℂ), ((ph x : ℝ) : ℂ)]) (Coeff.T.mat i j)) (ja k)
      + (((sa x : ℝ) : ℂ) • PS.mmul (fun i j => eval (envOf [((al x : ℝ) : ℂ), ((ph x : ℝ) : ℂ)]) (d 0 (Coeff.T.mat i j))) (f k)
        + ((sp x : ℝ) : ℂ) • PS.mmul (fun i j => eval (envOf [((al x : ℝ) : ℂ), ((ph x : ℝ) : ℂ)]) (d 1 (Coeff.T.mat i j))) (f k))
  Hn := fun f ja h k =>
    let env := fun x : ℝ => envOf [((al x : ℝ) : ℂ), ((ph x : ℝ) : ℂ)]
    let E := fun (f : Ex → Ex) (i j : Nat) => eval (env x0) (f (Coeff.T.mat i j))
    let d0 : PS ℂ → PS ℂ := fun X => PS.mmul (E id) X
    let d1 : Param → PS ℂ → PS ℂ := fun p X => if p = "alpha" then PS.mmul (E (d 0)) X else PS.mmul (E (d 1)) X
    let d2 : PPair → PS ℂ → PS ℂ := fun pp X =>
      if pp = ("alpha", "alpha") then PS.mmul (E (fun e => d 0 (d 0 e))) X
      else if pp = ("alpha", "phi") then PS.mmul (E (fun e => d 1 (d 0 e))) X
      else PS.mmul (E (fun e => d 1 (d 1 e))) X
    let op : DOp ℂ (PS ℂ) :=
      { derive0 := d0, derive1 := d1, derive2 := d2,
        order1 := [(a, [("alpha", ((sa x0 : ℝ) : ℂ)), ("phi", ((sp x0 : ℝ) : ℂ))])],
        order2 := [((a, a), [("alpha", (c2a : ℂ)), ("phi", (c2p : ℂ))])],
        auto := false, P2 := [("alpha", "alpha"), ("alpha", "phi"), ("phi", "phi")] }
    Diff.val (applyOrder2 (modCar (K := ℂ)) op (f k) [(a, ja k)] [((a, a), h k)]) (a, a)
  first := by
    intro s Ja h k
    let env : ℝ → Nat → ℂ := fun x => envOf [((al x : ℝ) : ℂ), ((ph x : ℝ) : ℂ)]
    let c : Nat → ℂ := fun j => match j with | 0 => ((sa x0 : ℝ) : ℂ) | 1 => ((sp x0 : ℝ) : ℂ) | _ => 0
    have henv : ∀ j, HasDerivAt (fun x => env x j) (c j) x0 := by
      intro j
      match j with
      | 0 => simpa [env, envOf, c] using (hal x0).ofReal_comp
      | 1 => simpa [env, envOf, c] using (hph x0).ofReal_comp
      | (n + 2) => simpa [env, envOf, c] using hasDerivAt_const x0 (0 : ℂ)
    have hc : ∀ j, 2 ≤ j → c j = 0 := by
      intro j hj
      match j with
      | 0 => omega
      | 1 => omega
      | (n + 2) => rfl
    have hcr : ∀ j, (starRingEnd ℂ) (c j) = c j := by
      intro j
      match j with
      | 0 => simp [c]
      | 1 => simp [c]
      | (n + 2) => simp [c]
    have hm := mat_step Coeff.T.mat env c 2 x0 henv hc hcr (fun i j => rotation_defined _ i j) (fun x => s x k) (Ja x0 k) (h k)
    rw [psSum_two] at hm
    exact hm
  second := by
    intro s Ja H h1 h2 k
    exact T_diag_partial_exact_nl al ph sa sp c2a c2p x0 a (hal x0) (hph x0) hsa hsp
      (fun x => s x k) (fun x => Ja x k) (H k) (h1 k) (h2 k)

end EpgVerif.Props.C03
