import Mathlib.MeasureTheory.Integral.IntervalIntegral.FundThmCalculus
import Mathlib.Analysis.SpecialFunctions.Integrals.Basic
import EpgVerif.Model.Imaging
import EpgVerif.Props.C04
/-
  C15 — the Imaging probe: a 'point' voxel is the inverse Fourier sum at x (hence, by C04, the Bloch
  isochromat at x with the off-resonance of an imaginary modulation); a 'box' voxel is the average of
  the point values over the voxel; a real modulation multiplies each state by exp(rate·|t|).
-/
namespace EpgVerif.Props.C15
open EpgVerif Complex

/-- `sin y / y` with value 1 at 0 (numpy's `sinc(y/π)`) -/
noncomputable def csinc (y : ℂ) : ℂ := if y = 0 then 1 else Complex.sin y / y

/-- **form factor of a box voxel**: the average of `e^{iku}` over `[x − a/2, x + a/2]` is `e^{ikx} sinc(k a / 2)` -/
theorem box_factor (k x a : ℝ) (ha : a ≠ 0) :
    (1 / (a : ℂ)) * ∫ u in (x - a / 2)..(x + a / 2), Complex.exp (I * k * u)
      = Complex.exp (I * k * x) * csinc ((k : ℂ) * a / 2) := by
  have ha' : (a : ℂ) ≠ 0 := by exact_mod_cast ha
  by_cases hk : k = 0
  · subst hk
    simp [csinc]
    field_simp
  · have hk' : (k : ℂ) ≠ 0 := by exact_mod_cast hk
    have hc : I * (k : ℂ) ≠ 0 := mul_ne_zero I_ne_zero hk'
    rw [integral_exp_mul_complex hc]
    have hy : (k : ℂ) * a / 2 ≠ 0 := by
      apply div_ne_zero (mul_ne_zero hk' ha') (by norm_num)
    simp only [csinc, hy, if_false]
    have e1 : I * (k : ℂ) * ((x + a / 2 : ℝ) : ℂ) = I * k * x + I * ((k : ℂ) * a / 2) := by push_cast; ring
    have e2 : I * (k : ℂ) * ((x - a / 2 : ℝ) : ℂ) = I * k * x - I * ((k : ℂ) * a / 2) := by push_cast; ring
    rw [e1, e2, Complex.exp_add, sub_eq_add_neg (I * ↑k * ↑x), Complex.exp_add, Complex.sin]
    have hI : I ≠ 0 := I_ne_zero
    have hI2 : I * I = -1 := Complex.I_mul_I
    field_simp
    have : Complex.exp (-(I * ((k : ℂ) * a / 2))) = Complex.exp (-((k : ℂ) * a / 2) * I) := by congr 1; ring
    rw [neg_mul, mul_comm I ((k:ℂ) * a / 2)] at *
    ring_nf
    rw [Complex.I_sq]
    ring

/-- a finite Fourier sum: coefficients `c_n` at (real) wavenumbers `w_n` along one axis -/
noncomputable def fsum (l : List (ℂ × ℝ)) (u : ℝ) : ℂ := (l.map (fun e => e.1 * Complex.exp (I * e.2 * u))).sum

theorem fsum_continuous (l : List (ℂ × ℝ)) : Continuous (fsum l) := by
  induction l with
  | nil =>
    have : fsum [] = fun _ => (0 : ℂ) := by funext u; simp [fsum]
    rw [this]; exact continuous_const
  | cons e rest ih =>
    have : fsum (e :: rest) = fun u : ℝ => e.1 * Complex.exp (I * e.2 * u) + fsum rest u := by
      funext u; simp [fsum]
    rw [this]
    exact (continuous_const.mul (by fun_prop)).add ih

/-- **a box voxel returns the average of the point values over the voxel** (one axis) -/
theorem box_is_average (l : List (ℂ × ℝ)) (x a : ℝ) (ha : a ≠ 0) :
    (1 / (a : ℂ)) * ∫ u in (x - a / 2)..(x + a / 2), fsum l u
      = (l.map (fun e => csinc ((e.2 : ℂ) * a / 2) * e.1 * Complex.exp (I * e.2 * x))).sum := by
  induction l with
  | nil => simp [fsum]
  | cons e rest ih =>
    have hf : fsum (e :: rest) = fun u : ℝ => e.1 * Complex.exp (I * e.2 * u) + fsum rest u := by
      funext u; simp [fsum]
    rw [hf, intervalIntegral.integral_add, mul_add, ih, List.map_cons, List.sum_cons]
    · congr 1
      rw [intervalIntegral.integral_const_mul, ← mul_assoc, mul_comm (1 / (a : ℂ)) e.1, mul_assoc, box_factor e.2 x a ha]
      ring
    · exact (continuous_const.mul (by fun_prop)).intervalIntegrable _ _
    · exact (fsum_continuous rest).intervalIntegrable _ _

/-! ### the model's probe, one spatial axis -/
section model
variable {κ : Type}

theorem foldl_add_eq_sum {α : Type} (l : List α) (f : α → ℂ) (z : ℂ) :
    l.foldl (fun acc e => acc + f e) z = z + (l.map f).sum := by
  induction l generalizing z with
  | nil => simp
  | cons a rest ih => simp [ih, add_assoc]

/-- point voxel, no modulation, no phase, one axis: the probe is the finite Fourier sum of the stored F+ states -/
theorem imaging_point (isZero : ℂ → Bool) (absK : ℂ → ℂ) (wave : κ → ℝ) (time : κ → ℂ) (x : ℝ) (s : NDS κ ℂ) :
    Img.imaging isZero absK { box := false, size := 1 } 1 1 (fun k _ => (wave k : ℂ)) time (fun _ => (x : ℂ)) s
      = fsum (s.ent.map (fun e => (e.2.fp, wave e.1))) x := by
  unfold Img.imaging
  rw [foldl_add_eq_sum]
  simp only [zero_add, fsum, List.map_map]
  congr 1
  apply List.map_congr_left
  intro e _
  simp only [Img.term, List.range_succ, List.range_zero, List.nil_append, List.foldl_cons, List.foldl_nil,
    Function.comp, one_mul, mul_one, zero_add, expc_C, I_C, Bool.false_eq_true, if_false]
  ring_nf

/-- box voxel of size `a`, one axis: every state is weighted by `sinc(k a / 2)` -/
theorem imaging_box (absK : ℂ → ℂ) (wave : κ → ℝ) (time : κ → ℂ) (x a : ℝ) (s : NDS κ ℂ) :
    Img.imaging (fun y => decide (y = 0)) absK { box := true, size := (a : ℂ) } 1 1 (fun k _ => (wave k : ℂ)) time (fun _ => (x : ℂ)) s
      = ((s.ent.map (fun e => (e.2.fp, wave e.1))).map
          (fun e => csinc ((e.2 : ℂ) * a / 2) * e.1 * Complex.exp (I * e.2 * x))).sum := by
  unfold Img.imaging
  rw [foldl_add_eq_sum]
  simp only [zero_add, List.map_map]
  congr 1
  apply List.map_congr_left
  intro e _
  simp only [Img.term, List.range_succ, List.range_zero, List.nil_append, List.foldl_cons, List.foldl_nil, Img.sinc,
    csinc, Function.comp, one_mul, mul_one, zero_add, ofRat_C, sin_C, expc_C, I_C, if_true, decide_eq_true_eq]
  push_cast
  ring_nf

/-- **C15, box voxel**: the value returned for a box voxel of size `a` at `x` is the average over the voxel of the
    values returned for point voxels -/
theorem box_voxel_is_voxel_average (absK : ℂ → ℂ) (wave : κ → ℝ) (time : κ → ℂ) (x a : ℝ) (ha : a ≠ 0) (s : NDS κ ℂ) :
    Img.imaging (fun y => decide (y = 0)) absK { box := true, size := (a : ℂ) } 1 1 (fun k _ => (wave k : ℂ)) time (fun _ => (x : ℂ)) s
      = (1 / (a : ℂ)) * ∫ u in (x - a / 2)..(x + a / 2),
          Img.imaging (fun y => decide (y = 0)) absK { box := false, size := 1 } 1 1 (fun k _ => (wave k : ℂ)) time (fun _ => ((u : ℝ) : ℂ)) s := by
  rw [imaging_box]
  simp only [imaging_point]
  exact (box_is_average _ x a ha).symm

end model

/-- **real modulation** multiplies a state by `exp(rate·|t|)`, **imaginary modulation** by the off-resonance phase
    `exp(i 2π f t)` accumulated over the time coordinate (the character of C04 along the time axis) -/
theorem modulation_term (absK : ℂ → ℂ) (rate f : ℂ) (w : Nat → ℂ) (t F : ℂ) (x : Nat → ℂ) :
    Img.term (fun _ => false) absK { box := false, size := 1, modRe := some rate, modIm := some f } 0 0 x w t F
      = Complex.exp (absK t * rate) * Complex.exp (I * (t * 2 * Real.pi * f)) * F := by
  simp [Img.term]


/-! ### point voxels: the probe is the Bloch isochromat at the voxel position (composition with C04) -/
open EpgVerif.Props.C04 in
/-- the value the probe returns for a point voxel at `x` with imaginary modulation `f` (three axes, time coordinate)
    is the F+ component of the inverse Fourier sum at the character "position x, off-resonance 2πf" -/
theorem imaging_point_is_synth (isZero : ℂ → Bool) (absK : ℂ → ℂ) (kv x : Fin 3 → ℝ) (tv f : ℝ) (s : NDS K4 ℂ)
    (hn : s.keys.Nodup) :
    Img.imaging isZero absK { box := false, size := 1, modIm := some (f : ℂ) } 3 3
        (fun k n => match n with | 0 => (k.x : ℂ) * kv 0 | 1 => (k.y : ℂ) * kv 1 | _ => (k.z : ℂ) * kv 2)
        (fun k => (k.t : ℂ) * tv)
        (fun n => match n with | 0 => (x 0 : ℂ) | 1 => (x 1 : ℂ) | _ => (x 2 : ℂ)) s
      = (synth (posChar kv x tv (2 * Real.pi * f)) s.get).fp := by
  unfold Img.imaging
  rw [foldl_add_eq_sum]
  simp only [zero_add, synth]
  rw [finsum_eq_list_sum s hn (fun k v => v.fp * posChar kv x tv (2 * Real.pi * f) k) (by intro k; simp)]
  congr 1
  apply List.map_congr_left
  intro e _
  simp only [Img.term, List.range_succ, List.range_zero, List.nil_append, List.foldl_cons, List.foldl_nil,
    one_mul, mul_one, zero_add, expc_C, I_C, pi_C, ofRat_C, Bool.false_eq_true, if_false, posChar]
  rw [mul_comm (Complex.exp _) e.2.fp, mul_assoc, ← Complex.exp_add]
  congr 2
  push_cast
  simp only [List.append_assoc, List.cons_append, List.nil_append, List.foldl_cons, List.foldl_nil, zero_add]
  ring

open EpgVerif.Props.C04 in
/-- **C15, point voxel with off-resonance**: after any sequence of RF / relaxation operators, gradient shifts and time
    accumulation, the Imaging probe at `x` with imaginary modulation `f` returns the transverse magnetisation of the
    Bloch isochromat at `x` with off-resonance frequency `f` -/
theorem point_voxel_is_isochromat (isZero : ℂ → Bool) (absK : ℂ → ℂ) (kv x : Fin 3 → ℝ) (tv f : ℝ)
    (ops : List (NOp K4 ℂ)) (hops : ∀ op ∈ ops, RealOp op) (pd : ℝ) :
    Img.imaging isZero absK { box := false, size := 1, modIm := some (f : ℂ) } 3 3
        (fun k n => match n with | 0 => (k.x : ℂ) * kv 0 | 1 => (k.y : ℂ) * kv 1 | _ => (k.z : ℂ) * kv 2)
        (fun k => (k.t : ℂ) * tv)
        (fun n => match n with | 0 => (x 0 : ℂ) | 1 => (x 1 : ℂ) | _ => (x 2 : ℂ))
        ((NDS.init (0 : K4) (pd : ℂ)).run ops)
      = (blochRunN (posChar kv x tv (2 * Real.pi * f)) (pd : ℂ) ops ⟨0, 0, (pd : ℂ)⟩).fp := by
  rw [imaging_point_is_synth _ _ _ _ _ _ _ (nodup_run ops _ (nodup_init _)), position_is_bloch kv x tv _ ops hops pd]

end EpgVerif.Props.C15
