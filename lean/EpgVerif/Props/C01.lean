import Mathlib.Algebra.BigOperators.Finprod
import Mathlib.Algebra.FiniteSupport.Basic
import EpgVerif.Lemmas.OpsLemmas
import EpgVerif.Model.Bloch
import EpgVerif.Lemmas.ExTac
/-
  C01 — EPG states are the Fourier coefficients of a Bloch isochromat ensemble.
  Property theorems only (helper lemmas that are specific to this file are marked `private`).
-/
namespace EpgVerif.Props.C01
open Complex EpgVerif SM

/-- `e^{ikθ}` -/
noncomputable def ph (θ : ℂ) (k : ℤ) : ℂ := cexp (I * k * θ)

/-- Fourier synthesis over the dephasing angle: the magnetisation of the isochromat with
    dephasing angle θ (finite sum: `get` vanishes outside `[-n, n]`). -/
noncomputable def synth (s : SM ℂ) (θ : ℂ) : PS ℂ :=
  ⟨∑ᶠ k : ℤ, (s.get k).fp * ph θ k, ∑ᶠ k : ℤ, (s.get k).fm * ph θ k, ∑ᶠ k : ℤ, (s.get k).z * ph θ k⟩

private theorem fin_of (s : SM ℂ) (g : PS ℂ → ℂ) (hg : g 0 = 0) (θ : ℂ) :
    Function.HasFiniteSupport (fun k : ℤ => g (s.get k) * ph θ k) := by
  show (Function.support _).Finite
  apply Set.Finite.subset (Set.finite_Icc (-(s.n : ℤ)) s.n)
  intro k hk
  by_contra hout
  apply hk
  have : s.get k = 0 := by
    apply get_of_not_inRange
    cases hr : inRange s.n k
    · rfl
    · rw [inRange_iff] at hr; exact absurd (Set.mem_Icc.mpr hr) hout
  simp [this, hg]

private theorem lin3 (s : SM ℂ) (θ a b c : ℂ) :
    ∑ᶠ k : ℤ, (a * (s.get k).fp + b * (s.get k).fm + c * (s.get k).z) * ph θ k
      = a * (synth s θ).fp + b * (synth s θ).fm + c * (synth s θ).z := by
  have h1 := fin_of s (fun p => a * p.fp) (by simp) θ
  have h2 := fin_of s (fun p => b * p.fm) (by simp) θ
  have h3 := fin_of s (fun p => c * p.z) (by simp) θ
  have e : (fun k : ℤ => (a * (s.get k).fp + b * (s.get k).fm + c * (s.get k).z) * ph θ k)
      = fun k => (a * (s.get k).fp * ph θ k + b * (s.get k).fm * ph θ k) + c * (s.get k).z * ph θ k := by
    funext k; ring
  have h12 : Function.HasFiniteSupport
      (fun k : ℤ => a * (s.get k).fp * ph θ k + b * (s.get k).fm * ph θ k) := h1.add h2
  rw [e, finsum_add_distrib h12 h3, finsum_add_distrib h1 h2]
  simp only [synth, mul_finsum, mul_assoc]

private theorem delta (θ v : ℂ) : ∑ᶠ k : ℤ, (if k = 0 then v else 0) * ph θ k = v := by
  rw [finsum_eq_single _ (0 : ℤ) (by intro x hx; simp [hx])]
  simp [ph]

/-- state-wise affine maps commute with synthesis (matrix form) -/
private theorem synth_maffine (s t : SM ℂ) (m : Nat → Nat → ℂ) (v : PS ℂ) (θ : ℂ)
    (h : ∀ k, t.get k = PS.mmul m (s.get k) + (if k = 0 then v else 0)) :
    synth t θ = PS.mmul m (synth s θ) + v := by
  have hc : ∀ (c : PS ℂ → ℂ) (a b d : ℂ), (∀ p, c (PS.mmul m p) = a * p.fp + b * p.fm + d * p.z) →
      (∀ p q, c (p + q) = c p + c q) → c 0 = 0 →
      ∑ᶠ k : ℤ, c (t.get k) * ph θ k
        = a * (synth s θ).fp + b * (synth s θ).fm + d * (synth s θ).z + c v := by
    intro c a b d hm hadd h0
    have e : (fun k : ℤ => c (t.get k) * ph θ k)
        = fun k => (a * (s.get k).fp + b * (s.get k).fm + d * (s.get k).z) * ph θ k
            + (if k = 0 then c v else 0) * ph θ k := by
      funext k
      rw [h k, hadd, hm]
      by_cases hk : k = 0 <;> simp [hk, h0] <;> ring
    rw [e, finsum_add_distrib, lin3, delta]
    · exact fin_of s (fun p => a * p.fp + b * p.fm + d * p.z) (by simp) θ
    · show (Function.support _).Finite
      apply Set.Finite.subset (Set.finite_singleton (0 : ℤ))
      intro k hk
      by_contra h0'
      apply hk
      have : k ≠ 0 := by simpa using h0'
      simp [this]
  apply PS.ext'
  · simpa [synth, PS.mmul] using hc (fun p => p.fp) _ _ _ (fun p => rfl) (fun p q => rfl) rfl
  · simpa [synth, PS.mmul] using hc (fun p => p.fm) _ _ _ (fun p => rfl) (fun p q => rfl) rfl
  · simpa [synth, PS.mmul] using hc (fun p => p.z) _ _ _ (fun p => rfl) (fun p q => rfl) rfl

/-- diagonal matrix of a scalar operator -/
private def diag (a : Nat → ℂ) : Nat → Nat → ℂ := fun i j => if i = j then a i else 0

private theorem dmul_eq_mmul (a : Nat → ℂ) (p : PS ℂ) : PS.dmul a p = PS.mmul (diag a) p := by
  apply PS.ext' <;> simp [PS.dmul, PS.mmul, diag]

private theorem synth_daffine (s t : SM ℂ) (a : Nat → ℂ) (v : PS ℂ) (θ : ℂ)
    (h : ∀ k, t.get k = PS.dmul a (s.get k) + (if k = 0 then v else 0)) :
    synth t θ = PS.dmul a (synth s θ) + v := by
  rw [dmul_eq_mmul]
  exact synth_maffine s t (diag a) v θ (by intro k; rw [h k, dmul_eq_mmul])

/-- **Fourier shift theorem** for the 1-D shift: shifting the phase states by `m` multiplies the
    transverse magnetisation of the isochromat θ by `e^{± i m θ}`. -/
theorem synth_shift (s : SM ℂ) (m : ℤ) (θ : ℂ) :
    synth (shift1d {} m none s) θ = PS.dmul (zrot ((m : ℂ) * θ)) (synth s θ) := by
  have hg := get_shift1d_untruncated m s
  apply PS.ext'
  · -- F+(k) ← F+(k - m)
    simp only [synth, hg, PS.dmul, zrot, expc_C, I_C]
    rw [← finsum_comp_equiv (Equiv.addRight m)]
    simp only [Equiv.coe_addRight, add_sub_cancel_right]
    rw [mul_finsum]
    congr 1; funext k
    simp only [ph]; push_cast
    rw [mul_left_comm, ← Complex.exp_add]; congr 2; ring
  · -- F-(k) ← F-(k + m)
    simp only [synth, hg, PS.dmul, zrot, expc_C, I_C]
    rw [← finsum_comp_equiv (Equiv.subRight m)]
    simp only [Equiv.subRight_apply, sub_add_cancel]
    rw [mul_finsum]
    congr 1; funext k
    simp only [ph]; push_cast
    rw [mul_left_comm, ← Complex.exp_add]; congr 2; ring
  · simp only [synth, hg, PS.dmul, zrot, one_mul]

/-- the simulated state `s` *is* the Fourier description of the isochromat `iso` at angle θ -/
def Rel (θ : ℂ) (s : SM ℂ) (iso : Iso ℂ) : Prop := iso.m = synth s θ ∧ EqWF s iso.pd

/-- no truncation requested by the operator -/
def Untruncated : Op ℂ → Prop
  | .S _ nmax => nmax = none
  | _ => True

private theorem get_delta_mk' (n : Nat) (v : PS ℂ) (g : Int → PS ℂ) (k : ℤ) :
    (mk' n (fun k => if k = 0 then v else 0) g).get k = if k = 0 then v else 0 := by
  rw [get_mk']
  by_cases hk : k = 0
  · subst hk; simp [inRange_zero]
  · simp [hk]

/-- **one operator**: applying an operator to the phase states = applying the corresponding
    Bloch operation to every isochromat of the ensemble. -/
theorem step (θ : ℂ) (op : Op ℂ) (hop : Untruncated op) (s : SM ℂ) (iso : Iso ℂ)
    (h : Rel θ s iso) : Rel θ (applyOp {} op s) (blochOp θ op iso) := by
  obtain ⟨hm, he⟩ := h
  have hz : ∀ k, (s.geq k) = if k = 0 then (⟨0, 0, iso.pd⟩ : PS ℂ) else 0 := he
  cases op with
  | T a p =>
    refine ⟨?_, eqwf_mk' he _ _⟩
    simp only [applyOp, blochOp, hm]
    rw [synth_maffine s (matApply (coeffT a p) s) (coeffT a p) 0 θ (by intro k; rw [get_matApply]; by_cases hk : k = 0 <;> simp [hk])]
    simp
  | Phi p =>
    refine ⟨?_, eqwf_mk' he _ _⟩
    simp only [applyOp, blochOp, hm]
    rw [synth_maffine s (matApply (coeffPhi p) s) (coeffPhi p) 0 θ (by intro k; rw [get_matApply]; by_cases hk : k = 0 <;> simp [hk])]
    simp
  | E tau T1 T2 g =>
    refine ⟨?_, eqwf_mk' he _ _⟩
    simp only [applyOp, blochOp, hm]; symm
    refine (synth_daffine s _ _ (PS.dmul (fun i => Ex.eval (envOf [tau, T1, T2, g]) (Coeff.E.arr0 i)) ⟨0, 0, iso.pd⟩) θ ?_)
    intro k; rw [get_scalApply, hz k]; by_cases hk : k = 0 <;> simp [hk]
  | P tau g =>
    refine ⟨?_, eqwf_mk' he _ _⟩
    simp only [applyOp, blochOp, hm]; symm
    refine (synth_daffine s _ (fun c => Ex.eval (envOf [tau, g]) (Coeff.P.arr c)) 0 θ ?_).trans (by simp)
    intro k; rw [get_scalApply]; by_cases hk : k = 0 <;> simp [hk, PS.dmul]
  | R rT rL r0 =>
    refine ⟨?_, eqwf_mk' he _ _⟩
    simp only [applyOp, blochOp, hm]
    cases r0 with
    | none =>
      symm
      refine (synth_daffine s _ (fun c => Ex.eval (envOf [rT, rL, 0]) (Coeff.R.arr c)) 0 θ ?_).trans (by simp)
      intro k; rw [get_scalApply]; by_cases hk : k = 0 <;> simp [hk, PS.dmul]
    | some r =>
      symm
      refine (synth_daffine s _ (fun c => Ex.eval (envOf [rT, rL, r]) (Coeff.R.arr c)) (PS.dmul (fun i => Ex.eval (envOf [rT, rL, r]) (Coeff.R.arr0 i)) ⟨0, 0, iso.pd⟩) θ ?_).trans (by simp)
      intro k; rw [get_scalApply, hz k]; by_cases hk : k = 0 <;> simp [hk]
  | S k nmax =>
    have : nmax = none := hop
    subst this
    refine ⟨?_, ?_⟩
    · simp only [applyOp, blochOp, hm, intK, ofRat_C]
      rw [synth_shift]; push_cast; rfl
    · intro j
      simp only [applyOp, shift1d, shiftCore]
      rw [geq_mk', geq_resize, hz j]
      by_cases hj : j = 0
      · subst hj; simp [inRange_zero, blochOp]
      · simp [hj]
  | Spoiler =>
    refine ⟨?_, eqwf_mk' he _ _⟩
    simp only [applyOp, blochOp, hm]; symm
    refine (synth_daffine s _ (fun i => if i = 2 then 1 else 0) 0 θ ?_).trans ?_
    · intro k; rw [get_mk']
      by_cases hr : inRange s.n k = true
      · simp [hr, PS.dmul]
      · simp only [hr]; rw [get_of_not_inRange s k (by simpa using hr)]; simp [PS.dmul]
    · apply PS.ext' <;> simp [PS.dmul]
  | Reset =>
    have h0 : s.geq 0 = ⟨0, 0, iso.pd⟩ := by rw [hz 0]; simp
    refine ⟨?_, ?_⟩
    · simp only [applyOp, blochOp]; symm
      refine (synth_daffine s _ (fun _ => 0) ⟨0, 0, iso.pd⟩ θ ?_).trans ?_
      · intro k; rw [get_mk', h0]
        by_cases hk : k = 0
        · subst hk; simp [inRange_zero, PS.dmul]
        · have : inRange 0 k = false := by simp [inRange]; omega
          simp [hk, this, PS.dmul]
      · apply PS.ext' <;> simp [PS.dmul]
    · intro k; simp only [applyOp, blochOp]; rw [geq_mk', h0]
      by_cases hk : k = 0
      · subst hk; simp [inRange_zero]
      · have : inRange 0 k = false := by simp [inRange]; omega
        simp [hk, this]
  | PD pd reset =>
    refine ⟨?_, ?_⟩
    · cases reset with
      | true =>
        simp only [applyOp, blochOp, if_true]; symm
        refine (synth_daffine s _ (fun _ => 0) ⟨0, 0, pd⟩ θ ?_).trans ?_
        · intro k; rw [get_delta_mk']; by_cases hk : k = 0 <;> simp [hk, PS.dmul]
        · apply PS.ext' <;> simp [PS.dmul]
      | false =>
        simp only [applyOp, blochOp, hm]; symm
        refine (synth_daffine s _ (fun _ => 1) 0 θ ?_).trans ?_
        · intro k; simp only [Bool.false_eq_true, if_false]; rw [get_mk']
          by_cases hr : inRange s.n k = true
          · simp [hr, PS.dmul]
          · simp only [hr]; rw [get_of_not_inRange s k (by simpa using hr)]; simp [PS.dmul]
        · apply PS.ext' <;> simp [PS.dmul]
    · intro k; simp only [applyOp, blochOp]; rw [geq_mk']
      by_cases hk : k = 0
      · subst hk; simp [inRange_zero]
      · simp [hk]
  | Wait => exact ⟨hm, he⟩

/-- **C01 (main theorem)**: for every operator sequence (any length, order, repetition), every
    parameter value and every dephasing angle θ, the simulated phase states are the Fourier
    coefficients of the independently simulated Bloch isochromat: running the EPG model and
    then synthesising at θ equals synthesising first and running the Bloch isochromat. -/
theorem run_is_bloch_ensemble (θ : ℂ) (ops : List (Op ℂ)) (hops : ∀ op ∈ ops, Untruncated op)
    (s : SM ℂ) (iso : Iso ℂ) (h : Rel θ s iso) :
    Rel θ (run {} ops s) (blochRun θ ops iso) := by
  induction ops generalizing s iso with
  | nil => exact h
  | cons op ops ih =>
    simp only [run, blochRun]
    exact ih (fun o ho => hops o (List.mem_cons_of_mem _ ho)) _ _
      (step θ op (hops op (List.mem_cons_self)) s iso h)

/-- the relation is satisfiable: the default initial state `[0,0,pd]` describes the isochromat at rest -/
theorem rel_init (θ pd : ℂ) : Rel θ (SM.init pd) ⟨⟨0, 0, pd⟩, pd⟩ := by
  have hg : ∀ k, (SM.init pd).get k = if k = 0 then ⟨0, 0, pd⟩ else 0 := by
    intro k; unfold SM.init; rw [get_mk']
    by_cases hk : k = 0
    · subst hk; simp [inRange_zero]
    · have : inRange 0 k = false := by simp [inRange]; omega
      simp [hk, this]
  refine ⟨?_, ?_⟩
  · have := synth_daffine (SM.init pd) (SM.init pd) (fun _ => 0) ⟨0, 0, pd⟩ θ (by
      intro k; rw [hg k]; by_cases hk : k = 0 <;> simp [hk, PS.dmul])
    rw [this]; apply PS.ext' <;> simp [PS.dmul]
  · intro k; unfold SM.init; rw [geq_mk']
    by_cases hk : k = 0
    · subst hk; simp [inRange_zero]
    · have : inRange 0 k = false := by simp [inRange]; omega
      simp [hk, this]

/-! ### the isochromat's operations are the classical ones (the specification is physics, not a copy of the code) -/
section physics
open EpgVerif.Tie

/-- Cartesian magnetisation vector -/
structure V3 where
  x : ℝ
  y : ℝ
  z : ℝ

/-- the complex basis used by the phase graph: (M+, M-, Mz) = (Mx + i My, Mx − i My, Mz) -/
noncomputable def V3.toPS (m : V3) : PS ℂ := ⟨(m.x : ℂ) + I * m.y, (m.x : ℂ) - I * m.y, (m.z : ℂ)⟩

/-- right-handed rotations about the z and x axes (radians) -/
noncomputable def rotZ (θ : ℝ) (m : V3) : V3 :=
  ⟨Real.cos θ * m.x - Real.sin θ * m.y, Real.sin θ * m.x + Real.cos θ * m.y, m.z⟩
noncomputable def rotX (θ : ℝ) (m : V3) : V3 :=
  ⟨m.x, Real.cos θ * m.y - Real.sin θ * m.z, Real.sin θ * m.y + Real.cos θ * m.z⟩

/-- **an RF pulse `T(α, φ)` is the classical rotation** of the magnetisation by the flip angle α (right-handed) about
    the axis of azimuth φ in the transverse plane: `Rz(φ) Rx(α) Rz(−φ)` in Cartesian coordinates (degrees) -/
theorem T_is_cartesian_rotation (α φ : ℝ) (m : V3) :
    PS.mmul (coeffT (α : ℂ) (φ : ℂ)) m.toPS
      = (rotZ (Real.pi / 180 * φ) (rotX (Real.pi / 180 * α) (rotZ (-(Real.pi / 180 * φ)) m))).toPS := by
  have he : ∀ t : ℂ, Complex.exp (I * t) = Complex.cos t + I * Complex.sin t := by
    intro t; rw [mul_comm, Complex.exp_mul_I]; ring
  have hen : ∀ t : ℂ, Complex.exp (-(I * t)) = Complex.cos t - I * Complex.sin t := by
    intro t
    have := he (-t)
    simp only [mul_neg, Complex.cos_neg, Complex.sin_neg] at this
    rw [this]; ring
  have hI : I ^ 2 = -1 := Complex.I_sq
  apply PS.ext' <;>
  · simp only [PS.mmul, coeffT, V3.toPS, rotZ, rotX]
    ex_unfold
    simp only [envOf, List.getD_cons_zero, List.getD_cons_succ, neg_mul, mul_neg, neg_neg]
    push_cast
    simp only [he, hen, Complex.cos_neg, Complex.sin_neg]
    have h1 := Complex.sin_sq_add_cos_sq ((Real.pi : ℂ) / 180 * (φ : ℂ))
    generalize Complex.cos ((Real.pi : ℂ) / 180 * (φ : ℂ)) = cp at *
    generalize Complex.sin ((Real.pi : ℂ) / 180 * (φ : ℂ)) = sp at *
    generalize Complex.cos ((Real.pi : ℂ) / 180 * (α : ℂ)) = ca at *
    generalize Complex.sin ((Real.pi : ℂ) / 180 * (α : ℂ)) = sa at *
    grind

/-- magnetisation after free evolution over `τ` (the model's / code's `E(τ, T1, T2, g)`) -/
noncomputable def relaxed (T1 T2 g pd : ℝ) (m : PS ℂ) (τ : ℝ) : PS ℂ :=
  (blochOp (K := ℂ) 0 (.E (τ : ℂ) (T1 : ℂ) (T2 : ℂ) (g : ℂ)) ⟨m, (pd : ℂ)⟩).m

theorem relaxed_formula (T1 T2 g pd : ℝ) (m : PS ℂ) (τ : ℝ) :
    relaxed T1 T2 g pd m τ =
      ⟨Complex.exp ((τ : ℂ) * (-(1 / (T2 : ℂ)) + 2 * Real.pi * I * g)) * m.fp,
       Complex.exp ((τ : ℂ) * (-(1 / (T2 : ℂ)) - 2 * Real.pi * I * g)) * m.fm,
       Complex.exp (-((τ : ℂ) / T1)) * m.z + (1 - Complex.exp (-((τ : ℂ) / T1))) * pd⟩ := by
  have hr : ∀ i, (starRingEnd ℂ) (envOf [(τ : ℂ), (T1 : ℂ), (T2 : ℂ), (g : ℂ)] i) = envOf [(τ : ℂ), (T1 : ℂ), (T2 : ℂ), (g : ℂ)] i := by
    intro i
    match i with
    | 0 => simp [envOf]
    | 1 => simp [envOf]
    | 2 => simp [envOf]
    | 3 => simp [envOf]
    | (n + 4) => simp [envOf]
  apply PS.ext'
  · simp only [relaxed, blochOp, PS.dmul, PS.add_fp]
    ex_unfold
    simp only [envOf, List.getD_cons_zero, List.getD_cons_succ, mul_zero, add_zero, ← Complex.exp_conj]
    push_cast
    simp only [map_neg, map_mul, map_add, map_div₀, map_one, map_ofNat, Complex.conj_ofReal, Complex.conj_I]
    congr 2; ring
  · simp only [relaxed, blochOp, PS.dmul, PS.add_fm]
    ex_unfold
    simp only [envOf, List.getD_cons_zero, List.getD_cons_succ, mul_zero, add_zero]
    push_cast
    congr 2; ring
  · simp only [relaxed, blochOp, PS.dmul, PS.add_z]
    ex_unfold
    simp only [envOf, List.getD_cons_zero, List.getD_cons_succ]

/-- **free evolution solves the Bloch equations**: transverse decay at rate 1/T2 with precession at the frequency g,
    longitudinal recovery towards the equilibrium at rate 1/T1; and `τ = 0` is the identity -/
theorem E_solves_bloch (T1 T2 g pd : ℝ) (m : PS ℂ) (τ : ℝ) :
    HasDerivAt (fun t : ℝ => (relaxed T1 T2 g pd m t).fp)
        ((-(1 / (T2 : ℂ)) + 2 * Real.pi * I * g) * (relaxed T1 T2 g pd m τ).fp) τ ∧
    HasDerivAt (fun t : ℝ => (relaxed T1 T2 g pd m t).fm)
        ((-(1 / (T2 : ℂ)) - 2 * Real.pi * I * g) * (relaxed T1 T2 g pd m τ).fm) τ ∧
    HasDerivAt (fun t : ℝ => (relaxed T1 T2 g pd m t).z)
        (((pd : ℂ) - (relaxed T1 T2 g pd m τ).z) / T1) τ ∧
    relaxed T1 T2 g pd m 0 = m := by
  have hexp : ∀ c : ℂ, HasDerivAt (fun t : ℝ => Complex.exp ((t : ℂ) * c)) (c * Complex.exp ((τ : ℂ) * c)) τ := by
    intro c
    have h1 : HasDerivAt (fun t : ℝ => (t : ℂ) * c) c τ := by
      simpa using (Complex.ofRealCLM.hasDerivAt (x := τ)).mul_const c
    have := (Complex.hasDerivAt_exp ((τ : ℂ) * c)).scomp τ h1
    exact this.congr_deriv (by rw [smul_eq_mul])
  simp only [relaxed_formula]
  refine ⟨?_, ?_, ?_, ?_⟩
  · have := (hexp (-(1 / (T2 : ℂ)) + 2 * Real.pi * I * g)).mul_const m.fp
    exact this.congr_deriv (by ring)
  · have := (hexp (-(1 / (T2 : ℂ)) - 2 * Real.pi * I * g)).mul_const m.fm
    exact this.congr_deriv (by ring)
  · by_cases hT : (T1 : ℂ) = 0
    · -- the model divides by T1 = 0 as Lean does (x / 0 = 0): constant functions
      simp only [hT, div_zero, neg_zero, Complex.exp_zero, one_mul, sub_self, zero_mul, add_zero]
      exact hasDerivAt_const τ m.z
    · have he := hexp (-(1 / (T1 : ℂ)))
      have e : (fun t : ℝ => Complex.exp (-((t : ℂ) / T1))) = fun t : ℝ => Complex.exp ((t : ℂ) * -(1 / (T1 : ℂ))) := by
        funext t; congr 1; field_simp
      have h1 : HasDerivAt (fun t : ℝ => Complex.exp (-((t : ℂ) / T1))) (-(1 / (T1 : ℂ)) * Complex.exp (-((τ : ℂ) / T1))) τ := by
        rw [e]; refine he.congr_deriv ?_; congr 2; field_simp
      have := (h1.mul_const m.z).add (((hasDerivAt_const τ (1 : ℂ)).sub h1).mul_const (pd : ℂ))
      refine this.congr_deriv ?_
      field_simp
      ring
  · apply PS.ext' <;> simp

end physics

end EpgVerif.Props.C01
