import EpgVerif.Props.C03Run
/-
  C03, the bookkeeping value under a mixed pair for ANY operator class and ANY parameter lists: with
      order1 = {a: la, b: lb},   order2 = {(a, b): l2},   a < b,
  `_apply_order2` stores under (a, b)
      L H + Σ_{l2} c·D_p s + Σ_{lb} c·D_p J_a + Σ_{la} c·D_p J_b + Σ_{la × lb, supported} (c_p c_q)·D²_{pq} s.
-/
namespace EpgVerif.Props.C03
open EpgVerif Diff Ex Finset EpgVerif.Props.C02

section bookkeeping
variable {K C : Type} [CommSemiring K] [AddCommMonoid C] [Module K C]

theorem pairVar_value (op : DOp K C) (a b : Var) (hab : a < b) (la lb l2 : List (Param × K))
    (h1 : op.order1 = [(a, la), (b, lb)]) (h2 : op.order2 = [((a, b), l2)]) (hauto : op.auto = false)
    (h0 : op.derive0 0 = 0) (s Ja Jb H : C) :
    val (applyOrder2 (modCar (K := K)) op s [(a, Ja), (b, Jb)] [((a, b), H)]) (a, b)
      = op.derive0 H
        + (l2.map (fun pc => pc.2 • op.derive1 pc.1 s)).sum
        + (lb.map (fun pc => pc.2 • op.derive1 pc.1 Ja)).sum
        + (la.map (fun pc => pc.2 • op.derive1 pc.1 Jb)).sum
        + (la.map (fun p1 => (lb.map (fun p2 =>
            if supported op p1.1 p2.1 then (p1.2 * p2.2) • op.derive2 (pair p1.1 p2.1) s else 0)).sum)).sum := by
  obtain ⟨p1, p2⟩ := pair_lt hab
  have hne : a ≠ b := ne_of_lt hab
  have hne' : b ≠ a := fun h => hne h.symm
  have hs : Sorted (a, b) := by
    intro hgt; exact absurd (lt_trans hab hgt) (lt_irrefl a)
  have hle : a ≤ b := le_of_lt hab
  have hnle : ¬ b ≤ a := not_le.mpr hab
  have hge : b ≥ a := hle
  have hnge : ¬ a ≥ b := hnle
  rw [order2_accumulates_every_term_once _ h0 _ _ _ _ hs]
  have e0 : val (normalize [((a, b), H)]) (a, b) = H := by
    simp [Diff.normalize, pairOf, p1, Diff.insert, hasKey, Diff.val, lookup]
  have hp : pairOf (a, b) = (a, b) := p1
  have eA : tot (termsA (modCar (K := K)) op s) (a, b) = (l2.map (fun pc => pc.2 • op.derive1 pc.1 s)).sum := by
    simp only [termsA, h2, List.flatMap_cons, List.flatMap_nil, List.append_nil, hp]
    rw [tot_map_const_key]; simp [modCar]
  have ga : order1Get op a = la := by simp [order1Get, h1, lookup]
  have gb : order1Get op b = lb := by simp [order1Get, h1, lookup, hne]
  have eB := termsB_single op s a b l2 h2 hs
  rw [ga, gb] at eB
  have paa : pair a a = (a, a) := by simp [pair]
  have pbb : pair b b = (b, b) := by simp [pair]
  have vc : varsCross op [(a, Ja), (b, Jb)] = [(a, b)] := by
    simp [varsCross, hauto, h2, dedup]
  have n1 : ((a, a) : VPair) ≠ (a, b) := by simp [hne]
  have n2 : ((b, b) : VPair) ≠ (a, b) := by simp [hne']
  have eX1 : tot (termsX (modCar (K := K)) op [(a, Ja), (b, Jb)] (fun v1 v2 => v1 ≥ v2)) (a, b)
      = (la.map (fun pc => pc.2 • op.derive1 pc.1 Jb)).sum := by
    unfold termsX
    rw [vc, h1]
    simp only [List.flatMap_cons, List.flatMap_nil, List.append_nil, paa, pbb, p1, p2, List.contains_cons, List.contains_nil,
      Bool.or_false, beq_iff_eq, n1, n2, decide_false, Bool.false_and, if_false, List.nil_append, decide_true, Bool.true_and,
      hge, hnge, List.append_nil, Bool.and_false, Bool.and_true, if_true, beq_self_eq_true, ge_iff_le, le_refl]
    simp only [Bool.false_eq_true, if_false, List.nil_append]
    rw [tot_map_const_key]; simp [modCar]
  have eX2 : tot (termsX (modCar (K := K)) op [(a, Ja), (b, Jb)] (fun v1 v2 => v1 ≤ v2)) (a, b)
      = (lb.map (fun pc => pc.2 • op.derive1 pc.1 Ja)).sum := by
    unfold termsX
    rw [vc, h1]
    simp only [List.flatMap_cons, List.flatMap_nil, List.append_nil, paa, pbb, p1, p2, List.contains_cons, List.contains_nil,
      Bool.or_false, beq_iff_eq, n1, n2, decide_false, Bool.false_and, if_false, List.nil_append, decide_true, Bool.true_and,
      hle, hnle, List.append_nil, Bool.and_false, Bool.and_true, if_true, beq_self_eq_true, ge_iff_le, le_refl]
    simp only [Bool.false_eq_true, if_false, List.append_nil]
    rw [tot_map_const_key]; simp [modCar]
  rw [e0, eA, eB, eX1, eX2]
  abel

end bookkeeping
/-! ### the analytic side for a diagonal-affine operator with any number of parameters (E, P, R) -/

theorem PSHasDeriv.psSum' (N : Nat) (f : Nat → ℝ → PS ℂ) (f' : Nat → PS ℂ) (y0 : ℝ)
    (h : ∀ p, p < N → PSHasDeriv (f p) (f' p) y0) :
    PSHasDeriv (fun y => psSum N (fun p => f p y)) (psSum N f') y0 := by
  refine ⟨?_, ?_, ?_⟩
  · have := HasDerivAt.fun_sum (u := range N) (A := fun p y => (f p y).fp) (A' := fun p => (f' p).fp)
      (fun p hp => (h p (Finset.mem_range.mp hp)).1)
    simpa [psSum] using this
  · have := HasDerivAt.fun_sum (u := range N) (A := fun p y => (f p y).fm) (A' := fun p => (f' p).fm)
      (fun p hp => (h p (Finset.mem_range.mp hp)).2.1)
    simpa [psSum] using this
  · have := HasDerivAt.fun_sum (u := range N) (A := fun p y => (f p y).z) (A' := fun p => (f' p).z)
      (fun p hp => (h p (Finset.mem_range.mp hp)).2.2)
    simpa [psSum] using this

/-- **mixed second derivative through a diagonal-affine operator with `N` parameters** (`states ← A·states + A0·eq`):
    the parameters move along `b` with slopes `cB`, the slopes `sa` of `a` move with `b` with slopes `c2` -/
theorem scal_mixed_step (A A0 : Nat → Ex) (N : Nat) (par sa : Nat → ℝ → ℝ) (cB c2 : Nat → ℝ) (y0 : ℝ)
    (hpar : ∀ j, j < N → HasDerivAt (par j) (cB j) y0) (hsa : ∀ j, j < N → HasDerivAt (sa j) (c2 j) y0)
    (hd : ∀ i, Defined (fun j => if j < N then ((par j y0 : ℝ) : ℂ) else 0) (A i)
            ∧ Defined (fun j => if j < N then ((par j y0 : ℝ) : ℂ) else 0) (A0 i))
    (e : PS ℂ) (s Ja : ℝ → PS ℂ) (Jb H : PS ℂ) (hs : PSHasDeriv s Jb y0) (hJ : PSHasDeriv Ja H y0) :
    let env := fun (y : ℝ) (j : Nat) => if j < N then ((par j y : ℝ) : ℂ) else 0
    let D := fun (f : Ex → Ex) (T : Nat → Ex) (i : Nat) => eval (env y0) (f (T i))
    PSHasDeriv (fun y => PS.dmul (fun i => eval (env y) (A i)) (Ja y)
        + psSum N (fun p => PS.smul ((sa p y : ℝ) : ℂ)
            (PS.dmul (fun i => eval (env y) (d p (A i))) (s y) + PS.dmul (fun i => eval (env y) (d p (A0 i))) e)))
      (PS.dmul (D id A) H
        + psSum N (fun l => PS.smul (cB l : ℂ) (PS.dmul (D (d l) A) (Ja y0)))
        + psSum N (fun p =>
            PS.smul ((sa p y0 : ℝ) : ℂ)
              (PS.dmul (D (d p) A) Jb
                + psSum N (fun l => PS.smul (cB l : ℂ)
                    (PS.dmul (D (fun x => d l (d p x)) A) (s y0) + PS.dmul (D (fun x => d l (d p x)) A0) e)))
            + PS.smul (c2 p : ℂ) (PS.dmul (D (d p) A) (s y0) + PS.dmul (D (d p) A0) e))) y0 := by
  intro env D
  let c : Nat → ℂ := fun j => if j < N then (cB j : ℂ) else 0
  have henv : ∀ j, HasDerivAt (fun y => env y j) (c j) y0 := by
    intro j
    by_cases hj : j < N
    · simpa [env, c, hj] using (hpar j hj).ofReal_comp
    · simpa [env, c, hj] using hasDerivAt_const y0 (0 : ℂ)
  have hc : ∀ j, N ≤ j → c j = 0 := by
    intro j hj
    have : ¬ j < N := by omega
    simp [c, this]
  have hcr : ∀ j, (starRingEnd ℂ) (c j) = c j := by
    intro j
    by_cases hj : j < N <;> simp [c, hj]
  have hz : ∀ i, Defined (env y0) (A i) ∧ Defined (env y0) (Ex.zero) := fun i => ⟨(hd i).1, trivial⟩
  -- first term: A·J_a (the partial has no equilibrium)
  have h1 := scal_step A (fun _ => Ex.zero) env c N y0 henv hc hcr hz 0 Ja H hJ
  simp only [PS.dmul_zero, PS.add_zero'] at h1
  -- p-th term: sa_p · (∂_p A · s + ∂_p A0 · e)
  have hp : ∀ p, p < N → PSHasDeriv
      (fun y => PS.smul ((sa p y : ℝ) : ℂ)
          (PS.dmul (fun i => eval (env y) (d p (A i))) (s y) + PS.dmul (fun i => eval (env y) (d p (A0 i))) e))
      (PS.smul ((sa p y0 : ℝ) : ℂ)
          (PS.dmul (fun i => eval (env y0) (d p (A i))) Jb
            + psSum N (fun l => PS.smul (c l)
                (PS.dmul (fun i => eval (env y0) (d l (d p (A i)))) (s y0) + PS.dmul (fun i => eval (env y0) (d l (d p (A0 i)))) e)))
        + PS.smul ((c2 p : ℝ) : ℂ)
          (PS.dmul (fun i => eval (env y0) (d p (A i))) (s y0) + PS.dmul (fun i => eval (env y0) (d p (A0 i))) e)) y0 := by
    intro p hp
    have hdp : ∀ i, Defined (env y0) (d p (A i)) ∧ Defined (env y0) (d p (A0 i)) :=
      fun i => ⟨defined_d _ p _ (hd i).1, defined_d _ p _ (hd i).2⟩
    have := scal_step (fun i => d p (A i)) (fun i => d p (A0 i)) env c N y0 henv hc hcr hdp e s Jb hs
    exact PSHasDeriv.rsmul (hsa p hp) this
  have hsum := PSHasDeriv.psSum' N _ _ y0 hp
  have hall := PSHasDeriv.add' h1 hsum
  obtain ⟨a1, a2, a3⟩ := hall
  have cl : ∀ l, l < N → c l = (cB l : ℂ) := fun l hl => by simp [c, hl]
  refine ⟨a1.congr_deriv ?_, a2.congr_deriv ?_, a3.congr_deriv ?_⟩ <;>
  · simp only [PS.dmul, PS.smul, PS.add_fp, PS.add_fm, PS.add_z, psSum, D, id, Ex.eval, PS.zero_fp, PS.zero_fm, PS.zero_z,
      mul_zero, add_zero]
    have e1 : ∀ (g : Nat → ℂ), ∑ l ∈ range N, c l * g l = ∑ l ∈ range N, (cB l : ℂ) * g l :=
      fun g => Finset.sum_congr rfl (fun l hl => by rw [cl l (Finset.mem_range.mp hl)])
    simp only [e1]

end EpgVerif.Props.C03
