import Mathlib.Tactic.Ring
import Mathlib.Tactic.Linarith
import EpgVerif.Model.Shape
/-
  C07 — shape algebra behind "vectorised = stack of scalar simulations": parameter axes are aligned
  from the first axis (append semantics), incompatible shapes raise, the coefficient arrays are
  paired with the state batch axes left-aligned although numpy broadcasts right-aligned.
-/
namespace EpgVerif.Props.C07
open EpgVerif Shp

theorem bdim_comm (a b : Nat) : bdim a b = bdim b a := by
  unfold bdim
  by_cases ha : a = 1 <;> by_cases hb : b = 1 <;> simp [ha, hb]
  · by_cases hab : a = b
    · subst hab; simp
    · have : ¬ b = a := fun h => hab h.symm
      simp [hab, this]

/-- `broadcast_shapes` is commutative (the shape of `a @ b`, `a * b`, `getshape([a, b])` does not
    depend on the order) -/
theorem broadcast2_comm : ∀ (a b : Shape), broadcast2 a b = broadcast2 b a
  | [], [] => rfl
  | [], _ :: _ => by simp [broadcast2]
  | _ :: _, [] => by simp [broadcast2]
  | x :: a, y :: b => by
    simp only [broadcast2]
    rw [bdim_comm x y, broadcast2_comm a b]

/-- idempotent -/
theorem broadcast2_self : ∀ (a : Shape), broadcast2 a a = some a
  | [] => rfl
  | x :: a => by
    simp only [broadcast2, broadcast2_self a]
    by_cases hx : x = 1 <;> simp [bdim, hx]

/-- **result specification**: when it succeeds, every axis of the result is the unique non-1 size of
    the two operands on that axis (aligned from the FIRST axis), or 1 -/
theorem broadcast2_spec : ∀ (a b r : Shape), broadcast2 a b = some r →
    r.length = max a.length b.length ∧
    ∀ i, i < r.length → (dimA a i = 1 ∨ dimA a i = dimA r i) ∧ (dimA b i = 1 ∨ dimA b i = dimA r i) ∧
      (dimA r i = dimA a i ∨ dimA r i = dimA b i)
  | [], b, r, h => by
    simp only [broadcast2, Option.some.injEq] at h; subst h
    refine ⟨by simp, ?_⟩
    intro i _; simp [dimA]
  | x :: a, [], r, h => by
    simp only [broadcast2, Option.some.injEq] at h; subst h
    refine ⟨by simp, ?_⟩
    intro i _; simp [dimA]
  | x :: a, y :: b, r, h => by
    simp only [broadcast2] at h
    cases hd : bdim x y with
    | none => simp [hd] at h
    | some d =>
      cases hr : broadcast2 a b with
      | none => simp [hd, hr] at h
      | some r' =>
        simp only [hd, hr, Option.some.injEq] at h
        subst h
        obtain ⟨hl, hs⟩ := broadcast2_spec a b r' hr
        refine ⟨by simp [hl], ?_⟩
        intro i hi
        cases i with
        | zero =>
          simp only [dimA, List.getD_cons_zero]
          unfold bdim at hd
          by_cases hx : x = 1
          · simp only [hx, if_true, Option.some.injEq] at hd; subst hd; simp [hx]
          · by_cases hy : y = 1
            · simp only [hx, hy, if_true, if_false, Option.some.injEq] at hd; subst hd; simp [hy]
            · by_cases hxy : x = y
              · simp only [hx, hy, hxy, if_true, if_false, Option.some.injEq] at hd; subst hd; simp [hxy]
              · simp [hx, hy, hxy] at hd
        | succ j =>
          have := hs j (by simpa using hi)
          simpa [dimA] using this

/-- **incompatible shapes raise**: failure happens exactly when some aligned axis carries two
    different sizes both different from 1 -/
theorem broadcast2_none_iff : ∀ (a b : Shape), broadcast2 a b = none ↔
    ∃ i, i < min a.length b.length ∧ dimA a i ≠ 1 ∧ dimA b i ≠ 1 ∧ dimA a i ≠ dimA b i
  | [], b => by simp [broadcast2]
  | x :: a, [] => by simp [broadcast2]
  | x :: a, y :: b => by
    simp only [broadcast2]
    have ih := broadcast2_none_iff a b
    constructor
    · intro h
      cases hd : bdim x y with
      | none =>
        refine ⟨0, by simp, ?_⟩
        unfold bdim at hd
        by_cases hx : x = 1
        · simp [hx] at hd
        · by_cases hy : y = 1
          · simp [hx, hy] at hd
          · by_cases hxy : x = y
            · simp [hx, hy, hxy] at hd
            · simp [dimA, hx, hy, hxy]
      | some d =>
        cases hr : broadcast2 a b with
        | none =>
          obtain ⟨i, hi, h1, h2, h3⟩ := ih.mp hr
          exact ⟨i + 1, by simp; omega, by simpa [dimA] using h1, by simpa [dimA] using h2, by simpa [dimA] using h3⟩
        | some r => simp [hd, hr] at h
    · rintro ⟨i, hi, h1, h2, h3⟩
      cases i with
      | zero =>
        simp only [dimA, List.getD_cons_zero] at h1 h2 h3
        have : bdim x y = none := by simp [bdim, h1, h2, h3]
        simp [this]
      | succ j =>
        have hr : broadcast2 a b = none := ih.mpr ⟨j, by simp at hi; omega, by simpa [dimA] using h1,
          by simpa [dimA] using h2, by simpa [dimA] using h3⟩
        cases hd : bdim x y <;> simp [hr]

private theorem zip_take_append (s pad idx : List Nat) (h : s.length ≤ idx.length) :
    ((s ++ pad).zip idx).take s.length = s.zip idx := by
  induction s generalizing idx with
  | nil => simp
  | cons x s ih =>
    cases idx with
    | nil => simp at h
    | cons j idx =>
      simp only [List.length_cons, List.cons_append, List.zip_cons_cons, List.take_succ_cons]
      rw [ih idx (by simpa using h)]

/-- **append semantics through right-aligned broadcasting**: a coefficient array of batch shape
    `s` (length m) applied to states of batch shape of length n ≥ m is first given n − m new axes
    *after* its batch axes; numpy's right-aligned pairing of the padded shape with an index of
    length n then is exactly the left-aligned pairing of `s` with that index. -/
theorem insert_axes_realises_append (s : Shape) (idx : List Nat) (h : s.length ≤ idx.length) :
    (alignRight (expandAppend idx.length s) idx).take s.length = alignLeft s idx := by
  unfold alignRight alignLeft expandAppend
  have hlen : (s ++ List.replicate (idx.length - s.length) 1).length = idx.length := by
    simp; omega
  rw [hlen]
  simp only [Nat.sub_self, List.drop_zero]
  rw [← List.map_take, zip_take_append s _ idx h]

/-- `axes=k` places the parameter's first axis on axis `k` of the simulation -/
theorem setAxes_places_axis (batch : Shape) (axis i : Nat) :
    dimA (setAxes batch axis) (axis + i) = dimA batch i ∧ (i < axis → dimA (setAxes batch axis) i = 1) := by
  unfold setAxes dimA
  constructor
  · simp [List.getD_eq_getElem?_getD, List.getElem?_append_right]
  · intro hi
    simp [List.getD_eq_getElem?_getD, List.getElem?_append_left, hi]

end EpgVerif.Props.C07
