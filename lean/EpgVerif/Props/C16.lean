import Mathlib.Tactic.Ring
import Mathlib.Tactic.Linarith
import EpgVerif.Model.Coll
/-
  C16 — array container: the cached shape / per-array shapes / named axes stay consistent with
  a recomputation from the stored arrays after ANY history of calls (invariant by induction over
  histories of any length); returned shapes; centred resize.
-/
namespace EpgVerif.Props.C16
open EpgVerif Coll

/-- calls of the collection API (shape level) -/
inductive Call where
  | set (name : String) (shape : Shape) (layout : Option Layout) (resize check : Bool)
  | pop (name : String)
  | resize (ax : String) (size : Nat)
  | expand (ndim : Nat)
  | reduce (ndim : Nat)
  | broadcast (shape : Shape)
  | copy

/-- one call; a rejected call (`ValueError`) leaves the collection unchanged -/
def step (c : C) : Call → C
  | .set n s l r k => match Coll.set c n s l r k with | .ok c' => c' | .error _ => c
  | .pop n => Coll.pop c n
  | .resize a s => match Coll.resize c a s with | .ok c' => c' | .error _ => c
  | .expand n => Coll.expand c n
  | .reduce n => Coll.reduce c n
  | .broadcast s => match Coll.broadcast c s with | .ok c' => c' | .error _ => c
  | .copy => c

theorem inv_updateShape (c : C) (h : c.axes = namedAxes c.arrays none) : Inv (updateShape c) := by
  refine ⟨rfl, rfl, h⟩

theorem inv_init (d : Option Shape) (ax : Int) : Inv (Coll.init d ax) := by
  unfold Coll.init; exact inv_updateShape _ rfl

theorem inv_set (c : C) (n : String) (s : Shape) (l : Option Layout) (r k : Bool) (c' : C)
    (h : Coll.set c n s l r k = .ok c') : Inv c' := by
  unfold Coll.set at h
  simp only at h
  split at h
  · exact absurd h (by simp)
  · split at h
    · exact absurd h (by simp)
    · simp only [Except.ok.injEq] at h
      subst h
      exact ⟨rfl, rfl, rfl⟩

theorem inv_pop (c : C) (hc : Inv c) (n : String) : Inv (Coll.pop c n) := by
  unfold Coll.pop
  split
  · exact ⟨rfl, rfl, rfl⟩
  · exact hc

theorem inv_expand (c : C) (hc : Inv c) (n : Nat) : Inv (Coll.expand c n) := by
  unfold Coll.expand; exact inv_updateShape _ hc.2.2

theorem inv_reduce (c : C) (hc : Inv c) (n : Nat) : Inv (Coll.reduce c n) := by
  unfold Coll.reduce; exact inv_updateShape _ hc.2.2

theorem inv_broadcast (c : C) (hc : Inv c) (s : Shape) (c' : C) (h : Coll.broadcast c s = .ok c') : Inv c' := by
  unfold Coll.broadcast at h
  split at h
  · exact absurd h (by simp)
  · simp only [Except.ok.injEq] at h; subst h; exact inv_updateShape _ hc.2.2

theorem dictGet_map (l : List (String × Entry)) (f : Entry → Shape) (n : String) (e : Entry)
    (h : dictGet l n = some e) : dictGet (l.map (fun x => (x.1, f x.2))) n = some (f e) := by
  unfold dictGet at *
  induction l with
  | nil => simp at h
  | cons x xs ih =>
    by_cases hx : x.1 = n
    · simp only [List.find?, hx, decide_true, Option.map_some, Option.some.injEq, List.map_cons] at h ⊢
      rw [h]
    · simp only [List.find?, hx, decide_false, List.map_cons] at h ⊢
      exact ih h

/-- **returned shape**: under the invariant, `get` returns the array's own sizes on its
    non-broadcast axes and the collection's common shape on the broadcast axes
    (`shape[start:end] = common shape`, prefix and suffix untouched) -/
theorem get_shape_spec (c : C) (hc : Inv c) (n : String) (e : Entry) (he : dictGet c.arrays n = some e) :
    Coll.get c n = some (e.shape.take (ellIdx e.layout) ++ c.shape
      ++ e.shape.drop ((e.shape.length : Int) - ((e.layout.length : Int) - ellIdx e.layout - 1)).toNat) := by
  unfold Coll.get
  rw [he]
  simp only
  rw [hc.2.1]
  have := dictGet_map c.arrays (fun e => broadcastShape c.shape e.shape e.layout) n e he
  unfold computeShapes
  simpa [broadcastShape] using this

theorem slice_set_outside (xs : Shape) (k v a b : Nat) (h : k < a ∨ b ≤ k) :
    slice (xs.set k v) a b = slice xs a b := by
  unfold slice
  rcases h with h | h
  · rw [List.drop_set_of_lt h]
  · by_cases hka : k < a
    · rw [List.drop_set_of_lt hka]
    · have hak : a ≤ k := Nat.le_of_not_lt hka
      rw [List.drop_set, if_neg hka]
      exact List.take_set_of_le (by omega)

/-- resizing a named axis never touches the broadcast part of an array -/
theorem sharedAxes_resize (e : Entry) (ax : String) (size : Nat) (hmem : e.layout.contains (.named ax) = true) :
    let i := e.layout.idxOf (.named ax)
    let axis := if ellIdx e.layout < i then ((e.shape.length : Int) - e.layout.length + i).toNat else i
    sharedAxes (resizeShape e.shape axis size) e.layout = sharedAxes e.shape e.layout := by
  intro i axis
  unfold sharedAxes resizeShape
  simp only [List.length_set]
  apply slice_set_outside
  have hi : i < e.layout.length := by
    have : (LItem.named ax) ∈ e.layout := by simpa using hmem
    exact List.idxOf_lt_length_iff.mpr this
  have hne : i ≠ ellIdx e.layout := by
    intro heq
    have h1 : e.layout[i]? = some (.named ax) := by
      have : (LItem.named ax) ∈ e.layout := by simpa using hmem
      rw [List.getElem?_eq_getElem hi]
      simp only [i, List.getElem_idxOf]
    by_cases hell : LItem.ell ∈ e.layout
    · have h2 : e.layout[ellIdx e.layout]? = some .ell := by
        have hl : ellIdx e.layout < e.layout.length := List.idxOf_lt_length_iff.mpr hell
        rw [List.getElem?_eq_getElem hl]
        simp only [ellIdx, List.getElem_idxOf]
      rw [heq] at h1
      rw [h1] at h2
      simp at h2
    · have : ellIdx e.layout = e.layout.length := by
        unfold ellIdx; exact List.idxOf_eq_length hell
      omega
  by_cases hlt : ellIdx e.layout < i
  · right
    simp only [axis, hlt, if_true]
    omega
  · left
    simp only [axis, hlt, if_false]
    omega

theorem inv_resize (c : C) (hc : Inv c) (ax : String) (size : Nat) (c' : C)
    (h : Coll.resize c ax size = .ok c') : Inv c' := by
  unfold Coll.resize at h
  split at h
  · exact absurd h (by simp)
  · split at h
    · simp only [Except.ok.injEq] at h; subst h; exact hc
    · simp only [Except.ok.injEq] at h
      subst h
      refine ⟨?_, rfl, rfl⟩
      simp only
      rw [hc.1]
      have hshared : sharedList (c.arrays.map (fun x =>
            if x.2.layout.contains (.named ax) then
              let i := x.2.layout.idxOf (.named ax)
              let axis := if ellIdx x.2.layout < i then ((x.2.shape.length : Int) - x.2.layout.length + i).toNat else i
              (x.1, { x.2 with shape := resizeShape x.2.shape axis size })
            else (x.1, x.2))) c.default = sharedList c.arrays c.default := by
        unfold sharedList
        congr 1
        rw [List.map_map]
        apply List.map_congr_left
        intro x _
        simp only [Function.comp]
        by_cases hm : x.2.layout.contains (.named ax) = true
        · simp only [hm, if_true]
          exact sharedAxes_resize x.2 ax size hm
        · have hm' : ¬ (LItem.named ax ∈ x.2.layout) := by simpa using hm
          simp [hm']
      unfold computeShape
      simp only
      rw [hshared]

/-- **one call preserves the invariant** (whether accepted or rejected) -/
theorem inv_step (c : C) (hc : Inv c) (call : Call) : Inv (step c call) := by
  cases call with
  | set n s l r k =>
    simp only [step]
    cases h : Coll.set c n s l r k with
    | ok c' => exact inv_set c n s l r k c' h
    | error e => exact hc
  | pop n => exact inv_pop c hc n
  | resize a s =>
    simp only [step]
    cases h : Coll.resize c a s with
    | ok c' => exact inv_resize c hc a s c' h
    | error e => exact hc
  | expand n => exact inv_expand c hc n
  | reduce n => exact inv_reduce c hc n
  | broadcast s =>
    simp only [step]
    cases h : Coll.broadcast c s with
    | ok c' => exact inv_broadcast c hc s c' h
    | error e => exact hc
  | copy => exact hc

/-- **after any history of calls, of any length**, the cached common shape, the cached per-array
    shapes and the named-axes table are what a recomputation from the stored arrays gives. -/
theorem inv_reachable (d : Option Shape) (ax : Int) (history : List Call) :
    Inv (history.foldl step (Coll.init d ax)) := by
  have gen : ∀ c, Coll.Inv c → Inv (history.foldl step c) := by
    induction history with
    | nil => intro c hc; exact hc
    | cons call rest ih => intro c hc; exact ih _ (inv_step c hc call)
  exact gen _ (inv_init d ax)

/-- `resize_array` along one axis: crop / pad offsets of the code -/
def cropLo (old new : Nat) : Nat := (old - new) / 2
def padLo (old new : Nat) : Nat := (new - old) / 2

/-- values of a 1-D resize: zero padding or centred crop -/
def resizeVals (xs : List Int) (new : Nat) : List Int :=
  if new ≤ xs.length then (xs.drop (cropLo xs.length new)).take new
  else List.replicate (padLo xs.length new) 0 ++ xs ++ List.replicate (new - xs.length - padLo xs.length new) 0

/-- the resized axis has the requested size -/
theorem resizeVals_length (xs : List Int) (new : Nat) : (resizeVals xs new).length = new := by
  unfold resizeVals cropLo padLo
  split
  · simp only [List.length_take, List.length_drop]; omega
  · simp only [List.length_append, List.length_replicate]; omega

/-- cropping keeps the retained values (a contiguous centred window) -/
theorem resizeVals_crop (xs : List Int) (new : Nat) (h : new ≤ xs.length) (i : Nat) (hi : i < new) :
    (resizeVals xs new)[i]? = xs[i + cropLo xs.length new]? := by
  unfold resizeVals
  simp only [h, if_true, List.getElem?_take, hi, List.getElem?_drop]
  congr 1; omega

/-- padding keeps every old value, shifted by the leading pad, and adds zeros only -/
theorem resizeVals_pad (xs : List Int) (new : Nat) (h : xs.length < new) (i : Nat) (hi : i < xs.length) :
    (resizeVals xs new)[i + padLo xs.length new]? = xs[i]? := by
  unfold resizeVals
  have : ¬ new ≤ xs.length := by omega
  simp only [this, if_false]
  rw [List.append_assoc, List.getElem?_append_right (by simp)]
  simp only [List.length_replicate, Nat.add_sub_cancel]
  rw [List.getElem?_append_left hi]

/-- odd → odd sizes (state matrices: 2n+1 → 2n'+1): the centre stays the centre -/
theorem resize_centre_odd (n n' : Nat) :
    (n ≥ n' → n' + cropLo (2 * n + 1) (2 * n' + 1) = n) ∧ (n < n' → n + padLo (2 * n + 1) (2 * n' + 1) = n') := by
  unfold cropLo padLo; constructor <;> intro h <;> omega

/-- non-vacuity: a concrete history, evaluated -/
example : (([Call.set "a" [2, 3] (some [.ell, .named "n"]) false true, Call.expand 1, Call.resize "n" 5].foldl step
    (Coll.init none (-1))).shape, ([Call.set "a" [2, 3] (some [.ell, .named "n"]) false true, Call.expand 1,
      Call.resize "n" 5].foldl step (Coll.init none (-1))).axes) = ([2, 1], [("n", 5)]) := by decide

end EpgVerif.Props.C16
