import EpgVerif.Props.C05
/-
  C05 — along a coherence pathway the attenuations of the successive intervals multiply to ONE factor exp(-b:D) whose
  b-matrix is the sum of the interval b-matrices (each of which is the time integral of k kᵀ over its interval:
  `bmatConst_is_integral`, `bmatRamp_is_integral`), i.e. the time integral of k(t) k(t)ᵀ along the whole pathway.
-/
namespace EpgVerif.Props.C05
open EpgVerif EpgVerif.Diff5

theorem att_zero (d : Nat) (D : Diffusivity ℂ) : att d (fun _ _ => 0) D = 1 := by
  cases D with
  | scalar D => simp [att, attScalar, sumTo_zero]
  | tensor D => simp [att, attTensor, sumTo_zero]

/-- **the product of the interval attenuations along a pathway is the attenuation of the summed b-matrix** -/
theorem att_pathway (d : Nat) (D : Diffusivity ℂ) (bs : List (Nat → Nat → ℂ)) :
    (bs.map (fun b => att d b D)).prod = att d (fun i j => (bs.map (fun b => b i j)).sum) D := by
  induction bs with
  | nil => simp [att_zero]
  | cons b rest ih =>
    simp only [List.map_cons, List.prod_cons, List.sum_cons, ih]
    exact att_mul d b _ D

end EpgVerif.Props.C05
