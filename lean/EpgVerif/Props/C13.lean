import EpgVerif.Lemmas.OpsLemmas
import Mathlib.Algebra.BigOperators.Group.Finset.Basic
import Mathlib.Analysis.SpecialFunctions.Trigonometric.Bounds
import Mathlib.Analysis.SpecialFunctions.Complex.Circle
/-
  C13 — truncation is sound, with a known exactness horizon (1-D state model).
  With phase states capped at index `n` (`max_nstate = n`):
  * no stored state has index beyond `n` (`trunc_drops_beyond`);
  * while the accumulated absolute shift `A` satisfies `|k| + A ≤ 2n+1`, the truncated state `k`
    equals the untruncated one — in particular every acquisition of F0/Z0 made while `A ≤ 2n+1`
    is identical to the untruncated simulation (`truncation_horizon`), for every program, every
    step size and sign, every RF/relaxation parameter in between.
-/
namespace EpgVerif.Props.C13
open EpgVerif SM

/-- absolute shift contributed by one operator -/
def shiftAmt : Op ℂ → Nat
  | .S k _ => k.natAbs
  | _ => 0

def totalShift (ops : List (Op ℂ)) : Nat := (ops.map shiftAmt).sum

/-- the operator does not carry its own `nmax` (the cap studied here is the `max_nstate` option) -/
def NoLocalNmax : Op ℂ → Prop
  | .S _ nmax => nmax = none
  | _ => True

/-- invariant relating the truncated run `tr` (cap `n`) and the full run after accumulated shift `A` -/
structure Inv (n A : Nat) (tr full : SM ℂ) : Prop where
  cap : tr.n ≤ n
  radius : full.n ≤ A
  eqs : ∀ k, tr.geq k = full.geq k
  eq0 : ∀ k, k ≠ 0 → full.geq k = 0
  agree : ∀ k : ℤ, k.natAbs ≤ n → k.natAbs + A ≤ 2 * n + 1 → tr.get k = full.get k

private theorem get_zero_of_gt (s : SM ℂ) (k : ℤ) (h : s.n < k.natAbs) : s.get k = 0 := by
  apply get_of_not_inRange
  cases hr : inRange s.n k
  · rfl
  · rw [inRange_iff] at hr; omega

private theorem geq_zero_of_gt (s : SM ℂ) (k : ℤ) (h : s.n < k.natAbs) : s.geq k = 0 := by
  apply geq_of_not_inRange
  cases hr : inRange s.n k
  · rfl
  · rw [inRange_iff] at hr; omega

private theorem inRange_of_le (n : Nat) (k : ℤ) (h : k.natAbs ≤ n) : inRange n k = true := by
  rw [inRange_iff]; omega

/-- state-wise operators (the new state `k` depends on the old state `k` and the equilibrium only) -/
private theorem inv_pointwise (n A : Nat) (tr full : SM ℂ) (h : Inv n A tr full)
    (F : PS ℂ → PS ℂ → PS ℂ) (hF : F 0 0 = 0) :
    Inv n A (mk' tr.n (fun k => F (tr.get k) (tr.geq k)) tr.geq)
            (mk' full.n (fun k => F (full.get k) (full.geq k)) full.geq) := by
  refine ⟨h.cap, h.radius, ?_, ?_, ?_⟩
  · intro k
    rw [geq_mk', geq_mk']
    by_cases h1 : inRange tr.n k = true <;> by_cases h2 : inRange full.n k = true
    · simp [h1, h2, h.eqs k]
    · simp only [h1, h2, if_true, if_false, Bool.false_eq_true]
      rw [h.eqs k]; exact geq_of_not_inRange _ _ (by simpa using h2)
    · simp only [h1, h2, if_true, if_false, Bool.false_eq_true]
      rw [← h.eqs k]; exact (geq_of_not_inRange _ _ (by simpa using h1)).symm
    · simp [h1, h2]
  · intro k hk
    rw [geq_mk']
    by_cases h2 : inRange full.n k = true
    · simp [h2, h.eq0 k hk]
    · simp [h2]
  · intro k hk hA
    rw [get_mk', get_mk']
    have hag := h.agree k hk hA
    have hgq := h.eqs k
    by_cases h1 : inRange tr.n k = true <;> by_cases h2 : inRange full.n k = true
    · simp [h1, h2, hag, hgq]
    · simp only [h1, h2, if_true, if_false, Bool.false_eq_true]
      rw [hag, hgq, get_of_not_inRange full k (by simpa using h2), geq_of_not_inRange full k (by simpa using h2), hF]
    · simp only [h1, h2, if_true, if_false, Bool.false_eq_true]
      rw [← hag, ← hgq, get_of_not_inRange tr k (by simpa using h1), geq_of_not_inRange tr k (by simpa using h1), hF]
    · simp [h1, h2]


/-- agreement extends beyond the cap: there both runs hold zeros -/
private theorem agree_ext (n A : Nat) (tr full : SM ℂ) (h : Inv n A tr full) (j : ℤ)
    (hA : j.natAbs + A ≤ 2 * n + 1) : tr.get j = full.get j := by
  by_cases hj : j.natAbs ≤ n
  · exact h.agree j hj hA
  · have h1 : tr.get j = 0 := get_zero_of_gt tr j (by have := h.cap; omega)
    have h2 : full.get j = 0 := get_zero_of_gt full j (by have := h.radius; omega)
    rw [h1, h2]

/-- **one operator** preserves the invariant, the accumulated shift growing by the operator's
    absolute shift -/
theorem inv_step (n : Nat) (hn : 1 ≤ n) (A : Nat) (op : Op ℂ) (hop : NoLocalNmax op) (tr full : SM ℂ)
    (h : Inv n A tr full) :
    Inv n (A + shiftAmt op) (applyOp { maxNstate := some n } op tr) (applyOp {} op full) := by
  cases op with
  | T a p => simpa [applyOp, matApply, shiftAmt] using inv_pointwise n A tr full h (fun p _ => PS.mmul (coeffT a _) p) (by simp)
  | Phi p => simpa [applyOp, matApply, shiftAmt] using inv_pointwise n A tr full h (fun q _ => PS.mmul (coeffPhi p) q) (by simp)
  | E a b c d =>
    simpa [applyOp, scalApply, shiftAmt] using inv_pointwise n A tr full h
      (fun p e => PS.dmul (fun i => Ex.eval (envOf [a, b, c, d]) (Coeff.E.arr i)) p
        + PS.dmul (fun i => Ex.eval (envOf [a, b, c, d]) (Coeff.E.arr0 i)) e) (by simp)
  | P a b =>
    simpa [applyOp, scalApply, shiftAmt] using inv_pointwise n A tr full h
      (fun p e => PS.dmul (fun i => Ex.eval (envOf [a, b]) (Coeff.P.arr i)) p + PS.dmul (fun _ => 0) e) (by simp)
  | R a b c =>
    cases c with
    | none =>
      simpa [applyOp, scalApply, shiftAmt] using inv_pointwise n A tr full h
        (fun p e => PS.dmul (fun i => Ex.eval (envOf [a, b, 0]) (Coeff.R.arr i)) p + PS.dmul (fun _ => 0) e) (by simp)
    | some r =>
      simpa [applyOp, scalApply, shiftAmt] using inv_pointwise n A tr full h
        (fun p e => PS.dmul (fun i => Ex.eval (envOf [a, b, r]) (Coeff.R.arr i)) p
          + PS.dmul (fun i => Ex.eval (envOf [a, b, r]) (Coeff.R.arr0 i)) e) (by simp)
  | Spoiler =>
    simpa [applyOp, shiftAmt] using inv_pointwise n A tr full h (fun p _ => ⟨0, 0, p.z⟩) (by simp)
  | Wait => simpa [applyOp, shiftAmt] using h
  | Reset =>
    have e0 : tr.geq 0 = full.geq 0 := h.eqs 0
    simp only [applyOp, shiftAmt, Nat.add_zero]
    rw [e0]
    refine ⟨Nat.zero_le _, Nat.zero_le _, fun _ => rfl, ?_, fun _ _ _ => rfl⟩
    intro k hk
    rw [geq_mk']
    have : inRange 0 k = false := by simp [inRange]; omega
    simp [this]
  | PD pd reset =>
    simp only [applyOp, shiftAmt, Nat.add_zero]
    refine ⟨h.cap, h.radius, ?_, ?_, ?_⟩
    · intro k
      rw [geq_mk', geq_mk']
      by_cases hk : k = 0
      · subst hk; simp [inRange_zero]
      · simp [hk]
    · intro k hk
      rw [geq_mk']; simp [hk]
    · intro k hk hA
      rw [get_mk', get_mk']
      cases reset
      · simp only [Bool.false_eq_true, if_false]
        have hag := h.agree k hk hA
        by_cases h1 : inRange tr.n k = true <;> by_cases h2 : inRange full.n k = true
        · simp [h1, h2, hag]
        · simp only [h1, h2, if_true, if_false, Bool.false_eq_true]
          rw [hag]; exact get_of_not_inRange _ _ (by simpa using h2)
        · simp only [h1, h2, if_true, if_false, Bool.false_eq_true]
          rw [← hag]; exact (get_of_not_inRange _ _ (by simpa using h1)).symm
        · simp [h1, h2]
      · simp only [if_true]
        by_cases hk0 : k = 0
        · subst hk0; simp [inRange_zero]
        · simp [hk0]
  | S m nmax =>
    have hnm : nmax = none := hop
    subst hnm
    have hn0 : n ≠ 0 := by omega
    simp only [applyOp, shift1d, shiftAmt, hn0, if_false]
    set n' := min (tr.n + m.natAbs) n with hn'
    have hle : tr.n ≤ n' := by have := h.cap; omega
    have hres : ∀ j, (tr.resize n').get j = tr.get j := fun j => get_resize_of_le tr n' hle j
    have hfull := get_shift1d_untruncated m full
    simp only [shift1d] at hfull
    refine ⟨?_, ?_, ?_, ?_, ?_⟩
    · show n' ≤ n; omega
    · show full.n + m.natAbs ≤ A + m.natAbs; have := h.radius; omega
    · intro k
      simp only [shiftCore]
      rw [geq_mk', geq_mk', geq_resize, geq_resize]
      by_cases hk : k = 0
      · subst hk; simp [inRange_zero, h.eqs 0]
      · have e1 : full.geq k = 0 := h.eq0 k hk
        have e2 : tr.geq k = 0 := by rw [h.eqs k]; exact e1
        simp [e1, e2]
    · intro k hk
      simp only [shiftCore]
      rw [geq_mk', geq_resize, h.eq0 k hk]; simp
    · intro k hk hA
      rw [hfull k]
      simp only [shiftCore]
      rw [get_mk']
      simp only [hres, mk'_n]
      have hm : m = (m.natAbs : ℤ) ∨ m = -(m.natAbs : ℤ) := Int.natAbs_eq m
      have a1 : tr.get (k - m) = full.get (k - m) := agree_ext n A tr full h _ (by rcases hm with e | e <;> omega)
      have a2 : tr.get (k + m) = full.get (k + m) := agree_ext n A tr full h _ (by rcases hm with e | e <;> omega)
      have a3 : tr.get k = full.get k := agree_ext n A tr full h _ (by omega)
      by_cases hr : inRange (tr.resize n').n k = true
      · simp [hr, a1, a2, a3]
      · simp only [hr, if_false, Bool.false_eq_true]
        have hrn : (tr.resize n').n = n' := rfl
        rw [hrn] at hr
        have hk' : ¬ (-(n' : ℤ) ≤ k ∧ k ≤ n') := by rwa [← inRange_iff]
        have z1 : tr.get (k - m) = 0 := get_zero_of_gt tr _ (by rcases hm with e | e <;> omega)
        have z2 : tr.get (k + m) = 0 := get_zero_of_gt tr _ (by rcases hm with e | e <;> omega)
        have z3 : tr.get k = 0 := get_zero_of_gt tr _ (by omega)
        rw [← a1, ← a2, ← a3, z1, z2, z3]

/-- the invariant along a whole program -/
theorem inv_run (n : Nat) (hn : 1 ≤ n) (ops : List (Op ℂ)) (hops : ∀ op ∈ ops, NoLocalNmax op) (A : Nat)
    (tr full : SM ℂ) (h : Inv n A tr full) :
    Inv n (A + totalShift ops) (run { maxNstate := some n } ops tr) (run {} ops full) := by
  induction ops generalizing A tr full with
  | nil => simpa [totalShift, run] using h
  | cons op ops ih =>
    have := ih (fun o ho => hops o (List.mem_cons_of_mem _ ho)) (A + shiftAmt op) _ _
      (inv_step n hn A op (hops op List.mem_cons_self) tr full h)
    simpa [run, totalShift, Nat.add_assoc] using this

theorem inv_init (n : Nat) (pd : ℂ) : Inv n 0 (SM.init pd) (SM.init pd) := by
  refine ⟨Nat.zero_le _, Nat.le_refl _, fun _ => rfl, ?_, fun _ _ _ => rfl⟩
  intro k hk
  unfold SM.init; rw [geq_mk']
  have : inRange 0 k = false := by simp [inRange]; omega
  simp [this]

/-- **no state beyond the cap is ever stored** -/
theorem trunc_drops_beyond (n : Nat) (hn : 1 ≤ n) (ops : List (Op ℂ)) (hops : ∀ op ∈ ops, NoLocalNmax op) (pd : ℂ) :
    (run { maxNstate := some n } ops (SM.init pd)).n ≤ n :=
  (by simpa using inv_run n hn ops hops 0 _ _ (inv_init n pd) : Inv n _ _ _).cap

/-- **exactness horizon**: as long as the accumulated absolute shift is at most `2n+1`, the zero
    state (hence every F0 / Z0 acquisition) of the truncated simulation equals the untruncated one;
    more generally state `k` is exact while `|k| + A ≤ 2n+1`. -/
theorem truncation_horizon (n : Nat) (hn : 1 ≤ n) (ops : List (Op ℂ)) (hops : ∀ op ∈ ops, NoLocalNmax op)
    (pd : ℂ) (k : ℤ) (hk : k.natAbs ≤ n) (hA : k.natAbs + totalShift ops ≤ 2 * n + 1) :
    (run { maxNstate := some n } ops (SM.init pd)).get k = (run {} ops (SM.init pd)).get k := by
  have h : Inv n (0 + totalShift ops) _ _ := inv_run n hn ops hops 0 _ _ (inv_init n pd)
  exact h.agree k hk (by omega)

theorem acquisitions_exact_within_horizon (n : Nat) (hn : 1 ≤ n) (ops : List (Op ℂ))
    (hops : ∀ op ∈ ops, NoLocalNmax op) (pd : ℂ) (hA : totalShift ops ≤ 2 * n + 1) :
    (run { maxNstate := some n } ops (SM.init pd)).get 0 = (run {} ops (SM.init pd)).get 0 :=
  truncation_horizon n hn ops hops pd 0 (by simp) (by simpa using hA)

/-! ### gridding (shift-merge): exact at the origin, bounded elsewhere -/
section merge
open Complex Finset
variable {κ κ' : Type} [DecidableEq κ']

/-- **merging adds amplitudes exactly**: the sum of the merged table equals the sum of the original one, so the value
    reconstructed at position 0 is unchanged by gridding (`ρ` = grid cell of a wavenumber index) -/
theorem merge_preserves_sum (S : Finset κ) (ρ : κ → κ') (f : κ → ℂ) :
    ∑ c ∈ S.image ρ, ∑ k ∈ S.filter (fun k => ρ k = c), f k = ∑ k ∈ S, f k :=
  Finset.sum_fiberwise_of_maps_to (fun k hk => Finset.mem_image_of_mem ρ hk) f

theorem norm_exp_sub_exp_le (a b : ℝ) : ‖Complex.exp (I * a) - Complex.exp (I * b)‖ ≤ |a - b| := by
  have h : Complex.exp (I * a) - Complex.exp (I * b) = Complex.exp (I * b) * (Complex.exp (I * ((a - b : ℝ) : ℂ)) - 1) := by
    rw [mul_sub, mul_one, ← Complex.exp_add]; congr 2; push_cast; ring
  rw [h, norm_mul]
  have h1 : ‖Complex.exp (I * b)‖ = 1 := by
    rw [mul_comm]; exact Complex.norm_exp_ofReal_mul_I b
  rw [h1, one_mul]
  have := Real.norm_exp_I_mul_ofReal_sub_one_le (x := a - b)
  simpa [Real.norm_eq_abs] using this

/-- **merging moves a value at position `x` by at most the cell radius times `|x|` per unit of merged amplitude**:
    each state is represented at the wavenumber `rep (ρ k)` of its cell instead of its own `wave k` -/
theorem merge_error_bound (S : Finset κ) (ρ : κ → κ') (wave : κ → ℝ) (rep : κ' → ℝ) (f : κ → ℂ) (x δ : ℝ)
    (hδ : ∀ k ∈ S, |wave k - rep (ρ k)| ≤ δ) :
    ‖∑ k ∈ S, f k * Complex.exp (I * ((wave k * x : ℝ) : ℂ))
        - ∑ c ∈ S.image ρ, (∑ k ∈ S.filter (fun k => ρ k = c), f k) * Complex.exp (I * ((rep c * x : ℝ) : ℂ))‖
      ≤ δ * |x| * ∑ k ∈ S, ‖f k‖ := by
  have hfib : ∑ c ∈ S.image ρ, (∑ k ∈ S.filter (fun k => ρ k = c), f k) * Complex.exp (I * ((rep c * x : ℝ) : ℂ))
      = ∑ k ∈ S, f k * Complex.exp (I * ((rep (ρ k) * x : ℝ) : ℂ)) := by
    rw [← Finset.sum_fiberwise_of_maps_to (fun k hk => Finset.mem_image_of_mem ρ hk)
      (fun k => f k * Complex.exp (I * ((rep (ρ k) * x : ℝ) : ℂ)))]
    apply Finset.sum_congr rfl
    intro c _
    rw [Finset.sum_mul]
    apply Finset.sum_congr rfl
    intro k hk
    rw [(Finset.mem_filter.mp hk).2]
  rw [hfib, ← Finset.sum_sub_distrib]
  calc ‖∑ k ∈ S, (f k * Complex.exp (I * ((wave k * x : ℝ) : ℂ)) - f k * Complex.exp (I * ((rep (ρ k) * x : ℝ) : ℂ)))‖
      ≤ ∑ k ∈ S, ‖f k * Complex.exp (I * ((wave k * x : ℝ) : ℂ)) - f k * Complex.exp (I * ((rep (ρ k) * x : ℝ) : ℂ))‖ :=
        norm_sum_le _ _
    _ ≤ ∑ k ∈ S, ‖f k‖ * (δ * |x|) := by
        apply Finset.sum_le_sum
        intro k hk
        rw [← mul_sub, norm_mul]
        apply mul_le_mul_of_nonneg_left _ (norm_nonneg _)
        calc ‖Complex.exp (I * ((wave k * x : ℝ) : ℂ)) - Complex.exp (I * ((rep (ρ k) * x : ℝ) : ℂ))‖
            ≤ |wave k * x - rep (ρ k) * x| := norm_exp_sub_exp_le _ _
          _ = |wave k - rep (ρ k)| * |x| := by rw [← sub_mul, abs_mul]
          _ ≤ δ * |x| := mul_le_mul_of_nonneg_right (hδ k hk) (abs_nonneg x)
    _ = δ * |x| * ∑ k ∈ S, ‖f k‖ := by rw [← Finset.sum_mul]; ring

end merge

end EpgVerif.Props.C13
