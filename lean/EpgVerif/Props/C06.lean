import Mathlib.Analysis.Normed.Algebra.MatrixExponential
import Mathlib.Analysis.SpecialFunctions.Exponential
import EpgVerif.Lemmas.Cx
import EpgVerif.Model.Exchange
/-
  C06 — the exchange operator solves the Bloch–McConnell equations dM/dt = A (M − Meq) between compartments,
  for every phase state: ODE, semigroup in τ, equilibrium fixed point, independence at zero exchange,
  conservation of the total magnetisation without relaxation.
-/
namespace EpgVerif.Props.C06
open EpgVerif Matrix NormedSpace
open scoped Matrix

variable {n : ℕ}

attribute [local instance] Matrix.linftyOpNormedRing Matrix.linftyOpNormedAlgebra Matrix.linftyOpNormedAddCommGroup
  Matrix.linftyOpNormedSpace

/-- SPECIFICATION: evolution of the compartment vector `v` of one phase state over a time `τ`,
    generator `A` (exchange + relaxation/precession), equilibrium `e` -/
noncomputable def evolve (A : Matrix (Fin n) (Fin n) ℂ) (τ : ℝ) (e v : Fin n → ℂ) : Fin n → ℂ :=
  exp ((τ : ℂ) • A) *ᵥ (v - e) + e

/-- the equilibrium is a fixed point -/
theorem evolve_fixed (A : Matrix (Fin n) (Fin n) ℂ) (τ : ℝ) (e : Fin n → ℂ) : evolve A τ e e = e := by
  simp [evolve]

/-- no time, no change -/
theorem evolve_zero (A : Matrix (Fin n) (Fin n) ℂ) (e v : Fin n → ℂ) : evolve A 0 e v = v := by
  simp [evolve, NormedSpace.exp_zero]

/-- **τ₁ then τ₂ equals τ₁ + τ₂** -/
theorem evolve_semigroup (A : Matrix (Fin n) (Fin n) ℂ) (τ₁ τ₂ : ℝ) (e v : Fin n → ℂ) :
    evolve A τ₂ e (evolve A τ₁ e v) = evolve A (τ₁ + τ₂) e v := by
  unfold evolve
  have hc : Commute ((τ₂ : ℂ) • A) ((τ₁ : ℂ) • A) := ((Commute.refl A).smul_left _).smul_right _
  have : exp (((τ₁ + τ₂ : ℝ) : ℂ) • A) = exp ((τ₂ : ℂ) • A) * exp ((τ₁ : ℂ) • A) := by
    rw [← Matrix.exp_add_of_commute _ _ hc]
    congr 1
    push_cast
    rw [add_smul, add_comm]
  rw [this, add_sub_cancel_right, Matrix.mulVec_mulVec]

/-- **the Bloch–McConnell equation**: `d/dt M = A (M − Meq)` -/
theorem evolve_ode (A : Matrix (Fin n) (Fin n) ℂ) (e v : Fin n → ℂ) (t : ℝ) :
    HasDerivAt (fun s : ℝ => evolve A s e v) (A *ᵥ (evolve A t e v - e)) t := by
  have h2 := (hasDerivAt_exp_smul_const' A (t : ℂ)).scomp t Complex.ofRealCLM.hasDerivAt
  -- apply the continuous linear map  M ↦ M *ᵥ (v − e)
  let L : Matrix (Fin n) (Fin n) ℂ →L[ℝ] (Fin n → ℂ) :=
    LinearMap.toContinuousLinearMap
      { toFun := fun M => M *ᵥ (v - e)
        map_add' := fun M N => Matrix.add_mulVec M N _
        map_smul' := fun c M => by simp [Matrix.smul_mulVec] }
  have h5 := ((L.hasFDerivAt (x := exp ((t : ℂ) • A))).comp_hasDerivAt t h2).add_const e
  have hval : L ((Complex.ofRealCLM 1) • (A * exp ((t : ℂ) • A))) = A *ᵥ (evolve A t e v - e) := by
    simp [L, evolve, Matrix.mulVec_mulVec]
  exact h5.congr_deriv hval

/-- **zero exchange = independent relaxation of every compartment** -/
theorem zero_exchange_independent (d : Fin n → ℂ) (τ : ℝ) (e v : Fin n → ℂ) (i : Fin n) :
    evolve (Matrix.diagonal d) τ e v i = Complex.exp ((τ : ℂ) * d i) * (v i - e i) + e i := by
  unfold evolve
  have : (τ : ℂ) • Matrix.diagonal d = Matrix.diagonal (fun j => (τ : ℂ) * d j) := by
    ext a b; by_cases h : a = b <;> simp [Matrix.diagonal, h]
  rw [this, Matrix.exp_diagonal]
  simp [Matrix.mulVec_diagonal, Pi.exp_def, Complex.exp_eq_exp_ℂ]

/-- a row vector annihilated by `A` is kept by `exp A` -/
theorem vecMul_exp_of_vecMul_eq_zero (A : Matrix (Fin n) (Fin n) ℂ) (w : Fin n → ℂ) (h : w ᵥ* A = 0) :
    w ᵥ* exp A = w := by
  have hpow : ∀ k : ℕ, w ᵥ* A ^ (k + 1) = 0 := by
    intro k
    rw [pow_succ', ← Matrix.vecMul_vecMul, h, Matrix.zero_vecMul]
  rw [NormedSpace.exp_eq_tsum (𝕂 := ℂ)]
  simp only
  let L : Matrix (Fin n) (Fin n) ℂ →L[ℂ] (Fin n → ℂ) :=
    LinearMap.toContinuousLinearMap
      { toFun := fun M => w ᵥ* M
        map_add' := fun M N => Matrix.vecMul_add M N w
        map_smul' := fun c M => by simp [Matrix.vecMul_smul] }
  have hs : Summable fun k : ℕ => ((k.factorial : ℂ)⁻¹) • A ^ k := NormedSpace.expSeries_summable' (𝕂 := ℂ) A
  have : w ᵥ* (∑' k : ℕ, ((k.factorial : ℂ)⁻¹) • A ^ k) = ∑' k : ℕ, w ᵥ* (((k.factorial : ℂ)⁻¹) • A ^ k) :=
    L.map_tsum hs
  rw [this, tsum_eq_single 0]
  · simp
  · intro k hk
    obtain ⟨j, rfl⟩ := Nat.exists_eq_succ_of_ne_zero hk
    rw [Matrix.vecMul_smul, hpow j, smul_zero]

/-- **without relaxation the total magnetisation is conserved** when the columns of the kinetic matrix sum to zero -/
theorem total_conserved (K : Matrix (Fin n) (Fin n) ℂ) (hK : ∀ j, ∑ i, K i j = 0) (τ : ℝ) (u : Fin n → ℂ) :
    ∑ i, (exp ((τ : ℂ) • (-K)) *ᵥ u) i = ∑ i, u i := by
  have h1 : (fun _ => (1 : ℂ)) ᵥ* ((τ : ℂ) • (-K)) = 0 := by
    funext j
    simp [Matrix.vecMul, dotProduct, ← Finset.mul_sum, hK j]
  have h2 := vecMul_exp_of_vecMul_eq_zero _ _ h1
  have : ∑ i, (exp ((τ : ℂ) • (-K)) *ᵥ u) i = ((fun _ => (1 : ℂ)) ᵥ* exp ((τ : ℂ) • (-K))) ⬝ᵥ u := by
    rw [← Matrix.dotProduct_mulVec]
    simp [dotProduct]
  rw [this, h2]
  simp [dotProduct]

/-- a column vector annihilated by `A` is kept by `exp A` -/
theorem mulVec_exp_of_mulVec_eq_zero (A : Matrix (Fin n) (Fin n) ℂ) (v : Fin n → ℂ) (h : A *ᵥ v = 0) :
    exp A *ᵥ v = v := by
  have h1 : v ᵥ* Aᵀ = 0 := by rw [Matrix.vecMul_transpose]; exact h
  have h2 := vecMul_exp_of_vecMul_eq_zero Aᵀ v h1
  rw [Matrix.exp_transpose, Matrix.vecMul_transpose] at h2
  exact h2

/-- with the equilibrium in the kernel of the kinetic matrix (the conservation check of `X._apply`) and no relaxation,
    the evolution is `exp(−τK) v`: the subtraction of the equilibrium is immaterial, and **the equilibrium is a
    fixed point of the bare exchange** -/
theorem equilibrium_in_kernel (K : Matrix (Fin n) (Fin n) ℂ) (e : Fin n → ℂ) (hKe : K *ᵥ e = 0) (τ : ℝ) (v : Fin n → ℂ) :
    evolve (-K) τ e v = exp ((τ : ℂ) • (-K)) *ᵥ v := by
  unfold evolve
  have h0 : ((τ : ℂ) • (-K)) *ᵥ e = 0 := by
    rw [Matrix.smul_mulVec, Matrix.neg_mulVec, hKe]; simp
  rw [Matrix.mulVec_sub, mulVec_exp_of_mulVec_eq_zero _ _ h0]
  abel

/-! ### the model's operator is this evolution, component by component -/

theorem sumTo_eq_sum (m : ℕ) (f : ℕ → ℂ) : Exch.sumTo m f = ∑ i : Fin m, f i := by
  induction m with
  | zero => simp [Exch.sumTo]
  | succ m ih =>
    have : Exch.sumTo (m + 1) f = Exch.sumTo m f + f m := by simp [Exch.sumTo, List.range_succ]
    rw [this, ih, Fin.sum_univ_castSucc]
    simp

/-- index a matrix over `Fin n` by natural numbers (zero outside) -/
noncomputable def toMat (M : Matrix (Fin n) (Fin n) ℂ) : Exch.Mat ℂ :=
  fun i j => if h : i < n ∧ j < n then M ⟨i, h.1⟩ ⟨j, h.2⟩ else 0

/-- `X._apply` on one phase state: each of F+, F-, Z evolves by its own matrix about its own equilibrium
    (F- with the complex-conjugate matrix) -/
theorem applyX_components (MT ML : Matrix (Fin n) (Fin n) ℂ) (eq v : ℕ → PS ℂ) (i : Fin n) :
    Exch.applyX n (toMat MT) (toMat ML) eq v i =
      ⟨(MT *ᵥ (fun l : Fin n => (v l).fp - (eq l).fp)) i + (eq i).fp,
       ((MT.map (starRingEnd ℂ)) *ᵥ (fun l : Fin n => (v l).fm - (eq l).fm)) i + (eq i).fm,
       (ML *ᵥ (fun l : Fin n => (v l).z - (eq l).z)) i + (eq i).z⟩ := by
  have hi := i.isLt
  apply PS.ext' <;>
  · simp only [Exch.applyX, sumTo_eq_sum, Matrix.mulVec, dotProduct, toMat, Matrix.map_apply, conj_C]
    congr 1
    apply Finset.sum_congr rfl
    intro l _
    simp [hi, l.isLt]

/-- hence, with `MT = exp(τ A_T)` and `ML = exp(τ A_L)`, the model's exchange step is the Bloch–McConnell
    evolution of the transverse and longitudinal compartment vectors -/
theorem applyX_is_evolve (AT AL : Matrix (Fin n) (Fin n) ℂ) (τ : ℝ) (eq v : ℕ → PS ℂ) (i : Fin n) :
    (Exch.applyX n (toMat (exp ((τ : ℂ) • AT))) (toMat (exp ((τ : ℂ) • AL))) eq v i).fp
        = evolve AT τ (fun l : Fin n => (eq l).fp) (fun l : Fin n => (v l).fp) i ∧
    (Exch.applyX n (toMat (exp ((τ : ℂ) • AT))) (toMat (exp ((τ : ℂ) • AL))) eq v i).z
        = evolve AL τ (fun l : Fin n => (eq l).z) (fun l : Fin n => (v l).z) i := by
  rw [applyX_components]
  constructor <;> simp [evolve, Pi.sub_def]

end EpgVerif.Props.C06
