import EpgVerif.Props.C14Bound
/-
  C13, pruning clause — "pruning phase states below a tolerance eps changes any acquired value by no more than 2·eps
  times the cumulative number of phase states".

  Function level (`κ → PS ℂ`, any wavenumber group, C04/C14Bound's steps).  A pruned run applies, after every step, a
  mask that zeroes some states.  Exact decomposition (`prune_decomposition`):
        run ops f − prunedRun ops f  =  Σ_j  L_{j+1..end}( removed_j ),
  where `L` is the linear part of the remaining steps (the same steps with PD = 0) and `removed_j` is what the j-th mask
  took away from the pruned trajectory.  Every `L` is a contraction of the energy (C14), and |F0|² ≤ 2·energy, hence
        |ΔF0| ≤ Σ_j √(2·energy(removed_j))                           (`prune_error`)
  and when every removed state has energy ≤ 2·eps² (all components below eps, the `isclose(·, 0, atol=eps)` test of
  `shiftnd` / `shiftmerge`; `shiftprune` removes states of norm ≤ eps, which is stronger)
        |ΔF0| ≤ 2·eps·Σ_j #removed_j ≤ 2·eps·(cumulative number of states)     (`prune_error_eps`).
-/
namespace EpgVerif.Props.C13
open Complex EpgVerif EpgVerif.Props.C04 EpgVerif.Props.C08 EpgVerif.Props.C14

variable {κ : Type} [DecidableEq κ] [AddCommGroup κ]

def fsub (f g : κ → PS ℂ) : κ → PS ℂ := fun k => f k - g k
def fadd (f g : κ → PS ℂ) : κ → PS ℂ := fun k => f k + g k
def fzero : κ → PS ℂ := fun _ => 0
/-- pruning: keep the states selected by `keep`, zero the others -/
def mask (keep : κ → Bool) (f : κ → PS ℂ) : κ → PS ℂ := fun k => if keep k then f k else 0

@[simp] theorem PS.sub_fp (a b : PS ℂ) : (a - b).fp = a.fp - b.fp := rfl
@[simp] theorem PS.sub_fm (a b : PS ℂ) : (a - b).fm = a.fm - b.fm := rfl
@[simp] theorem PS.sub_z (a b : PS ℂ) : (a - b).z = a.z - b.z := rfl

/-! ### the linear part of a step -/

theorem pointOp_sub (op : Op ℂ) (e v v' : PS ℂ) : pointOp op e v - pointOp op e v' = pointOp op 0 (v - v') := by
  cases op with
  | R rT rL r0 => cases r0 <;> (apply PS.ext' <;> simp [pointOp, PS.mmul, PS.dmul] <;> ring)
  | _ => apply PS.ext' <;> simp [pointOp, PS.mmul, PS.dmul] <;> ring

theorem pointOp_add0 (op : Op ℂ) (v w : PS ℂ) : pointOp op 0 (v + w) = pointOp op 0 v + pointOp op 0 w := by
  cases op with
  | R rT rL r0 => cases r0 <;> (apply PS.ext' <;> simp [pointOp, PS.mmul, PS.dmul] <;> ring)
  | _ => apply PS.ext' <;> simp [pointOp, PS.mmul, PS.dmul] <;> ring

omit [AddCommGroup κ] in
theorem eqRow_zero [Zero κ] (k : κ) : eqRow (0 : ℂ) k = 0 := by unfold eqRow; split <;> rfl

/-- the same step with PD = 0: its linear part -/
noncomputable def lstep (o : FOp κ) (f : κ → PS ℂ) : κ → PS ℂ := fstep (0 : ℂ) o f
noncomputable def lrun (ops : List (FOp κ)) (f : κ → PS ℂ) : κ → PS ℂ := frun (0 : ℂ) ops f

theorem fstep_sub (pd : ℂ) (o : FOp κ) (f f' : κ → PS ℂ) :
    fsub (fstep pd o f) (fstep pd o f') = lstep o (fsub f f') := by
  funext k
  cases o with
  | pt op => simp only [fsub, lstep, fstep, pointF, eqRow_zero]; exact pointOp_sub op _ _ _
  | shift g => simp only [fsub, lstep, fstep, shiftF]; apply PS.ext' <;> simp
  | diag a => simp only [fsub, lstep, fstep]; apply PS.ext' <;> simp [PS.dmul] <;> ring

theorem lstep_add (o : FOp κ) (a b : κ → PS ℂ) : lstep o (fadd a b) = fadd (lstep o a) (lstep o b) := by
  funext k
  cases o with
  | pt op => simp only [fadd, lstep, fstep, pointF, eqRow_zero]; exact pointOp_add0 op _ _
  | shift g => simp only [fadd, lstep, fstep, shiftF]; apply PS.ext' <;> simp
  | diag a => simp only [fadd, lstep, fstep]; apply PS.ext' <;> simp [PS.dmul] <;> ring

theorem lrun_add (ops : List (FOp κ)) (a b : κ → PS ℂ) : lrun ops (fadd a b) = fadd (lrun ops a) (lrun ops b) := by
  induction ops generalizing a b with
  | nil => rfl
  | cons o ops ih =>
    show lrun ops (lstep o (fadd a b)) = fadd (lrun ops (lstep o a)) (lrun ops (lstep o b))
    rw [lstep_add, ih]

theorem lrun_cons (o : FOp κ) (ops : List (FOp κ)) (a : κ → PS ℂ) : lrun (o :: ops) a = lrun ops (lstep o a) := rfl

/-! ### finiteness and contraction -/

theorem fstep_fin (pd : ℂ) (o : FOp κ) (f : κ → PS ℂ) (hf : (Function.support f).Finite) :
    (Function.support (fstep pd o f)).Finite := by
  cases o with
  | pt op =>
    apply (hf.union (Set.finite_singleton (0 : κ))).subset
    intro k hk
    by_contra hn
    simp only [Set.mem_union, Set.mem_singleton_iff, not_or, Function.mem_support, not_not] at hn
    apply hk
    simp only [fstep, pointF, hn.1, eqRow, hn.2, if_false]
    exact pointOp_zero op
  | shift g =>
    have i1 : ((fun k : κ => k - g) ⁻¹' Function.support f).Finite := hf.preimage (sub_left_injective.injOn)
    have i2 : ((fun k : κ => k + g) ⁻¹' Function.support f).Finite := hf.preimage ((add_left_injective g).injOn)
    apply ((i1.union i2).union hf).subset
    intro k hk
    by_contra hn
    simp only [Set.mem_union, Set.mem_preimage, Function.mem_support, not_or, not_not] at hn
    apply hk
    simp only [fstep, shiftF, hn.1.1, hn.1.2, hn.2]
  | diag a =>
    apply hf.subset
    intro k hk h0; apply hk
    simp only [fstep, show f k = 0 from h0]
    apply PS.ext' <;> simp [PS.dmul]

/-- the linear part of every step of the clause is a contraction of the energy -/
theorem lstep_energy (o : FOp κ) (ho : BoundedF o) (a : κ → PS ℂ) (ha : (Function.support a).Finite) :
    energy (lstep o a) ≤ energy a := by
  cases o with
  | pt op =>
    have hop : Bounded op := ho
    obtain ⟨e, he0, he1, hq⟩ := pointOp_energy (κ := κ) op hop 0
    have hE : 0 ≤ energy a := finsum_nonneg (fun k => q_nonneg _)
    refine energy_affine_le a _ ha e (energy a) he0 he1 (fun k => ?_) hE (le_refl _)
    have := hq k (a k)
    simp only [map_zero, mul_zero] at this
    have h2 : (0 : ℝ) ≤ if k = 0 then (1 - e) * energy a else 0 := by
      split
      · have : 0 ≤ 1 - e := by linarith
        positivity
      · exact le_refl _
    simp only [lstep, fstep, pointF]
    have h3 : (if k = 0 then (0 : ℝ) else 0) = 0 := by split <;> rfl
    rw [h3] at this
    linarith
  | shift g => simp only [lstep, fstep]; rw [energy_shiftF g a ha]
  | diag d =>
    obtain ⟨hd, _, _⟩ := ho
    exact finsum_le_finsum' (fin_energy _ (fstep_fin 0 (.diag d) a ha)) (fin_energy _ ha)
      (fun k => q_diag_le (d k) (hd k 0) (hd k 1) (hd k 2) (a k))

theorem lrun_energy (ops : List (FOp κ)) (hops : ∀ o ∈ ops, BoundedF o) (a : κ → PS ℂ) (ha : (Function.support a).Finite) :
    energy (lrun ops a) ≤ energy a := by
  induction ops generalizing a with
  | nil => exact le_refl _
  | cons o ops ih =>
    rw [lrun_cons]
    exact (ih (fun o' ho' => hops o' (by simp [ho'])) _ (fstep_fin 0 o a ha)).trans
      (lstep_energy o (hops o (by simp)) a ha)

/-- the signal of a (not necessarily symmetric) table is bounded by its energy: `|F0|² ≤ 2·energy` -/
theorem fp0_le (a : κ → PS ℂ) (ha : (Function.support a).Finite) : ‖(a 0).fp‖ ≤ Real.sqrt (2 * energy a) := by
  apply Real.le_sqrt_of_sq_le
  have h0 : normSq (a 0).fp ≤ 2 * q (a 0) := by
    simp only [q]
    have := normSq_nonneg (a 0).fm; have := normSq_nonneg (a 0).z
    linarith
  have : q (a 0) ≤ energy a := single_le_finsum 0 (fin_energy a ha) (fun k => q_nonneg _)
  rw [← Complex.normSq_eq_norm_sq]
  linarith

/-! ### pruned runs -/

noncomputable def prun (pd : ℂ) : List (FOp κ × (κ → Bool)) → (κ → PS ℂ) → (κ → PS ℂ)
  | [], f => f
  | (o, keep) :: rest, f => prun pd rest (mask keep (fstep pd o f))

/-- what the mask after step `o` removes -/
noncomputable def removed (pd : ℂ) (o : FOp κ) (keep : κ → Bool) (f : κ → PS ℂ) : κ → PS ℂ :=
  fsub (fstep pd o f) (mask keep (fstep pd o f))

/-- accumulated effect of all removals on the final state -/
noncomputable def residual (pd : ℂ) : List (FOp κ × (κ → Bool)) → (κ → PS ℂ) → (κ → PS ℂ)
  | [], _ => fzero
  | (o, keep) :: rest, f =>
      fadd (lrun (rest.map Prod.fst) (removed pd o keep f)) (residual pd rest (mask keep (fstep pd o f)))

theorem fadd_assoc (a b c : κ → PS ℂ) : fadd (fadd a b) c = fadd a (fadd b c) := by
  funext k; apply PS.ext' <;> simp [fadd, add_assoc]

/-- **exact decomposition of the pruning error** -/
theorem prune_decomposition (pd : ℂ) (ops : List (FOp κ × (κ → Bool))) (f f' : κ → PS ℂ) :
    fsub (frun pd (ops.map Prod.fst) f) (prun pd ops f')
      = fadd (lrun (ops.map Prod.fst) (fsub f f')) (residual pd ops f') := by
  induction ops generalizing f f' with
  | nil =>
    funext k; apply PS.ext' <;> simp [fsub, fadd, frun, prun, lrun, residual, fzero]
  | cons p rest ih =>
    obtain ⟨o, keep⟩ := p
    show fsub (frun pd (rest.map Prod.fst) (fstep pd o f)) (prun pd rest (mask keep (fstep pd o f')))
      = fadd (lrun (rest.map Prod.fst) (lstep o (fsub f f')))
          (fadd (lrun (rest.map Prod.fst) (removed pd o keep f')) (residual pd rest (mask keep (fstep pd o f'))))
    rw [ih, ← fadd_assoc, ← lrun_add]
    congr 2
    rw [← fstep_sub pd o f f']
    funext k; apply PS.ext' <;> simp [fsub, fadd, removed]

theorem mask_fin (keep : κ → Bool) (f : κ → PS ℂ) (hf : (Function.support f).Finite) :
    (Function.support (mask keep f)).Finite := by
  apply hf.subset
  intro k hk h0; apply hk
  simp [mask, show f k = 0 from h0]

theorem removed_fin (pd : ℂ) (o : FOp κ) (keep : κ → Bool) (f : κ → PS ℂ) (hf : (Function.support f).Finite) :
    (Function.support (removed pd o keep f)).Finite := by
  apply (fstep_fin pd o f hf).subset
  intro k hk h0; apply hk
  simp only [removed, fsub, mask, show fstep pd o f k = 0 from h0]
  apply PS.ext' <;> simp

/-- total cost of the removals: `Σ_j √(2·energy(removed_j))` along the pruned trajectory -/
noncomputable def pruneCost (pd : ℂ) : List (FOp κ × (κ → Bool)) → (κ → PS ℂ) → ℝ
  | [], _ => 0
  | (o, keep) :: rest, f => Real.sqrt (2 * energy (removed pd o keep f)) + pruneCost pd rest (mask keep (fstep pd o f))

theorem residual_bound (pd : ℂ) (ops : List (FOp κ × (κ → Bool))) (hops : ∀ p ∈ ops, BoundedF p.1) (f : κ → PS ℂ)
    (hf : (Function.support f).Finite) : ‖(residual pd ops f 0).fp‖ ≤ pruneCost pd ops f := by
  induction ops generalizing f with
  | nil => simp [residual, fzero, pruneCost]
  | cons p rest ih =>
    obtain ⟨o, keep⟩ := p
    have hrest : ∀ p ∈ rest, BoundedF p.1 := fun p hp => hops p (by simp [hp])
    have hb : ∀ o' ∈ rest.map Prod.fst, BoundedF o' := by
      intro o' ho'
      obtain ⟨p, hp, rfl⟩ := List.mem_map.mp ho'
      exact hrest p hp
    have hfin := removed_fin pd o keep f hf
    have h1 : ‖(lrun (rest.map Prod.fst) (removed pd o keep f) 0).fp‖ ≤ Real.sqrt (2 * energy (removed pd o keep f)) := by
      have hfin2 : (Function.support (lrun (rest.map Prod.fst) (removed pd o keep f))).Finite := by
        clear ih
        generalize removed pd o keep f = a at hfin ⊢
        induction (rest.map Prod.fst) generalizing a with
        | nil => exact hfin
        | cons o' os ih' => exact ih' _ (fstep_fin 0 o' a hfin)
      refine (fp0_le _ hfin2).trans (Real.sqrt_le_sqrt ?_)
      have := lrun_energy _ hb _ hfin
      linarith
    have h2 := ih hrest (mask keep (fstep pd o f)) (mask_fin _ _ (fstep_fin pd o f hf))
    show ‖((lrun (rest.map Prod.fst) (removed pd o keep f) 0) + (residual pd rest (mask keep (fstep pd o f)) 0)).fp‖ ≤ _
    simp only [PS.add_fp, pruneCost]
    exact (norm_add_le _ _).trans (add_le_add h1 h2)

/-- **pruning error**: the signal of the pruned run differs from the exact one by at most the accumulated cost -/
theorem prune_error (pd : ℂ) (ops : List (FOp κ × (κ → Bool))) (hops : ∀ p ∈ ops, BoundedF p.1) (f : κ → PS ℂ)
    (hf : (Function.support f).Finite) :
    ‖(frun pd (ops.map Prod.fst) f 0).fp - (prun pd ops f 0).fp‖ ≤ pruneCost pd ops f := by
  have h := congrFun (prune_decomposition pd ops f f) 0
  have hz : lrun (ops.map Prod.fst) (fsub f f) = fzero := by
    have : fsub f f = fzero := by funext k; apply PS.ext' <;> simp [fsub, fzero]
    rw [this]
    generalize ops.map Prod.fst = os
    induction os with
    | nil => rfl
    | cons o os ih =>
      rw [lrun_cons]
      have : lstep o (fzero (κ := κ)) = fzero := by
        funext k
        cases o with
        | pt op => simp only [lstep, fstep, pointF, fzero, eqRow_zero]; exact pointOp_zero op
        | shift g => simp only [lstep, fstep, shiftF, fzero]
        | diag a => simp only [lstep, fstep, fzero]; apply PS.ext' <;> simp [PS.dmul]
      rw [this, ih]
  rw [hz] at h
  have h' : (frun pd (ops.map Prod.fst) f 0).fp - (prun pd ops f 0).fp = (residual pd ops f 0).fp := by
    have := congrArg PS.fp h
    simpa [fsub, fadd, fzero] using this
  rw [h']
  exact residual_bound pd ops hops f hf

/-! ### tolerance form -/

/-- the masks only remove states whose three components are all below `eps` in modulus (then `q ≤ 2·eps²`) — the
    `isclose(state, 0, atol=eps)` test of `shiftnd`/`shiftmerge`; `shiftprune`'s `norm ≤ eps` implies it -/
def PrunesBelow (pd : ℂ) (eps : ℝ) : List (FOp κ × (κ → Bool)) → (κ → PS ℂ) → Prop
  | [], _ => True
  | (o, keep) :: rest, f =>
      (∀ k, keep k = false → q (fstep pd o f k) ≤ 2 * eps ^ 2) ∧ PrunesBelow pd eps rest (mask keep (fstep pd o f))

/-- the non-zero states a mask removes -/
def removedSet (keep : κ → Bool) (g : κ → PS ℂ) : Set κ := {k | keep k = false ∧ g k ≠ 0}

/-- number of non-zero states removed along the pruned trajectory -/
noncomputable def removedCount (pd : ℂ) : List (FOp κ × (κ → Bool)) → (κ → PS ℂ) → ℕ
  | [], _ => 0
  | (o, keep) :: rest, f => (removedSet keep (fstep pd o f)).ncard + removedCount pd rest (mask keep (fstep pd o f))

omit [DecidableEq κ] [AddCommGroup κ] in
theorem removedSet_fin (keep : κ → Bool) (g : κ → PS ℂ) (hg : (Function.support g).Finite) :
    (removedSet keep g).Finite := hg.subset (fun k hk => hk.2)

omit [DecidableEq κ] [AddCommGroup κ] in
/-- the removed states are among the states present: the count is at most the number of states after the step -/
theorem removed_le_present (keep : κ → Bool) (g : κ → PS ℂ) (hg : (Function.support g).Finite) :
    (removedSet keep g).ncard ≤ (Function.support g).ncard :=
  Set.ncard_le_ncard (fun k hk => hk.2) hg

omit [DecidableEq κ] in
theorem energy_removed_le (keep : κ → Bool) (g : κ → PS ℂ) (hg : (Function.support g).Finite) (eps : ℝ)
    (h : ∀ k, keep k = false → q (g k) ≤ 2 * eps ^ 2) :
    energy (fsub g (mask keep g)) ≤ (removedSet keep g).ncard * (2 * eps ^ 2) := by
  classical
  have hS := removedSet_fin keep g hg
  have hpt : ∀ k, q (fsub g (mask keep g) k) ≤ if k ∈ removedSet keep g then 2 * eps ^ 2 else 0 := by
    intro k
    by_cases hk : keep k = true
    · have : fsub g (mask keep g) k = 0 := by
        simp only [fsub, mask, hk, if_true]; apply PS.ext' <;> simp
      have hn : k ∉ removedSet keep g := fun hc => by have := hc.1; rw [hk] at this; exact Bool.noConfusion this
      simp [this, hn]
    · have hk' : keep k = false := by simpa using hk
      have e : fsub g (mask keep g) k = g k := by
        simp only [fsub, mask, hk']; apply PS.ext' <;> simp
      rw [e]
      by_cases h0 : g k = 0
      · have hn : k ∉ removedSet keep g := fun hc => hc.2 h0
        simp [h0, hn]
      · have hin : k ∈ removedSet keep g := ⟨hk', h0⟩
        simp only [hin, if_true]; exact h k hk'
  have f1 : Function.HasFiniteSupport (fun k => q (fsub g (mask keep g) k)) := by
    apply fin_energy
    apply hg.subset
    intro k hk h0; apply hk
    simp only [fsub, mask, show g k = 0 from h0]; apply PS.ext' <;> simp
  have f2 : Function.HasFiniteSupport (fun k => if k ∈ removedSet keep g then 2 * eps ^ 2 else (0 : ℝ)) := by
    show (Function.support _).Finite
    apply hS.subset
    intro k hk; by_contra hn; apply hk; simp [hn]
  have hle : energy (fsub g (mask keep g)) ≤ ∑ᶠ k, (if k ∈ removedSet keep g then 2 * eps ^ 2 else (0 : ℝ)) :=
    finsum_le_finsum' f1 f2 hpt
  refine hle.trans (le_of_eq ?_)
  rw [finsum_eq_sum_of_support_subset (s := hS.toFinset) _ (by
    intro k hk; simp only [Set.Finite.coe_toFinset]; by_contra hn; apply hk; simp [hn])]
  have hc : ∀ k ∈ hS.toFinset, (if k ∈ removedSet keep g then 2 * eps ^ 2 else (0 : ℝ)) = 2 * eps ^ 2 := by
    intro k hk
    have : k ∈ removedSet keep g := (Set.Finite.mem_toFinset hS).mp hk
    simp only [this, if_true]
  rw [Finset.sum_congr rfl hc, Finset.sum_const, Set.ncard_eq_toFinset_card _ hS, nsmul_eq_mul]

theorem pruneCost_le (pd : ℂ) (eps : ℝ) (heps : 0 ≤ eps) (ops : List (FOp κ × (κ → Bool))) (f : κ → PS ℂ)
    (hf : (Function.support f).Finite) (h : PrunesBelow pd eps ops f) :
    pruneCost pd ops f ≤ 2 * eps * removedCount pd ops f := by
  induction ops generalizing f with
  | nil => simp [pruneCost, removedCount]
  | cons p rest ih =>
    obtain ⟨o, keep⟩ := p
    obtain ⟨h1, h2⟩ := h
    have hg := fstep_fin pd o f hf
    have he := energy_removed_le keep (fstep pd o f) hg eps h1
    have ih' := ih (mask keep (fstep pd o f)) (mask_fin _ _ hg) h2
    set r := (removedSet keep (fstep pd o f)).ncard with hr
    have hs : Real.sqrt (2 * energy (removed pd o keep f)) ≤ 2 * eps * r := by
      rw [Real.sqrt_le_iff]
      refine ⟨by positivity, ?_⟩
      have hrr : (r : ℝ) ≤ (r : ℝ) ^ 2 := by
        rcases Nat.eq_zero_or_pos r with h0 | hpos
        · simp [h0]
        · have : (1 : ℝ) ≤ r := by exact_mod_cast hpos
          nlinarith
      have : 2 * energy (removed pd o keep f) ≤ 2 * (r * (2 * eps ^ 2)) := by
        have : energy (removed pd o keep f) ≤ r * (2 * eps ^ 2) := he
        linarith
      have h4 : 2 * ((r : ℝ) * (2 * eps ^ 2)) ≤ (2 * eps * r) ^ 2 := by
        have : 0 ≤ eps ^ 2 := by positivity
        nlinarith
      linarith
    simp only [pruneCost, removedCount]
    push_cast
    linarith

/-- **C13, pruning bound**: if every mask removes only states whose components are all below `eps`, the acquired
    signal differs from the unpruned one by at most `2·eps·(number of states removed so far)`, which is at most
    `2·eps·(cumulative number of states present after the preceding steps)` (`removed_le_present`) -/
theorem prune_error_eps (pd : ℂ) (eps : ℝ) (heps : 0 ≤ eps) (ops : List (FOp κ × (κ → Bool)))
    (hops : ∀ p ∈ ops, BoundedF p.1) (f : κ → PS ℂ) (hf : (Function.support f).Finite) (h : PrunesBelow pd eps ops f) :
    ‖(frun pd (ops.map Prod.fst) f 0).fp - (prun pd ops f 0).fp‖ ≤ 2 * eps * removedCount pd ops f :=
  (prune_error pd ops hops f hf).trans (pruneCost_le pd eps heps ops f hf h)

/-- disabling pruning (masks that keep everything) is exact -/
theorem prune_disabled_exact (pd : ℂ) (ops : List (FOp κ)) (f : κ → PS ℂ) :
    prun pd (ops.map (fun o => (o, fun _ => true))) f = frun pd ops f := by
  induction ops generalizing f with
  | nil => rfl
  | cons o ops ih =>
    show prun pd _ (mask (fun _ => true) (fstep pd o f)) = frun pd ops (fstep pd o f)
    have : mask (fun _ => true) (fstep pd o f) = fstep pd o f := by funext k; simp [mask]
    rw [this, ih]

end EpgVerif.Props.C13
