import Mathlib.Analysis.SpecialFunctions.Integrals.Basic
import EpgVerif.Props.C14
import EpgVerif.Props.C01
/-
  C14, first clause — the state-matrix norm is the root-mean-square magnetisation length of the isochromat ensemble:
      (1/2π) ∫₀^{2π} |M(θ)|² dθ  =  Σ_k ( ½|F+(k)|² + ½|F-(k)|² + |Z(k)|² ),
  where M(θ) = `C01.synth s θ` is the magnetisation of the isochromat with dephasing angle θ (Parseval for
  trigonometric polynomials, proved here from ∫₀^{2π} e^{imθ} dθ = 2π·[m = 0]).
-/
namespace EpgVerif.Props.C14
open Complex EpgVerif SM MeasureTheory intervalIntegral

theorem integral_phase (m : ℤ) :
    ∫ θ in (0 : ℝ)..(2 * Real.pi), Complex.exp (Complex.I * (m : ℂ) * (θ : ℂ)) = if m = 0 then ((2 * Real.pi : ℝ) : ℂ) else 0 := by
  by_cases hm : m = 0
  · subst hm; simp
  · simp only [hm, if_false]
    have hc : Complex.I * (m : ℂ) ≠ 0 := mul_ne_zero Complex.I_ne_zero (by exact_mod_cast hm)
    rw [integral_exp_mul_complex hc]
    have : Complex.exp (Complex.I * (m : ℂ) * ((2 * Real.pi : ℝ) : ℂ)) = 1 := by
      have := Complex.exp_int_mul_two_pi_mul_I m
      rw [← this]; congr 1; push_cast; ring
    rw [this]; simp

/-- Parseval for a trigonometric polynomial with coefficients `a k`, `k ∈ S` -/
theorem parseval_finset (S : Finset ℤ) (a : ℤ → ℂ) :
    ∫ θ in (0 : ℝ)..(2 * Real.pi), normSq (∑ k ∈ S, a k * C01.ph (θ : ℂ) k)
      = 2 * Real.pi * ∑ k ∈ S, normSq (a k) := by
  apply Complex.ofReal_injective
  rw [← intervalIntegral.integral_ofReal]
  have hexp : ∀ θ : ℝ, ((normSq (∑ k ∈ S, a k * C01.ph (θ : ℂ) k) : ℝ) : ℂ)
      = ∑ k ∈ S, ∑ l ∈ S, a k * (starRingEnd ℂ) (a l) * Complex.exp (Complex.I * ((k - l : ℤ) : ℂ) * (θ : ℂ)) := by
    intro θ
    rw [← Complex.mul_conj, map_sum, Finset.sum_mul_sum]
    refine Finset.sum_congr rfl (fun k _ => Finset.sum_congr rfl (fun l _ => ?_))
    simp only [C01.ph, map_mul, ← Complex.exp_conj, Complex.conj_I, Complex.conj_ofReal, map_intCast]
    rw [mul_mul_mul_comm, ← Complex.exp_add]
    congr 2; push_cast; ring
  simp_rw [hexp]
  have hint : ∀ k l : ℤ, IntervalIntegrable
      (fun θ : ℝ => a k * (starRingEnd ℂ) (a l) * Complex.exp (Complex.I * ((k - l : ℤ) : ℂ) * (θ : ℂ))) volume 0 (2 * Real.pi) := by
    intro k l
    apply Continuous.intervalIntegrable
    fun_prop
  rw [intervalIntegral.integral_finset_sum (fun k _ => by
    apply Continuous.intervalIntegrable; fun_prop)]
  simp_rw [intervalIntegral.integral_finset_sum (fun l _ => hint _ l), intervalIntegral.integral_const_mul, integral_phase]
  push_cast
  rw [Finset.mul_sum]
  refine Finset.sum_congr rfl (fun k hk => ?_)
  rw [Finset.sum_eq_single k]
  · simp only [sub_self, if_true]
    rw [← Complex.mul_conj]; push_cast; ring
  · intro l _ hlk
    have : k - l ≠ 0 := fun h => hlk (by omega)
    simp [this]
  · intro h; exact absurd hk h

private theorem synth_component (s : SM ℂ) (g : PS ℂ → ℂ) (hg : g 0 = 0) (θ : ℂ) :
    ∑ᶠ k : ℤ, g (s.get k) * C01.ph θ k = ∑ k ∈ Finset.Icc (-(s.n : ℤ)) s.n, g (s.get k) * C01.ph θ k := by
  apply finsum_eq_sum_of_support_subset
  intro k hk
  simp only [Finset.coe_Icc, Set.mem_Icc]
  by_contra hout
  apply hk
  have : s.get k = 0 := by
    apply get_of_not_inRange
    cases hr : inRange s.n k
    · rfl
    · rw [inRange_iff] at hr; exact absurd hr hout
  simp [this, hg]

private theorem norm_component (s : SM ℂ) (g : PS ℂ → ℂ) (hg : g 0 = 0) :
    ∑ᶠ k : ℤ, normSq (g (s.get k)) = ∑ k ∈ Finset.Icc (-(s.n : ℤ)) s.n, normSq (g (s.get k)) := by
  apply finsum_eq_sum_of_support_subset
  intro k hk
  simp only [Finset.coe_Icc, Set.mem_Icc]
  by_contra hout
  apply hk
  have : s.get k = 0 := by
    apply get_of_not_inRange
    cases hr : inRange s.n k
    · rfl
    · rw [inRange_iff] at hr; exact absurd hr hout
  simp [this, hg]

/-- **the squared state-matrix norm is the mean squared magnetisation length of the isochromat ensemble** -/
theorem norm_is_ensemble_rms (s : SM ℂ) :
    (∫ θ in (0 : ℝ)..(2 * Real.pi), q (C01.synth s (θ : ℂ))) / (2 * Real.pi) = normSq' s := by
  have hpi : (2 * Real.pi) ≠ 0 := by positivity
  rw [div_eq_iff hpi]
  have c1 := fun θ : ℝ => synth_component s (fun p => p.fp) rfl (θ : ℂ)
  have c2 := fun θ : ℝ => synth_component s (fun p => p.fm) rfl (θ : ℂ)
  have c3 := fun θ : ℝ => synth_component s (fun p => p.z) rfl (θ : ℂ)
  simp only [q, C01.synth, c1, c2, c3]
  have cont : ∀ g : PS ℂ → ℂ, Continuous (fun θ : ℝ =>
      normSq (∑ k ∈ Finset.Icc (-(s.n : ℤ)) s.n, g (s.get k) * C01.ph (θ : ℂ) k)) := by
    intro g
    apply Complex.continuous_normSq.comp
    apply continuous_finset_sum
    intro k _
    unfold C01.ph
    fun_prop
  have i1 := (cont (fun p => p.fp)).intervalIntegrable (μ := volume) 0 (2 * Real.pi)
  have i2 := (cont (fun p => p.fm)).intervalIntegrable (μ := volume) 0 (2 * Real.pi)
  have i3 := (cont (fun p => p.z)).intervalIntegrable (μ := volume) 0 (2 * Real.pi)
  rw [intervalIntegral.integral_add ((i1.add i2).div_const 2) i3, intervalIntegral.integral_div,
    intervalIntegral.integral_add i1 i2]
  rw [parseval_finset _ (fun k => (s.get k).fp), parseval_finset _ (fun k => (s.get k).fm),
    parseval_finset _ (fun k => (s.get k).z)]
  unfold normSq'
  have hq : ∑ᶠ k : ℤ, q (s.get k) = ∑ k ∈ Finset.Icc (-(s.n : ℤ)) s.n, q (s.get k) := by
    apply finsum_eq_sum_of_support_subset
    intro k hk
    simp only [Finset.coe_Icc, Set.mem_Icc]
    by_contra hout
    apply hk
    have : s.get k = 0 := by
      apply get_of_not_inRange
      cases hr : inRange s.n k
      · rfl
      · rw [inRange_iff] at hr; exact absurd hr hout
    simp [this]
  rw [hq]
  simp only [q, Finset.sum_add_distrib, ← Finset.sum_div]
  ring

/-- **composed with C01**: after any untruncated sequence started from equilibrium, the squared norm of the simulated
    state matrix is the mean over the dephasing angle of the squared length of the independently simulated Bloch
    isochromats -/
theorem norm_is_bloch_ensemble_rms (ops : List (Op ℂ)) (hops : ∀ op ∈ ops, C01.Untruncated op) (pd : ℂ) :
    (∫ θ in (0 : ℝ)..(2 * Real.pi), q (blochRun (θ : ℂ) ops ⟨⟨0, 0, pd⟩, pd⟩).m) / (2 * Real.pi)
      = normSq' (run {} ops (SM.init pd)) := by
  rw [← norm_is_ensemble_rms]
  congr 1
  apply intervalIntegral.integral_congr
  intro θ _
  simp only
  rw [(C01.run_is_bloch_ensemble (θ : ℂ) ops hops _ _ (C01.rel_init (θ : ℂ) pd)).1]

end EpgVerif.Props.C14
