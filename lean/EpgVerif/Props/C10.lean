import Mathlib.Algebra.Module.Basic
import Mathlib.Tactic.Ring
import Mathlib.Tactic.Abel
import EpgVerif.Model.Combine
import EpgVerif.Props.C02
/-
  C10 — nesting, `*` grouping and `@` combination equal sequential application.
-/
namespace EpgVerif.Props.C10
open EpgVerif Combine

mutual
/-- **flatten = in-order leaves**: applying the flattened list is applying the nested sequence -/
theorem flatten_spec {α σ : Type} (f : α → σ → σ) :
    ∀ (t : NTree α) (s : σ), (flatten t).foldl (fun s a => f a s) s = applyTree f t s
  | .leaf a, s => rfl
  | .node ts, s => by simpa [flatten, applyTree] using flatten_list_spec f ts s
theorem flatten_list_spec {α σ : Type} (f : α → σ → σ) :
    ∀ (ts : List (NTree α)) (s : σ),
      (flatten.flattenList ts).foldl (fun s a => f a s) s = applyTree.applyList f ts s
  | [], s => rfl
  | t :: ts, s => by
    simp only [flatten.flattenList, List.foldl_append, applyTree.applyList]
    rw [flatten_spec f t s, flatten_list_spec f ts _]
end

/-- a multi-operator reports the summed duration and shift count of its members -/
theorem multi_attrs_sums (ops : List Attrs) :
    (multiAttrs ops).duration = (ops.map (·.duration)).sum ∧ (multiAttrs ops).nshift = (ops.map (·.nshift)).sum := by
  unfold multiAttrs
  have gen : ∀ (m : Attrs), (ops.foldl appendAttrs m).duration = m.duration + (ops.map (·.duration)).sum ∧
      (ops.foldl appendAttrs m).nshift = m.nshift + (ops.map (·.nshift)).sum := by
    induction ops with
    | nil => intro m; simp
    | cons o ops ih =>
      intro m
      simp only [List.foldl_cons, List.map_cons, List.sum_cons]
      obtain ⟨h1, h2⟩ := ih (appendAttrs m o)
      rw [h1, h2]
      simp only [appendAttrs]
      constructor <;> ring
  simpa using gen ⟨0, 0, [1]⟩

section affine
variable {R M : Type} [Ring R] [AddCommGroup M] [Module R M]

/-- action of an affine operator on a state `s` with equilibrium `e` -/
def act (o : Aff R) (s e : M) : M :=
  match o.eq with
  | none => o.lin • s
  | some a => o.lin • s + a • e

/-- **`@` equals sequential application** (scalar and matrix operators alike) -/
theorem combine_apply (o1 o2 : Aff R) (s e : M) :
    act (combine o1 o2) s e = act o2 (act o1 s e) e := by
  cases h1 : o1.eq <;> cases h2 : o2.eq <;>
    simp [act, combine, h1, h2, mul_smul, smul_add, add_smul, add_assoc]

/-- left and right association of `@` give the same operator -/
theorem combine_assoc (a b c : Aff R) : combine (combine a b) c = combine a (combine b c) := by
  cases ha : a.eq <;> cases hb : b.eq <;> cases hc : c.eq <;>
    simp [combine, ha, hb, hc, mul_assoc, mul_add, add_assoc]

end affine

section partials
variable {R M : Type} [CommRing R] [AddCommGroup M] [Module R M]

/-- derivative tables are affine operators without "none" bookkeeping: pairs `(dA, da)` acting as
    `dA • s + da • e`; the carrier of `_combine`'s bookkeeping is the module `R × R` -/
def actP (x : R × R) (s e : M) : M := x.1 • s + x.2 • e

/-- the `derive0` / `derive1` closures of `ScalarOp._combine` / `MatrixOp._combine` for the right
    operand `(A2, a2)` with derivative tables `d2 p = (dA2_p, da2_p)` -/
def combineDOp (A2 : R) (d2 : Diff.Param → R × R) (order1 : List (Diff.Var × List (Diff.Param × R))) :
    Diff.DOp R (R × R) where
  derive0 x := (A2 * x.1, A2 * x.2)
  derive1 p x := ((d2 p).1 * x.1, (d2 p).1 * x.2 + (d2 p).2)
  derive2 _ x := x
  order1 := order1
  order2 := []
  auto := true
  P2 := []

/-- **first-order tables of `o1 @ o2` are the jets of the composite**: applying the combined
    table for variable `v` (computed by the *same* `_apply_order1` bookkeeping run on operator
    arrays) to a state equals what sequential application accumulates:
    `L2 (D1[v] s) + Σ_p (∂p/∂v) D2_p (o1 s)`. -/
theorem combine_partials_first_order (A1 a1 A2 : R) (d2 : Diff.Param → R × R)
    (order1 : List (Diff.Var × List (Diff.Param × R))) (darrs1 : List (Diff.Var × (R × R)))
    (v : Diff.Var) (s e : M) :
    actP (Diff.val (Diff.applyOrder1 (Diff.modCar (K := R)) (combineDOp A2 d2 order1) (A1, a1) darrs1) v) s e
      = A2 • actP (Diff.val darrs1 v) s e
        + ((order1.filter (fun x => x.1 = v)).map (fun x => (x.2.map (fun pc =>
            pc.2 • (actP (d2 pc.1) (actP (A1, a1) s e) e))).sum)).sum := by
  rw [C02.order1_refines_jet (combineDOp A2 d2 order1) (by simp [combineDOp]) (A1, a1) darrs1 v]
  simp only [actP, combineDOp]
  have hadd : ∀ (x y : R × R), (x + y).1 • s + (x + y).2 • e = (x.1 • s + x.2 • e) + (y.1 • s + y.2 • e) := by
    intro x y; simp [add_smul]; abel
  have hsum : ∀ (l : List (R × R)), (l.sum).1 • s + (l.sum).2 • e = (l.map (fun x => x.1 • s + x.2 • e)).sum := by
    intro l
    induction l with
    | nil => simp
    | cons x l ih => simp only [List.sum_cons, List.map_cons, hadd, ih]
  rw [hadd, hsum]
  congr 1
  · simp [mul_smul, smul_add]
  · rw [List.map_map]
    congr 1
    apply List.map_congr_left
    intro x _
    simp only [Function.comp]
    rw [hsum, List.map_map]
    congr 1
    apply List.map_congr_left
    intro pc _
    simp only [Function.comp, Prod.smul_mk, smul_eq_mul]
    simp only [mul_smul, smul_add, add_smul, mul_add]
    module

end partials
end EpgVerif.Props.C10
