import EpgVerif.Props.C03P
import EpgVerif.Props.C03Phi
import EpgVerif.Props.C03R
/-
  C03, whole programs over every differentiable operator class: the hypotheses of `hessian_exact` are satisfiable by a
  program that contains an RF pulse, a relaxation interval, a precession interval, a phase offset, a generic relaxation
  step and a shift (all parameters equal to the second variable `y`, the first variable `a` entering with slope 1).
-/
namespace EpgVerif.Props.C03
open EpgVerif Diff Ex Finset EpgVerif.Props.C02

example : ∃ prog : List (Step2 (1 : ℝ) ℤ), prog.length = 6 :=
  ⟨[stepT 1 "a" "b" (by decide) (fun y => y) (fun y => y) (fun _ => 1) (fun _ => 1) 1 1 0 0
      (hasDerivAt_id' _) (hasDerivAt_id' _) (hasDerivAt_const _ _) (hasDerivAt_const _ _),
    stepE 1 1 "a" "b" (by decide) (fun _ y => y) (fun _ _ => 1) (fun _ => 1) (fun _ => 0)
      (fun _ _ => hasDerivAt_id' _) (fun _ _ => hasDerivAt_const _ _) (by norm_num) (by norm_num),
    stepP 1 1 "a" "b" (by decide) (fun _ y => y) (fun _ _ => 1) (fun _ => 1) (fun _ => 0)
      (fun _ _ => hasDerivAt_id' _) (fun _ _ => hasDerivAt_const _ _),
    stepPhi 1 "a" "b" (by decide) (fun y => y) (fun _ => 1) 1 0 (hasDerivAt_id' _) (hasDerivAt_const _ _),
    stepR 1 1 "a" "b" (by decide) (fun _ y => y) (fun _ _ => 1) (fun _ => 1) (fun _ => 0)
      (fun _ _ => hasDerivAt_id' _) (fun _ _ => hasDerivAt_const _ _),
    stepShift 1 (1 : ℤ)],
   rfl⟩

end EpgVerif.Props.C03
