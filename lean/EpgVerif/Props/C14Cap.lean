import EpgVerif.Props.C13Cap
/-!
  C14 under a state cap: dropping the rows beyond the cap (an even mask) keeps the invariant "finitely many states,
  conjugate mirror, energy ≤ |PD|²", so the capped n-D simulation never exceeds PD either — truncation is an
  approximation (C13 bounds where it is exact), but never an amplification.
-/
namespace EpgVerif.Props.C14
open Complex EpgVerif EpgVerif.Props.C04 EpgVerif.Props.C08 EpgVerif.Props.C13

variable {κ : Type} [DecidableEq κ] [AddCommGroup κ]

/-- the cap keeps the invariant -/
theorem finv_cap (S : Size κ) (n : ℕ) (pd : ℂ) (f : κ → PS ℂ) (h : FInv pd f) : FInv pd (capF S n f) := by
  refine ⟨?_, ?_, ?_, ?_⟩
  · apply h.fin.subset
    intro k hk h0
    apply hk
    simp [capF, h0]
  · intro k
    simp only [capF, S.neg]
    by_cases hk : S.sz k ≤ n
    · simp only [hk, if_true]; exact h.fsym k
    · simp only [hk, if_false]; simp
  · intro k
    simp only [capF, S.neg]
    by_cases hk : S.sz k ≤ n
    · simp only [hk, if_true]; exact h.zsym k
    · simp only [hk, if_false]; simp
  · apply energy_affine_le f (capF S n f) h.fin 1 (normSq pd) (by norm_num) (le_refl _) _ (normSq_nonneg _) h.bound
    intro k
    simp only [capF]
    by_cases hk : S.sz k ≤ n
    · simp [hk]
    · simp only [hk, if_false, sub_self, zero_mul, ite_self, add_zero, one_mul]
      have : q (0 : PS ℂ) = 0 := by simp [q]
      rw [this]; exact q_nonneg _

theorem finv_cstep (S : Size κ) (n : ℕ) (pd : ℂ) (hpd : (starRingEnd ℂ) pd = pd) (o : FOp κ) (ho : BoundedF o)
    (f : κ → PS ℂ) (h : FInv pd f) : FInv pd (cstep S n pd o f) := by
  cases o with
  | shift g => exact finv_cap S n pd _ (finv_step pd hpd (.shift g) ho f h)
  | pt op => exact finv_step pd hpd (.pt op) ho f h
  | diag a => exact finv_step pd hpd (.diag a) ho f h

theorem finv_crun (S : Size κ) (n : ℕ) (pd : ℂ) (hpd : (starRingEnd ℂ) pd = pd) (ops : List (FOp κ))
    (hops : ∀ o ∈ ops, BoundedF o) (f : κ → PS ℂ) (h : FInv pd f) : FInv pd (crun S n pd ops f) := by
  induction ops generalizing f with
  | nil => exact h
  | cons o ops ih =>
    exact ih (fun o' ho' => hops o' (by simp [ho'])) _ (finv_cstep S n pd hpd o (hops o (by simp)) f h)

/-- **the capped simulation never exceeds PD**: truncation does not amplify -/
theorem capped_signal_le_PD (S : Size κ) (n : ℕ) (pd : ℝ) (ops : List (FOp κ)) (hops : ∀ o ∈ ops, BoundedF o)
    (f : κ → PS ℂ) (h : FInv (pd : ℂ) f) :
    ‖(crun S n (pd : ℂ) ops f 0).fp‖ ≤ |pd| := by
  have := finv_signal _ _ (finv_crun S n (pd : ℂ) (by simp) ops hops f h)
  rw [normSq_eq_norm_sq, normSq_eq_norm_sq, Complex.norm_real, Real.norm_eq_abs] at this
  exact (sq_le_sq₀ (norm_nonneg _) (abs_nonneg _)).mp this

/-! ### any even mask (state pruning) -/

/-- an even mask (a row is dropped together with its mirror row: what the `nonzero` masks of the shift back-ends are,
    since row `−k` holds the conjugates of row `k`) keeps the invariant -/
theorem finv_mask (keep : κ → Bool) (heven : ∀ k, keep (-k) = keep k) (pd : ℂ) (f : κ → PS ℂ) (h : FInv pd f) :
    FInv pd (mask keep f) := by
  refine ⟨?_, ?_, ?_, ?_⟩
  · apply h.fin.subset
    intro k hk h0
    apply hk
    simp [mask, h0]
  · intro k
    simp only [mask, heven]
    by_cases hk : keep k = true
    · simp only [hk, if_true]; exact h.fsym k
    · simp only [hk, Bool.false_eq_true, if_false]; simp
  · intro k
    simp only [mask, heven]
    by_cases hk : keep k = true
    · simp only [hk, if_true]; exact h.zsym k
    · simp only [hk, Bool.false_eq_true, if_false]; simp
  · apply energy_affine_le f (mask keep f) h.fin 1 (normSq pd) (by norm_num) (le_refl _) _ (normSq_nonneg _) h.bound
    intro k
    simp only [mask]
    by_cases hk : keep k = true
    · simp [hk]
    · simp only [hk, Bool.false_eq_true, if_false, sub_self, zero_mul, ite_self, add_zero, one_mul]
      have : q (0 : PS ℂ) = 0 := by simp [q]
      rw [this]; exact q_nonneg _

/-- **pruned simulations never exceed PD** (any even masks after any steps): pruning does not amplify -/
theorem pruned_signal_le_PD (pd : ℝ) (ops : List (FOp κ × (κ → Bool))) (hops : ∀ o ∈ ops, BoundedF o.1)
    (heven : ∀ o ∈ ops, ∀ k, o.2 (-k) = o.2 k) (f : κ → PS ℂ) (h : FInv (pd : ℂ) f) :
    ‖(prun (pd : ℂ) ops f 0).fp‖ ≤ |pd| := by
  have hrun : FInv (pd : ℂ) (prun (pd : ℂ) ops f) := by
    induction ops generalizing f with
    | nil => exact h
    | cons o ops ih =>
      obtain ⟨op, keep⟩ := o
      exact ih (fun o' ho' => hops o' (by simp [ho'])) (fun o' ho' => heven o' (by simp [ho'])) _
        (finv_mask keep (heven (op, keep) (by simp)) _ _ (finv_step (pd : ℂ) (by simp) op (hops (op, keep) (by simp)) f h))
  have := finv_signal _ _ hrun
  rw [normSq_eq_norm_sq, normSq_eq_norm_sq, Complex.norm_real, Real.norm_eq_abs] at this
  exact (sq_le_sq₀ (norm_nonneg _) (abs_nonneg _)).mp this

end EpgVerif.Props.C14
