import Mathlib.Algebra.BigOperators.Finprod
import Mathlib.Algebra.FiniteSupport.Basic
import Mathlib.Algebra.BigOperators.Group.List.Basic
import EpgVerif.Model.ND
import EpgVerif.Props.C08
/-
  C04 — n-D / time-accumulating state matrices reproduce the Bloch isochromat at any position.
  Wavenumber indices live in an arbitrary commutative group `κ`; "position (and off-resonance)" is a
  character χ : κ → ℂ.  The table-based implementation model (`Model/ND`) is shown to compute the
  functional EPG, and the functional EPG to synthesise to the isochromat, for every operator sequence.
-/
namespace EpgVerif.Props.C04
open Complex EpgVerif NDS
local notation "cj" => starRingEnd ℂ

variable {κ : Type} [DecidableEq κ] [AddCommGroup κ]

/-! ### the table computes the function -/

theorem get_ofFun (ks : List κ) (f : κ → PS ℂ) (pd : ℂ) (k : κ) :
    (ofFun ks f pd).get k = if k ∈ ks then f k else 0 := by
  unfold NDS.get ofFun
  induction ks with
  | nil => simp
  | cons a rest ih =>
    simp only [List.map_cons, List.find?_cons]
    by_cases h : a = k
    · subst h; simp
    · have : k ≠ a := fun e => h e.symm
      simp only [h, decide_false, List.mem_cons, this, false_or]
      exact ih

theorem keys_ofFun (ks : List κ) (f : κ → PS ℂ) (pd : ℂ) : (ofFun ks f pd).keys = ks := by
  simp [NDS.keys, ofFun, List.map_map, Function.comp_def]

theorem mem_addKey (acc : List κ) (a k : κ) : k ∈ addKey acc a ↔ k ∈ acc ∨ k = a := by
  unfold addKey
  by_cases h : a ∈ acc
  · simp only [h, if_true]
    constructor
    · exact Or.inl
    · rintro (h' | rfl); exact h'; exact h
  · simp [h]

theorem mem_foldl_addKey (ks acc : List κ) (k : κ) : k ∈ ks.foldl addKey acc ↔ k ∈ acc ∨ k ∈ ks := by
  induction ks generalizing acc with
  | nil => simp
  | cons a rest ih =>
    simp only [List.foldl_cons, ih, mem_addKey, List.mem_cons]
    tauto

theorem mem_uniq (ks : List κ) (k : κ) : k ∈ uniq ks ↔ k ∈ ks := by
  simp [uniq, mem_foldl_addKey]

theorem get_of_not_mem (s : NDS κ ℂ) (k : κ) (h : k ∉ s.keys) : s.get k = 0 := by
  unfold NDS.get
  have : s.ent.find? (fun e => decide (e.1 = k)) = none := by
    rw [List.find?_eq_none]
    intro e he hk
    apply h
    simp only [decide_eq_true_eq] at hk
    exact hk ▸ List.mem_map_of_mem (f := (·.1)) he
  rw [this]

/-- functional reading of a non-shifting operator and of a shift -/
noncomputable def pointF (op : Op ℂ) (pd : ℂ) (f : κ → PS ℂ) : κ → PS ℂ :=
  fun k => pointOp op (eqRow pd k) (f k)
def shiftF (g : κ) (f : κ → PS ℂ) : κ → PS ℂ :=
  fun k => ⟨(f (k - g)).fp, (f (k + g)).fm, (f k).z⟩

/-- well-formed table: origin stored, conjugate symmetry, real proton density -/
structure WFN (s : NDS κ ℂ) : Prop where
  zero_mem : (0 : κ) ∈ s.keys
  fsym : ∀ k, (s.get k).fm = cj (s.get (-k)).fp
  zsym : ∀ k, (s.get (-k)).z = cj (s.get k).z
  pdreal : cj s.pd = s.pd

theorem pointOp_zero (op : Op ℂ) : pointOp op 0 0 = (0 : PS ℂ) := by
  cases op <;> try (simp [pointOp, PS.mmul, PS.dmul] <;> rfl)
  case R rT rL r0 => cases r0 <;> simp [pointOp, PS.dmul] <;> rfl
  all_goals rfl

theorem get_point (op : Op ℂ) (s : NDS κ ℂ) (h0 : (0 : κ) ∈ s.keys) (k : κ) :
    (s.point op).get k = pointF op s.pd s.get k := by
  unfold NDS.point pointF
  rw [get_ofFun]
  by_cases hk : k ∈ s.keys
  · simp [hk]
  · have hk0 : k ≠ 0 := fun e => hk (e ▸ h0)
    simp only [hk, if_false, get_of_not_mem s k hk, eqRow, hk0]
    exact (pointOp_zero op).symm

theorem get_shift (g : κ) (s : NDS κ ℂ) (h : WFN s) (k : κ) :
    (s.shift g).get k = shiftF g s.get k := by
  unfold NDS.shift shiftF
  rw [get_ofFun]
  have hm : (s.get (-k - g)).fp = cj (s.get (k + g)).fm := by
    have := h.fsym (k + g)
    rw [this, Complex.conj_conj]; congr 2; abel
  by_cases hk : k ∈ uniq (s.keys ++ s.keys.map (· + g) ++ s.keys.map (· - g))
  · simp only [hk, if_true, hm, conj_C, Complex.conj_conj]
  · simp only [hk, if_false]
    rw [mem_uniq] at hk
    simp only [List.mem_append, List.mem_map, not_or, not_exists, not_and] at hk
    obtain ⟨⟨h1, h2⟩, h3⟩ := hk
    have e1 : s.get (k - g) = 0 := get_of_not_mem s _ (fun hc => h2 _ hc (by abel))
    have e2 : s.get (k + g) = 0 := get_of_not_mem s _ (fun hc => h3 _ hc (by abel))
    have e3 : s.get k = 0 := get_of_not_mem s _ h1
    rw [e1, e2, e3]

/-! ### well-formedness is kept (real parameters) -/

open EpgVerif.Props.C08 in
theorem mirror_mmul (m : Nat → Nat → ℂ) (hm : MatCompat m) (v w : PS ℂ)
    (h1 : v.fm = cj w.fp) (h2 : w.fm = cj v.fp) (h3 : w.z = cj v.z) :
    (PS.mmul m v).fm = cj (PS.mmul m w).fp ∧ (PS.mmul m w).z = cj (PS.mmul m v).z := by
  obtain ⟨h11, h10, h12, h21, h22⟩ := hm
  have h22' : cj (m 2 2) = m 2 2 := h22.symm
  constructor
  · simp only [PS.mmul, map_add, map_mul, h11, h10, h12, h1, h2, h3, Complex.conj_conj]; ring
  · simp only [PS.mmul, map_add, map_mul, h1, h2, h3, h21, h22', Complex.conj_conj]; ring

open EpgVerif.Props.C08 in
theorem mirror_dmul (a a0 : Nat → ℂ) (ha : ArrCompat a) (ha0 : ArrCompat a0) (v w e : PS ℂ)
    (h1 : v.fm = cj w.fp) (h3 : w.z = cj v.z) (he : e.fp = 0 ∧ e.fm = 0 ∧ cj e.z = e.z) :
    (PS.dmul a v + PS.dmul a0 e).fm = cj (PS.dmul a w + PS.dmul a0 e).fp ∧
    (PS.dmul a w + PS.dmul a0 e).z = cj (PS.dmul a v + PS.dmul a0 e).z := by
  obtain ⟨he1, he2, he3⟩ := he
  constructor
  · simp [PS.dmul, h1, he1, he2, ha.1]
  · simp only [PS.dmul, PS.add_z, map_add, map_mul, h3, he3]
    rw [← ha.2, ← ha0.2]

omit [DecidableEq κ] in
theorem eqRow_neg [DecidableEq κ] (pd : ℂ) (k : κ) : eqRow pd (-k) = eqRow pd k := by
  unfold eqRow
  by_cases hk : k = 0
  · subst hk; simp
  · have : -k ≠ 0 := by simpa using hk
    simp [hk, this]

theorem eqRow_shape (pd : ℂ) (hpd : cj pd = pd) (k : κ) :
    (eqRow pd k).fp = 0 ∧ (eqRow pd k).fm = 0 ∧ cj (eqRow pd k).z = (eqRow pd k).z := by
  unfold eqRow
  by_cases hk : k = 0 <;> simp [hk, hpd]

open EpgVerif.Props.C08 in
/-- the per-state action keeps the conjugate-mirror relation between the states at `k` and `−k` -/
theorem mirror_pointOp (op : Op ℂ) (hp : RealParams op) (e v w : PS ℂ)
    (he : e.fp = 0 ∧ e.fm = 0 ∧ cj e.z = e.z)
    (h1 : v.fm = cj w.fp) (h2 : w.fm = cj v.fp) (h3 : w.z = cj v.z) :
    (pointOp op e v).fm = cj (pointOp op e w).fp ∧ (pointOp op e w).z = cj (pointOp op e v).z := by
  cases op with
  | T a p =>
    obtain ⟨ha, hp'⟩ := hp
    obtain ⟨a', rfl⟩ : ∃ r : ℝ, (r : ℂ) = a := ⟨a.re, (Complex.conj_eq_iff_re.mp ha)⟩
    obtain ⟨p', rfl⟩ : ∃ r : ℝ, (r : ℂ) = p := ⟨p.re, (Complex.conj_eq_iff_re.mp hp')⟩
    exact mirror_mmul _ (coeffT_compat a' p') v w h1 h2 h3
  | Phi p =>
    obtain ⟨p', rfl⟩ : ∃ r : ℝ, (r : ℂ) = p := ⟨p.re, (Complex.conj_eq_iff_re.mp hp)⟩
    exact mirror_mmul _ (coeffPhi_compat p') v w h1 h2 h3
  | E tau T1 T2 g =>
    have := coeffE_compat tau T1 T2 g hp
    exact mirror_dmul _ _ this.1 this.2 v w e h1 h3 he
  | P tau g =>
    have := mirror_dmul _ (fun _ => 0) (coeffP_compat tau g hp) (by simp [ArrCompat]) v w e h1 h3 he
    simpa [pointOp, PS.dmul] using this
  | R rT rL r0 =>
    cases r0 with
    | none =>
      have hc := coeffR_compat rT rL 0 hp.1 (by simp)
      have := mirror_dmul _ (fun _ => 0) hc.1 (by simp [ArrCompat]) v w e h1 h3 he
      simpa [pointOp, PS.dmul] using this
    | some r =>
      have hc := coeffR_compat rT rL r hp.1 (hp.2 r rfl)
      exact mirror_dmul _ _ hc.1 hc.2 v w e h1 h3 he
  | Spoiler => exact ⟨by simp [pointOp], by simpa [pointOp] using h3⟩
  | S k n => exact ⟨h1, h3⟩
  | Reset => exact ⟨h1, h3⟩
  | PD pd r => exact ⟨h1, h3⟩
  | Wait => exact ⟨h1, h3⟩

open EpgVerif.Props.C08 in
theorem wfn_point (op : Op ℂ) (hp : RealParams op) (s : NDS κ ℂ) (h : WFN s) : WFN (s.point op) := by
  have hg := get_point op s h.zero_mem
  refine ⟨?_, ?_, ?_, h.pdreal⟩
  · unfold NDS.point; rw [keys_ofFun]; exact h.zero_mem
  · intro k
    rw [hg k, hg (-k)]
    unfold pointF
    rw [eqRow_neg]
    have e2 := h.fsym (-k); rw [neg_neg] at e2
    exact (mirror_pointOp op hp _ _ _ (eqRow_shape s.pd h.pdreal k) (h.fsym k) e2 (h.zsym k)).1
  · intro k
    rw [hg k, hg (-k)]
    unfold pointF
    rw [eqRow_neg]
    have e2 := h.fsym (-k); rw [neg_neg] at e2
    exact (mirror_pointOp op hp _ _ _ (eqRow_shape s.pd h.pdreal k) (h.fsym k) e2 (h.zsym k)).2

theorem wfn_shift (g : κ) (s : NDS κ ℂ) (h : WFN s) : WFN (s.shift g) := by
  have hg := get_shift g s h
  refine ⟨?_, ?_, ?_, h.pdreal⟩
  · unfold NDS.shift; rw [keys_ofFun, mem_uniq]
    exact List.mem_append_left _ (List.mem_append_left _ h.zero_mem)
  · intro k
    rw [hg k, hg (-k)]
    simp only [shiftF]
    have := h.fsym (k + g)
    rw [this]; congr 3; abel
  · intro k
    rw [hg k, hg (-k)]
    exact h.zsym k

/-! ### synthesis at a "position": a character of the wavenumber group -/

/-- `χ(a + b) = χ(a) χ(b)`, `χ(0) = 1`: position and off-resonance of an isochromat -/
structure Character (χ : κ → ℂ) : Prop where
  add : ∀ a b, χ (a + b) = χ a * χ b
  zero : χ 0 = 1

/-- inverse Fourier sum of the stored states over their wavenumbers -/
noncomputable def synth (χ : κ → ℂ) (f : κ → PS ℂ) : PS ℂ :=
  ⟨∑ᶠ k, (f k).fp * χ k, ∑ᶠ k, (f k).fm * χ k, ∑ᶠ k, (f k).z * χ k⟩

theorem fin_get (s : NDS κ ℂ) (g : PS ℂ → ℂ) (hg : g 0 = 0) (χ : κ → ℂ) :
    Function.HasFiniteSupport (fun k => g (s.get k) * χ k) := by
  show (Function.support _).Finite
  apply Set.Finite.subset (s.keys.finite_toSet)
  intro k hk
  by_contra hout
  apply hk
  have : s.get k = 0 := get_of_not_mem s k hout
  simp [this, hg]

theorem lin3 (s : NDS κ ℂ) (χ : κ → ℂ) (a b c : ℂ) :
    ∑ᶠ k, (a * (s.get k).fp + b * (s.get k).fm + c * (s.get k).z) * χ k
      = a * (synth χ s.get).fp + b * (synth χ s.get).fm + c * (synth χ s.get).z := by
  have h1 := fin_get s (fun p => a * p.fp) (by simp) χ
  have h2 := fin_get s (fun p => b * p.fm) (by simp) χ
  have h3 := fin_get s (fun p => c * p.z) (by simp) χ
  have e : (fun k => (a * (s.get k).fp + b * (s.get k).fm + c * (s.get k).z) * χ k)
      = fun k => (a * (s.get k).fp * χ k + b * (s.get k).fm * χ k) + c * (s.get k).z * χ k := by
    funext k; ring
  have h12 : Function.HasFiniteSupport
      (fun k => a * (s.get k).fp * χ k + b * (s.get k).fm * χ k) := h1.add h2
  rw [e, finsum_add_distrib h12 h3, finsum_add_distrib h1 h2]
  simp only [synth, mul_finsum, mul_assoc]

theorem delta (χ : κ → ℂ) (hχ : Character χ) (v : ℂ) : ∑ᶠ k : κ, (if k = 0 then v else 0) * χ k = v := by
  rw [finsum_eq_single _ (0 : κ) (by intro x hx; simp [hx])]
  simp [hχ.zero]

/-- state-wise affine maps commute with synthesis -/
theorem synth_maffine (χ : κ → ℂ) (hχ : Character χ) (s : NDS κ ℂ) (t : κ → PS ℂ) (m : Nat → Nat → ℂ) (v : PS ℂ)
    (h : ∀ k, t k = PS.mmul m (s.get k) + (if k = 0 then v else 0)) :
    synth χ t = PS.mmul m (synth χ s.get) + v := by
  have hc : ∀ (c : PS ℂ → ℂ) (a b d : ℂ), (∀ p, c (PS.mmul m p) = a * p.fp + b * p.fm + d * p.z) →
      (∀ p q, c (p + q) = c p + c q) → c 0 = 0 →
      ∑ᶠ k, c (t k) * χ k
        = a * (synth χ s.get).fp + b * (synth χ s.get).fm + d * (synth χ s.get).z + c v := by
    intro c a b d hm hadd h0
    have e : (fun k => c (t k) * χ k)
        = fun k => (a * (s.get k).fp + b * (s.get k).fm + d * (s.get k).z) * χ k
            + (if k = 0 then c v else 0) * χ k := by
      funext k
      rw [h k, hadd, hm]
      by_cases hk : k = 0 <;> simp [hk, h0] <;> ring
    rw [e, finsum_add_distrib, lin3, delta χ hχ]
    · exact fin_get s (fun p => a * p.fp + b * p.fm + d * p.z) (by simp) χ
    · show (Function.support _).Finite
      apply Set.Finite.subset (Set.finite_singleton (0 : κ))
      intro k hk
      by_contra h0'
      apply hk
      have : k ≠ 0 := by simpa using h0'
      simp [this]
  apply PS.ext'
  · simpa [synth, PS.mmul] using hc (fun p => p.fp) _ _ _ (fun p => rfl) (fun p q => rfl) rfl
  · simpa [synth, PS.mmul] using hc (fun p => p.fm) _ _ _ (fun p => rfl) (fun p q => rfl) rfl
  · simpa [synth, PS.mmul] using hc (fun p => p.z) _ _ _ (fun p => rfl) (fun p q => rfl) rfl

/-- **Fourier shift theorem** in any number of dimensions (and along the time axis) -/
theorem synth_shiftF (χ : κ → ℂ) (hχ : Character χ) (g : κ) (f : κ → PS ℂ) :
    synth χ (shiftF g f) = ⟨χ g * (synth χ f).fp, χ (-g) * (synth χ f).fm, (synth χ f).z⟩ := by
  apply PS.ext'
  · simp only [synth, shiftF]
    rw [← finsum_comp_equiv (Equiv.addRight g)]
    simp only [Equiv.coe_addRight, add_sub_cancel_right]
    rw [mul_finsum]
    congr 1; funext k
    rw [hχ.add]; ring
  · simp only [synth, shiftF]
    rw [← finsum_comp_equiv (Equiv.subRight g)]
    simp only [Equiv.subRight_apply, sub_add_cancel]
    rw [mul_finsum]
    congr 1; funext k
    rw [sub_eq_add_neg, hχ.add]; ring
  · simp only [synth, shiftF]

/-! ### the isochromat -/

def RealOp : NOp κ ℂ → Prop
  | .pt op => EpgVerif.Props.C08.RealParams op
  | .shift _ => True

private def diag (a : Nat → ℂ) : Nat → Nat → ℂ := fun i j => if i = j then a i else 0
private theorem dmul_eq_mmul (a : Nat → ℂ) (p : PS ℂ) : PS.dmul a p = PS.mmul (diag a) p := by
  apply PS.ext' <;> simp [PS.dmul, PS.mmul, diag]

theorem pointOp_affine (op : Op ℂ) (pd : ℂ) :
    ∃ (m : Nat → Nat → ℂ) (v : PS ℂ), (∀ (k : κ) (p : PS ℂ), pointOp op (eqRow pd k) p = PS.mmul m p + (if k = 0 then v else 0)) ∧
      (∀ p : PS ℂ, pointOp op ⟨0, 0, pd⟩ p = PS.mmul m p + v) := by
  have hid : ∀ p : PS ℂ, p = PS.mmul (diag fun _ => 1) p := by
    intro p; apply PS.ext' <;> simp [PS.mmul, diag]
  have hzero : ∀ (k : κ), (if k = 0 then (0 : PS ℂ) else 0) = 0 := by intro k; split <;> rfl
  cases op with
  | T a p => exact ⟨coeffT a p, 0, fun k q => by simp [pointOp, hzero], fun q => by simp [pointOp]⟩
  | Phi p => exact ⟨coeffPhi p, 0, fun k q => by simp [pointOp, hzero], fun q => by simp [pointOp]⟩
  | E tau T1 T2 g =>
    refine ⟨diag (fun i => Ex.eval (envOf [tau, T1, T2, g]) (Coeff.E.arr i)),
      PS.dmul (fun i => Ex.eval (envOf [tau, T1, T2, g]) (Coeff.E.arr0 i)) ⟨0, 0, pd⟩, fun k q => ?_, fun q => ?_⟩
    · simp only [pointOp, ← dmul_eq_mmul, eqRow]
      by_cases hk : k = 0 <;> simp [hk]
    · simp only [pointOp, ← dmul_eq_mmul]
  | P tau g =>
    exact ⟨diag (fun i => Ex.eval (envOf [tau, g]) (Coeff.P.arr i)), 0,
      fun k q => by simp [pointOp, ← dmul_eq_mmul, hzero], fun q => by simp [pointOp, ← dmul_eq_mmul]⟩
  | R rT rL r0 =>
    cases r0 with
    | none =>
      exact ⟨diag (fun i => Ex.eval (envOf [rT, rL, 0]) (Coeff.R.arr i)), 0,
        fun k q => by simp [pointOp, ← dmul_eq_mmul, hzero], fun q => by simp [pointOp, ← dmul_eq_mmul]⟩
    | some r =>
      refine ⟨diag (fun i => Ex.eval (envOf [rT, rL, r]) (Coeff.R.arr i)),
        PS.dmul (fun i => Ex.eval (envOf [rT, rL, r]) (Coeff.R.arr0 i)) ⟨0, 0, pd⟩, fun k q => ?_, fun q => ?_⟩
      · simp only [pointOp, ← dmul_eq_mmul, eqRow, Option.getD_some]
        by_cases hk : k = 0 <;> simp [hk]
      · simp only [pointOp, ← dmul_eq_mmul, Option.getD_some]
  | Spoiler =>
    refine ⟨diag (fun i => if i = 2 then 1 else 0), 0, fun k q => ?_, fun q => ?_⟩
    · rw [hzero]; apply PS.ext' <;> simp [pointOp, PS.mmul, diag]
    · apply PS.ext' <;> simp [pointOp, PS.mmul, diag]
  | S k n => exact ⟨diag fun _ => 1, 0, fun k q => by rw [hzero]; simpa [pointOp] using hid q, fun q => by simpa [pointOp] using hid q⟩
  | Reset => exact ⟨diag fun _ => 1, 0, fun k q => by rw [hzero]; simpa [pointOp] using hid q, fun q => by simpa [pointOp] using hid q⟩
  | PD pd r => exact ⟨diag fun _ => 1, 0, fun k q => by rw [hzero]; simpa [pointOp] using hid q, fun q => by simpa [pointOp] using hid q⟩
  | Wait => exact ⟨diag fun _ => 1, 0, fun k q => by rw [hzero]; simpa [pointOp] using hid q, fun q => by simpa [pointOp] using hid q⟩

/-- **one operator**: on a well-formed table, applying the operator and synthesising at χ equals
    applying the Bloch operation to the synthesised magnetisation -/
theorem step (χ : κ → ℂ) (hχ : Character χ) (op : NOp κ ℂ) (hop : RealOp op) (s : NDS κ ℂ) (h : WFN s) :
    WFN (s.apply op) ∧ (s.apply op).pd = s.pd ∧
      synth χ (s.apply op).get = blochStepN χ s.pd op (synth χ s.get) := by
  cases op with
  | pt o =>
    refine ⟨wfn_point o hop s h, rfl, ?_⟩
    obtain ⟨m, v, hk, h0⟩ := pointOp_affine (κ := κ) o s.pd
    have : (s.apply (.pt o)).get = fun k => PS.mmul m (s.get k) + (if k = 0 then v else 0) := by
      funext k
      simp only [NDS.apply]
      rw [get_point o s h.zero_mem k]
      exact hk k _
    rw [this, synth_maffine χ hχ s _ m v (fun k => rfl)]
    simp only [blochStepN, h0]
  | shift g =>
    refine ⟨wfn_shift g s h, rfl, ?_⟩
    have : (s.apply (.shift g)).get = shiftF g s.get := by
      funext k; exact get_shift g s h k
    rw [this, synth_shiftF χ hχ]
    rfl

/-- **C04 (main theorem)**: for every sequence of RF / relaxation / precession operators and shifts along
    any wavenumber or time axis, the inverse Fourier sum of the stored states at any "position" χ is the
    magnetisation of the Bloch isochromat simulated at that position -/
theorem nd_is_bloch (χ : κ → ℂ) (hχ : Character χ) (ops : List (NOp κ ℂ)) (hops : ∀ op ∈ ops, RealOp op)
    (s : NDS κ ℂ) (h : WFN s) :
    synth χ (s.run ops).get = blochRunN χ s.pd ops (synth χ s.get) := by
  induction ops generalizing s with
  | nil => rfl
  | cons op rest ih =>
    obtain ⟨hw, hpd, hs⟩ := step χ hχ op (hops op List.mem_cons_self) s h
    simp only [NDS.run, blochRunN, List.foldl_cons] at ih ⊢
    have := ih (fun o ho => hops o (List.mem_cons_of_mem _ ho)) (s.apply op) hw
    rw [this, hpd, hs]

/-- the default initial table is well-formed and synthesises to the magnetisation at rest -/
theorem wfn_init (pd : ℝ) : WFN (NDS.init (0 : κ) (pd : ℂ)) := by
  have hg : ∀ k : κ, (NDS.init (0 : κ) (pd : ℂ)).get k = if k = 0 then ⟨0, 0, (pd : ℂ)⟩ else 0 := by
    intro k
    unfold NDS.init NDS.get
    by_cases hk : k = 0
    · subst hk; simp
    · have : (0 : κ) ≠ k := fun e => hk e.symm
      simp [hk, this]
  refine ⟨by simp [NDS.init, NDS.keys], ?_, ?_, by simp [NDS.init]⟩
  · intro k; rw [hg k, hg (-k)]
    by_cases hk : k = 0
    · subst hk; simp
    · have : -k ≠ 0 := by simpa using hk
      simp [hk, this]
  · intro k; rw [hg k, hg (-k)]
    by_cases hk : k = 0
    · subst hk; simp
    · have : -k ≠ 0 := by simpa using hk
      simp [hk, this]


theorem nodup_addKey (acc : List κ) (a : κ) (h : acc.Nodup) : (addKey acc a).Nodup := by
  unfold addKey
  by_cases ha : a ∈ acc
  · simp [ha, h]
  · simp only [ha, if_false]
    exact List.Nodup.append h (List.nodup_singleton a) (by
      intro x hx hx'
      simp only [List.mem_singleton] at hx'
      exact ha (hx' ▸ hx))

theorem nodup_foldl_addKey (ks acc : List κ) (h : acc.Nodup) : (ks.foldl addKey acc).Nodup := by
  induction ks generalizing acc with
  | nil => exact h
  | cons a rest ih => exact ih _ (nodup_addKey acc a h)

theorem nodup_uniq (ks : List κ) : (uniq ks).Nodup := nodup_foldl_addKey ks [] List.nodup_nil

/-- entries of a table with distinct coordinates are what `get` reads -/
theorem get_of_mem_ent (s : NDS κ ℂ) (hn : s.keys.Nodup) (e : κ × PS ℂ) (he : e ∈ s.ent) : s.get e.1 = e.2 := by
  obtain ⟨ent, pd⟩ := s
  simp only [NDS.keys] at hn
  simp only [NDS.get]
  induction ent with
  | nil => simp at he
  | cons a rest ih =>
    simp only [List.map_cons, List.nodup_cons] at hn
    simp only [List.find?_cons]
    rcases List.mem_cons.mp he with rfl | h
    · simp
    · have hne : a.1 ≠ e.1 := by
        intro heq
        exact hn.1 (heq ▸ List.mem_map_of_mem (f := (·.1)) h)
      simp only [hne, decide_false]
      exact ih hn.2 h

theorem finsum_eq_list_sum (s : NDS κ ℂ) (hn : s.keys.Nodup) (g : κ → PS ℂ → ℂ) (hg : ∀ k, g k 0 = 0) :
    ∑ᶠ k, g k (s.get k) = (s.ent.map (fun e => g e.1 e.2)).sum := by
  have hsub : Function.support (fun k => g k (s.get k)) ⊆ ↑(s.keys.toFinset) := by
    intro k hk
    by_contra hout
    apply hk
    have : k ∉ s.keys := by simpa using hout
    simp [get_of_not_mem s k this, hg]
  rw [finsum_eq_sum_of_support_subset _ hsub, List.sum_toFinset _ hn]
  simp only [NDS.keys, List.map_map]
  congr 1
  apply List.map_congr_left
  intro e he
  simp only [Function.comp, get_of_mem_ent s hn e he]


/-- the operators keep the coordinates of a table distinct -/
theorem nodup_apply (op : NOp κ ℂ) (s : NDS κ ℂ) (hn : s.keys.Nodup) : (s.apply op).keys.Nodup := by
  cases op with
  | pt o => simp only [NDS.apply, NDS.point]; rw [keys_ofFun]; exact hn
  | shift g => simp only [NDS.apply, NDS.shift]; rw [keys_ofFun]; exact nodup_uniq _

theorem nodup_run (ops : List (NOp κ ℂ)) (s : NDS κ ℂ) (hn : s.keys.Nodup) : (s.run ops).keys.Nodup := by
  induction ops generalizing s with
  | nil => exact hn
  | cons op rest ih => simp only [NDS.run, List.foldl_cons] at ih ⊢; exact ih _ (nodup_apply op s hn)

theorem nodup_init (pd : ℂ) : (NDS.init (0 : κ) pd).keys.Nodup := by simp [NDS.init, NDS.keys]

/-! ### instances: positions in space, off-resonance along the time axis -/

theorem K4.ext' {a b : K4} (h1 : a.x = b.x) (h2 : a.y = b.y) (h3 : a.z = b.z) (h4 : a.t = b.t) : a = b := by
  cases a; cases b; simp_all

@[simp] theorem K4.add_x (a b : K4) : (a + b).x = a.x + b.x := rfl
@[simp] theorem K4.add_y (a b : K4) : (a + b).y = a.y + b.y := rfl
@[simp] theorem K4.add_z (a b : K4) : (a + b).z = a.z + b.z := rfl
@[simp] theorem K4.add_t (a b : K4) : (a + b).t = a.t + b.t := rfl
@[simp] theorem K4.neg_x (a : K4) : (-a).x = -a.x := rfl
@[simp] theorem K4.neg_y (a : K4) : (-a).y = -a.y := rfl
@[simp] theorem K4.neg_z (a : K4) : (-a).z = -a.z := rfl
@[simp] theorem K4.neg_t (a : K4) : (-a).t = -a.t := rfl
@[simp] theorem K4.sub_x (a b : K4) : (a - b).x = a.x - b.x := rfl
@[simp] theorem K4.sub_y (a b : K4) : (a - b).y = a.y - b.y := rfl
@[simp] theorem K4.sub_z (a b : K4) : (a - b).z = a.z - b.z := rfl
@[simp] theorem K4.sub_t (a b : K4) : (a - b).t = a.t - b.t := rfl
@[simp] theorem K4.zero_x : (0 : K4).x = 0 := rfl
@[simp] theorem K4.zero_y : (0 : K4).y = 0 := rfl
@[simp] theorem K4.zero_z : (0 : K4).z = 0 := rfl
@[simp] theorem K4.zero_t : (0 : K4).t = 0 := rfl

/-- the coordinate type the driver runs at is a commutative group -/
instance : AddCommGroup K4 where
  add_assoc a b c := by apply K4.ext' <;> simp [add_assoc]
  zero_add a := by apply K4.ext' <;> simp
  add_zero a := by apply K4.ext' <;> simp
  nsmul := nsmulRec
  zsmul := zsmulRec
  neg_add_cancel a := by apply K4.ext' <;> simp
  add_comm a b := by apply K4.ext' <;> simp [add_comm]
  sub_eq_add_neg a b := by apply K4.ext' <;> simp [sub_eq_add_neg]

/-- isochromat at position `x` (mm-scaled by the wavenumber units `kv`) with off-resonance `ω` acting on the
    accumulated time (unit `tv`) -/
noncomputable def posChar (kv x : Fin 3 → ℝ) (tv ω : ℝ) : K4 → ℂ := fun k =>
  cexp (I * ((k.x : ℂ) * kv 0 * x 0 + (k.y : ℂ) * kv 1 * x 1 + (k.z : ℂ) * kv 2 * x 2 + (k.t : ℂ) * tv * ω))

theorem posChar_character (kv x : Fin 3 → ℝ) (tv ω : ℝ) : Character (posChar kv x tv ω) := by
  refine ⟨fun a b => ?_, by simp [posChar]⟩
  simp only [posChar, K4.add_x, K4.add_y, K4.add_z, K4.add_t]
  rw [← Complex.exp_add]; congr 1; push_cast; ring

/-- **C04 at a position**: gradient shifts (kx, ky, kz) and time accumulation t, any sequence, any position `x`
    and off-resonance `ω` -/
theorem position_is_bloch (kv x : Fin 3 → ℝ) (tv ω : ℝ) (ops : List (NOp K4 ℂ)) (hops : ∀ op ∈ ops, RealOp op)
    (pd : ℝ) :
    synth (posChar kv x tv ω) ((NDS.init (0 : K4) (pd : ℂ)).run ops).get
      = blochRunN (posChar kv x tv ω) (pd : ℂ) ops ⟨0, 0, (pd : ℂ)⟩ := by
  rw [nd_is_bloch _ (posChar_character kv x tv ω) ops hops _ (wfn_init pd)]
  congr 1
  have hg : ∀ k : K4, (NDS.init (0 : K4) (pd : ℂ)).get k = if k = 0 then ⟨0, 0, (pd : ℂ)⟩ else 0 := by
    intro k
    unfold NDS.init NDS.get
    by_cases hk : k = 0
    · subst hk; simp
    · have : (0 : K4) ≠ k := fun e => hk e.symm
      simp [hk, this]
  have hz : ∀ (c : PS ℂ → ℂ), c ⟨0, 0, (pd : ℂ)⟩ = 0 → c 0 = 0 →
      ∑ᶠ (k : K4), c (if k = 0 then (⟨0, 0, (pd : ℂ)⟩ : PS ℂ) else 0) * posChar kv x tv ω k = 0 := by
    intro c h1 h2
    have : (fun k : K4 => c (if k = 0 then (⟨0, 0, (pd : ℂ)⟩ : PS ℂ) else 0) * posChar kv x tv ω k) = fun _ => 0 := by
      funext k; by_cases hk : k = 0 <;> simp [hk, h1, h2]
    rw [this]; simp
  apply PS.ext'
  · simp only [synth, hg]; exact hz (fun p => p.fp) rfl rfl
  · simp only [synth, hg]; exact hz (fun p => p.fm) rfl rfl
  · simp only [synth, hg]
    have : (fun k : K4 => (if k = 0 then (⟨0, 0, (pd : ℂ)⟩ : PS ℂ) else 0).z * posChar kv x tv ω k)
        = fun k => (if k = 0 then (pd : ℂ) else 0) * posChar kv x tv ω k := by
      funext k; by_cases hk : k = 0 <;> simp [hk]
    rw [this, delta _ (posChar_character kv x tv ω)]

/-! ### the 1-D back-end and the table back-end hold the same content -/

/-- 1-D integer shift (`shift-1d`, no cap) and the coordinate-table shift compute the same states -/
theorem backend_shift_agree (m : ℤ) (s : SM ℂ) (t : NDS ℤ ℂ) (ht : WFN t) (h : ∀ k, t.get k = s.get k) (k : ℤ) :
    (t.shift m).get k = (shift1d {} m none s).get k := by
  rw [get_shift m t ht k, get_shift1d_untruncated m s k]
  simp only [shiftF, h]

theorem backend_matrix_agree (op : Op ℂ) (a p : ℂ) (hop : op = .T a p ∨ op = .Phi a) (s : SM ℂ) (t : NDS ℤ ℂ)
    (ht : (0 : ℤ) ∈ t.keys) (h : ∀ k, t.get k = s.get k) (k : ℤ) :
    (t.point op).get k = (applyOp {} op s).get k := by
  rw [get_point op t ht k]
  rcases hop with rfl | rfl
  · simp only [pointF, pointOp, applyOp, get_matApply, h]
  · simp only [pointF, pointOp, applyOp, get_matApply, h]

end EpgVerif.Props.C04
