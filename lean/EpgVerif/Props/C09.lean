import Mathlib.Tactic.Ring
import EpgVerif.Model.Heap
/-
  C09 — purity: in every history of calls, the content of a state matrix changes only through an in-place
  application that targets it; results of out-of-place calls, copies and probe snapshots live in fresh cells.
-/
namespace EpgVerif.Props.C09
open EpgVerif Heap

/-- number of effective in-place updates of cell `c` along a history -/
def hits (c : Nat) : World → List Cmd → Nat
  | _, [] => 0
  | w, cmd :: rest => (if target w cmd = some c then 1 else 0) + hits c (step w cmd) rest

theorem version_length_mono (w : World) (cmd : Cmd) : w.version.length ≤ (step w cmd).version.length := by
  cases cmd with
  | apply h inplace =>
    simp only [step]
    split <;> simp [newCell]
  | copy h => simp [step, newCell]
  | simulate h => simp [step]
  | acquire h => simp [step, newCell]
  | freeze h => simp [step]

/-- one step: the version of an existing cell moves by exactly the in-place update it receives -/
theorem step_version (w : World) (cmd : Cmd) (c : Nat) (hc : c < w.version.length) :
    (step w cmd).version.getD c 0 = w.version.getD c 0 + (if target w cmd = some c then 1 else 0) := by
  cases cmd with
  | apply h inplace =>
    cases inplace with
    | true =>
      by_cases hw : w.writeable.getD (w.cellOf.getD h 0) false = true
      · simp only [step, target, hw, Bool.true_and, if_true]
        by_cases hcc : w.cellOf.getD h 0 = c
        · subst hcc
          simp only [List.getD_eq_getElem?_getD] at hc ⊢
          simp [List.getElem?_set, hc]
        · have : some (w.cellOf.getD h 0) ≠ some c := by simpa using hcc
          simp only [List.getD_eq_getElem?_getD] at hcc this ⊢
          simp [List.getElem?_set, hcc]
      · simp only [step, target, hw, Bool.and_false, Bool.false_eq_true, if_false, newCell]
        simp [List.getD_eq_getElem?_getD, List.getElem?_append_left hc]
    | false =>
      simp only [step, target, Bool.false_and, Bool.false_eq_true, if_false, newCell]
      simp [List.getD_eq_getElem?_getD, List.getElem?_append_left hc]
  | copy h => simp [step, target, newCell, List.getD_eq_getElem?_getD, List.getElem?_append_left hc]
  | simulate h => simp [step, target]
  | acquire h => simp [step, target, newCell, List.getD_eq_getElem?_getD, List.getElem?_append_left hc]
  | freeze h => simp [step, target]

/-- **C09 (history form)**: after any history, the number of updates a cell has received is the number of in-place
    applications that targeted it — nothing else (out-of-place calls, copies, simulate, probes) touches it -/
theorem version_after_history (cmds : List Cmd) (w : World) (c : Nat) (hc : c < w.version.length) :
    (run w cmds).version.getD c 0 = w.version.getD c 0 + hits c w cmds := by
  induction cmds generalizing w with
  | nil => simp [run, hits]
  | cons cmd rest ih =>
    have hlen := version_length_mono w cmd
    have := ih (step w cmd) (lt_of_lt_of_le hc hlen)
    simp only [run, List.foldl_cons] at this ⊢
    rw [this, step_version w cmd c hc, hits]
    ring

/-- **out-of-place histories are pure**: if no in-place application targets the cell, its content is untouched -/
theorem untouched_without_inplace (cmds : List Cmd) (w : World) (c : Nat) (hc : c < w.version.length)
    (h : hits c w cmds = 0) : (run w cmds).version.getD c 0 = w.version.getD c 0 := by
  rw [version_after_history cmds w c hc, h]; rfl

/-- out-of-place application, copy and probe acquisition return a handle on a cell no earlier handle refers to -/
theorem fresh_result (w : World) (cmd : Cmd) (hwf : ∀ c ∈ w.cellOf, c < w.version.length)
    (hfresh : match cmd with
      | .apply _ inplace => target w (.apply 0 inplace) = none ∧ inplace = false
      | .copy _ => True | .acquire _ => True | _ => False) :
    ∃ c, (step w cmd).cellOf = w.cellOf ++ [c] ∧ c ∉ w.cellOf := by
  have key : w.version.length ∉ w.cellOf := fun hmem => absurd (hwf _ hmem) (lt_irrefl _)
  cases cmd with
  | apply h inplace =>
    obtain ⟨_, rfl⟩ := hfresh
    exact ⟨w.version.length, by simp [step, newCell], key⟩
  | copy h => exact ⟨w.version.length, by simp [step, newCell], key⟩
  | acquire h => exact ⟨w.version.length, by simp [step, newCell], key⟩
  | simulate h => exact absurd hfresh id
  | freeze h => exact absurd hfresh id

/-- in-place application on a read-only state matrix falls back to a copy: nothing is mutated -/
theorem readonly_inplace_copies (w : World) (h : Nat) (hro : w.writeable.getD (w.cellOf.getD h 0) false = false) :
    target w (.apply h true) = none := by
  simp only [target, hro]; rfl

example : (run init [.apply 0 false, .apply 1 true, .acquire 1, .apply 1 true, .simulate 0]).version = [0, 2, 0]
    ∧ (run init [.apply 0 false, .apply 1 true, .acquire 1, .apply 1 true, .simulate 0]).cellOf = [0, 1, 1, 2, 1] := by
  decide

end EpgVerif.Props.C09
