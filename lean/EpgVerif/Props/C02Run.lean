import EpgVerif.Props.C02
import EpgVerif.Props.C04
/-
  C02, whole programs: for every sequence of RF pulses, relaxation/precession intervals and shifts (any number of
  axes), the partial-derivative dictionary maintained by `_apply_order1` holds, under a variable `v`, the derivative of
  the state with respect to `v` — by induction over the program from the one-step theorems.
-/
namespace EpgVerif.Props.C02
open EpgVerif Diff Ex Finset EpgVerif.Props.C04

/-! phase-state vectors form a module (component-wise); functions of the wavenumber index inherit it -/
instance : AddCommMonoid (PS ℂ) where
  add := (· + ·)
  zero := 0
  add_assoc a b c := by apply PS.ext' <;> simp [add_assoc]
  zero_add a := by apply PS.ext' <;> simp
  add_zero a := by apply PS.ext' <;> simp
  add_comm a b := by apply PS.ext' <;> simp [add_comm]
  nsmul := nsmulRec

instance : Module ℂ (PS ℂ) where
  smul := PS.smul
  one_smul a := by apply PS.ext' <;> simp [HSMul.hSMul, SMul.smul, PS.smul]
  mul_smul x y a := by apply PS.ext' <;> simp [HSMul.hSMul, SMul.smul, PS.smul, mul_assoc]
  smul_zero x := by apply PS.ext' <;> simp [HSMul.hSMul, SMul.smul, PS.smul]
  smul_add x a b := by apply PS.ext' <;> simp [HSMul.hSMul, SMul.smul, PS.smul, mul_add]
  add_smul x y a := by apply PS.ext' <;> simp [HSMul.hSMul, SMul.smul, PS.smul, add_mul]
  zero_smul a := by apply PS.ext' <;> simp [HSMul.hSMul, SMul.smul, PS.smul]

theorem smul_eq_PSsmul (c : ℂ) (a : PS ℂ) : c • a = PS.smul c a := rfl

variable {κ : Type} [DecidableEq κ] [AddCommGroup κ]

/-- a one-parameter family of a non-shifting operator, with the slopes of its parameters along the variable, and the
    proof that the one-step chain rule holds for it (`T_partial_exact`-style) -/
structure OpFam (x0 : ℝ) where
  op : ℝ → Op ℂ
  slopes : List (Param × ℂ)
  /-- `D_p` of the operator at `x0`: derivative operator for parameter `p` acting on one phase state with equilibrium row `e` -/
  dpt : Param → PS ℂ → PS ℂ → PS ℂ
  exact : ∀ (e : PS ℂ) (w : ℝ → PS ℂ) (w' : PS ℂ), PSHasDeriv w w' x0 →
    PSHasDeriv (fun x => pointOp (op x) e (w x))
      (pointOp (op x0) 0 w' + (slopes.map (fun pc => pc.2 • dpt pc.1 e (w x0))).sum) x0

inductive Step (x0 : ℝ) (κ : Type) where
  | pt (fam : OpFam x0)
  | shift (g : κ)

/-- the state after a step, as a function of the variable -/
noncomputable def Step.state {x0 : ℝ} (pd : ℂ) : Step x0 κ → ℝ → (κ → PS ℂ) → (κ → PS ℂ)
  | .pt fam, x, f => fun k => pointOp (fam.op x) (eqRow pd k) (f k)
  | .shift g, _, f => shiftF g f

/-- what `_apply_order1` is given for this step: `derive0` (the operator without recovery term, applied to a partial),
    `derive1 p` (the derivative operator for parameter `p`), and the declaration `{v: {p: slope}}` -/
noncomputable def Step.dop {x0 : ℝ} (pd : ℂ) (v : Var) : Step x0 κ → DOp ℂ (κ → PS ℂ)
  | .pt fam =>
    { derive0 := fun J k => pointOp (fam.op x0) 0 (J k)
      derive1 := fun p f k => fam.dpt p (eqRow pd k) (f k)
      derive2 := fun _ f => f
      order1 := [(v, fam.slopes)]
      order2 := []
      auto := true
      P2 := [] }
  | .shift g =>
    { derive0 := shiftF g
      derive1 := fun _ _ => 0
      derive2 := fun _ f => f
      order1 := []
      order2 := []
      auto := true
      P2 := [] }

/-- run a program: the state as a function of the variable, and the dictionary of partials at `x0` -/
noncomputable def runState {x0 : ℝ} (pd : ℂ) : List (Step x0 κ) → ℝ → (κ → PS ℂ) → (κ → PS ℂ)
  | [], _, f => f
  | st :: rest, x, f => runState pd rest x (st.state pd x f)

noncomputable def runDict {x0 : ℝ} (pd : ℂ) (v : Var) :
    List (Step x0 κ) → (ℝ → κ → PS ℂ) → List (Var × (κ → PS ℂ)) → List (Var × (κ → PS ℂ))
  | [], _, o1 => o1
  | st :: rest, f, o1 =>
    runDict pd v rest (fun x => st.state pd x (f x)) (applyOrder1 (modCar (K := ℂ)) (st.dop pd v) (f x0) o1)

theorem shiftF_zero (g : κ) : shiftF g (0 : κ → PS ℂ) = 0 := by
  funext k; rfl

theorem psderiv_congr {f g : ℝ → PS ℂ} {f' : PS ℂ} {x0 : ℝ} (h : PSHasDeriv f f' x0) (hfg : f = g) : PSHasDeriv g f' x0 := hfg ▸ h

/-- **one step keeps the invariant** "the entry under `v` is the derivative of the state" -/
theorem step_invariant {x0 : ℝ} (pd : ℂ) (v : Var) (st : Step x0 κ) (f : ℝ → κ → PS ℂ) (o1 : List (Var × (κ → PS ℂ)))
    (h : ∀ k, PSHasDeriv (fun x => f x k) (val o1 v k) x0) :
    ∀ k, PSHasDeriv (fun x => st.state pd x (f x) k)
      (val (applyOrder1 (modCar (K := ℂ)) (st.dop pd v) (f x0) o1) v k) x0 := by
  intro k
  cases st with
  | pt fam =>
    have h0 : (Step.dop pd v (Step.pt fam : Step x0 κ)).derive0 0 = 0 := by
      funext k'; exact pointOp_zero _
    rw [order1_refines_jet _ h0]
    simp only [Step.dop, Step.state, List.filter_cons, decide_true, if_true, List.filter_nil, List.map_cons,
      List.map_nil, List.sum_cons, List.sum_nil, add_zero, Pi.add_apply]
    have := fam.exact (eqRow pd k) (fun x => f x k) (val o1 v k) (h k)
    convert this using 2
    -- the sum of functions evaluated at k
    induction fam.slopes with
    | nil => rfl
    | cons pc rest ih => simp only [List.map_cons, List.sum_cons, Pi.add_apply, ih]; rfl
  | shift g =>
    have h0 : (Step.dop pd v (Step.shift g : Step x0 κ)).derive0 0 = 0 := shiftF_zero g
    rw [order1_refines_jet _ h0]
    simp only [Step.dop, Step.state, List.filter_nil, List.map_nil, List.sum_nil, add_zero]
    obtain ⟨a1, a2, a3⟩ := h (k - g)
    obtain ⟨b1, b2, b3⟩ := h (k + g)
    obtain ⟨c1, c2, c3⟩ := h k
    exact ⟨a1, b2, c3⟩

/-- **C02 for whole programs**: if the initial dictionary holds the derivative of the initial state under `v`
    (e.g. empty dictionary and a state that does not depend on `v`), then after any program the dictionary holds the
    derivative of the final state under `v`, at every wavenumber index and for all three components -/
theorem jacobian_exact {x0 : ℝ} (pd : ℂ) (v : Var) (prog : List (Step x0 κ)) (f : ℝ → κ → PS ℂ)
    (o1 : List (Var × (κ → PS ℂ))) (h : ∀ k, PSHasDeriv (fun x => f x k) (val o1 v k) x0) :
    ∀ k, PSHasDeriv (fun x => runState pd prog x (f x) k) (val (runDict pd v prog f o1) v k) x0 := by
  induction prog generalizing f o1 with
  | nil => exact h
  | cons st rest ih =>
    simp only [runState, runDict]
    exact ih _ _ (step_invariant pd v st f o1 h)


/-! ### the operator families of epgpy satisfy the one-step hypothesis -/

theorem PSHasDeriv.congr_deriv {f : ℝ → PS ℂ} {f' g' : PS ℂ} {x0 : ℝ} (h : PSHasDeriv f f' x0) (e : f' = g') :
    PSHasDeriv f g' x0 := e ▸ h

/-- RF pulses whose flip angle and phase depend differentiably on the variable -/
noncomputable def famT (x0 : ℝ) (a p : ℝ → ℝ) (ca cp : ℝ) (ha : HasDerivAt a ca x0) (hp : HasDerivAt p cp x0) : OpFam x0 where
  op := fun x => .T ((a x : ℝ) : ℂ) ((p x : ℝ) : ℂ)
  slopes := [("alpha", (ca : ℂ)), ("phi", (cp : ℂ))]
  dpt := fun q _ w =>
    let env := envOf [((a x0 : ℝ) : ℂ), ((p x0 : ℝ) : ℂ)]
    if q = "alpha" then PS.mmul (fun i j => eval env (d 0 (Coeff.T.mat i j))) w
    else if q = "phi" then PS.mmul (fun i j => eval env (d 1 (Coeff.T.mat i j))) w else 0
  exact := by
    intro e w w' hw
    let env : ℝ → Nat → ℂ := fun x => envOf [((a x : ℝ) : ℂ), ((p x : ℝ) : ℂ)]
    let c : Nat → ℂ := fun j => match j with | 0 => (ca : ℂ) | 1 => (cp : ℂ) | _ => 0
    have henv : ∀ j, HasDerivAt (fun x => env x j) (c j) x0 := by
      intro j
      match j with
      | 0 => simpa [env, envOf, c] using ha.ofReal_comp
      | 1 => simpa [env, envOf, c] using hp.ofReal_comp
      | (n + 2) => simpa [env, envOf, c] using hasDerivAt_const x0 (0 : ℂ)
    have hc : ∀ j, 2 ≤ j → c j = 0 := by
      intro j hj
      match j with
      | 0 => omega
      | 1 => omega
      | (n + 2) => rfl
    have hcr : ∀ j, (starRingEnd ℂ) (c j) = c j := by
      intro j
      match j with
      | 0 => simp [c]
      | 1 => simp [c]
      | (n + 2) => simp [c]
    have h := mat_step Coeff.T.mat env c 2 x0 henv hc hcr (fun i j => rotation_defined _ i j) w w' hw
    rw [psSum_two] at h
    refine h.congr_deriv ?_
    simp only [pointOp, env, c, smul_eq_PSsmul, List.map_cons, List.map_nil, List.sum_cons, List.sum_nil, add_zero,
      if_true, String.reduceEq, if_false]
    rfl

/-- relaxation / precession intervals whose four parameters depend differentiably on the variable (`T1, T2 ≠ 0`) -/
noncomputable def famE (x0 : ℝ) (tau T1 T2 g : ℝ → ℝ) (c0 c1 c2 c3 : ℝ)
    (h0 : HasDerivAt tau c0 x0) (h1 : HasDerivAt T1 c1 x0) (h2 : HasDerivAt T2 c2 x0) (h3 : HasDerivAt g c3 x0)
    (hT1 : T1 x0 ≠ 0) (hT2 : T2 x0 ≠ 0) : OpFam x0 where
  op := fun x => .E ((tau x : ℝ) : ℂ) ((T1 x : ℝ) : ℂ) ((T2 x : ℝ) : ℂ) ((g x : ℝ) : ℂ)
  slopes := [("tau", (c0 : ℂ)), ("T1", (c1 : ℂ)), ("T2", (c2 : ℂ)), ("g", (c3 : ℂ))]
  dpt := fun q e w =>
    let env := envOf [((tau x0 : ℝ) : ℂ), ((T1 x0 : ℝ) : ℂ), ((T2 x0 : ℝ) : ℂ), ((g x0 : ℝ) : ℂ)]
    let D := fun (l : Nat) => PS.dmul (fun i => eval env (d l (Coeff.E.arr i))) w + PS.dmul (fun i => eval env (d l (Coeff.E.arr0 i))) e
    if q = "tau" then D 0 else if q = "T1" then D 1 else if q = "T2" then D 2 else if q = "g" then D 3 else 0
  exact := by
    intro e w w' hw
    let env : ℝ → Nat → ℂ := fun x => envOf [((tau x : ℝ) : ℂ), ((T1 x : ℝ) : ℂ), ((T2 x : ℝ) : ℂ), ((g x : ℝ) : ℂ)]
    let c : Nat → ℂ := fun j => match j with | 0 => (c0 : ℂ) | 1 => (c1 : ℂ) | 2 => (c2 : ℂ) | 3 => (c3 : ℂ) | _ => 0
    have henv : ∀ j, HasDerivAt (fun x => env x j) (c j) x0 := by
      intro j
      match j with
      | 0 => simpa [env, envOf, c] using h0.ofReal_comp
      | 1 => simpa [env, envOf, c] using h1.ofReal_comp
      | 2 => simpa [env, envOf, c] using h2.ofReal_comp
      | 3 => simpa [env, envOf, c] using h3.ofReal_comp
      | (n + 4) => simpa [env, envOf, c] using hasDerivAt_const x0 (0 : ℂ)
    have hc : ∀ j, 4 ≤ j → c j = 0 := by
      intro j hj
      match j with
      | 0 => omega
      | 1 => omega
      | 2 => omega
      | 3 => omega
      | (n + 4) => rfl
    have hcr : ∀ j, (starRingEnd ℂ) (c j) = c j := by
      intro j
      match j with
      | 0 => simp [c]
      | 1 => simp [c]
      | 2 => simp [c]
      | 3 => simp [c]
      | (n + 4) => simp [c]
    have hdef : ∀ i, Defined (env x0) (Coeff.E.arr i) ∧ Defined (env x0) (Coeff.E.arr0 i) := by
      intro i
      apply relaxation_defined
      · simpa [env, envOf] using hT1
      · simpa [env, envOf] using hT2
    have h := scal_step Coeff.E.arr Coeff.E.arr0 env c 4 x0 henv hc hcr hdef e w w' hw
    rw [psSum_four] at h
    refine h.congr_deriv ?_
    have hz : ∀ a : Nat → ℂ, PS.dmul a (0 : PS ℂ) = 0 := fun a => by apply PS.ext' <;> simp [PS.dmul]
    simp only [pointOp, env, c, smul_eq_PSsmul, List.map_cons, List.map_nil, List.sum_cons, List.sum_nil, add_zero,
      if_true, String.reduceEq, if_false, hz, add_assoc]

/-- non-vacuity: a spin-echo-like program in the variable `x` = flip angle scale and T2, on any wavenumber group -/
example (g : κ) (k : κ) :
    let prog : List (Step (1 : ℝ) κ) :=
      [.pt (famT 1 (fun x => 90 * x) (fun _ => 90) 90 0 (by simpa using (hasDerivAt_id (1 : ℝ)).const_mul 90) (hasDerivAt_const _ _)),
       .pt (famE 1 (fun _ => 5) (fun _ => 1000) (fun x => 50 * x) (fun _ => 0) 0 0 50 0 (hasDerivAt_const _ _)
          (hasDerivAt_const _ _) (by simpa using (hasDerivAt_id (1 : ℝ)).const_mul 50) (hasDerivAt_const _ _) (by norm_num) (by norm_num)),
       .shift g,
       .pt (famT 1 (fun x => 180 * x) (fun _ => 0) 180 0 (by simpa using (hasDerivAt_id (1 : ℝ)).const_mul 180) (hasDerivAt_const _ _)),
       .shift g]
    PSHasDeriv (fun x => runState (1 : ℂ) prog x (fun k => eqRow 1 k) k)
      (val (runDict (1 : ℂ) "x" prog (fun _ k => eqRow 1 k) []) "x" k) 1 := by
  intro prog
  apply jacobian_exact
  intro k
  simp only [Diff.val, lookup_nil, Option.getD_none]
  exact ⟨hasDerivAt_const _ _, hasDerivAt_const _ _, hasDerivAt_const _ _⟩

end EpgVerif.Props.C02
