import EpgVerif.Lemmas.Diff2Lemmas
import EpgVerif.Model.DiffSM
/-
  C03 — second-order partials: every term of the second-order chain rule is accumulated exactly
  once under its (sorted) variable pair, mirrored keys carry the same value (H[a,b] = H[b,a]).
  The second-derivative *tables* (and the vanishing of the pairs a class does not list) are the
  regenerated tie obligations `Gen.Tie*D2` (`d2_*`, `missing_*`, `*_symm`).
-/
namespace EpgVerif.Props.C03
open EpgVerif Diff
variable {K C : Type} [Semiring K] [AddCommMonoid C] [Module K C]

/-- **second-order chain-rule bookkeeping** (any carrier).  Under a sorted pair `k = (a,b)`:
    `L J2[k]`, plus `Σ_p (∂²p/∂a∂b) D_p s` (termsA), plus `Σ_{p,q} (∂p/∂a)(∂q/∂b) D²_{pq} s` (termsB,
    one summand per ordered pair of declared parameters — a variable driving two parameters gets
    both `(p,q)` and `(q,p)`), plus the cross terms `Σ_p (∂p/∂a) D_p J1[b]` and `Σ_p (∂p/∂b) D_p J1[a]`
    (termsX with `≥` / `≤`: each unordered pair once in each batch, the diagonal in both). -/
theorem order2_accumulates_every_term_once (op : DOp K C) (h0 : op.derive0 0 = 0) (s : C)
    (o1 : List (Var × C)) (o2 : List (VPair × C)) (k : VPair) (hk : Sorted k) :
    val (applyOrder2 (modCar (K := K)) op s o1 o2) k
      = op.derive0 (val (normalize o2) k)
        + tot (termsA (modCar (K := K)) op s) k
        + tot (termsB (modCar (K := K)) op s) k
        + tot (termsX (modCar (K := K)) op o1 (fun v1 v2 => v1 ≥ v2)) k
        + tot (termsX (modCar (K := K)) op o1 (fun v1 v2 => v1 ≤ v2)) k :=
  val_applyOrder2 op h0 s o1 o2 k hk

/-- **H[a,b] = H[b,a]** after every operator. -/
theorem hessian_symm (op : DOp K C) (s : C) (o1 : List (Var × C)) (o2 : List (VPair × C))
    (a b : String) (hab : a ≠ b) (hs : Sorted (a, b)) :
    val (applyOrder2 (modCar (K := K)) op s o1 o2) (b, a)
      = val (applyOrder2 (modCar (K := K)) op s o1 o2) (a, b) :=
  applyOrder2_symm op s o1 o2 a b hab hs

/-- the `D²` family for a pair declared with parameter lists `ps`, `qs`: one summand per ordered
    pair of declared parameters -/
theorem termsB_single (op : DOp K C) (s : C) (a b : Var) (c2 : List (Param × K))
    (h2 : op.order2 = [((a, b), c2)]) (hs : Sorted (a, b)) :
    tot (termsB (modCar (K := K)) op s) (a, b)
      = ((order1Get op a).map (fun p1 => ((order1Get op b).map (fun p2 =>
          if supported op p1.1 p2.1 then (p1.2 * p2.2) • op.derive2 (pair p1.1 p2.1) s else 0)).sum)).sum := by
  have hp : pairOf (a, b) = (a, b) := pair_eq_of_sorted (a, b) hs
  unfold termsB
  rw [h2]
  simp only [List.flatMap_cons, List.flatMap_nil, List.append_nil, hp]
  rw [tot_flatMap]
  congr 1
  apply List.map_congr_left
  intro p1 _
  induction (order1Get op b) with
  | nil => rfl
  | cons p2 l ih =>
    simp only [List.filterMap_cons, List.map_cons, List.sum_cons]
    by_cases hsup : supported op p1.1 p2.1 = true
    · simp only [hsup, if_true, tot_cons, ih]
      show (if True then _ else 0) + _ = _
      simp
      rfl
    · have : supported op p1.1 p2.1 = false := by simpa using hsup
      simp [this, ih]

/-- **a variable driving two parameters of one operator gets its mixed term twice** (the
    multiplicity the second-order chain rule requires): concrete evaluation over ℤ. -/
example : (applyOrder2 (modCar (K := ℤ) (C := ℤ))
    { derive0 := fun x => x, derive1 := fun _ _ => 0,
      derive2 := fun pp x => if pp = ("p", "q") then 100 * x else x,
      order1 := [("a", [("p", 2), ("q", 3)])], order2 := [(("a", "a"), [])], auto := false,
      P2 := [("p", "p"), ("p", "q"), ("q", "q")] }
    1 [] []) = [(("a", "a"), 2 * 2 + 2 * 3 * 100 + 3 * 2 * 100 + 3 * 3)] := by decide

end EpgVerif.Props.C03
