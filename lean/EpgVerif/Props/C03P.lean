import EpgVerif.Props.C03E
import EpgVerif.Props.C02Fam
import EpgVerif.Props.C03Prog
/-
  C03, end to end for the precession operator P(tau, g) — a diagonal operator without recovery term — mixed pair (a, b),
  both parameters driven by both variables through (non-linear) expressions.
-/
namespace EpgVerif.Props.C03
open EpgVerif Diff Ex Finset EpgVerif.Props.C02

open EpgVerif.Tie in
/-- mixed derivatives of the precession coefficients commute (as values) -/
theorem P_mixed_symm (env : Nat → ℂ) (i j k : Nat) (hi : i < 2) (hj : j < 2) (hk : k < 3) :
    eval env (d i (d j (Coeff.P.arr k))) = eval env (d j (d i (Coeff.P.arr k)))
    ∧ eval env (d i (d j (Coeff.P.arr0 k))) = eval env (d j (d i (Coeff.P.arr0 k))) := by
  interval_cases i <;> interval_cases j <;> interval_cases k <;> (constructor <;> ex_eq)

def pIdx (p : Param) : Nat := if p = "tau" then 0 else 1

/-- the precession operator as `_apply_order2` sees it (same carrier as for E; the equilibrium row is not used) -/
noncomputable def pDOp (env : Nat → ℂ) (a b : Var) (la lb l2 : List (Param × ℂ)) : DOp ℂ (PS ℂ × PS ℂ) where
  derive0 X := (PS.dmul (fun i => eval env (Coeff.P.arr i)) X.1 + PS.dmul (fun i => eval env (Coeff.P.arr0 i)) X.2, X.2)
  derive1 p X := (PS.dmul (fun i => eval env (d (pIdx p) (Coeff.P.arr i))) X.1
                  + PS.dmul (fun i => eval env (d (pIdx p) (Coeff.P.arr0 i))) X.2, 0)
  derive2 pp X := (PS.dmul (fun i => eval env (d (pIdx pp.2) (d (pIdx pp.1) (Coeff.P.arr i)))) X.1
                  + PS.dmul (fun i => eval env (d (pIdx pp.2) (d (pIdx pp.1) (Coeff.P.arr0 i)))) X.2, 0)
  order1 := [(a, la), (b, lb)]
  order2 := [((a, b), l2)]
  auto := false
  P2 := [("g", "g"), ("g", "tau"), ("tau", "tau")]

/-- **C03 end to end, precession, mixed pair (a, b)**: for `P(tau, g)` whose parameters depend on the variables `a < b`
    — along `b` with slopes `cB`, the slopes `sa` of `a` moving with `b` with slopes `c2` — the value `_apply_order2`
    stores under `(a, b)` is the derivative with respect to `b` of the new first partial under `a` -/
theorem P_mixed_partial_exact_nl (par sa : Nat → ℝ → ℝ) (cB c2 : Nat → ℝ) (y0 : ℝ) (a b : Var) (hab : a < b)
    (hpar : ∀ j, j < 2 → HasDerivAt (par j) (cB j) y0) (hsa : ∀ j, j < 2 → HasDerivAt (sa j) (c2 j) y0)
    (e : PS ℂ) (s Ja : ℝ → PS ℂ) (Jb H : PS ℂ) (hs : PSHasDeriv s Jb y0) (hJ : PSHasDeriv Ja H y0) :
    let env := fun (y : ℝ) (j : Nat) => if j < 2 then ((par j y : ℝ) : ℂ) else 0
    PSHasDeriv (fun y => PS.dmul (fun i => eval (env y) (Coeff.P.arr i)) (Ja y)
        + psSum 2 (fun p => PS.smul ((sa p y : ℝ) : ℂ)
            (PS.dmul (fun i => eval (env y) (d p (Coeff.P.arr i))) (s y) + PS.dmul (fun i => eval (env y) (d p (Coeff.P.arr0 i))) e)))
      (Diff.val (applyOrder2 (modCar (K := ℂ))
          (pDOp (env y0) a b [("tau", (((sa 0 y0 : ℝ) : ℂ))), ("g", (((sa 1 y0 : ℝ) : ℂ)))] [("tau", ((cB 0 : ℝ) : ℂ)), ("g", ((cB 1 : ℝ) : ℂ))] [("tau", ((c2 0 : ℝ) : ℂ)), ("g", ((c2 1 : ℝ) : ℂ))])
          (s y0, e) [(a, (Ja y0, 0)), (b, (Jb, 0))] [((a, b), (H, 0))]) (a, b)).1 y0 := by
  intro env
  show PSHasDeriv _ (Diff.val (applyOrder2 _ (pDOp (fun j => if j < 2 then ((par j y0 : ℝ) : ℂ) else 0) a b _ _ _) _ _ _) (a, b)).1 y0
  set op := pDOp (fun j => if j < 2 then ((par j y0 : ℝ) : ℂ) else 0) a b [("tau", (((sa 0 y0 : ℝ) : ℂ))), ("g", (((sa 1 y0 : ℝ) : ℂ)))] [("tau", ((cB 0 : ℝ) : ℂ)), ("g", ((cB 1 : ℝ) : ℂ))] [("tau", ((c2 0 : ℝ) : ℂ)), ("g", ((c2 1 : ℝ) : ℂ))] with hop
  have h0 : op.derive0 0 = 0 := by
    show ((_ : PS ℂ), (_ : PS ℂ)) = 0
    ext <;> simp [PS.dmul]
  rw [pairVar_value op a b hab _ _ _ rfl rfl rfl h0]
  have hd : ∀ i, Defined (fun j => if j < 2 then ((par j y0 : ℝ) : ℂ) else 0) (Coeff.P.arr i) ∧ Defined (fun j => if j < 2 then ((par j y0 : ℝ) : ℂ) else 0) (Coeff.P.arr0 i) := fun i => precession_defined _ i
  have hm := scal_mixed_step Coeff.P.arr Coeff.P.arr0 2 par sa cB c2 y0 hpar hsa hd e s Ja Jb H hs hJ
  refine hm.congr_deriv ?_
  have s_tau_tau : supported op "tau" "tau" = true := by simp (config := {decide := true}) [supported, op, pDOp]
  have s_tau_g : supported op "tau" "g" = true := by simp (config := {decide := true}) [supported, op, pDOp]
  have s_g_tau : supported op "g" "tau" = true := by simp (config := {decide := true}) [supported, op, pDOp]
  have s_g_g : supported op "g" "g" = true := by simp (config := {decide := true}) [supported, op, pDOp]
  have p_tau_tau : pair "tau" "tau" = ("tau", "tau") := by decide
  have p_tau_g : pair "tau" "g" = ("g", "tau") := by decide
  have p_g_tau : pair "g" "tau" = ("g", "tau") := by decide
  have p_g_g : pair "g" "g" = ("g", "g") := by decide
  have y100 := P_mixed_symm (fun j => if j < 2 then ((par j y0 : ℝ) : ℂ) else 0) 1 0 0 (by norm_num) (by norm_num) (by norm_num)
  have y101 := P_mixed_symm (fun j => if j < 2 then ((par j y0 : ℝ) : ℂ) else 0) 1 0 1 (by norm_num) (by norm_num) (by norm_num)
  have y102 := P_mixed_symm (fun j => if j < 2 then ((par j y0 : ℝ) : ℂ) else 0) 1 0 2 (by norm_num) (by norm_num) (by norm_num)
  simp only [List.map_cons, List.map_nil, List.sum_cons, List.sum_nil, add_zero, s_tau_tau, s_tau_g, s_g_tau, s_g_g,
    p_tau_tau, p_tau_g, p_g_tau, p_g_g,
    if_true, Bool.false_eq_true, if_false, Prod.fst_add, Prod.smul_fst, Prod.fst_zero, psSum_two]
  simp (config := {decide := true}) only [op, pDOp, pIdx, String.reduceEq, if_true, if_false, smul_eq_PSsmul, id]
  apply PS.ext' <;>
  · simp only [PS.dmul, PS.smul, PS.add_fp, PS.add_fm, PS.add_z, PS.zero_fp, PS.zero_fm, PS.zero_z, psSum,
      Finset.sum_range_succ, Finset.sum_range_zero, zero_add, y100.1, y100.2, y101.1, y101.2, y102.1, y102.2]
    ring

/-! ### the precession step of whole programs -/
section program
open EpgVerif.Props.C04
variable {κ : Type} [DecidableEq κ] [Zero κ]

/-- a precession interval whose duration and off-resonance are (non-linear) functions of both variables -/
noncomputable def stepP (y0 : ℝ) (pd : ℂ) (a b : Var) (hab : a < b) (par sa : Nat → ℝ → ℝ) (cB c2 : Nat → ℝ)
    (hpar : ∀ j, j < 2 → HasDerivAt (par j) (cB j) y0) (hsa : ∀ j, j < 2 → HasDerivAt (sa j) (c2 j) y0) : Step2 y0 κ where
  S := fun y f k => PS.dmul (fun i => eval (fun j => if j < 2 then ((par j y : ℝ) : ℂ) else 0) (Coeff.P.arr i)) (f k)
      + PS.dmul (fun i => eval (fun j => if j < 2 then ((par j y : ℝ) : ℂ) else 0) (Coeff.P.arr0 i)) (eqRow pd k)
  J := fun y f ja k => PS.dmul (fun i => eval (fun j => if j < 2 then ((par j y : ℝ) : ℂ) else 0) (Coeff.P.arr i)) (ja k)
      + psSum 2 (fun p => PS.smul ((sa p y : ℝ) : ℂ)
          (PS.dmul (fun i => eval (fun j => if j < 2 then ((par j y : ℝ) : ℂ) else 0) (d p (Coeff.P.arr i))) (f k)
            + PS.dmul (fun i => eval (fun j => if j < 2 then ((par j y : ℝ) : ℂ) else 0) (d p (Coeff.P.arr0 i))) (eqRow pd k)))
  Jb := fun f jb k => PS.dmul (fun i => eval (fun j => if j < 2 then ((par j y0 : ℝ) : ℂ) else 0) (Coeff.P.arr i)) (jb k)
      + psSum 2 (fun l => PS.smul (if l < 2 then ((cB l : ℝ) : ℂ) else 0)
          (PS.dmul (fun i => eval (fun j => if j < 2 then ((par j y0 : ℝ) : ℂ) else 0) (d l (Coeff.P.arr i))) (f k)
            + PS.dmul (fun i => eval (fun j => if j < 2 then ((par j y0 : ℝ) : ℂ) else 0) (d l (Coeff.P.arr0 i))) (eqRow pd k)))
  Hn := fun f ja jb h k =>
    (Diff.val (applyOrder2 (modCar (K := ℂ))
        (pDOp (fun j => if j < 2 then ((par j y0 : ℝ) : ℂ) else 0) a b [("tau", (((sa 0 y0 : ℝ) : ℂ))), ("g", (((sa 1 y0 : ℝ) : ℂ)))] [("tau", ((cB 0 : ℝ) : ℂ)), ("g", ((cB 1 : ℝ) : ℂ))] [("tau", ((c2 0 : ℝ) : ℂ)), ("g", ((c2 1 : ℝ) : ℂ))])
        (f k, eqRow pd k) [(a, (ja k, 0)), (b, (jb k, 0))] [((a, b), (h k, 0))]) (a, b)).1
  first := by
    intro s Jb0 h k
    let env : ℝ → Nat → ℂ := fun y j => if j < 2 then ((par j y : ℝ) : ℂ) else 0
    let c : Nat → ℂ := fun j => if j < 2 then ((cB j : ℝ) : ℂ) else 0
    have henv : ∀ j, HasDerivAt (fun y => env y j) (c j) y0 := by
      intro j
      by_cases hj : j < 2
      · have he : (fun y => env y j) = fun y => ((par j y : ℝ) : ℂ) := by
          funext y; simp only [env, if_pos hj]
        rw [he]; simp only [c, if_pos hj]; exact (hpar j hj).ofReal_comp
      · have he : (fun y => env y j) = fun _ => (0 : ℂ) := by
          funext y; simp only [env, if_neg hj]
        rw [he]; simp only [c, if_neg hj]; exact hasDerivAt_const y0 (0 : ℂ)
    have hc : ∀ j, 2 ≤ j → c j = 0 := by
      intro j hj
      have : ¬ j < 2 := by omega
      simp only [c, if_neg this]
    have hcr : ∀ j, (starRingEnd ℂ) (c j) = c j := by
      intro j
      by_cases hj : j < 2
      · simp only [c, if_pos hj]; exact Complex.conj_ofReal _
      · simp only [c, if_neg hj]; simp
    exact scal_step Coeff.P.arr Coeff.P.arr0 env c 2 y0 henv hc hcr (fun i => precession_defined _ i)
      (eqRow pd k) (fun y => s y k) (Jb0 k) (h k)
  mixed := by
    intro s Ja Jb0 H h1 h2 k
    exact P_mixed_partial_exact_nl par sa cB c2 y0 a b hab hpar hsa (eqRow pd k)
      (fun y => s y k) (fun y => Ja y k) (Jb0 k) (H k) (h1 k) (h2 k)

end program

end EpgVerif.Props.C03
