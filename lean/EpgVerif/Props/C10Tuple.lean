import EpgVerif.Model.ATuple
import Mathlib.Algebra.Ring.Defs
import Mathlib.Algebra.BigOperators.Group.List.Basic
/-
  C10, the arithmetic that `_combine` accumulates derivative arrays with (`common.ArrayTuple`, pairs (matrix, recovery
  part) with `None` for an absent part): read with `None` as zero, sums are exact sums and products exact products,
  whatever parts are absent and in whatever order the terms are accumulated — in particular a part accumulated so far is
  never dropped by a later term that lacks it.
-/
namespace EpgVerif.Props.C10Tuple
open EpgVerif ATuple

/-- what an optional part stands for -/
def den {α : Type} [Zero α] : Option α → α := fun a => a.getD 0

theorem den_oadd {α : Type} [AddMonoid α] (a b : Option α) : den (oadd a b) = den a + den b := by
  cases a <;> cases b <;> simp [oadd, den]

theorem den_omul {α : Type} [MulZeroClass α] (a b : Option α) : den (omul a b) = den a * den b := by
  cases a <;> cases b <;> simp [omul, den]

/-- a part present so far stays present, with or without a contribution from the next term -/
theorem oadd_keeps {α : Type} [Add α] (a : α) (b : Option α) : (oadd (some a) b).isSome := by
  cases b <;> simp [oadd]

theorem oadd_none_right {α : Type} [Add α] (a : Option α) : oadd a none = a := by cases a <;> rfl
theorem oadd_none_left {α : Type} [Add α] (a : Option α) : oadd none a = a := by cases a <;> rfl

theorem oadd_comm {α : Type} [AddCommMagma α] (a b : Option α) : oadd a b = oadd b a := by
  cases a <;> cases b <;> simp [oadd, add_comm]

theorem oadd_assoc {α : Type} [AddSemigroup α] (a b c : Option α) : oadd (oadd a b) c = oadd a (oadd b c) := by
  cases a <;> cases b <;> cases c <;> simp [oadd, add_assoc]

/-- the whole tuple, entry by entry -/
theorem add_den {α : Type} [AddMonoid α] : ∀ (x y z : T α), add x y = some z →
    z.map den = List.zipWith (· + ·) (x.map den) (y.map den)
  | [], [], z, h => by simp [add, zipStrict] at h; subst h; rfl
  | a :: as, b :: bs, z, h => by
    simp only [add, zipStrict, Option.map_eq_some_iff] at h
    obtain ⟨w, hw, rfl⟩ := h
    simp [den_oadd, add_den as bs w hw]
  | [], _ :: _, z, h => by simp [add, zipStrict] at h
  | _ :: _, [], z, h => by simp [add, zipStrict] at h

theorem mul_den {α : Type} [MulZeroClass α] : ∀ (x y z : T α), mul x y = some z →
    z.map den = List.zipWith (· * ·) (x.map den) (y.map den)
  | [], [], z, h => by simp [mul, zipStrict] at h; subst h; rfl
  | a :: as, b :: bs, z, h => by
    simp only [mul, zipStrict, Option.map_eq_some_iff] at h
    obtain ⟨w, hw, rfl⟩ := h
    simp [den_omul, mul_den as bs w hw]
  | [], _ :: _, z, h => by simp [mul, zipStrict] at h
  | _ :: _, [], z, h => by simp [mul, zipStrict] at h

/-- tuples of the same length always add; the result has that length -/
theorem add_defined {α : Type} [Add α] : ∀ (x y : T α), x.length = y.length → ∃ z, add x y = some z ∧ z.length = x.length
  | [], [], _ => ⟨[], rfl, rfl⟩
  | a :: as, b :: bs, h => by
    obtain ⟨w, hw, hl⟩ := add_defined as bs (by simpa using h)
    exact ⟨oadd a b :: w, by simp [add, zipStrict] at hw ⊢; simp [hw], by simp [hl]⟩
  | [], _ :: _, h => by simp at h
  | _ :: _, [], h => by simp at h

/-- accumulating any list of optional parts: the meaning is the sum of the meanings (so the order is immaterial and
    nothing accumulated is lost) -/
theorem foldl_oadd_den {α : Type} [AddMonoid α] (l : List (Option α)) (a : Option α) :
    den (l.foldl oadd a) = den a + (l.map den).sum := by
  induction l generalizing a with
  | nil => simp
  | cons b l ih => simp [ih, den_oadd, add_assoc]

example : add [some (2 : Int), some 5] [some 3, none] = some [some 5, some 5] := by decide
example : add [some (2 : Int), none] [none, none] = some [some 2, none] := by decide
example : mul [some (2 : Int), some 5] [some 3, none] = some [some 6, none] := by decide
example : add [some (2 : Int)] [some 3, none] = none := by decide

end EpgVerif.Props.C10Tuple
