import EpgVerif.Model.Shape
/-
  C04 / C13, the per-axis grid of the gridded shift back-ends (`shift.get_grid`) and the batch alignment of shift arrays
  (`shift.append_batch_axes`): every coordinate axis gets a cell size — the value given for that axis, or the LAST value
  given when fewer values than axes were given — for every list of values and every number of axes.
-/
namespace EpgVerif.Props.C04Grid
open EpgVerif Shp

theorem getGrid_length {α : Type} (g : List α) (kdim : Nat) (h : g ≠ []) : (getGrid g kdim).length = kdim := by
  unfold getGrid
  cases hl : g.getLast? with
  | none => exact absurd (List.getLast?_eq_none_iff.mp hl) h
  | some l => simp; omega

/-- an axis for which a value was given uses that value -/
theorem getGrid_given {α : Type} (g : List α) (kdim i : Nat) (hi : i < g.length) (hk : i < kdim) :
    (getGrid g kdim)[i]? = g[i]? := by
  unfold getGrid
  cases hl : g.getLast? with
  | none => have := List.getLast?_eq_none_iff.mp hl; subst this; simp at hi
  | some l => simp [hk, List.getElem?_append_left hi]

/-- a further axis uses the last value given (never an earlier one) -/
theorem getGrid_further {α : Type} (g : List α) (kdim i : Nat) (hi : g.length ≤ i) (hk : i < kdim) :
    (getGrid g kdim)[i]? = g.getLast? := by
  unfold getGrid
  cases hl : g.getLast? with
  | none => have := List.getLast?_eq_none_iff.mp hl; subst this; simp
  | some l =>
    simp only [List.getElem?_take, hk, if_true]
    rw [List.getElem?_append_right hi, List.getElem?_replicate]
    have : i - g.length < kdim - g.length := by omega
    simp [this]

/-- a scalar grid: the same cell on every axis -/
theorem getGrid_scalar {α : Type} (a : α) (kdim : Nat) : getGrid [a] kdim = List.replicate kdim a := by
  cases kdim with
  | zero => simp [getGrid]
  | succ n => simp [getGrid, List.replicate_succ]

/-- a full-length list is used as it is; the function is idempotent -/
theorem getGrid_full {α : Type} (g : List α) : getGrid g g.length = g := by
  unfold getGrid
  cases hl : g.getLast? with
  | none => exact (List.getLast?_eq_none_iff.mp hl).symm
  | some l => simp

theorem getGrid_idem {α : Type} (g : List α) (kdim : Nat) (h : g ≠ []) : getGrid (getGrid g kdim) kdim = getGrid g kdim := by
  have := getGrid_full (getGrid g kdim)
  rwa [getGrid_length g kdim h] at this

/-- the aligned shift array has one batch axis per batch axis of the state matrix (or keeps its own, if it has more),
    keeps its last axis (the coordinate axis), and keeps its own leading axes -/
theorem appendBatchAxes_length (s : Shape) (ndim : Nat) (h : s ≠ []) :
    (appendBatchAxes s ndim).length = max s.length (ndim + 1) := by
  unfold appendBatchAxes
  cases hl : s.getLast? with
  | none => exact absurd (List.getLast?_eq_none_iff.mp hl) h
  | some l =>
    have : 0 < s.length := List.length_pos_iff.mpr h
    simp; omega

theorem appendBatchAxes_last (s : Shape) (ndim : Nat) : (appendBatchAxes s ndim).getLast? = s.getLast? := by
  unfold appendBatchAxes
  cases hl : s.getLast? with
  | none => rfl
  | some l => simp

theorem appendBatchAxes_lead (s : Shape) (ndim i : Nat) (hi : i + 1 < s.length) :
    (appendBatchAxes s ndim)[i]? = s[i]? := by
  unfold appendBatchAxes
  cases hl : s.getLast? with
  | none => have := List.getLast?_eq_none_iff.mp hl; subst this; simp at hi
  | some l =>
    have h1 : i < s.dropLast.length := by simp; omega
    show (List.dropLast s ++ List.replicate (ndim - (List.length s - 1)) 1 ++ [l])[i]? = s[i]?
    rw [List.append_assoc, List.getElem?_append_left h1, List.getElem?_dropLast]
    simp [show i < s.length - 1 by omega]

example : getGrid ["0.5", "0.02"] 3 = ["0.5", "0.02", "0.02"] := by decide
example : getGrid ["0.5", "0.02", "7"] 2 = ["0.5", "0.02"] := by decide
example : appendBatchAxes [2, 3] 3 = [2, 1, 1, 3] := by decide

end EpgVerif.Props.C04Grid
