import Mathlib.Data.List.Perm.Basic
import Mathlib.Data.List.Nodup
import EpgVerif.Model.Bind
/-
  C11 — "each virtual operator binds its positional / keyword arguments to the same-named parameter of the concrete
  operator it is named after".  Model of `VirtualOperator.__init__` (source text tied in `Tie/SeqSites`):

      positionals = list(args)
      for key in POSITIONALS[len(args):]:
          if key not in kwargs: break
          positionals.append(kwargs.pop(key))

  `kwargs` is a Python dict: an association list with distinct keys whose ORDER is the order in which the caller wrote the
  keywords.  Theorems: the bound list does not depend on that order; the entry at position i is the value the caller
  gave under the name `POSITIONALS[i]`; when every remaining positional name is given, the result is exactly the
  signature-ordered list of the named values.
-/
namespace EpgVerif.Props.C11
open EpgVerif.Bind
variable {N V : Type} [DecidableEq N]

theorem lookupKw_perm {kw kw' : List (N × V)} (hp : kw.Perm kw') (hn : (kw.map (·.1)).Nodup) (k : N) :
    lookupKw kw' k = lookupKw kw k := by
  induction hp with
  | nil => rfl
  | cons x _ ih =>
    simp only [List.map_cons, List.nodup_cons] at hn
    simp only [lookupKw, List.find?_cons]
    by_cases h : x.1 = k
    · simp [h]
    · simp only [h, decide_false]
      exact ih hn.2
  | swap x y l =>
    simp only [List.map_cons, List.nodup_cons, List.mem_cons, not_or] at hn
    simp only [lookupKw, List.find?_cons]
    by_cases hx : x.1 = k <;> by_cases hy : y.1 = k
    · exact absurd (hy.trans hx.symm) hn.1.1
    · simp [hx, hy]
    · simp [hx, hy]
    · simp [hx, hy]
  | trans h1 _ ih1 ih2 =>
    rw [ih2 ((h1.map _).nodup_iff.mp hn), ih1 hn]

/-- **the order in which the caller writes the keywords does not matter** -/
theorem bindPos_perm (P : List N) (args : List V) {kw kw' : List (N × V)} (hp : kw.Perm kw')
    (hn : (kw.map (·.1)).Nodup) : bindPos P args kw' = bindPos P args kw := by
  unfold bindPos
  congr 1
  induction (P.drop args.length) with
  | nil => rfl
  | cons k rest ih => simp only [takeGiven, lookupKw_perm hp hn k, ih]

/-- when every remaining positional name is given, each is bound to the value written under ITS name, in signature order -/
theorem bindPos_full (P : List N) (args : List V) (kw : List (N × V)) (val : N → V)
    (h : ∀ k ∈ P.drop args.length, lookupKw kw k = some (val k)) :
    bindPos P args kw = args ++ (P.drop args.length).map val := by
  unfold bindPos
  congr 1
  generalize P.drop args.length = Q at h
  induction Q with
  | nil => rfl
  | cons k rest ih =>
    have hk := h k (List.mem_cons_self ..)
    simp only [takeGiven, hk, List.map_cons]
    rw [ih (fun k' hk' => h k' (List.mem_cons_of_mem _ hk'))]

/-- positions never move: the caller's positional arguments stay in front, untouched -/
theorem bindPos_prefix (P : List N) (args : List V) (kw : List (N × V)) : (bindPos P args kw).take args.length = args := by
  simp [bindPos]

example : bindPos ["tau", "T1", "T2", "g"] [5] [("T2", 30), ("T1", 900)] = [5, 900, 30] := by decide
example : bindPos ["tau", "T1", "T2", "g"] [5] [("T1", 900), ("T2", 30)] = [5, 900, 30] := by decide

end EpgVerif.Props.C11
