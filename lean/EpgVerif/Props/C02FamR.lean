import EpgVerif.Props.C02Fam
import EpgVerif.Props.C03R
/-
  C02, whole programs: the last differentiable operator family — the generic relaxation operator `R(rT, rL, r0)` with
  real parameters (with and without recovery term) — satisfies the one-step hypothesis of `jacobian_exact`; with `famT`,
  `famE` (C02Run) and `famPhi`, `famP` (C02Fam) every differentiable operator class of epgpy is now an instance, and the
  closing example runs `jacobian_exact` on a program that uses all five.
  (A complex `rT`, i.e. precession through R, is outside this statement: see the known finding F20.)
-/
namespace EpgVerif.Props.C02
open EpgVerif Diff Ex Finset EpgVerif.Props.C04 EpgVerif.Props.C03

variable {κ : Type} [DecidableEq κ] [AddCommGroup κ]

/-- relaxation `R(rT, rL, r0)` with recovery term, the three real rates depending differentiably on the variable -/
noncomputable def famR (x0 : ℝ) (rT rL r0 : ℝ → ℝ) (c0 c1 c2 : ℝ)
    (h0 : HasDerivAt rT c0 x0) (h1 : HasDerivAt rL c1 x0) (h2 : HasDerivAt r0 c2 x0) : OpFam x0 where
  op := fun x => .R ((rT x : ℝ) : ℂ) ((rL x : ℝ) : ℂ) (some ((r0 x : ℝ) : ℂ))
  slopes := [("rT", (c0 : ℂ)), ("rL", (c1 : ℂ)), ("r0", (c2 : ℂ))]
  dpt := fun q e w =>
    let env := envOf [((rT x0 : ℝ) : ℂ), ((rL x0 : ℝ) : ℂ), ((r0 x0 : ℝ) : ℂ)]
    let D := fun (l : Nat) => PS.dmul (fun i => eval env (d l (Coeff.R.arr i))) w + PS.dmul (fun i => eval env (d l (Coeff.R.arr0 i))) e
    if q = "rT" then D 0 else if q = "rL" then D 1 else if q = "r0" then D 2 else 0
  exact := by
    intro e w w' hw
    let env : ℝ → Nat → ℂ := fun x => envOf [((rT x : ℝ) : ℂ), ((rL x : ℝ) : ℂ), ((r0 x : ℝ) : ℂ)]
    let c : Nat → ℂ := fun j => match j with | 0 => (c0 : ℂ) | 1 => (c1 : ℂ) | 2 => (c2 : ℂ) | _ => 0
    have henv : ∀ j, HasDerivAt (fun x => env x j) (c j) x0 := by
      intro j
      match j with
      | 0 => simpa [env, envOf, c] using h0.ofReal_comp
      | 1 => simpa [env, envOf, c] using h1.ofReal_comp
      | 2 => simpa [env, envOf, c] using h2.ofReal_comp
      | (n + 3) => simpa [env, envOf, c] using hasDerivAt_const x0 (0 : ℂ)
    have hc : ∀ j, 3 ≤ j → c j = 0 := by
      intro j hj
      match j with
      | 0 => omega
      | 1 => omega
      | 2 => omega
      | (n + 3) => rfl
    have hcr : ∀ j, (starRingEnd ℂ) (c j) = c j := by
      intro j
      match j with
      | 0 => simp [c]
      | 1 => simp [c]
      | 2 => simp [c]
      | (n + 3) => simp [c]
    have h := scal_step Coeff.R.arr Coeff.R.arr0 env c 3 x0 henv hc hcr (fun i => R_defined _ i) e w w' hw
    rw [psSum_three] at h
    refine h.congr_deriv ?_
    have hz : ∀ a : Nat → ℂ, PS.dmul a (0 : PS ℂ) = 0 := fun a => by apply PS.ext' <;> simp [PS.dmul]
    simp only [pointOp, env, c, smul_eq_PSsmul, List.map_cons, List.map_nil, List.sum_cons, List.sum_nil, add_zero,
      if_true, String.reduceEq, if_false, hz, add_assoc, Option.getD_some]

/-- relaxation `R(rT, rL)` without recovery term (`r0=None`): purely diagonal, two real rates -/
noncomputable def famR0 (x0 : ℝ) (rT rL : ℝ → ℝ) (c0 c1 : ℝ)
    (h0 : HasDerivAt rT c0 x0) (h1 : HasDerivAt rL c1 x0) : OpFam x0 where
  op := fun x => .R ((rT x : ℝ) : ℂ) ((rL x : ℝ) : ℂ) none
  slopes := [("rT", (c0 : ℂ)), ("rL", (c1 : ℂ))]
  dpt := fun q _ w =>
    let env := envOf [((rT x0 : ℝ) : ℂ), ((rL x0 : ℝ) : ℂ), 0]
    if q = "rT" then PS.dmul (fun i => eval env (d 0 (Coeff.R.arr i))) w
    else if q = "rL" then PS.dmul (fun i => eval env (d 1 (Coeff.R.arr i))) w else 0
  exact := by
    intro e w w' hw
    let env : ℝ → Nat → ℂ := fun x => envOf [((rT x : ℝ) : ℂ), ((rL x : ℝ) : ℂ), 0]
    let c : Nat → ℂ := fun j => match j with | 0 => (c0 : ℂ) | 1 => (c1 : ℂ) | _ => 0
    have henv : ∀ j, HasDerivAt (fun x => env x j) (c j) x0 := by
      intro j
      match j with
      | 0 => simpa [env, envOf, c] using h0.ofReal_comp
      | 1 => simpa [env, envOf, c] using h1.ofReal_comp
      | 2 => simpa [env, envOf, c] using hasDerivAt_const x0 (0 : ℂ)
      | (n + 3) => simpa [env, envOf, c] using hasDerivAt_const x0 (0 : ℂ)
    have hc : ∀ j, 2 ≤ j → c j = 0 := by
      intro j hj
      match j with
      | 0 => omega
      | 1 => omega
      | (n + 2) => rfl
    have hcr : ∀ j, (starRingEnd ℂ) (c j) = c j := by
      intro j
      match j with
      | 0 => simp [c]
      | 1 => simp [c]
      | (n + 2) => simp [c]
    -- the recovery row is absent: run the diagonal-affine lemma with a zero affine part
    have h := scal_step Coeff.R.arr (fun _ => Ex.zero) env c 2 x0 henv hc hcr
      (fun i => ⟨(R_defined _ i).1, by simp [Ex.Defined]⟩) e w w' hw
    rw [psSum_two] at h
    have hz0 : ∀ (env' : Nat → ℂ), PS.dmul (fun _ => eval env' Ex.zero) e = 0 := by
      intro env'; apply PS.ext' <;> simp [PS.dmul, Ex.eval]
    have hz1 : ∀ (env' : Nat → ℂ) (l : Nat), PS.dmul (fun _ => eval env' (d l Ex.zero)) e = 0 := by
      intro env' l; apply PS.ext' <;> simp [PS.dmul, Ex.eval, Ex.d]
    simp only [hz0, hz1, PS.add_zero'] at h
    have hp : ∀ (a b : ℂ) (e' v : PS ℂ), pointOp (.R a b none) e' v
        = PS.dmul (fun i => eval (envOf [a, b, 0]) (Coeff.R.arr i)) v := by
      intro a b e' v; simp [pointOp]
    simp only [hp]
    refine h.congr_deriv ?_
    simp only [env, c, smul_eq_PSsmul, List.map_cons, List.map_nil, List.sum_cons, List.sum_nil, add_zero,
      if_true, String.reduceEq, if_false]

/-- non-vacuity, all five differentiable operator classes in one program: the Jacobian entry under `x` is the derivative
    of the final state, at every wavenumber of any wavenumber group -/
example (g : κ) (k : κ) :
    let prog : List (Step (1 : ℝ) κ) :=
      [.pt (famT 1 (fun x => 90 * x) (fun _ => 90) 90 0 (by simpa using (hasDerivAt_id (1 : ℝ)).const_mul 90) (hasDerivAt_const _ _)),
       .pt (famP 1 (fun x => 5 * x) (fun _ => 0.1) 5 0 (by simpa using (hasDerivAt_id (1 : ℝ)).const_mul 5) (hasDerivAt_const _ _)),
       .pt (famR 1 (fun x => 0.1 * x) (fun _ => 0.005) (fun x => 0.005 * x) 0.1 0 0.005
          (by simpa using (hasDerivAt_id (1 : ℝ)).const_mul 0.1) (hasDerivAt_const _ _)
          (by simpa using (hasDerivAt_id (1 : ℝ)).const_mul 0.005)),
       .shift g,
       .pt (famPhi 1 (fun x => 30 * x) 30 (by simpa using (hasDerivAt_id (1 : ℝ)).const_mul 30)),
       .pt (famR0 1 (fun x => 0.1 * x) (fun _ => 0.005) 0.1 0
          (by simpa using (hasDerivAt_id (1 : ℝ)).const_mul 0.1) (hasDerivAt_const _ _)),
       .pt (famE 1 (fun _ => 5) (fun _ => 1000) (fun x => 50 * x) (fun _ => 0) 0 0 50 0 (hasDerivAt_const _ _)
          (hasDerivAt_const _ _) (by simpa using (hasDerivAt_id (1 : ℝ)).const_mul 50) (hasDerivAt_const _ _) (by norm_num) (by norm_num)),
       .shift g]
    PSHasDeriv (fun x => runState (1 : ℂ) prog x (fun k => eqRow 1 k) k)
      (val (runDict (1 : ℂ) "x" prog (fun _ k => eqRow 1 k) []) "x" k) 1 := by
  intro prog
  apply jacobian_exact
  intro k
  simp only [Diff.val, lookup_nil, Option.getD_none]
  exact ⟨hasDerivAt_const _ _, hasDerivAt_const _ _, hasDerivAt_const _ _⟩

end EpgVerif.Props.C02
