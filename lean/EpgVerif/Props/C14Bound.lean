import EpgVerif.Props.C14
import EpgVerif.Props.C05
/-
  C14, last clause — with T2 ≤ 2·T1 no sequence of pulses, evolutions, shifts, spoilers (and resets) starting from
  equilibrium with density PD yields a signal magnitude above PD.

  The invariant is the energy bound  N(s) = Σ_k ( ½|F+(k)|² + ½|F-(k)|² + |Z(k)|² ) ≤ |PD|²  (N is the mean squared
  magnetisation length of the isochromat ensemble, `normSq_eq_code_norm` / Parseval).  RF pulses, phase offsets,
  precession and shifts keep N; the spoiler lowers it; and for relaxation, with e = exp(-τ/T1):
      |E2|² = exp(-2τ/T2) ≤ e  (this is where T2 ≤ 2·T1 enters),  e² ≤ e,
      |e·Z0 + (1-e)·PD|² ≤ e·|Z0|² + (1-e)·|PD|²   (convexity),
  hence N(E s) ≤ e·N(s) + (1-e)·|PD|² ≤ |PD|².  Finally |F0|² ≤ N for a well-formed state.
-/
namespace EpgVerif.Props.C14
open Complex EpgVerif SM

/-- the operators of the clause, with the parameter ranges it names -/
inductive Bounded : Op ℂ → Prop
  | T (α φ : ℝ) : Bounded (.T (α : ℂ) (φ : ℂ))
  | Phi (φ : ℝ) : Bounded (.Phi (φ : ℂ))
  | E (τ T1 T2 g : ℝ) (hτ : 0 ≤ τ) (h1 : 0 < T1) (h2 : 0 < T2) (h21 : T2 ≤ 2 * T1) :
      Bounded (.E (τ : ℂ) (T1 : ℂ) (T2 : ℂ) (g : ℂ))
  | P (τ g : ℝ) : Bounded (.P (τ : ℂ) (g : ℂ))
  | S (m : ℤ) : Bounded (.S m none)
  | Spoiler : Bounded .Spoiler
  | Wait : Bounded .Wait

theorem Bounded.realParams {op : Op ℂ} (h : Bounded op) : C08.RealParams op := by
  cases h <;> simp [C08.RealParams]

theorem Bounded.notPD {op : Op ℂ} (h : Bounded op) : ∀ pd r, op ≠ .PD pd r := by
  cases h <;> intro pd r <;> simp

/-- convexity of the squared modulus -/
theorem normSq_convex (e : ℝ) (he0 : 0 ≤ e) (he1 : e ≤ 1) (z p : ℂ) :
    normSq ((e : ℂ) * z + (1 - (e : ℂ)) * p) ≤ e * normSq z + (1 - e) * normSq p := by
  have key : e * normSq z + (1 - e) * normSq p - normSq ((e : ℂ) * z + (1 - (e : ℂ)) * p)
      = e * (1 - e) * normSq (z - p) := by
    simp only [normSq_apply, add_re, add_im, mul_re, mul_im, sub_re, sub_im, ofReal_re, ofReal_im, one_re, one_im]
    ring
  have : 0 ≤ e * (1 - e) * normSq (z - p) := by
    have := normSq_nonneg (z - p)
    have : 0 ≤ 1 - e := by linarith
    positivity
  linarith

/-- relaxation, per phase state: `q(E s)(k) ≤ e·q(s)(k) + (1-e)·|PD|²·[k = 0]` with `e = exp(-τ/T1)` -/
theorem E_energy_pointwise (τ T1 T2 g : ℝ) (hτ : 0 ≤ τ) (h1 : 0 < T1) (h2 : 0 < T2) (h21 : T2 ≤ 2 * T1)
    (s : SM ℂ) (pd : ℂ) (he : EqWF s pd) (k : ℤ) :
    q ((applyOp {} (.E (τ : ℂ) (T1 : ℂ) (T2 : ℂ) (g : ℂ)) s).get k)
      ≤ Real.exp (-(τ / T1)) * q (s.get k) + (if k = 0 then (1 - Real.exp (-(τ / T1))) * normSq pd else 0) := by
  set e := Real.exp (-(τ / T1)) with hedef
  have he0 : 0 ≤ e := (Real.exp_pos _).le
  have he1 : e ≤ 1 := by rw [hedef, Real.exp_le_one_iff]; have : 0 ≤ τ / T1 := by positivity
                         linarith
  simp only [applyOp, get_scalApply]
  set env := envOf [(τ : ℂ), (T1 : ℂ), (T2 : ℂ), (g : ℂ)] with henv
  have hT2 : (T2 : ℂ) ≠ 0 := by exact_mod_cast h2.ne'
  have hT1 : (T1 : ℂ) ≠ 0 := by exact_mod_cast h1.ne'
  have hrT : (Ex.eval env Coeff.E.rT).re = τ / T2 := by
    simp [Coeff.E.rT, Coeff.two_pi_i, Ex.eval, henv, envOf]
    field_simp
  have hrL : Ex.eval env Coeff.E.rL = ((τ / T1 : ℝ) : ℂ) := by
    simp [Coeff.E.rL, Ex.eval, henv, envOf]
  -- |E2|² ≤ e
  have hE2 : ∀ x : ℂ, x.re = τ / T2 → normSq (Complex.exp (-x)) ≤ e := by
    intro x hx
    rw [normSq_eq_norm_sq, Complex.norm_exp, ← Real.exp_nat_mul, hedef, Real.exp_le_exp]
    simp only [neg_re, hx]
    have : τ / T1 ≤ 2 * (τ / T2) := by
      rw [div_le_iff₀ h1]
      have : 2 * (τ / T2) * T1 = τ * (2 * T1 / T2) := by field_simp
      rw [this]
      have : 1 ≤ 2 * T1 / T2 := by rw [le_div_iff₀ h2]; linarith
      nlinarith
    push_cast; linarith
  have hE1 : Complex.exp (-(Ex.eval env Coeff.E.rL)) = (e : ℂ) := by
    rw [hrL, hedef]; push_cast; rfl
  have hA0 : normSq (Ex.eval env (Coeff.E.arr 0)) ≤ e := by
    simp only [Coeff.E.arr, Ex.eval, conj_C, expc_C]
    rw [Complex.normSq_conj]; exact hE2 _ hrT
  have hA1 : normSq (Ex.eval env (Coeff.E.arr 1)) ≤ e := by
    simp only [Coeff.E.arr, Ex.eval, expc_C]; exact hE2 _ hrT
  have hA2 : Ex.eval env (Coeff.E.arr 2) = (e : ℂ) := by
    simp only [Coeff.E.arr, Ex.eval, expc_C]; exact hE1
  have hB0 : Ex.eval env (Coeff.E.arr0 0) = 0 := by simp [Coeff.E.arr0, Ex.eval]
  have hB1 : Ex.eval env (Coeff.E.arr0 1) = 0 := by simp [Coeff.E.arr0, Ex.eval]
  have hB2 : Ex.eval env (Coeff.E.arr0 2) = 1 - (e : ℂ) := by
    simp only [Coeff.E.arr0, Ex.eval, expc_C]; rw [hE1]
  have hg := he k
  have nfp := normSq_nonneg (s.get k).fp
  have nfm := normSq_nonneg (s.get k).fm
  have nz := normSq_nonneg (s.get k).z
  by_cases hk : k = 0
  · rw [hg]; simp only [hk, if_true]
    show q ⟨_, _, _⟩ ≤ _
    simp only [q, PS.dmul, hB0, hB1, hB2, hA2, zero_mul, add_zero, normSq_mul]
    have hc := normSq_convex e he0 he1 (s.get 0).z pd
    have nfp := normSq_nonneg (s.get 0).fp
    have nfm := normSq_nonneg (s.get 0).fm
    have m0 := mul_le_mul_of_nonneg_right hA0 nfp
    have m1 := mul_le_mul_of_nonneg_right hA1 nfm
    show (normSq (Ex.eval env (Coeff.E.arr 0)) * normSq (s.get 0).fp + normSq (Ex.eval env (Coeff.E.arr 1)) * normSq (s.get 0).fm) / 2
        + normSq ((e : ℂ) * (s.get 0).z + (1 - (e : ℂ)) * pd) ≤ _
    nlinarith
  · rw [hg]; simp only [hk, if_false, add_zero]
    have hz : PS.dmul (fun i => Ex.eval env (Coeff.E.arr0 i)) (0 : PS ℂ) = 0 := by
      apply PS.ext' <;> (show _ * (0 : ℂ) = 0; simp)
    rw [hz, PS.add_zero']
    simp only [q, PS.dmul, hA2, normSq_mul, normSq_ofReal]
    have m0 := mul_le_mul_of_nonneg_right hA0 nfp
    have m1 := mul_le_mul_of_nonneg_right hA1 nfm
    have : e * e * normSq (s.get k).z ≤ e * normSq (s.get k).z := by
      have : e * e ≤ e := by nlinarith
      exact mul_le_mul_of_nonneg_right this nz
    nlinarith

/-- **relaxation keeps the energy below |PD|²** when `T2 ≤ 2·T1` -/
theorem E_keeps_bound (τ T1 T2 g : ℝ) (hτ : 0 ≤ τ) (h1 : 0 < T1) (h2 : 0 < T2) (h21 : T2 ≤ 2 * T1)
    (s : SM ℂ) (pd : ℂ) (he : EqWF s pd) (hb : normSq' s ≤ normSq pd) :
    normSq' (applyOp {} (.E (τ : ℂ) (T1 : ℂ) (T2 : ℂ) (g : ℂ)) s) ≤ normSq pd := by
  set e := Real.exp (-(τ / T1)) with hedef
  have he0 : 0 ≤ e := (Real.exp_pos _).le
  have he1 : e ≤ 1 := by rw [hedef, Real.exp_le_one_iff]; have : 0 ≤ τ / T1 := by positivity
                         linarith
  have f1 : Function.HasFiniteSupport (fun k : ℤ => e * q (s.get k)) := by
    have := fin_q s
    show (Function.support _).Finite
    apply Set.Finite.subset this
    intro k hk h0; apply hk; simp [show q (s.get k) = 0 from h0]
  have f2 : Function.HasFiniteSupport (fun k : ℤ => if k = 0 then (1 - e) * normSq pd else 0) := by
    show (Function.support _).Finite
    apply Set.Finite.subset (Set.finite_singleton (0 : ℤ))
    intro k hk; by_contra h; apply hk; simp at h; simp [h]
  have hle : normSq' (applyOp {} (.E (τ : ℂ) (T1 : ℂ) (T2 : ℂ) (g : ℂ)) s)
      ≤ ∑ᶠ k : ℤ, (e * q (s.get k) + (if k = 0 then (1 - e) * normSq pd else 0)) := by
    unfold normSq'
    apply finsum_le_finsum' (fin_q _) (f1.add f2)
    intro k
    exact E_energy_pointwise τ T1 T2 g hτ h1 h2 h21 s pd he k
  rw [finsum_add_distrib f1 f2, ← mul_finsum] at hle
  have hs : ∑ᶠ k : ℤ, (if k = 0 then (1 - e) * normSq pd else 0) = (1 - e) * normSq pd := by
    rw [finsum_eq_single _ (0 : ℤ) (by intro k hk; simp [hk])]; simp
  rw [hs] at hle
  have : e * normSq' s ≤ e * normSq pd := mul_le_mul_of_nonneg_left hb he0
  unfold normSq' at this
  linarith

/-- every operator of the clause keeps the energy bound -/
theorem bounded_step (op : Op ℂ) (hop : Bounded op) (s : SM ℂ) (pd : ℂ) (he : EqWF s pd)
    (hb : normSq' s ≤ normSq pd) : normSq' (applyOp {} op s) ≤ normSq pd := by
  cases hop with
  | T α φ => rw [T_isometry]; exact hb
  | Phi φ => rw [Phi_isometry]; exact hb
  | E τ T1 T2 g hτ h1 h2 h21 => exact E_keeps_bound τ T1 T2 g hτ h1 h2 h21 s pd he hb
  | P τ g => rw [P_isometry]; exact hb
  | S m => rw [S_isometry]; exact hb
  | Spoiler => exact (spoiler_contracts s).trans hb
  | Wait => exact hb

theorem bounded_run (ops : List (Op ℂ)) (hops : ∀ op ∈ ops, Bounded op) (s : SM ℂ) (pd : ℂ) (he : EqWF s pd)
    (hb : normSq' s ≤ normSq pd) : normSq' (run {} ops s) ≤ normSq pd := by
  induction ops generalizing s with
  | nil => exact hb
  | cons op ops ih =>
    have hop := hops op (by simp)
    exact ih (fun o ho => hops o (by simp [ho])) _
      (C08.only_PD_changes_equilibrium {} op hop.notPD s pd he) (bounded_step op hop s pd he hb)

/-- the transverse signal of a well-formed state is at most its norm -/
theorem F0_le_norm (s : SM ℂ) (h : C08.WF s) : normSq (s.get 0).fp ≤ normSq' s := by
  have h0 : normSq (s.get 0).fp ≤ q (s.get 0) := by
    have := h.fsym 0
    rw [neg_zero] at this
    simp only [q]; rw [this]
    show _ ≤ (_ + normSq ((starRingEnd ℂ) (s.get 0).fp)) / 2 + _
    rw [Complex.normSq_conj]
    have := normSq_nonneg (s.get 0).z
    linarith
  have : q (s.get 0) ≤ normSq' s := by
    unfold normSq'
    exact single_le_finsum 0 (fin_q s) (fun k => q_nonneg _)
  linarith

theorem normSq'_init (pd : ℂ) : normSq' (SM.init pd) = normSq pd := by
  unfold normSq'
  rw [finsum_eq_single _ (0 : ℤ)]
  · simp [SM.init, get_mk', inRange, q]
  · intro k hk
    have : (SM.init pd).get k = 0 := by
      apply get_of_not_inRange
      simp only [SM.init, mk'_n, inRange]
      simp; omega
    simp [this]

/-- **C14, signal bound**: starting from equilibrium with density `PD`, after any sequence of RF pulses, phase offsets,
    precession, relaxation with `T2 ≤ 2·T1`, shifts, spoilers and waits, the signal `F0` satisfies `|F0| ≤ |PD|`
    (as does the longitudinal `Z0`, and the whole state-matrix norm) -/
theorem signal_le_PD (ops : List (Op ℂ)) (hops : ∀ op ∈ ops, Bounded op) (pd : ℝ) :
    ‖((run {} ops (SM.init (pd : ℂ))).get 0).fp‖ ≤ |pd| := by
  have hwf := C08.wf_run {} ops (fun op h => (hops op h).realParams) _ (C08.wf_init pd)
  have he : EqWF (SM.init (pd : ℂ)) (pd : ℂ) := by
    intro k; simp only [SM.init]; rw [geq_mk']
    by_cases hk : k = 0
    · simp [hk, inRange]
    · have : inRange 0 k = false := by simp [inRange]; omega
      simp [hk, this]
  have hb := bounded_run ops hops _ (pd : ℂ) he (normSq'_init _).le
  have h0 := F0_le_norm _ hwf
  have : normSq ((run {} ops (SM.init (pd : ℂ))).get 0).fp ≤ normSq (pd : ℂ) := h0.trans hb
  rw [normSq_eq_norm_sq, normSq_eq_norm_sq, Complex.norm_real, Real.norm_eq_abs] at this
  exact (sq_le_sq₀ (norm_nonneg _) (abs_nonneg _)).mp this


/-! ### any number of axes, with diffusion: the same bound on coordinate tables

Function level first (`κ → PS ℂ`, where `C04.get_point`, `C04.get_shift` and `C05.get_diffuse` place the tables):
a step is a per-state operator of the clause, a shift by any `g : κ`, or a diagonal operator whose entries have
modulus ≤ 1 (diffusion, see `diffusion_factor_le_one`). -/
section nd
open EpgVerif.Props.C04 EpgVerif.Props.C08
variable {κ : Type} [DecidableEq κ] [AddCommGroup κ]
local notation "cj" => starRingEnd ℂ

theorem q_Phi (φ : ℝ) (p : PS ℂ) : q (PS.mmul (coeffPhi (φ : ℂ)) p) = q p := by
  have h := Phi_isometry φ (SM.mk' 0 (fun _ => p) (fun _ => 0))
  unfold normSq' at h
  have e1 : ∀ s : SM ℂ, s.n = 0 → ∑ᶠ k : ℤ, q (s.get k) = q (s.get 0) := by
    intro s hs
    apply finsum_eq_single
    intro k hk
    have : s.get k = 0 := by
      apply get_of_not_inRange
      simp only [inRange, hs]; simp; omega
    simp [this]
  rw [e1 _ (by simp [applyOp, matApply]), e1 _ (by simp)] at h
  simpa [applyOp, get_matApply, get_mk', inRange] using h

theorem q_P (τ g : ℝ) (p : PS ℂ) :
    q (PS.dmul (fun i => Ex.eval (envOf [(τ : ℂ), (g : ℂ)]) (Coeff.P.arr i)) p) = q p := by
  have h := P_isometry τ g (SM.mk' 0 (fun _ => p) (fun _ => 0))
  unfold normSq' at h
  have e1 : ∀ s : SM ℂ, s.n = 0 → ∑ᶠ k : ℤ, q (s.get k) = q (s.get 0) := by
    intro s hs
    apply finsum_eq_single
    intro k hk
    have : s.get k = 0 := by
      apply get_of_not_inRange
      simp only [inRange, hs]; simp; omega
    simp [this]
  rw [e1 _ (by simp [applyOp, scalApply]), e1 _ (by simp)] at h
  have hz : PS.dmul (fun _ => (0 : ℂ)) (0 : PS ℂ) = 0 := by apply PS.ext' <;> simp [PS.dmul]
  simpa [applyOp, get_scalApply, get_mk', geq_mk', inRange, hz, PS.add_zero'] using h

/-- per phase state, every operator of the clause satisfies `q(op v) ≤ e·q(v) + (1−e)·|PD|²·[k = 0]` for some
    `e ∈ [0, 1]` (`e = 1` for the lossless ones) -/
theorem pointOp_energy (op : Op ℂ) (hop : Bounded op) (pd : ℂ) :
    ∃ e : ℝ, 0 ≤ e ∧ e ≤ 1 ∧ ∀ (k : κ) (v : PS ℂ),
      q (pointOp op (eqRow pd k) v) ≤ e * q v + (if k = 0 then (1 - e) * normSq pd else 0) := by
  cases hop with
  | T α φ => exact ⟨1, by norm_num, le_refl _, fun k v => by simp [pointOp, q_rotation]⟩
  | Phi φ => exact ⟨1, by norm_num, le_refl _, fun k v => by simp [pointOp, q_Phi]⟩
  | P τ g => exact ⟨1, by norm_num, le_refl _, fun k v => by simp [pointOp, q_P]⟩
  | S m => exact ⟨1, by norm_num, le_refl _, fun k v => by simp [pointOp]⟩
  | Wait => exact ⟨1, by norm_num, le_refl _, fun k v => by simp [pointOp]⟩
  | Spoiler =>
    refine ⟨1, by norm_num, le_refl _, fun k v => ?_⟩
    have := normSq_nonneg v.fp; have := normSq_nonneg v.fm
    simp [pointOp, q]; linarith
  | E τ T1 T2 g hτ h1 h2 h21 =>
    refine ⟨Real.exp (-(τ / T1)), (Real.exp_pos _).le, ?_, fun k v => ?_⟩
    · rw [Real.exp_le_one_iff]; have : 0 ≤ τ / T1 := by positivity
      linarith
    · -- reuse the 1-D statement on a one-state matrix whose equilibrium row is `eqRow pd k`
      by_cases hk : k = 0
      · have h := E_energy_pointwise τ T1 T2 g hτ h1 h2 h21
          (SM.mk' 0 (fun _ => v) (fun _ => ⟨0, 0, pd⟩)) pd
          (by intro j; rw [geq_mk']
              by_cases hj : j = 0
              · simp [hj, inRange]
              · have : inRange 0 j = false := by simp [inRange]; omega
                simp [hj, this]) 0
        simpa [applyOp, get_scalApply, get_mk', geq_mk', inRange, pointOp, eqRow, hk] using h
      · have h := E_energy_pointwise τ T1 T2 g hτ h1 h2 h21
          (SM.mk' 1 (fun j => if j = 1 then v else 0) (fun j => if j = 0 then ⟨0, 0, pd⟩ else 0)) pd
          (by intro j; rw [geq_mk']
              by_cases hj : j = 0
              · simp [hj, inRange]
              · by_cases hr : inRange 1 j = true <;> simp [hj, hr]) 1
        simpa [applyOp, get_scalApply, get_mk', geq_mk', inRange, pointOp, eqRow, hk] using h

omit [DecidableEq κ] in
theorem fin_energy (f : κ → PS ℂ) (hf : (Function.support f).Finite) :
    Function.HasFiniteSupport (fun k => q (f k)) := by
  show (Function.support _).Finite
  apply hf.subset
  intro k hk h0; apply hk; simp [show f k = 0 from h0]

/-- summation of the per-state inequality -/
theorem energy_affine_le (f f' : κ → PS ℂ) (hf : (Function.support f).Finite) (e P : ℝ) (he0 : 0 ≤ e) (he1 : e ≤ 1)
    (h : ∀ k, q (f' k) ≤ e * q (f k) + (if k = 0 then (1 - e) * P else 0)) (hP : 0 ≤ P) (hb : energy f ≤ P) :
    energy f' ≤ P := by
  have f1 : Function.HasFiniteSupport (fun k : κ => e * q (f k)) := by
    show (Function.support _).Finite
    apply (fin_energy f hf).subset
    intro k hk h0; apply hk; simp [show q (f k) = 0 from h0]
  have f2 : Function.HasFiniteSupport (fun k : κ => if k = 0 then (1 - e) * P else 0) := by
    show (Function.support _).Finite
    apply Set.Finite.subset (Set.finite_singleton (0 : κ))
    intro k hk; by_contra h; apply hk; simp at h; simp [h]
  have f3 : Function.HasFiniteSupport (fun k : κ => q (f' k)) := by
    show (Function.support _).Finite
    apply (f1.add f2).subset
    intro k hk h0
    apply hk
    have := h k
    have h0' : e * q (f k) + (if k = 0 then (1 - e) * P else 0) = 0 := h0
    rw [h0'] at this
    exact le_antisymm this (q_nonneg _)
  have hle : energy f' ≤ ∑ᶠ k : κ, (e * q (f k) + (if k = 0 then (1 - e) * P else 0)) :=
    finsum_le_finsum' f3 (f1.add f2) h
  rw [finsum_add_distrib f1 f2, ← mul_finsum] at hle
  have hs : ∑ᶠ k : κ, (if k = 0 then (1 - e) * P else 0) = (1 - e) * P := by
    rw [finsum_eq_single _ (0 : κ) (by intro k hk; simp [hk])]; simp
  rw [hs] at hle
  have : e * energy f ≤ e * P := mul_le_mul_of_nonneg_left hb he0
  unfold energy at this
  linarith

/-- function-level steps -/
inductive FOp (κ : Type) where
  | pt (op : Op ℂ)
  | shift (g : κ)
  | diag (a : κ → Nat → ℂ)

noncomputable def fstep (pd : ℂ) : FOp κ → (κ → PS ℂ) → (κ → PS ℂ)
  | .pt op, f => pointF op pd f
  | .shift g, f => shiftF g f
  | .diag a, f => fun k => PS.dmul (a k) (f k)

noncomputable def frun (pd : ℂ) (ops : List (FOp κ)) (f : κ → PS ℂ) : κ → PS ℂ := ops.foldl (fun f o => fstep pd o f) f

/-- the steps of the clause: bounded per-state operators, shifts, and diagonal contractions that respect the
    conjugate-mirror symmetry -/
def BoundedF : FOp κ → Prop
  | .pt op => Bounded op
  | .shift _ => True
  | .diag a => (∀ k i, normSq (a k i) ≤ 1) ∧ (∀ k, a k 1 = cj (a (-k) 0)) ∧ (∀ k, a (-k) 2 = cj (a k 2))

/-- finitely many non-zero states, conjugate-mirror symmetry, energy at most |PD|² -/
structure FInv (pd : ℂ) (f : κ → PS ℂ) : Prop where
  fin : (Function.support f).Finite
  fsym : ∀ k, (f k).fm = cj (f (-k)).fp
  zsym : ∀ k, (f (-k)).z = cj (f k).z
  bound : energy f ≤ normSq pd

theorem finv_step (pd : ℂ) (hpd : cj pd = pd) (o : FOp κ) (ho : BoundedF o) (f : κ → PS ℂ) (h : FInv pd f) :
    FInv pd (fstep pd o f) := by
  cases o with
  | pt op =>
    have hop : Bounded op := ho
    obtain ⟨e, he0, he1, hq⟩ := pointOp_energy (κ := κ) op hop pd
    refine ⟨?_, ?_, ?_, ?_⟩
    · -- support ⊆ support f ∪ {0}
      apply (h.fin.union (Set.finite_singleton (0 : κ))).subset
      intro k hk
      by_contra hn
      simp only [Set.mem_union, Set.mem_singleton_iff, not_or, Function.mem_support, not_not] at hn
      apply hk
      simp only [fstep, pointF, hn.1, eqRow, hn.2, if_false]
      exact pointOp_zero op
    · intro k
      simp only [fstep, pointF]
      rw [eqRow_neg]
      have e2 := h.fsym (-k); rw [neg_neg] at e2
      exact (mirror_pointOp op hop.realParams _ _ _ (eqRow_shape pd hpd k) (h.fsym k) e2 (h.zsym k)).1
    · intro k
      simp only [fstep, pointF]
      rw [eqRow_neg]
      have e2 := h.fsym (-k); rw [neg_neg] at e2
      exact (mirror_pointOp op hop.realParams _ _ _ (eqRow_shape pd hpd k) (h.fsym k) e2 (h.zsym k)).2
    · exact energy_affine_le f _ h.fin e (normSq pd) he0 he1 (fun k => hq k (f k)) (normSq_nonneg _) h.bound
  | shift g =>
    refine ⟨?_, ?_, ?_, ?_⟩
    · -- support ⊆ (support f + g) ∪ (support f − g) ∪ support f
      have i1 : ((fun k : κ => k - g) ⁻¹' Function.support f).Finite :=
        h.fin.preimage (sub_left_injective.injOn)
      have i2 : ((fun k : κ => k + g) ⁻¹' Function.support f).Finite :=
        h.fin.preimage ((add_left_injective g).injOn)
      apply ((i1.union i2).union h.fin).subset
      intro k hk
      by_contra hn
      simp only [Set.mem_union, Set.mem_preimage, Function.mem_support, not_or, not_not] at hn
      apply hk
      simp only [fstep, shiftF, hn.1.1, hn.1.2, hn.2]
    · intro k
      simp only [fstep, shiftF]
      have := h.fsym (k + g)
      rw [this]; congr 3; abel
    · intro k
      simp only [fstep, shiftF]
      exact h.zsym k
    · simp only [fstep]; rw [energy_shiftF g f h.fin]; exact h.bound
  | diag a =>
    obtain ⟨ha, hs1, hs2⟩ := ho
    refine ⟨?_, ?_, ?_, ?_⟩
    · apply h.fin.subset
      intro k hk h0; apply hk
      simp only [fstep, show f k = 0 from h0]
      apply PS.ext' <;> simp [PS.dmul]
    · intro k
      simp only [fstep, PS.dmul, map_mul, hs1 k, h.fsym k]
    · intro k
      simp only [fstep, PS.dmul, map_mul, hs2 k, h.zsym k]
    · have hf' : (Function.support (fstep (κ := κ) pd (.diag a) f)).Finite := by
        apply h.fin.subset
        intro k hk h0; apply hk
        simp only [fstep, show f k = 0 from h0]
        apply PS.ext' <;> simp [PS.dmul]
      refine le_trans ?_ h.bound
      exact finsum_le_finsum' (fin_energy _ hf') (fin_energy _ h.fin)
        (fun k => q_diag_le (a k) (ha k 0) (ha k 1) (ha k 2) (f k))

theorem finv_run (pd : ℂ) (hpd : cj pd = pd) (ops : List (FOp κ)) (hops : ∀ o ∈ ops, BoundedF o) (f : κ → PS ℂ)
    (h : FInv pd f) : FInv pd (frun pd ops f) := by
  induction ops generalizing f with
  | nil => exact h
  | cons o ops ih =>
    exact ih (fun o' ho' => hops o' (by simp [ho'])) _ (finv_step pd hpd o (hops o (by simp)) f h)

/-- the invariant bounds the signal -/
theorem finv_signal (pd : ℂ) (f : κ → PS ℂ) (h : FInv pd f) : normSq (f 0).fp ≤ normSq pd := by
  have h0 : normSq (f 0).fp ≤ q (f 0) := by
    have := h.fsym 0
    rw [neg_zero] at this
    simp only [q]; rw [this, Complex.normSq_conj]
    have := normSq_nonneg (f 0).z
    linarith
  have : q (f 0) ≤ energy f := single_le_finsum 0 (fin_energy f h.fin) (fun k => q_nonneg _)
  linarith [h.bound]

/-- **C14, signal bound on any number of axes, with diffusion**: from equilibrium with density `PD`, after any
    sequence of bounded per-state operators (RF pulses, phase offsets, precession, relaxation with `T2 ≤ 2·T1`,
    spoilers), shifts along any axes and diagonal contractions (diffusion), `|F0| ≤ |PD|` -/
theorem nd_signal_le_PD (pd : ℝ) (ops : List (FOp κ)) (hops : ∀ o ∈ ops, BoundedF o) :
    ‖(frun (pd : ℂ) ops (eqRow (pd : ℂ)) 0).fp‖ ≤ |pd| := by
  have h0 : FInv (κ := κ) (pd : ℂ) (eqRow (pd : ℂ)) := by
    refine ⟨?_, ?_, ?_, ?_⟩
    · apply (Set.finite_singleton (0 : κ)).subset
      intro k hk; by_contra hn; apply hk
      simp only [Set.mem_singleton_iff] at hn
      simp [eqRow, hn]
    · intro k; rw [eqRow_neg]; unfold eqRow; by_cases hk : k = 0 <;> simp [hk]
    · intro k; rw [eqRow_neg]; unfold eqRow; by_cases hk : k = 0 <;> simp [hk]
    · unfold energy
      rw [finsum_eq_single _ (0 : κ) (by intro k hk; simp [eqRow, hk])]
      simp [eqRow, q]
  have := finv_signal _ _ (finv_run (pd : ℂ) (by simp) ops hops _ h0)
  rw [normSq_eq_norm_sq, normSq_eq_norm_sq, Complex.norm_real, Real.norm_eq_abs] at this
  exact (sq_le_sq₀ (norm_nonneg _) (abs_nonneg _)).mp this

/-! #### coordinate tables (the executable n-D model) -/

def toF : NOp κ ℂ → FOp κ
  | .pt op => .pt op
  | .shift g => .shift g

/-- the table after any program is the function-level run (C04's `get_point` / `get_shift`, step by step) -/
theorem get_run (ops : List (NOp κ ℂ)) (hops : ∀ op ∈ ops, RealOp op) (s : NDS κ ℂ) (h : WFN s) :
    (s.run ops).get = frun s.pd (ops.map toF) s.get ∧ (s.run ops).pd = s.pd := by
  induction ops generalizing s with
  | nil => exact ⟨rfl, rfl⟩
  | cons op ops ih =>
    have hop := hops op (by simp)
    cases op with
    | pt o =>
      have hw := wfn_point o hop s h
      have := ih (fun o' ho' => hops o' (by simp [ho'])) _ hw
      have hpd : (s.point o).pd = s.pd := rfl
      have hg : (s.point o).get = pointF o s.pd s.get := funext (get_point o s h.zero_mem)
      simp only [NDS.run, List.foldl_cons, NDS.apply, List.map_cons, frun, toF, fstep] at this ⊢
      rw [hpd, hg] at this
      exact this
    | shift g =>
      have hw := wfn_shift g s h
      have := ih (fun o' ho' => hops o' (by simp [ho'])) _ hw
      have hpd : (s.shift g).pd = s.pd := rfl
      have hg : (s.shift g).get = shiftF g s.get := funext (get_shift g s h)
      simp only [NDS.run, List.foldl_cons, NDS.apply, List.map_cons, frun, toF, fstep] at this ⊢
      rw [hpd, hg] at this
      exact this

def BoundedN : NOp κ ℂ → Prop
  | .pt op => Bounded op
  | .shift _ => True

/-- **the n-D coordinate-table simulation never exceeds PD** (any wavenumber group: 1 to 3 gradient axes and time) -/
theorem table_signal_le_PD (pd : ℝ) (ops : List (NOp κ ℂ)) (hops : ∀ op ∈ ops, BoundedN op) :
    ‖(((NDS.init (0 : κ) (pd : ℂ)).run ops).get 0).fp‖ ≤ |pd| := by
  have hreal : ∀ op ∈ ops, RealOp op := by
    intro op hop
    have := hops op hop
    cases op with
    | pt o => exact Bounded.realParams this
    | shift g => trivial
  have hg := (get_run ops hreal _ (wfn_init (κ := κ) pd)).1
  have h0 : (NDS.init (0 : κ) (pd : ℂ)).get = eqRow (pd : ℂ) := by
    funext k
    by_cases hk : k = 0
    · subst hk; simp [NDS.init, NDS.get, eqRow]
    · have : ¬ (0 : κ) = k := fun e => hk e.symm
      simp [NDS.init, NDS.get, eqRow, hk, this]
  rw [hg, h0]
  have hb : ∀ o ∈ ops.map toF, BoundedF o := by
    intro o ho
    obtain ⟨op, hop, rfl⟩ := List.mem_map.mp ho
    have := hops op hop
    cases op with
    | pt o' => exact this
    | shift g => trivial
  exact nd_signal_le_PD pd _ hb

/-! #### diffusion is a diagonal contraction -/
open EpgVerif.Diff5 EpgVerif.Props.C05

theorem sumTo_real_nonneg (d : Nat) (r : Nat → ℝ) (hr : ∀ i, 0 ≤ r i) :
    ∃ t : ℝ, 0 ≤ t ∧ sumTo d (fun i => ((r i : ℝ) : ℂ)) = (t : ℂ) := by
  induction d with
  | zero => exact ⟨0, le_refl _, by simp [sumTo]⟩
  | succ d ih =>
    obtain ⟨t, ht, e⟩ := ih
    refine ⟨t + r d, by have := hr d; linarith, ?_⟩
    rw [sumTo_succ, e]; push_cast; rfl

theorem attScalar_le_one (d : Nat) (b : Nat → Nat → ℂ) (r : Nat → ℝ) (hb : ∀ i, b i i = ((r i : ℝ) : ℂ))
    (hr : ∀ i, 0 ≤ r i) (D : ℝ) (hD : 0 ≤ D) :
    normSq (attScalar d b (D : ℂ)) ≤ 1 ∧ cj (attScalar d b (D : ℂ)) = attScalar d b (D : ℂ) := by
  obtain ⟨t, ht, e⟩ := sumTo_real_nonneg d r hr
  have : sumTo d (fun i => b i i) = (t : ℂ) := by
    rw [← e]; congr 1; funext i; exact hb i
  unfold attScalar
  rw [this]
  simp only [expc_C]
  have e2 : -(t : ℂ) * (D : ℂ) = -(((t * D : ℝ)) : ℂ) := by push_cast; ring
  rw [e2]
  constructor
  · apply normSq_exp_real_le
    simp only [Complex.ofReal_re]; positivity
  · rw [← Complex.exp_conj]; congr 1
    simp

/-- diagonal of the constant-wavenumber b-matrix: `(k_i·10⁻³)²·τ·10⁻³ ≥ 0` -/
theorem bmatConst_diag (τ : ℝ) (w : Nat → ℝ) (i : Nat) :
    bmatConst (τ : ℂ) (fun n => ((w n : ℝ) : ℂ)) i i = (((w i / 1000) ^ 2 * (τ / 1000) : ℝ) : ℂ) := by
  simp only [bmatConst, milli, ofRat_C]
  push_cast; ring

/-- diagonal of the ramp b-matrix: `τ·10⁻³·((a + δ/2)² + δ²/12) ≥ 0`, `a = k1_i·10⁻³`, `δ = (k2_i − k1_i)·10⁻³` -/
theorem bmatRamp_diag (τ : ℝ) (w1 w2 : Nat → ℝ) (i : Nat) :
    bmatRamp (τ : ℂ) (fun n => ((w1 n : ℝ) : ℂ)) (fun n => ((w2 n : ℝ) : ℂ)) i i
      = (((τ / 1000) * ((w1 i / 1000 + (w2 i / 1000 - w1 i / 1000) / 2) ^ 2 + (w2 i / 1000 - w1 i / 1000) ^ 2 / 12) : ℝ) : ℂ) := by
  simp only [bmatRamp, milli, ofRat_C]
  push_cast; ring

/-- the diagonal operator `D._apply` builds from a transverse factor `DT` and a longitudinal factor `DL` -/
def difDiag (DT DL : κ → ℂ) : κ → Nat → ℂ := fun k i => match i with | 0 => DT k | 1 => cj (DT (-k)) | _ => DL k

theorem difDiag_bounded (DT DL : κ → ℂ) (hT : ∀ k, normSq (DT k) ≤ 1) (hL : ∀ k, normSq (DL k) ≤ 1)
    (hLr : ∀ k, cj (DL k) = DL k) (hLe : ∀ k, DL (-k) = DL k) : BoundedF (FOp.diag (difDiag DT DL)) := by
  refine ⟨?_, ?_, ?_⟩
  · intro k i
    match i with
    | 0 => exact hT k
    | 1 => simp only [difDiag]; rw [Complex.normSq_conj]; exact hT (-k)
    | (n + 2) => exact hL k
  · intro k; simp [difDiag]
  · intro k; simp only [difDiag]; rw [hLe, hLr]

/-- **scalar diffusion (D ≥ 0, τ ≥ 0, real wavenumbers) is one of the diagonal contractions of `nd_signal_le_PD`**:
    its table is the function-level diagonal step, and that step satisfies `BoundedF` -/
theorem diffusion_is_bounded_step (d : Nat) (wr : κ → Nat → ℝ) (hodd : ∀ k n, wr (-k) n = -wr k n)
    (τ D : ℝ) (hτ : 0 ≤ τ) (hD : 0 ≤ D) (shift : Option (Nat → ℝ)) (s : NDS κ ℂ) (h : WFN s) :
    ∃ a : κ → Nat → ℂ, BoundedF (FOp.diag a) ∧
      (diffuse d (fun k n => ((wr k n : ℝ) : ℂ)) (τ : ℂ) (.scalar (D : ℂ)) (shift.map (fun g n => ((g n : ℝ) : ℂ))) s).get
        = fstep s.pd (FOp.diag a) s.get := by
  have hL : ∀ k, normSq (att d (bmatConst (τ : ℂ) (fun n => ((wr k n : ℝ) : ℂ))) (.scalar (D : ℂ))) ≤ 1
      ∧ cj (att d (bmatConst (τ : ℂ) (fun n => ((wr k n : ℝ) : ℂ))) (.scalar (D : ℂ)))
          = att d (bmatConst (τ : ℂ) (fun n => ((wr k n : ℝ) : ℂ))) (.scalar (D : ℂ)) := by
    intro k
    exact attScalar_le_one d _ (fun i => (wr k i / 1000) ^ 2 * (τ / 1000)) (fun i => bmatConst_diag τ (wr k) i)
      (fun i => by positivity) D hD
  have hLeven : ∀ k, att d (bmatConst (τ : ℂ) (fun n => ((wr (-k) n : ℝ) : ℂ))) (.scalar (D : ℂ))
      = att d (bmatConst (τ : ℂ) (fun n => ((wr k n : ℝ) : ℂ))) (.scalar (D : ℂ)) := by
    intro k
    simp only [att, attScalar]
    have : (fun i => bmatConst (τ : ℂ) (fun n => ((wr (-k) n : ℝ) : ℂ)) i i)
        = fun i => bmatConst (τ : ℂ) (fun n => ((wr k n : ℝ) : ℂ)) i i := by
      funext i
      rw [bmatConst_diag τ (wr (-k)) i, bmatConst_diag τ (wr k) i, hodd]; congr 1; ring
    rw [this]
  cases shift with
  | none =>
    refine ⟨difDiag (fun k => att d (bmatConst (τ : ℂ) (fun n => ((wr k n : ℝ) : ℂ))) (.scalar (D : ℂ)))
        (fun k => att d (bmatConst (τ : ℂ) (fun n => ((wr k n : ℝ) : ℂ))) (.scalar (D : ℂ))),
      difDiag_bounded _ _ (fun k => (hL k).1) (fun k => (hL k).1) (fun k => (hL k).2) hLeven, ?_⟩
    funext k
    have := get_diffuse d (fun k n => ((wr k n : ℝ) : ℂ)) (τ : ℂ) (.scalar (D : ℂ)) none s h k
    simp only [Option.map_none] at this ⊢
    rw [this]
    rfl
  | some g =>
    have hT : ∀ k, normSq (att d (bmatRamp (τ : ℂ) (fun n => ((wr k n : ℝ) : ℂ) - ((g n : ℝ) : ℂ)) (fun n => ((wr k n : ℝ) : ℂ)))
        (.scalar (D : ℂ))) ≤ 1 := by
      intro k
      have e : (fun n => ((wr k n : ℝ) : ℂ) - ((g n : ℝ) : ℂ)) = fun n => (((wr k n - g n : ℝ)) : ℂ) := by
        funext n; simp
      rw [e]
      exact (attScalar_le_one d _ _ (fun i => bmatRamp_diag τ (fun n => wr k n - g n) (wr k) i)
        (fun i => by positivity) D hD).1
    refine ⟨difDiag (fun k => att d (bmatRamp (τ : ℂ) (fun n => ((wr k n : ℝ) : ℂ) - ((g n : ℝ) : ℂ)) (fun n => ((wr k n : ℝ) : ℂ)))
          (.scalar (D : ℂ)))
        (fun k => att d (bmatConst (τ : ℂ) (fun n => ((wr k n : ℝ) : ℂ))) (.scalar (D : ℂ))),
      difDiag_bounded _ _ hT (fun k => (hL k).1) (fun k => (hL k).2) hLeven, ?_⟩
    funext k
    have := get_diffuse d (fun k n => ((wr k n : ℝ) : ℂ)) (τ : ℂ) (.scalar (D : ℂ)) (some (fun n => ((g n : ℝ) : ℂ))) s h k
    simp only [Option.map_some] at this ⊢
    rw [this]
    rfl

end nd

/-- the hypotheses are satisfiable by an ordinary sequence (90° pulse, relaxation with T2 = 100 ≤ 2·1000, gradient,
    spoiler) -/
example : ∀ op ∈ [Op.T ((90 : ℝ) : ℂ) ((0 : ℝ) : ℂ), Op.E ((10 : ℝ) : ℂ) ((1000 : ℝ) : ℂ) ((100 : ℝ) : ℂ) ((0 : ℝ) : ℂ),
    Op.S 1 none, Op.Spoiler], Bounded op := by
  intro op hop
  simp only [List.mem_cons, List.mem_nil_iff, or_false] at hop
  rcases hop with rfl | rfl | rfl | rfl
  · exact Bounded.T 90 0
  · exact Bounded.E 10 1000 100 0 (by norm_num) (by norm_num) (by norm_num) (by norm_num)
  · exact Bounded.S 1
  · exact Bounded.Spoiler

/-- **why the rejection of negative decay times (C20) is needed for the bound of C14**: with `τ < 0` relaxation
    amplifies every non-zero transverse state, by `exp(-2τ/T2) > 1` -/
theorem E_negative_time_amplifies (τ T1 T2 g : ℝ) (h2 : 0 < T2) (hτ : τ < 0) (s : SM ℂ) (k : ℤ)
    (hk : (s.get k).fp ≠ 0) :
    normSq (s.get k).fp < normSq ((applyOp {} (.E (τ : ℂ) (T1 : ℂ) (T2 : ℂ) (g : ℂ)) s).get k).fp := by
  simp only [applyOp, get_scalApply]
  have hT2 : (T2 : ℂ) ≠ 0 := by exact_mod_cast h2.ne'
  have hrT : (Ex.eval (envOf [(τ : ℂ), (T1 : ℂ), (T2 : ℂ), (g : ℂ)]) Coeff.E.rT).re = τ / T2 := by
    simp [Coeff.E.rT, Coeff.two_pi_i, Ex.eval, envOf]
    field_simp
  have hB0 : Ex.eval (envOf [(τ : ℂ), (T1 : ℂ), (T2 : ℂ), (g : ℂ)]) (Coeff.E.arr0 0) = 0 := by
    simp [Coeff.E.arr0, Ex.eval]
  have hA0 : 1 < normSq (Ex.eval (envOf [(τ : ℂ), (T1 : ℂ), (T2 : ℂ), (g : ℂ)]) (Coeff.E.arr 0)) := by
    simp only [Coeff.E.arr, Ex.eval, conj_C, expc_C]
    rw [Complex.normSq_conj, normSq_eq_norm_sq, Complex.norm_exp]
    simp only [neg_re, hrT]
    have : 0 < -(τ / T2) := by
      have : τ / T2 < 0 := div_neg_of_neg_of_pos hτ h2
      linarith
    have h1 : 1 < Real.exp (-(τ / T2)) := by rw [Real.one_lt_exp_iff]; exact this
    nlinarith
  show normSq (s.get k).fp < normSq (Ex.eval (envOf [(τ : ℂ), (T1 : ℂ), (T2 : ℂ), (g : ℂ)]) (Coeff.E.arr 0) * (s.get k).fp
    + Ex.eval (envOf [(τ : ℂ), (T1 : ℂ), (T2 : ℂ), (g : ℂ)]) (Coeff.E.arr0 0) * (s.geq k).fp)
  rw [hB0, zero_mul, add_zero, normSq_mul]
  have hpos : 0 < normSq (s.get k).fp := normSq_pos.mpr hk
  nlinarith

end EpgVerif.Props.C14
