import EpgVerif.Props.C03E
import EpgVerif.Props.C03Prog
/-
  C03, end to end for the generic relaxation operator R(rT, rL, r0) with real parameters — a diagonal operator with a
  recovery term — mixed pair (a, b), the three parameters driven by both variables through (non-linear) expressions.
  (A complex `rT`, i.e. precession through R, is outside this statement: see the known finding F20.)
-/
namespace EpgVerif.Props.C03
open EpgVerif Diff Ex Finset EpgVerif.Props.C02

theorem psSum_three (f : Nat → PS ℂ) : psSum 3 f = f 0 + f 1 + f 2 := by
  apply PS.ext' <;> simp [psSum, Finset.sum_range_succ]

theorem R_defined (env : Nat → ℂ) (i : Nat) : Defined env (Coeff.R.arr i) ∧ Defined env (Coeff.R.arr0 i) := by
  match i with
  | 0 => simp [Coeff.R.arr, Coeff.R.arr0, Ex.Defined]
  | 1 => simp [Coeff.R.arr, Coeff.R.arr0, Ex.Defined]
  | 2 => simp [Coeff.R.arr, Coeff.R.arr0, Ex.Defined]
  | (n + 3) => simp [Coeff.R.arr, Coeff.R.arr0, Ex.Defined]

open EpgVerif.Tie in
/-- each coefficient of R depends on one parameter: mixed derivatives with respect to two different parameters vanish -/
theorem R_mixed_zero (env : Nat → ℂ) (i j k : Nat) (hi : i < 3) (hj : j < 3) (hij : i ≠ j) (hk : k < 3) :
    eval env (d i (d j (Coeff.R.arr k))) = 0 ∧ eval env (d i (d j (Coeff.R.arr0 k))) = 0 := by
  interval_cases i <;> interval_cases j <;>
    first
    | exact absurd rfl hij
    | (interval_cases k <;> (constructor <;> ex_eq))

def rIdx (p : Param) : Nat := if p = "rT" then 0 else if p = "rL" then 1 else 2

/-- the operator as `_apply_order2` sees it, acting on (row, equilibrium row) -/
noncomputable def rDOp (env : Nat → ℂ) (a b : Var) (la lb l2 : List (Param × ℂ)) : DOp ℂ (PS ℂ × PS ℂ) where
  derive0 X := (PS.dmul (fun i => eval env (Coeff.R.arr i)) X.1 + PS.dmul (fun i => eval env (Coeff.R.arr0 i)) X.2, X.2)
  derive1 p X := (PS.dmul (fun i => eval env (d (rIdx p) (Coeff.R.arr i))) X.1
                  + PS.dmul (fun i => eval env (d (rIdx p) (Coeff.R.arr0 i))) X.2, 0)
  derive2 pp X := (PS.dmul (fun i => eval env (d (rIdx pp.2) (d (rIdx pp.1) (Coeff.R.arr i)))) X.1
                  + PS.dmul (fun i => eval env (d (rIdx pp.2) (d (rIdx pp.1) (Coeff.R.arr0 i)))) X.2, 0)
  order1 := [(a, la), (b, lb)]
  order2 := [((a, b), l2)]
  auto := false
  P2 := [("r0", "r0"), ("rL", "rL"), ("rT", "rT")]


/-- **C03 end to end, R with real parameters, mixed pair (a, b)** -/
theorem R_mixed_partial_exact_nl (par sa : Nat → ℝ → ℝ) (cB c2 : Nat → ℝ) (y0 : ℝ) (a b : Var) (hab : a < b)
    (hpar : ∀ j, j < 3 → HasDerivAt (par j) (cB j) y0) (hsa : ∀ j, j < 3 → HasDerivAt (sa j) (c2 j) y0)
    (e : PS ℂ) (s Ja : ℝ → PS ℂ) (Jb H : PS ℂ) (hs : PSHasDeriv s Jb y0) (hJ : PSHasDeriv Ja H y0) :
    let env := fun (y : ℝ) (j : Nat) => if j < 3 then ((par j y : ℝ) : ℂ) else 0
    PSHasDeriv (fun y => PS.dmul (fun i => eval (env y) (Coeff.R.arr i)) (Ja y)
        + psSum 3 (fun p => PS.smul ((sa p y : ℝ) : ℂ)
            (PS.dmul (fun i => eval (env y) (d p (Coeff.R.arr i))) (s y) + PS.dmul (fun i => eval (env y) (d p (Coeff.R.arr0 i))) e)))
      (Diff.val (applyOrder2 (modCar (K := ℂ))
          (rDOp (env y0) a b [("rT", (((sa 0 y0 : ℝ) : ℂ))), ("rL", (((sa 1 y0 : ℝ) : ℂ))), ("r0", (((sa 2 y0 : ℝ) : ℂ)))] [("rT", ((cB 0 : ℝ) : ℂ)), ("rL", ((cB 1 : ℝ) : ℂ)), ("r0", ((cB 2 : ℝ) : ℂ))] [("rT", ((c2 0 : ℝ) : ℂ)), ("rL", ((c2 1 : ℝ) : ℂ)), ("r0", ((c2 2 : ℝ) : ℂ))])
          (s y0, e) [(a, (Ja y0, 0)), (b, (Jb, 0))] [((a, b), (H, 0))]) (a, b)).1 y0 := by
  intro env
  show PSHasDeriv _ (Diff.val (applyOrder2 _ (rDOp (fun j => if j < 3 then ((par j y0 : ℝ) : ℂ) else 0) a b _ _ _) _ _ _) (a, b)).1 y0
  set op := rDOp (fun j => if j < 3 then ((par j y0 : ℝ) : ℂ) else 0) a b [("rT", (((sa 0 y0 : ℝ) : ℂ))), ("rL", (((sa 1 y0 : ℝ) : ℂ))), ("r0", (((sa 2 y0 : ℝ) : ℂ)))] [("rT", ((cB 0 : ℝ) : ℂ)), ("rL", ((cB 1 : ℝ) : ℂ)), ("r0", ((cB 2 : ℝ) : ℂ))] [("rT", ((c2 0 : ℝ) : ℂ)), ("rL", ((c2 1 : ℝ) : ℂ)), ("r0", ((c2 2 : ℝ) : ℂ))] with hop
  have h0 : op.derive0 0 = 0 := by
    show ((_ : PS ℂ), (_ : PS ℂ)) = 0
    ext <;> simp [PS.dmul]
  rw [pairVar_value op a b hab _ _ _ rfl rfl rfl h0]
  have hd : ∀ i, Defined (fun j => if j < 3 then ((par j y0 : ℝ) : ℂ) else 0) (Coeff.R.arr i) ∧ Defined (fun j => if j < 3 then ((par j y0 : ℝ) : ℂ) else 0) (Coeff.R.arr0 i) := fun i => R_defined _ i
  have hm := scal_mixed_step Coeff.R.arr Coeff.R.arr0 3 par sa cB c2 y0 hpar hsa hd e s Ja Jb H hs hJ
  refine hm.congr_deriv ?_
  have s_rT_rT : supported op "rT" "rT" = true := by simp (config := {decide := true}) [supported, op, rDOp]
  have p_rT_rT : pair "rT" "rT" = ("rT", "rT") := by decide
  have s_rT_rL : supported op "rT" "rL" = false := by simp (config := {decide := true}) [supported, op, rDOp]
  have p_rT_rL : pair "rT" "rL" = ("rL", "rT") := by decide
  have s_rT_r0 : supported op "rT" "r0" = false := by simp (config := {decide := true}) [supported, op, rDOp]
  have p_rT_r0 : pair "rT" "r0" = ("r0", "rT") := by decide
  have s_rL_rT : supported op "rL" "rT" = false := by simp (config := {decide := true}) [supported, op, rDOp]
  have p_rL_rT : pair "rL" "rT" = ("rL", "rT") := by decide
  have s_rL_rL : supported op "rL" "rL" = true := by simp (config := {decide := true}) [supported, op, rDOp]
  have p_rL_rL : pair "rL" "rL" = ("rL", "rL") := by decide
  have s_rL_r0 : supported op "rL" "r0" = false := by simp (config := {decide := true}) [supported, op, rDOp]
  have p_rL_r0 : pair "rL" "r0" = ("r0", "rL") := by decide
  have s_r0_rT : supported op "r0" "rT" = false := by simp (config := {decide := true}) [supported, op, rDOp]
  have p_r0_rT : pair "r0" "rT" = ("r0", "rT") := by decide
  have s_r0_rL : supported op "r0" "rL" = false := by simp (config := {decide := true}) [supported, op, rDOp]
  have p_r0_rL : pair "r0" "rL" = ("r0", "rL") := by decide
  have s_r0_r0 : supported op "r0" "r0" = true := by simp (config := {decide := true}) [supported, op, rDOp]
  have p_r0_r0 : pair "r0" "r0" = ("r0", "r0") := by decide
  have z010 := R_mixed_zero (fun j => if j < 3 then ((par j y0 : ℝ) : ℂ) else 0) 0 1 0 (by norm_num) (by norm_num) (by norm_num) (by norm_num)
  have z011 := R_mixed_zero (fun j => if j < 3 then ((par j y0 : ℝ) : ℂ) else 0) 0 1 1 (by norm_num) (by norm_num) (by norm_num) (by norm_num)
  have z012 := R_mixed_zero (fun j => if j < 3 then ((par j y0 : ℝ) : ℂ) else 0) 0 1 2 (by norm_num) (by norm_num) (by norm_num) (by norm_num)
  have z020 := R_mixed_zero (fun j => if j < 3 then ((par j y0 : ℝ) : ℂ) else 0) 0 2 0 (by norm_num) (by norm_num) (by norm_num) (by norm_num)
  have z021 := R_mixed_zero (fun j => if j < 3 then ((par j y0 : ℝ) : ℂ) else 0) 0 2 1 (by norm_num) (by norm_num) (by norm_num) (by norm_num)
  have z022 := R_mixed_zero (fun j => if j < 3 then ((par j y0 : ℝ) : ℂ) else 0) 0 2 2 (by norm_num) (by norm_num) (by norm_num) (by norm_num)
  have z100 := R_mixed_zero (fun j => if j < 3 then ((par j y0 : ℝ) : ℂ) else 0) 1 0 0 (by norm_num) (by norm_num) (by norm_num) (by norm_num)
  have z101 := R_mixed_zero (fun j => if j < 3 then ((par j y0 : ℝ) : ℂ) else 0) 1 0 1 (by norm_num) (by norm_num) (by norm_num) (by norm_num)
  have z102 := R_mixed_zero (fun j => if j < 3 then ((par j y0 : ℝ) : ℂ) else 0) 1 0 2 (by norm_num) (by norm_num) (by norm_num) (by norm_num)
  have z120 := R_mixed_zero (fun j => if j < 3 then ((par j y0 : ℝ) : ℂ) else 0) 1 2 0 (by norm_num) (by norm_num) (by norm_num) (by norm_num)
  have z121 := R_mixed_zero (fun j => if j < 3 then ((par j y0 : ℝ) : ℂ) else 0) 1 2 1 (by norm_num) (by norm_num) (by norm_num) (by norm_num)
  have z122 := R_mixed_zero (fun j => if j < 3 then ((par j y0 : ℝ) : ℂ) else 0) 1 2 2 (by norm_num) (by norm_num) (by norm_num) (by norm_num)
  have z200 := R_mixed_zero (fun j => if j < 3 then ((par j y0 : ℝ) : ℂ) else 0) 2 0 0 (by norm_num) (by norm_num) (by norm_num) (by norm_num)
  have z201 := R_mixed_zero (fun j => if j < 3 then ((par j y0 : ℝ) : ℂ) else 0) 2 0 1 (by norm_num) (by norm_num) (by norm_num) (by norm_num)
  have z202 := R_mixed_zero (fun j => if j < 3 then ((par j y0 : ℝ) : ℂ) else 0) 2 0 2 (by norm_num) (by norm_num) (by norm_num) (by norm_num)
  have z210 := R_mixed_zero (fun j => if j < 3 then ((par j y0 : ℝ) : ℂ) else 0) 2 1 0 (by norm_num) (by norm_num) (by norm_num) (by norm_num)
  have z211 := R_mixed_zero (fun j => if j < 3 then ((par j y0 : ℝ) : ℂ) else 0) 2 1 1 (by norm_num) (by norm_num) (by norm_num) (by norm_num)
  have z212 := R_mixed_zero (fun j => if j < 3 then ((par j y0 : ℝ) : ℂ) else 0) 2 1 2 (by norm_num) (by norm_num) (by norm_num) (by norm_num)
  simp only [List.map_cons, List.map_nil, List.sum_cons, List.sum_nil, add_zero, s_rT_rT, s_rT_rL, s_rT_r0, s_rL_rT, s_rL_rL, s_rL_r0, s_r0_rT, s_r0_rL, s_r0_r0, p_rT_rT, p_rT_rL, p_rT_r0, p_rL_rT, p_rL_rL, p_rL_r0, p_r0_rT, p_r0_rL, p_r0_r0,
    if_true, Bool.false_eq_true, if_false, Prod.fst_add, Prod.smul_fst, Prod.fst_zero, psSum_three]
  simp (config := {decide := true}) only [op, rDOp, rIdx, String.reduceEq, if_true, if_false, smul_eq_PSsmul, id]
  apply PS.ext' <;>
  · simp only [PS.dmul, PS.smul, PS.add_fp, PS.add_fm, PS.add_z, PS.zero_fp, PS.zero_fm, PS.zero_z, psSum,
      Finset.sum_range_succ, Finset.sum_range_zero, zero_add, z010.1, z010.2, z011.1, z011.2, z012.1, z012.2, z020.1, z020.2, z021.1, z021.2, z022.1, z022.2, z100.1, z100.2, z101.1, z101.2, z102.1, z102.2, z120.1, z120.2, z121.1, z121.2, z122.1, z122.2, z200.1, z200.2, z201.1, z201.2, z202.1, z202.2, z210.1, z210.2, z211.1, z211.2, z212.1, z212.2]
    ring

/-! ### the R step of whole programs (real parameters) -/
section program
open EpgVerif.Props.C04
variable {κ : Type} [DecidableEq κ] [Zero κ]

/-- a generic relaxation step `R(rT, rL, r0)` whose three real parameters are (non-linear) functions of both variables -/
noncomputable def stepR (y0 : ℝ) (pd : ℂ) (a b : Var) (hab : a < b) (par sa : Nat → ℝ → ℝ) (cB c2 : Nat → ℝ)
    (hpar : ∀ j, j < 3 → HasDerivAt (par j) (cB j) y0) (hsa : ∀ j, j < 3 → HasDerivAt (sa j) (c2 j) y0) : Step2 y0 κ where
  S := fun y f k => PS.dmul (fun i => eval (fun j => if j < 3 then ((par j y : ℝ) : ℂ) else 0) (Coeff.R.arr i)) (f k)
      + PS.dmul (fun i => eval (fun j => if j < 3 then ((par j y : ℝ) : ℂ) else 0) (Coeff.R.arr0 i)) (eqRow pd k)
  J := fun y f ja k => PS.dmul (fun i => eval (fun j => if j < 3 then ((par j y : ℝ) : ℂ) else 0) (Coeff.R.arr i)) (ja k)
      + psSum 3 (fun p => PS.smul ((sa p y : ℝ) : ℂ)
          (PS.dmul (fun i => eval (fun j => if j < 3 then ((par j y : ℝ) : ℂ) else 0) (d p (Coeff.R.arr i))) (f k)
            + PS.dmul (fun i => eval (fun j => if j < 3 then ((par j y : ℝ) : ℂ) else 0) (d p (Coeff.R.arr0 i))) (eqRow pd k)))
  Jb := fun f jb k => PS.dmul (fun i => eval (fun j => if j < 3 then ((par j y0 : ℝ) : ℂ) else 0) (Coeff.R.arr i)) (jb k)
      + psSum 3 (fun l => PS.smul (if l < 3 then ((cB l : ℝ) : ℂ) else 0)
          (PS.dmul (fun i => eval (fun j => if j < 3 then ((par j y0 : ℝ) : ℂ) else 0) (d l (Coeff.R.arr i))) (f k)
            + PS.dmul (fun i => eval (fun j => if j < 3 then ((par j y0 : ℝ) : ℂ) else 0) (d l (Coeff.R.arr0 i))) (eqRow pd k)))
  Hn := fun f ja jb h k =>
    (Diff.val (applyOrder2 (modCar (K := ℂ))
        (rDOp (fun j => if j < 3 then ((par j y0 : ℝ) : ℂ) else 0) a b [("rT", (((sa 0 y0 : ℝ) : ℂ))), ("rL", (((sa 1 y0 : ℝ) : ℂ))), ("r0", (((sa 2 y0 : ℝ) : ℂ)))] [("rT", ((cB 0 : ℝ) : ℂ)), ("rL", ((cB 1 : ℝ) : ℂ)), ("r0", ((cB 2 : ℝ) : ℂ))] [("rT", ((c2 0 : ℝ) : ℂ)), ("rL", ((c2 1 : ℝ) : ℂ)), ("r0", ((c2 2 : ℝ) : ℂ))])
        (f k, eqRow pd k) [(a, (ja k, 0)), (b, (jb k, 0))] [((a, b), (h k, 0))]) (a, b)).1
  first := by
    intro s Jb0 h k
    let env : ℝ → Nat → ℂ := fun y j => if j < 3 then ((par j y : ℝ) : ℂ) else 0
    let c : Nat → ℂ := fun j => if j < 3 then ((cB j : ℝ) : ℂ) else 0
    have henv : ∀ j, HasDerivAt (fun y => env y j) (c j) y0 := by
      intro j
      by_cases hj : j < 3
      · have he : (fun y => env y j) = fun y => ((par j y : ℝ) : ℂ) := by
          funext y; simp only [env, if_pos hj]
        rw [he]; simp only [c, if_pos hj]; exact (hpar j hj).ofReal_comp
      · have he : (fun y => env y j) = fun _ => (0 : ℂ) := by
          funext y; simp only [env, if_neg hj]
        rw [he]; simp only [c, if_neg hj]; exact hasDerivAt_const y0 (0 : ℂ)
    have hc : ∀ j, 3 ≤ j → c j = 0 := by
      intro j hj
      have : ¬ j < 3 := by omega
      simp only [c, if_neg this]
    have hcr : ∀ j, (starRingEnd ℂ) (c j) = c j := by
      intro j
      by_cases hj : j < 3
      · simp only [c, if_pos hj]; exact Complex.conj_ofReal _
      · simp only [c, if_neg hj]; simp
    exact scal_step Coeff.R.arr Coeff.R.arr0 env c 3 y0 henv hc hcr (fun i => R_defined _ i)
      (eqRow pd k) (fun y => s y k) (Jb0 k) (h k)
  mixed := by
    intro s Ja Jb0 H h1 h2 k
    exact R_mixed_partial_exact_nl par sa cB c2 y0 a b hab hpar hsa (eqRow pd k)
      (fun y => s y k) (fun y => Ja y k) (Jb0 k) (H k) (h1 k) (h2 k)

end program

end EpgVerif.Props.C03
