import EpgVerif.Props.C09
import EpgVerif.Tie.PuritySites
open EpgVerif.Props.C09
#print axioms step_version
#print axioms version_after_history
#print axioms untouched_without_inplace
#print axioms fresh_result
#print axioms readonly_inplace_copies
#print axioms EpgVerif.Tie.PuritySites.sites_as_modelled
