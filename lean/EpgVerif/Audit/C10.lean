import EpgVerif.Props.C10
import EpgVerif.Tie.ApplySites
import EpgVerif.Props.C10Second
open EpgVerif.Props.C10
#print axioms flatten_spec
#print axioms multi_attrs_sums
#print axioms combine_apply
#print axioms combine_assoc
#print axioms combine_partials_first_order
#print axioms EpgVerif.Tie.ApplySites.sites_as_modelled
#print axioms applyOrder2_hom
#print axioms applyOrder2_hom'
#print axioms combine_partials_second_order
