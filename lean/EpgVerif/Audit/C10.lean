import EpgVerif.Props.C10
import EpgVerif.Tie.ApplySites
import EpgVerif.Props.C10Second
import EpgVerif.Props.C10Tuple
open EpgVerif.Props.C10
#print axioms flatten_spec
#print axioms multi_attrs_sums
#print axioms combine_apply
#print axioms combine_assoc
#print axioms combine_partials_first_order
#print axioms EpgVerif.Tie.ApplySites.sites_as_modelled
#print axioms applyOrder2_hom
#print axioms applyOrder2_hom'
#print axioms combine_partials_second_order
#print axioms EpgVerif.Props.C10Tuple.den_oadd
#print axioms EpgVerif.Props.C10Tuple.den_omul
#print axioms EpgVerif.Props.C10Tuple.oadd_keeps
#print axioms EpgVerif.Props.C10Tuple.oadd_comm
#print axioms EpgVerif.Props.C10Tuple.oadd_assoc
#print axioms EpgVerif.Props.C10Tuple.add_den
#print axioms EpgVerif.Props.C10Tuple.mul_den
#print axioms EpgVerif.Props.C10Tuple.add_defined
#print axioms EpgVerif.Props.C10Tuple.foldl_oadd_den
