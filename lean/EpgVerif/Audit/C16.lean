import EpgVerif.Props.C16
import EpgVerif.Tie.CollSites
open EpgVerif.Props.C16
#print axioms inv_init
#print axioms inv_set
#print axioms inv_pop
#print axioms inv_resize
#print axioms inv_expand
#print axioms inv_reduce
#print axioms inv_broadcast
#print axioms inv_step
#print axioms inv_reachable
#print axioms get_shape_spec
#print axioms resizeVals_length
#print axioms resizeVals_crop
#print axioms resizeVals_pad
#print axioms resize_centre_odd
#print axioms EpgVerif.Tie.CollSites.sites_as_modelled
