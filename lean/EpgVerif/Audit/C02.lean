import EpgVerif.Props.C02
import EpgVerif.Props.C02Run
import EpgVerif.Tie.DiffSites
import EpgVerif.Props.C02Fam
import EpgVerif.Props.C02FamR
open EpgVerif.Props.C02
#print axioms coeff_hasDerivAt
#print axioms relaxation_defined
#print axioms rotation_defined
#print axioms order1_refines_jet
#print axioms undeclared_variable
#print axioms coeff_linear
#print axioms EpgVerif.Ex.hasDerivAt_eval
#print axioms EpgVerif.Ex.hasDerivAt_eval_total
#print axioms mat_step
#print axioms scal_step
#print axioms T_partial_exact
#print axioms E_partial_exact
#print axioms step_invariant
#print axioms jacobian_exact
#print axioms famT
#print axioms famE
#print axioms EpgVerif.Tie.DiffSites.sites_as_modelled
#print axioms phi_defined
#print axioms precession_defined
#print axioms famPhi
#print axioms famP
#print axioms famR
#print axioms famR0
