import EpgVerif.Props.C20
import EpgVerif.Tie.GuardSites
open EpgVerif.Props.C20
#print axioms anyNegative_iff
#print axioms anyNegative_position
#print axioms zero_duration_accepted
#print axioms zeroShift_iff
#print axioms badNcomp_iff
#print axioms noGrid_iff
#print axioms noGrid_sm_precedence
#print axioms badStatesShape_iff
#print axioms badSymmetry_iff
#print axioms badScalarShape_iff
#print axioms badScalarCoeff_iff
#print axioms badMatrixShape_iff
#print axioms notBroadcastable_iff
#print axioms badKinetic_iff
#print axioms notConserving_iff
#print axioms badDiffusion_vector
#print axioms badDiffusion_matrix
#print axioms badDecl_iff
#print axioms expandAll_mem
#print axioms expandAll_symm
#print axioms order2_true_never_rejected
#print axioms expandAll_diagonal
#print axioms badSequence_iff
#print axioms badSeqVars_iff
#print axioms pulseTooLarge_iff
#print axioms EpgVerif.Tie.GuardSites.guards_as_modelled
