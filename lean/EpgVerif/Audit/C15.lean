import EpgVerif.Props.C15
import EpgVerif.Tie.PhysSites
import EpgVerif.Props.C15Box3
open EpgVerif.Props.C15
#print axioms box_factor
#print axioms box_is_average
#print axioms imaging_point
#print axioms imaging_box
#print axioms box_voxel_is_voxel_average
#print axioms modulation_term
#print axioms imaging_point_is_synth
#print axioms point_voxel_is_isochromat
#print axioms EpgVerif.Props.C04.finsum_eq_list_sum
#print axioms EpgVerif.Props.C04.nodup_run
#print axioms EpgVerif.Tie.PhysSites.sites_as_modelled
#print axioms box3_is_average
