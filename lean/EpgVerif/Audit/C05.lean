import EpgVerif.Props.C05
import EpgVerif.Props.C05Path
import EpgVerif.Tie.PhysSites
import EpgVerif.Props.C05Att
open EpgVerif.Props.C05
#print axioms ramp_integral
#print axioms bmatRamp_is_integral
#print axioms bmatConst_is_integral
#print axioms bmatRamp_no_change
#print axioms scalar_is_isotropic
#print axioms zero_wavenumber_unattenuated
#print axioms att_mul
#print axioms const_intervals_add
#print axioms get_diffuse
#print axioms EpgVerif.Tie.Diffusion.bmat3_const_tie
#print axioms EpgVerif.Tie.Diffusion.bmat3_ramp_tie
#print axioms EpgVerif.Tie.Diffusion.bmat3_ramp_kd0_tie
#print axioms EpgVerif.Tie.Diffusion.bmat1_tie
#print axioms EpgVerif.Tie.Diffusion.att_scalar_tie
#print axioms EpgVerif.Tie.Diffusion.att_tensor_tie
#print axioms EpgVerif.Tie.PhysSites.sites_as_modelled
#print axioms prod_map_sum_sections
#print axioms ptLin_eq_sum
#print axioms pathway_expansion
#print axioms diag_comp
#print axioms diffuse_is_diag
#print axioms EpgVerif.Props.C05.att_zero
#print axioms EpgVerif.Props.C05.att_pathway
