import EpgVerif.Props.C01
import EpgVerif.Gen.TieTOp
import EpgVerif.Gen.TiePhiOp
import EpgVerif.Gen.TieEOp
import EpgVerif.Gen.TiePOp
import EpgVerif.Gen.TieROp
import EpgVerif.Tie.ApplySites
open EpgVerif.Props.C01
#print axioms synth_shift
#print axioms step
#print axioms run_is_bloch_ensemble
#print axioms rel_init
#print axioms T_is_cartesian_rotation
#print axioms relaxed_formula
#print axioms E_solves_bloch
#print axioms EpgVerif.Tie.ApplySites.sites_as_modelled
