import EpgVerif.Props.C14
import EpgVerif.Tie.ShiftSites
open EpgVerif.Props.C14
#print axioms q_rotation
#print axioms T_isometry
#print axioms Phi_isometry
#print axioms P_isometry
#print axioms S_isometry
#print axioms E_contracts_deviation
#print axioms spoiler_contracts
#print axioms normSq_eq_code_norm
#print axioms energy_shiftF
#print axioms EpgVerif.Tie.ShiftSites.sites_as_modelled
