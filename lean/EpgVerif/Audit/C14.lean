import EpgVerif.Props.C14
import EpgVerif.Props.C14Bound
import EpgVerif.Props.C14Parseval
import EpgVerif.Tie.ShiftSites
import EpgVerif.Props.C14Tensor
import EpgVerif.Props.C14Cap
open EpgVerif.Props.C14
#print axioms q_rotation
#print axioms T_isometry
#print axioms Phi_isometry
#print axioms P_isometry
#print axioms S_isometry
#print axioms E_contracts_deviation
#print axioms spoiler_contracts
#print axioms normSq_eq_code_norm
#print axioms energy_shiftF
#print axioms EpgVerif.Tie.ShiftSites.sites_as_modelled
#print axioms normSq_convex
#print axioms E_energy_pointwise
#print axioms E_keeps_bound
#print axioms E_negative_time_amplifies
#print axioms bounded_run
#print axioms F0_le_norm
#print axioms signal_le_PD
#print axioms pointOp_energy
#print axioms energy_affine_le
#print axioms finv_step
#print axioms nd_signal_le_PD
#print axioms get_run
#print axioms table_signal_le_PD
#print axioms attScalar_le_one
#print axioms diffusion_is_bounded_step
#print axioms parseval_finset
#print axioms norm_is_ensemble_rms
#print axioms norm_is_bloch_ensemble_rms
#print axioms attTensor_real
#print axioms tensor_const_nonneg
#print axioms tensor_ramp_nonneg
#print axioms tensor_diffusion_is_bounded_step
#print axioms finv_cap
#print axioms capped_signal_le_PD
#print axioms finv_mask
#print axioms pruned_signal_le_PD
