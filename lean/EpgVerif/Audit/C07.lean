import EpgVerif.Props.C07
open EpgVerif.Props.C07
#print axioms broadcast2_comm
#print axioms broadcast2_self
#print axioms broadcast2_spec
#print axioms broadcast2_none_iff
#print axioms insert_axes_realises_append
#print axioms setAxes_places_axis
