import EpgVerif.Props.C07
import EpgVerif.Props.C07Axes
import EpgVerif.Tie.ApplySites
open EpgVerif.Props.C07
#print axioms broadcast2_comm
#print axioms broadcast2_self
#print axioms broadcast2_spec
#print axioms broadcast2_none_iff
#print axioms insert_axes_realises_append
#print axioms setAxes_places_axis
#print axioms EpgVerif.Tie.ApplySites.sites_as_modelled
#print axioms EpgVerif.Props.C07Axes.placeDims_range
#print axioms EpgVerif.Props.C07Axes.expandDims_range
#print axioms EpgVerif.Props.C07Axes.setAxesFull_int
#print axioms EpgVerif.Props.C07Axes.setAxesFull_int_nobatch
