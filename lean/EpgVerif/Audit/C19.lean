import EpgVerif.Props.C19
open EpgVerif.Props.C19
#print axioms state_unaffected
#print axioms run_state_unaffected
#print axioms column_independent
#print axioms rename_single
