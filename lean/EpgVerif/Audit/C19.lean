import EpgVerif.Props.C19
import EpgVerif.Tie.DiffSites
open EpgVerif.Props.C19
#print axioms state_unaffected
#print axioms run_state_unaffected
#print axioms column_independent
#print axioms rename_single
#print axioms EpgVerif.Tie.DiffSites.sites_as_modelled
