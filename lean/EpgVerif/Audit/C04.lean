import EpgVerif.Props.C04
import EpgVerif.Tie.ShiftSites
open EpgVerif.Props.C04
#print axioms get_point
#print axioms get_shift
#print axioms wfn_point
#print axioms wfn_shift
#print axioms synth_shiftF
#print axioms step
#print axioms nd_is_bloch
#print axioms wfn_init
#print axioms posChar_character
#print axioms position_is_bloch
#print axioms backend_shift_agree
#print axioms backend_matrix_agree
#print axioms EpgVerif.Tie.ShiftSites.sites_as_modelled
