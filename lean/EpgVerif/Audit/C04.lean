import EpgVerif.Props.C04
import EpgVerif.Tie.ShiftSites
import EpgVerif.Props.C04Multi
import EpgVerif.Props.C04Grid
open EpgVerif.Props.C04
#print axioms get_point
#print axioms get_shift
#print axioms wfn_point
#print axioms wfn_shift
#print axioms synth_shiftF
#print axioms step
#print axioms nd_is_bloch
#print axioms wfn_init
#print axioms posChar_character
#print axioms position_is_bloch
#print axioms backend_shift_agree
#print axioms backend_matrix_agree
#print axioms EpgVerif.Tie.ShiftSites.sites_as_modelled
#print axioms EpgVerif.Props.C04.rep_shiftMT
#print axioms EpgVerif.Props.C04.rep_ptMT
#print axioms EpgVerif.Props.C04.signal_is_sum_of_zero_slots
#print axioms EpgVerif.Props.C04.rep_runMT
#print axioms EpgVerif.Props.C04Grid.getGrid_length
#print axioms EpgVerif.Props.C04Grid.getGrid_given
#print axioms EpgVerif.Props.C04Grid.getGrid_further
#print axioms EpgVerif.Props.C04Grid.getGrid_scalar
#print axioms EpgVerif.Props.C04Grid.getGrid_full
#print axioms EpgVerif.Props.C04Grid.getGrid_idem
#print axioms EpgVerif.Props.C04Grid.appendBatchAxes_length
#print axioms EpgVerif.Props.C04Grid.appendBatchAxes_last
#print axioms EpgVerif.Props.C04Grid.appendBatchAxes_lead
