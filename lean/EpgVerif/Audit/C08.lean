import EpgVerif.Props.C08
import EpgVerif.Tie.ApplySites
import EpgVerif.Props.C04
import EpgVerif.Props.C13Cap
import EpgVerif.Props.C08Merge
import EpgVerif.Tie.ShiftSites
open EpgVerif.Props.C08
#print axioms wf_pointwise
#print axioms wf_matApply
#print axioms wf_scalApply
#print axioms wf_shift1d
#print axioms coeffT_compat
#print axioms coeffPhi_compat
#print axioms coeffE_compat
#print axioms coeffP_compat
#print axioms coeffR_compat
#print axioms wf_applyOp
#print axioms wf_run
#print axioms only_PD_changes_equilibrium
#print axioms wf_init
#print axioms EpgVerif.Tie.ApplySites.sites_as_modelled
#print axioms EpgVerif.Props.C04.wfn_init
#print axioms EpgVerif.Props.C04.wfn_point
#print axioms EpgVerif.Props.C04.wfn_shift
#print axioms EpgVerif.Props.C13.wfn_capShift
#print axioms EpgVerif.Props.C13.get_capRun
#print axioms merge_keeps_mirror
#print axioms merge_wellformed
#print axioms merge_centre_real
#print axioms cellIndex_odd
#print axioms EpgVerif.Tie.ShiftSites.sites_as_modelled
