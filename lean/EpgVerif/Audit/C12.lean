import EpgVerif.Props.C12
open EpgVerif.Props.C12
#print axioms simulate_length
#print axioms simulate_times
#print axioms first_time_is_prefix_sum
#print axioms first_entry_value
#print axioms simulate_after_first
#print axioms modify_times
#print axioms modify_run
#print axioms modifyItems_is_modify
#print axioms att_scales_flip_angle
