import EpgVerif.Props.C12
import EpgVerif.Tie.SimSites
import EpgVerif.Tie.Modify
open EpgVerif.Props.C12
#print axioms simulate_length
#print axioms simulate_times
#print axioms first_time_is_prefix_sum
#print axioms first_entry_value
#print axioms simulate_after_first
#print axioms modify_times
#print axioms modify_run
#print axioms modifyItems_is_modify
#print axioms att_scales_flip_angle
#print axioms EpgVerif.Tie.SimSites.sites_as_modelled
#print axioms EpgVerif.Tie.Modify.kinds
#print axioms EpgVerif.Tie.Modify.durations
#print axioms EpgVerif.Tie.Modify.full_tie
#print axioms EpgVerif.Tie.Modify.gonly_tie
#print axioms EpgVerif.Tie.Modify.t1only_tie
#print axioms EpgVerif.Tie.Modify.zerodur_tie
#print axioms EpgVerif.Tie.Modify.adc_phasor_tie
