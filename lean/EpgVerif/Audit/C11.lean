import EpgVerif.Props.C11
import EpgVerif.Tie.SeqSites
import EpgVerif.Props.C11Run
import EpgVerif.Props.C11Bind
open EpgVerif.Props.C11
#print axioms expression_derive_exact
#print axioms subst_eval
#print axioms virtual_table_wellbound
#print axioms EpgVerif.Tie.mathTable_ok
#print axioms EpgVerif.SE.derive_correct
#print axioms EpgVerif.Tie.SeqSites.sites_as_modelled
#print axioms sequence_jacobian_exact
#print axioms virtT
#print axioms virtE
#print axioms EpgVerif.Props.C11.lookupKw_perm
#print axioms EpgVerif.Props.C11.bindPos_perm
#print axioms EpgVerif.Props.C11.bindPos_full
#print axioms EpgVerif.Props.C11.bindPos_prefix
