import EpgVerif.Props.C11
open EpgVerif.Props.C11
#print axioms expression_derive_exact
#print axioms subst_eval
#print axioms virtual_table_wellbound
#print axioms EpgVerif.Tie.mathTable_ok
#print axioms EpgVerif.SE.derive_correct
