import EpgVerif.Props.C03
import EpgVerif.Tie.DiffSites
import EpgVerif.Props.C03Run
open EpgVerif.Props.C03
#print axioms order2_accumulates_every_term_once
#print axioms hessian_symm
#print axioms termsB_single
#print axioms EpgVerif.Diff.val_mirror_swapped
#print axioms EpgVerif.Tie.DiffSites.sites_as_modelled
#print axioms EpgVerif.Ex.defined_d
#print axioms mixed_step
#print axioms twoVar_value
#print axioms T_mixed_symm
#print axioms T_mixed_partial_exact
#print axioms mixed_step_nl
#print axioms T_mixed_partial_exact_nl
