import EpgVerif.Props.C03
import EpgVerif.Tie.DiffSites
import EpgVerif.Props.C03Run
import EpgVerif.Props.C03Gen
import EpgVerif.Props.C03E
import EpgVerif.Props.C03Prog
import EpgVerif.Props.C03Diag
import EpgVerif.Props.C03EDiag
import EpgVerif.Props.C03R
import EpgVerif.Props.C03PRDiag
import EpgVerif.Props.C03Phi
import EpgVerif.Props.C03P
open EpgVerif.Props.C03
#print axioms order2_accumulates_every_term_once
#print axioms hessian_symm
#print axioms termsB_single
#print axioms EpgVerif.Diff.val_mirror_swapped
#print axioms EpgVerif.Tie.DiffSites.sites_as_modelled
#print axioms EpgVerif.Ex.defined_d
#print axioms mixed_step
#print axioms twoVar_value
#print axioms T_mixed_symm
#print axioms T_mixed_partial_exact
#print axioms mixed_step_nl
#print axioms T_mixed_partial_exact_nl
#print axioms pairVar_value
#print axioms scal_mixed_step
#print axioms E_mixed_symm
#print axioms E_mixed_zero
#print axioms E_mixed_partial_exact_nl
#print axioms hessian_exact
#print axioms stepT
#print axioms stepE
#print axioms stepShift
#print axioms diagVar_value
#print axioms T_diag_partial_exact_nl
#print axioms hessian_diag_exact
#print axioms step1T
#print axioms step1Shift
#print axioms E_diag_partial_exact_nl
#print axioms Phi_mixed_partial_exact_nl
#print axioms R_mixed_zero
#print axioms R_mixed_partial_exact_nl
#print axioms P_mixed_symm
#print axioms P_mixed_partial_exact_nl
#print axioms P_diag_partial_exact_nl
#print axioms R_diag_partial_exact_nl
#print axioms Phi_diag_partial_exact_nl
