import EpgVerif.Props.C03
import EpgVerif.Tie.DiffSites
open EpgVerif.Props.C03
#print axioms order2_accumulates_every_term_once
#print axioms hessian_symm
#print axioms termsB_single
#print axioms EpgVerif.Diff.val_mirror_swapped
#print axioms EpgVerif.Tie.DiffSites.sites_as_modelled
