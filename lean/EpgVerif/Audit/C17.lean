import EpgVerif.Props.C17
open EpgVerif.Props.C17
#print axioms crlb_signatures
#print axioms crlb_split_signatures
#print axioms confint_signatures
#print axioms fisher_eq_re_JhJ
#print axioms fisher_symm
#print axioms inverse_derivative
#print axioms crlb_gradient_exact
#print axioms mleHessian_zero_residual
