import EpgVerif.Props.C13
import EpgVerif.Props.C13Prune
import EpgVerif.Tie.ShiftSites
open EpgVerif.Props.C13
#print axioms inv_step
#print axioms inv_run
#print axioms trunc_drops_beyond
#print axioms truncation_horizon
#print axioms acquisitions_exact_within_horizon
#print axioms merge_preserves_sum
#print axioms merge_error_bound
#print axioms EpgVerif.Tie.ShiftSites.sites_as_modelled
#print axioms prune_decomposition
#print axioms lrun_energy
#print axioms prune_error
#print axioms energy_removed_le
#print axioms prune_error_eps
#print axioms prune_disabled_exact
#print axioms removed_le_present
