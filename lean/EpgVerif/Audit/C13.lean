import EpgVerif.Props.C13
import EpgVerif.Tie.ShiftSites
open EpgVerif.Props.C13
#print axioms inv_step
#print axioms inv_run
#print axioms trunc_drops_beyond
#print axioms truncation_horizon
#print axioms acquisitions_exact_within_horizon
#print axioms merge_preserves_sum
#print axioms merge_error_bound
#print axioms EpgVerif.Tie.ShiftSites.sites_as_modelled
