import EpgVerif.Props.C13
import EpgVerif.Props.C13Prune
import EpgVerif.Tie.ShiftSites
import EpgVerif.Props.C13Cap
open EpgVerif.Props.C13
#print axioms inv_step
#print axioms inv_run
#print axioms trunc_drops_beyond
#print axioms truncation_horizon
#print axioms acquisitions_exact_within_horizon
#print axioms merge_preserves_sum
#print axioms merge_error_bound
#print axioms EpgVerif.Tie.ShiftSites.sites_as_modelled
#print axioms prune_decomposition
#print axioms lrun_energy
#print axioms prune_error
#print axioms energy_removed_le
#print axioms prune_error_eps
#print axioms prune_disabled_exact
#print axioms removed_le_present
#print axioms nd_cap_horizon
#print axioms nd_acquisition_exact
#print axioms nd_cap_drops
#print axioms nd_cap_stays_dropped
#print axioms inv2_step
#print axioms nd_cap_horizon_sharp
#print axioms nd_acquisition_exact_sharp
#print axioms nd_cap_bound
#print axioms time_shift_free
#print axioms get_capShift
#print axioms wfn_capShift
#print axioms get_capRun
#print axioms table_cap_horizon
#print axioms table_cap_bound
