import EpgVerif.Props.C13
open EpgVerif.Props.C13
#print axioms inv_step
#print axioms inv_run
#print axioms trunc_drops_beyond
#print axioms truncation_horizon
#print axioms acquisitions_exact_within_horizon
