import EpgVerif.Props.C18
import EpgVerif.Tie.PhysSites
import EpgVerif.Tie.RFPulse
open EpgVerif.Props.C18
#print axioms pulse_is_ordered_product
#print axioms pulse_with_relaxation_step
#print axioms offset_general
#print axioms pulse_offset
#print axioms rfpulse_offset
#print axioms constant_phase_pulse
#print axioms estimate_rf_hits_target
#print axioms estimate_alpha_reads_angle
#print axioms estimate_roundtrip
#print axioms scalar_durations_sum
#print axioms pulseCore_duration
#print axioms modify_duration
#print axioms EpgVerif.T_same_axis
#print axioms EpgVerif.T_offset
#print axioms EpgVerif.T_phase_180
#print axioms EpgVerif.T_equilibrium_z
#print axioms EpgVerif.Tie.PhysSites.sites_as_modelled
#print axioms EpgVerif.Tie.RFPulse.pulse_tie
#print axioms EpgVerif.Tie.RFPulse.phis_are_sample_phases
#print axioms EpgVerif.Tie.RFPulse.frame_ops_are_Phi
