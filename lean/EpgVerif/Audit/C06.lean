import EpgVerif.Props.C06
import EpgVerif.Tie.PhysSites
import EpgVerif.Tie.Exchange
open EpgVerif.Props.C06
#print axioms evolve_fixed
#print axioms evolve_zero
#print axioms evolve_semigroup
#print axioms evolve_ode
#print axioms zero_exchange_independent
#print axioms vecMul_exp_of_vecMul_eq_zero
#print axioms total_conserved
#print axioms equilibrium_in_kernel
#print axioms applyX_components
#print axioms applyX_is_evolve
#print axioms EpgVerif.Tie.PhysSites.sites_as_modelled
#print axioms EpgVerif.Tie.Exchange.genT2_tie
#print axioms EpgVerif.Tie.Exchange.genL2_tie
#print axioms EpgVerif.Tie.Exchange.genT3_tie
#print axioms EpgVerif.Tie.Exchange.genL3_tie
