def hello := "world"
