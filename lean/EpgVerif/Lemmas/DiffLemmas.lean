import Mathlib.Algebra.Module.Basic
import Mathlib.Algebra.BigOperators.Group.List.Basic
import Mathlib.Tactic.Ring
import EpgVerif.Model.Diff
/-
  Value-level semantics of the dictionary bookkeeping of `Model/Diff.lean` over any module
  carrier: what `combine_partials`, `accumulate`, `_apply_order1` leave under each key.
-/
namespace EpgVerif.Diff

section dict
variable {κ C : Type} [DecidableEq κ]

theorem lookup_nil (k : κ) : lookup ([] : List (κ × C)) k = none := rfl

theorem lookup_cons (e : κ × C) (d : List (κ × C)) (k : κ) :
    lookup (e :: d) k = if e.1 = k then some e.2 else lookup d k := by
  unfold lookup
  by_cases h : e.1 = k <;> simp [List.find?, h]

theorem hasKey_iff_lookup (d : List (κ × C)) (k : κ) : hasKey d k = (lookup d k).isSome := by
  induction d with
  | nil => rfl
  | cons e d ih =>
    rw [lookup_cons]
    by_cases h : e.1 = k
    · simp [hasKey, h]
    · simp only [hasKey, List.any_cons, h, decide_false, Bool.false_or, if_false] at *
      exact ih

theorem lookup_append_single (d : List (κ × C)) (k k' : κ) (v : C) :
    lookup (d ++ [(k, v)]) k' = (lookup d k').orElse (fun _ => if k = k' then some v else none) := by
  induction d with
  | nil => simp [lookup_cons, lookup_nil]
  | cons e d ih =>
    simp only [List.cons_append, lookup_cons]
    by_cases h : e.1 = k' <;> simp [h, ih]

theorem lookup_map_replace (d : List (κ × C)) (k k' : κ) (v : C) :
    lookup (d.map (fun e => if e.1 = k then (k, v) else e)) k'
      = if k' = k then (lookup d k).map (fun _ => v) else lookup d k' := by
  induction d with
  | nil => by_cases h : k' = k <;> simp [lookup_nil, h]
  | cons e d ih =>
    simp only [List.map_cons, lookup_cons]
    by_cases he : e.1 = k
    · by_cases hk : k' = k
      · subst hk; simp [he]
      · have : ¬ k = k' := fun h => hk h.symm
        have : ¬ e.1 = k' := by rw [he]; exact this
        simp [he, hk, ih, *]
    · by_cases hk : k' = k
      · subst hk; simp [he, ih]
      · simp only [he, if_false, ih, hk]

theorem lookup_insert (d : List (κ × C)) (k k' : κ) (v : C) :
    lookup (insert d k v) k' = if k' = k then some v else lookup d k' := by
  unfold insert
  by_cases h : hasKey d k = true
  · simp only [h, if_true, lookup_map_replace]
    rw [hasKey_iff_lookup] at h
    by_cases hk : k' = k
    · simp only [hk, if_true]
      cases hl : lookup d k with
      | none => simp [hl] at h
      | some x => simp
    · simp [hk]
  · have hn : lookup d k = none := by
      rw [hasKey_iff_lookup] at h
      cases hl : lookup d k with
      | none => rfl
      | some x => simp [hl] at h
    have hf : hasKey d k = false := by simpa using h
    simp only [hf, Bool.false_eq_true, if_false]
    rw [lookup_append_single]
    by_cases hk : k' = k
    · subst hk; simp [hn]
    · have : ¬ k = k' := fun h => hk h.symm
      cases hl : lookup d k' <;> simp [hk, this]

end dict

section values
variable {κ K C : Type} [DecidableEq κ] [Semiring K] [AddCommMonoid C] [Module K C]

/-- value stored under a key, `0` when absent (an absent partial *is* the zero derivative) -/
def val (d : List (κ × C)) (k : κ) : C := (lookup d k).getD 0

/-- the module structure as a carrier -/
def modCar : Carrier K C := ⟨(· + ·), (· • ·)⟩

theorem val_insert (d : List (κ × C)) (k k' : κ) (v : C) :
    val (insert d k v) k' = if k' = k then v else val d k' := by
  unfold val; rw [lookup_insert]; by_cases h : k' = k <;> simp [h]

theorem val_addTo (d : List (κ × C)) (k k' : κ) (v : C) :
    val (addTo (· + ·) d k v) k' = val d k' + if k' = k then v else 0 := by
  unfold addTo
  cases hl : lookup d k with
  | none =>
    simp only [val_insert]
    by_cases h : k' = k
    · subst h; simp [val, hl]
    · simp [h]
  | some old =>
    simp only [val_insert]
    by_cases h : k' = k
    · subst h; simp [val, hl]
    · simp [h]

/-- sum of the values of all entries with key `k` -/
def tot (l : List (κ × C)) (k : κ) : C := ((l.filter (fun e => e.1 = k)).map (·.2)).sum

theorem tot_nil (k : κ) : tot ([] : List (κ × C)) k = 0 := rfl
theorem tot_cons (e : κ × C) (l : List (κ × C)) (k : κ) :
    tot (e :: l) k = (if e.1 = k then e.2 else 0) + tot l k := by
  unfold tot; by_cases h : e.1 = k <;> simp [List.filter, h]

theorem val_foldl_addTo (l : List (κ × C)) (d : List (κ × C)) (k : κ) :
    val (l.foldl (fun acc e => addTo (· + ·) acc e.1 e.2) d) k = val d k + tot l k := by
  induction l generalizing d with
  | nil => simp [tot_nil]
  | cons e l ih =>
    simp only [List.foldl_cons, ih, val_addTo, tot_cons]
    by_cases h : e.1 = k
    · have : k = e.1 := h.symm
      simp [h, add_assoc]
    · have : ¬ k = e.1 := fun h' => h h'.symm
      simp [h, this]

/-- `accumulate`: every dictionary adds what it holds under the key -/
theorem val_accumulate (d : List (κ × C)) (ds : List (List (κ × C))) (k : κ) :
    val (accumulate (modCar (K := K)) d ds) k = val d k + (ds.map (fun o => tot o k)).sum := by
  unfold accumulate
  induction ds generalizing d with
  | nil => simp
  | cons o ds ih =>
    simp only [List.foldl_cons, List.map_cons, List.sum_cons]
    rw [ih]
    have : (o.foldl (fun acc e => addTo (modCar (K := K) (C := C)).add acc e.1 e.2) d)
        = o.foldl (fun acc e => addTo (· + ·) acc e.1 e.2) d := rfl
    rw [this, val_foldl_addTo, add_assoc]

/-- a dictionary built by `map` over distinct keys: `tot = val` -/
theorem tot_eq_val_of_nodup (l : List (κ × C)) (h : (l.map (·.1)).Nodup) (k : κ) : tot l k = val l k := by
  induction l with
  | nil => rfl
  | cons e l ih =>
    rw [tot_cons]
    simp only [List.map_cons, List.nodup_cons] at h
    unfold val
    rw [lookup_cons]
    by_cases he : e.1 = k
    · subst he
      have : tot l e.1 = 0 := by
        unfold tot
        have : l.filter (fun x => x.1 = e.1) = [] := by
          rw [List.filter_eq_nil_iff]
          intro x hx
          simp only [decide_eq_true_eq]
          intro hx1
          exact h.1 (by rw [← hx1]; exact List.mem_map_of_mem hx)
        simp [this]
      simp [this]
    · simp only [he, if_false, zero_add]
      exact ih h.2

variable {π : Type} [DecidableEq π]

/-- contribution of one declared variable entry `(param ↦ coeff)` list -/
def contrib (partials : List (π × C)) (ps : List (π × K)) : C :=
  (ps.map (fun pc => pc.2 • val partials pc.1)).sum

private theorem inner_fold (partials : List (π × C)) (e : κ × List (π × K)) (k : κ) (d : List (κ × C)) :
    val (combineStep (modCar (K := K)) partials d e) k
      = val d k + if k = e.1 then contrib partials e.2 else 0 := by
  obtain ⟨v, ps⟩ := e
  unfold combineStep
  simp only
  induction ps generalizing d with
  | nil => simp [contrib]
  | cons pc ps ih =>
    simp only [List.foldl_cons]
    rw [ih]
    cases hl : lookup partials pc.1 with
    | none =>
      simp only [contrib, List.map_cons, List.sum_cons, val, hl, Option.getD_none, smul_zero, zero_add]
    | some part =>
      show val (addTo (· + ·) d v (pc.2 • part)) k + _ = _
      rw [val_addTo]
      by_cases h : k = v
      · simp [h, contrib, val, hl, add_assoc]
      · simp [h]

theorem val_combineFrom (vars : List (κ × List (π × K))) (partials : List (π × C)) (k : κ)
    (d : List (κ × C)) :
    val (vars.foldl (combineStep (modCar (K := K)) partials) d) k
      = val d k + ((vars.filter (fun e => e.1 = k)).map (fun e => contrib partials e.2)).sum := by
  induction vars generalizing d with
  | nil => simp
  | cons e vars ih =>
    simp only [List.foldl_cons]
    rw [ih, inner_fold, List.filter_cons]
    by_cases h : e.1 = k
    · subst h
      simp only [decide_true, if_true, List.map_cons, List.sum_cons, add_assoc]
    · have h' : ¬ k = e.1 := fun h'' => h h''.symm
      simp only [h, h', decide_false, if_false, add_zero, Bool.false_eq_true]

/-- `combine_partials`: under key `k`, the coefficient-weighted sum of the partials, over every
    declared entry for `k` (an absent partial counts as zero) -/
theorem val_combinePartials (vars : List (κ × List (π × K))) (partials : List (π × C)) (k : κ) :
    val (combinePartials (modCar (K := K)) vars partials) k
      = ((vars.filter (fun e => e.1 = k)).map (fun e => contrib partials e.2)).sum := by
  unfold combinePartials
  rw [val_combineFrom]
  simp [val, lookup_nil]

end values
end EpgVerif.Diff

namespace EpgVerif.Diff
section order1
variable {K C : Type} [Semiring K] [AddCommMonoid C] [Module K C]

theorem mem_dedup {κ : Type} [DecidableEq κ] (l : List κ) (x : κ) : x ∈ dedup l ↔ x ∈ l := by
  induction l with
  | nil => simp [dedup]
  | cons y l ih =>
    simp only [dedup, List.mem_cons, List.mem_filter, ih, decide_eq_true_eq]
    by_cases h : x = y <;> simp [h]

theorem nodup_dedup {κ : Type} [DecidableEq κ] (l : List κ) : (dedup l).Nodup := by
  induction l with
  | nil => simp [dedup]
  | cons y l ih =>
    simp only [dedup, List.nodup_cons, List.mem_filter, decide_eq_true_eq, ne_eq, not_true_eq_false,
      and_false, not_false_eq_true, true_and]
    exact ih.filter _

/-- table built from a key list: `val` is `f` on the keys, `0` elsewhere -/
theorem val_map_table {κ : Type} [DecidableEq κ] (l : List κ) (f : κ → C) (k : κ) :
    val (l.map (fun p => (p, f p))) k = if k ∈ l then f k else 0 := by
  induction l with
  | nil => simp [val, lookup_nil]
  | cons y l ih =>
    unfold val at *
    simp only [List.map_cons, lookup_cons, List.mem_cons]
    by_cases h : y = k
    · subst h; simp
    · have : ¬ k = y := fun h' => h h'.symm
      simp only [h, if_false, this, false_or]
      exact ih

theorem val_map_values {κ : Type} [DecidableEq κ] (d : List (κ × C)) (f : C → C) (hf : f 0 = 0) (k : κ) :
    val (d.map (fun e => (e.1, f e.2))) k = f (val d k) := by
  induction d with
  | nil => simp [val, lookup_nil, hf]
  | cons e d ih =>
    unfold val at *
    simp only [List.map_cons, lookup_cons]
    by_cases h : e.1 = k <;> simp [h, ih]

/-- the parameters an operator's declaration mentions all get their partial computed -/
theorem param_mem_parametersOrder1 (op : DOp K C) (e : Var × List (Param × K)) (he : e ∈ op.order1)
    (pc : Param × K) (hpc : pc ∈ e.2) : pc.1 ∈ parametersOrder1 op := by
  unfold parametersOrder1
  rw [mem_dedup]
  simp only [List.mem_flatMap, List.mem_map]
  exact ⟨e, he, pc, hpc, rfl⟩

section nodup
variable {κ : Type} [DecidableEq κ]

def KeysNodup (d : List (κ × C)) : Prop := (d.map (·.1)).Nodup

theorem keys_insert_of_hasKey (d : List (κ × C)) (k : κ) (v : C) :
    (d.map (fun e => if e.1 = k then (k, v) else e)).map (·.1) = d.map (·.1) := by
  induction d with
  | nil => rfl
  | cons e d ih =>
    simp only [List.map_cons, ih]
    by_cases h : e.1 = k <;> simp [h]

theorem keysNodup_insert (d : List (κ × C)) (h : KeysNodup d) (k : κ) (v : C) : KeysNodup (insert d k v) := by
  unfold insert KeysNodup
  by_cases hk : hasKey d k = true
  · simp only [hk, if_true, keys_insert_of_hasKey]; exact h
  · have hf : hasKey d k = false := by simpa using hk
    simp only [hf, Bool.false_eq_true, if_false, List.map_append, List.map_cons, List.map_nil]
    rw [List.nodup_append]
    refine ⟨h, by simp, ?_⟩
    intro a ha b hb
    simp only [List.mem_singleton] at hb
    subst hb
    intro hab
    subst hab
    simp only [hasKey, List.any_eq_false, decide_eq_true_eq] at hf
    simp only [List.mem_map] at ha
    obtain ⟨e, he, rfl⟩ := ha
    exact hf e he rfl

theorem keysNodup_addTo (add : C → C → C) (d : List (κ × C)) (h : KeysNodup d) (k : κ) (v : C) :
    KeysNodup (addTo add d k v) := by
  unfold addTo
  cases lookup d k <;> exact keysNodup_insert d h k _

theorem keysNodup_foldl_addTo (add : C → C → C) (l : List (κ × C)) (d : List (κ × C)) (h : KeysNodup d) :
    KeysNodup (l.foldl (fun acc e => addTo add acc e.1 e.2) d) := by
  induction l generalizing d with
  | nil => exact h
  | cons e l ih => exact ih _ (keysNodup_addTo add d h _ _)

variable {π : Type} [DecidableEq π]

theorem keysNodup_combineStep (partials : List (π × C)) (d : List (κ × C)) (h : KeysNodup d)
    (e : κ × List (π × K)) : KeysNodup (combineStep (modCar (K := K)) partials d e) := by
  obtain ⟨v, ps⟩ := e
  unfold combineStep
  simp only
  induction ps generalizing d with
  | nil => exact h
  | cons pc ps ih =>
    simp only [List.foldl_cons]
    apply ih
    cases lookup partials pc.1 with
    | none => exact h
    | some part => exact keysNodup_addTo _ d h _ _

theorem keysNodup_combinePartials (vars : List (κ × List (π × K))) (partials : List (π × C)) :
    KeysNodup (combinePartials (modCar (K := K)) vars partials) := by
  unfold combinePartials
  have gen : ∀ d : List (κ × C), KeysNodup d → KeysNodup (vars.foldl (combineStep (modCar (K := K)) partials) d) := by
    induction vars with
    | nil => intro d h; exact h
    | cons e vars ih => intro d h; exact ih _ (keysNodup_combineStep partials d h e)
  exact gen [] (by simp [KeysNodup])

theorem tot_eq_val (d : List (κ × C)) (h : KeysNodup d) (k : κ) : tot d k = val d k :=
  tot_eq_val_of_nodup d h k

end nodup

/-- **`_apply_order1`, value level**: the new partial for variable `v` is the operator applied to
    the previous partial plus, for every declared `(param ↦ coeff)` of `v`, `coeff • D_param s`.
    (`J1'[v] = L J1[v] + Σ_p (∂p/∂v) D_p s`, absent keys reading as zero.) -/
theorem val_applyOrder1 (op : DOp K C) (h0 : op.derive0 0 = 0) (s : C) (o1 : List (Var × C)) (v : Var) :
    val (applyOrder1 (modCar (K := K)) op s o1) v
      = op.derive0 (val o1 v)
        + ((op.order1.filter (fun e => e.1 = v)).map
            (fun e => (e.2.map (fun pc => pc.2 • op.derive1 pc.1 s)).sum)).sum := by
  unfold applyOrder1
  simp only
  rw [val_accumulate, val_map_values _ _ h0]
  simp only [List.map_cons, List.map_nil, List.sum_cons, List.sum_nil, add_zero]
  congr 1
  rw [tot_eq_val _ (keysNodup_combinePartials _ _), val_combinePartials]
  congr 1
  apply List.map_congr_left
  intro e he
  unfold contrib
  congr 1
  apply List.map_congr_left
  intro pc hpc
  have hmem := param_mem_parametersOrder1 op e (List.mem_of_mem_filter he) pc hpc
  rw [val_map_table]
  simp [hmem]
end order1
end EpgVerif.Diff

namespace EpgVerif.Diff
section order2
variable {K C : Type} [Semiring K] [AddCommMonoid C] [Module K C]
variable {κ : Type} [DecidableEq κ]

theorem tot_append (l m : List (κ × C)) (k : κ) : tot (l ++ m) k = tot l k + tot m k := by
  unfold tot; simp [List.filter_append]

theorem tot_flatMap {α : Type} (l : List α) (f : α → List (κ × C)) (k : κ) :
    tot (l.flatMap f) k = (l.map (fun x => tot (f x) k)).sum := by
  induction l with
  | nil => rfl
  | cons x l ih => simp [List.flatMap_cons, tot_append, ih]

theorem tot_map_const_key {α : Type} (l : List α) (key : κ) (g : α → C) (k : κ) :
    tot (l.map (fun x => (key, g x))) k = if key = k then (l.map g).sum else 0 := by
  induction l with
  | nil => simp [tot_nil]
  | cons x l ih =>
    simp only [List.map_cons, tot_cons, ih, List.sum_cons]
    by_cases h : key = k <;> simp [h]

/-- keys of a dictionary all satisfy a predicate -/
def KeysAll (P : κ → Prop) (d : List (κ × C)) : Prop := ∀ e ∈ d, P e.1

theorem keysAll_insert (P : κ → Prop) (d : List (κ × C)) (h : KeysAll P d) (k : κ) (hk : P k) (v : C) :
    KeysAll P (insert d k v) := by
  unfold insert
  by_cases hh : hasKey d k = true
  · simp only [hh, if_true]
    intro e he
    simp only [List.mem_map] at he
    obtain ⟨x, hx, rfl⟩ := he
    by_cases hx1 : x.1 = k
    · simp [hx1, hk]
    · simp only [hx1, if_false]; exact h x hx
  · have hf : hasKey d k = false := by simpa using hh
    simp only [hf, Bool.false_eq_true, if_false]
    intro e he
    simp only [List.mem_append, List.mem_singleton] at he
    rcases he with he | rfl
    · exact h e he
    · exact hk

theorem keysAll_addTo (P : κ → Prop) (add : C → C → C) (d : List (κ × C)) (h : KeysAll P d) (k : κ)
    (hk : P k) (v : C) : KeysAll P (addTo add d k v) := by
  unfold addTo; cases lookup d k <;> exact keysAll_insert P d h k hk _

theorem keysAll_foldl_addTo (P : κ → Prop) (add : C → C → C) (l : List (κ × C)) (hl : KeysAll P l)
    (d : List (κ × C)) (h : KeysAll P d) : KeysAll P (l.foldl (fun acc e => addTo add acc e.1 e.2) d) := by
  induction l generalizing d with
  | nil => exact h
  | cons e l ih =>
    exact ih (fun x hx => hl x (List.mem_cons_of_mem _ hx)) _
      (keysAll_addTo P add d h _ (hl e List.mem_cons_self) _)

theorem keysAll_foldl_insert {α : Type} (P : κ → Prop) (l : List α) (key : α → κ) (value : α → C)
    (hl : ∀ x ∈ l, P (key x)) (d : List (κ × C)) (h : KeysAll P d) :
    KeysAll P (l.foldl (fun acc e => insert acc (key e) (value e)) d) := by
  induction l generalizing d with
  | nil => exact h
  | cons e l ih =>
    exact ih (fun x hx => hl x (List.mem_cons_of_mem _ hx)) _
      (keysAll_insert P d h _ (hl e List.mem_cons_self) _)

theorem keysNodup_foldl_insert {α : Type} (l : List α) (key : α → κ) (value : α → C)
    (d : List (κ × C)) (h : KeysNodup d) :
    KeysNodup (l.foldl (fun acc e => insert acc (key e) (value e)) d) := by
  induction l generalizing d with
  | nil => exact h
  | cons e l ih => exact ih _ (keysNodup_insert d h _ _)

theorem keysNodup_map_values (d : List (κ × C)) (h : KeysNodup d) (f : C → C) :
    KeysNodup (d.map (fun e => (e.1, f e.2))) := by
  unfold KeysNodup at *; simpa [List.map_map, Function.comp_def] using h

theorem keysAll_map_values (P : κ → Prop) (d : List (κ × C)) (h : KeysAll P d) (f : C → C) :
    KeysAll P (d.map (fun e => (e.1, f e.2))) := by
  intro e he
  simp only [List.mem_map] at he
  obtain ⟨x, hx, rfl⟩ := he
  exact h x hx

end order2
end EpgVerif.Diff
