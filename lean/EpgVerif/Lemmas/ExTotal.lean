import EpgVerif.Lemmas.Cx
import Mathlib.Algebra.BigOperators.Group.Finset.Basic
import Mathlib.Algebra.BigOperators.Field
/-
  Total derivative of a coefficient expression along a curve in parameter space: when every parameter is a
  differentiable function of one real variable, `d/dx eval (env x) e = Σ_j (d env_j/dx) · eval (∂_j e)`.
-/
namespace EpgVerif
namespace Ex
open Complex Finset

/-! mathematical reading of `eval (d i e)` for every constructor (the smart constructors simplify syntax only) -/
section evald
variable (env : Nat → ℂ) (i : Nat)

theorem eval_d_div (a b : Ex) (hb : eval env b ≠ 0) :
    eval env (d i (div a b)) = (eval env (d i a) * eval env b - eval env a * eval env (d i b)) / (eval env b * eval env b) := by
  simp only [d]
  split
  · rename_i hz
    simp only [eval_div', hz, eval]
    field_simp
    ring
  · simp only [eval, eval_sub', eval_mul']
end evald

/-- **total derivative**: parameters `env x j` differentiable in `x` with derivatives `c j`, only the first `N` move -/
theorem hasDerivAt_eval_total (e : Ex) (env : ℝ → Nat → ℂ) (c : Nat → ℂ) (N : Nat) (x0 : ℝ)
    (henv : ∀ j, HasDerivAt (fun x => env x j) (c j) x0) (hc : ∀ j, N ≤ j → c j = 0)
    (hcr : ∀ j, (starRingEnd ℂ) (c j) = c j) (hd : Defined (env x0) e) :
    HasDerivAt (fun x : ℝ => eval (env x) e) (∑ j ∈ range N, c j * eval (env x0) (d j e)) x0 := by
  induction e with
  | zero => simpa [eval, d] using hasDerivAt_const x0 (0 : ℂ)
  | one => simpa [eval, d] using hasDerivAt_const x0 (1 : ℂ)
  | const q => simpa [eval, d] using hasDerivAt_const x0 (q : ℂ)
  | I => simpa [eval, d] using hasDerivAt_const x0 Complex.I
  | pi => simpa [eval, d] using hasDerivAt_const x0 (Real.pi : ℂ)
  | var j =>
    simp only [eval]
    refine (henv j).congr_deriv ?_
    by_cases hj : j < N
    · rw [Finset.sum_eq_single j]
      · simp [d, eval]
      · intro b _ hb
        have : ¬ j = b := fun h => hb h.symm
        simp [d, eval, this]
      · intro h; exact absurd (Finset.mem_range.mpr hj) h
    · rw [hc j (not_lt.mp hj)]
      symm
      apply Finset.sum_eq_zero
      intro b hb
      have : ¬ j = b := by
        intro h; subst h; exact hj (Finset.mem_range.mp hb)
      simp [d, eval, this]
  | add a b iha ihb =>
    refine ((iha hd.1).add (ihb hd.2)).congr_deriv ?_
    simp only [d, eval_add', mul_add, Finset.sum_add_distrib]
  | sub a b iha ihb =>
    refine ((iha hd.1).sub (ihb hd.2)).congr_deriv ?_
    simp only [d, eval_sub', mul_sub, Finset.sum_sub_distrib]
  | mul a b iha ihb =>
    refine ((iha hd.1).mul (ihb hd.2)).congr_deriv ?_
    simp only [d, eval_add', eval_mul', mul_add, Finset.sum_add_distrib, Finset.sum_mul, Finset.mul_sum]
    congr 1 <;> (apply Finset.sum_congr rfl; intro j _; ring)
  | div a b iha ihb =>
    have hb0 : eval (env x0) b ≠ 0 := hd.2.2
    refine ((iha hd.1).div (ihb hd.2.1) hb0).congr_deriv ?_
    simp only [eval_d_div _ _ _ _ hb0]
    rw [Finset.sum_mul, Finset.mul_sum, ← Finset.sum_sub_distrib, Finset.sum_div]
    apply Finset.sum_congr rfl
    intro j _
    field_simp
  | neg a iha =>
    refine ((iha hd).neg).congr_deriv ?_
    simp only [d, eval_neg', mul_neg, Finset.sum_neg_distrib]
  | exp a iha =>
    refine ((iha hd).cexp).congr_deriv ?_
    simp only [eval, d, expc_C, eval_mul', Finset.mul_sum]
    apply Finset.sum_congr rfl; intro j _; ring
  | cos a iha =>
    have h := (Complex.hasDerivAt_cos _).comp x0 (iha hd)
    simp only [Function.comp_def] at h
    refine h.congr_deriv ?_
    simp only [eval, d, sin_C, eval_mul', eval_neg', Finset.mul_sum]
    apply Finset.sum_congr rfl; intro j _; ring
  | sin a iha =>
    have h := (Complex.hasDerivAt_sin _).comp x0 (iha hd)
    simp only [Function.comp_def] at h
    refine h.congr_deriv ?_
    simp only [eval, d, cos_C, eval_mul', Finset.mul_sum]
    apply Finset.sum_congr rfl; intro j _; ring
  | conj a iha =>
    have h := (iha hd).star
    refine h.congr_deriv ?_
    show star (∑ j ∈ range N, c j * eval (env x0) (d j a)) = _
    rw [star_sum]
    apply Finset.sum_congr rfl; intro j _
    simp only [d, eval_conj', star_mul', Complex.star_def, hcr]
  | pow a n iha =>
    cases n with
    | zero => simpa [eval, d, powNat] using hasDerivAt_const x0 (1 : ℂ)
    | succ n =>
      have h := (iha hd).pow (n + 1)
      have h2 : HasDerivAt (fun x : ℝ => eval (env x) (a.pow (n + 1)))
          (((n + 1 : ℕ) : ℂ) * eval (env x0) a ^ (n + 1 - 1) * ∑ j ∈ range N, c j * eval (env x0) (d j a)) x0 := by
        simpa only [eval, powNat_eq_pow, Pi.pow_def] using h
      refine h2.congr_deriv ?_
      rw [Finset.mul_sum]
      apply Finset.sum_congr rfl; intro j _
      simp only [eval, d, eval_mul', eval_pow', ofRat_C, Nat.add_sub_cancel]; push_cast; ring

end Ex
end EpgVerif
