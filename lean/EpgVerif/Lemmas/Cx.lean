import Mathlib.Analysis.SpecialFunctions.Trigonometric.Deriv
import Mathlib.Analysis.SpecialFunctions.ExpDeriv
import Mathlib.Analysis.SpecialFunctions.Trigonometric.Basic
import Mathlib.Analysis.Calculus.Deriv.Star
import Mathlib.Tactic.Ring
import EpgVerif.Model.Expr
/-
  The scalar instances at `ℂ` and the correctness of symbolic differentiation
  `Ex.d` (used for the derivative tables of C02/C03 and for C11).
-/
namespace EpgVerif
open Complex

noncomputable instance instConjC : Conj ℂ := ⟨starRingEnd ℂ⟩
noncomputable instance instTranscC : Transc ℂ :=
  ⟨Complex.exp, Complex.cos, Complex.sin, (Real.pi : ℂ), Complex.I, fun q => (q : ℂ)⟩

@[simp] theorem conj_C (z : ℂ) : Conj.conj z = starRingEnd ℂ z := rfl
@[simp] theorem expc_C (z : ℂ) : Transc.expc z = Complex.exp z := rfl
@[simp] theorem cos_C (z : ℂ) : Transc.cos z = Complex.cos z := rfl
@[simp] theorem sin_C (z : ℂ) : Transc.sin z = Complex.sin z := rfl
@[simp] theorem pi_C : (Transc.pi : ℂ) = (Real.pi : ℂ) := rfl
@[simp] theorem I_C : (Transc.I : ℂ) = Complex.I := rfl
@[simp] theorem ofRat_C (q : Rat) : (Transc.ofRat q : ℂ) = (q : ℂ) := rfl

@[simp] theorem powNat_eq_pow {K : Type} [Monoid K] (x : K) (n : Nat) : powNat x n = x ^ n := by
  induction n with
  | zero => simp [powNat]
  | succ n ih => simp [powNat, ih, pow_succ]

namespace Ex

section smart
variable (env : Nat → ℂ)
@[simp] theorem eval_add' (a b : Ex) : eval env (add' a b) = eval env a + eval env b := by
  unfold add'; split <;> simp [eval]
@[simp] theorem eval_neg' (a : Ex) : eval env (neg' a) = - eval env a := by
  unfold neg'; split <;> simp [eval]
@[simp] theorem eval_sub' (a b : Ex) : eval env (sub' a b) = eval env a - eval env b := by
  unfold sub'; split <;> simp [eval]
@[simp] theorem eval_mul' (a b : Ex) : eval env (mul' a b) = eval env a * eval env b := by
  unfold mul'; split <;> simp [eval]
@[simp] theorem eval_div' (a b : Ex) : eval env (div' a b) = eval env a / eval env b := by
  unfold div'; split <;> simp [eval]
@[simp] theorem eval_conj' (a : Ex) : eval env (conj' a) = starRingEnd ℂ (eval env a) := by
  unfold conj'; split <;> simp [eval]
@[simp] theorem eval_pow' (a : Ex) (n : Nat) : eval env (pow' a n) = eval env a ^ n := by
  unfold pow'; split <;> simp [eval]
end smart

/-- all denominators occurring in `e` are non-zero at `env`. -/
def Defined (env : Nat → ℂ) : Ex → Prop
  | add a b | sub a b | mul a b => Defined env a ∧ Defined env b
  | div a b => Defined env a ∧ Defined env b ∧ eval env b ≠ 0
  | neg a | exp a | cos a | sin a | conj a | pow a _ => Defined env a
  | _ => True

/-- `Ex.d` computes the derivative along a real variable. -/
theorem hasDerivAt_eval (e : Ex) (env : Nat → ℂ) (i : Nat) (x0 : ℝ) (h0 : env i = (x0 : ℂ))
    (hd : Defined env e) :
    HasDerivAt (fun x : ℝ => eval (Function.update env i (x : ℂ)) e) (eval env (d i e)) x0 := by
  have henv : Function.update env i (x0 : ℂ) = env := by rw [← h0]; exact Function.update_eq_self i env
  induction e with
  | zero => simpa [eval, d] using hasDerivAt_const x0 (0 : ℂ)
  | one => simpa [eval, d] using hasDerivAt_const x0 (1 : ℂ)
  | const q => simpa [eval, d] using hasDerivAt_const x0 (q : ℂ)
  | I => simpa [eval, d] using hasDerivAt_const x0 Complex.I
  | pi => simpa [eval, d] using hasDerivAt_const x0 (Real.pi : ℂ)
  | var j =>
    by_cases hj : j = i
    · subst hj
      simp only [eval, d, if_true, Function.update_self]
      simpa using (hasDerivAt_id x0).ofReal_comp
    · simp only [eval, d, if_neg hj, Function.update_of_ne hj]
      simpa using hasDerivAt_const x0 (env j)
  | add a b iha ihb => exact ((iha hd.1).add (ihb hd.2)).congr_deriv (by simp only [d, eval_add'])
  | sub a b iha ihb => exact ((iha hd.1).sub (ihb hd.2)).congr_deriv (by simp only [d, eval_sub'])
  | mul a b iha ihb =>
    have h := (iha hd.1).mul (ihb hd.2)
    simp only [henv] at h
    exact h.congr_deriv (by simp only [d, eval_add', eval_mul'])
  | div a b iha ihb =>
    have hb0 : eval env b ≠ 0 := hd.2.2
    have hb : eval (Function.update env i (x0 : ℂ)) b ≠ 0 := by rw [henv]; exact hb0
    have h := (iha hd.1).div (ihb hd.2.1) hb
    simp only [henv] at h
    refine h.congr_deriv ?_
    simp only [d]
    split
    · rename_i hz
      simp only [eval_div', hz, eval]
      field_simp
      ring
    · simp only [eval, eval_sub', eval_mul']; ring
  | neg a iha => exact ((iha hd).neg).congr_deriv (by simp only [d, eval_neg'])
  | exp a iha =>
    have h := (iha hd).cexp
    simp only [henv] at h
    exact h.congr_deriv (by simp only [eval, d, expc_C, eval_mul']; ring)
  | cos a iha =>
    have h := (Complex.hasDerivAt_cos _).comp x0 (iha hd)
    simp only [henv, Function.comp_def] at h
    exact h.congr_deriv (by simp only [eval, d, sin_C, eval_mul', eval_neg']; ring)
  | sin a iha =>
    have h := (Complex.hasDerivAt_sin _).comp x0 (iha hd)
    simp only [henv, Function.comp_def] at h
    exact h.congr_deriv (by simp only [eval, d, cos_C, eval_mul']; ring)
  | conj a iha =>
    have h := (iha hd).star
    simpa [eval, d] using h
  | pow a n iha =>
    cases n with
    | zero => simpa [eval, d, powNat] using hasDerivAt_const x0 (1 : ℂ)
    | succ n =>
      have h := (iha hd).pow (n + 1)
      simp only [henv] at h
      have e : ((n + 1 : ℕ) : ℂ) * eval env a ^ (n + 1 - 1) * eval env (d i a)
          = eval env (d i (a.pow (n + 1))) := by
        simp only [eval, d, eval_mul', eval_pow', ofRat_C, Nat.add_sub_cancel]; push_cast; ring
      have h2 := h.congr_deriv e
      simpa only [eval, powNat_eq_pow, Pi.pow_def] using h2

end Ex
end EpgVerif
