import Mathlib.Analysis.SpecialFunctions.Pow.Deriv
import Mathlib.Analysis.SpecialFunctions.Log.Deriv
import Mathlib.Analysis.SpecialFunctions.ExpDeriv
import Mathlib.Analysis.Calculus.Deriv.Abs
import EpgVerif.Model.SExpr
/-
  Correctness of the table-driven symbolic derivative of sequence.py (`SE.derive`) over ℝ:
  if the derivative table is right for every function (`TableOK`), `derive` is the derivative of
  every expression tree built from them (chain rule with proxy substitution).
-/
namespace EpgVerif
open SE

noncomputable instance : RealOps ℝ where
  abs x := |x|
  sign x := (SignType.sign x : ℝ)
  log := Real.log
  exp := Real.exp
  pow x y := x ^ y

namespace SE

@[simp] theorem natK_real (n : Nat) : (natK n : ℝ) = n := by
  induction n with
  | zero => simp [natK]
  | succ n ih => simp [natK, ih]
@[simp] theorem intK_real (k : Int) : (intK k : ℝ) = k := by
  cases k with
  | ofNat n => simp [intK]
  | negSucc n => simp [intK, Int.negSucc_eq]

/-- no proxy occurs (a user-level expression) -/
def Closed : SE ℝ → Prop
  | const _ => True
  | var _ => True
  | proxy _ => False
  | app1 f a => f.binary = false ∧ Closed a
  | app2 f a b => f.binary = true ∧ Closed a ∧ Closed b

/-- domain of the one- and two-argument functions (where Python evaluates without error and the
    derivative exists) -/
def dom1 (f : Fn) (a : ℝ) : Prop :=
  match f with
  | .abs | .sign | .inv => a ≠ 0
  | .log => 0 < a
  | _ => True
def dom2 (f : Fn) (a b : ℝ) : Prop :=
  match f with
  | .div => b ≠ 0
  | .pow => 0 < a
  | _ => True

def Defined (env : String → ℝ) : SE ℝ → Prop
  | const _ => True
  | var _ => True
  | proxy _ => True
  | app1 f a => Defined env a ∧ dom1 f (eval env 0 0 a)
  | app2 f a b => Defined env a ∧ Defined env b ∧ dom2 f (eval env 0 0 a) (eval env 0 0 b)

/-- the derivative table is right: composition-ready statements for every function -/
structure TableOK (tbl : Table ℝ) : Prop where
  unary : ∀ (f : Fn) (t : SE ℝ), f.binary = false → tbl f 0 = some t → ∀ (env : String → ℝ) (a : ℝ → ℝ) (a' x : ℝ),
    HasDerivAt a a' x → dom1 f (a x) →
    HasDerivAt (fun y => fn1 f (a y)) (eval env (a x) (a x) t * a') x
  binary : ∀ (f : Fn) (t0 t1 : SE ℝ), tbl f 0 = some t0 → tbl f 1 = some t1 →
    ∀ (env : String → ℝ) (a b : ℝ → ℝ) (a' b' x : ℝ),
    HasDerivAt a a' x → HasDerivAt b b' x → dom2 f (a x) (b x) →
    HasDerivAt (fun y => fn2 f (a y) (b y)) (eval env (a x) (b x) t0 * a' + eval env (a x) (b x) t1 * b') x
  /-- proxies are bound by position of *occurrence*: an entry mentioning `p2` must mention `p1` -/
  proxies : ∀ (f : Fn) (i : Nat) (t : SE ℝ), tbl f i = some t → hasProxy false t = true → hasProxy true t = true
  /-- a binary function has both entries or none -/
  both : ∀ (f : Fn), f.binary = true → ((tbl f 0).isSome ↔ (tbl f 1).isSome)
  /-- table entries mention no variable -/
  novars : ∀ (f : Fn) (i : Nat) (t : SE ℝ), tbl f i = some t → ∀ v, mentions v t = false

theorem eval_substProxy (env : String → ℝ) (p1 p2 : ℝ) (a b t : SE ℝ) (ha : Closed a) (hb : Closed b) :
    eval env p1 p2 (substProxy a b t) = eval env (eval env p1 p2 a) (eval env p1 p2 b) t := by
  induction t with
  | const c => rfl
  | var v => rfl
  | proxy n => by_cases h : n = 1 <;> simp [substProxy, eval, h]
  | app1 f x ih => simp [substProxy, eval, ih]
  | app2 f x y ihx ihy => simp [substProxy, eval, ihx, ihy]

theorem eval_indep_proxy (env : String → ℝ) (p1 p2 q1 q2 : ℝ) (e : SE ℝ) (h : Closed e) :
    eval env p1 p2 e = eval env q1 q2 e := by
  induction e with
  | const c => rfl
  | var v => rfl
  | proxy n => exact absurd h (by simp [Closed])
  | app1 f x ih => simp [eval, ih h.2]
  | app2 f x y ihx ihy => simp [eval, ihx h.2.1, ihy h.2.2]

theorem eval_no_proxy2 (env : String → ℝ) (p1 p2 q2 : ℝ) (t : SE ℝ) (h : hasProxy false t = false) :
    eval env p1 p2 t = eval env p1 q2 t := by
  induction t with
  | const c => rfl
  | var v => rfl
  | proxy n =>
    simp only [hasProxy, Bool.false_eq_true, if_false, bne_eq_false_iff_eq] at h
    simp [eval, h]
  | app1 f x ih => simp only [hasProxy] at h; simp [eval, ih h]
  | app2 f x y ihx ihy =>
    simp only [hasProxy, Bool.or_eq_false_iff] at h
    simp [eval, ihx h.1, ihy h.2]

/-- binding of the proxies of a table entry to the arguments -/
theorem eval_bindProxies2 (tbl : Table ℝ) (ok : TableOK tbl) (f : Fn) (i : Nat) (t : SE ℝ)
    (ht : tbl f i = some t) (env : String → ℝ) (a b : SE ℝ) (ha : Closed a) (hb : Closed b) :
    eval env 0 0 (bindProxies [a, b] t) = eval env (eval env 0 0 a) (eval env 0 0 b) t := by
  unfold bindProxies
  simp only [List.getD_cons_zero, List.getD_cons_succ]
  by_cases h1 : hasProxy true t = true
  · simp only [h1, if_true]; exact eval_substProxy env 0 0 a b t ha hb
  · have h1' : hasProxy true t = false := by simpa using h1
    have h2 : hasProxy false t = false := by
      by_contra hc
      have := ok.proxies f i t ht (by simpa using hc)
      rw [h1'] at this; exact Bool.false_ne_true this
    simp only [h1', Bool.false_eq_true, if_false]
    rw [eval_substProxy env 0 0 a a t ha ha]
    exact eval_no_proxy2 env _ _ _ t h2

theorem eval_bindProxies1 (env : String → ℝ) (a t : SE ℝ) (ha : Closed a) :
    eval env 0 0 (bindProxies [a] t) = eval env (eval env 0 0 a) (eval env 0 0 a) t := by
  unfold bindProxies
  simp only [List.getD_cons_zero, List.getD_cons_succ, List.getD_nil]
  split <;> exact eval_substProxy env 0 0 a a t ha ha

/-- an expression that does not mention `v` does not depend on it -/
theorem eval_update_of_not_mentions (env : String → ℝ) (v : String) (x : ℝ) (p1 p2 : ℝ) (e : SE ℝ)
    (h : mentions v e = false) : eval (Function.update env v x) p1 p2 e = eval env p1 p2 e := by
  induction e with
  | const c => rfl
  | var w =>
    simp only [mentions, beq_eq_false_iff_ne, ne_eq] at h
    simp [eval, Function.update_of_ne h]
  | proxy n => rfl
  | app1 f a ih => simp only [mentions] at h; simp [eval, ih h]
  | app2 f a b iha ihb =>
    simp only [mentions, Bool.or_eq_false_iff] at h
    simp [eval, iha h.1, ihb h.2]


theorem isVar_eq {a : SE ℝ} (h : isVar a = true) : ∃ w, a = var w := by
  cases a <;> simp [isVar] at h
  exact ⟨_, rfl⟩

/-- **`Expression.derive` is the derivative** (for every composition of the table's functions),
    whenever the code returns a derivative expression at all and the expression is evaluated inside
    its domain. -/
theorem derive_correct (tbl : Table ℝ) (ok : TableOK tbl) (v : String) (env : String → ℝ) :
    ∀ (e : SE ℝ), Closed e → ∀ de, derive tbl v e = some de → Defined env e →
      HasDerivAt (fun x => eval (Function.update env v x) 0 0 e) (eval env 0 0 de) (env v) := by
  have hupd : Function.update env v (env v) = env := Function.update_eq_self v env
  intro e
  induction e with
  | const c =>
    intro _ de hd _
    simp only [derive, Option.some.injEq] at hd
    subst hd
    simpa [eval] using hasDerivAt_const (env v) c
  | var w =>
    intro _ de hd _
    simp only [derive, Option.some.injEq] at hd
    subst hd
    by_cases hw : w = v
    · subst hw
      simp only [eval, Function.update_self, if_true]
      exact hasDerivAt_id (env w)
    · simp only [eval, Function.update_of_ne hw, hw, if_false]
      exact hasDerivAt_const (env v) (env w)
  | proxy n => intro hc; exact absurd hc (by simp [Closed])
  | app1 f a iha =>
    intro hc de hd hdef
    have hca : Closed a := hc.2
    simp only [derive, deriveArg] at hd
    by_cases hm : mentions v a = true
    · simp only [hm, if_true] at hd
      cases ht : tbl f 0 with
      | none => simp [ht] at hd
      | some t =>
        cases hda : derive tbl v a with
        | none => simp [ht, hda] at hd
        | some da =>
          simp only [ht, hda, Option.some.injEq] at hd
          have ha' := iha hca da hda hdef.1
          have hmain := ok.unary f t hc.1 ht env (fun x => eval (Function.update env v x) 0 0 a)
            (eval env 0 0 da) (env v) ha' (by simpa [hupd] using hdef.2)
          simp only [hupd] at hmain
          subst hd
          by_cases hv : isVar a = true
          · obtain ⟨w, rfl⟩ := isVar_eq hv
            have hwv : w = v := by simpa [mentions] using hm
            have h1 : eval env 0 0 da = 1 := by
              simp only [derive, Option.some.injEq] at hda
              subst hda; simp [eval, hwv]
            simp only [hv, if_true, eval, fn2]
            rw [eval_bindProxies1 env _ t hca]
            rw [h1, mul_one] at hmain
            simpa [eval, fn1] using hmain
          · simp only [hv, Bool.false_eq_true, if_false, eval, fn2]
            rw [eval_bindProxies1 env _ t hca]
            have : (0 : ℝ) + eval env 0 0 da * eval env (eval env 0 0 a) (eval env 0 0 a) t
                = eval env (eval env 0 0 a) (eval env 0 0 a) t * eval env 0 0 da := by ring
            rw [this]
            simpa [eval] using hmain
    · have hm' : mentions v a = false := by simpa using hm
      simp only [hm', Bool.false_eq_true, if_false, Option.some.injEq] at hd
      subst hd
      have : (fun x => eval (Function.update env v x) 0 0 (app1 f a)) = fun _ => eval env 0 0 (app1 f a) := by
        funext x; exact eval_update_of_not_mentions env v x 0 0 _ (by simpa [mentions] using hm')
      rw [this]
      simpa [eval] using hasDerivAt_const (env v) (eval env 0 0 (app1 f a))
  | app2 f a b iha ihb =>
    intro hc de hd hdef
    obtain ⟨hbin, hca, hcb⟩ := hc
    obtain ⟨hda_, hdb_, hdom⟩ := hdef
    -- derivative data of the two arguments (zero derivative when not mentioned)
    have argD : ∀ (arg : SE ℝ) (harg : Closed arg) (ih : ∀ de, derive tbl v arg = some de → Defined env arg →
        HasDerivAt (fun x => eval (Function.update env v x) 0 0 arg) (eval env 0 0 de) (env v))
        (hdefarg : Defined env arg),
        (mentions v arg = false → HasDerivAt (fun x => eval (Function.update env v x) 0 0 arg) 0 (env v)) := by
      intro arg _ _ _ hm
      have : (fun x => eval (Function.update env v x) 0 0 arg) = fun _ => eval env 0 0 arg := by
        funext x; exact eval_update_of_not_mentions env v x 0 0 _ hm
      rw [this]; exact hasDerivAt_const _ _
    simp only [derive, deriveArg] at hd
    -- table entries are needed only for mentioned arguments; the combined lemma needs both, which the
    -- table provides for every binary function that has any
    by_cases hma : mentions v a = true <;> by_cases hmb : mentions v b = true
    · -- both mentioned
      simp only [hma, hmb, if_true] at hd
      cases ht0 : tbl f 0 with
      | none => simp [ht0] at hd
      | some t0 =>
        cases hda : derive tbl v a with
        | none => simp [ht0, hda] at hd
        | some da =>
          cases ht1 : tbl f 1 with
          | none => simp [ht0, hda, ht1] at hd
          | some t1 =>
            cases hdb : derive tbl v b with
            | none => simp [ht0, hda, ht1, hdb] at hd
            | some db =>
              simp only [ht0, hda, ht1, hdb, Option.some.injEq] at hd
              subst hd
              have ha' := iha hca da hda hda_
              have hb' := ihb hcb db hdb hdb_
              have hmain := ok.binary f t0 t1 ht0 ht1 env _ _ _ _ (env v) ha' hb' (by simpa [hupd] using hdom)
              simp only [hupd] at hmain
              have eA : eval env 0 0 (if isVar a = true then bindProxies [a, b] t0 else app2 .mul da (bindProxies [a, b] t0))
                  = eval env (eval env 0 0 a) (eval env 0 0 b) t0 * eval env 0 0 da := by
                by_cases hv : isVar a = true
                · obtain ⟨w, rfl⟩ := isVar_eq hv
                  have hwv : w = v := by simpa [mentions] using hma
                  have h1 : eval env 0 0 da = 1 := by
                    simp only [derive, Option.some.injEq] at hda; subst hda; simp [eval, hwv]
                  simp only [hv, if_true]
                  rw [eval_bindProxies2 tbl ok f 0 t0 ht0 env _ _ hca hcb, h1, mul_one]
                · simp only [hv, Bool.false_eq_true, if_false, eval, fn2]
                  rw [eval_bindProxies2 tbl ok f 0 t0 ht0 env _ _ hca hcb]; ring
              have eB : eval env 0 0 (if isVar b = true then bindProxies [a, b] t1 else app2 .mul db (bindProxies [a, b] t1))
                  = eval env (eval env 0 0 a) (eval env 0 0 b) t1 * eval env 0 0 db := by
                by_cases hv : isVar b = true
                · obtain ⟨w, rfl⟩ := isVar_eq hv
                  have hwv : w = v := by simpa [mentions] using hmb
                  have h1 : eval env 0 0 db = 1 := by
                    simp only [derive, Option.some.injEq] at hdb; subst hdb; simp [eval, hwv]
                  simp only [hv, if_true]
                  rw [eval_bindProxies2 tbl ok f 1 t1 ht1 env _ _ hca hcb, h1, mul_one]
                · simp only [hv, Bool.false_eq_true, if_false, eval, fn2]
                  rw [eval_bindProxies2 tbl ok f 1 t1 ht1 env _ _ hca hcb]; ring
              have : eval env 0 0 (app2 .add (app2 .add (const 0)
                    (if isVar a = true then bindProxies [a, b] t0 else app2 .mul da (bindProxies [a, b] t0)))
                    (if isVar b = true then bindProxies [a, b] t1 else app2 .mul db (bindProxies [a, b] t1)))
                  = eval env (eval env 0 0 a) (eval env 0 0 b) t0 * eval env 0 0 da
                    + eval env (eval env 0 0 a) (eval env 0 0 b) t1 * eval env 0 0 db := by
                simp only [eval, fn2] at eA eB ⊢
                rw [eA, eB]; ring
              rw [this]
              simpa [eval] using hmain
    · -- only `a` mentions the variable
      have hmb' : mentions v b = false := by simpa using hmb
      simp only [hma, hmb', if_true, Bool.false_eq_true, if_false] at hd
      cases ht0 : tbl f 0 with
      | none => simp [ht0] at hd
      | some t0 =>
        cases hda : derive tbl v a with
        | none => simp [ht0, hda] at hd
        | some da =>
          simp only [ht0, hda, Option.some.injEq] at hd
          subst hd
          obtain ⟨t1, ht1⟩ : ∃ t1, tbl f 1 = some t1 := by
            have := (ok.both f hbin).mp (by simp [ht0])
            exact Option.isSome_iff_exists.mp this
          have ha' := iha hca da hda hda_
          have hb' := argD b hcb (ihb hcb) hdb_ hmb'
          have hmain := ok.binary f t0 t1 ht0 ht1 env _ _ _ _ (env v) ha' hb' (by simpa [hupd] using hdom)
          simp only [hupd, mul_zero, add_zero] at hmain
          have eA : eval env 0 0 (if isVar a = true then bindProxies [a, b] t0 else app2 .mul da (bindProxies [a, b] t0))
              = eval env (eval env 0 0 a) (eval env 0 0 b) t0 * eval env 0 0 da := by
            by_cases hv : isVar a = true
            · obtain ⟨w, rfl⟩ := isVar_eq hv
              have hwv : w = v := by simpa [mentions] using hma
              have h1 : eval env 0 0 da = 1 := by
                simp only [derive, Option.some.injEq] at hda; subst hda; simp [eval, hwv]
              simp only [hv, if_true]
              rw [eval_bindProxies2 tbl ok f 0 t0 ht0 env _ _ hca hcb, h1, mul_one]
            · simp only [hv, Bool.false_eq_true, if_false, eval, fn2]
              rw [eval_bindProxies2 tbl ok f 0 t0 ht0 env _ _ hca hcb]; ring
          have : eval env 0 0 (app2 .add (const 0)
                (if isVar a = true then bindProxies [a, b] t0 else app2 .mul da (bindProxies [a, b] t0)))
              = eval env (eval env 0 0 a) (eval env 0 0 b) t0 * eval env 0 0 da := by
            simp only [eval, fn2] at eA ⊢
            rw [eA]; ring
          rw [this]
          simpa [eval] using hmain
    · -- only `b` mentions the variable
      have hma' : mentions v a = false := by simpa using hma
      simp only [hma', hmb, if_true, Bool.false_eq_true, if_false] at hd
      cases ht1 : tbl f 1 with
      | none => simp [ht1] at hd
      | some t1 =>
        cases hdb : derive tbl v b with
        | none => simp [ht1, hdb] at hd
        | some db =>
          simp only [ht1, hdb, Option.some.injEq] at hd
          subst hd
          obtain ⟨t0, ht0⟩ : ∃ t0, tbl f 0 = some t0 := by
            have := (ok.both f hbin).mpr (by simp [ht1])
            exact Option.isSome_iff_exists.mp this
          have ha' := argD a hca (iha hca) hda_ hma'
          have hb' := ihb hcb db hdb hdb_
          have hmain := ok.binary f t0 t1 ht0 ht1 env _ _ _ _ (env v) ha' hb' (by simpa [hupd] using hdom)
          simp only [hupd, mul_zero, zero_add] at hmain
          have eB : eval env 0 0 (if isVar b = true then bindProxies [a, b] t1 else app2 .mul db (bindProxies [a, b] t1))
              = eval env (eval env 0 0 a) (eval env 0 0 b) t1 * eval env 0 0 db := by
            by_cases hv : isVar b = true
            · obtain ⟨w, rfl⟩ := isVar_eq hv
              have hwv : w = v := by simpa [mentions] using hmb
              have h1 : eval env 0 0 db = 1 := by
                simp only [derive, Option.some.injEq] at hdb; subst hdb; simp [eval, hwv]
              simp only [hv, if_true]
              rw [eval_bindProxies2 tbl ok f 1 t1 ht1 env _ _ hca hcb, h1, mul_one]
            · simp only [hv, Bool.false_eq_true, if_false, eval, fn2]
              rw [eval_bindProxies2 tbl ok f 1 t1 ht1 env _ _ hca hcb]; ring
          have : eval env 0 0 (app2 .add (const 0)
                (if isVar b = true then bindProxies [a, b] t1 else app2 .mul db (bindProxies [a, b] t1)))
              = eval env (eval env 0 0 a) (eval env 0 0 b) t1 * eval env 0 0 db := by
            simp only [eval, fn2] at eB ⊢
            rw [eB]; ring
          rw [this]
          simpa [eval] using hmain
    · -- neither argument mentions the variable
      have hma' : mentions v a = false := by simpa using hma
      have hmb' : mentions v b = false := by simpa using hmb
      simp only [hma', hmb', Bool.false_eq_true, if_false, Option.some.injEq] at hd
      subst hd
      have : (fun x => eval (Function.update env v x) 0 0 (app2 f a b)) = fun _ => eval env 0 0 (app2 f a b) := by
        funext x; exact eval_update_of_not_mentions env v x 0 0 _ (by simp [mentions, hma', hmb'])
      rw [this]
      simpa [eval] using hasDerivAt_const (env v) (eval env 0 0 (app2 f a b))

end SE
end EpgVerif
