import Mathlib.Tactic.Ring
import Mathlib.Tactic.Linarith
import EpgVerif.Model.Ops
/-
  The single array lemma (`get_mk'`) and its consequences: every operator of the model is
  characterised by what `get`/`geq` return at each `k : ℤ`.
-/
namespace EpgVerif
namespace SM
variable {K : Type} [Zero K]

theorem inRange_iff (n : Nat) (k : Int) : inRange n k = true ↔ (-(n : Int) ≤ k ∧ k ≤ n) := by
  simp [inRange]

@[simp] theorem mk'_n (n : Nat) (f g : Int → PS K) : (mk' n f g).n = n := rfl

theorem get_mk' (n : Nat) (f g : Int → PS K) (k : Int) :
    (mk' n f g).get k = if inRange n k then f k else 0 := by
  unfold get
  simp only [mk'_n]
  by_cases h : inRange n k = true
  · simp only [h, if_true]
    rw [inRange_iff] at h
    have hlt : (k + n).toNat < 2 * n + 1 := by omega
    simp only [mk', Array.getD, Array.size_ofFn, hlt, dif_pos, Array.getInternal_eq_getElem,
      Array.getElem_ofFn]
    congr 1
    omega
  · simp [h]

theorem geq_mk' (n : Nat) (f g : Int → PS K) (k : Int) :
    (mk' n f g).geq k = if inRange n k then g k else 0 := by
  unfold geq
  simp only [mk'_n]
  by_cases h : inRange n k = true
  · simp only [h, if_true]
    rw [inRange_iff] at h
    have hlt : (k + n).toNat < 2 * n + 1 := by omega
    simp only [mk', Array.getD, Array.size_ofFn, hlt, dif_pos, Array.getInternal_eq_getElem,
      Array.getElem_ofFn]
    congr 1
    omega
  · simp [h]

theorem get_of_not_inRange (s : SM K) (k : Int) (h : inRange s.n k = false) : s.get k = 0 := by
  simp [get, h]
theorem geq_of_not_inRange (s : SM K) (k : Int) (h : inRange s.n k = false) : s.geq k = 0 := by
  simp [geq, h]

end SM
end EpgVerif
