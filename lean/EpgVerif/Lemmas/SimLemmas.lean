import EpgVerif.Lemmas.Cx
import EpgVerif.Model.Sim
/-
  `default_modifier` without `att`, in closed form.
-/
namespace EpgVerif.Sim
open EpgVerif

/-- the evolution `default_modifier` appends after an operator of duration `d` -/
noncomputable def evol (T1 T2 g : Option ℂ) (d : ℂ) : List (Item ℂ) :=
  match T1, T2, g with
  | none, none, none => []
  | none, none, some g => [.op (.P d g) 0]
  | _, _, _ => [.op (.E d (T1.getD (ofRat 10000000000)) (T2.getD (ofRat 10000000000)) (g.getD 0)) 0]

theorem defaultModifier_none (positive isOne : ℂ → Bool) (T1 T2 g : Option ℂ) (it : Item ℂ) :
    defaultModifier positive isOne T1 T2 g none it = it :: (if positive it.dur then evol T1 T2 g it.dur else []) := by
  have hx' : (match it, (none : Option ℂ) with
      | Item.op (Op.T a p) d, some t => if isOne t = true then it else Item.op (Op.T (a * t) p) d
      | x_1, x_2 => it) = it := by
    cases it with
    | op y d => cases y <;> rfl
    | adc a d => rfl
  unfold defaultModifier
  simp only [hx']
  by_cases hp : positive it.dur = true
  · simp only [hp, if_true]
    cases T1 <;> cases T2 <;> cases g <;> simp [evol]
  · simp [hp]

theorem modifyItems_cons (positive isOne : ℂ → Bool) (T1 T2 g att : Option ℂ) (x : Item ℂ) (rest : List (Item ℂ)) :
    modifyItems positive isOne T1 T2 g att (x :: rest)
      = defaultModifier positive isOne T1 T2 g att x ++ modifyItems positive isOne T1 T2 g att rest := by
  simp [modifyItems]

theorem modifyItems_append (positive isOne : ℂ → Bool) (T1 T2 g att : Option ℂ) (a b : List (Item ℂ)) :
    modifyItems positive isOne T1 T2 g att (a ++ b)
      = modifyItems positive isOne T1 T2 g att a ++ modifyItems positive isOne T1 T2 g att b := by
  simp [modifyItems]

theorem evol_dur (T1 T2 g : Option ℂ) (d : ℂ) : ∀ it ∈ evol T1 T2 g d, it.dur = 0 := by
  intro it h
  cases T1 <;> cases T2 <;> cases g <;> simp [evol] at h <;> subst h <;> rfl

end EpgVerif.Sim
