import EpgVerif.Lemmas.OpsLemmas
import EpgVerif.Lemmas.ExTac
import Mathlib.Analysis.SpecialFunctions.Trigonometric.Inverse
/-
  Algebra of hard pulses: composition on one axis, phase offsets, state-level congruence.
-/
namespace EpgVerif
open Complex SM EpgVerif.Tie

/-- materialised functions only depend on their values inside the range -/
theorem SM.mk'_congr (n : Nat) (f f' g g' : Int → PS ℂ)
    (hf : ∀ k, inRange n k = true → f k = f' k) (hg : ∀ k, inRange n k = true → g k = g' k) :
    mk' n f g = mk' n f' g' := by
  unfold mk'
  have hin : ∀ i : Fin (2 * n + 1), inRange n ((i.val : Int) - n) = true := by
    intro i; rw [inRange_iff]; have := i.isLt; omega
  congr 1
  · exact congrArg _ (funext fun i => hf _ (hin i))
  · exact congrArg _ (funext fun i => hg _ (hin i))

/-- a sized state matrix is the materialisation of its own reading -/
theorem SM.mk'_get_self (s : SM ℂ) (h : s.Sized) : mk' s.n s.get s.geq = s := by
  obtain ⟨n, st, eq⟩ := s
  obtain ⟨h1, h2⟩ := h
  simp only at h1 h2
  unfold mk'
  have hin : ∀ i : Nat, i < 2 * n + 1 → inRange n ((i : Int) - n) = true := by
    intro i hi; rw [inRange_iff]; omega
  congr 1
  · apply Array.ext
    · simp [h1]
    · intro i hi1 hi2
      simp only [Array.size_ofFn] at hi1
      simp only [Array.getElem_ofFn, get, hin i hi1, if_true]
      have : ((i : Int) - n + n).toNat = i := by omega
      rw [this]
      simp [Array.getD, hi2]
  · apply Array.ext
    · simp [h2]
    · intro i hi1 hi2
      simp only [Array.size_ofFn] at hi1
      simp only [Array.getElem_ofFn, geq, hin i hi1, if_true]
      have : ((i : Int) - n + n).toNat = i := by omega
      rw [this]
      simp [Array.getD, hi2]

theorem matApply_congr (m m' : Nat → Nat → ℂ) (s : SM ℂ) (h : ∀ v, PS.mmul m v = PS.mmul m' v) :
    matApply m s = matApply m' s := by
  unfold matApply
  exact SM.mk'_congr _ _ _ _ _ (fun k _ => h _) (fun _ _ => rfl)

theorem matApply_comp (m1 m2 m3 : Nat → Nat → ℂ) (s : SM ℂ)
    (h : ∀ v, PS.mmul m1 (PS.mmul m2 v) = PS.mmul m3 v) :
    matApply m1 (matApply m2 s) = matApply m3 s := by
  show mk' (matApply m2 s).n _ _ = mk' s.n _ _
  have hn : (matApply m2 s).n = s.n := rfl
  rw [hn]
  apply SM.mk'_congr
  · intro k _; rw [get_matApply]; exact h _
  · intro k hk; unfold matApply; rw [geq_mk', hk]; rfl

theorem matApply_id (m : Nat → Nat → ℂ) (s : SM ℂ) (hs : s.Sized) (h : ∀ v, PS.mmul m v = v) :
    matApply m s = s := by
  unfold matApply
  rw [SM.mk'_congr s.n _ s.get _ s.geq (fun k _ => h _) (fun _ _ => rfl)]
  exact SM.mk'_get_self s hs

theorem sized_matApply (m : Nat → Nat → ℂ) (s : SM ℂ) : (matApply m s).Sized := by
  unfold matApply mk' Sized; simp

theorem sized_scalApply (a a0 : Nat → ℂ) (s : SM ℂ) : (scalApply a a0 s).Sized := by
  unfold scalApply mk' Sized; simp

/-- a diagonal matrix commutes with a diagonal affine operator that only feeds the equilibrium into Z -/
theorem matApply_scalApply_comm (m : Nat → Nat → ℂ) (a a0 : Nat → ℂ) (s : SM ℂ)
    (hd : ∀ v, PS.mmul m v = PS.dmul (fun i => m i i) v) (h22 : m 2 2 = 1) (h0 : a0 0 = 0) (h1 : a0 1 = 0) :
    matApply m (scalApply a a0 s) = scalApply a a0 (matApply m s) := by
  show mk' (scalApply a a0 s).n _ _ = mk' (matApply m s).n _ _
  have hn1 : (scalApply a a0 s).n = s.n := rfl
  have hn2 : (matApply m s).n = s.n := rfl
  rw [hn1, hn2]
  have hgeq1 : ∀ k, inRange s.n k = true → (scalApply a a0 s).geq k = s.geq k := by
    intro k hk; unfold scalApply; rw [geq_mk', hk]; rfl
  have hgeq2 : ∀ k, inRange s.n k = true → (matApply m s).geq k = s.geq k := by
    intro k hk; unfold matApply; rw [geq_mk', hk]; rfl
  apply SM.mk'_congr
  · intro k hk
    rw [get_scalApply, get_matApply, hgeq2 k hk, hd, hd]
    apply PS.ext' <;> simp [PS.dmul, h22, h0, h1] <;> ring
  · intro k hk; rw [hgeq1 k hk, hgeq2 k hk]

/-! ### rotations -/

theorem T_same_axis (a b p : ℂ) (v : PS ℂ) :
    PS.mmul (coeffT a p) (PS.mmul (coeffT b p) v) = PS.mmul (coeffT (a + b) p) v := by
  apply PS.ext' <;>
  · simp only [PS.mmul, coeffT]
    ex_unfold
    simp only [envOf, List.getD_cons_zero, List.getD_cons_succ, mul_add, Complex.cos_add, Complex.sin_add,
      neg_mul, mul_neg, Complex.exp_neg]
    have hE0 : Complex.exp (Complex.I * ((Real.pi : ℂ) / 180 * p)) ≠ 0 := Complex.exp_ne_zero _
    have hI : Complex.I ^ 2 = -1 := Complex.I_sq
    push_cast
    field_simp
    grind

theorem T_offset (a p o : ℂ) (v : PS ℂ) :
    PS.mmul (coeffPhi o) (PS.mmul (coeffT a p) (PS.mmul (coeffPhi (-o)) v)) = PS.mmul (coeffT a (p + o)) v := by
  apply PS.ext' <;>
  · simp only [PS.mmul, coeffT, coeffPhi]
    ex_unfold
    simp only [envOf, List.getD_cons_zero, List.getD_cons_succ, mul_add, Complex.exp_add,
      neg_mul, mul_neg, Complex.exp_neg, neg_neg]
    have hE0 : Complex.exp (Complex.I * ((Real.pi : ℂ) / 180 * p)) ≠ 0 := Complex.exp_ne_zero _
    have hE1 : Complex.exp (Complex.I * ((Real.pi : ℂ) / 180 * o)) ≠ 0 := Complex.exp_ne_zero _
    push_cast
    field_simp
    ring

theorem T_phase_180 (a p : ℂ) (v : PS ℂ) :
    PS.mmul (coeffT a (p + 180)) v = PS.mmul (coeffT (-a) p) v := by
  have hpi : Complex.exp (Complex.I * (Real.pi : ℂ)) = -1 := by
    rw [mul_comm]; exact Complex.exp_pi_mul_I
  have h180 : (Real.pi : ℂ) / 180 * 180 = (Real.pi : ℂ) := by field_simp
  apply PS.ext' <;>
  · simp only [PS.mmul, coeffT]
    ex_unfold
    simp only [envOf, List.getD_cons_zero, List.getD_cons_succ, mul_add, Complex.exp_add, h180, hpi,
      neg_mul, mul_neg, Complex.exp_neg, Complex.cos_neg, Complex.sin_neg]
    have hE0 : Complex.exp (Complex.I * ((Real.pi : ℂ) / 180 * p)) ≠ 0 := Complex.exp_ne_zero _
    have hpi2 : Complex.exp ((Real.pi : ℂ) * Complex.I) = -1 := Complex.exp_pi_mul_I
    push_cast
    field_simp
    simp only [hpi, hpi2]
    ring

theorem T_zero (p : ℂ) (v : PS ℂ) : PS.mmul (coeffT 0 p) v = v := by
  apply PS.ext' <;>
  · simp only [PS.mmul, coeffT]
    ex_unfold
    simp only [envOf, List.getD_cons_zero, List.getD_cons_succ, mul_zero, Complex.cos_zero, Complex.sin_zero,
      neg_mul, mul_neg, Complex.exp_neg]
    have hE0 : Complex.exp (Complex.I * ((Real.pi : ℂ) / 180 * p)) ≠ 0 := Complex.exp_ne_zero _
    push_cast
    field_simp
    ring

theorem Phi_diag (o : ℂ) (v : PS ℂ) : PS.mmul (coeffPhi o) v = PS.dmul (fun i => coeffPhi o i i) v := by
  apply PS.ext' <;> simp [PS.mmul, PS.dmul, coeffPhi, Coeff.Phi.mat, Ex.eval]

theorem Phi_22 (o : ℂ) : coeffPhi o 2 2 = 1 := by simp [coeffPhi, Coeff.Phi.mat, Ex.eval]

theorem Phi_inverse (o : ℂ) (v : PS ℂ) : PS.mmul (coeffPhi o) (PS.mmul (coeffPhi (-o)) v) = v := by
  apply PS.ext' <;>
  · simp only [PS.mmul, coeffPhi]
    ex_unfold
    simp only [envOf, List.getD_cons_zero, mul_neg, Complex.exp_neg, neg_neg]
    have hE1 : Complex.exp (Complex.I * ((Real.pi : ℂ) / 180 * o)) ≠ 0 := Complex.exp_ne_zero _
    push_cast
    field_simp
    try ring

/-- longitudinal magnetisation of the equilibrium after a rotation: the cosine of the flip angle -/
theorem T_equilibrium_z (a p : ℂ) : (PS.mmul (coeffT a p) ⟨0, 0, 1⟩).z = Complex.cos ((Real.pi : ℂ) / 180 * a) := by
  simp only [PS.mmul, coeffT]
  ex_unfold
  simp [envOf]

end EpgVerif
