import EpgVerif.Lemmas.Cx
/-
  Symbolic differentiation preserves definedness: the derivative expression only divides by denominators
  (and their squares) that the original expression already divides by.
-/
namespace EpgVerif
namespace Ex

variable (env : Nat → ℂ)

theorem defined_add' {a b : Ex} (ha : Defined env a) (hb : Defined env b) : Defined env (add' a b) := by
  unfold add'; split <;> simp_all [Defined]
theorem defined_neg' {a : Ex} (ha : Defined env a) : Defined env (neg' a) := by
  unfold neg'; split <;> simp_all [Defined]
theorem defined_sub' {a b : Ex} (ha : Defined env a) (hb : Defined env b) : Defined env (sub' a b) := by
  unfold sub'; split
  · exact ha
  · exact defined_neg' env hb
  · exact ⟨ha, hb⟩
theorem defined_mul' {a b : Ex} (ha : Defined env a) (hb : Defined env b) : Defined env (mul' a b) := by
  unfold mul'; split <;> simp_all [Defined]
theorem defined_div' {a b : Ex} (ha : Defined env a) (hb : Defined env b) (h0 : eval env b ≠ 0) :
    Defined env (div' a b) := by
  unfold div'; split <;> simp_all [Defined]
theorem defined_conj' {a : Ex} (ha : Defined env a) : Defined env (conj' a) := by
  unfold conj'; split <;> simp_all [Defined]
theorem defined_pow' {a : Ex} (ha : Defined env a) (n : Nat) : Defined env (pow' a n) := by
  unfold pow'; split <;> simp_all [Defined]

/-- the derivative expression is defined wherever the expression is -/
theorem defined_d (i : Nat) : ∀ (e : Ex), Defined env e → Defined env (d i e)
  | zero, _ => by simp [d, Defined]
  | one, _ => by simp [d, Defined]
  | const _, _ => by simp [d, Defined]
  | I, _ => by simp [d, Defined]
  | pi, _ => by simp [d, Defined]
  | var j, _ => by unfold d; split <;> simp [Defined]
  | add a b, h => defined_add' env (defined_d i a h.1) (defined_d i b h.2)
  | sub a b, h => defined_sub' env (defined_d i a h.1) (defined_d i b h.2)
  | mul a b, h =>
    defined_add' env (defined_mul' env (defined_d i a h.1) h.2) (defined_mul' env h.1 (defined_d i b h.2))
  | div a b, h => by
    have ha := defined_d i a h.1
    have hb := defined_d i b h.2.1
    have hb0 : eval env b ≠ 0 := h.2.2
    unfold d
    split
    · exact defined_div' env ha h.2.1 hb0
    · refine ⟨defined_sub' env (defined_mul' env ha h.2.1) (defined_mul' env h.1 hb), ⟨h.2.1, h.2.1⟩, ?_⟩
      simp only [eval]
      exact mul_ne_zero hb0 hb0
  | neg a, h => defined_neg' env (defined_d i a h)
  | exp a, h => defined_mul' env (defined_d i a h) h
  | cos a, h => defined_neg' env (defined_mul' env (defined_d i a h) h)
  | sin a, h => defined_mul' env (defined_d i a h) h
  | conj a, h => defined_conj' env (defined_d i a h)
  | pow a 0, _ => by simp [d, Defined]
  | pow a (n + 1), h => by
    unfold d
    have ha : Defined env a := h
    exact defined_mul' env (defined_mul' env (by simp [Defined]) (defined_pow' env ha n)) (defined_d i a ha)

end Ex
end EpgVerif
