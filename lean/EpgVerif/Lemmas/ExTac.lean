import EpgVerif.Lemmas.Cx
import EpgVerif.Model.Coeff
/-
  The normalising tactic used by the generated tie obligations
  `eval env Gen.x = eval env Model.x` (entry-wise, at ℂ).
-/
namespace EpgVerif.Tie
open EpgVerif Ex Complex

macro "ex_unfold" : tactic => `(tactic|
  simp (config := {decide := true}) only [Coeff.T.mat, Coeff.T.ph, Coeff.T.rx, Coeff.T.a, Coeff.T.p,
    Coeff.rad, Coeff.two_pi_i, Coeff.Phi.mat, Coeff.Phi.p, Coeff.E.arr, Coeff.E.arr0, Coeff.E.rT,
    Coeff.E.rL, Coeff.P.arr, Coeff.P.arr0, Coeff.P.rT, Coeff.R.arr, Coeff.R.arr0,
    Ex.eval, Ex.d, Ex.add', Ex.sub', Ex.mul', Ex.div', Ex.neg', Ex.conj', Ex.pow', expc_C, cos_C,
    sin_C, pi_C, I_C, ofRat_C, conj_C, powNat_eq_pow, if_true, if_false,
    Nat.succ_ne_zero, OfNat.ofNat_ne_zero, one_ne_zero, zero_ne_one])

macro "ex_core" : tactic => `(tactic|
  (push_cast; (try simp only [Complex.sin_sq, Complex.cos_sq]); (try field_simp); (try ring_nf);
   (try simp only [Complex.I_sq, Complex.I_pow_three, Complex.I_pow_four]); (try ring); (try simp); done))

/-- distribute complex conjugation; parameters are real (hypothesis `hr` in context) -/
macro "ex_conj" : tactic => `(tactic|
  simp only [map_mul, map_add, map_sub, map_neg, map_div₀, map_inv₀, map_pow, map_one, map_zero,
    map_ofNat, map_ratCast, map_natCast, map_intCast, Complex.conj_I, Complex.conj_ofReal,
    ← Complex.exp_conj, ← Complex.cos_conj, ← Complex.sin_conj, *])

/-- closes `eval env e₁ = eval env e₂` for the closed forms of epgpy -/
macro "ex_eq" : tactic => `(tactic|
  (ex_unfold;
   first | done | (refine congrArg (starRingEnd ℂ) ?_; ex_core) | ex_core | ((try ex_conj); ex_core)))

end EpgVerif.Tie
