import EpgVerif.Lemmas.StateLemmas
import EpgVerif.Lemmas.Cx
/-
  Pointwise characterisation (`get k`, `geq k` for every `k : ℤ`) of the operators of
  `Model/Ops.lean` at `K := ℂ`.
-/
namespace EpgVerif
open SM

@[simp] theorem PS.mk_zero : (⟨0, 0, 0⟩ : PS ℂ) = 0 := rfl
@[simp] theorem PS.zero_fp : (0 : PS ℂ).fp = 0 := rfl
@[simp] theorem PS.zero_fm : (0 : PS ℂ).fm = 0 := rfl
@[simp] theorem PS.zero_z : (0 : PS ℂ).z = 0 := rfl
@[simp] theorem PS.mmul_zero (m : Nat → Nat → ℂ) : PS.mmul m (0 : PS ℂ) = 0 := by
  apply PS.ext' <;> simp [PS.mmul]
@[simp] theorem PS.dmul_zero (a : Nat → ℂ) : PS.dmul a (0 : PS ℂ) = 0 := by
  apply PS.ext' <;> simp [PS.dmul]
@[simp] theorem PS.add_fp (a b : PS ℂ) : (a + b).fp = a.fp + b.fp := rfl
@[simp] theorem PS.add_fm (a b : PS ℂ) : (a + b).fm = a.fm + b.fm := rfl
@[simp] theorem PS.add_z (a b : PS ℂ) : (a + b).z = a.z + b.z := rfl
@[simp] theorem PS.add_zero' (a : PS ℂ) : a + 0 = a := by apply PS.ext' <;> simp
@[simp] theorem PS.zero_add' (a : PS ℂ) : 0 + a = a := by apply PS.ext' <;> simp

/-- the equilibrium is `[0,0,pd]` at `k = 0` and zero elsewhere -/
def EqWF (s : SM ℂ) (pd : ℂ) : Prop := ∀ k, s.geq k = if k = 0 then ⟨0, 0, pd⟩ else 0

theorem inRange_zero (n : Nat) : inRange n 0 = true := by simp [inRange]

theorem eqwf_mk' {s : SM ℂ} {pd : ℂ} (h : EqWF s pd) (n : Nat) (f : Int → PS ℂ) :
    EqWF (mk' n f s.geq) pd := by
  intro k
  rw [geq_mk', h k]
  by_cases hk : k = 0
  · subst hk; simp [inRange_zero]
  · simp [hk]

theorem get_matApply (m : Nat → Nat → ℂ) (s : SM ℂ) (k : Int) :
    (matApply m s).get k = PS.mmul m (s.get k) := by
  unfold matApply
  rw [get_mk']
  by_cases h : inRange s.n k = true
  · simp [h]
  · simp only [h]; rw [get_of_not_inRange s k (by simpa using h)]; simp

theorem get_scalApply (a a0 : Nat → ℂ) (s : SM ℂ) (k : Int) :
    (scalApply a a0 s).get k = PS.dmul a (s.get k) + PS.dmul a0 (s.geq k) := by
  unfold scalApply
  rw [get_mk']
  by_cases h : inRange s.n k = true
  · simp [h]
  · simp only [h]
    rw [get_of_not_inRange s k (by simpa using h), geq_of_not_inRange s k (by simpa using h)]; simp

theorem get_resize_of_le (s : SM ℂ) (n' : Nat) (h : s.n ≤ n') (k : Int) :
    (s.resize n').get k = s.get k := by
  unfold resize
  rw [get_mk']
  by_cases hk : inRange n' k = true
  · simp [hk]
  · simp only [hk]
    symm
    apply get_of_not_inRange
    have : ¬ (-(n' : Int) ≤ k ∧ k ≤ n') := by rwa [← inRange_iff]
    cases hr : inRange s.n k
    · rfl
    · rw [inRange_iff] at hr; omega

theorem geq_resize (s : SM ℂ) (n' : Nat) (k : Int) :
    (s.resize n').geq k = if inRange n' k then s.geq k else 0 := by
  unfold resize; rw [geq_mk']

/-- untruncated 1-D shift, for every `k : ℤ` -/
theorem get_shift1d_untruncated (m : Int) (s : SM ℂ) (k : Int) :
    (shift1d {} m none s).get k = ⟨(s.get (k - m)).fp, (s.get (k + m)).fm, (s.get k).z⟩ := by
  simp only [shift1d, shiftCore]
  rw [get_mk']
  have hres : ∀ j, (s.resize (s.n + m.natAbs)).get j = s.get j :=
    fun j => get_resize_of_le s _ (Nat.le_add_right _ _) j
  simp only [hres, mk'_n]
  by_cases hk : inRange (s.resize (s.n + m.natAbs)).n k = true
  · simp [hk]
  · simp only [hk]
    have hn : (s.resize (s.n + m.natAbs)).n = s.n + m.natAbs := rfl
    rw [hn] at hk
    have hk' : ¬ (-((s.n + m.natAbs : Nat) : Int) ≤ k ∧ k ≤ ((s.n + m.natAbs : Nat) : Int)) := by
      rwa [← inRange_iff]
    have out : ∀ j : Int, ¬ (-(s.n : Int) ≤ j ∧ j ≤ s.n) → s.get j = 0 := by
      intro j hj
      apply get_of_not_inRange
      cases hr : inRange s.n j
      · rfl
      · rw [inRange_iff] at hr; exact absurd hr hj
    have hm : m = (m.natAbs : Int) ∨ m = -(m.natAbs : Int) := Int.natAbs_eq m
    simp only [Nat.cast_add] at hk'
    have h1 : s.get (k - m) = 0 := out _ (by rcases hm with h | h <;> omega)
    have h2 : s.get (k + m) = 0 := out _ (by rcases hm with h | h <;> omega)
    have h3 : s.get k = 0 := out _ (by rcases hm with h | h <;> omega)
    rw [h1, h2, h3]; rfl

end EpgVerif
