import Mathlib.Data.String.Basic
import EpgVerif.Lemmas.DiffLemmas
/-
  Second-order bookkeeping (`Diff.applyOrder2`): value under every sorted variable pair, and the
  mirrored keys.
-/
namespace EpgVerif.Diff
variable {K C : Type} [Semiring K] [AddCommMonoid C] [Module K C]

/-- a sorted pair (`Pair(a, b)` of diff.py) -/
def Sorted (k : VPair) : Prop := ¬ (k.1 > k.2)

theorem sorted_pair (a b : String) : Sorted (pair a b) := by
  unfold pair Sorted
  by_cases h : a > b
  · simp only [h, if_true]; exact lt_asymm h
  · simp only [h, if_false]; simpa using h

theorem sorted_pairOf (p : VPair) : Sorted (pairOf p) := sorted_pair _ _

theorem pair_eq_of_sorted (k : VPair) (h : Sorted k) : pair k.1 k.2 = k := by
  unfold pair; unfold Sorted at h; simp [h]

theorem pair_comm (a b : String) : pair a b = pair b a := by
  unfold pair
  by_cases h1 : a > b
  · have : ¬ b > a := lt_asymm h1
    simp [h1, this]
  · by_cases h2 : b > a
    · simp [h1, h2]
    · have : a = b := le_antisymm (not_lt.mp h1) (not_lt.mp h2)
      subst this; simp

/-- the mirroring loop at the end of `_apply_order2` -/
def mirror (res : List (VPair × C)) : List (VPair × C) :=
  res.foldl (fun acc e => if e.1.1 = e.1.2 then acc else insert acc (e.1.2, e.1.1) e.2) res

private theorem mirror_step_sorted (l : List (VPair × C)) (hl : KeysAll Sorted l) (acc : List (VPair × C))
    (k : VPair) (hk : Sorted k) :
    val (l.foldl (fun acc e => if e.1.1 = e.1.2 then acc else insert acc (e.1.2, e.1.1) e.2) acc) k
      = val acc k := by
  induction l generalizing acc with
  | nil => rfl
  | cons e l ih =>
    simp only [List.foldl_cons]
    rw [ih (fun x hx => hl x (List.mem_cons_of_mem _ hx))]
    by_cases he : e.1.1 = e.1.2
    · simp [he]
    · simp only [he, if_false, val_insert]
      have hes : Sorted e.1 := hl e List.mem_cons_self
      have : k ≠ (e.1.2, e.1.1) := by
        intro hkk
        unfold Sorted at hk hes
        rw [hkk] at hk
        simp only at hk
        exact he (le_antisymm (not_lt.mp hes) (not_lt.mp hk))
      simp [this]

/-- sorted keys keep their value through the mirroring loop -/
theorem val_mirror_sorted (res : List (VPair × C)) (hs : KeysAll Sorted res) (k : VPair) (hk : Sorted k) :
    val (mirror res) k = val res k := mirror_step_sorted res hs res k hk

private theorem mirror_step_swapped (l : List (VPair × C)) (hn : KeysNodup l) (acc : List (VPair × C))
    (a b : String) (hab : a ≠ b) :
    val (l.foldl (fun acc e => if e.1.1 = e.1.2 then acc else insert acc (e.1.2, e.1.1) e.2) acc) (b, a)
      = if hasKey l (a, b) then val l (a, b) else val acc (b, a) := by
  induction l generalizing acc with
  | nil => simp [hasKey]
  | cons e l ih =>
    simp only [List.foldl_cons]
    unfold KeysNodup at hn
    simp only [List.map_cons, List.nodup_cons] at hn
    rw [ih hn.2]
    by_cases he : e.1 = (a, b)
    · have h1 : e.1.1 = a := by rw [he]
      have h2 : e.1.2 = b := by rw [he]
      have hne : ¬ e.1.1 = e.1.2 := by rw [h1, h2]; exact hab
      have hnot : hasKey l (a, b) = false := by
        simp only [hasKey, List.any_eq_false, decide_eq_true_eq]
        intro x hx hx1
        exact hn.1 (by rw [he, ← hx1]; exact List.mem_map_of_mem hx)
      have hk : hasKey (e :: l) (a, b) = true := by simp [hasKey, he]
      simp only [hnot, hk, if_false, if_true, Bool.false_eq_true]
      rw [if_neg hne, val_insert, h1, h2]
      simp [val, lookup_cons, he]
    · have hk : hasKey (e :: l) (a, b) = hasKey l (a, b) := by simp [hasKey, he]
      rw [hk]
      by_cases hl : hasKey l (a, b) = true
      · simp only [hl, if_true]
        simp [val, lookup_cons, he]
      · simp only [hl, if_false, Bool.false_eq_true]
        by_cases hee : e.1.1 = e.1.2
        · simp [hee]
        · simp only [hee, if_false, val_insert]
          have : (b, a) ≠ (e.1.2, e.1.1) := by
            intro h
            apply he
            have h1 : b = e.1.2 := congrArg Prod.fst h
            have h2 : a = e.1.1 := congrArg Prod.snd h
            rw [h1, h2]
          simp [this]

/-- the mirrored key holds the value of the sorted key: `order2[(b,a)] is order2[(a,b)]` -/
theorem val_mirror_swapped (res : List (VPair × C)) (hs : KeysAll Sorted res) (hn : KeysNodup res)
    (a b : String) (hab : a ≠ b) (hsab : Sorted (a, b)) :
    val (mirror res) (b, a) = val res (a, b) := by
  unfold mirror
  rw [mirror_step_swapped res hn res a b hab]
  by_cases hk : hasKey res (a, b) = true
  · simp [hk]
  · simp only [hk, if_false, Bool.false_eq_true]
    -- neither key is present: both values are zero
    have h1 : lookup res (a, b) = none := by
      have := hasKey_iff_lookup res (a, b)
      cases hl : lookup res (a, b) with
      | none => rfl
      | some x => rw [hl] at this; simp at this; exact absurd this hk
    have h2 : lookup res (b, a) = none := by
      cases hl : lookup res (b, a) with
      | none => rfl
      | some x =>
        exfalso
        have hk2 : hasKey res (b, a) = true := by rw [hasKey_iff_lookup, hl]; rfl
        simp only [hasKey, List.any_eq_true, decide_eq_true_eq] at hk2
        obtain ⟨e, he, he1⟩ := hk2
        have hse := hs e he
        rw [he1] at hse
        unfold Sorted at hse hsab
        simp only at hse hsab
        exact hab (le_antisymm (not_lt.mp hsab) (not_lt.mp hse))
    simp [val, h1, h2]


/-- input dictionary with mirrored duplicates removed (`{Pair(pair): order2[pair]}`) -/
def normalize (o2 : List (VPair × C)) : List (VPair × C) :=
  o2.foldl (fun acc e => insert acc (pairOf e.1) e.2) []

theorem keysAll_termsA (op : DOp K C) (s : C) : KeysAll Sorted (termsA (modCar (K := K)) op s) := by
  intro e he
  simp only [termsA, List.mem_flatMap, List.mem_map] at he
  obtain ⟨x, _, pc, _, rfl⟩ := he
  exact sorted_pairOf _

theorem keysAll_termsB (op : DOp K C) (s : C) : KeysAll Sorted (termsB (modCar (K := K)) op s) := by
  intro e he
  simp only [termsB, List.mem_flatMap, List.mem_filterMap] at he
  obtain ⟨x, _, p1, _, p2, _, h⟩ := he
  by_cases hs : supported op p1.1 p2.1 = true
  · simp only [hs, if_true, Option.some.injEq] at h
    rw [← h]; exact sorted_pairOf _
  · simp [hs] at h

theorem keysAll_termsX (op : DOp K C) (o1 : List (Var × C)) (keep : Var → Var → Bool) :
    KeysAll Sorted (termsX (modCar (K := K)) op o1 keep) := by
  intro e he
  simp only [termsX, List.mem_flatMap] at he
  obtain ⟨b, _, a, _, h⟩ := he
  split at h
  · simp only [List.mem_map] at h
    obtain ⟨pc, _, rfl⟩ := h
    exact sorted_pair _ _
  · simp at h

theorem keysAll_append {κ : Type} (P : κ → Prop) (l m : List (κ × C)) (hl : KeysAll P l) (hm : KeysAll P m) :
    KeysAll P (l ++ m) := by
  intro e he
  rcases List.mem_append.mp he with h | h
  · exact hl e h
  · exact hm e h

/-- the accumulated dictionary before mirroring -/
def preMirror (op : DOp K C) (s : C) (o1 : List (Var × C)) (o2 : List (VPair × C)) : List (VPair × C) :=
  (termsA (modCar (K := K)) op s ++ termsB (modCar (K := K)) op s
      ++ termsX (modCar (K := K)) op o1 (fun v1 v2 => v1 ≥ v2)
      ++ termsX (modCar (K := K)) op o1 (fun v1 v2 => v1 ≤ v2)).foldl
    (fun acc e => addTo (modCar (K := K) (C := C)).add acc e.1 e.2)
    ((normalize o2).map (fun e => (e.1, op.derive0 e.2)))

theorem applyOrder2_eq (op : DOp K C) (s : C) (o1 : List (Var × C)) (o2 : List (VPair × C)) :
    applyOrder2 (modCar (K := K)) op s o1 o2 = mirror (preMirror op s o1 o2) := rfl

theorem keysAll_preMirror (op : DOp K C) (s : C) (o1 : List (Var × C)) (o2 : List (VPair × C)) :
    KeysAll Sorted (preMirror op s o1 o2) := by
  unfold preMirror
  apply keysAll_foldl_addTo
  · exact keysAll_append _ _ _ (keysAll_append _ _ _ (keysAll_append _ _ _ (keysAll_termsA op s)
      (keysAll_termsB op s)) (keysAll_termsX op o1 _)) (keysAll_termsX op o1 _)
  · apply keysAll_map_values
    unfold normalize
    exact keysAll_foldl_insert Sorted o2 (fun e => pairOf e.1) (fun e => e.2)
      (fun x _ => sorted_pairOf _) [] (by intro e he; simp at he)

theorem keysNodup_preMirror (op : DOp K C) (s : C) (o1 : List (Var × C)) (o2 : List (VPair × C)) :
    KeysNodup (preMirror op s o1 o2) := by
  unfold preMirror
  apply keysNodup_foldl_addTo
  apply keysNodup_map_values
  unfold normalize
  exact keysNodup_foldl_insert o2 (fun e => pairOf e.1) (fun e => e.2) [] (by simp [KeysNodup])

/-- **`_apply_order2`, value level** (sorted key): the operator applied to the previous second
    partial, plus *every* term of the four families, each exactly once. -/
theorem val_applyOrder2 (op : DOp K C) (h0 : op.derive0 0 = 0) (s : C) (o1 : List (Var × C))
    (o2 : List (VPair × C)) (k : VPair) (hk : Sorted k) :
    val (applyOrder2 (modCar (K := K)) op s o1 o2) k
      = op.derive0 (val (normalize o2) k)
        + tot (termsA (modCar (K := K)) op s) k
        + tot (termsB (modCar (K := K)) op s) k
        + tot (termsX (modCar (K := K)) op o1 (fun v1 v2 => v1 ≥ v2)) k
        + tot (termsX (modCar (K := K)) op o1 (fun v1 v2 => v1 ≤ v2)) k := by
  rw [applyOrder2_eq, val_mirror_sorted _ (keysAll_preMirror op s o1 o2) k hk]
  unfold preMirror
  have : ∀ (l d : List (VPair × C)),
      (l.foldl (fun acc e => addTo (modCar (K := K) (C := C)).add acc e.1 e.2) d)
        = l.foldl (fun acc e => addTo (· + ·) acc e.1 e.2) d := fun _ _ => rfl
  rw [this, val_foldl_addTo, val_map_values _ _ h0, tot_append, tot_append, tot_append]
  simp only [add_assoc]

/-- **H[a,b] = H[b,a]**: the mirrored key carries the value of the sorted key. -/
theorem applyOrder2_symm (op : DOp K C) (s : C) (o1 : List (Var × C)) (o2 : List (VPair × C))
    (a b : String) (hab : a ≠ b) (hs : Sorted (a, b)) :
    val (applyOrder2 (modCar (K := K)) op s o1 o2) (b, a)
      = val (applyOrder2 (modCar (K := K)) op s o1 o2) (a, b) := by
  rw [applyOrder2_eq, val_mirror_swapped _ (keysAll_preMirror op s o1 o2) (keysNodup_preMirror op s o1 o2) a b hab hs,
    val_mirror_sorted _ (keysAll_preMirror op s o1 o2) (a, b) hs]

end EpgVerif.Diff
