import EpgVerif.Model.Bloch
/-
  n-D / time-accumulating state matrices (shift.py `shift-nd`, coords of statematrix.py): a state matrix
  with coordinates is a finite table  wavenumber-index ↦ (F+, F-, Z).  Generic in the index type `κ`
  (run at `K4` = (kx, ky, kz, t) by the driver; reasoned about for any commutative group).
-/
namespace EpgVerif

/-- coordinates of a phase state: three spatial wavenumber indices and the time-accumulation index -/
structure K4 where
  x : Int
  y : Int
  z : Int
  t : Int
deriving DecidableEq, Inhabited, Repr

namespace K4
instance : Add K4 := ⟨fun a b => ⟨a.x + b.x, a.y + b.y, a.z + b.z, a.t + b.t⟩⟩
instance : Sub K4 := ⟨fun a b => ⟨a.x - b.x, a.y - b.y, a.z - b.z, a.t - b.t⟩⟩
instance : Neg K4 := ⟨fun a => ⟨-a.x, -a.y, -a.z, -a.t⟩⟩
instance : Zero K4 := ⟨⟨0, 0, 0, 0⟩⟩
/-- largest spatial index in modulus -/
def spatial (k : K4) : Nat := max k.x.natAbs (max k.y.natAbs k.z.natAbs)
end K4

variable {κ K : Type}

/-- table of phase states with their coordinates, and the proton density of the equilibrium -/
structure NDS (κ K : Type) where
  ent : List (κ × PS K)
  pd : K

namespace NDS
variable [DecidableEq κ] [Zero K]

def keys (s : NDS κ K) : List κ := s.ent.map (·.1)

/-- state at coordinate `k` (zero when not stored) -/
def get (s : NDS κ K) (k : κ) : PS K :=
  match s.ent.find? (fun e => e.1 = k) with
  | some e => e.2
  | none => 0

/-- materialise a function on a list of coordinates -/
def ofFun (ks : List κ) (f : κ → PS K) (pd : K) : NDS κ K := ⟨ks.map (fun k => (k, f k)), pd⟩

def addKey (acc : List κ) (k : κ) : List κ := if k ∈ acc then acc else acc ++ [k]
/-- `unique` of a list of coordinates (order of first occurrence; the order carries no meaning) -/
def uniq (ks : List κ) : List κ := ks.foldl addKey []

def init (zero : κ) (pd : K) : NDS κ K := ⟨[(zero, ⟨0, 0, pd⟩)], pd⟩
end NDS

section ops
variable [DecidableEq κ] [Add κ] [Sub κ] [Neg κ] [Zero κ]
variable [Add K] [Sub K] [Mul K] [Neg K] [Div K] [Zero K] [One K] [Conj K] [Transc K]

/-- action of a non-shifting operator on one phase state, `eq` = its equilibrium row -/
def pointOp (op : Op K) (eq : PS K) (v : PS K) : PS K :=
  match op with
  | .T a p => PS.mmul (coeffT a p) v
  | .Phi p => PS.mmul (coeffPhi p) v
  | .E tau T1 T2 g =>
      let env := envOf [tau, T1, T2, g]
      PS.dmul (fun i => Ex.eval env (Coeff.E.arr i)) v + PS.dmul (fun i => Ex.eval env (Coeff.E.arr0 i)) eq
  | .P tau g =>
      let env := envOf [tau, g]
      PS.dmul (fun i => Ex.eval env (Coeff.P.arr i)) v
  | .R rT rL r0 =>
      let env := envOf [rT, rL, r0.getD 0]
      PS.dmul (fun i => Ex.eval env (Coeff.R.arr i)) v
        + (match r0 with
           | some _ => PS.dmul (fun i => Ex.eval env (Coeff.R.arr0 i)) eq
           | none => 0)
  | .Spoiler => ⟨0, 0, v.z⟩
  | _ => v

/-- equilibrium row of coordinate `k`: `[0, 0, pd]` at the origin, zero elsewhere -/
def eqRow (pd : K) (k : κ) : PS K := if k = 0 then ⟨0, 0, pd⟩ else 0

/-- non-shifting operators act on every stored phase state -/
def NDS.point (op : Op K) (s : NDS κ K) : NDS κ K :=
  NDS.ofFun s.keys (fun k => pointOp op (eqRow s.pd k) (s.get k)) s.pd

/-- `shiftnd` (pruning off, no cap): new coordinates `unique{k, k+g, k−g}`; Z stays, F+ moves by `+g`,
    F- is rebuilt as the conjugate mirror of F+ -/
def NDS.shift (g : κ) (s : NDS κ K) : NDS κ K :=
  let ks := NDS.uniq (s.keys ++ s.keys.map (· + g) ++ s.keys.map (· - g))
  NDS.ofFun ks (fun k => ⟨(s.get (k - g)).fp, conj (s.get (-k - g)).fp, (s.get k).z⟩) s.pd

/-- `shiftnd` under a state cap (`max_nstate` / `nmax`): after the shift, the rows whose size exceeds `n` are dropped;
    for `K4` the size is the largest *spatial* index (the accumulated-time column is not capped) -/
def NDS.capShift (size : κ → Nat) (n : Nat) (g : κ) (s : NDS κ K) : NDS κ K :=
  let s' := s.shift g
  ⟨s'.ent.filter (fun e => size e.1 ≤ n), s'.pd⟩

inductive NOp (κ K : Type) where
  | pt (op : Op K)
  | shift (g : κ)

def NDS.apply (s : NDS κ K) : NOp κ K → NDS κ K
  | .pt op => s.point op
  | .shift g => s.shift g

def NDS.run (s : NDS κ K) (ops : List (NOp κ K)) : NDS κ K := ops.foldl NDS.apply s

/-- the same program under a state cap -/
def NDS.capApply (size : κ → Nat) (n : Nat) (s : NDS κ K) : NOp κ K → NDS κ K
  | .pt op => s.point op
  | .shift g => s.capShift size n g

def NDS.capRun (size : κ → Nat) (n : Nat) (s : NDS κ K) (ops : List (NOp κ K)) : NDS κ K :=
  ops.foldl (NDS.capApply size n) s

/-- SPECIFICATION: Bloch isochromat whose position / off-resonance is the character `χ` of the wavenumber
    group: a shift by `g` is a precession by the phase of `χ g` -/
def blochStepN (χ : κ → K) (pd : K) : NOp κ K → PS K → PS K
  | .pt op, m => pointOp op ⟨0, 0, pd⟩ m
  | .shift g, m => ⟨χ g * m.fp, χ (-g) * m.fm, m.z⟩

def blochRunN (χ : κ → K) (pd : K) (ops : List (NOp κ K)) (m : PS K) : PS K :=
  ops.foldl (fun m op => blochStepN χ pd op m) m

/-- inverse Fourier sum over the stored states -/
def NDS.synthExec (χ : κ → K) (s : NDS κ K) : PS K :=
  s.ent.foldl (fun acc e => acc + PS.smul (χ e.1) e.2) 0

end ops
end EpgVerif
