import EpgVerif.Model.ND
/-
  `diffusion.compute_bmatrix`, `diffusion.diffusion_operator`, `D._apply` on the coordinate-table model.
  Vectors and matrices are functions of indices `< d` (d ≤ 3 spatial axes).
-/
namespace EpgVerif
namespace Diff5
variable {K : Type} [Add K] [Sub K] [Mul K] [Neg K] [Div K] [Zero K] [One K] [Conj K] [Transc K]

def milli : K := ofRat ((1 : Rat) / 1000)

/-- `compute_bmatrix(tau, k1)`: constant wavenumber (units: ms → s, rad/m → rad/mm) -/
def bmatConst (tau : K) (k1 : Nat → K) (i j : Nat) : K :=
  (k1 i * milli) * (k1 j * milli) * (tau * milli)

/-- `compute_bmatrix(tau, k1, k2)`: wavenumber ramping linearly from `k1` to `k2` -/
def bmatRamp (tau : K) (k1 k2 : Nat → K) (i j : Nat) : K :=
  let a := fun n => k1 n * milli
  let d := fun n => k2 n * milli - k1 n * milli
  a i * a j * (tau * milli)
    + (tau * milli) * (ofRat ((1 : Rat) / 2) * (a i * d j) + ofRat ((1 : Rat) / 2) * (d i * a j) + ofRat ((1 : Rat) / 3) * (d i * d j))

def sumTo (d : Nat) (f : Nat → K) : K := (List.range d).foldl (fun acc i => acc + f i) 0

/-- `diffusion_operator` for a scalar diffusivity: `exp(-Tr(b) D)` -/
def attScalar (d : Nat) (b : Nat → Nat → K) (D : K) : K := expc (-(sumTo d (fun i => b i i)) * D)

/-- `diffusion_operator` for a tensor: `exp(-sum(b * D))` -/
def attTensor (d : Nat) (b : Nat → Nat → K) (D : Nat → Nat → K) : K :=
  expc (-(sumTo d (fun i => sumTo d (fun j => b i j * D i j))))

inductive Diffusivity (K : Type) where
  | scalar (D : K)
  | tensor (D : Nat → Nat → K)

def att (d : Nat) (b : Nat → Nat → K) : Diffusivity K → K
  | .scalar D => attScalar d b D
  | .tensor D => attTensor d b D

variable {κ : Type} [DecidableEq κ] [Neg κ]

/-- `D._apply`: longitudinal states see the constant wavenumber `k`, transverse states the ramp from
    `k − shift` to `k` (or the constant `k` when no shift is given); F- is rebuilt from F+ -/
def diffuse (d : Nat) (wave : κ → Nat → K) (tau : K) (D : Diffusivity K) (shift : Option (Nat → K)) (s : NDS κ K) : NDS κ K :=
  let DL := fun k => att d (bmatConst tau (wave k)) D
  let DT := fun k => match shift with
    | none => DL k
    | some g => att d (bmatRamp tau (fun n => wave k n - g n) (wave k)) D
  NDS.ofFun s.keys (fun k => ⟨DT k * (s.get k).fp, conj (DT (-k) * (s.get (-k)).fp), DL k * (s.get k).z⟩) s.pd

end Diff5
end EpgVerif
