import EpgVerif.Model.Scalar
/-
  `CF`: complex numbers as pairs of IEEE doubles, the scalar at which `Driver`
  executes the model.  Nothing is proved about `CF`; it is the executable reading
  of the polymorphic model (DESIGN §4).
-/
namespace EpgVerif

structure CF where
  re : Float
  im : Float
deriving Inhabited

namespace CF
instance : Add CF := ⟨fun a b => ⟨a.re + b.re, a.im + b.im⟩⟩
instance : Sub CF := ⟨fun a b => ⟨a.re - b.re, a.im - b.im⟩⟩
instance : Neg CF := ⟨fun a => ⟨-a.re, -a.im⟩⟩
instance : Mul CF := ⟨fun a b => ⟨a.re * b.re - a.im * b.im, a.re * b.im + a.im * b.re⟩⟩
instance : Zero CF := ⟨⟨0, 0⟩⟩
instance : One CF := ⟨⟨1, 0⟩⟩
/-- complex division (Smith-free textbook formula; inputs are well scaled). -/
instance : Div CF := ⟨fun a b =>
  let d := b.re * b.re + b.im * b.im
  ⟨(a.re * b.re + a.im * b.im) / d, (a.im * b.re - a.re * b.im) / d⟩⟩
instance : Conj CF := ⟨fun a => ⟨a.re, -a.im⟩⟩

def ratToFloat (q : Rat) : Float :=
  let n : Float := Float.ofInt q.num
  let d : Float := Float.ofNat q.den
  n / d

def cexp (a : CF) : CF :=
  let m := Float.exp a.re
  ⟨m * Float.cos a.im, m * Float.sin a.im⟩
/-- complex cosine / sine (arguments are real in every use; general formula kept). -/
def ccos (a : CF) : CF :=
  ⟨Float.cos a.re * Float.cosh a.im, -(Float.sin a.re * Float.sinh a.im)⟩
def csin (a : CF) : CF :=
  ⟨Float.sin a.re * Float.cosh a.im, Float.cos a.re * Float.sinh a.im⟩

def piF : Float := 3.141592653589793

instance : Transc CF where
  expc := cexp
  cos := ccos
  sin := csin
  pi := ⟨piF, 0⟩
  I := ⟨0, 1⟩
  ofRat q := ⟨ratToFloat q, 0⟩

def ofFloat (x : Float) : CF := ⟨x, 0⟩
def abs2 (a : CF) : Float := a.re * a.re + a.im * a.im
end CF
end EpgVerif
