import EpgVerif.Model.Sim
/-
  `rfpulse.make_pulse_sequence`, `rfpulse.rfpulse`, the constant-phase branch of `estimate_rf`:
  a shaped RF pulse as the ordered list of hard pulses (and evolutions).
  A complex sample enters in polar form (`np.abs`, `np.angle(deg=True)`), as the code reads it.
-/
namespace EpgVerif
namespace RF
open Sim
variable {K : Type} [Add K] [Sub K] [Mul K] [Neg K] [Div K] [Zero K] [One K] [Conj K] [Transc K]

structure Sample (K : Type) where
  mag : K
  ang : K   -- degrees

/-- `[transform(alpha, phi, duration=dur) for ...]` with `alphas = 180*|values|*rf`, `phis = angle(values)` -/
def pulseCore (rf : K) : List (Sample K) → List K → List (Item K)
  | s :: ss, d :: ds => .op (.T (ofRat 180 * s.mag * rf) s.ang) d :: pulseCore rf ss ds
  | _, _ => []

/-- `make_pulse_sequence(transform, values, duration, rf, offset)`; `offset = none` stands for None or 0 -/
def makePulseSequence (rf : K) (samples : List (Sample K)) (durs : List K) (offset : Option K) : List (Item K) :=
  match offset with
  | some o => [.op (.Phi (-o)) 0] ++ pulseCore rf samples durs ++ [.op (.Phi o) 0]
  | none => pulseCore rf samples durs

/-- scalar `duration`: `np.ones(nvalue) * duration / nvalue` -/
def scalarDurations (n : Nat) (duration : K) : List K :=
  List.replicate n (1 * duration / ofRat (n : Rat))

/-- `rfpulse(values, duration, rf, phi, T1=, T2=, g=)`: interleave evolutions through `modify` when any of
    T1/T2/g is given -/
def rfpulse (positive isOne : K → Bool) (rf : K) (samples : List (Sample K)) (durs : List K) (offset : Option K)
    (T1 T2 g : Option K) : List (Item K) :=
  let seq := makePulseSequence rf samples durs offset
  match T1, T2, g with
  | none, none, none => seq
  | _, _, _ => modifyItems positive isOne (some (T1.getD (ofRat 10000000000))) (some (T2.getD (ofRat 10000000000)))
      (some (g.getD 0)) none seq

/-- apply a list of items to a state (`MultiOperator._apply`) -/
def runItems (o : Opts) : List (Item K) → SM K → SM K
  | [], s => s
  | it :: rest, s => runItems o rest ((it.toSOp o).apply s)

/-- `estimate_rf` for constant-phase waveforms: `alpha / 180 / |sum(values)|`, the sum given by its modulus -/
def estimateRfConst (alpha sumAbs : K) : K := alpha / ofRat 180 / sumAbs

end RF
end EpgVerif
