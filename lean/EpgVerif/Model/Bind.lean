/-
  `VirtualOperator.__init__` of sequence.py: how positional parameters given by keyword are collected.
  `kw` is the caller's keyword dictionary in the order the keywords were written.
-/
namespace EpgVerif
namespace Bind
variable {N V : Type} [DecidableEq N]

def lookupKw (kw : List (N × V)) (k : N) : Option V := (kw.find? (fun e => e.1 = k)).map (·.2)

/-- take values while the keys are present -/
def takeGiven (kw : List (N × V)) : List N → List V
  | [] => []
  | k :: rest => match lookupKw kw k with
      | some v => v :: takeGiven kw rest
      | none => []

/-- the positional list built by `VirtualOperator.__init__` -/
def bindPos (P : List N) (args : List V) (kw : List (N × V)) : List V := args ++ takeGiven kw (P.drop args.length)

end Bind
end EpgVerif
