import EpgVerif.Model.Ops
/-
  `exchange.exchange_matrix`, `exchange.exchange_operator`, `X._apply`: compartments along one axis, every
  phase state of every component (F+, F-, Z) is a vector over the compartments; the matrix exponential is a
  parameter (the code uses an eigendecomposition; the driver a scaled Taylor series; the theorems Mathlib's `exp`).
-/
namespace EpgVerif
namespace Exch
variable {K : Type} [Add K] [Sub K] [Mul K] [Neg K] [Div K] [Zero K] [One K] [Conj K] [Transc K]

abbrev Mat (K : Type) := Nat → Nat → K

def sumTo (n : Nat) (f : Nat → K) : K := (List.range n).foldl (fun acc i => acc + f i) 0
def matMul (n : Nat) (a b : Mat K) : Mat K := fun i j => sumTo n (fun l => a i l * b l j)
def matVec (n : Nat) (a : Mat K) (v : Nat → K) : Nat → K := fun i => sumTo n (fun l => a i l * v l)
def matId : Mat K := fun i j => if i = j then 1 else 0
def matAdd (a b : Mat K) : Mat K := fun i j => a i j + b i j
def matScale (c : K) (a : Mat K) : Mat K := fun i j => c * a i j

/-- `exchange_matrix(k, ncomp)` for a scalar rate: `k * (eye + (eye - 1)/(ncomp - 1))` -/
def kineticOfRate (n : Nat) (k : K) : Mat K := fun i j =>
  k * ((if i = j then 1 else 0) + ((if i = j then 1 else 0) - 1) / ofRat ((n : Rat) - 1))

/-- generators of `exchange_operator`: transverse `-K + diag(-1/T2 + 2πi g)`, longitudinal `-K + diag(-1/T1)`;
    `rT2 = 1/T2`, `rT1 = 1/T1` (0 for an infinite relaxation time) -/
def genT (khi : Mat K) (rT2 g : Nat → K) : Mat K := fun i j =>
  -(khi i j) + (if i = j then (-(rT2 i) + ofRat 2 * Transc.I * Transc.pi * g i) else 0)
def genL (khi : Mat K) (rT1 : Nat → K) : Mat K := fun i j =>
  -(khi i j) + (if i = j then -(rT1 i) else 0)

/-- `X._apply` on the compartment vector of one phase state: `exp(τ A)(v − eq) + eq`, F- with the conjugate matrix -/
def applyX (n : Nat) (mT mL : Mat K) (eq v : Nat → PS K) : Nat → PS K := fun i =>
  ⟨sumTo n (fun l => mT i l * ((v l).fp - (eq l).fp)) + (eq i).fp,
   sumTo n (fun l => conj (mT i l) * ((v l).fm - (eq l).fm)) + (eq i).fm,
   sumTo n (fun l => mL i l * ((v l).z - (eq l).z)) + (eq i).z⟩

/-- the operator on a list of 1-D state matrices (one per compartment, same number of states) -/
def applyXSM (expm : Mat K → Mat K) (tau : K) (khi : Mat K) (rT1 rT2 g : Nat → K) (ss : List (SM K)) : List (SM K) :=
  let n := ss.length
  let mT := expm (matScale tau (genT khi rT2 g))
  let mL := expm (matScale tau (genL khi rT1))
  let nst := (ss.headD default).n
  (List.range n).map (fun i =>
    SM.mk' nst (fun k => applyX n mT mL (fun l => (ss.getD l default).geq k) (fun l => (ss.getD l default).get k) i)
      (ss.getD i default).geq)

/-! scaled-and-squared Taylor series on flat arrays (executable stand-in for the matrix exponential) -/
def arrOf (n : Nat) (m : Mat K) : Array K := (List.range (n * n)).toArray.map (fun idx => m (idx / n) (idx % n))
def ofArr (n : Nat) (arr : Array K) : Mat K := fun i j => arr.getD (i * n + j) 0
def arrMul (n : Nat) (a b : Array K) : Array K :=
  (List.range (n * n)).toArray.map (fun idx =>
    (List.range n).foldl (fun acc l => acc + a.getD ((idx / n) * n + l) 0 * b.getD (l * n + idx % n) 0) 0)
def arrAdd (a b : Array K) : Array K := a.zipWith (· + ·) b
def arrScale (c : K) (a : Array K) : Array K := a.map (c * ·)

def expmArr (n halvings terms : Nat) (a : Array K) : Array K :=
  let b := arrScale (ofRat (1 / (2 ^ halvings : Rat))) a
  let one := arrOf n matId
  let rec series (t : Nat) (term acc : Array K) (fuel : Nat) : Array K :=
    match fuel with
    | 0 => acc
    | fuel + 1 =>
      let term' := arrScale (ofRat (1 / ((t : Rat) + 1))) (arrMul n term b)
      series (t + 1) term' (arrAdd acc term') fuel
  let e := series 0 one one terms
  (List.range halvings).foldl (fun m _ => arrMul n m m) e

def expmTaylor (n halvings terms : Nat) (a : Mat K) : Mat K := ofArr n (expmArr n halvings terms (arrOf n a))

end Exch
end EpgVerif
