import EpgVerif.Model.Ops
/-
  SPECIFICATION side of C01: one classical Bloch isochromat with dephasing angle θ per
  unit shift, in the complex basis (M+, M-, Mz) with M+ = Mx + i My.  Nothing here
  mirrors epgpy; this is the oracle the property names.
-/
namespace EpgVerif
variable {K : Type} [Add K] [Sub K] [Mul K] [Neg K] [Div K] [Zero K] [One K] [Conj K] [Transc K]

/-- an isochromat: magnetisation and the proton density it relaxes to -/
structure Iso (K : Type) where
  m : PS K
  pd : K

def intK (k : Int) : K := Transc.ofRat (k : Rat)

/-- rotation about z by angle `x` (radians) in the (M+, M-, Mz) basis -/
def zrot (x : K) : Nat → K
  | 0 => Transc.expc (Transc.I * x)
  | 1 => Transc.expc (-(Transc.I * x))
  | _ => 1

def blochOp (theta : K) : Op K → Iso K → Iso K
  | .T a p, i => ⟨PS.mmul (coeffT a p) i.m, i.pd⟩
  | .Phi p, i => ⟨PS.mmul (coeffPhi p) i.m, i.pd⟩
  | .E tau T1 T2 g, i =>
      let env := envOf [tau, T1, T2, g]
      ⟨PS.dmul (fun c => Ex.eval env (Coeff.E.arr c)) i.m
        + PS.dmul (fun c => Ex.eval env (Coeff.E.arr0 c)) ⟨0, 0, i.pd⟩, i.pd⟩
  | .P tau g, i =>
      let env := envOf [tau, g]
      ⟨PS.dmul (fun c => Ex.eval env (Coeff.P.arr c)) i.m, i.pd⟩
  | .R rT rL r0, i =>
      let env := envOf [rT, rL, r0.getD 0]
      ⟨PS.dmul (fun c => Ex.eval env (Coeff.R.arr c)) i.m
        + (match r0 with
           | some _ => PS.dmul (fun c => Ex.eval env (Coeff.R.arr0 c)) ⟨0, 0, i.pd⟩
           | none => 0), i.pd⟩
  | .S k _, i => ⟨PS.dmul (zrot (intK k * theta)) i.m, i.pd⟩
  | .Spoiler, i => ⟨⟨0, 0, i.m.z⟩, i.pd⟩
  | .Reset, i => ⟨⟨0, 0, i.pd⟩, i.pd⟩
  | .PD pd reset, i => ⟨if reset then ⟨0, 0, pd⟩ else i.m, pd⟩
  | .Wait, i => i

def blochRun (theta : K) : List (Op K) → Iso K → Iso K
  | [], i => i
  | op :: ops, i => blochRun theta ops (blochOp theta op i)

end EpgVerif
