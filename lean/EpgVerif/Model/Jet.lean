import EpgVerif.Model.Scalar
/-
  Second-order jets (value, gradient, Hessian in finitely many real variables) over any
  scalar: running the *plain* polymorphic model at `Jet K` propagates exact first and second
  derivatives by the Leibniz/Faà di Bruno rules — the SPECIFICATION executable of C02/C03
  (independent of the dictionary bookkeeping of diff.py being verified).
-/
namespace EpgVerif

structure Jet (K : Type) where
  v : K
  d1 : Array K
  d2 : Array (Array K)
deriving Inhabited

namespace Jet
variable {K : Type} [Add K] [Sub K] [Mul K] [Neg K] [Div K] [Zero K] [One K] [Conj K] [Transc K]

def g1 (a : Jet K) (i : Nat) : K := a.d1.getD i 0
def g2 (a : Jet K) (i j : Nat) : K := (a.d2.getD i #[]).getD j 0
def nv (a : Jet K) : Nat := max a.d1.size a.d2.size

def build (n : Nat) (v : K) (f1 : Nat → K) (f2 : Nat → Nat → K) : Jet K :=
  ⟨v, Array.ofFn (n := n) (fun i => f1 i.val), Array.ofFn (n := n) (fun i => Array.ofFn (n := n) (fun j => f2 i.val j.val))⟩

def const (c : K) : Jet K := ⟨c, #[], #[]⟩

/-- apply a scalar function with first and second derivative values `f'`, `f''` at `a.v` -/
def chain (a : Jet K) (f f' f'' : K) : Jet K :=
  build a.nv f (fun i => f' * a.g1 i) (fun i j => f'' * (a.g1 i * a.g1 j) + f' * a.g2 i j)

instance : Zero (Jet K) := ⟨const 0⟩
instance : One (Jet K) := ⟨const 1⟩
instance : Add (Jet K) := ⟨fun a b =>
  build (max a.nv b.nv) (a.v + b.v) (fun i => a.g1 i + b.g1 i) (fun i j => a.g2 i j + b.g2 i j)⟩
instance : Sub (Jet K) := ⟨fun a b =>
  build (max a.nv b.nv) (a.v - b.v) (fun i => a.g1 i - b.g1 i) (fun i j => a.g2 i j - b.g2 i j)⟩
instance : Neg (Jet K) := ⟨fun a => build a.nv (-a.v) (fun i => -a.g1 i) (fun i j => -a.g2 i j)⟩
instance : Mul (Jet K) := ⟨fun a b =>
  build (max a.nv b.nv) (a.v * b.v) (fun i => a.g1 i * b.v + a.v * b.g1 i)
    (fun i j => a.g2 i j * b.v + a.g1 i * b.g1 j + a.g1 j * b.g1 i + a.v * b.g2 i j)⟩
def inv (a : Jet K) : Jet K :=
  let r : K := 1 / a.v
  chain a r (-(r * r)) ((r * r * r) + (r * r * r))
instance : Div (Jet K) := ⟨fun a b => a * inv b⟩
instance : Conj (Jet K) := ⟨fun a =>
  build a.nv (Conj.conj a.v) (fun i => Conj.conj (a.g1 i)) (fun i j => Conj.conj (a.g2 i j))⟩
instance : Transc (Jet K) where
  expc a := let e := Transc.expc a.v; chain a e e e
  cos a := let c := Transc.cos a.v; let s := Transc.sin a.v; chain a c (-s) (-c)
  sin a := let c := Transc.cos a.v; let s := Transc.sin a.v; chain a s c (-s)
  pi := const Transc.pi
  I := const Transc.I
  ofRat q := const (Transc.ofRat q)

end Jet
end EpgVerif
