/-
  Object-level model of purity (C09): state matrices are handles on mutable cells.  A cell stands for the
  arrays a StateMatrix object owns (states, equilibrium, coordinates, partial derivatives); its `version`
  counts the in-place updates it has received.  `Operator.__call__(sm, inplace=False)` copies (`prepare`), then
  mutates the copy; `inplace=True` mutates the argument when it is writeable and copies otherwise;
  `simulate` copies its initial state; `Probe.acquire` returns a snapshot.
-/
namespace EpgVerif
namespace Heap

structure World where
  cellOf : List Nat       -- handle ↦ cell
  version : List Nat      -- cell ↦ number of in-place updates received
  writeable : List Bool   -- cell ↦ writeable flag
deriving Repr, Inhabited

inductive Cmd where
  | apply (h : Nat) (inplace : Bool)   -- op(sm_h, inplace=...)        → new handle
  | copy (h : Nat)                     -- sm_h.copy()                  → new handle
  | simulate (h : Nat)                 -- simulate(seq, init=sm_h)     → values only
  | acquire (h : Nat)                  -- probe.acquire(sm_h)          → new handle on a snapshot
  | freeze (h : Nat)                   -- make the arrays of sm_h read-only
deriving Repr, Inhabited

def init : World := ⟨[0], [0], [true]⟩

def newCell (w : World) (wr : Bool) : World × Nat :=
  let c := w.version.length
  ({ w with version := w.version ++ [0], writeable := w.writeable ++ [wr] }, c)

/-- the cell an in-place application really mutates, if any -/
def target (w : World) : Cmd → Option Nat
  | .apply h true =>
    let c := w.cellOf.getD h 0
    if w.writeable.getD c false then some c else none
  | _ => none

def step (w : World) (cmd : Cmd) : World :=
  match cmd with
  | .apply h inplace =>
    let c := w.cellOf.getD h 0
    if inplace && w.writeable.getD c false then
      { w with version := w.version.set c (w.version.getD c 0 + 1), cellOf := w.cellOf ++ [c] }
    else
      let (w', c') := newCell w true
      { w' with cellOf := w'.cellOf ++ [c'] }
  | .copy _ =>
    let (w', c') := newCell w true
    { w' with cellOf := w'.cellOf ++ [c'] }
  | .simulate _ => w
  | .acquire _ =>
    let (w', c') := newCell w true
    { w' with cellOf := w'.cellOf ++ [c'] }
  | .freeze h =>
    let c := w.cellOf.getD h 0
    { w with writeable := w.writeable.set c false }

def run (w : World) (cmds : List Cmd) : World := cmds.foldl step w

end Heap
end EpgVerif
