import EpgVerif.Model.Expr
/-
  Canonical closed forms of the operator coefficients (hand-written model).
  `Tie/Ops.lean` proves the regenerated `Gen.*` entries equal to these, and the
  regenerated derivative tables equal to the *symbolic derivatives* `Ex.d` of these,
  so the model needs no hand-written derivative table at all.
  Variable numbering = positional order of the Python constructors.
-/
namespace EpgVerif.Coeff
open Ex

/-- degrees to radians -/
def rad (e : Ex) : Ex := mul (div pi (const 180)) e
def two_pi_i : Ex := mul (mul (const 2) I) pi

namespace T  -- T(alpha, phi): var 0 = alpha, var 1 = phi
def a : Ex := rad (var 0)
def p : Ex := rad (var 1)
/-- diagonal of the z-rotation by `x` in the (F+, F-, Z) basis -/
def ph (x : Ex) : Nat → Ex
  | 0 => exp (mul I x)
  | 1 => exp (neg (mul I x))
  | _ => one
/-- x-rotation by `a` in the (F+, F-, Z) basis (Weigel 2015, eq. 15) -/
def rx : Nat → Nat → Ex
  | 0, 0 => div (add one (cos a)) (const 2)
  | 0, 1 => div (sub one (cos a)) (const 2)
  | 0, 2 => mul (neg I) (sin a)
  | 1, 0 => div (sub one (cos a)) (const 2)
  | 1, 1 => div (add one (cos a)) (const 2)
  | 1, 2 => mul I (sin a)
  | 2, 0 => mul (mul (const ((-1 : Rat) / 2)) I) (sin a)
  | 2, 1 => mul (mul (const ((1 : Rat) / 2)) I) (sin a)
  | 2, 2 => cos a
  | _, _ => zero
/-- `Rz(φ) Rx(α) Rz(−φ)`; rows/columns ordered (F+, F-, Z) -/
def mat (i j : Nat) : Ex := mul (mul (ph p i) (rx i j)) (ph (neg p) j)
end T

namespace Phi  -- Phi(phi): var 0 = phi
def p : Ex := rad (var 0)
def mat : Nat → Nat → Ex
  | 0, 0 => exp (mul I p)
  | 1, 1 => exp (neg (mul I p))
  | 2, 2 => one
  | _, _ => zero
end Phi

/- scalar (diagonal) operators: `arr i` multiplies component i of every state,
   `arr0 i` multiplies the equilibrium. -/
namespace R  -- R(rT, rL, r0): vars 0 1 2
def arr : Nat → Ex
  | 0 => Ex.conj (exp (neg (var 0)))
  | 1 => exp (neg (var 0))
  | 2 => exp (neg (var 1))
  | _ => zero
def arr0 : Nat → Ex
  | 2 => sub (one) (exp (neg (var 2)))
  | _ => zero
end R

namespace E  -- E(tau, T1, T2, g): vars 0 1 2 3
def rT : Ex := mul (var 0) (add (div (one) (var 2)) (mul two_pi_i (var 3)))
def rL : Ex := div (var 0) (var 1)
def arr : Nat → Ex
  | 0 => Ex.conj (exp (neg rT))
  | 1 => exp (neg rT)
  | 2 => exp (neg rL)
  | _ => zero
def arr0 : Nat → Ex
  | 2 => sub (one) (exp (neg rL))
  | _ => zero
end E

namespace P  -- P(tau, g): vars 0 1
def rT : Ex := mul (mul two_pi_i (var 1)) (var 0)
def arr : Nat → Ex
  | 0 => Ex.conj (exp (neg rT))
  | 1 => exp (neg rT)
  | 2 => one
  | _ => zero
def arr0 : Nat → Ex := fun _ => zero
end P

end EpgVerif.Coeff
