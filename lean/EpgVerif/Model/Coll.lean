/-
  Shape-level model of `statematrix.ArrayCollection` as a pure state machine.  Arrays are
  represented by their shapes; the seven caches (`_shape`, `_shapes`, `_axes`, `_default`,
  `_layouts`, `_arrays`, `_expand_axis`) are explicit fields.  Every function mirrors the Python
  method of the same name, slice by slice.
-/
namespace EpgVerif
namespace Coll

/-- layout item -/
inductive LItem where
  | ell : LItem            -- Ellipsis: broadcast axes
  | fixed : Nat → LItem    -- <int>
  | named : String → LItem -- <str>
  | free : LItem           -- None
deriving DecidableEq, Repr, Inhabited

abbrev Shape := List Nat
abbrev Layout := List LItem

structure Entry where
  shape : Shape
  layout : Layout
deriving DecidableEq, Repr, Inhabited

inductive Err where
  | value | index | key
deriving DecidableEq, Repr, Inhabited

structure C where
  expandAxis : Int                      -- `_expand_axis` (0 = prepend, -1 = append)
  arrays : List (String × Entry)        -- `_arrays` + `_layouts`
  default : Shape                       -- `_default`
  shape : Shape                         -- `_shape`
  shapes : List (String × Shape)        -- `_shapes`
  axes : List (String × Nat)            -- `_axes`
deriving DecidableEq, Repr, Inhabited

def ellIdx (l : Layout) : Nat := l.idxOf .ell

/-- python slice `xs[a:b]` with non-negative bounds -/
def slice (xs : Shape) (a b : Nat) : Shape := (xs.drop a).take (b - a)

/-- `_get_shared_axes(shape, layout)` -/
def sharedAxes (shape : Shape) (layout : Layout) : Shape :=
  let start := ellIdx layout
  let stop := ((shape.length : Int) - ((layout.length : Int) - start - 1)).toNat
  slice shape start stop

/-- `_get_shared_shape(ndim, shape, axis)` -/
def sharedShape (ndim : Nat) (shape : Shape) (axis : Int) : Shape :=
  let ax : Nat := if axis < 0 then (ndim : Int) - axis + 1 |>.toNat else axis.toNat
  shape.take ax ++ List.replicate (ndim - shape.length) 1 ++ shape.drop ax

/-- `_get_broadcast_shape(shared, shape, layout)` : `shape[start:end] = shared` -/
def broadcastShape (shared : Shape) (shape : Shape) (layout : Layout) : Shape :=
  let start := ellIdx layout
  let stop := ((shape.length : Int) - ((layout.length : Int) - start - 1)).toNat
  shape.take start ++ shared ++ shape.drop stop

/-- `_get_named_axes(ndim, layout)` : (index, name) of the named axes -/
def namedAxesOf (ndim : Nat) (layout : Layout) : List (Nat × String) :=
  let idx := ellIdx layout
  let diff : Int := (ndim : Int) - layout.length
  (layout.zipIdx).filterMap (fun (ax, i) =>
    match ax with
    | .named s => if i ≠ idx then some (((i : Int) + (if i > idx then diff else 0)).toNat, s) else none
    | _ => none)

def dictSet {β : Type} (d : List (String × β)) (k : String) (v : β) : List (String × β) :=
  if d.any (·.1 = k) then d.map (fun e => if e.1 = k then (k, v) else e) else d ++ [(k, v)]

def dictGet {β : Type} (d : List (String × β)) (k : String) : Option β := (d.find? (·.1 = k)).map (·.2)

/-- `get_named_axes(ignore=...)` : later arrays overwrite earlier ones -/
def namedAxes (arrays : List (String × Entry)) (ignore : Option String) : List (String × Nat) :=
  arrays.foldl (fun acc (name, e) =>
    if some name = ignore then acc else
      (namedAxesOf e.shape.length e.layout).foldl (fun acc (i, ax) => dictSet acc ax (e.shape.getD i 0)) acc) []

/-- broadcast parts of all arrays, and the default shape -/
def sharedList (arrays : List (String × Entry)) (default : Shape) : List Shape :=
  arrays.map (fun x => sharedAxes x.2.shape x.2.layout) ++ [default]

/-- the shape part of `_update_shape` -/
def computeShape (expandAxis : Int) (arrays : List (String × Entry)) (default : Shape) : Shape :=
  let shared := sharedList arrays default
  let ndim := shared.foldl (fun m s => max m s.length) 0
  let shapes := shared.map (fun s => sharedShape ndim s expandAxis)
  (List.range ndim).map (fun i => shapes.foldl (fun m s => max m (s.getD i 0)) 0)

def computeShapes (shape : Shape) (arrays : List (String × Entry)) : List (String × Shape) :=
  arrays.map (fun (name, e) => (name, broadcastShape shape e.shape e.layout))

/-- `_update_shape` (linked collections are not modelled) -/
def updateShape (c : C) : C :=
  let sh := computeShape c.expandAxis c.arrays c.default
  { c with shape := sh, shapes := computeShapes sh c.arrays }

def init (default : Option Shape) (expandAxis : Int) : C :=
  updateShape { expandAxis := expandAxis, arrays := [], default := default.getD [1], shape := [], shapes := [], axes := [] }

def expandAxisIdx (c : C) : Nat :=
  if c.expandAxis ≥ 0 then c.expandAxis.toNat else ((c.shape.length : Int) + c.expandAxis + 1).toNat

/-- `check_layout` -/
def checkLayout (l : Layout) : Except Err Unit :=
  if (l.filter (· = .ell)).length = 1 then .ok () else .error .value

/-- `check_shape(shape, layout, ignore=...)` -/
def checkShape (c : C) (shape : Shape) (layout : Layout) (ignore : Option String) : Except Err Unit :=
  let axes := namedAxes c.arrays ignore
  if shape.length + 1 < layout.length then .error .value else
  -- named / fixed axes
  let step := fun (st : Except Err Nat) (ax : LItem) =>
    match st with
    | .error e => .error e
    | .ok idx =>
      match ax with
      | .ell => .ok (idx + ((shape.length : Int) - layout.length + 1).toNat)
      | .fixed n => if shape.getD idx 0 ≠ n then .error .value else .ok (idx + 1)
      | .named s => if shape.getD idx 0 ≠ (dictGet axes s).getD (shape.getD idx 0) then .error .value else .ok (idx + 1)
      | .free => .ok (idx + 1)
  match layout.foldl step (.ok 0) with
  | .error e => .error e
  | .ok _ =>
    let axis := ellIdx layout
    let common := slice shape axis (axis + ((shape.length : Int) - layout.length + 1).toNat)
    let shared := c.shape
    let ax := expandAxisIdx c
    let common :=
      if common.length > shared.length then common.take ax ++ common.drop (ax + (common.length - shared.length))
      else common.take ax ++ List.replicate (shared.length - common.length) 1 ++ common.drop ax
    if (common.zip shared).any (fun (d1, d2) => d1 ≠ 1 ∧ d1 ≠ d2 ∧ d2 ≠ 1) then .error .value else .ok ()

/-- `resize_array` on a shape -/
def resizeShape (shape : Shape) (axis : Nat) (newSize : Nat) : Shape := shape.set axis newSize

/-- `set(name, array, layout=None, resize=False, check=True)` -/
def set (c : C) (name : String) (shape : Shape) (layout : Option Layout) (resize check : Bool) : Except Err C :=
  let layout := match layout with
    | some l => l
    | none => match dictGet c.arrays name with
      | some e => e.layout
      | none => [.ell]
  match checkLayout layout with
  | .error e => .error e
  | .ok _ =>
    let shape :=
      if resize then
        let axes := namedAxes c.arrays (some name)
        (namedAxesOf shape.length layout).foldl (fun sh (idx, ax) =>
          match dictGet axes ax with
          | some n => if sh.getD idx 0 ≠ n then resizeShape sh idx n else sh
          | none => sh) shape
      else shape
    match (if check then checkShape c shape layout (some name) else .ok ()) with
    | .error e => .error e
    | .ok _ =>
      let arrays := dictSet c.arrays name ⟨shape, layout⟩
      let c' := updateShape { c with arrays := arrays }
      .ok { c' with axes := namedAxes arrays none }

/-- `pop(name)` -/
def pop (c : C) (name : String) : C :=
  if (c.arrays.any (·.1 = name)) then
    let c' := updateShape { c with arrays := c.arrays.filter (·.1 ≠ name) }
    { c' with axes := namedAxes c'.arrays none }
  else c

/-- `resize(ax, size)` -/
def resize (c : C) (ax : String) (size : Nat) : Except Err C :=
  match dictGet c.axes ax with
  | none => .error .value
  | some cur =>
    if size = cur then .ok c else
      let arrays := c.arrays.map (fun (name, e) =>
        if e.layout.contains (.named ax) then
          let i := e.layout.idxOf (.named ax)
          let axis := if ellIdx e.layout < i then ((e.shape.length : Int) - e.layout.length + i).toNat else i
          (name, { e with shape := resizeShape e.shape axis size })
        else (name, e))
      .ok { c with arrays := arrays, shapes := computeShapes c.shape arrays, axes := namedAxes arrays none }

/-- `expand(ndim)` -/
def expand (c : C) (ndim : Nat) : C :=
  let ax := expandAxisIdx c
  updateShape { c with default := c.shape.take ax ++ List.replicate ndim 1 ++ c.shape.drop ax }

/-- `reduce(ndim)` -/
def reduce (c : C) (ndim : Nat) : C :=
  let sh := c.shape
  let d :=
    if c.expandAxis ≥ 0 then sh.take c.expandAxis.toNat ++ sh.drop (c.expandAxis.toNat + ndim)
    else
      let ax := ((sh.length : Int) + c.expandAxis + 1).toNat
      sh.take (ax - ndim) ++ sh.drop (ax + 1)
  updateShape { c with default := d }

/-- `broadcast(shape)` -/
def broadcast (c : C) (shape : Shape) : Except Err C :=
  match checkShape c shape [.ell] none with
  | .error e => .error e
  | .ok _ => .ok (updateShape { c with default := shape })

/-- `get(name)`: shape of the returned (expanded and broadcast) array -/
def get (c : C) (name : String) : Option Shape :=
  match dictGet c.arrays name with
  | none => none
  | some _ => dictGet c.shapes name

/-- the cached fields agree with what a recomputation from arrays + default gives -/
def Inv (c : C) : Prop :=
  c.shape = computeShape c.expandAxis c.arrays c.default ∧
  c.shapes = computeShapes c.shape c.arrays ∧
  c.axes = namedAxes c.arrays none

end Coll
end EpgVerif
