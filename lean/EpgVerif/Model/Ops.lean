import EpgVerif.Model.State
import EpgVerif.Model.Coeff
/-
  Operators of epgpy acting on a 1-D state matrix (operator.py, opscalar.py,
  opmatrix.py, transition.py, evolution.py, shift.py `shift-1d`), one scalar
  simulation (batching is `Model/Shape.lean`).
-/
namespace EpgVerif
variable {K : Type} [Add K] [Sub K] [Mul K] [Neg K] [Div K] [Zero K] [One K] [Conj K] [Transc K]

/-- environment of an operator's positional parameters -/
def envOf (ps : List K) : Nat → K := fun i => ps.getD i 0

inductive Op (K : Type) where
  | T (alpha phi : K)
  | Phi (phi : K)
  | E (tau T1 T2 g : K)
  | P (tau g : K)
  | R (rT rL : K) (r0 : Option K)
  | S (k : Int) (nmax : Option Nat)
  | Spoiler
  | Reset
  | PD (pd : K) (reset : Bool)
  | Wait
deriving Inhabited

/-- simulation options read by operators -/
structure Opts where
  maxNstate : Option Nat := none
deriving Inhabited

/-- `matrix_apply`: states ← M·states (+ M0·equilibrium; M0 is None for T, Phi) -/
def matApply (m : Nat → Nat → K) (s : SM K) : SM K :=
  SM.mk' s.n (fun k => PS.mmul m (s.get k)) s.geq

/-- `scalar_apply`: states ← arr*states + arr0*equilibrium -/
def scalApply (arr arr0 : Nat → K) (s : SM K) : SM K :=
  SM.mk' s.n (fun k => PS.dmul arr (s.get k) + PS.dmul arr0 (s.geq k)) s.geq

/-- `shift1d(states, n, inplace=True)` on an already resized matrix -/
def shiftCore (s : SM K) (m : Int) : SM K :=
  SM.mk' s.n (fun k => ⟨(s.get (k - m)).fp, (s.get (k + m)).fm, (s.get k).z⟩) s.geq

/-- `S._apply` (method shift-1d): resize to `min (n+|m|) nmax`, then shift -/
def shift1d (o : Opts) (m : Int) (nmax : Option Nat) (s : SM K) : SM K :=
  let want := s.n + m.natAbs
  let cap := match o.maxNstate with
    | some c => if c = 0 then nmax else some c   -- `options.get("max_nstate") or self.nmax`
    | none => nmax
  let n' := match cap with
    | some c => if c = 0 then want else min want c  -- `... or np.inf`
    | none => want
  shiftCore (s.resize n') m

def coeffT (alpha phi : K) (i j : Nat) : K := Ex.eval (envOf [alpha, phi]) (Coeff.T.mat i j)
def coeffPhi (phi : K) (i j : Nat) : K := Ex.eval (envOf [phi]) (Coeff.Phi.mat i j)

def applyOp (o : Opts) : Op K → SM K → SM K
  | .T a p, s => matApply (coeffT a p) s
  | .Phi p, s => matApply (coeffPhi p) s
  | .E tau T1 T2 g, s =>
      let env := envOf [tau, T1, T2, g]
      scalApply (fun i => Ex.eval env (Coeff.E.arr i)) (fun i => Ex.eval env (Coeff.E.arr0 i)) s
  | .P tau g, s =>
      let env := envOf [tau, g]
      scalApply (fun i => Ex.eval env (Coeff.P.arr i)) (fun _ => 0) s
  | .R rT rL r0, s =>
      let env := envOf [rT, rL, r0.getD 0]
      scalApply (fun i => Ex.eval env (Coeff.R.arr i))
        (match r0 with | some _ => fun i => Ex.eval env (Coeff.R.arr0 i) | none => fun _ => 0) s
  | .S k nmax, s => shift1d o k nmax s
  | .Spoiler, s => SM.mk' s.n (fun k => ⟨0, 0, (s.get k).z⟩) s.geq
  | .Reset, s => SM.mk' 0 (fun _ => s.geq 0) (fun _ => s.geq 0)
  | .PD pd reset, s =>
      -- equilibrium ← [0,0,pd] at k = 0, zero elsewhere (property C08); states ← equilibrium if reset
      let e : Int → PS K := fun k => if k = 0 then ⟨0, 0, pd⟩ else 0
      SM.mk' s.n (if reset then e else s.get) e
  | .Wait, s => s

def run (o : Opts) : List (Op K) → SM K → SM K
  | [], s => s
  | op :: ops, s => run o ops (applyOp o op s)

end EpgVerif
