import EpgVerif.Model.Shape
/-
  Input validation of epgpy as decision functions (`true` = the call raises).  Arrays enter as the flat
  list of their entries (the guards are `np.any` / `np.all` / `np.allclose` / `np.max` reductions) and as
  their shape; numeric tests enter as predicates (`neg x` is `x < 0`, ...), instantiated with IEEE
  comparisons by the driver.
-/
namespace EpgVerif
namespace Guards
variable {K : Type}

/-- `Operator.__init__`: `np.any(np.asarray(duration) < 0)`;  `G`, `C`: `np.any(tau < 0)`;
    `exchange_matrix`: `np.any(k < 0)` -/
def anyNegative (neg : K → Bool) (xs : List K) : Bool := xs.any neg

/-- `S.__init__`: `np.allclose(k, 0)` -/
def zeroShift (nearZero : K → Bool) (ks : List K) : Bool := ks.all nearZero

/-- `S.__init__`: unless `k` is a Python int, `np.atleast_2d(k).shape[-1]` must be 1..4 -/
def badNcomp (pyInt : Bool) (lastDim : Nat) : Bool :=
  !pyInt && !(lastDim == 1 || lastDim == 2 || lastDim == 3 || lastDim == 4)

/-- float shift at application: `kgrid = sm.options.get("kgrid"); kgrid = self.kgrid if kgrid is None else kgrid;
    if kgrid is None or not np.all(kgrid > 0): raise` (a grid of size 0 is no grid) -/
def noGrid (positive : K → Bool) (smGrid opGrid : Option K) : Bool :=
  let chosen := match smGrid with
    | some g => some g
    | none => opGrid
  match chosen with
  | none => true
  | some g => !positive g

/-- `_format_states` shape checks -/
def badStatesShape (shape : List Nat) : Bool :=
  match shape.reverse with
  | [] => false               -- 0-d input is not produced by callers
  | [n] => n != 3
  | c :: n :: _ => c != 3 || n % 2 != 1

/-- `_format_states` value checks on one batch entry: rows `(F+, F-, Z)` for k = -n..n;
    `close a b` is `np.allclose` on one entry, `cj` complex conjugation -/
def badSymmetry (close : K → K → Bool) (cj : K → K) (rows : List (K × K × K)) : Bool :=
  let rev := rows.reverse
  !((rows.zip rev).all (fun (a, b) => close a.2.1 (cj b.1) && close a.2.2 (cj b.2.2)))

/-- `scalar_format` shape check (after `arr[NAX]` for 1-d input) -/
def badScalarShape (shape : List Nat) : Bool :=
  match shape.reverse with
  | [] => true
  | c :: _ => c != 3

/-- `scalar_format` value check per row `(a, b, c)`: `allclose(arr, arr[..., (1,0,2)].conj())` -/
def badScalarCoeff (close : K → K → Bool) (cj : K → K) (rows : List (K × K × K)) : Bool :=
  !(rows.all (fun r => close r.1 (cj r.2.1) && close r.2.1 (cj r.1) && close r.2.2 (cj r.2.2)))

/-- `matrix_format` shape check -/
def badMatrixShape (shape : List Nat) : Bool :=
  match shape.reverse with
  | c :: r :: _ => !(c == 3 && r == 3)
  | _ => true

/-- `matrix_format` value check for one 3×3 matrix: `mat == conj(P mat P)`, P swapping rows/columns 0,1 -/
def badMatrixCoeff (close : K → K → Bool) (cj : K → K) (m : Nat → Nat → K) : Bool :=
  let sw : Nat → Nat := fun i => if i == 0 then 1 else if i == 1 then 0 else i
  !((List.range 3).all (fun i => (List.range 3).all (fun j => close (m i j) (cj (m (sw i) (sw j))))))

/-- `Operator.prepare`: `not common.broadcastable(sm.shape, self.shape, append=True)` (leading-axis alignment) -/
def notBroadcastable (a b : List Nat) : Bool := !Shp.broadcastable2 a b

/-- `X.__init__` for an explicit kinetic matrix (axis = -1): dimension, squareness, column sums -/
def badKinetic (close0 : K → Bool) (sum : List K → K) (shape : List Nat) (cols : List (List K)) : Bool :=
  match shape.reverse with
  | c :: r :: _ => r != c || !(cols.all (fun col => close0 (sum col)))
  | _ => true

/-- `X._apply`: `khi @ density` must vanish (rows of the kinetic matrix against the compartment densities) -/
def notConserving (close0 : K → Bool) (dot : List K → List K → K) (rows : List (List K)) (dens : List K) : Bool :=
  !(rows.all (fun row => close0 (dot row dens)))

/-- `diffusion.get_shape` -/
def badDiffusion (Dshape kshape : List Nat) : Bool :=
  let kshape := if kshape.length == 1 then 1 :: kshape else kshape
  if Dshape.length == 1 then true
  else match Dshape.reverse with
    | b :: a :: _ =>
      if a != b then true
      else match kshape.reverse with
        | kd :: _ => b != kd
        | [] => false
    | _ => false

/-- normalised `order1` / `order2` declarations (`_parse_partials` after the input-form dispatch) -/
structure Decl where
  order1 : List (String × List String)                 -- variable ↦ parameters with a coefficient
  order2 : List ((String × String) × List String)      -- variable pair ↦ parameters with a coefficient

def badDecl (parameters : List String) (d : Decl) : Bool :=
  let vars := d.order1.map (·.1)
  let unknown1 := d.order1.any (fun e => e.2.any (fun p => !parameters.contains p))
  if unknown1 then true
  else if d.order2.isEmpty then false
  else if d.order1.isEmpty then true
  else
    let noMatch := d.order2.any (fun e => !(vars.contains e.1.1 || vars.contains e.1.2))
    let crossCoeff := d.order2.any (fun e => !(vars.contains e.1.1 && vars.contains e.1.2) && !e.2.isEmpty)
    let unknown2 := d.order2.any (fun e => e.2.any (fun p => !parameters.contains p))
    noMatch || crossCoeff || unknown2

/-- `order2=True`: "all second derivatives" of the *activated* variables: the pairs of declared variables
    (`get_combinations(list(order1))`, a set of unordered pairs: listed here in both orders) some parameter pair of
    which the class can differentiate twice (`Pair(p1, p2) in PARAMETERS_ORDER2`, unordered); no coefficients -/
def expandAll (P2 : List (String × String)) (order1 : List (String × List String)) :
    List ((String × String) × List String) :=
  order1.flatMap fun a => order1.filterMap fun b =>
    if a.2.any (fun p1 => b.2.any fun p2 => P2.contains (p1, p2) || P2.contains (p2, p1))
    then some ((a.1, b.1), []) else none

/-- nested sequences given to `simulate` -/
inductive SeqItem where
  | op (probe : Bool)
  | multi (items : List SeqItem)      -- MultiOperator
  | list (items : List SeqItem)
  | other                             -- not an operator
deriving Inhabited

mutual
def SeqItem.hasOther : SeqItem → Bool
  | .op _ => false
  | .multi is => hasOtherL is
  | .list is => hasOtherL is
  | .other => true
def hasOtherL : List SeqItem → Bool
  | [] => false
  | x :: xs => x.hasOther || hasOtherL xs
end
mutual
def SeqItem.hasProbe : SeqItem → Bool
  | .op p => p
  | .multi is => hasProbeL is
  | .list is => hasProbeL is
  | .other => false
def hasProbeL : List SeqItem → Bool
  | [] => false
  | x :: xs => x.hasProbe || hasProbeL xs
end

/-- `simulate`: `flatten_sequence` raises on a non-operator item; then a probe is required -/
def badSequence (seq : List SeqItem) : Bool := hasOtherL seq || !hasProbeL seq

/-- `Sequence(...)(**values)` / `jacobian` / `hessian`: unknown requested variables, missing values -/
def badSeqVars (vars given order1 : List String) (order2 : List (String × String)) : Bool :=
  let req1 := order1.filter (· != "magnitude")
  let req2 := (order2.filter (fun p => p.1 != "magnitude" && p.2 != "magnitude")).flatMap (fun p => [p.1, p.2])
  req1.any (fun v => !vars.contains v) || req2.any (fun v => !vars.contains v)
    || vars.any (fun v => !given.contains v)

/-- `make_pulse_sequence` / `estimate_rf`: `np.max(np.abs(values)) > 1` -/
def pulseTooLarge (gt1 : K → Bool) (mags : List K) : Bool := mags.any gt1

end Guards
end EpgVerif
