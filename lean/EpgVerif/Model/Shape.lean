/-
  Shape algebra of common.py (`expand_shapes`, `broadcastable`, `broadcast_shapes`, append / prepend
  alignment) and the index map realised by `scalar_prod` / `matrix_prod` (new axes inserted before
  the coefficient axes, then numpy's right-aligned broadcasting).
-/
namespace EpgVerif
namespace Shp

abbrev Shape := List Nat

/-- `expand_shapes(*shapes, append=True)` for one shape and a target ndim -/
def expandAppend (ndim : Nat) (s : Shape) : Shape := s ++ List.replicate (ndim - s.length) 1
def expandPrepend (ndim : Nat) (s : Shape) : Shape := List.replicate (ndim - s.length) 1 ++ s

/-- dimension `i` of a shape aligned from the first axis (missing axes read as 1) -/
def dimA (s : Shape) (i : Nat) : Nat := s.getD i 1

/-- combine two aligned dimensions: `none` = incompatible -/
def bdim (a b : Nat) : Option Nat :=
  if a = 1 then some b else if b = 1 then some a else if a = b then some a else none

/-- `broadcast_shapes(a, b, append=True)`: `none` = ValueError -/
def broadcast2 : Shape → Shape → Option Shape
  | [], b => some b
  | a, [] => some a
  | x :: a, y :: b =>
    match bdim x y, broadcast2 a b with
    | some d, some r => some (d :: r)
    | _, _ => none

/-- `broadcast_shapes(*shapes, append=True)` (starting from the minimal shape `[1]`) -/
def broadcastAll (shapes : List Shape) : Option Shape :=
  shapes.foldl (fun acc s => acc.bind (fun a => broadcast2 a s)) (some [1])

/-- `broadcastable(a, b, append=True)` -/
def broadcastable2 (a b : Shape) : Bool := (broadcast2 a b).isSome

/-- numpy's right-aligned index map: index into an array of shape `s` broadcast to a larger index list -/
def alignRight (s : Shape) (idx : List Nat) : List Nat :=
  let d := idx.length - s.length
  (s.zip (idx.drop d)).map (fun (n, j) => if n = 1 then 0 else j)

/-- left-aligned (append semantics) index map -/
def alignLeft (s : Shape) (idx : List Nat) : List Nat :=
  (s.zip idx).map (fun (n, j) => if n = 1 then 0 else j)

/-- `set_axes(ndim, arr, axes)` for an integer `axes`: new batch shape -/
def setAxes (batch : Shape) (axis : Nat) : Shape := List.replicate axis 1 ++ batch

/-- `shift.get_grid(grid, kdim)`: one cell size per coordinate axis from the values given (a scalar is a one-entry list):
    the LAST value is repeated for further axes, surplus values are dropped -/
def getGrid {α : Type} (g : List α) (kdim : Nat) : List α :=
  match g.getLast? with
  | none => []
  | some l => (g ++ List.replicate (kdim - g.length) l).take kdim

/-- `shift.append_batch_axes(shift, ndim)`: shape of a shift array (batch axes..., kdim) aligned with the first axes of a
    state matrix with `ndim` batch axes: singleton axes are inserted before the last axis -/
def appendBatchAxes (s : Shape) (ndim : Nat) : Shape :=
  match s.getLast? with
  | none => []      -- `np.asarray(shift)` of a scalar: `reshape(() + (1,)*n + ())` is rejected for n > 0; not used (shifts are ≥ 1-d there)
  | some l => s.dropLast ++ List.replicate (ndim - (s.length - 1)) 1 ++ [l]

/-- numpy `expand_dims(arr, dims)` on shapes: the result has `s.length + dims.length` axes, size 1 at the positions listed
    (assumed duplicate-free) and the axes of `s` in order elsewhere; `none` = AxisError (a position beyond the result) -/
def placeDims : Nat → Nat → List Nat → Shape → Shape
  | _, 0, _, _ => []
  | i, n + 1, nd, s =>
    if nd.contains i then 1 :: placeDims (i + 1) n nd s
    else match s with
      | [] => []
      | d :: r => d :: placeDims (i + 1) n nd r

def expandDims (s : Shape) (dims : List Nat) : Option Shape :=
  let total := s.length + dims.length
  if dims.any (fun p => total ≤ p) then none else some (placeDims 0 total dims s)

/-- `common.set_axes(ndim, arr, axes)`: `ndim` = number of trailing coefficient axes, `axes` an int (first batch axis goes
    there, the others follow) or a tuple of ints (one per batch axis).  `none` = an exception (no batch axis at all:
    `max(())`; or a listed position beyond the result) -/
def setAxesFull (ndim : Nat) (s : Shape) (axes : Nat ⊕ List Nat) : Option Shape :=
  let nb := s.length - ndim
  let ax : List Nat := match axes with
    | .inl a => (List.range nb).map (· + a)
    | .inr l => l
  match ax.max? with
  | none => none
  | some m => expandDims s ((List.range m).filter (fun i => !ax.contains i))

end Shp
end EpgVerif
