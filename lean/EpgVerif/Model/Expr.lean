import EpgVerif.Model.Scalar
/-
  Deep embedding of the closed-form coefficient expressions of epgpy.
  The translator (harness/translate) symbolically executes the real Python
  functions and emits values of this type (`Gen/*.lean`); `eval` gives them a
  meaning at any scalar, `d` is symbolic differentiation (with structural
  simplification of 0/1), proved correct in `Lemmas/Cx.lean` (`HasDerivAt`).
  The same `d` models `Expression.derive` of sequence.py (C11).
-/
namespace EpgVerif

inductive Ex where
  | zero : Ex
  | one : Ex
  | const : Rat → Ex
  | I : Ex
  | pi : Ex
  | var : Nat → Ex
  | add : Ex → Ex → Ex
  | sub : Ex → Ex → Ex
  | mul : Ex → Ex → Ex
  | div : Ex → Ex → Ex
  | neg : Ex → Ex
  | exp : Ex → Ex
  | cos : Ex → Ex
  | sin : Ex → Ex
  | conj : Ex → Ex
  | pow : Ex → Nat → Ex
deriving Repr, Inhabited, BEq, DecidableEq

namespace Ex
variable {K : Type} [Add K] [Sub K] [Mul K] [Neg K] [Div K] [Zero K] [One K] [Conj K] [Transc K]

def eval (env : Nat → K) : Ex → K
  | zero => 0
  | one => 1
  | const q => Transc.ofRat q
  | I => Transc.I
  | pi => Transc.pi
  | var i => env i
  | add a b => eval env a + eval env b
  | sub a b => eval env a - eval env b
  | mul a b => eval env a * eval env b
  | div a b => eval env a / eval env b
  | neg a => - eval env a
  | exp a => Transc.expc (eval env a)
  | cos a => Transc.cos (eval env a)
  | sin a => Transc.sin (eval env a)
  | conj a => Conj.conj (eval env a)
  | pow a n => powNat (eval env a) n

/-! smart constructors: structural simplification of zero / one only -/
def add' : Ex → Ex → Ex
  | zero, b => b
  | a, zero => a
  | a, b => add a b
def neg' : Ex → Ex
  | zero => zero
  | a => neg a
def sub' : Ex → Ex → Ex
  | a, zero => a
  | zero, b => neg' b
  | a, b => sub a b
def mul' : Ex → Ex → Ex
  | zero, _ => zero
  | _, zero => zero
  | one, b => b
  | a, one => a
  | a, b => mul a b
def div' : Ex → Ex → Ex
  | zero, _ => zero
  | a, b => div a b
def conj' : Ex → Ex
  | zero => zero
  | a => conj a
def pow' (a : Ex) : Nat → Ex
  | 0 => one
  | 1 => a
  | n => pow a n

/-- symbolic derivative with respect to (real) variable `i`. -/
def d (i : Nat) : Ex → Ex
  | zero => zero
  | one => zero
  | const _ => zero
  | I => zero
  | pi => zero
  | var j => if j = i then one else zero
  | add a b => add' (d i a) (d i b)
  | sub a b => sub' (d i a) (d i b)
  | mul a b => add' (mul' (d i a) b) (mul' a (d i b))
  | div a b =>
    match d i b with
    | zero => div' (d i a) b
    | db => div (sub' (mul' (d i a) b) (mul' a db)) (mul b b)
  | neg a => neg' (d i a)
  | exp a => mul' (d i a) (exp a)
  | cos a => neg' (mul' (d i a) (sin a))
  | sin a => mul' (d i a) (cos a)
  | conj a => conj' (d i a)
  | pow _ 0 => zero
  | pow a (n + 1) => mul' (mul' (const (n + 1 : Nat)) (pow' a n)) (d i a)

end Ex
end EpgVerif
