import EpgVerif.Model.Ops
/-
  `functions.simulate_simple`, `get_adc_times` and `modify` over abstract operators: an operator
  transforms the state, has a duration, and may be a probe (acquire + post-processing).
-/
namespace EpgVerif
namespace Sim

structure SOp (σ ν τ : Type) where
  apply : σ → σ
  duration : τ
  /-- `some (acquire, post)` for Probe / ADC operators -/
  probe : Option ((σ → ν) × (ν → ν))

variable {σ ν τ : Type} [Add τ] [Zero τ]

/-- `simulate_simple(sm, sequence, probes)`: list of (time, recorded values), one entry per probe
    occurrence; `probes` are the substitutes given with `probe=` (`none` = the in-sequence probe) -/
def simulate (probes : List (Option (σ → ν))) : List (SOp σ ν τ) → σ → τ → List (τ × List ν)
  | [], _, _ => []
  | op :: rest, sm, tic =>
    let sm' := op.apply sm
    let tic' := tic + op.duration
    match op.probe with
    | some (acq, post) =>
      let vals := if probes.isEmpty then [post (acq sm')]
        else probes.map (fun pb => post ((pb.getD acq) sm'))
      (tic', vals) :: simulate probes rest sm' tic'
    | none => simulate probes rest sm' tic'

/-- `get_adc_times(sequence)` -/
def adcTimes : List (SOp σ ν τ) → τ → List τ
  | [], _ => []
  | op :: rest, tic =>
    let tic' := tic + op.duration
    match op.probe with
    | some _ => tic' :: adcTimes rest tic'
    | none => adcTimes rest tic'

/-- state after a prefix of the sequence -/
def runOps : List (SOp σ ν τ) → σ → σ
  | [], s => s
  | op :: rest, s => runOps rest (op.apply s)

/-- `modify(seq, T1=.., T2=.., g=..)` with the default modifier: every operator with a positive
    duration is followed by an evolution of that duration (`relax d`), itself of duration 0 -/
def modify (positive : τ → Bool) (relax : τ → σ → σ) (seq : List (SOp σ ν τ)) : List (SOp σ ν τ) :=
  seq.flatMap (fun op =>
    if positive op.duration then [op, { apply := relax op.duration, duration := 0, probe := none }] else [op])


/-! ### concrete instance: epgpy operators with durations, `Adc` probes, `default_modifier` -/
section Concrete
variable {K : Type} [Add K] [Sub K] [Mul K] [Neg K] [Div K] [Zero K] [One K] [Conj K] [Transc K]

inductive Attr | F0 | Z0 | F | Z
deriving DecidableEq, Inhabited

/-- `Adc(attr, phase=, reduce=, weights=)` for one simulation (batch shape (1,)): scalar weight,
    `reduce` ∈ {None/False, True}, phase in degrees -/
structure AdcSpec (K : Type) where
  attr : Attr
  weight : Option K := none
  reduce : Bool := false
  phase : Option K := none

/-- `Adc._acquire`: attribute, times weights, summed when `reduce` -/
def AdcSpec.acquire (a : AdcSpec K) (s : SM K) : List K :=
  let ks : List Int := (List.range (2 * s.n + 1)).map (fun (i : Nat) => (i : Int) - s.n)
  let arr : List K := match a.attr with
    | .F0 => [(s.get 0).fp]
    | .Z0 => [(s.get 0).z]
    | .F => ks.map (fun k => (s.get k).fp)
    | .Z => ks.map (fun k => (s.get k).z)
  let arr := match a.weight with
    | some w => arr.map (· * w)
    | none => arr
  if a.reduce then [arr.foldl (· + ·) 0] else arr

/-- `Adc._post`: phase compensation `exp(1j * phase / 180 * pi)` -/
def AdcSpec.post (a : AdcSpec K) (v : List K) : List K :=
  match a.phase with
  | some ph => v.map (· * expc (Transc.I * ph / ofRat 180 * Transc.pi))
  | none => v

inductive Item (K : Type) where
  | op (o : Op K) (dur : K)
  | adc (a : AdcSpec K) (dur : K)

def Item.dur : Item K → K
  | .op _ d => d
  | .adc _ d => d

def Item.toSOp (o : Opts) : Item K → SOp (SM K) (List K) K
  | .op x d => { apply := applyOp o x, duration := d, probe := none }
  | .adc a d => { apply := id, duration := d, probe := some (a.acquire, a.post) }

/-- `default_modifier(op, T1=, T2=, g=, att=)`: the list of operators making the modified operator
    (a `MultiOperator` whose duration is the sum, the appended evolution having duration 0) -/
def defaultModifier (positive : K → Bool) (isOne : K → Bool) (T1 T2 g att : Option K) : Item K → List (Item K)
  | it =>
    let it := match it, att with
      | .op (.T a p) d, some t => if isOne t then it else .op (.T (a * t) p) d
      | _, _ => it
    let d := it.dur
    if positive d then
      match T1, T2, g with
      | none, none, none => [it]
      | none, none, some g => [it, .op (.P d g) 0]
      | _, _, _ => [it, .op (.E d (T1.getD (ofRat 10000000000)) (T2.getD (ofRat 10000000000)) (g.getD 0)) 0]
    else [it]

def modifyItems (positive : K → Bool) (isOne : K → Bool) (T1 T2 g att : Option K) (seq : List (Item K)) : List (Item K) :=
  seq.flatMap (defaultModifier positive isOne T1 T2 g att)

end Concrete
end Sim
end EpgVerif
