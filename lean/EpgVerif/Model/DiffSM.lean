import EpgVerif.Model.Diff
/-
  `DiffOperator.__call__` on state matrices: the generic bookkeeping of `Model/Diff.lean`
  instantiated with the operators of `Model/Ops.lean`.  Derivative operators are the
  *symbolic derivatives* `Ex.d` of the canonical coefficients (no hand-written table).
-/
namespace EpgVerif
open Diff
variable {K : Type} [Add K] [Sub K] [Mul K] [Neg K] [Div K] [Zero K] [One K] [Conj K] [Transc K]

/-- positional parameter names of the differentiable operators -/
def paramNames : Op K → List String
  | .T _ _ => ["alpha", "phi"]
  | .Phi _ => ["phi"]
  | .E _ _ _ _ => ["tau", "T1", "T2", "g"]
  | .P _ _ => ["tau", "g"]
  | .R _ _ _ => ["rT", "rL", "r0"]
  | _ => []

def paramIdx (op : Op K) (p : String) : Nat := ((paramNames op).idxOf p)

def paramEnv : Op K → Nat → K
  | .T a p => envOf [a, p]
  | .Phi p => envOf [p]
  | .E a b c d => envOf [a, b, c, d]
  | .P a b => envOf [a, b]
  | .R a b c => envOf [a, b, c.getD 0]
  | _ => fun _ => 0

/-- PARAMETERS_ORDER2 of each class (tied to `Gen.*.PARAMETERS_ORDER2` in `Tie/Tables.lean`) -/
def classP2 : Op K → List PPair
  | .T _ _ => [("alpha", "alpha"), ("alpha", "phi"), ("phi", "phi")]
  | .Phi _ => [("phi", "phi")]
  | .E _ _ _ _ => [("T1", "T1"), ("T1", "tau"), ("T2", "T2"), ("T2", "g"), ("T2", "tau"), ("g", "g"),
                   ("g", "tau"), ("tau", "tau")]
  | .P _ _ => [("g", "g"), ("g", "tau"), ("tau", "tau")]
  | .R _ _ _ => [("r0", "r0"), ("rL", "rL"), ("rT", "rT")]
  | _ => []

/-- zero the equilibrium (`sm_d1.arrays.update("equilibrium", 0)`) -/
def zeroEq (s : SM K) : SM K := SM.mk' s.n s.get (fun _ => 0)

/-- apply the operator whose coefficients are transformed by `f` (identity, `d p`, `d q ∘ d p`) -/
def applyWith (o : Opts) (f : Ex → Ex) (op : Op K) (s : SM K) : SM K :=
  let env := paramEnv op
  match op with
  | .T _ _ => matApply (fun i j => Ex.eval env (f (Coeff.T.mat i j))) s
  | .Phi _ => matApply (fun i j => Ex.eval env (f (Coeff.Phi.mat i j))) s
  | .E _ _ _ _ =>
      scalApply (fun i => Ex.eval env (f (Coeff.E.arr i))) (fun i => Ex.eval env (f (Coeff.E.arr0 i))) s
  | .P _ _ => scalApply (fun i => Ex.eval env (f (Coeff.P.arr i))) (fun _ => 0) s
  | .R _ _ r0 =>
      scalApply (fun i => Ex.eval env (f (Coeff.R.arr i)))
        (match r0 with | some _ => fun i => Ex.eval env (f (Coeff.R.arr0 i)) | none => fun _ => 0) s
  | other => applyOp o other s

/-- declaration carried by a `DiffOperator` after `_parse_partials` -/
structure Decl (K : Type) where
  order1 : List (Var × List (Param × K)) := []
  order2 : List (VPair × List (Param × K)) := []
  auto : Bool := true
deriving Inhabited

def smCarrier : Carrier K (SM K) where
  add a b := SM.mk' a.n (fun k => a.get k + b.get k) a.geq
  smul c a := SM.mk' a.n (fun k => PS.smul c (a.get k)) a.geq

def dopOf (o : Opts) (op : Op K) (dc : Decl K) : DOp K (SM K) where
  derive0 := applyOp o op
  derive1 p s := zeroEq (applyWith o (Ex.d (paramIdx op p)) op s)
  derive2 pp s := zeroEq (applyWith o (fun e => Ex.d (paramIdx op pp.2) (Ex.d (paramIdx op pp.1) e)) op s)
  order1 := dc.order1
  order2 := dc.order2
  auto := dc.auto
  P2 := classP2 op

/-- state matrix with its partial derivatives (`sm.order1`, `sm.order2`) -/
structure DS (K : Type) where
  sm : SM K
  order1 : List (Var × SM K) := []
  order2 : List (VPair × SM K) := []
deriving Inhabited

def isDiffOp : Op K → Bool
  | .T _ _ | .Phi _ | .E _ _ _ _ | .P _ _ | .R _ _ _ | .S _ _ => true
  | _ => false

/-- `op(sm)`: `DiffOperator.__call__` for differentiable operators (incl. the shift);
    plain `Operator.__call__` (Spoiler, Reset, PD, Wait) does not touch the partials (in-place run). -/
def callOp (o : Opts) (op : Op K) (dc : Decl K) (ds : DS K) (mirror : Bool := false) : DS K :=
  if isDiffOp op then
    let dop := dopOf o op dc
    let o2 := if !ds.order2.isEmpty || !dc.order2.isEmpty
      then (if mirror then applyOrder2Code smCarrier dop ds.sm ds.order1 ds.order2
            else applyOrder2 smCarrier dop ds.sm ds.order1 ds.order2) else ds.order2
    let o1 := if !ds.order1.isEmpty || !dc.order1.isEmpty
      then applyOrder1 smCarrier dop ds.sm ds.order1 else ds.order1
    ⟨applyOp o op ds.sm, o1, o2⟩
  else
    ⟨applyOp o op ds.sm, ds.order1, ds.order2⟩

def runD (o : Opts) : List (Op K × Decl K) → DS K → DS K
  | [], ds => ds
  | (op, dc) :: rest, ds => runD o rest (callOp o op dc ds)

end EpgVerif
