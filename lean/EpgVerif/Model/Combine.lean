import EpgVerif.Model.Diff
/-
  Nesting / grouping / `@` combination (functions.flatten_sequence, operator.MultiOperator,
  opscalar.scalar_combine, opmatrix.matrix_combine, `_combine`).
  Operators are abstract affine maps `(A, a)` acting on a state `s` with equilibrium `e` as
  `A • s + a • e`; `A`, `a` live in any (semi)ring `R` acting on the state space (diagonal arrays for
  scalar operators, 3×3 matrices for matrix operators).
-/
namespace EpgVerif
namespace Combine

/-- nested sequence: lists and multi-operators are both nodes -/
inductive NTree (α : Type) where
  | leaf : α → NTree α
  | node : List (NTree α) → NTree α

/-- `flatten_sequence` -/
def flatten {α : Type} : NTree α → List α
  | .leaf a => [a]
  | .node ts => flattenList ts
where flattenList : List (NTree α) → List α
  | [] => []
  | t :: ts => flatten t ++ flattenList ts

/-- apply the leaves in order (what "sequential application" means for a nested sequence) -/
def applyTree {α σ : Type} (f : α → σ → σ) : NTree α → σ → σ
  | .leaf a, s => f a s
  | .node ts, s => applyList f ts s
where applyList (f : α → σ → σ) : List (NTree α) → σ → σ
  | [], s => s
  | t :: ts, s => applyList f ts (applyTree f t s)

/-- attributes a `MultiOperator` accumulates in `append` -/
structure Attrs where
  duration : Int
  nshift : Nat
  shape : List Nat
deriving Repr, DecidableEq

/-- `broadcast_shapes(a, b, append=True)` on already compatible shapes -/
def bshape : List Nat → List Nat → List Nat
  | [], b => b
  | a, [] => a
  | x :: a, y :: b => (if x = 1 then y else x) :: bshape a b

def appendAttrs (m : Attrs) (op : Attrs) : Attrs :=
  ⟨m.duration + op.duration, m.nshift + op.nshift, bshape m.shape op.shape⟩

/-- `MultiOperator(ops)` -/
def multiAttrs (ops : List Attrs) : Attrs := ops.foldl appendAttrs ⟨0, 0, [1]⟩

/-- an affine operator: linear part and equilibrium part (`arr, arr0` / `mat, mat0`; `none` = no
    equilibrium part) -/
structure Aff (R : Type) where
  lin : R
  eq : Option R

variable {R : Type} [Mul R] [Add R]

/-- `scalar_combine` / `matrix_combine` : first `o1`, then `o2` -/
def combine (o1 o2 : Aff R) : Aff R :=
  ⟨o2.lin * o1.lin,
   match o1.eq, o2.eq with
   | none, none => none
   | none, some b => some b
   | some a, none => some (o2.lin * a)
   | some a, some b => some (o2.lin * a + b)⟩

end Combine
end EpgVerif
