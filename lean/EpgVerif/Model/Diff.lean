import EpgVerif.Model.Ops
/-
  Differentiation bookkeeping of diff.py, *generic in the carrier*: the same code runs
  on state matrices (`DiffOperator.__call__`) and on operator arrays (`_combine`, C10).
  Python dictionaries are association lists in insertion order; every function mirrors the
  statement order of `_apply_order1` / `_apply_order2` / `combine_partials` / `accumulate`.
-/
namespace EpgVerif
namespace Diff

abbrev Var := String
abbrev Param := String
abbrev VPair := Var × Var
abbrev PPair := Param × Param

/-- `Pair(p1, p2)`: sorted pair -/
def pair (a b : String) : String × String := if a > b then (b, a) else (a, b)
def pairOf (p : String × String) : String × String := pair p.1 p.2

section dict
variable {κ C : Type} [DecidableEq κ]

def lookup (d : List (κ × C)) (k : κ) : Option C := (d.find? (fun e => e.1 = k)).map (·.2)
def hasKey (d : List (κ × C)) (k : κ) : Bool := d.any (fun e => e.1 = k)
/-- `d[k] = v` (replace in place if present, else append) -/
def insert (d : List (κ × C)) (k : κ) (v : C) : List (κ × C) :=
  if hasKey d k then d.map (fun e => if e.1 = k then (k, v) else e) else d ++ [(k, v)]
/-- duplicate-free list of keys, first occurrence order (a Python `set`, order immaterial) -/
def dedup : List κ → List κ
  | [] => []
  | x :: xs => x :: (dedup xs).filter (fun y => y ≠ x)
/-- `d[k] += v`, creating the entry when absent (`combine_partials` / `accumulate` step) -/
def addTo (add : C → C → C) (d : List (κ × C)) (k : κ) (v : C) : List (κ × C) :=
  match lookup d k with
  | none => insert d k v
  | some old => insert d k (add old v)
end dict

/-- the two carrier operations the bookkeeping needs -/
structure Carrier (K C : Type) where
  add : C → C → C
  smul : K → C → C

/-- what `_apply_order1/2` need to know about the operator -/
structure DOp (K C : Type) where
  derive0 : C → C
  derive1 : Param → C → C
  derive2 : PPair → C → C
  order1 : List (Var × List (Param × K))
  order2 : List (VPair × List (Param × K))
  auto : Bool
  /-- PARAMETERS_ORDER2 of the class, as sorted pairs -/
  P2 : List PPair

variable {K C : Type} [Mul K] [Add K] [Zero K]

/-- inner loop of `combine_partials`: one variable's `{param: coeff}` entries -/
def combineStep {κ π : Type} [DecidableEq κ] [DecidableEq π] (car : Carrier K C)
    (partials : List (π × C)) (combined : List (κ × C)) (e : κ × List (π × K)) : List (κ × C) :=
  e.2.foldl (fun combined pc =>
    match lookup partials pc.1 with
    | none => combined
    | some part => addTo car.add combined e.1 (car.smul pc.2 part)) combined

/-- `combine_partials(variables, partials)` -/
def combinePartials {κ π : Type} [DecidableEq κ] [DecidableEq π] (car : Carrier K C)
    (variables : List (κ × List (π × K))) (partials : List (π × C)) : List (κ × C) :=
  variables.foldl (combineStep car partials) []

/-- `accumulate(dict1, *dicts)` -/
def accumulate {κ : Type} [DecidableEq κ] (car : Carrier K C) (d1 : List (κ × C)) (ds : List (List (κ × C))) :
    List (κ × C) :=
  ds.foldl (fun acc other => other.foldl (fun acc e => addTo car.add acc e.1 e.2) acc) d1

def parametersOrder1 (op : DOp K C) : List Param :=
  dedup (op.order1.flatMap (fun e => e.2.map (·.1)))

def order1Get (op : DOp K C) (v : Var) : List (Param × K) := (lookup op.order1 v).getD []

/-- `parameters_order2`: sorted parameter pairs of the declared variable pairs that the class supports -/
def parametersOrder2 (op : DOp K C) : List PPair :=
  dedup ((op.order2.flatMap (fun e =>
    (order1Get op e.1.1).flatMap (fun p1 => (order1Get op e.1.2).map (fun p2 => (p1.1, p2.1))))).filterMap
      (fun (p1, p2) => if op.P2.contains (p1, p2) || op.P2.contains (p2, p1) then some (pair p1 p2) else none))

/-- `_apply_order1` -/
def applyOrder1 (car : Carrier K C) (op : DOp K C) (s : C) (o1 : List (Var × C)) : List (Var × C) :=
  let prev := o1.map (fun e => (e.1, op.derive0 e.2))
  let partials := (parametersOrder1 op).map (fun p => (p, op.derive1 p s))
  let cur := combinePartials car op.order1 partials
  accumulate car prev [cur]

/-- sum the products `c1*c2` landing on the same sorted parameter pair -/
def addCoeff (d : List (PPair × K)) (k : PPair) (c : K) : List (PPair × K) :=
  addTo (· + ·) d k c

/-- `_apply_order2`, statement-by-statement mirror of the Python code (dict-of-dicts, then
    `combine_partials`); executed by the Driver and compared with epgpy and with `applyOrder2`. -/
def applyOrder2Code (car : Carrier K C) (op : DOp K C) (s : C) (o1 : List (Var × C))
    (o2 : List (VPair × C)) : List (VPair × C) :=
  -- remove duplicates (mirror keys hold the same object)
  let o2 : List (VPair × C) := o2.foldl (fun acc e => insert acc (pairOf e.1) e.2) []
  let prev2 := o2.map (fun e => (e.1, op.derive0 e.2))
  -- second-order coefficients of the parameters
  let params1 := dedup (op.order2.flatMap (fun e => e.2.map (·.1)))
  let partials1 := params1.map (fun p => (p, op.derive1 p s))
  let prev1 := combinePartials car op.order2 partials1
  -- second derivatives of the current operator
  let partials2 := (parametersOrder2 op).map (fun pp => (pp, op.derive2 pp s))
  let coeffs2 : List (VPair × List (PPair × K)) :=
    op.order2.foldl (fun acc e =>
      let cs := (order1Get op e.1.1).foldl (fun cs p1 =>
        (order1Get op e.1.2).foldl (fun cs p2 => addCoeff cs (pair p1.1 p2.1) (p1.2 * p2.2)) cs) []
      insert acc (pairOf e.1) cs) []
  let cur2 := combinePartials car coeffs2 partials2
  -- cross derivatives
  let varsCross : List VPair :=
    if op.auto then dedup (op.order1.flatMap (fun a => o1.map (fun b => pair a.1 b.1)))
    else dedup (op.order2.map (·.1))
  let paramsCross := dedup (varsCross.flatMap (fun pr =>
    ((order1Get op pr.1).map (·.1)) ++ ((order1Get op pr.2).map (·.1))))
  let partialsX : List ((Param × Var) × C) :=
    o1.flatMap (fun b => paramsCross.map (fun p => ((p, b.1), op.derive1 p b.2)))
  let mk (keep : Var → Var → Bool) : List (VPair × List ((Param × Var) × K)) :=
    o1.foldl (fun acc b =>
      op.order1.foldl (fun acc a =>
        if varsCross.contains (pair b.1 a.1) && keep b.1 a.1
        then insert acc (pair b.1 a.1) (a.2.map (fun pc => ((pc.1, b.1), pc.2)))
        else acc) acc) []
  let cross1 := combinePartials car (mk (fun v1 v2 => v1 ≥ v2)) partialsX
  let cross2 := combinePartials car (mk (fun v1 v2 => v1 ≤ v2)) partialsX
  let res := accumulate car prev2 [prev1, cur2, cross1, cross2]
  -- store (v1, v2) and (v2, v1)
  res.foldl (fun acc e => if e.1.1 = e.1.2 then acc else insert acc (e.1.2, e.1.1) e.2) res

/-- does the class support the second derivative w.r.t. this parameter pair? -/
def supported (op : DOp K C) (p1 p2 : Param) : Bool := op.P2.contains (p1, p2) || op.P2.contains (p2, p1)

/-- variable pairs for which cross terms are formed -/
def varsCross (op : DOp K C) (o1 : List (Var × C)) : List VPair :=
  if op.auto then dedup (op.order1.flatMap (fun a => o1.map (fun b => pair a.1 b.1)))
  else dedup (op.order2.map (·.1))

/-- `Σ_p (∂²p/∂a∂b) D_p s` -/
def termsA (car : Carrier K C) (op : DOp K C) (s : C) : List (VPair × C) :=
  op.order2.flatMap (fun e => e.2.map (fun pc => (pairOf e.1, car.smul pc.2 (op.derive1 pc.1 s))))

/-- `Σ_{p,q} (∂p/∂a)(∂q/∂b) D²_{pq} s` (pairs the class does not support have zero derivative) -/
def termsB (car : Carrier K C) (op : DOp K C) (s : C) : List (VPair × C) :=
  op.order2.flatMap (fun e =>
    (order1Get op e.1.1).flatMap (fun p1 =>
      (order1Get op e.1.2).filterMap (fun p2 =>
        if supported op p1.1 p2.1
        then some (pairOf e.1, car.smul (p1.2 * p2.2) (op.derive2 (pair p1.1 p2.1) s)) else none)))

/-- cross terms `Σ_p (∂p/∂v2) D_p J1[v1]` over `v1` carried by the state, `v2` declared by the
    operator, restricted by `keep` (`≥` for the first batch, `≤` for the second) -/
def termsX (car : Carrier K C) (op : DOp K C) (o1 : List (Var × C)) (keep : Var → Var → Bool) :
    List (VPair × C) :=
  o1.flatMap (fun b => op.order1.flatMap (fun a =>
    if (varsCross op o1).contains (pair b.1 a.1) && keep b.1 a.1
    then a.2.map (fun pc => (pair b.1 a.1, car.smul pc.2 (op.derive1 pc.1 b.2))) else []))

/-- `_apply_order2` in accumulation form: every term of the code is added under its (sorted)
    variable pair.  Equal to `applyOrder2Code` whenever dictionary keys are unique (Python
    dictionaries) — that equality is checked by execution in every correspondence run. -/
def applyOrder2 (car : Carrier K C) (op : DOp K C) (s : C) (o1 : List (Var × C))
    (o2 : List (VPair × C)) : List (VPair × C) :=
  let o2n : List (VPair × C) := o2.foldl (fun acc e => insert acc (pairOf e.1) e.2) []
  let base := o2n.map (fun e => (e.1, op.derive0 e.2))
  let terms := termsA car op s ++ termsB car op s ++ termsX car op o1 (fun v1 v2 => v1 ≥ v2)
    ++ termsX car op o1 (fun v1 v2 => v1 ≤ v2)
  let res := terms.foldl (fun acc e => addTo car.add acc e.1 e.2) base
  res.foldl (fun acc e => if e.1.1 = e.1.2 then acc else insert acc (e.1.2, e.1.1) e.2) res

end Diff
end EpgVerif
