/-
  `common.ArrayTuple`: tuples of optional arrays, `None` standing for "no such part" (e.g. an operator without recovery
  term).  Sums treat `None` as absent (the other operand is kept), products as absorbing.
-/
namespace EpgVerif
namespace ATuple

/-- element rule of `__add__` / `__iadd__`: `a if b is None else b if a is None else a + b` -/
def oadd {α : Type} [Add α] : Option α → Option α → Option α
  | a, none => a
  | none, b => b
  | some a, some b => some (a + b)

/-- element rule of `__mul__` / `__imul__`: `None if (a is None) or (b is None) else a * b` -/
def omul {α : Type} [Mul α] : Option α → Option α → Option α
  | some a, some b => some (a * b)
  | _, _ => none

abbrev T (α : Type) := List (Option α)

/-- `zip(self, other, strict=True)`: `none` = ValueError on different lengths -/
def zipStrict {α : Type} (f : Option α → Option α → Option α) : T α → T α → Option (T α)
  | [], [] => some []
  | a :: as, b :: bs => (zipStrict f as bs).map (f a b :: ·)
  | _, _ => none

def add {α : Type} [Add α] (x y : T α) : Option (T α) := zipStrict oadd x y
def mul {α : Type} [Mul α] (x y : T α) : Option (T α) := zipStrict omul x y
/-- `self + scalar`: `other if a is None else a + other` -/
def addScalar {α : Type} [Add α] (x : T α) (c : α) : T α := x.map (fun a => match a with | none => some c | some a => some (a + c))
/-- `self * scalar`: `None if a is None else a * other` -/
def mulScalar {α : Type} [Mul α] (x : T α) (c : α) : T α := x.map (fun a => a.map (· * c))
def neg {α : Type} [Neg α] (x : T α) : T α := x.map (fun a => a.map (- ·))

end ATuple
end EpgVerif
