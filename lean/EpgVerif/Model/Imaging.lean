import EpgVerif.Model.ND
/-
  `utils.imaging` / `probe.Imaging` on the coordinate-table model: weighted inverse Fourier sum of the
  transverse states with the voxel form factor and the time-coordinate modulation.
  (The `tol` masks of the code only drop terms below 1e-8 and are not modelled.)
-/
namespace EpgVerif
namespace Img
variable {K : Type} [Add K] [Sub K] [Mul K] [Neg K] [Div K] [Zero K] [One K] [Conj K] [Transc K]

/-- `np.sinc(y / π)` = sin y / y, 1 at 0 -/
def sinc (isZero : K → Bool) (y : K) : K := if isZero y then 1 else Transc.sin y / y

structure Opts (K : Type) where
  box : Bool := true          -- voxel_shape "box" / "point"
  size : K                    -- voxel_size
  modRe : Option K := none    -- real part of `modulation` (rate, 1/ms)
  modIm : Option K := none    -- imaginary part (frequency, kHz)
  phase : Option K := none    -- degrees

/-- one term of the sum: state at wavenumber `w` (first `kd` axes), accumulated time `t`, at position `x` (first `pd` axes) -/
def term (isZero : K → Bool) (absK : K → K) (o : Opts K) (kd pd : Nat) (x : Nat → K) (w : Nat → K) (t : K) (f : K) : K :=
  let two : K := ofRat 2
  let voxel : K := if o.box then (List.range kd).foldl (fun acc n => acc * sinc isZero (w n * o.size / two)) 1 else 1
  let mre : K := match o.modRe with | some r => expc (absK t * r) | none => 1
  let mim : K := match o.modIm with | some fr => expc (Transc.I * (t * two * Transc.pi * fr)) | none => 1
  let ph : K := match o.phase with | some p => expc (Transc.I * p * Transc.pi / ofRat 180) | none => 1
  let kpos : K := (List.range pd).foldl (fun acc n => acc + w n * x n) 0
  voxel * (mre * mim * ph) * f * expc (Transc.I * kpos)

variable {κ : Type}

/-- `utils.imaging(positions, F, k, acctime, ...)` with `reduce` over the states only -/
def imaging (isZero : K → Bool) (absK : K → K) (o : Opts K) (kd pd : Nat) (wave : κ → Nat → K) (time : κ → K)
    (x : Nat → K) (s : NDS κ K) : K :=
  s.ent.foldl (fun acc e => acc + term isZero absK o kd pd x (wave e.1) (time e.1) e.2.fp) 0

end Img
end EpgVerif
