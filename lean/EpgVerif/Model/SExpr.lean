/-
  Model of the symbolic `Expression` layer of sequence.py: expression trees over the function
  table `sequence.math` (arity ≤ 2), evaluation, substitution (`map`) and the *table-driven*
  derivative of `Expression.derive` (chain rule with proxy substitution).  The derivative table
  itself is regenerated from the source (`Gen/MathTable.lean`) and passed as a parameter.
-/
namespace EpgVerif

/-- the functions of `sequence.math` -/
inductive Fn where
  | left | right | sign | neg | abs | add | sub | mul | inv | div | pow | log | exp
deriving DecidableEq, Repr, Inhabited

/-- two-argument functions -/
def Fn.binary : Fn → Bool
  | .left | .right | .add | .sub | .mul | .div | .pow => true
  | _ => false

/-- operations an evaluation scalar must provide (Float for the Driver, ℝ for the proofs) -/
class RealOps (K : Type) where
  abs : K → K
  sign : K → K
  log : K → K
  exp : K → K
  pow : K → K → K

inductive SE (K : Type) where
  | const : K → SE K
  | var : String → SE K
  | proxy : Nat → SE K            -- `Proxy(position)`, positions 1 and 2
  | app1 : Fn → SE K → SE K
  | app2 : Fn → SE K → SE K → SE K
deriving Inhabited

namespace SE
variable {K : Type} [Add K] [Sub K] [Mul K] [Neg K] [Div K] [Zero K] [One K] [RealOps K]

/-- small integer constants of the derivative table -/
def natK : Nat → K
  | 0 => 0
  | n + 1 => natK n + 1
def intK : Int → K
  | .ofNat n => natK n
  | .negSucc n => -(natK (n + 1))

def fn1 (f : Fn) (a : K) : K :=
  match f with
  | .sign => RealOps.sign a
  | .neg => -a
  | .abs => RealOps.abs a
  | .inv => 1 / a
  | .log => RealOps.log a
  | .exp => RealOps.exp a
  | _ => a

def fn2 (f : Fn) (a b : K) : K :=
  match f with
  | .left => a
  | .right => b
  | .add => a + b
  | .sub => a - b
  | .mul => a * b
  | .div => a / b
  | .pow => RealOps.pow a b
  | _ => a

/-- `expr(**values)`; proxies are bound to `p1`, `p2` -/
def eval (env : String → K) (p1 p2 : K) : SE K → K
  | const c => c
  | var v => env v
  | proxy n => if n = 1 then p1 else p2
  | app1 f a => fn1 f (eval env p1 p2 a)
  | app2 f a b => fn2 f (eval env p1 p2 a) (eval env p1 p2 b)

/-- does the expression mention variable `v`? (`variable in map(str, arg.variables)`) -/
def mentions (v : String) : SE K → Bool
  | const _ => false
  | var w => w == v
  | proxy _ => false
  | app1 _ a => mentions v a
  | app2 _ a b => mentions v a || mentions v b

def isVar : SE K → Bool
  | var _ => true
  | _ => false

/-- does the first (`first = true`) / the second proxy occur?  (position 1 is the first proxy,
    every other position reads as the second, as in `eval`) -/
def hasProxy (first : Bool) : SE K → Bool
  | const _ => false
  | var _ => false
  | proxy m => if first then m == 1 else m != 1
  | app1 _ a => hasProxy first a
  | app2 _ a b => hasProxy first a || hasProxy first b

def substProxy (a b : SE K) : SE K → SE K
  | const c => const c
  | var v => var v
  | proxy n => if n = 1 then a else b
  | app1 f x => app1 f (substProxy a b x)
  | app2 f x y => app2 f (substProxy a b x) (substProxy a b y)

/-- `partial.map(dict(zip(partial.proxies, self.arguments)))`: the proxies *present* in the table
    entry, sorted by position, are bound to the arguments in order -/
def bindProxies (args : List (SE K)) (t : SE K) : SE K :=
  let a0 := args.getD 0 (const 0)
  let a1 := args.getD 1 a0
  if hasProxy true t then substProxy a0 a1 t else substProxy a0 a0 t

/-- `Expression.map`: substitute variables by expressions -/
def subst (σ : String → Option (SE K)) : SE K → SE K
  | const c => const c
  | var v => (σ v).getD (var v)
  | proxy n => proxy n
  | app1 f x => app1 f (subst σ x)
  | app2 f x y => app2 f (subst σ x) (subst σ y)

/-- derivative table: for function `f` and argument index `i` (0-based) the derivative expression
    over the proxies, `none` when `sequence.math` defines none -/
abbrev Table (K : Type) := Fn → Nat → Option (SE K)

/-- one iteration of the loop of `Expression.derive` (argument `arg` at index `i`) -/
def deriveArg (tbl : Table K) (v : String) (f : Fn) (args : List (SE K)) (i : Nat) (arg : SE K)
    (darg : Option (SE K)) (acc : Option (SE K)) : Option (SE K) :=
  if mentions v arg then
    match acc, tbl f i, darg with
    | some acc, some t, some darg =>
      let part := bindProxies args t
      let part := if isVar arg then part else app2 .mul darg part
      some (app2 .add acc part)
    | _, _, _ => none
  else acc

/-- `Expression.derive(variable)`; `none` = the code raises (undefined derivative) -/
def derive (tbl : Table K) (v : String) : SE K → Option (SE K)
  | const _ => some (const 0)
  | var w => some (const (if w = v then 1 else 0))
  | proxy _ => none
  | app1 f a => deriveArg tbl v f [a] 0 a (derive tbl v a) (some (const 0))
  | app2 f a b =>
      deriveArg tbl v f [a, b] 1 b (derive tbl v b)
        (deriveArg tbl v f [a, b] 0 a (derive tbl v a) (some (const 0)))

end SE
end EpgVerif
