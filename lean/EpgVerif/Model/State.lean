import EpgVerif.Model.Expr
/-
  Phase-state vectors and the 1-D state matrix (value level of statematrix.py).
  Arrays are *materialised functions*: `SM.get s k` reads state `k ∈ ℤ` (zero outside
  `[-n, n]`), `SM.mk' n f g` stores `f`/`g` on `[-n, n]`; `get_mk'` is the only array lemma
  used anywhere (Lemmas/StateLemmas.lean).
-/
namespace EpgVerif

structure PS (K : Type) where
  fp : K
  fm : K
  z : K
deriving Inhabited, Repr

namespace PS
variable {K : Type}
instance [Zero K] : Zero (PS K) := ⟨⟨0, 0, 0⟩⟩
instance [Add K] : Add (PS K) := ⟨fun a b => ⟨a.fp + b.fp, a.fm + b.fm, a.z + b.z⟩⟩
instance [Sub K] : Sub (PS K) := ⟨fun a b => ⟨a.fp - b.fp, a.fm - b.fm, a.z - b.z⟩⟩
instance [Neg K] : Neg (PS K) := ⟨fun a => ⟨-a.fp, -a.fm, -a.z⟩⟩
/-- scalar multiple -/
def smul [Mul K] (c : K) (a : PS K) : PS K := ⟨c * a.fp, c * a.fm, c * a.z⟩
/-- component-wise (diagonal operator) product: `arr 0,1,2` multiply `fp, fm, z` -/
def dmul [Mul K] (arr : Nat → K) (a : PS K) : PS K := ⟨arr 0 * a.fp, arr 1 * a.fm, arr 2 * a.z⟩
/-- 3×3 matrix (rows/columns ordered F+, F-, Z) times vector -/
def mmul [Mul K] [Add K] (m : Nat → Nat → K) (a : PS K) : PS K :=
  ⟨m 0 0 * a.fp + m 0 1 * a.fm + m 0 2 * a.z,
   m 1 0 * a.fp + m 1 1 * a.fm + m 1 2 * a.z,
   m 2 0 * a.fp + m 2 1 * a.fm + m 2 2 * a.z⟩
theorem ext' {a b : PS K} (h1 : a.fp = b.fp) (h2 : a.fm = b.fm) (h3 : a.z = b.z) : a = b := by
  cases a; cases b; simp_all
end PS

/-- 1-D state matrix with `2n+1` phase states (index `k + n`), and its equilibrium. -/
structure SM (K : Type) where
  n : Nat
  st : Array (PS K)
  eq : Array (PS K)
deriving Inhabited

namespace SM
variable {K : Type} [Zero K]

def inRange (n : Nat) (k : Int) : Bool := decide (-(n : Int) ≤ k) && decide (k ≤ (n : Int))

/-- state `k` (zero outside the stored range) -/
def get (s : SM K) (k : Int) : PS K :=
  if inRange s.n k then s.st.getD (k + s.n).toNat 0 else 0
/-- equilibrium row `k` -/
def geq (s : SM K) (k : Int) : PS K :=
  if inRange s.n k then s.eq.getD (k + s.n).toNat 0 else 0

/-- materialise functions on `[-n, n]` -/
def mk' (n : Nat) (f g : Int → PS K) : SM K :=
  ⟨n, Array.ofFn (n := 2 * n + 1) (fun i => f ((i.val : Int) - n)),
      Array.ofFn (n := 2 * n + 1) (fun i => g ((i.val : Int) - n))⟩

/-- `StateMatrix.resize`: centred zero-padding / cropping of states and equilibrium -/
def resize (s : SM K) (n' : Nat) : SM K := mk' n' s.get s.geq

/-- `StateMatrix([0,0,1]*pd)` -/
def init [One K] (pd : K) : SM K := mk' 0 (fun _ => ⟨0, 0, pd⟩) (fun _ => ⟨0, 0, pd⟩)

/-- well-formed sizes -/
def Sized (s : SM K) : Prop := s.st.size = 2 * s.n + 1 ∧ s.eq.size = 2 * s.n + 1

end SM
end EpgVerif
