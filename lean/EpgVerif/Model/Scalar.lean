/-
  Scalar interface of the executable model.  No imports: core Lean only.
  Every model definition is polymorphic in a scalar `K` carrying these
  operations, so the same term runs at `CF` (pairs of IEEE doubles, see
  `Model/CF.lean`) and is reasoned about at `ℂ` (instances in `Lemmas/Cx.lean`).
-/
namespace EpgVerif

class Conj (K : Type) where
  conj : K → K

class Transc (K : Type) where
  expc : K → K
  cos : K → K
  sin : K → K
  pi : K
  I : K
  ofRat : Rat → K

export Conj (conj)
export Transc (expc ofRat)

/-- natural power by repeated multiplication (kept explicit: no `Monoid` in core). -/
def powNat {K : Type} [Mul K] [One K] (x : K) : Nat → K
  | 0 => 1
  | n + 1 => powNat x n * x

end EpgVerif
