import EpgVerif.Model.CF
import EpgVerif.Model.Bloch
import EpgVerif.Model.DiffSM
import EpgVerif.Model.Jet
import EpgVerif.Gen.MathTable
import EpgVerif.Model.Coll
import EpgVerif.Model.Shape
import EpgVerif.Model.Sim
import EpgVerif.Model.RF
import EpgVerif.Model.Guards
import EpgVerif.Model.ND
import EpgVerif.Model.Diffusion
import EpgVerif.Model.Imaging
import EpgVerif.Model.Exchange
import EpgVerif.Model.Heap
import EpgVerif.Model.Bind
import EpgVerif.Model.ATuple
/-
  Line-protocol driver over the executable model at `K := CF` (DESIGN Appendix A).
  One request per line; floats travel as the decimal of their IEEE-754 bits.
-/
open EpgVerif

def fOfTok (t : String) : Float := Float.ofBits (UInt64.ofNat t.toNat!)
def cOfTok (t : String) : CF := ⟨fOfTok t, 0⟩
def bits (x : Float) : String := toString x.toBits.toNat
def showPS (p : PS CF) : String :=
  s!"{bits p.fp.re} {bits p.fp.im} {bits p.fm.re} {bits p.fm.im} {bits p.z.re} {bits p.z.im}"

abbrev JC := Jet CF

instance : RealOps Float where
  abs := Float.abs
  sign x := if x > 0 then 1 else if x < 0 then -1 else 0
  log := Float.log
  exp := Float.exp
  pow := Float.pow

def fnOfTok : String → Fn
  | "left" => .left | "right" => .right | "sign" => .sign | "neg" => .neg | "abs" => .abs
  | "add" => .add | "sub" => .sub | "mul" => .mul | "inv" => .inv | "div" => .div
  | "pow" => .pow | "log" => .log | _ => .exp

/-- prefix notation: `c <bits>` | `v <name>` | `f1 <fn> <e>` | `f2 <fn> <e> <e>` -/
partial def parseSE : List String → Option (SE Float × List String)
  | "c" :: b :: rest => some (.const (fOfTok b), rest)
  | "v" :: n :: rest => some (.var n, rest)
  | "f1" :: f :: rest =>
    match parseSE rest with
    | some (a, rest) => some (.app1 (fnOfTok f) a, rest)
    | none => none
  | "f2" :: f :: rest =>
    match parseSE rest with
    | some (a, rest) =>
      match parseSE rest with
      | some (b, rest) => some (.app2 (fnOfTok f) a b, rest)
      | none => none
    | none => none
  | _ => none

/-- `sexpr <vars to derive, comma separated or -> <name=bits ...> | <prefix expr>` -/
def sexprCmd (toks : List String) : String :=
  match toks with
  | dv :: rest =>
    let envToks := rest.takeWhile (· ≠ "|")
    let exprToks := (rest.dropWhile (· ≠ "|")).drop 1
    let envL : List (String × Float) := envToks.filterMap (fun t =>
      match t.splitOn "=" with
      | [n, b] => some (n, fOfTok b)
      | _ => none)
    let env : String → Float := fun n => ((envL.find? (·.1 == n)).map (·.2)).getD 0
    match parseSE exprToks with
    | some (e, _) =>
      let vs := if dv == "-" then [] else dv.splitOn ","
      let de := vs.foldl (fun (acc : Option (SE Float)) v => acc.bind (SE.derive Gen.mathTable v)) (some e)
      match de with
      | some d => s!"val {bits (SE.eval env 0 0 d)}"
      | none => "val none"
    | none => "bad-expr"
  | _ => "bad-expr"

def shapeOfTok (t : String) : List Nat := if t == "-" then [] else (t.splitOn "x").map String.toNat!
def showShape (s : List Nat) : String := if s.isEmpty then "-" else "x".intercalate (s.map toString)
def layoutOfTok (t : String) : List Coll.LItem :=
  (t.splitOn ",").map (fun x =>
    if x == "..." then Coll.LItem.ell
    else if x == "_" then Coll.LItem.free
    else if x.startsWith "#" then Coll.LItem.fixed (x.drop 1).toNat!
    else Coll.LItem.named ((x.drop 1).toString))

def dumpColl (c : Coll.C) : String :=
  let axes := (c.axes.toArray.qsort (fun a b => a.1 < b.1)).toList.map (fun (k, v) => s!"{k}={v}")
  let gets := c.arrays.map (fun (n, _) => s!"{n}:{showShape ((Coll.get c n).getD [])}")
  s!"coll shape={showShape c.shape} axes=[{",".intercalate axes}] gets=[{",".intercalate gets}]"

/-- collection sub-protocol; `none` collection state means an error was reported for that step -/
def collCmd (c : Coll.C) (toks : List String) : Coll.C × String :=
  let fin (r : Except Coll.Err Coll.C) : Coll.C × String :=
    match r with
    | .ok c' => (c', dumpColl c')
    | .error .value => (c, "err ValueError")
    | .error .index => (c, "err IndexError")
    | .error .key => (c, "err KeyError")
  match toks with
  | ["cnew", ax, d] => let c' := Coll.init (if d == "none" then none else some (shapeOfTok d)) ax.toInt!; (c', dumpColl c')
  | ["cset", name, sh, lay, rs, ck] =>
      fin (Coll.set c name (shapeOfTok sh) (if lay == "none" then none else some (layoutOfTok lay)) (rs == "1") (ck == "1"))
  | ["cpop", name] => let c' := Coll.pop c name; (c', dumpColl c')
  | ["cresize", ax, n] => fin (Coll.resize c ax n.toNat!)
  | ["cexpand", n] => let c' := Coll.expand c n.toNat!; (c', dumpColl c')
  | ["creduce", n] => let c' := Coll.reduce c n.toNat!; (c', dumpColl c')
  | ["cbroadcast", sh] => fin (Coll.broadcast c (shapeOfTok sh))
  | _ => (c, "bad-coll")

structure DState where
  opts : Opts := {}
  sm : SM CF := SM.init (1 : CF)
  sm0 : SM CF := SM.init (1 : CF)
  ops : Array (Op CF) := #[]
  -- differentiation: model bookkeeping state, jet specification state, variable names
  ds : DS CF := ⟨SM.init (1 : CF), [], []⟩
  dsm : DS CF := ⟨SM.init (1 : CF), [], []⟩   -- statement-by-statement mirror of the Python code
  js : SM JC := SM.init (1 : JC)
  vars : Array String := #[]
  coll : Coll.C := Coll.init none 0
  nds : NDS K4 CF := NDS.init (0 : K4) (1 : CF)
  nops : Array (NOp K4 CF) := #[]
  npd : CF := 1
  xs : Array (SM CF) := #[]
  heap : Heap.World := Heap.init
  items : Array (Sim.Item CF) := #[]
  probes : Array (Option (Sim.AdcSpec CF)) := #[]

def intOfTok (t : String) : Int := t.toInt!

def parseOp (toks : List String) : Option (Op CF) :=
  match toks with
  | ["T", a, p] => some (.T (cOfTok a) (cOfTok p))
  | ["Phi", p] => some (.Phi (cOfTok p))
  | ["E", a, b, c, d] => some (.E (cOfTok a) (cOfTok b) (cOfTok c) (cOfTok d))
  | ["P", a, b] => some (.P (cOfTok a) (cOfTok b))
  | ["R", a, ai, b, "none"] => some (.R ⟨fOfTok a, fOfTok ai⟩ (cOfTok b) none)
  | ["R", a, ai, b, c] => some (.R ⟨fOfTok a, fOfTok ai⟩ (cOfTok b) (some (cOfTok c)))
  | ["S", k, "none"] => some (.S (intOfTok k) none)
  | ["S", k, n] => some (.S (intOfTok k) (some n.toNat!))
  | ["SPOILER"] => some .Spoiler
  | ["RESET"] => some .Reset
  | ["PD", pd, r] => some (.PD (cOfTok pd) (r == "1"))
  | ["WAIT"] => some .Wait
  | _ => none

/-- declaration segments `v:p:c ...`, `a,b:p:c ...`, flag -/
def parseDecl (segs : List (List String)) : Decl CF :=
  let o1toks := segs.getD 0 []
  let o2toks := segs.getD 1 []
  let auto := (segs.getD 2 []).getD 0 "1" == "1"
  let add1 (acc : List (String × List (String × CF))) (t : String) :=
    match t.splitOn ":" with
    | [v, p, c] =>
      let entry : List (String × CF) := if p == "" then [] else [(p, cOfTok c)]
      if acc.any (·.1 == v) then acc.map (fun e => if e.1 == v then (v, e.2 ++ entry) else e)
      else acc ++ [(v, entry)]
    | _ => acc
  let add2 (acc : List ((String × String) × List (String × CF))) (t : String) :=
    match t.splitOn ":" with
    | [vv, p, c] =>
      match vv.splitOn "," with
      | [a, b] =>
        let entry : List (String × CF) := if p == "" then [] else [(p, cOfTok c)]
        if acc.any (·.1 == (a, b)) then acc.map (fun e => if e.1 == (a, b) then ((a, b), e.2 ++ entry) else e)
        else acc ++ [((a, b), entry)]
      | _ => acc
    | _ => acc
  { order1 := o1toks.foldl add1 [], order2 := o2toks.foldl add2 [], auto := auto }

def splitSegs (toks : List String) : List (List String) :=
  toks.foldl (fun (acc : List (List String)) t =>
    if t == ";" then acc ++ [[]]
    else match acc.reverse with
      | [] => [[t]]
      | last :: rest => (rest.reverse) ++ [last ++ [t]]) [[]]

/-- jet of a parameter: value + linear and quadratic coefficients of the declaration -/
def jetParam (vars : Array String) (dc : Decl CF) (p : String) (v : CF) : JC :=
  let c1 (i : Nat) : CF := ((Diff.lookup dc.order1 (vars.getD i "")).bind (fun ps => Diff.lookup ps p)).getD 0
  let c2 (i j : Nat) : CF :=
    let key := Diff.pair (vars.getD i "") (vars.getD j "")
    ((Diff.lookup dc.order2 key).bind (fun ps => Diff.lookup ps p)).getD 0
  Jet.build vars.size v c1 c2

def liftOp (vars : Array String) (dc : Decl CF) : Op CF → Op JC
  | .T a p => .T (jetParam vars dc "alpha" a) (jetParam vars dc "phi" p)
  | .Phi p => .Phi (jetParam vars dc "phi" p)
  | .E a b c d => .E (jetParam vars dc "tau" a) (jetParam vars dc "T1" b) (jetParam vars dc "T2" c) (jetParam vars dc "g" d)
  | .P a b => .P (jetParam vars dc "tau" a) (jetParam vars dc "g" b)
  | .R a b c => .R (jetParam vars dc "rT" a) (jetParam vars dc "rL" b) (c.map (jetParam vars dc "r0"))
  | .S k n => .S k n
  | .Spoiler => .Spoiler
  | .Reset => .Reset
  | .PD pd r => .PD (Jet.const pd) r
  | .Wait => .Wait

def liftSM (s : SM CF) : SM JC :=
  SM.mk' s.n (fun k => let p := s.get k; ⟨Jet.const p.fp, Jet.const p.fm, Jet.const p.z⟩)
    (fun k => let p := s.geq k; ⟨Jet.const p.fp, Jet.const p.fm, Jet.const p.z⟩)

def rowsOf (n : Nat) (f : Int → PS CF) : String :=
  " ".intercalate ((List.range (2 * n + 1)).map (fun (i : Nat) => showPS (f ((i : Int) - n))))

def dumpDiffOf (ds : DS CF) : List String :=
  let l1 := ds.order1.map (fun e => s!"k {e.1} {e.2.n} " ++ rowsOf e.2.n e.2.get)
  let l2 := ds.order2.map (fun e => s!"k {e.1.1} {e.1.2} {e.2.n} " ++ rowsOf e.2.n e.2.get)
  [s!"d1 {l1.length}"] ++ l1 ++ [s!"d2 {l2.length}"] ++ l2

/-- mirror model first, accumulation-form model second -/
def dumpDiff (d : DState) : List String := dumpDiffOf d.dsm ++ dumpDiffOf d.ds

def dumpJets (d : DState) : List String :=
  let n := d.js.n
  let nv := d.vars.size
  let l1 := (List.range nv).map (fun i =>
    s!"k {d.vars.getD i ""} {n} " ++ rowsOf n (fun k => let p := d.js.get k; ⟨p.fp.g1 i, p.fm.g1 i, p.z.g1 i⟩))
  let l2 := (List.range nv).flatMap (fun i => (List.range nv).map (fun j =>
    s!"k {d.vars.getD i ""} {d.vars.getD j ""} {n} " ++
      rowsOf n (fun k => let p := d.js.get k; ⟨p.fp.g2 i j, p.fm.g2 i j, p.z.g2 i j⟩)))
  let l0 := s!"j0 {n} " ++ rowsOf n (fun k => let p := d.js.get k; ⟨p.fp.v, p.fm.v, p.z.v⟩)
  [l0, s!"j1 {l1.length}"] ++ l1 ++ [s!"j2 {l2.length}"] ++ l2

def dumpSM (s : SM CF) : String :=
  let rows := (List.range (2 * s.n + 1)).map (fun (i : Nat) => showPS (s.get ((i : Int) - s.n)))
  s!"st {s.n} " ++ " ".intercalate rows

def dumpEq (s : SM CF) : String :=
  let rows := (List.range (2 * s.n + 1)).map (fun (i : Nat) => showPS (s.geq ((i : Int) - s.n)))
  s!"eq {s.n} " ++ " ".intercalate rows

/-- Bloch-ensemble oracle: N isochromats, DFT back to Fourier coefficients |k| ≤ kmax -/
def blochDump (d : DState) (N : Nat) (kmax : Nat) : String :=
  let twoPi : Float := 2 * CF.piF
  let thetas := (List.range N).map (fun j => twoPi * j.toFloat / N.toFloat)
  let s0 := d.sm0
  let pd0 : CF := (s0.geq 0).z
  let isos := thetas.map (fun th =>
    let m0 : PS CF := (List.range (2 * s0.n + 1)).foldl (fun acc (i : Nat) =>
      let k : Int := (i : Int) - s0.n
      let ph : CF := CF.cexp ⟨0, (Float.ofInt k) * th⟩
      acc + PS.smul ph (s0.get k)) 0
    (th, (blochRun (K := CF) ⟨th, 0⟩ d.ops.toList ⟨m0, pd0⟩).m))
  let rows := (List.range (2 * kmax + 1)).map (fun (i : Nat) =>
    let k : Int := (i : Int) - kmax
    let acc : PS CF := isos.foldl (fun acc (th, m) =>
      let ph : CF := CF.cexp ⟨0, -(Float.ofInt k) * th⟩
      acc + PS.smul ph m) 0
    showPS (PS.smul ⟨1 / N.toFloat, 0⟩ acc))
  s!"bl {kmax} " ++ " ".intercalate rows

def optC (t : String) : Option CF := if t == "none" then none else some (cOfTok t)
def attrOfTok : String → Sim.Attr
  | "F0" => .F0 | "Z0" => .Z0 | "F" => .F | _ => .Z
def adcOfToks (attr wre wim red ph : String) : Sim.AdcSpec CF :=
  { attr := attrOfTok attr, weight := if wre == "none" then none else some ⟨fOfTok wre, fOfTok wim⟩,
    reduce := red == "1", phase := optC ph }
def showVals (v : List CF) : String := " ".intercalate (v.map (fun c => bits c.re ++ " " ++ bits c.im))

/-- `simrun`: `Sim.simulate` on the recorded items from the current state -/
def simRun (d : DState) : List String :=
  let seq := d.items.toList.map (Sim.Item.toSOp d.opts)
  let probes := d.probes.toList.map (fun p => p.map (fun a => a.acquire))
  let res := Sim.simulate probes seq d.sm (0 : CF)
  let times := Sim.adcTimes seq (0 : CF)
  [s!"sim {res.length}"] ++ res.map (fun (t, vals) => s!"e {bits t.re} | " ++ " | ".intercalate (vals.map showVals))
    ++ [s!"times " ++ " ".intercalate (times.map (fun t => bits t.re))]

/-! guards (C20): IEEE instances of the numeric predicates -/
def cabs (a : CF) : Float := Float.sqrt (a.re * a.re + a.im * a.im)
def closeCF (a b : CF) : Bool := cabs (a - b) <= 1e-8 + 1e-5 * cabs b
def close0F (x : Float) : Bool := x.abs <= 1e-8
def cfList : List String → List CF
  | re :: im :: rest => ⟨fOfTok re, fOfTok im⟩ :: cfList rest
  | _ => []
def triplesOf : List CF → List (CF × CF × CF)
  | a :: b :: c :: rest => (a, b, c) :: triplesOf rest
  | _ => []
def chunks (n : Nat) (xs : List Float) : List (List Float) :=
  if n == 0 then [] else (List.range (xs.length / n)).map (fun i => (xs.drop (i * n)).take n)
def splitOnTok (sep : String) (toks : List String) : List (List String) :=
  toks.foldl (fun (acc : List (List String)) t =>
    if t == sep then acc ++ [[]]
    else match acc.reverse with
      | [] => [[t]]
      | last :: rest => rest.reverse ++ [last ++ [t]]) [[]]
def csv (t : String) : List String := if t == "" || t == "-" then [] else t.splitOn ","

partial def parseSeq : List String → List Guards.SeqItem × List String
  | [] => ([], [])
  | "]" :: rest => ([], rest)
  | ")" :: rest => ([], rest)
  | "[" :: rest =>
    let (inner, rest') := parseSeq rest
    let (more, rest'') := parseSeq rest'
    (Guards.SeqItem.list inner :: more, rest'')
  | "(" :: rest =>
    let (inner, rest') := parseSeq rest
    let (more, rest'') := parseSeq rest'
    (Guards.SeqItem.multi inner :: more, rest'')
  | "op0" :: rest => let (more, r) := parseSeq rest; (Guards.SeqItem.op false :: more, r)
  | "op1" :: rest => let (more, r) := parseSeq rest; (Guards.SeqItem.op true :: more, r)
  | _ :: rest => let (more, r) := parseSeq rest; (Guards.SeqItem.other :: more, r)

def guardCmd (toks : List String) : String :=
  let verdict (b : Bool) := if b then "raise" else "ok"
  match toks with
  | "neg" :: xs => verdict (Guards.anyNegative (fun (x : Float) => x < 0) (xs.map fOfTok))
  | "zeroshift" :: xs => verdict (Guards.zeroShift (fun (x : Float) => x.abs <= 1e-8) (xs.map fOfTok))
  | ["ncomp", pyint, n] => verdict (Guards.badNcomp (pyint == "1") n.toNat!)
  | ["grid", a, b] =>
      let o := fun (t : String) => if t == "none" then none else some (fOfTok t)
      verdict (Guards.noGrid (fun (x : Float) => x > 0) (o a) (o b))
  | ["stshape", sh] => verdict (Guards.badStatesShape (shapeOfTok sh))
  | "stsym" :: vals => verdict (Guards.badSymmetry closeCF (fun (a : CF) => Conj.conj a) (triplesOf (cfList vals)))
  | ["scshape", sh] => verdict (Guards.badScalarShape (shapeOfTok sh))
  | "sccoef" :: vals => verdict (Guards.badScalarCoeff closeCF (fun (a : CF) => Conj.conj a) (triplesOf (cfList vals)))
  | ["mshape", sh] => verdict (Guards.badMatrixShape (shapeOfTok sh))
  | "mcoef" :: vals =>
      let v := (cfList vals).toArray
      verdict (Guards.badMatrixCoeff closeCF (fun (a : CF) => Conj.conj a) (fun i j => v.getD (3 * i + j) 0))
  | ["bcast2", a, b] => verdict (Guards.notBroadcastable (shapeOfTok a) (shapeOfTok b))
  | "kinetic" :: sh :: vals =>
      let shape := shapeOfTok sh
      let xs := vals.map fOfTok
      let c := shape.getLastD 1
      let rows := chunks c xs
      let cols := (List.range c).map (fun j => rows.map (fun r => r.getD j 0))
      -- `np.allclose(col.sum(), 0, atol=1e-8 * max(1, |khi|.max()))`
      let scale := max 1.0 (xs.foldl (fun m x => max m x.abs) 0)
      verdict (Guards.badKinetic (fun (x : Float) => x.abs <= 1e-8 * scale) (fun l => l.foldl (· + ·) 0) shape cols)
  | "conserve" :: n :: vals =>
      let n := n.toNat!
      let xs := vals.map fOfTok
      let rows := chunks n (xs.take (n * n))
      let dens := xs.drop (n * n)
      -- `np.allclose(khi @ density, 0, atol=1e-8 * max(1, |khi|.max() * |density|.max()))`
      let amax := fun (l : List Float) => l.foldl (fun m x => max m x.abs) 0
      let scale := max 1.0 (amax (xs.take (n * n)) * amax dens)
      verdict (Guards.notConserving (fun (x : Float) => x.abs <= 1e-8 * scale)
        (fun a b => (a.zip b).foldl (fun acc (x, y) => acc + x * y) 0) rows dens)
  | ["diffusion", dsh, ksh] => verdict (Guards.badDiffusion (shapeOfTok dsh) (shapeOfTok ksh))
  | "decl" :: rest =>
      match splitOnTok ";" rest with
      | [ps, o1, o2] =>
        let d : Guards.Decl := {
          order1 := o1.map (fun t => match t.splitOn ":" with | [v, p] => (v, csv p) | _ => (t, [])),
          order2 := o2.map (fun t => match t.splitOn ":" with
            | [vv, p] => (match vv.splitOn "," with | [a, b] => ((a, b), csv p) | _ => ((vv, vv), csv p))
            | _ => ((t, t), [])) }
        verdict (Guards.badDecl ps d)
      | _ => "bad-op"
  | "decltrue" :: rest =>   -- order2=True on top of an order1 declaration: verdict of the expanded declaration
      match splitOnTok ";" rest with
      | [ps, p2, o1] =>
        let P2 := p2.map (fun t => match t.splitOn "," with | [a, b] => (a, b) | _ => (t, t))
        let O1 := o1.map (fun t => match t.splitOn ":" with | [v, p] => (v, csv p) | _ => (t, []))
        verdict (Guards.badDecl ps { order1 := O1, order2 := Guards.expandAll P2 O1 })
      | _ => "bad-op"
  | "expand" :: rest =>     -- the pairs `order2=True` stands for
      match splitOnTok ";" rest with
      | [p2, o1] =>
        let P2 := p2.map (fun t => match t.splitOn "," with | [a, b] => (a, b) | _ => (t, t))
        let O1 := o1.map (fun t => match t.splitOn ":" with | [v, p] => (v, csv p) | _ => (t, []))
        "pairs " ++ " ".intercalate ((Guards.expandAll P2 O1).map (fun e => e.1.1 ++ "," ++ e.1.2))
      | _ => "bad-op"
  | "seq" :: rest => verdict (Guards.badSequence (parseSeq rest).1)
  | "seqvars" :: rest =>
      match splitOnTok ";" rest with
      | [vars, given, o1, o2] =>
        verdict (Guards.badSeqVars vars given o1 (o2.map (fun t => match t.splitOn "," with | [a, b] => (a, b) | _ => (t, t))))
      | _ => "bad-op"
  | "pulse" :: xs => verdict (Guards.pulseTooLarge (fun (x : Float) => x > 1 + 1e-12) (xs.map fOfTok))
  | _ => "bad-op"

def k4OfToks (a b c t : String) : K4 := ⟨a.toInt!, b.toInt!, c.toInt!, t.toInt!⟩
def dumpND (s : NDS K4 CF) : String :=
  s!"nd {s.ent.length} " ++ " ".intercalate (s.ent.map (fun (k, p) => s!"{k.x} {k.y} {k.z} {k.t} {showPS p}"))
def posCharF (kv : Array Float) (x : Array Float) (tv w : Float) (k : K4) : CF :=
  CF.cexp ⟨0, Float.ofInt k.x * kv.getD 0 0 * x.getD 0 0 + Float.ofInt k.y * kv.getD 1 0 * x.getD 1 0
    + Float.ofInt k.z * kv.getD 2 0 * x.getD 2 0 + Float.ofInt k.t * tv * w⟩

def step (d : DState) (line : String) : DState × List String :=
  let toks := (line.trimAscii.toString.splitOn " ").filter (· ≠ "")
  match toks with
  | [] => (d, [])
  | ["case"] => ({}, [])
  | ["opt", "max_nstate", n] => ({ d with opts := { d.opts with maxNstate := some n.toNat! } }, [])
  | "vars" :: vs => ({ d with vars := vs.toArray }, [])
  | ["init", pd] =>
      let s := SM.init (cOfTok pd)
      ({ d with sm := s, sm0 := s, ops := #[], ds := ⟨s, [], []⟩, dsm := ⟨s, [], []⟩, js := liftSM s }, [])
  | "initst" :: n :: pd :: vals =>
      let n := n.toNat!
      let v := vals.toArray.map fOfTok
      let f : Int → PS CF := fun k =>
        let i := (k + n).toNat * 6
        ⟨⟨v.getD i 0, v.getD (i+1) 0⟩, ⟨v.getD (i+2) 0, v.getD (i+3) 0⟩, ⟨v.getD (i+4) 0, v.getD (i+5) 0⟩⟩
      let e : Int → PS CF := fun k => if k = 0 then ⟨0, 0, cOfTok pd⟩ else 0
      let s := SM.mk' n f e
      ({ d with sm := s, sm0 := s, ops := #[], ds := ⟨s, [], []⟩, dsm := ⟨s, [], []⟩, js := liftSM s }, [])
  | ["dump"] => (d, [dumpSM d.sm])
  | ["dumpeq"] => (d, [dumpEq d.sm])
  | "sexpr" :: rest => (d, [sexprCmd rest])
  | ["vbind", ps, nargs, kws] =>
      -- vbind <POSITIONALS comma> <number of positional args> <keywords in call order, comma, `-` for none>
      let P := ps.splitOn ","
      let n := nargs.toNat!
      let args := (List.range n).map (fun i => s!"#{i}")
      let kw := if kws = "-" then [] else (kws.splitOn ",").map (fun k => (k, k))
      (d, ["vbind " ++ ",".intercalate (Bind.bindPos P args kw)])
  | ["gsetax", nd, sh, kind, ax] =>
      let axes : Nat ⊕ List Nat := if kind == "int" then .inl ax.toNat! else .inr (shapeOfTok ax)
      (d, [match Shp.setAxesFull nd.toNat! (shapeOfTok sh) axes with
           | some r => s!"shape {showShape r}"
           | none => "err"])
  | ["gexpand", mode, nd, sh] =>
      (d, [s!"shape {showShape ((if mode == "append" then Shp.expandAppend else Shp.expandPrepend) nd.toNat! (shapeOfTok sh))}"])
  | ["atup", op, xs, ys] =>
      let parse (t : String) : ATuple.T Int := if t == "-" then [] else (t.splitOn ",").map (fun e => if e == "N" then none else some e.toInt!)
      let showT (t : ATuple.T Int) : String := if t.isEmpty then "tup -" else "tup " ++ ",".intercalate (t.map (fun e => match e with | none => "N" | some v => toString v))
      let x := parse xs
      (d, [match op with
           | "add" => (match ATuple.add x (parse ys) with | some z => showT z | none => "err")
           | "mul" => (match ATuple.mul x (parse ys) with | some z => showT z | none => "err")
           | "adds" => showT (ATuple.addScalar x ys.toInt!)
           | "muls" => showT (ATuple.mulScalar x ys.toInt!)
           | "neg" => showT (ATuple.neg x)
           | _ => "bad-op"])
  | "ggrid" :: kdim :: vals => (d, ["grid " ++ " ".intercalate (Shp.getGrid vals kdim.toNat!)])
  | ["gbatch", sh, ndim] => (d, [s!"shape {showShape (Shp.appendBatchAxes (shapeOfTok sh) ndim.toNat!)}"])
  | "bcast" :: shapes =>
      (d, [match Shp.broadcastAll (shapes.map shapeOfTok) with
           | some r => s!"shape {showShape r}"
           | none => "err ValueError"])
  | "cnew" :: _ | "cset" :: _ | "cpop" :: _ | "cresize" :: _ | "cexpand" :: _ | "creduce" :: _ | "cbroadcast" :: _ =>
      let (c', out) := collCmd d.coll toks
      ({ d with coll := c' }, [out])
  | "sop" :: dur :: rest =>
      (match parseOp rest with
       | some op => ({ d with items := d.items.push (.op op (cOfTok dur)) }, [])
       | none => (d, [s!"bad-op {line}"]))
  | ["sadc", dur, attr, wre, wim, red, ph] =>
      ({ d with items := d.items.push (.adc (adcOfToks attr wre wim red ph) (cOfTok dur)) }, [])
  | ["sprobe", "none"] => ({ d with probes := d.probes.push none }, [])
  | ["sprobe", attr, wre, wim, red, ph] => ({ d with probes := d.probes.push (some (adcOfToks attr wre wim red ph)) }, [])
  | ["smodify", t1, t2, g, att] =>
      ({ d with items := (Sim.modifyItems (fun (x : CF) => x.re > 0) (fun (x : CF) => x.re == 1.0)
            (optC t1) (optC t2) (optC g) (optC att) d.items.toList).toArray }, [])
  | "srf" :: rf :: off :: t1 :: t2 :: g :: _n :: rest =>
      let rec triples : List String → List (RF.Sample CF × CF)
        | m :: a :: du :: more => (⟨cOfTok m, cOfTok a⟩, cOfTok du) :: triples more
        | _ => []
      let tr := triples rest
      let its := RF.rfpulse (fun (x : CF) => x.re > 0) (fun (x : CF) => x.re == 1.0) (cOfTok rf)
        (tr.map (·.1)) (tr.map (·.2)) (optC off) (optC t1) (optC t2) (optC g)
      ({ d with items := d.items ++ its.toArray }, [])
  | ["sapply"] => ({ d with sm := RF.runItems d.opts d.items.toList d.sm, items := #[] },
      [s!"dur {bits ((d.items.toList.map Sim.Item.dur).foldl (· + ·) (0 : CF)).re}"])
  | ["simrun"] => ({ d with items := #[], probes := #[] }, simRun d)
  | ["ninit", pd] => ({ d with nds := NDS.init (0 : K4) (cOfTok pd), nops := #[], npd := cOfTok pd }, [])
  | "npt" :: rest =>
      (match parseOp rest with
       | some op => ({ d with nds := d.nds.point op, nops := d.nops.push (.pt op) }, [])
       | none => (d, [s!"bad-op {line}"]))
  | ["nshift", a, b, c, t] =>
      let g := k4OfToks a b c t
      ({ d with nds := d.nds.shift g, nops := d.nops.push (.shift g) }, [])
  | ["ncshift", n, a, b, c, t] =>   -- integer n-D shift under a state cap (C13)
      let g := k4OfToks a b c t
      ({ d with nds := d.nds.capShift K4.spatial n.toNat! g, nops := d.nops.push (.shift g) }, [])
  | "ndiff" :: dim :: k0 :: k1 :: k2 :: tau :: rest =>
      let kv : Array Float := #[fOfTok k0, fOfTok k1, fOfTok k2]
      let wave : K4 → Nat → CF := fun k n =>
        ⟨(match n with | 0 => Float.ofInt k.x | 1 => Float.ofInt k.y | _ => Float.ofInt k.z) * kv.getD n 0, 0⟩
      let (dv, rest') := match rest with
        | "scalar" :: x :: more => (Diff5.Diffusivity.scalar (cOfTok x), more)
        | "tensor" :: more =>
          let v := (more.take 9).toArray.map cOfTok
          (Diff5.Diffusivity.tensor (fun i j => v.getD (3 * i + j) 0), more.drop 9)
        | _ => (Diff5.Diffusivity.scalar 0, [])
      let sh : Option (Nat → CF) := match rest' with
        | [a, b, c] => let v := #[cOfTok a, cOfTok b, cOfTok c]; some (fun n => v.getD n 0)
        | _ => none
      ({ d with nds := Diff5.diffuse dim.toNat! wave (cOfTok tau) dv sh d.nds }, [])
  | ["nimg", kd, pd, k0, k1, k2, tv, x0, x1, x2, box, size, mre, mim, ph] =>
      let kv : Array Float := #[fOfTok k0, fOfTok k1, fOfTok k2]
      let xs : Array Float := #[fOfTok x0, fOfTok x1, fOfTok x2]
      let wave : K4 → Nat → CF := fun k n =>
        ⟨(match n with | 0 => Float.ofInt k.x | 1 => Float.ofInt k.y | _ => Float.ofInt k.z) * kv.getD n 0, 0⟩
      let time : K4 → CF := fun k => ⟨Float.ofInt k.t * fOfTok tv, 0⟩
      let o : Img.Opts CF := { box := box == "1", size := cOfTok size, modRe := optC mre, modIm := optC mim, phase := optC ph }
      let v := Img.imaging (fun (y : CF) => y.re == 0 && y.im == 0) (fun (y : CF) => ⟨y.re.abs, 0⟩) o kd.toNat! pd.toNat!
        wave time (fun n => ⟨xs.getD n 0, 0⟩) d.nds
      (d, [s!"img {bits v.re} {bits v.im}"])
  | ["ndump"] => (d, [dumpND d.nds])
  | ["nsynth", k0, k1, k2, x0, x1, x2, tv, w] =>
      let χ := posCharF #[fOfTok k0, fOfTok k1, fOfTok k2] #[fOfTok x0, fOfTok x1, fOfTok x2] (fOfTok tv) (fOfTok w)
      (d, ["ns " ++ showPS (d.nds.synthExec χ), "nb " ++ showPS (blochRunN χ d.npd d.nops.toList ⟨0, 0, d.npd⟩)])
  | "xinit" :: pds => ({ d with xs := (pds.map (fun p => SM.init (cOfTok p))).toArray }, [])
  | "xop" :: rest =>
      (match parseOp rest with
       | some op => ({ d with xs := d.xs.map (applyOp d.opts op) }, [])
       | none => (d, [s!"bad-op {line}"]))
  | "xopc" :: i :: rest =>
      (match parseOp rest with
       | some op => ({ d with xs := d.xs.modify i.toNat! (applyOp d.opts op) }, [])
       | none => (d, [s!"bad-op {line}"]))
  | "xx" :: tau :: n :: rest =>
      let n := n.toNat!
      let v := rest.toArray.map cOfTok
      let khi : Exch.Mat CF := fun i j => v.getD (i * n + j) 0
      let rT1 : Nat → CF := fun i => v.getD (n * n + i) 0
      let rT2 : Nat → CF := fun i => v.getD (n * n + n + i) 0
      let g : Nat → CF := fun i => v.getD (n * n + 2 * n + i) 0
      ({ d with xs := (Exch.applyXSM (Exch.expmTaylor n 12 20) (cOfTok tau) khi rT1 rT2 g d.xs.toList).toArray }, [])
  | ["xdump"] => (d, d.xs.toList.map dumpSM)
  | ["hinit"] => ({ d with heap := Heap.init }, [])
  | ["h", "apply", h, ip] => ({ d with heap := Heap.step d.heap (.apply h.toNat! (ip == "1")) }, [])
  | ["h", "copy", h] => ({ d with heap := Heap.step d.heap (.copy h.toNat!) }, [])
  | ["h", "simulate", h] => ({ d with heap := Heap.step d.heap (.simulate h.toNat!) }, [])
  | ["h", "acquire", h] => ({ d with heap := Heap.step d.heap (.acquire h.toNat!) }, [])
  | ["h", "freeze", h] => ({ d with heap := Heap.step d.heap (.freeze h.toNat!) }, [])
  | ["hdump"] => (d, ["heap " ++ " ".intercalate (d.heap.cellOf.map toString) ++ " | " ++ " ".intercalate (d.heap.version.map toString)])
  | "guard" :: rest => (d, [guardCmd rest])
  | ["dumpd"] => (d, dumpDiff d)
  | ["dumpj"] => (d, dumpJets d)
  | ["bloch", N, kmax] => (d, [blochDump d N.toNat! kmax.toNat!])
  | _ =>
    let segs := splitSegs toks
    match parseOp (segs.getD 0 []) with
    | some op =>
      let dc := parseDecl (segs.drop 1)
      let ds' := callOp d.opts op dc d.ds
      let dsm' := callOp d.opts op dc d.dsm true
      let js' := applyOp d.opts (liftOp d.vars dc op) d.js
      ({ d with sm := applyOp d.opts op d.sm, ops := d.ops.push op, ds := ds', dsm := dsm', js := js' }, [])
    | none => (d, [s!"bad-op {line}"])

partial def loop (h : IO.FS.Stream) (out : IO.FS.Stream) (d : DState) : IO Unit := do
  let line ← h.getLine
  if line.isEmpty then return ()
  let (d', o) := step d line
  for s in o do out.putStrLn s
  loop h out d'

def main : IO Unit := do
  loop (← IO.getStdin) (← IO.getStdout) {}
