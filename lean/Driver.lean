import EpgVerif.Model.CF
import EpgVerif.Model.Bloch
/-
  Line-protocol driver over the executable model at `K := CF` (DESIGN Appendix A).
  One request per line; floats travel as the decimal of their IEEE-754 bits.
-/
open EpgVerif

def fOfTok (t : String) : Float := Float.ofBits (UInt64.ofNat t.toNat!)
def cOfTok (t : String) : CF := ⟨fOfTok t, 0⟩
def bits (x : Float) : String := toString x.toBits.toNat
def showPS (p : PS CF) : String :=
  s!"{bits p.fp.re} {bits p.fp.im} {bits p.fm.re} {bits p.fm.im} {bits p.z.re} {bits p.z.im}"

structure DState where
  opts : Opts := {}
  sm : SM CF := SM.init (1 : CF)
  sm0 : SM CF := SM.init (1 : CF)
  ops : Array (Op CF) := #[]

def intOfTok (t : String) : Int := t.toInt!

def parseOp (toks : List String) : Option (Op CF) :=
  match toks with
  | ["T", a, p] => some (.T (cOfTok a) (cOfTok p))
  | ["Phi", p] => some (.Phi (cOfTok p))
  | ["E", a, b, c, d] => some (.E (cOfTok a) (cOfTok b) (cOfTok c) (cOfTok d))
  | ["P", a, b] => some (.P (cOfTok a) (cOfTok b))
  | ["R", a, ai, b, "none"] => some (.R ⟨fOfTok a, fOfTok ai⟩ (cOfTok b) none)
  | ["R", a, ai, b, c] => some (.R ⟨fOfTok a, fOfTok ai⟩ (cOfTok b) (some (cOfTok c)))
  | ["S", k, "none"] => some (.S (intOfTok k) none)
  | ["S", k, n] => some (.S (intOfTok k) (some n.toNat!))
  | ["SPOILER"] => some .Spoiler
  | ["RESET"] => some .Reset
  | ["PD", pd, r] => some (.PD (cOfTok pd) (r == "1"))
  | ["WAIT"] => some .Wait
  | _ => none

def dumpSM (s : SM CF) : String :=
  let rows := (List.range (2 * s.n + 1)).map (fun (i : Nat) => showPS (s.get ((i : Int) - s.n)))
  s!"st {s.n} " ++ " ".intercalate rows

def dumpEq (s : SM CF) : String :=
  let rows := (List.range (2 * s.n + 1)).map (fun (i : Nat) => showPS (s.geq ((i : Int) - s.n)))
  s!"eq {s.n} " ++ " ".intercalate rows

/-- Bloch-ensemble oracle: N isochromats, DFT back to Fourier coefficients |k| ≤ kmax -/
def blochDump (d : DState) (N : Nat) (kmax : Nat) : String :=
  let twoPi : Float := 2 * CF.piF
  let thetas := (List.range N).map (fun j => twoPi * j.toFloat / N.toFloat)
  let s0 := d.sm0
  let pd0 : CF := (s0.geq 0).z
  let isos := thetas.map (fun th =>
    let m0 : PS CF := (List.range (2 * s0.n + 1)).foldl (fun acc (i : Nat) =>
      let k : Int := (i : Int) - s0.n
      let ph : CF := CF.cexp ⟨0, (Float.ofInt k) * th⟩
      acc + PS.smul ph (s0.get k)) 0
    (th, (blochRun (K := CF) ⟨th, 0⟩ d.ops.toList ⟨m0, pd0⟩).m))
  let rows := (List.range (2 * kmax + 1)).map (fun (i : Nat) =>
    let k : Int := (i : Int) - kmax
    let acc : PS CF := isos.foldl (fun acc (th, m) =>
      let ph : CF := CF.cexp ⟨0, -(Float.ofInt k) * th⟩
      acc + PS.smul ph m) 0
    showPS (PS.smul ⟨1 / N.toFloat, 0⟩ acc))
  s!"bl {kmax} " ++ " ".intercalate rows

def step (d : DState) (line : String) : DState × Option String :=
  let toks := (line.trimAscii.toString.splitOn " ").filter (· ≠ "")
  match toks with
  | [] => (d, none)
  | ["case"] => ({}, none)
  | ["opt", "max_nstate", n] => ({ d with opts := { d.opts with maxNstate := some n.toNat! } }, none)
  | ["init", pd] =>
      let s := SM.init (cOfTok pd)
      ({ d with sm := s, sm0 := s, ops := #[] }, none)
  | "initst" :: n :: pd :: vals =>
      let n := n.toNat!
      let v := vals.toArray.map fOfTok
      let f : Int → PS CF := fun k =>
        let i := (k + n).toNat * 6
        ⟨⟨v.getD i 0, v.getD (i+1) 0⟩, ⟨v.getD (i+2) 0, v.getD (i+3) 0⟩, ⟨v.getD (i+4) 0, v.getD (i+5) 0⟩⟩
      let e : Int → PS CF := fun k => if k = 0 then ⟨0, 0, cOfTok pd⟩ else 0
      let s := SM.mk' n f e
      ({ d with sm := s, sm0 := s, ops := #[] }, none)
  | ["dump"] => (d, some (dumpSM d.sm))
  | ["dumpeq"] => (d, some (dumpEq d.sm))
  | ["bloch", N, kmax] => (d, some (blochDump d N.toNat! kmax.toNat!))
  | _ =>
    match parseOp toks with
    | some op => ({ d with sm := applyOp d.opts op d.sm, ops := d.ops.push op }, none)
    | none => (d, some s!"bad-op {line}")

partial def loop (h : IO.FS.Stream) (out : IO.FS.Stream) (d : DState) : IO Unit := do
  let line ← h.getLine
  if line.isEmpty then return ()
  let (d', o) := step d line
  match o with
  | some s => out.putStrLn s
  | none => pure ()
  loop h out d'

def main : IO Unit := do
  loop (← IO.getStdin) (← IO.getStdout) {}
