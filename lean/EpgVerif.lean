-- root of the library: everything `lake build EpgVerif` must compile
import EpgVerif.Model.Scalar
import EpgVerif.Model.CF
import EpgVerif.Model.Expr
import EpgVerif.Model.Coeff
import EpgVerif.Model.State
import EpgVerif.Model.Ops
import EpgVerif.Model.Bloch
import EpgVerif.Props.C01
import EpgVerif.Audit.C01
