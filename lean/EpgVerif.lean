import EpgVerif.Model.Scalar
import EpgVerif.Model.CF
import EpgVerif.Model.Expr
