# probe F146 (properties C10, C12): exits 1 while the defect is present, 0 when it is gone
"""fa7d179 regression: a block `E(tau1, ..., duration=True) * E(tau2, ..., axes=1, duration=True)` (durations
on grid axis 0 and on grid axis 1) could be built and simulated before; the moved duration (1, n) cannot be
added in place to the block's running duration (n,) in MultiOperator.append: ValueError at construction."""
import sys
import numpy as np
from epgpy import operators as ops, functions

tau1 = np.array([2.0, 3.0, 4.0])
tau2 = np.array([1.0, 5.0, 7.0])
# ground truth: per-index scalar simulations, signal[i, j]
ref = np.array([
    [functions.simulate([ops.T(90, 90), ops.E(a, 1000.0, 50.0), ops.E(b, 1000.0, 80.0), ops.ADC])[0, 0] for b in tau2]
    for a in tau1
])
try:
    block = ops.E(tau1, 1000.0, 50.0, duration=True) * ops.E(tau2, 1000.0, 80.0, axes=1, duration=True)
    sig = functions.simulate([ops.T(90, 90), block, ops.ADC])[0]
    ok = sig.shape == (3, 3) and np.allclose(sig, ref)
    print(f"observed: block built, signal shape {sig.shape}, equal to the per-index simulations: {ok}")
    dur = block.duration
    grid = np.ndim(dur) == 2 and np.allclose(np.broadcast_to(dur, (3, 3)), tau1[:, None] + tau2[None, :])
    print(f"          block duration shape {np.shape(dur)}; equal to the grid tau1[i] + tau2[j]: {grid}")
except Exception as exc:
    ok = False
    print(f"observed: {type(exc).__name__}: {exc}")
print("expected: the block is built and simulates to the (3, 3) grid of per-index signals (as before the commit)")
sys.exit(0 if ok else 1)
