# probe F75 (properties C01, C07): exits 1 while the defect is present, 0 when it is gone
"""axes=(tuple) of an operator: the order of the tuple is ignored (a negative index too): a parameter array
sent to the grid axes (1, 0) stays on the axes (0, 1) -> the values are transposed on the parameter grid.
(A ValueError for such a request would be acceptable too: the script then exits 0.)"""
import sys
import numpy as np
import epgpy as epg

alpha = np.array([[10.0, 20.0], [30.0, 40.0]])  # alpha[a, b]
T2 = np.array([20.0, 40.0, 80.0])
tau, T1 = 10.0, 1e3
# ground truth: Bloch rotation of (0, 0, 1) by alpha about y, then T2 decay:  M+ = sin(alpha) exp(-tau / T2)
# axes=(1, 0): parameter axis `a` -> grid axis 1, parameter axis `b` -> grid axis 0;  T2 on grid axis 2
truth = np.array([[[np.sin(np.deg2rad(alpha[j, i])) * np.exp(-tau / T2[l]) for l in range(3)]
                   for j in range(2)] for i in range(2)])
# the same from per-index scalar simulations
scalar = np.array([[[epg.simulate([epg.T(alpha[j, i], 90), epg.E(tau, T1, T2[l]), epg.ADC])[0, 0]
                     for l in range(3)] for j in range(2)] for i in range(2)])
assert np.allclose(scalar, truth)

bad = False
try:
    obs = epg.simulate([epg.T(alpha, 90, axes=(1, 0)), epg.E(tau, T1, T2, axes=2), epg.ADC])[0]
    print("T(alpha[2x2], 90, axes=(1, 0)), E(tau, T1, T2[3], axes=2): F0[:, :, 0]")
    print("observed\n", obs[..., 0].real.round(4))
    print("truth (= sin(alpha[j, i]) exp(-tau/T2[0]))\n", truth[..., 0].real.round(4))
    bad |= obs.shape != truth.shape or not np.allclose(obs, truth)
except ValueError as exc:
    print("axes=(1, 0) rejected:", exc)
try:  # a (2, 3) array sent to the axes (2, 0) must give an operator of shape (3, 1, 2)
    shp = epg.E(tau, np.ones((2, 3)) * T1, 30, axes=(2, 0)).shape
    print("E(tau, T1[2x3], T2, axes=(2, 0)).shape: observed", shp, " expected (3, 1, 2)")
    bad |= shp != (3, 1, 2)
except ValueError as exc:
    print("axes=(2, 0) rejected:", exc)
try:  # a negative index is neither honoured nor rejected
    shp = epg.E(tau, T1, T2, axes=-1).shape
    print("E(tau, T1, T2[3], axes=-1).shape:", shp, "(the request is silently ignored)")
except ValueError as exc:
    print("axes=-1 rejected:", exc)
sys.exit(1 if bad else 0)
