# probe F63 (properties C18): exits 1 while the defect is present, 0 when it is gone
"""RFPulse with per-sample durations: .duration is the per-sample array, not the total;
encode_phase(rewind=...) then builds a batch of rewinders (wrong shape and values)."""
import sys
import numpy as np
import epgpy as epg
from epgpy import rfpulse

def rot(axis, ang):
    x, y, z = np.asarray(axis, float) / np.linalg.norm(axis)
    K = np.array([[0, -z, y], [z, 0, -x], [-y, x, 0]])
    return np.eye(3) + np.sin(ang) * K + (1 - np.cos(ang)) * K @ K

def bloch(values, durs, rf, g, rewind):
    """hard pulse + precession per sample, then rewinder of -g over rewind * total duration"""
    M = np.array([0.0, 0, 1])
    for v, d in zip(values, durs):
        M = rot([np.cos(np.angle(v)), np.sin(np.angle(v)), 0], np.pi * abs(v) * rf) @ M
        M = rot([0, 0, 1], 2 * np.pi * g * d) @ M
    M = rot([0, 0, 1], -2 * np.pi * g * rewind * np.sum(durs)) @ M
    return M[0] + 1j * M[1]

values = np.array([0.3, 0.8j, -0.6, 0.4 + 0.4j, 0.2])
durs = np.array([0.1, 0.2, 0.3, 0.2, 0.2])  # ms, per sample (total 1.0)
pulse = rfpulse.RFPulse(values, durs, rf=0.4)
ok = True

print("pulse.duration        :", pulse.duration, "  expected total:", durs.sum())
ok &= np.ndim(pulse.duration) == 0 and np.isclose(pulse.duration, durs.sum())
print("get_adc_times         :", epg.get_adc_times([pulse, epg.ADC]), "(sum of the sample durations)")

fov, grad = np.array([-10.0, -3, 0, 4, 12]), 7.0
freqs = grad * 1e-6 * 42.576e3 * fov
enc = rfpulse.encode_phase(pulse, grad, fov, rewind=True)
F = enc(epg.StateMatrix()).states[..., 0, 0]
ref = np.array([bloch(values, durs, 0.4, f, 0.5) for f in freqs])
print("encode_phase shape    :", enc.shape, "  expected:", (1, len(fov)))
print("F0 observed (1st row) :", np.round(F[0], 4))
print("F0 ground truth       :", np.round(ref, 4))
ok &= F.shape == (1, len(fov)) and np.allclose(F.reshape(-1)[: len(fov)], ref)

try:  # same pulse with the durations given as a list
    rfpulse.encode_phase(rfpulse.RFPulse(values, list(durs), rf=0.4), grad, fov, rewind=True)
except Exception as exc:
    print("list of durations     :", type(exc).__name__, exc)
    ok = False
print("OK" if ok else "DEFECT")
sys.exit(0 if ok else 1)
