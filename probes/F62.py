# probe F62 (properties C18): exits 1 while the defect is present, 0 when it is gone
"""estimate_alpha returns -180 for a null rotation (rf = 0, tiny angles, 360 degrees):
estimate_alpha(values, estimate_rf(values, 0)) == -180, RFPulse(..., rf=0).alpha == -180."""
import sys
import numpy as np
import epgpy as epg
from epgpy import rfpulse

values = np.hanning(32)[1:-1]  # real, positive: constant phase
ok = True
for target in [0, 1e-7, 1e-3, 30, 90, 150]:
    rf = rfpulse.estimate_rf(values, target)
    back = rfpulse.estimate_alpha(values, rf)
    # ground truth: the pulse is the single rotation T(target, 0) -> Z = cos(target)
    Z = rfpulse.RFPulse(values, 1.0, rf=rf, alpha=target)(epg.StateMatrix()).states[0, 0, 2].real
    truth = np.degrees(np.arccos(np.clip(Z, -1, 1)))
    good = np.isclose(back, target, atol=1e-5)
    ok &= bool(good)
    print(f"target alpha={target:<8} rf={rf:.6g}  estimate_alpha={back:<22} from simulated Z: {truth:.6g}  {'' if good else '<-- wrong'}")

pulse = rfpulse.RFPulse([0.5, 0.5], 1.0, rf=0)
print("RFPulse([0.5, 0.5], 1.0, rf=0).alpha =", pulse.alpha, " expected 0 (states:", pulse(epg.StateMatrix()).states[0, 0], ")")
ok &= bool(np.isclose(pulse.alpha, 0))
print("OK" if ok else "DEFECT")
sys.exit(0 if ok else 1)
