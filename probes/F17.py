# probe F17 (properties C02, C07): exits 1 while the defect is present, 0 when it is gone
"""Array-valued coefficients of a linear-coefficient map order1={var: {param: coeff}} are aligned
with the LAST batch axis of the state matrix, whereas operator parameters use the FIRST axes."""
import sys
import numpy as np
from epgpy import operators as ops, functions
from epgpy.diff import Jacobian

nominal = np.array([30.0, 60.0, 90.0])  # flip angles (axis 0), alpha = b1 * nominal
T1 = np.array([100.0, 300.0, 900.0])  # T1 values on axis 1


def seq(b1, nominal, T1, diff=True, **kw):
    o = {"order1": {"b1": {"alpha": nominal}}} if diff else {}
    return [ops.T(b1 * nominal, 90.0, **o), ops.E(5.0, T1, 40.0, **kw), ops.S(1),
            ops.T(2 * b1 * nominal, 0.0, **({"order1": {"b1": {"alpha": 2 * nominal}}} if diff else {})),
            ops.E(5.0, T1, 40.0, **kw), ops.S(1), ops.ADC]


b1 = 0.9
jac = functions.simulate(seq(b1, nominal, T1, axes=1), probe=Jacobian("b1"))[0, ..., 0]  # (3, 3)
# ground truth: one scalar simulation per (flip angle, T1) pair, itself checked by finite differences
ref = np.zeros((3, 3), dtype=complex)
for i in range(3):
    for j in range(3):
        ref[i, j] = functions.simulate(seq(b1, nominal[i], T1[j]), probe=Jacobian("b1"))[0, 0, 0]
        fd = (functions.simulate(seq(b1 + 1e-6, nominal[i], T1[j], False))
              - functions.simulate(seq(b1 - 1e-6, nominal[i], T1[j], False)))[0, 0] / 2e-6
        assert abs(ref[i, j] - fd) < 1e-6
np.set_printoptions(precision=4, suppress=True)
print("dF0/db1 vectorised (rows: flip angle, columns: T1):\n", jac.real)
print("dF0/db1 per-index scalar simulations:\n", ref.real)
print("max abs difference:", np.abs(jac - ref).max())
sys.exit(0 if np.allclose(jac, ref, atol=1e-8) else 1)
