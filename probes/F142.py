# probe F142 (properties C12, C09): exits 1 while the defect is present, 0 when it is gone
"""06ccb96: with the default asarray=True, simulate() now wraps every non-array probe value
(a dict, as supported since 0f784ee) in a 0-d object array: result[i]['F'] raises IndexError.
Expected: the entries are the dicts themselves (as with asarray=False, and as before 06ccb96)."""
import sys
import numpy as np
from epgpy import operators as op, functions as fn

probe = op.Probe("dict(F=F0, Z=Z0)")
seq = [op.T(90, 90), probe, op.T(90, 90), probe]
reference = fn.simulate(seq, asarray=False)  # tuple of dicts
result = fn.simulate(seq)  # object array of the two acquisitions

failed = False
for i, ref in enumerate(reference):
    item = result[i]
    print(f"entry {i}: observed type {type(item).__name__}, expected {type(ref).__name__}")
    try:
        ok = isinstance(item, dict) and all(np.allclose(item[key], ref[key]) for key in ref)
        print("  item['F'] =", item["F"], " expected", ref["F"])
    except Exception as exc:
        ok = False
        print(f"  item['F'] -> {type(exc).__name__}: {exc}   (expected {ref['F']})")
    failed |= not ok

# same through several probes
res = fn.simulate(seq, probe=["F0", "dict(F=F0, Z=Z0)"])
ok = isinstance(res[1][0], dict)
print("multi-probe entry type:", type(res[1][0]).__name__, "expected dict")
failed |= not ok
sys.exit(1 if failed else 0)
