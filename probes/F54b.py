# probe F54 (properties C20, C03): exits 1 while the defect is present, 0 when it is gone
"""order2=True together with a selection (or renaming) of the first-order parameters, the form given
in docs/operators.md: `epg.E(tau, T1, T2, order1=['T1', 'T2'], order2=True)`, raises ValueError:
True is expanded to ALL parameter pairs of the class instead of the pairs of the activated variables."""
import sys
import numpy as np
import epgpy as epg

tau, T1, T2 = 5.0, 500.0, 50.0
excit = epg.T(30, 90)
variables = ["T1", "T2"]
probes = [epg.ADC, epg.Hessian(variables)]

# ground truth: F0 = c exp(-tau/T2): H[T2,T2] = F0 (tau^2/T2^4 - 2 tau/T2^3), H[T1,.] = 0
sig = epg.simulate([excit, epg.E(tau, T1, T2), epg.ADC])[0, 0]
ref = np.zeros((2, 2), dtype=complex)
ref[1, 1] = sig * (tau**2 / T2**4 - 2 * tau / T2**3)

failed = False
forms = {
    "order1=['T1','T2'], order2=True (docs/operators.md)": dict(order1=["T1", "T2"], order2=True),
    "order1={'x':'T1','y':'T2'}, order2=True (aliases)": dict(order1={"x": "T1", "y": "T2"}, order2=True),
    "order1=['T1','T2'], order2=['T1','T2'] (reference form)": dict(order1=["T1", "T2"], order2=["T1", "T2"]),
}
for label, kwargs in forms.items():
    names = list(kwargs["order1"])
    try:
        rlx = epg.E(tau, T1, T2, **kwargs)
        hes = epg.simulate([excit, rlx, epg.ADC], probe=epg.Hessian(names))[0, 0]
        err = np.abs(hes - ref).max() / np.abs(ref).max()
        print(f"{label}:\n   observed H[T2,T2] = {hes[1, 1]:.6e}, expected {ref[1, 1]:.6e}, rel. error {err:.1e}")
        failed |= err > 1e-8
    except Exception as exc:
        print(f"{label}:\n   observed {type(exc).__name__}: {exc}\n   expected H[T2,T2] = {ref[1, 1]:.6e}")
        failed = True

# same root: order2=True on R without r0 (r0 is optional) cannot be built at all
try:
    epg.R(0.1, 0.02, order2=True)
    print("R(0.1, 0.02, order2=True): built")
except Exception as exc:
    print(f"R(0.1, 0.02, order2=True): observed {type(exc).__name__}: {exc}; expected: pairs of rT, rL")
    failed = True
sys.exit(1 if failed else 0)
