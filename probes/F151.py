# probe F151 (properties C12, C09): exits 1 while the defect is present, 0 when it is gone
"""27e768f (incomplete): dict values of a custom probe are still wrapped in 0-d object arrays
when the probe is passed with the documented `probe=` keyword of simulate() (sequence with epg.ADC)."""
import sys
import numpy as np
import epgpy as epg

fn = lambda sm: {"nstate": sm.nstate, "F0": sm.F0}
base = [epg.T(30, 0), epg.E(5, 1e3, 1e2)]
# reference: the same probe placed in the sequence (repaired by the commit)
ref = epg.simulate((base + [epg.Probe(fn)]) * 3)
# same probe through the `probe` keyword
out = epg.simulate((base + [epg.ADC]) * 3, probe=fn)
both = epg.simulate((base + [epg.ADC]) * 3, probe=[None, fn])[1]

bad = False
for label, arr in [("Probe in sequence", ref), ("probe=fn", out), ("probe=[None, fn]", both)]:
    types = [type(item).__name__ for item in arr]
    print(f"{label}: shape {np.shape(arr)}, entry types {types} (expected 3 x dict)")
    if not all(isinstance(item, dict) for item in arr):
        bad = True
    else:
        same = all(np.allclose(a["F0"], b["F0"]) for a, b in zip(arr, ref))
        bad = bad or not same
sys.exit(1 if bad else 0)
