# probe F98 (properties C08, C16, C04): exits 1 while the defect is present, 0 when it is gone
"""C04 defect 1: integer n-D shift (shiftnd) after StateMatrix.unstack() loses phase states.

A vectorised run with one integer shift per batch entry keeps the wavenumbers of all entries in shared
rows, so ONE entry can hold the same wavenumber in several rows (F0 / Z0 / DFT add such rows up).
unstack() hands that table to a state matrix of its own; the next *integer* shift then ASSIGNS rows
with equal wavenumber to the same new row (last one wins) instead of adding them: states are lost.
(Real-valued shifts use add.at and are right.)
Ground truth: the same entry simulated on its own; the vectorised continuation agrees with it.
"""
import sys
import numpy as np
import epgpy as epg

pos = np.array([[0.3], [-1.1]])  # positions x of sum_k F_k exp(i k x)
ka, kb = np.array([[1], [1]]), np.array([[1], [2]])  # shifts of entry 0: 1, 1; of entry 1: 1, 2
head = [epg.T(60, 20), epg.S(ka, prune=0), epg.T(50, 0), epg.S(kb, prune=0), epg.T(40, 30)]
tail = [epg.S([1], prune=0), epg.T(70, 10), epg.S([-2], prune=0)]


def run(sm, ops):
    for op in ops:
        sm = op(sm)
    return sm


sm = run(epg.StateMatrix(), head)
vec = epg.DFT(pos).acquire(run(sm, tail))  # vectorised continuation

ok = True
for i, part in enumerate(sm.unstack()):
    print(f"entry {i}: stored wavenumbers {sm.k[i, :, 0].astype(int)}")
    part = run(part, tail)
    scalar = [head[0], epg.S(ka[i], prune=0), head[2], epg.S(kb[i], prune=0), head[4]] + tail
    ref = run(epg.StateMatrix(), scalar)  # entry i on its own
    got, exp = epg.DFT(pos).acquire(part).ravel(), epg.DFT(pos).acquire(ref).ravel()
    good = np.allclose(got, exp) and np.allclose(part.Z0, ref.Z0) and part.check()
    ok &= bool(good)
    print(f"   unstack + tail : M+(x) = {np.round(got, 5)}  Z0 = {np.round(part.Z0, 5)}")
    print(f"   scalar run     : M+(x) = {np.round(exp, 5)}  Z0 = {np.round(ref.Z0, 5)}")
    print(f"   vectorised run : M+(x) = {np.round(vec[i], 5)}   -> {'ok' if good else 'MISMATCH'}")

sys.exit(0 if ok else 1)
