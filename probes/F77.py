# probe F77 (properties C01): exits 1 while the defect is present, 0 when it is gone
"""StateMatrix + StateMatrix with different numbers of phase states: `a + b` replicates the single state of `b`
into every state of `a` (numpy broadcast of the size-1 state axis), `b + a` crops the sum to the states of `b`.
Ground truth: the phase states of the union of two isochromat ensembles are the sums of their Fourier coefficients."""
import sys
import numpy as np
import epgpy as epg

N = 8
theta = 2 * np.pi * np.arange(N) / N

def bloch(alpha, k):
    """isochromats (0, 0, 1) rotated by alpha about y, then dephased by k * theta: returns (M+, Mz)"""
    a = np.deg2rad(alpha)
    return np.sin(a) * np.exp(1j * k * theta), np.cos(a) * np.ones(N)

def coeffs(mp, mz, n):
    """discrete Fourier coefficients, in the layout of the state matrix (rows k = -n..n, columns F+, F-, Z)"""
    F = lambda k: np.mean(mp * np.exp(-1j * k * theta))
    Z = lambda k: np.mean(mz * np.exp(-1j * k * theta))
    return np.array([[F(k), np.conj(F(-k)), Z(k)] for k in range(-n, n + 1)])

a = epg.S(1)(epg.T(90, 90)(epg.StateMatrix()))  # 1 phase state beyond k = 0
b = epg.T(45, 90)(epg.StateMatrix())  # k = 0 only
mpa, mza = bloch(90, 1)
mpb, mzb = bloch(45, 0)
assert np.allclose(a.states[0], coeffs(mpa, mza, 1)) and np.allclose(b.states[0], coeffs(mpb, mzb, 0))
truth = coeffs(mpa + mpb, mza + mzb, 1)  # union of the two ensembles

bad = False
for name, fun in {"a + b": lambda: a + b, "b + a": lambda: b + a}.items():
    try:
        obs = fun().states[0]
        ok = obs.shape == truth.shape and np.allclose(obs, truth)
        print(f"{name}: observed (rows k=-n..n; columns F+, F-, Z)\n", np.round(obs, 4))
    except Exception as exc:
        ok = False
        print(f"{name}: raised {type(exc).__name__}: {exc}")
    print("truth\n", np.round(truth, 4), "" if ok else "  <-- MISMATCH")
    bad |= not ok
sys.exit(1 if bad else 0)
