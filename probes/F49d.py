# probe F49 (properties C03, C19, C09, C08): exits 1 while the defect is present, 0 when it is gone
"""An operator that adds a batch axis to the state matrix and takes part in second-order derivatives raises:
DiffOperator.derive1/derive2 do not expand the carried partial (derive0 does)."""
import sys
import numpy as np
import epgpy as epg

T, E, P = epg.T, epg.E, epg.P
g, T2 = 0.05, np.array([[30.0, 60.0, 90.0]])  # T2 adds a second batch axis


def program(sm, g=g, T2=T2):
    sm = T(30, 0)(sm)
    sm = P([5.0, 3.0], g, order1="g")(sm)  # shape (2,)
    return E(5.0, 100.0, T2, order1="T2", order2="T2")(sm)  # shape (2, 3), cross pair (T2, g)


def second(sm):
    return np.asarray(sm.order2[("T2", "g")].F0)


# ground truth 1: same program on a state matrix that already has the final shape
ref = second(program(epg.StateMatrix(shape=(2, 3))))
# ground truth 2: finite difference of dF0/dg with respect to T2
h = 1e-3
fd = (program(epg.StateMatrix(shape=(2, 3)), T2=T2 + h).order1["g"].F0
      - program(epg.StateMatrix(shape=(2, 3)), T2=T2 - h).order1["g"].F0) / (2 * h)

try:
    obs = second(program(epg.StateMatrix()))
except Exception as exc:
    obs = f"{type(exc).__name__}: {str(exc)[:80]}"
print("d2F0/dT2dg, state matrix grown by the operators:\n  ", obs)
print("expected (pre-shaped state matrix):\n  ", ref.ravel())
print("expected (finite difference):\n  ", np.asarray(fd).ravel())
ok = not isinstance(obs, str) and np.allclose(obs, ref) and np.allclose(ref, fd, atol=1e-8)
sys.exit(0 if ok else 1)
