# probe F121 (properties C19): exits 1 while the defect is present, 0 when it is gone
"""A Hessian entry that was never activated takes a spurious non-zero value as soon as ANOTHER variable is
differentiated to second order.  E(..., order1='T2') declares first-order differentiation only; with
T(..., order2='alpha') in the same sequence the automatic cross-derivative step of E also forms the pair
('T2','T2') from its cross terms alone (2 dE/dT2 . dS/dT2, without d2E/dT2^2): neither 0 (not computed) nor
the second derivative."""
import sys
import numpy as np
from epgpy import operators as ops, functions

def seq(t, e):
    rf, rlx = ops.T(150, 10, **t), ops.E(5, 1000, 50, **e)
    return [ops.T(90, 90), ops.S(1), rlx, rf, ops.S(1), rlx, ops.ADC]
hes = lambda s: functions.simulate(s, probe=ops.Hessian(["alpha", "T2"]))[0, 0]

full = hes(seq(dict(order2="alpha"), dict(order2="T2")))     # everything activated: the true Hessian
alone = hes(seq({}, dict(order1="T2")))                       # T2 to first order, nothing else: no Hessian entry
mixed = hes(seq(dict(order2="alpha"), dict(order1="T2")))     # T2 to first order, alpha to second order
f = lambda T2: functions.simulate([ops.T(90, 90), ops.S(1), ops.E(5, 1000, T2), ops.T(150, 10), ops.S(1), ops.E(5, 1000, T2), ops.ADC])[0, 0]
fd = (f(50 + 0.05) - 2 * f(50) + f(50 - 0.05)) / 0.05**2
print("d2F0/dT2^2  finite differences        :", fd)
print("            everything activated      :", full[1, 1])
print("            T2 first order, alone     :", alone[1, 1])
print("            same + T(order2='alpha')  :", mixed[1, 1])
print("cross entry (alpha,T2), mixed vs full :", mixed[0, 1], full[0, 1])
ok = np.allclose(full[1, 1], fd, rtol=1e-4)
ok &= np.allclose(mixed[0, 1], full[0, 1]) and np.allclose(mixed[0, 0], full[0, 0])
# the un-activated entry must not depend on what else is derived: either absent (0, as alone) or the true value
ok &= np.allclose(mixed[1, 1], alone[1, 1], atol=1e-12) or np.allclose(mixed[1, 1], full[1, 1])
sys.exit(0 if ok else 1)
