# probe F91 (properties C14): exits 1 while the defect is present, 0 when it is gone
"""Signal above PD with merging (grid-quantised) real-valued shifts.

Real-valued shifts are gridded with `kgrid`; states falling into one grid cell are added up.  With shifts of the
order of the grid the centre cell collects states with k = 0.4 and k = -0.2 (neither is an echo), F0 reports their
sum, and |F0| = 1.14 for PD = 1.  Property C14 (last sentence, as stated) bounds every signal by PD; the norm
grows as well (merging is not a contraction).
Ground truth: Bloch simulation of 4000 isochromats (|M| <= 1 everywhere, mean transverse magnetisation ~ 0) and
the same sequence on a fine grid.
"""
import sys
import numpy as np
import epgpy as epg

RF = [(135, 270), (120, 270)]
K = [0.6, 0.4]


def run(kgrid):
    sm = epg.StateMatrix(kgrid=kgrid)
    for (a, p), k in zip(RF, K):
        sm = epg.S(k)(epg.T(a, p)(sm))
    return sm


def bloch(n=4000):
    x = np.linspace(0, 20 * np.pi, n, endpoint=False)  # 0.6 x and 0.4 x: whole numbers of turns
    mp, mz = np.zeros(n, complex), np.ones(n, complex)
    for (a, p), k in zip(RF, K):
        a, p = np.deg2rad(a), np.deg2rad(p)
        c2, s2, e = np.cos(a / 2) ** 2, np.sin(a / 2) ** 2, np.exp(1j * p)
        mp, mz = (c2 * mp + e**2 * s2 * mp.conj() - 1j * e * np.sin(a) * mz,
                  -0.5j * np.sin(a) * (mp / e - e * mp.conj()) + np.cos(a) * mz)
        mp = mp * np.exp(1j * k * x)
    return np.abs(mp.mean()), np.sqrt(np.abs(mp) ** 2 + np.abs(mz) ** 2).max()


coarse, fine = run(1.0), run(0.1)
sig, mmax = bloch()
print(f"kgrid=1.0: |F0| = {abs(coarse.F0[0]):.4f}  norm = {coarse.norm[0]:.4f}  k of the states: {coarse.k[0, :, 0]}")
print(f"kgrid=0.1: |F0| = {abs(fine.F0[0]):.4f}  norm = {fine.norm[0]:.4f}")
print(f"Bloch    : |mean M+| = {sig:.4f}  max |M| = {mmax:.4f}   (PD = 1)")
sys.exit(0 if abs(coarse.F0[0]) <= 1 + 1e-9 and coarse.norm[0] <= 1 + 1e-9 else 1)
