# probe F125 (properties C20): exits 1 while the defect is present, 0 when it is gone
"""Unknown sequence variables are rejected only in the differentiation lists (jacobian(['T1']) -> 'Unknown variable(s)')
and missing ones only when an expression needs them ('Missing variable'). A VALUE given for a variable the sequence
does not have (a misspelt name next to the right one, a variable of another sequence) is silently dropped by
Sequence.signal / simulate / jacobian / hessian / crlb / adc_times: the call is simulated as if the value had not
been given. Ground truth: the property (unknown sequence variables raise), and the package's own
handling of the same name in the differentiation list."""
import sys
import numpy as np
from epgpy import sequence as sq

ops = sq.operators
seq = sq.Sequence([ops.T("alpha", 90), ops.S(1), ops.E(10, 1000, "T2"), ops.T(180, 0), ops.S(1), ops.E(10, 1000, "T2"), "ADC"])
print("variables of the sequence:", sorted(map(str, seq.variables)))
ref = seq.signal(alpha=30, T2=50)
for label, func in {
    "jacobian(['T1'], alpha=30, T2=50)": lambda: seq.jacobian(["T1"], alpha=30, T2=50),
    "signal(alpha=30)  (T2 missing)   ": lambda: seq.signal(alpha=30),
}.items():
    try:
        func()
        print(f"{label}: accepted")
    except ValueError as exc:
        print(f"{label}: ValueError({exc})   <- the documented rejections")

cases = {
    "signal(alpha=30, T2=50, T1=700)             ": lambda: seq.signal(alpha=30, T2=50, T1=700),
    "signal(alpha=30, T2=50, Alpha=60, t2=5)     ": lambda: seq.signal(alpha=30, T2=50, Alpha=60, t2=5),
    "simulate({'alpha': 30, 'T2': 50, 'b1': 0.5})": lambda: np.moveaxis(seq.simulate({"alpha": 30, "T2": 50, "b1": 0.5}), 0, -1),
    "jacobian(['T2'], alpha=30, T2=50, T1=700)[0]": lambda: seq.jacobian(["T2"], alpha=30, T2=50, T1=700)[0],
    "adc_times(alpha=30, T2=50, tau=3)           ": lambda: seq.adc_times(alpha=30, T2=50, tau=3),
}
bad = False
for label, func in cases.items():
    try:
        out = func()
    except ValueError as exc:
        print(f"{label}: ValueError({exc}) -> fine")
        continue
    print(f"{label}: ACCEPTED -> {np.round(np.ravel(out), 5)}"
          f"   (expected: ValueError, unknown variable)")
    bad = True
print("signal(alpha=30, T2=50) =", np.round(np.ravel(ref), 5), " (the unknown values changed nothing)")
sys.exit(1 if bad else 0)
