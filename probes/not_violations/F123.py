# probe F123 (properties C20): exits 1 while the defect is present, 0 when it is gone
"""The validity checks use numpy.allclose with its absolute floor atol=1e-8 (X: 1e-8 * max(1.0, ...)): whether a
non-conjugate-symmetric state matrix, malformed operator coefficients or a non-conserving kinetic matrix is rejected
depends on the MAGNITUDE (units) of the input. Every condition is homogeneous (F-(k) = conj F+(-k), K d = 0, column
sums = 0), so validity is scale invariant. Ground truth: the same input scaled by s = 1 is rejected; the property
quantifies over 'any magnitude'. (Valid inputs of the same tiny magnitude are accepted, as they should.)"""
import sys
import numpy as np
import epgpy as epg
from epgpy import opscalar, opmatrix

F_ASYM = np.array([[1, 0, 0], [0, 0, 1], [0, 0, 0]], dtype=complex)  # F+(-1) = 1 but F-(+1) = 0
K_BAD = np.array([[0.1, -0.3], [-0.2, 0.3]])  # columns do not sum to zero
cases = {
    "StateMatrix(s * [F+(-1)=1, F-(+1)=0])": lambda s: epg.StateMatrix(s * F_ASYM),
    "StateMatrix([0, 0, 1j * s])  (imaginary Z0)": lambda s: epg.StateMatrix([0, 0, 1j * s]),
    "simulate(init=[s, 0, 0])  (F0+ != conj F0-)": lambda s: epg.simulate([epg.T(30, 0), epg.ADC], init=[s, 0, 0]),
    "ScalarOp(s * [1j, 1j, 1])": lambda s: opscalar.ScalarOp(s * np.array([1j, 1j, 1])),
    "MatrixOp(s * diag(1, 2, 1))": lambda s: opmatrix.MatrixOp(s * np.diag([1.0, 2, 1])),
    "X(10, 0.1) on densities [s, 3s]  (K d != 0)": lambda s: epg.X(10, 0.1)(epg.StateMatrix(density=[s, 3 * s])),
    "X(10/s, s * K), column sums != 0": lambda s: epg.X(10 / s, s * K_BAD),
}
bad = False
for label, make in cases.items():
    out = []
    for s in (1.0, 1e-4, 1e-9):
        try:
            make(s)
            out.append(f"s={s:g}: ACCEPTED")
            bad = True
        except (ValueError, RuntimeError) as exc:
            out.append(f"s={s:g}: {type(exc).__name__}")
    print(f"{label:46}: " + ", ".join(out) + "   (expected: an exception for every s)")

# valid counterparts of the same magnitude are accepted
s = 1e-9
epg.StateMatrix([0, 0, s]), opscalar.ScalarOp(s * np.array([1j, -1j, 1])), epg.X(10, 0.1)(epg.StateMatrix(density=[s, s]))
print("valid inputs of magnitude 1e-9: accepted")
# consequence: the accepted state matrix is simulated, F0- != conj(F0+) after a shift
sm = epg.S(1)(epg.StateMatrix(1e-9 * F_ASYM))
print("S(1) on the accepted 1e-9 matrix: F0+ =", sm.states[0, sm.nstate, 0], " F0- =", sm.states[0, sm.nstate, 1], "(must be conjugates)")
sys.exit(1 if bad else 0)
