# probe F84 (properties C17): exits 1 while the defect is present, 0 when it is gone
"""crlb/crlb_split: a noise variance per batch entry is aligned with the parameter axis."""
import sys
import numpy as np
from epgpy import stats

rng = np.random.default_rng(0)
B, n, p, x = 3, 8, 3, 2  # batch size equal to the number of parameters: no exception, wrong values
J = rng.normal(size=(B, n, p)) + 1j * rng.normal(size=(B, n, p))
H = rng.normal(size=(B, n, p, x)) + 1j * rng.normal(size=(B, n, p, x))
sigma2 = np.array([1.0, 2.0, 3.0])  # one noise variance per batch entry


def cost(j, s2):
    return np.trace(np.linalg.inv((j.conj().T @ j).real / s2))


expected = np.array([cost(J[b], sigma2[b]) for b in range(B)])
eps = 1e-6
expected_grad = np.array(
    [[(cost(J[b] + eps * H[b, ..., k], sigma2[b]) - cost(J[b] - eps * H[b, ..., k], sigma2[b])) / 2 / eps
      for k in range(x)] for b in range(B)]
)
ok = True
for label, s2 in [("sigma2 shape (B,)", sigma2), ("sigma2 shape (B,1,1)", sigma2.reshape(B, 1, 1))]:
    print(label)
    try:
        c = stats.crlb(J, sigma2=s2)
        print("  crlb        :", c, "\n  ground truth:", expected)
        ok &= np.allclose(c, expected)
        d = stats.crlb_split(J, sigma2=s2)
        ok &= np.allclose(d.sum(axis=0), expected)
        c, g = stats.crlb(J, H, sigma2=s2)
        print("  gradient    :", g.tolist(), "\n  ground truth:", expected_grad.tolist())
        ok &= np.allclose(c, expected) and np.allclose(g, expected_grad, rtol=1e-4)
    except Exception as exc:
        print("  raised", type(exc).__name__, exc)
        ok = False
sys.exit(0 if ok else 1)
