# probe F22b (properties C15): exits 1 while the defect is present, 0 when it is gone
"""Imaging with 2-D / 3-D voxel positions while the state matrix has (so far) fewer gradient
axes: k.x is computed as k_x * (x + y + z) (1-D sequence) or the probe raises (2-D k, 3-D x).
Closed form: T(90, 90) turns M0 into M+ = 1; a shift k makes M+(x) = exp(i k.x), so a 'point'
voxel at x must return exp(i k.x) and a 'box' voxel of size a: prod_i sinc(k_i a / 2) exp(i k.x)."""
import sys
import numpy as np
import epgpy as epg

pos = np.array([[0.3, 0.5, -0.2], [1.0, -0.7, 0.4]])
a = 0.8
ok = True

# (a) x-gradient only (standard 1-D integer shift), voxels given by their 3-D coordinates
for shape, form in [("point", 1.0), ("box", np.sin(a / 2) / (a / 2))]:
    adc = epg.Imaging(pos, voxel_shape=shape, voxel_size=a, reduce=False)
    out = epg.simulate([epg.T(90, 90), epg.S(1), adc])[0, 0]
    expected = form * np.exp(1j * pos[:, 0])
    good = np.allclose(out, expected)
    ok &= good
    print(f"S(1), {shape} voxel at (x,y,z): observed {np.round(out, 4)}  expected {np.round(expected, 4)}",
          "OK" if good else f"MISMATCH (observed = form * exp(i (x+y+z)) = {np.round(form * np.exp(1j * pos.sum(1)), 4)})")

# (b) 3-D sequence probed before the z gradient has been played (k has 2 axes at the first probe)
adc = epg.Imaging(pos, voxel_shape="point", reduce=False)
expected = np.array([np.exp(1j * (pos[:, 0] + 2 * pos[:, 1])), np.exp(1j * (pos[:, 0] + 2 * pos[:, 1] + pos[:, 2]))])
try:
    out = epg.simulate([epg.T(90, 90), epg.S([1, 2]), adc, epg.S([0, 0, 1]), adc])[:, 0]
    good = np.allclose(out, expected)
    print("S([1,2]), adc, S([0,0,1]), adc: observed", np.round(out, 4), "expected", np.round(expected, 4))
except Exception as exc:
    good = False
    print("S([1,2]), adc, S([0,0,1]), adc: raised", repr(exc), "\n  expected", np.round(expected, 4))
ok &= good
sys.exit(0 if ok else 1)
