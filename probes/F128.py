# probe F128 (properties C14, C13): exits 1 while the defect is present, 0 when it is gone
"""n-D / real-valued shifts delete the whole magnetisation of a low-density state matrix.

S(k) with an integer array or a real-valued k prunes "empty" phase states with an ABSOLUTE tolerance (default
prune=1e-8) on the state amplitudes.  For a state matrix whose density is below that number (PD = 1e-9: the
magnetisation scale is arbitrary, the EPG model is linear in PD) every shifted state is "empty": the shift removes
the complete transverse magnetisation, the norm drops from PD to 0 and the spin echo is 0 instead of PD.
Ground truth: the shift is a permutation of the states (norm unchanged), the 1-D integer shift S(1) (no pruning),
and linearity (the PD = 1 simulation scaled by PD).
"""
import sys
import numpy as np
import epgpy as epg

PD = 1e-9
ok = True

# 1. isometry: norm before / after one shift of an excited state matrix
sm = epg.T(90, 90)(epg.StateMatrix(density=PD))
for label, shift, opts in [
    ("S(1)           ", epg.S(1), {}),
    ("S([1, 0, 0])   ", epg.S([1, 0, 0]), {}),
    ("S(1.0), kgrid=1", epg.S(1.0, kgrid=1), {}),
]:
    before, after = sm.norm[0], shift(sm).norm[0]
    good = np.isclose(after, before, rtol=1e-9, atol=0)
    print(f"{label}: norm / PD before = {before / PD:.6f}   after = {after / PD:.6f}   {'ok' if good else 'WRONG'}")
    ok &= bool(good)

# 2. spin echo T(90) S T(180) S ADC: |F0| = PD whatever the kind of shift
for label, k, opts in [
    ("1-D integer shift", 1, {}),
    ("3-D integer shift", [1, 0, 0], {}),
    ("real-valued shift", 1.0, {"kgrid": 1}),
]:
    seq = [epg.T(90, 90), epg.S(k), epg.T(180, 0), epg.S(k), epg.ADC]
    echo = abs(epg.simulate(seq, density=PD, **opts)).item()
    truth = PD * abs(epg.simulate(seq, density=1.0, **opts)).item()  # linearity in PD
    good = np.isclose(echo, truth, rtol=1e-9, atol=0)
    print(f"{label}: |echo| / PD = {echo / PD:.6f}   expected {truth / PD:.6f}   {'ok' if good else 'WRONG'}")
    ok &= bool(good)

sys.exit(0 if ok else 1)
