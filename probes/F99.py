# probe F99 (properties C15): exits 1 while the defect is present, 0 when it is gone
"""Imaging(phase=array) / System(phase=array): utils.imaging multiplies exp(i*phase) WITHOUT appending the
phase-state axis (weights and modulation get `[..., NAX]`): the phase array is aligned with the phase STATES.
With as many entries as states it silently weights the states, otherwise it raises - also for an array of
the full (batch x position) shape, the form in which weights and modulation work.
Ground truth: the scalar phase (which works) applied voxel by voxel: signal[p] * exp(i*phase[p])."""
import sys
import numpy as np
import epgpy as epg

pos = np.array([0.1, 0.5, -0.3])  # 3 voxels (1-D)
phase = np.array([10.0, 50.0, 120.0])  # receiver phase of each voxel (degrees)
alpha = np.array([30.0, 70.0])

def run(adc, pre=(), a=40.0):
    # 3 phase states (k = -1, 0, 1) at the acquisition
    return epg.simulate([*pre, epg.T(a, 20), epg.S(1), epg.T(60, 70), adc])[0]

ref = run(epg.Imaging(pos, reduce=False))  # shape (1, 3)
exp = np.stack([run(epg.Imaging(pos[p : p + 1], reduce=False, phase=phase[p]))[..., 0] for p in range(3)], -1)
assert np.allclose(exp, ref * np.exp(1j * np.deg2rad(phase)))  # scalar phases are right
obs = run(epg.Imaging(pos, reduce=False, phase=phase))
obs_sys = run(epg.Imaging(pos, reduce=False), pre=[epg.System(phase=phase)])
print("phase per voxel, probe argument :", obs[0])
print("phase per voxel, System()       :", obs_sys[0])
print("voxel by voxel (scalar phases)  :", exp[0])
ok = np.allclose(obs, exp, atol=1e-8) and np.allclose(obs_sys, exp, atol=1e-8)

# full (batch x position) shape: accepted for weights / modulation, raises for phase
full = phase[:2, None] + phase
run(epg.Imaging(pos, reduce=False, weights=full, modulation=full), a=alpha)
try:
    obs2 = run(epg.Imaging(pos, reduce=False, phase=full), a=alpha)
    exp2 = run(epg.Imaging(pos, reduce=False), a=alpha) * np.exp(1j * np.deg2rad(full))
    ok &= np.allclose(obs2, exp2, atol=1e-8)
except ValueError as exc:
    print("phase of shape (nbatch, npos) raises:", exc)
    ok = False
print("AGREE" if ok else "DISAGREE")
sys.exit(0 if ok else 1)
