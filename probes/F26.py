# probe F26 (properties C07): exits 1 while the defect is present, 0 when it is gone
"""C07 defect 3: D(tau, D, k) with a batch of diffusion tensors (shape B x kd x kd, operator shape (B,))
or a batch of induced shifts k (shape B x kd): the batch axis is aligned with the phase-STATE axis instead
of the first grid axis -> silently wrong signals when B equals the number of states (3 here), ValueError
otherwise."""
import sys
import numpy as np
from epgpy import operators as ops, functions as fn

Ds = np.array([np.diag([1.0, 2.0]), np.diag([3.0, 0.5]), np.diag([0.2, 0.1]), np.diag([5.0, 5.0])])
ks = np.array([[1, 1], [2, 0], [0, 3]])
tau, kvalue = 5.0, 1e4  # ms, rad/m


def seq(D, k=None):  # spin echo, diffusion during the first half (D(k=k) comes right after S(k))
    S = ops.S([1, 1] if k is None else k)
    return [ops.T(90, 90), S, ops.D(tau, D, k=k), ops.T(180, 0), S, ops.ADC]


def run(label, vec, scalars, exact=None):
    print(f"{label}: operator shape {vec[2].shape}")
    ref = np.array([fn.simulate(s, kvalue=kvalue)[0, 0] for s in scalars])
    if exact is not None:
        assert np.allclose(ref, exact), "scalar simulation disagrees with the closed form"
    try:
        out = fn.simulate(vec, kvalue=kvalue)[0]
    except ValueError as exc:
        print("   vectorised: ValueError:", str(exc)[:80], "\n   expected  :", ref.real.round(5))
        return 1
    ok = out.shape == ref.shape and np.allclose(out, ref)
    print("   vectorised:", out.real.round(5), "\n   expected  :", ref.real.round(5), "ok" if ok else "MISMATCH")
    return 0 if ok else 1


bad = 0
n = np.array([1.0, 1.0])
for nb in (3, 2, 4):  # 3 == number of phase states when D is applied -> silent
    exact = np.exp(-tau * 1e-3 * (kvalue * 1e-3) ** 2 * np.einsum("i,bij,j->b", n, Ds[:nb], n))
    bad += run(f"batch of {nb} tensors", seq(Ds[:nb]), [seq(D) for D in Ds[:nb]], exact)
for nb in (3, 2):
    bad += run(f"batch of {nb} shifts k", seq(Ds[0], ks[:nb]), [seq(Ds[0], k) for k in ks[:nb]])
print("failures:", bad)
sys.exit(1 if bad else 0)
