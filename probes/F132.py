# probe F132 (properties C09, C12): exits 1 while the defect is present, 0 when it is gone
"""C09: values recorded by a probe must be snapshots, unaffected by later operators.

A probe whose callable returns a dict of state-matrix attributes (callable signature
`probe(sm, *args, **kwargs)`, no restriction on the returned container; lists and tuples
are copied item by item) records *views* of the live state matrix: the later operators of
the same simulate() call rewrite the values already recorded.

Ground truth: (a) the same quantities recorded by the plain probes 'F0' / 'Z0',
(b) the simulation truncated right after the probe.
"""
import sys
import numpy as np
import epgpy as epg

record = epg.Probe(lambda sm: {"F0": sm.F0, "Z0": sm.Z0})
head = [epg.T(90, 90), epg.S(1), epg.E(5, 1000, 50), epg.T(180, 0), epg.S(1), epg.E(5, 1000, 50)]
tail = [epg.T(90, 0), epg.SPOILER, epg.E(500, 1000, 50)]

# full simulation: probe after the spin echo, then more operators, then a second acquisition
full = epg.simulate(head + [record] + tail + [record], asarray=False)
unwrap = lambda rec: rec.item() if isinstance(rec, np.ndarray) else rec  # (0-d object array holding the dict)
observed = unwrap(full[0])  # first record

# (a) same quantities through the built-in expression probes
F0_ref, Z0_ref = epg.simulate(head + [epg.ADC] + tail + [epg.ADC], probe=["F0", "Z0"], asarray=False)
# (b) truncated simulation: nothing comes after the probe
trunc = unwrap(epg.simulate(head + [record], asarray=False)[0])

ok = True
for key, ref in (("F0", F0_ref[0]), ("Z0", Z0_ref[0])):
    obs = np.asarray(observed[key])
    print(f"{key} recorded at the 1st probe (dict probe, full run): {obs}")
    print(f"{key} ground truth ('{key}' probe, full run)           : {np.asarray(ref)}")
    print(f"{key} ground truth (dict probe, truncated run)        : {np.asarray(trunc[key])}")
    good = np.allclose(obs, ref) and np.allclose(obs, trunc[key])
    print("   ->", "agree" if good else "DISAGREE: the record was rewritten by the later operators")
    ok &= bool(good)

sys.exit(0 if ok else 1)
