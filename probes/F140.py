# probe F140 (properties C05): exits 1 while the defect is present, 0 when it is gone
"""5eb75a1 (D pads a scalar / short k): incomplete when the state matrix has a per-axis kvalue.

D multiplies k by sm.kvalue BEFORE padding: with kvalue = [kx, ky, kz] a scalar (or length-1) k
becomes the full vector [k*kx, k*ky, k*kz] and is again subtracted from every coordinate column,
and a length-2 k raises a broadcast error. Ground truth: the closed form of a spin echo with
gradient lobes along x only, exp(-2 * D * kx^2 * tau / 3), and the call with the full k = [1, 0, 0].
"""
import sys
import numpy as np
import epgpy as epg

kvalue = np.array([300.0, 150.0, 100.0])  # rad/m per unit of each coordinate column
tau, Dcoef = 20.0, 2.0  # ms, mm^2/s
kS = np.array([[1, 0, 0]])  # integer shift along x only


def echo(kD):
    d = lambda: epg.D(tau, Dcoef, kD)
    seq = [epg.T(90, 90), epg.S(kS), d(), epg.T(180, 0), epg.S(kS), d(), epg.ADC]
    return abs(epg.simulate(seq, kvalue=kvalue).item())


expected = np.exp(-2 * Dcoef * (kvalue[0] * 1e-3) ** 2 * tau * 1e-3 / 3)
bad = False
for label, kD in [("k=[1,0,0]", [1, 0, 0]), ("k=1", 1), ("k=[1]", [1]), ("k=[1,0]", [1, 0])]:
    try:
        obs = echo(kD)
        ok = np.isclose(obs, expected, rtol=0, atol=1e-9)
        print(f"{label:10s} observed {obs:.9f}  expected {expected:.9f}  {'ok' if ok else 'WRONG'}")
    except Exception as exc:
        ok = False
        print(f"{label:10s} raised {type(exc).__name__}: {exc}  expected {expected:.9f}")
    bad |= not ok

sys.exit(1 if bad else 0)
