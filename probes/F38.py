# probe F38 (properties C13): exits 1 while the defect is present, 0 when it is gone
"""The Sequence-building (virtual) S operator advertises the signature of S
(k, *, nmax, kgrid, prune, name, duration) but rejects nmax, kgrid and prune:
a per-operator cap / grid / tolerance cannot be used in a Sequence."""
import sys
import inspect
import numpy as np
from epgpy import operators as ops, functions, sequence

vo = sequence.operators
print("advertised signature:", inspect.signature(vo.S.__init__))

# ground truth with the plain operators: CPMG-like train, cap n=1
a = 120.0
plain = [ops.T(90, 90)] + [ops.S(1, nmax=1), ops.T(a, 0), ops.S(1, nmax=1), ops.ADC] * 3
ref = functions.simulate(plain).ravel()
print("plain operators, S(1, nmax=1):", np.round(ref, 6))

fail = False
for kw in ({"nmax": 1}, {"prune": 0}, {"kgrid": 0.1}):
    try:
        shift = vo.S(1, **kw)
        blk = [shift, vo.T(sequence.Variable("a"), 0), shift, vo.ADC]
        obs = sequence.Sequence([vo.T(90, 90)] + blk * 3).signal(a=a).ravel()
        print(f"virtual S(1, {kw}):", np.round(obs, 6))
        fail |= "nmax" in kw and not np.allclose(obs, ref)
    except Exception as exc:
        print(f"virtual S(1, **{kw}): raised {type(exc).__name__}: {exc}")
        fail = True
sys.exit(1 if fail else 0)
