# probe F52 (properties C05, C14, C07): exits 1 while the defect is present, 0 when it is gone
"""D(tau, D, k): the constructor aligns the batch axes of tau / D / k from the LAST axis (numpy style), whereas
the package (E, T, P, S ...) and D._apply itself align parameter axes from the FIRST axis.

  * tau of shape (2, 3) with one diffusion tensor (or one shift k) per entry of the first axis is rejected;
  * tau of shape (2, 1) with 2 tensors reports shape (2, 2): simulate() returns a (2, 2) grid instead of (2, 1).
Ground truth: one scalar D operator per grid entry, attenuation exp(-k^2 tau[i, j] D[i]) on the k = 1 state.
"""
import sys
import numpy as np
import epgpy as epg

KV = 3e3  # rad/m
tau = np.array([[10.0, 20.0, 30.0], [40.0, 50.0, 60.0]])  # ms, axes (0, 1)
diff = np.array([1.0, 2.0])  # mm^2/s, axis 0
tensors = diff[:, None, None] * np.eye(1)  # one 1x1 tensor per entry of axis 0
prep = epg.S(1)(epg.T(90, 90)(epg.StateMatrix(kvalue=KV, shape=(2, 3))))

truth = np.empty((2, 3))
for i in range(2):
    for j in range(3):
        one = epg.D(tau[i, j], diff[i])(epg.S(1)(epg.T(90, 90)(epg.StateMatrix(kvalue=KV))))
        truth[i, j] = np.abs(one.F[0, -1])
assert np.allclose(truth, np.exp(-((KV * 1e-3) ** 2) * tau * 1e-3 * diff[:, None]))
print("reference convention: E(tau[2,3], T1[2], T2).shape =", epg.E(tau, [100, 200], 50).shape)

ok = True
try:
    res = np.abs(np.asarray(epg.D(tau, tensors)(prep).F)[..., -1])
    print("D(tau[2,3], tensors[2]):\n", res, "\nexpected\n", truth)
    ok &= np.allclose(res, truth)
except Exception as exc:
    ok = False
    print(f"D(tau[2,3], tensors[2]) raised {type(exc).__name__}: {exc}\nexpected |F+(k=1)| =\n{truth}")

op = epg.D(tau[:, :1], tensors)
sig = epg.simulate([epg.T(90, 90), epg.S(1), op, epg.Adc("F")], kvalue=KV)
print("D(tau[2,1], tensors[2]).shape =", op.shape, " expected (2, 1);  simulate() output", sig.shape[1:-1])
ok &= tuple(op.shape) == (2, 1)
sys.exit(0 if ok else 1)
