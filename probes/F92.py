# probe F92 (properties C05, C06, C08, C18, C01, C12): exits 1 while the defect is present, 0 when it is gone
"""C08: Operator.copy() ("return copy of self", public, used with name=/duration=) returns an
unusable object for PD, D, X, MultiOperator and System: applying the copy to a well-formed
state matrix raises AttributeError.  Ground truth: the operator it was copied from."""
import sys
import numpy as np
import epgpy as epg

sm = epg.StateMatrix(shape=(2,))
for op in [epg.T(30, 0), epg.S(1), epg.T(60, 20)]:
    sm = op(sm)

cases = {
    "T (control)": epg.T(20, 10),
    "E (control)": epg.E(5, 1000, 100),
    "S (control)": epg.S(1),
    "PD": epg.PD(2.0),
    "D": epg.D(5.0, 1e-3),
    "X": epg.X(5.0, 0.1, axis=0),
    "MultiOperator": epg.MultiOperator([epg.T(20, 0), epg.S(1)]),
    "System": epg.System(kvalue=2.0),
}
bad = []
for name, op in cases.items():
    ref = op(sm)  # ground truth: the original operator
    try:
        out = op.copy(name="copy")(sm)
        same = out.states.shape == ref.states.shape and np.allclose(out.states, ref.states) \
            and np.allclose(out.equilibrium, ref.equilibrium)
        print(f"{name:14s} copy applied: {'same result as the original' if same else 'DIFFERENT result'}")
        if not same:
            bad.append(name)
    except Exception as exc:
        print(f"{name:14s} copy raises {type(exc).__name__}: {exc}   (original gives {ref})")
        bad.append(name)
print("broken copies:", bad, "(expected none)")
sys.exit(1 if bad else 0)
