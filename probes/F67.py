# probe F67 (properties C17, C11, C19): exits 1 while the defect is present, 0 when it is gone
"""Sequence.crlb/confint ignore the sequence's own ADC settings (weights / reduce / attr)."""
import sys, warnings
import numpy as np
from epgpy.sequence import Sequence, Variable, operators as vo

warnings.simplefilter("ignore")
T, S, E, Adc = vo.T, vo.S, vo.E, vo.Adc
b1 = Variable("b1")
prof = np.array([0.5, 0.8, 1.0])  # slice profile: three flip-angle scalings, summed by the ADC
adc = Adc(weights=[0.25, 0.25, 0.5])  # signal = weighted sum over the batch axis
ops = [T(90 * b1 * prof, 90)] + [E(5, "T1", "T2"), S(1), T(150 * b1 * prof, 0), S(1), E(5, "T1", "T2"), adc] * 6
seq = Sequence(ops)
vals = dict(b1=0.9, T1=1000.0, T2=50.0)
variables = ["T2", "b1"]

# ground truth: the sequence's signal, its finite-difference Jacobian, the defining formula
sig = seq.signal(**vals)  # shape (6,)
cols = []
for v in variables:
    vp, vm = dict(vals), dict(vals)
    vp[v] += 1e-5
    vm[v] -= 1e-5
    cols.append((seq.signal(**vp) - seq.signal(**vm)) / 2e-5)
J = np.stack(cols, axis=-1)  # (6, 2)
expected = np.trace(np.linalg.inv((J.conj().T @ J).real))

observed = seq.crlb(variables)(vals)
print("signal shape", sig.shape, "| jacobian() signal shape", seq.jacobian(variables, **vals)[0].shape)
print("seq.crlb      :", observed)
print("ground truth  :", expected)
ok = np.shape(observed) == np.shape(expected) and np.allclose(observed, expected, rtol=1e-4)

# confint on the sequence's own (noisy) signal
rng = np.random.default_rng(0)
obs = sig + 1e-3 * (rng.normal(size=sig.shape) + 1j * rng.normal(size=sig.shape))
res = obs - sig
cov = np.linalg.inv((J.conj().T @ J).real) * np.sum(abs(res) ** 2) / (6 - 2)
ci_expected = 2.7764451051977987 * np.sqrt(np.diag(cov))
try:
    ci = seq.confint(obs, variables)(vals)
    print("seq.confint   :", ci)
    ok &= np.shape(ci) == ci_expected.shape and np.allclose(ci, ci_expected, rtol=1e-3)
except Exception as exc:
    print("seq.confint   : raised", type(exc).__name__, exc)
    ok = False
print("ground truth  :", ci_expected)
sys.exit(0 if ok else 1)
