# probe F122 (properties C19): exits 1 while the defect is present, 0 when it is gone
"""A second-order coefficient map may name a parameter whose FIRST derivative w.r.t. the variables is zero
(alpha = a0 + c/2 x^2, phi = p0 + x at x = 0: dalpha/dx = 0, d2alpha/dx2 = c).  The declaration passes the
validation of the constructor, but applying the operator raises KeyError('alpha'): the first-order operator
arrays are only built for the parameters named in order1.  Writing the zero explicitly ({'alpha': 0.0}) works."""
import sys
import numpy as np
from epgpy import operators as ops, functions

c = 0.5
def seq(x=0.0, order1=None, order2=None):
    kw = {} if order1 is None else dict(order1=order1, order2=order2)
    rf = ops.T(60 + 0.5 * c * x**2, 20 + x, **kw)
    return [ops.T(90, 90), ops.S(1), ops.E(5, 500, 40), rf, ops.S(1), ops.E(5, 500, 40), rf, ops.S(1), ops.ADC]
f = lambda x: functions.simulate(seq(x))[0, 0]
h = 1e-2
fd = (f(h) - 2 * f(0) + f(-h)) / h**2
probe = ops.Hessian(["x"])
ref = functions.simulate(seq(0, {"x": {"phi": 1, "alpha": 0.0}}, {("x", "x"): {"alpha": c}}), probe=probe)[0, 0, 0, 0]
print("d2F0/dx2 finite differences      :", fd)
print("         explicit zero coefficient:", ref)
ok = np.allclose(fd, ref, rtol=1e-4)
try:
    val = functions.simulate(seq(0, {"x": {"phi": 1}}, {("x", "x"): {"alpha": c}}), probe=probe)[0, 0, 0, 0]
    print("         order1={'x': {'phi': 1}}  :", val)
    ok &= np.allclose(val, ref)
except KeyError as exc:
    print("         order1={'x': {'phi': 1}}  : raises KeyError", exc)
    ok = False
sys.exit(0 if ok else 1)
