# probe F96 (properties C19, C02, C03, C09): exits 1 while the defect is present, 0 when it is gone
"""C09: simulate(seq, init=<StateMatrix>, **options) must simulate under the options it is given.

simulate() applies the options (here max_nstate) to its working copy of `init`, but the
partial-derivative state matrices carried by `init` (sm.order1, continued since 8432a1c) are
copied WITHOUT them: the signal is simulated with the cap on the number of states, its
partial derivatives without it. The Jacobian returned next to the signal is not the
derivative of that signal (it is the Jacobian of the simulation without the option).

Ground truth: central finite differences of the very same call
    alpha -> simulate(tail, init=prefix(alpha), max_nstate=2)
"""
import sys
import numpy as np
import epgpy as epg


def prefix(alpha):
    """first part of the sequence, applied operator by operator (differentiated w.r.t. alpha)"""
    sm = epg.StateMatrix()
    for op in [epg.T(alpha, 90, order1="alpha"), epg.S(1), epg.T(60, 0), epg.S(1), epg.T(60, 0), epg.S(1)]:
        sm = op(sm, inplace=True)
    return sm


tail = [epg.T(50, 0), epg.S(1), epg.T(70, 10), epg.S(-2), epg.T(70, 10), epg.S(-2), epg.ADC]
probes = [epg.ADC, epg.Jacobian(["alpha"])]

ok = True
for options in ({}, {"max_nstate": 2}):
    signal, jac = epg.simulate(tail, init=prefix(40.0), probe=probes, **options)
    h = 1e-3
    fd = (epg.simulate(tail, init=prefix(40.0 + h), **options) - epg.simulate(tail, init=prefix(40.0 - h), **options)) / (2 * h)
    good = np.allclose(jac.ravel(), fd.ravel(), rtol=1e-5, atol=1e-9)
    print(f"options={options}: signal {signal.ravel()}")
    print(f"   d signal / d alpha, Jacobian probe : {jac.ravel()}")
    print(f"   d signal / d alpha, finite diff.   : {fd.ravel()}   ->", "agree" if good else "DISAGREE")
    ok &= bool(good)

sys.exit(0 if ok else 1)
