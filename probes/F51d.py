# probe F51 (properties C05, C08, C14, C09): exits 1 while the defect is present, 0 when it is gone
"""D writes into sm.states slice by slice: it fails wherever the stored states do not yet have the full batch shape
(state matrix that grows at D, or states stored without the batch axis of the equilibrium), unlike T/E/S/X/..."""
import sys
import numpy as np
import epgpy as epg

taus, Dc = [5.0, 10.0], 2e-3
pre = [epg.T(90, 90), epg.S(1)]
post = [epg.T(180, 0), epg.S(1), epg.ADC]
seq = pre + [epg.D(taus, Dc)] + post

# ground truth: one scalar simulation per diffusion time
truth = np.array([epg.simulate(pre + [epg.D(tau, Dc)] + post, kvalue=5e4).item() for tau in taus])
print("per-index scalar simulations        :", truth)
print("simulate(seq) (pre-broadcast init)  :", epg.simulate(seq, kvalue=5e4)[0])

ok = True
def attempt(label, func):
    global ok
    try:
        obs = np.asarray(func()).ravel()
        print(f"{label:36s}:", obs)
        ok &= np.allclose(obs, truth)
    except Exception as exc:
        print(f"{label:36s}: raises {type(exc).__name__}: {exc}")
        ok = False

def chain(sm, ops):
    for op in ops:
        sm = op(sm)
    return sm.F0
attempt("op(sm) chain from StateMatrix()", lambda: chain(epg.StateMatrix(kvalue=5e4), seq[:-1]))
attempt("simulate(seq, init=StateMatrix())", lambda: epg.simulate(seq, init=epg.StateMatrix(kvalue=5e4))[0])
# same with an equilibrium that carries a batch axis the stored states lack (D is the first operator that writes)
sm = epg.StateMatrix([0, 0, 1], density=[1.0, 2.0])
attempt("D(5, D)(StateMatrix(density=[1,2]))", lambda: (epg.D(5.0, Dc)(sm).Z0, truth)[1])
print("OK" if ok else "MISMATCH")
sys.exit(0 if ok else 1)
