# probe F49 (properties C03, C19, C09, C08): exits 1 while the defect is present, 0 when it is gone
"""Mixed 2nd-order partial is mis-aligned when the state matrix gains a batch axis at a differentiating operator
(operators applied one by one from a default StateMatrix, or simulate(init=StateMatrix(...)))."""
import sys, warnings
import numpy as np
import epgpy as epg
warnings.simplefilter("ignore")

alphas, T2s = np.array([30.0, 60.0]), np.array([80.0, 40.0])

def seq(alpha, T2, diff=True):
    kw1 = dict(order1={"a": "alpha"}, order2=["a"]) if diff else {}
    kw2 = dict(order1={"T2": "T2"}, order2="T2") if diff else {}
    return [epg.T(alpha, 10, **kw1), epg.S(1), epg.E(5, 800, T2, 0.03, **kw2), epg.T(20, 0), epg.S(-1)]

# observed: alpha on batch axis 0, T2 on batch axis 1, operators applied out of place to a default state matrix
sm = epg.StateMatrix()
for op in seq(alphas, T2s[np.newaxis, :]):
    sm = op(sm)
obs = np.asarray(sm.order2[("T2", "a")].F0)

# ground truth: central finite differences of per-index scalar simulations
def f0(alpha, T2):
    return epg.simulate(seq(alpha, T2, diff=False) + [epg.ADC])[0].item()
h = 1e-2
truth = np.array([[(f0(a + h, t + h) - f0(a + h, t - h) - f0(a - h, t + h) + f0(a - h, t - h)) / (4 * h * h)
                   for t in T2s] for a in alphas])
# same program through simulate(): default init (pre-broadcast) vs an equivalent StateMatrix init
pr = epg.Hessian(["a"], ["T2"])
sim_def = epg.simulate(seq(alphas, T2s[np.newaxis, :]) + [epg.ADC], probe=pr)[0, ..., 0, 0]
sim_sm = epg.simulate(seq(alphas, T2s[np.newaxis, :]) + [epg.ADC], probe=pr, init=epg.StateMatrix([0, 0, 1]))[0, ..., 0, 0]

print("sm.shape =", sm.shape, " shape of d2F0/(da dT2) partial =", obs.shape, "(expected (2, 2))")
print("observed (op(sm) chain)          :", obs)
print("observed simulate(init=StateMatrix):", sim_sm)
print("simulate(default init)            :\n", sim_def)
print("ground truth (finite differences) :\n", truth)
ok = all(x.shape == truth.shape and np.allclose(x, truth, rtol=1e-3, atol=1e-9) for x in (obs, sim_sm, sim_def))
print("OK" if ok else "MISMATCH")
sys.exit(0 if ok else 1)
