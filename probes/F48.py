# probe F48 (property C02): exits 1 while the defect is present, 0 when it is gone
"""A variable no operator depends on must give a zero Jacobian column, whatever the probed quantity: with a quantity that
keeps the state axis (probe='F', or F0 under time accumulation) the zero column had the wrong shape and np.stack raised."""
import sys, warnings
import numpy as np
import epgpy as epg
warnings.simplefilter("ignore")
bad = 0
for name, seq, pr in [
    ("probe='F'", [epg.T(30, 0, order1="alpha"), epg.E(5, 800, 50), epg.S(1)], epg.Jacobian(["alpha", "unused"], probe="F")),
    ("F0 with C", [epg.T(30, 0, order1="alpha"), epg.C(2.0), epg.T(30, 0, order1="alpha")], epg.Jacobian(["alpha", "unused"])),
]:
    try:
        res = np.asarray(epg.simulate(seq + [epg.ADC], probe=pr, kgrid=0.5))
        col = res[..., 1]
        print(name, "shape", res.shape, "max |unused column| =", float(np.abs(col).max()))
        if np.abs(col).max() != 0:
            bad += 1
    except Exception as exc:
        print(name, "raised", repr(exc)[:200]); bad += 1
sys.exit(1 if bad else 0)
