# probe F89 (properties C06): exits 1 while the defect is present, 0 when it is gone
"""A batch of kinetic matrices (as in examples/exchange/relax_exchange_1d.py: rates on axis 0, compartments
on axis 1) cannot be applied to a state matrix that has one more axis (e.g. a flip-angle axis 2):
the conservation check in X._apply aligns khi with the state's density from the LAST axis."""
import sys
import numpy as np
from epgpy import operators as ops, statematrix, exchange, functions

rates = np.array([0.1, 0.2, 0.5])
tau, T2 = 2.0, [[20.0, 60.0]]
alphas = [[[30.0, 60.0, 90.0, 120.0]]]  # flip angles on axis 2
khi = exchange.exchange_matrix(rates, axis=1, ncomp=2)  # (3, 2, 2): rates x compartments x compartments
xt = ops.X(tau, khi, T2=T2, axis=1)  # operator shape (3, 2): built without complaint

# ground truth: one simulation per rate
ref = np.stack(
    [
        functions.simulate([ops.T(alphas, 90), ops.X(tau, r, T2=T2, axis=1), ops.ADC])[0, 0]
        for r in rates
    ]
)
print("ground truth F0, shape", ref.shape, "\n", np.round(ref.real, 4))
try:
    obs = functions.simulate([ops.T(alphas, 90), xt, ops.ADC])[0]
    print("observed F0, shape", obs.shape, "\n", np.round(obs.real, 4))
    ok = obs.shape == ref.shape and np.allclose(obs, ref)
except Exception as exc:
    print("observed: simulate([T (1,1,4), X (3,2), ADC]) raised %s: %s" % (type(exc).__name__, exc))
    ok = False
sys.exit(0 if ok else 1)
