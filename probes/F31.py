# probe F31 (properties C10, C09): exits 1 while the defect is present, 0 when it is gone
"""'*' on a multi-operator appends IN PLACE and returns the left operand itself:
re-using a group (block * x, then block * y) silently changes every sequence
that already contains it."""
import sys
import numpy as np
from epgpy import operators as ops, functions

T, E, S, ADC = ops.T, ops.E, ops.S, ops.ADC
exc, rlx, grd, ref = T(30, 0), E(5, 1000, 50), S(1), T(180, 0)

block = exc * rlx  # excitation block, a MultiOperator of 2 members
seq_a = block * ADC  # FID readout:      T, E, ADC
seq_b = block * grd * ref * grd * ADC  # another use of the same block

flat_a = functions.simulate([exc, rlx, ADC])
flat_b = functions.simulate([exc, rlx, grd, ref, grd, ADC])
mult_a = functions.simulate([seq_a])
mult_b = functions.simulate([seq_b])

print("members of block     :", len(block), "(expected 2)")
print("seq_a is block/seq_b :", seq_a is block, seq_a is seq_b, "(expected False False)")
print("members of seq_a     :", len(seq_a), "(expected 3)")
print("flat  [T,E,ADC]            ->", np.ravel(flat_a))
print("multi block*ADC            ->", np.ravel(mult_a))
print("flat  [T,E,S,T180,S,ADC]   ->", np.ravel(flat_b))
print("multi block*S*T180*S*ADC   ->", np.ravel(mult_b))
ok = (
    len(block) == 2
    and mult_a.shape == flat_a.shape
    and np.allclose(mult_a, flat_a)
    and mult_b.shape == flat_b.shape
    and np.allclose(mult_b, flat_b)
)
print("OK" if ok else "MISMATCH")
sys.exit(0 if ok else 1)
