# probe F118 (properties C05): exits 1 while the defect is present, 0 when it is gone
"""D(tau, D, k) with a scalar k (the documented 1-D form, "same as epg.S") on a state matrix that has more
than one coordinate column (time accumulation C(tau), or an earlier 2-D/3-D shift): S(1) shifts the x axis
only, but D subtracts k*kvalue from EVERY spatial column, so the ramp runs along (1,1,1) instead of (1,0,0).
Ground truth: closed form of the pulsed-gradient spin echo, exp(-2/3 k^2 tau D) (ramp up, refocus, ramp down).
"""
import sys
import numpy as np
from epgpy import operators as ops, statematrix

kv, tau, d = 2e4, 5.0, 2.0  # rad/m, ms, mm^2/s
expected = np.exp(-2 / 3 * kv**2 * (tau * 1e-3) * (d * 1e-6))


def run(seq):
    sm = statematrix.StateMatrix(kvalue=kv)
    for op in seq:
        sm = op(sm)
    return complex(np.sum(sm.F0))  # (with time accumulation F0 lists the k=0 states)


exc, ref = ops.T(90, 90), ops.T(180, 0)
cases = {
    # 1-D spin echo with ramps, plain: correct
    "1-D, D(k=1)": [exc, ops.S(1), ops.D(tau, d, 1), ref, ops.S(1), ops.D(tau, d, 1)],
    # same with time accumulation switched on (C): wrong
    "1-D + C(tau), D(k=1)": [exc, ops.C(5), ops.S(1), ops.D(tau, d, 1), ref, ops.C(5), ops.S(1), ops.D(tau, d, 1)],
    # same, k spelled as a 3-vector: correct
    "1-D + C(tau), D(k=[1,0,0])": [exc, ops.C(5), ops.S(1), ops.D(tau, d, [1, 0, 0]), ref, ops.C(5), ops.S(1), ops.D(tau, d, [1, 0, 0])],
    # x-shift S(1) after a refocused z-encoding (3 coordinate columns, back at k=0): wrong
    "after S([0,0,1]) pair, S(1)+D(k=1)": [exc, ops.S([0, 0, 1]), ref, ops.S([0, 0, 1]), ops.S(1), ops.D(tau, d, 1), ref, ops.S(1), ops.D(tau, d, 1)],
}
ok = True
for name, seq in cases.items():
    try:
        val = run(seq)
    except Exception as exc_:
        val = repr(exc_)
    good = not isinstance(val, str) and np.isclose(val, expected, rtol=1e-6)
    ok &= bool(good)
    print(f"{name:40s} observed {val!s:45s} expected {expected:.8f}  {'ok' if good else 'MISMATCH'}")
sys.exit(0 if ok else 1)
