# probe F92 (properties C05, C06, C08, C18, C01, C12): exits 1 while the defect is present, 0 when it is gone
"""Operator.copy() on a diffusion operator: D does not override copy(), the base class builds the new object
with __new__ and carries over name/duration only. The copy has no tau / D / k / _shape, so every use
(op.shape, op(sm), simulate([... , copy, ...])) raises AttributeError. E, T, S copies work.
Ground truth: a copy of D(tau, D, k) (e.g. d.copy(duration=tau) to give it a timing) attenuates like the original,
exp(-2/3 k^2 tau D) for the pulsed-gradient spin echo.
"""
import sys
import numpy as np
from epgpy import operators as ops, functions

kv, tau, d = 2e4, 5.0, 2.0
expected = np.exp(-2 / 3 * kv**2 * (tau * 1e-3) * (d * 1e-6))
dif = ops.D(tau, d, 1)
seq = lambda dop: [ops.T(90, 90), ops.S(1), dop, ops.T(180, 0), ops.S(1), dop, ops.ADC]

orig = complex(functions.simulate(seq(dif), kvalue=kv)[0, 0])
print("original D            :", orig, " expected", expected)
ok = bool(np.isclose(orig, expected))
for label, make in [("D.copy()", lambda: dif.copy()), ("D.copy(duration=tau)", lambda: dif.copy(duration=tau))]:
    try:
        new = make()
        val = complex(functions.simulate(seq(new), kvalue=kv)[0, 0])
        good = bool(np.isclose(val, expected)) and (label == "D.copy()" or new.duration == tau)
    except Exception as exc:
        val, good = repr(exc), False
    ok &= good
    print(f"{label:22s}:", val, " expected", expected, "" if good else " MISMATCH")
sys.exit(0 if ok else 1)
