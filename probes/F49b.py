# probe F49 (properties C03, C19, C09, C08): exits 1 while the defect is present, 0 when it is gone
"""Mixed second-order partial is wrong when the state matrix grows at a differentiated operator.
T(alpha[3]) then E(tau, T1[1,3], T2), operators applied one by one (docs/basics.md) or simulate(init=StateMatrix()).
Ground truth (closed form): Z0 = 1 + (cos(a) - 1) exp(-tau/T1)  =>  d2 Z0/(da dT1) = -sin(a) pi/180 exp(-tau/T1) tau/T1^2
"""
import sys, warnings
import numpy as np
import epgpy as epg

warnings.simplefilter("ignore")
alpha = np.array([10.0, 20.0, 30.0])  # axis 0
T1 = np.array([[300.0, 600.0, 900.0]])  # axis 1
tau = 50.0

sm = epg.StateMatrix()
sm = epg.T(alpha, 0, order2="alpha")(sm)
sm = epg.E(tau, T1, 50.0, order2="T1")(sm)

a = np.deg2rad(alpha)[:, None]
truth = -np.sin(a) * np.pi / 180 * np.exp(-tau / T1) * tau / T1**2  # shape (3, 3)

print("state matrix shape      :", sm.shape)
print("d2/dalpha dalpha shape  :", sm.order2[("alpha", "alpha")].Z0.shape)
obs = sm.order2[("T1", "alpha")].Z0
print("d2/dalpha dT1 shape     :", obs.shape, " expected", truth.shape)
print("observed d2 Z0/(dalpha dT1):\n", np.real(obs))
print("ground truth (alpha x T1 grid):\n", truth)

ok = obs.shape == truth.shape and np.allclose(obs, truth, rtol=1e-8, atol=0)
# same program through simulate(init=...): the Hessian probe cannot even be stacked
try:
    seq = [epg.T(alpha, 0, order2="alpha"), epg.E(tau, T1, 50.0, order2="T1"), epg.ADC]
    hes = epg.simulate(seq, init=epg.StateMatrix(), probe=epg.Hessian(["alpha", "T1"], probe="Z0"))
    print("simulate(init=StateMatrix()) Hessian[alpha, T1]:\n", np.real(hes[0][..., 0, 1]))
    ok = ok and np.allclose(hes[0][..., 0, 1], truth)
except Exception as exc:
    print("simulate(init=StateMatrix()) raised:", repr(exc))
    ok = False
print("OK" if ok else "DEFECT: the T1 axis of dE/dT1 was paired with the alpha axis of the carried partial")
sys.exit(0 if ok else 1)
