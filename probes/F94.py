# probe F94 (properties C18): exits 1 while the defect is present, 0 when it is gone
"""RFPulse(..., phi=<array of zeros>) loses the batch axis of phi: the offset is applied only `if np.any(offset)`,
so an all-zero offset ARRAY builds no Phi operators and the pulse has shape (1,) instead of phi.shape
(T(alpha, zeros(3)) and Phi(zeros(3)) keep shape (3,); phi = [0, 0, 1e-9] gives (3,)).
Ground truth: offset == multiplying all samples by exp(i*offset), one scalar pulse per entry."""
import sys
import numpy as np
import epgpy as epg
from epgpy import rfpulse

values = np.array([0.3, 0.8j, -0.6, 0.4 + 0.4j, 0.2])
rfs = np.array([[0.3, 0.6]])  # rf on axis 1
ok = True
for phis in [np.array([0.0, 0.0, 1e-9]), np.zeros(3)]:  # phi on axis 0
    ref = np.array([
        [
            epg.simulate([rfpulse.RFPulse(values * np.exp(1j * np.radians(p)), 2.0, rf=r, T2=10, g=0.1), epg.ADC])[0, 0]
            for r in rfs[0]
        ]
        for p in phis
    ])
    pulse = rfpulse.RFPulse(values, 2.0, rf=rfs, alpha=1, phi=phis, T2=10, g=0.1)
    obs = epg.simulate([pulse, epg.ADC])[0]
    print(f"phi = {phis}: expected pulse shape {ref.shape}, observed pulse.shape {pulse.shape}, signal shape {obs.shape}")
    good = obs.shape == ref.shape and np.allclose(obs, ref)
    if not good:
        print("   ground truth:\n", np.round(ref, 4), "\n   observed:\n", np.round(obs, 4))
    ok &= bool(good)
    # same thing without any other batch axis
    single = rfpulse.RFPulse(values, 2.0, rf=0.3, phi=phis)
    print(f"   rf scalar: pulse.shape {single.shape}, expected {phis.shape};"
          f" T(30, phi).shape {epg.T(30, phis).shape}, Phi(phi).shape {epg.Phi(phis).shape}")
    ok &= single.shape == phis.shape
print("OK" if ok else "DEFECT")
sys.exit(0 if ok else 1)
