# probe F127 (properties C18): exits 1 while the defect is present, 0 when it is gone
"""A scalar duration given as a 0-d array (np.array(2.0), np.asarray(x), arr.sum(keepdims...)[()] ...) raises
TypeError('len() of unsized object'): make_pulse_sequence / RFPulse.__init__ test np.isscalar(duration), which is
False for 0-d arrays, whereas the package treats 0-d arrays as scalars everywhere else (common.isscalar;
rf, alpha, phi, T1, T2, g and T(duration=np.array(2.0)) all accept them).
Ground truth: the same pulse with duration=2.0."""
import sys
import numpy as np
import epgpy as epg
from epgpy import rfpulse

values = np.array([0.3, 0.8j, -0.6, 0.4 + 0.4j, 0.2])
kw = dict(rf=np.array(0.5), phi=np.array(20.0), T1=np.array(100.0), T2=np.array(10.0), g=np.array(0.1))  # 0-d: accepted
ref_pulse = rfpulse.RFPulse(values, 2.0, **kw)
ref = ref_pulse(epg.StateMatrix()).states[0, 0]
print("ground truth (duration=2.0):        ", np.round(ref, 5), " duration", ref_pulse.duration)
print("T(30, 0, duration=np.array(2.0)).duration =", epg.T(30, 0, duration=np.array(2.0)).duration)
ok = True
for label, dur in {"np.array(2.0)": np.array(2.0), "np.asarray(np.float32(2))": np.asarray(np.float32(2))}.items():
    try:
        pulse = rfpulse.RFPulse(values, dur, **kw)
        obs = pulse(epg.StateMatrix()).states[0, 0]
        times = epg.get_adc_times([pulse, epg.ADC])
        print(f"observed (duration={label}): {np.round(obs, 5)}  duration {pulse.duration}  adc time {times}")
        ok &= bool(np.allclose(obs, ref) and np.isclose(pulse.duration, 2.0) and np.isclose(times[0], 2.0))
    except Exception as exc:
        print(f"observed (duration={label}): raises {type(exc).__name__}: {exc}")
        ok = False
print("OK" if ok else "DEFECT")
sys.exit(0 if ok else 1)
