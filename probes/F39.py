# probe F39 (properties C15): exits 1 while the defect is present, 0 when it is gone
"""Imaging: a weights array over the batch axis is applied along the voxel-position axis.
State matrix batch = 3 values of T2; 3 voxel positions; weights w[b] (one per batch entry),
given through System(weights=w) or Imaging(weights=w).  Expected: out[b, p] = w[b] * S[b, p]
where S[b, p] is the un-weighted scalar simulation with T2[b] at position p."""
import sys
import numpy as np
import epgpy as epg

T2 = np.array([20.0, 30.0, 50.0])
pos = np.array([[0.3], [-0.4], [1.1]])
w = np.array([1.0, 2.0, 3.0])
size = 0.8


def seq(adc, T2, pre=()):
    return list(pre) + [epg.T(30, 40), epg.S(1), epg.E(5, 100, T2), epg.T(70, -20), epg.S(2),
                        epg.E(3, 100, T2), epg.T(50, 10), epg.S(-1), adc]


# ground truth: per-index scalar simulations, no weights
S = np.array([[epg.simulate(seq(epg.Imaging(p, voxel_size=size), t2)).item() for p in pos] for t2 in T2])
expected = w[:, None] * S

ok = True
for label, adc, pre in [
    ("System(weights=w)", epg.Imaging(pos, voxel_size=size, reduce=False), [epg.System(weights=w)]),
    ("Imaging(weights=w)", epg.Imaging(pos, voxel_size=size, reduce=False, weights=w), []),
]:
    out = epg.simulate(seq(adc, T2, pre))[0]
    good = out.shape == expected.shape and np.allclose(out, expected)
    ok &= good
    print(label, "OK" if good else "MISMATCH", "\nobserved [batch, position]:\n", np.round(out, 4))
    print("expected:\n", np.round(expected, 4), "\nobserved/expected (= w[p]/w[b]):\n", np.round((out / expected).real, 4))

# same call with 2 positions (or weights whose batch axis is not in the state matrix) raises
for label, adc, pre, t2 in [
    ("3 batch entries, 2 positions", epg.Imaging(pos[:2], voxel_size=size, reduce=False), [epg.System(weights=w)], T2),
    ("weights (3,2), scalar sequence", epg.Imaging(pos[:2], voxel_size=size, reduce=False), [epg.System(weights=np.ones((3, 2)))], 20.0),
]:
    try:
        out = epg.simulate(seq(adc, t2, pre))[0]
        print(label, "-> shape", out.shape)
    except Exception as exc:
        ok = False
        print(label, "-> raised", repr(exc))
sys.exit(0 if ok else 1)
