# probe F19 (properties C02, C07): exits 1 while the defect is present, 0 when it is gone
"""Partial state matrices are not expanded to the operator's number of axes (DiffOperator applies
_apply to them without prepare()): when a later operator adds a batch axis (axes=1) to a state matrix
that did not have it yet (operators called one by one, or simulate(init=StateMatrix)), the partial is
multiplied along the wrong axis / keeps the wrong shape, or the next operator raises."""
import sys
import numpy as np
from epgpy import operators as ops, functions, statematrix
from epgpy.diff import Jacobian

alpha = np.array([30.0, 60.0, 90.0])  # axis 0
T1 = np.array([50.0, 200.0, 1000.0])  # axis 1
tau = 20.0
seq = [ops.T(alpha, 90.0, order1="alpha"), ops.E(tau, T1, 40.0, axes=1), ops.ADC]
probe = Jacobian("alpha", probe="Z0")
# exact: Z0[i, j] = 1 + (cos(alpha_i) - 1) exp(-tau / T1_j)
ref = -np.pi / 180 * np.sin(np.deg2rad(alpha))[:, None] * np.exp(-tau / T1)[None, :]
np.set_printoptions(precision=5, suppress=True)
print("exact dZ0/dalpha (3x3):\n", ref)
bad = False

# reference behaviour: simulate() allocates the full (3, 3) shape up front
jac = functions.simulate(seq, probe=probe)[0, ..., 0].real
print("simulate(seq):\n", jac)
bad |= jac.shape != ref.shape or not np.allclose(jac, ref)

# same sequence starting from a user state matrix
jac = functions.simulate(seq, probe=probe, init=statematrix.StateMatrix())[0, ..., 0].real
print("simulate(seq, init=StateMatrix()):  shape", jac.shape, "\n", jac)
bad |= jac.shape != ref.shape or not np.allclose(jac, ref)

# operators applied one by one, then one more differentiated pulse
sm = statematrix.StateMatrix()
try:
    for op in seq[:2] + [ops.T(alpha, 90.0, order1="alpha")]:
        sm = op(sm)
    print("T, E, T applied one by one: ok, partial shape", sm.order1["alpha"].shape, "state shape", sm.shape)
except Exception as exc:
    print("T, E(axes=1), T applied one by one: raised", type(exc).__name__, exc)
    bad = True
sys.exit(1 if bad else 0)
