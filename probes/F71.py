# probe F71 (properties C20): exits 1 while the defect is present, 0 when it is gone
"""Operator.copy(duration=...) bypasses the duration validation of the constructors:
a negative duration is accepted (negative acquisition times), and the boundary value duration=0 is ignored.
Ground truth: the constructor, E(.., duration=-3) -> ValueError, E(.., duration=0).duration == 0."""
import sys
import numpy as np
import epgpy as epg

bad = False
try:
    epg.E(5, 1000, 100, duration=-3)
    print("constructor E(.., duration=-3): accepted")
except ValueError as exc:
    print(f"constructor E(.., duration=-3): ValueError({exc}); E(.., duration=0).duration = {epg.E(5, 1000, 100, duration=0).duration}")

ops = {
    "E": epg.E(5, 1000, 100, duration=5),
    "T": epg.T(30, 0, duration=5),
    "S": epg.S(1, duration=5),
    "T@T": epg.T(30, 0, duration=2) @ epg.T(30, 0, duration=3),
}
for label, op in ops.items():
    for value in (-3, [1, -3]):  # negative duration (scalar, one entry of a list)
        try:
            new = op.copy(duration=value)
            times = epg.get_adc_times([epg.T(90, 90), new, epg.ADC])[0] if np.isscalar(value) else "-"
            print(f"{label}.copy(duration={value}): ACCEPTED, duration={new.duration}, ADC time={times}; expected ValueError")
            bad = True
        except ValueError as exc:
            print(f"{label}.copy(duration={value}): rejected ({exc})")
    new = op.copy(duration=0)  # boundary value: zero duration
    ok = np.all(np.asarray(new.duration) == 0)
    print(f"{label}.copy(duration=0).duration = {new.duration}, expected 0  {'ok' if ok else 'MISMATCH'}")
    bad |= not ok
sys.exit(1 if bad else 0)
