# probe F82 (properties C03): exits 1 while the defect is present, 0 when it is gone
"""An acquisition placed before the first differentiable operator: no operator depends on any variable
yet, the Hessian (and the 'magnitude' pairs) must be zeros / the signal, but the Hessian probe raises
AttributeError because the state matrix has no `order1`/`order2` attribute until a DiffOperator ran."""
import sys
import numpy as np
import epgpy as epg
from epgpy import sequence as sq

rf = epg.T(30, 90, order2="alpha")
rlx = epg.E(5, 500, 50, order2="T2")
names = ["magnitude", "alpha", "T2"]
failed = False

# reference: the same sequence without the leading acquisition
ref = epg.simulate([rf, rlx, epg.ADC], probe=epg.Hessian(names))
for label, head in {"[ADC, ...]": [epg.ADC], "[Wait(1), ADC, ...]": [epg.Wait(1), epg.ADC], "[PD(2), ADC, ...]": [epg.PD(2), epg.ADC]}.items():
    seq = head + [rf, rlx, epg.ADC]
    try:
        hes = epg.simulate(seq, probe=epg.Hessian(names))
        ok = np.allclose(hes[0], 0) and np.allclose(hes[1] * (1 if "PD" not in label else 0.5), ref[0])
        print(f"{label}: observed first Hessian {np.abs(hes[0]).max()} (expected 0), second matches: {ok}")
        failed |= not ok
    except Exception as exc:
        print(f"{label}: observed {type(exc).__name__}: {exc}")
        print(f"   expected zeros at the first ADC, then H[alpha,T2] = {ref[0, 0, 1, 2]:.6e}")
        failed = True

# same through the Sequence API
a, t2 = sq.Variable("a"), sq.Variable("t2")
seq = sq.Sequence(["ADC", sq.T(a, 90), sq.E(5, 500, t2), "ADC"])
try:
    sig, jac, hes = seq.hessian(["a", "t2"], a=30.0, t2=50.0)
    print("Sequence.hessian: observed", np.abs(hes[0, 0]).max(), "at the first ADC (expected 0)")
except Exception as exc:
    print(f"Sequence(['ADC', T, E, 'ADC']).hessian: observed {type(exc).__name__}: {exc}; expected zeros at the first ADC")
    failed = True
sys.exit(1 if failed else 0)
