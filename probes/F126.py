# probe F126 (properties C18): exits 1 while the defect is present, 0 when it is gone
"""Full-amplitude samples with a phase are rejected: `np.max(np.abs(values)) > 1` is tested without any
tolerance, and |exp(i*theta)| evaluates to 1.0000000000000002 for many theta.  A unit-amplitude
phase-modulated pulse (chirp), a full-amplitude rectangular pulse with phase 36 deg, or a pulse normalised
by its own maximum magnitude raise "pulse values must have a magnitude <= 1" (RFPulse and estimate_rf).
Ground truth: direct Bloch rotations, hard pulse by hard pulse."""
import sys
import numpy as np
import epgpy as epg
from epgpy import rfpulse


def rot(axis, ang):
    x, y, z = np.asarray(axis, float) / np.linalg.norm(axis)
    K = np.array([[0, -z, y], [z, 0, -x], [-y, x, 0]])
    return np.eye(3) + np.sin(ang) * K + (1 - np.cos(ang)) * K @ K


def bloch(values, rf):
    M = np.array([0.0, 0, 1])
    for v in values:
        p = np.angle(v)
        M = rot([np.cos(p), np.sin(p), 0], np.pi * abs(v) * rf) @ M
    return np.array([M[0] + 1j * M[1], M[2]])


t = np.linspace(-1, 1, 101)
rng = np.random.default_rng(7)
shaped = rng.normal(size=50) + 1j * rng.normal(size=50)
cases = {
    "chirp exp(i*pi*20*t^2), |v| = 1": (np.exp(1j * np.pi * 20 * t**2), dict(rf=0.013)),
    "rect, amplitude 1, phase 36 deg, alpha=90": (np.full(8, np.exp(1j * np.radians(36.0))), dict(alpha=90.0)),
    "random shape normalised by max|v|": (shaped / np.abs(shaped).max(), dict(rf=0.05)),
}
ok = True
for label, (values, kw) in cases.items():
    print(f"{label}: max|v| - 1 = {np.abs(values).max() - 1:.3g}")
    rf = kw.get("rf", kw.get("alpha", 0) / 180 / abs(values.sum()))
    ref = bloch(values, rf)
    print("   ground truth  F0, Z0 =", np.round(ref, 6))
    try:
        sm = rfpulse.RFPulse(values, 2.0, **kw)(epg.StateMatrix())
        obs = np.array([sm.states[0, 0, 0], sm.states[0, 0, 2]])
        print("   observed      F0, Z0 =", np.round(obs, 6))
        ok &= bool(np.allclose(obs, ref, atol=1e-9))
    except Exception as exc:
        print("   observed: RFPulse raises", type(exc).__name__, "-", exc)
        ok = False
print("OK" if ok else "DEFECT")
sys.exit(0 if ok else 1)
