# probe F107 (properties C12, C02): exits 1 while the defect is present, 0 when it is gone
"""modify(seq, att=...) (B1 attenuation, default modifier) rebuilds every T operator as T(alpha * att, phi)
and silently drops the differentiation declared on it (order1 / order2): in the modified sequence the
Jacobian column of the flip-angle variable is exactly 0 ("a variable no operator depends on"),
although the simulated signal does depend on it (d alpha_eff / d alpha = att).

Ground truth: central finite differences of the modified sequence's own signal, and the hand-made
attenuated sequence T(alpha * att, ..., order1={'alpha': {'alpha': att}})."""
import sys
import numpy as np
import epgpy as epg

att, T1, T2 = 0.8, 1000.0, 40.0


def seq(alpha, diff=True):
    refoc = epg.T(alpha, 0, order1="alpha" if diff else False)
    return [epg.T(90, 90), epg.S(1, duration=5), refoc, epg.S(1, duration=5), epg.ADC]


modified = epg.modify(seq(150.0), att=att, T1=T1, T2=T2)
observed = epg.simulate(modified, probe=epg.Jacobian(["alpha"]))[0, 0, 0]

h = 1e-6
fdiff = (epg.simulate(epg.modify(seq(150 + h, False), att=att, T1=T1, T2=T2)) - epg.simulate(epg.modify(seq(150 - h, False), att=att, T1=T1, T2=T2)))[0, 0] / (2 * h)

relax = epg.E(5, T1, T2)
byhand = [epg.T(90 * att, 90), epg.S(1), relax, epg.T(150 * att, 0, order1={"alpha": {"alpha": att}}), epg.S(1), relax, epg.ADC]
expected = epg.simulate(byhand, probe=epg.Jacobian(["alpha"]))[0, 0, 0]

print("dF0/dalpha, modify(seq, att=0.8)      :", observed)
print("dF0/dalpha, attenuated sequence by hand:", expected)
print("dF0/dalpha, finite differences         :", fdiff)
ok = np.isclose(observed, expected, rtol=1e-6, atol=1e-10) and np.isclose(observed, fdiff, rtol=1e-4, atol=1e-8)
print("AGREE" if ok else "DISAGREE")
sys.exit(0 if ok else 1)
