# probe F109 (properties C12): exits 1 while the defect is present, 0 when it is gone
"""E / P built with axes=1 and duration=True: the operator's time tau lives on grid axis 1, but the stored
duration is the raw tau (aligned with axis 0).  modify() then inserts the evolution of "that duration" on axis 0:
the modified sequence pairs a precession of tau[j] with a relaxation over tau[i] (i = index of the flip angle!).
Ground truth: per-index scalar simulations (precession tau[j], then relaxation over the same tau[j])."""
import sys
import numpy as np
import epgpy as epg

tau = np.array([2.0, 20.0])  # time of free precession = duration of the operator
alpha = np.array([30.0, 90.0])  # axis 0 (with another length, e.g. 3 values, modify() raises ValueError instead)
g, T2 = 0.01, 40.0

seq = [epg.T(alpha, 90), epg.P(tau, g, axes=1, duration=True), epg.ADC]
print("sequence shape:", epg.getshape(seq), " times:", epg.get_adc_times(seq))
mod = epg.modify(seq, T2=T2)
sig = epg.simulate(mod)[0]

# ground truth, entry (i, j): T(alpha[i]) - P(tau[j]) - relaxation during tau[j]
ref = np.array(
    [[epg.simulate([epg.T(a, 90), epg.P(t, g), epg.E(t, 1e10, T2), epg.ADC])[0, 0] for t in tau] for a in alpha]
)
assert np.allclose(ref, np.sin(np.deg2rad(alpha))[:, None] * np.exp((2j * np.pi * g - 1 / T2) * tau)[None, :])

np.set_printoptions(precision=5, suppress=True)
print("modified sequence shape:", epg.getshape(mod), " signal shape:", sig.shape, " expected:", ref.shape)
print("|signal| of modify():\n", np.abs(sig))
print("|signal| expected (alpha x tau):\n", np.abs(ref))
ok = sig.shape == ref.shape and np.allclose(sig, ref)
sys.exit(0 if ok else 1)
