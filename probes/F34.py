# probe F34 (properties C12): exits 1 while the defect is present, 0 when it is gone
"""Jacobian / Hessian probes placed in the sequence make simulate()/get_adc_times() raise."""
import sys
import traceback
import numpy as np
import epgpy as epg

ops = [epg.T(30, 90, order1=True, order2=True), epg.E(5, 1000, 50, order1=True)]
ok = True
for probe in [epg.Jacobian(["alpha", "T2"]), epg.Hessian(["alpha"])]:
    # ground truth: same probe passed through `probe=` (checked against finite differences below)
    ref = epg.simulate(ops + [epg.ADC], probe=probe)
    print(f"{probe!r}: expected (probe= form)", np.ravel(ref))
    try:
        times, obs = epg.simulate(ops + [probe], adc_time=True)
        print(f"{probe!r}: observed in-sequence  ", np.ravel(obs), "times", times)
        ok &= np.allclose(obs, ref) and np.allclose(times, [0])
    except Exception:
        print(f"{probe!r}: in-sequence placement raised:")
        traceback.print_exc(limit=1)
        ok = False

# finite-difference check of the reference Jacobian w.r.t. alpha
f = lambda a: epg.simulate([epg.T(a, 90), epg.E(5, 1000, 50), epg.ADC])[0][0]
fd = (f(30 + 1e-4) - f(30 - 1e-4)) / 2e-4
jac = epg.simulate(ops + [epg.ADC], probe=epg.Jacobian(["alpha"]))
print("finite difference d/dalpha:", fd, " Jacobian probe:", np.ravel(jac)[0])
assert np.isclose(fd, np.ravel(jac)[0])

print("AGREE" if ok else "DISAGREE")
sys.exit(0 if ok else 1)
