# probe F41 (properties C15): exits 1 while the defect is present, 0 when it is gone
"""2-D imaging with per-axis 2-vectors (kvalue=[kx, ky] or voxel_size=[ax, ay]) works, but
raises as soon as time accumulation (C / 4th shift coordinate) is switched on, because the
wavenumber array then has 3 columns.  Closed form: T(90, 90) gives M+ = 1; shift n (index units)
gives exp(i k.x) with k = n * kvalue; C(t) with off-resonance f gives exp(2i pi f t); box voxel
of size a multiplies by prod_i sinc(k_i a_i / 2)."""
import sys
import numpy as np
import epgpy as epg

pos = np.array([[0.3, 0.5], [1.0, -0.7]])
n, t, f = np.array([1, 2]), 2.0, 0.13
sinc = lambda x: np.sinc(x / np.pi)


def expected(kvalue, a, time):
    k = n * np.asarray(kvalue, float)
    return np.prod(sinc(k * a / 2)) * np.exp(1j * pos @ k) * (np.exp(2j * np.pi * f * t) if time else 1)


cases = []
for tag, time, top in [("no time", False, []), ("S([0,0,0,2])", True, [epg.S([0, 0, 0, 2])]), ("C(2.0)", True, [epg.C(t)])]:
    cases += [
        (f"kvalue=[2.5,1.5], {tag}", [2.5, 1.5], 0.8, time, top),
        (f"voxel_size=[0.8,0.5], {tag}", 1.0, np.array([0.8, 0.5]), time, top),
    ]
ok = True
for label, kvalue, a, time, top in cases:
    adc = epg.Imaging(pos, voxel_size=a, modulation=1j * f, reduce=False)
    seq = [epg.System(kvalue=kvalue), epg.T(90, 90), epg.S(n)] + top + [adc]
    exp = expected(kvalue, a, time)
    try:
        out = epg.simulate(seq, kgrid=0.5)[0, 0]
        good = np.allclose(out, exp)
        print(f"{label}: observed {np.round(out, 4)} expected {np.round(exp, 4)}", "OK" if good else "MISMATCH")
    except Exception as exc:
        good = False
        print(f"{label}: raised {exc!r}; expected {np.round(exp, 4)}")
    ok &= good
sys.exit(0 if ok else 1)
