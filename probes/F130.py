# probe F130 (properties C03, C19): exits 1 while the defect is present, 0 when it is gone
"""StateMatrix.copy() silently drops the partial derivatives (sm.order1 / sm.order2) the state matrix carries:
a simulation branched from a copy (same preparation, another readout) returns a Hessian (and Jacobian)
that lacks every contribution of the operators applied before the copy. No error, no warning."""
import sys
import numpy as np
import epgpy as epg

names = ["alpha", "T2"]


def ops(alpha, T2, declare):
    kw = dict(order2=True) if declare else {}  # automatic mode, the same variables in every operator
    prep = [epg.T(alpha, 90, **kw), epg.E(5, 600, T2, **kw), epg.S(1)]
    read = [epg.T(2 * 60.0, 0), epg.S(1), epg.T(alpha, 0, **kw), epg.E(5, 600, T2, **kw), epg.ADC]
    return prep, read


def signal(alpha, T2):
    prep, read = ops(alpha, T2, False)
    return epg.simulate(prep + read)[0, 0]


def fd_hessian(x, h):
    H = np.zeros((2, 2), dtype=complex)
    for i in range(2):
        for j in range(2):
            def ev(si, sj):
                y = list(x)
                y[i] += si * h[i]
                y[j] += sj * h[j]
                return signal(*y)
            H[i, j] = (ev(1, 1) - ev(1, -1) - ev(-1, 1) + ev(-1, -1)) / (4 * h[i] * h[j]) if i != j else (
                ev(1, 0) - 2 * ev(0, 0) + ev(-1, 0)) / h[i] ** 2
    return H


x0 = [60.0, 50.0]
prep, read = ops(*x0, True)
sm = epg.StateMatrix()
for op in prep:
    sm = op(sm)

branch = sm.copy()  # public API: "copy state matrix"
print("original carries partials:", sorted(getattr(sm, "order1", {})), "| copy carries partials:", sorted(getattr(branch, "order1", {})))
for op in read:
    sm, branch = op(sm), op(branch)

probe = epg.Hessian(names)
h_orig, h_copy = probe.acquire(sm)[0], probe.acquire(branch)[0]
ref = fd_hessian(x0, [0.5, 0.5])
np.set_printoptions(precision=4, linewidth=150)
print("finite differences of the signal:\n", ref.real)
print("Hessian, continued from the object:\n", h_orig.real)
print("Hessian, continued from sm.copy():\n", h_copy.real)
err_orig = np.abs(h_orig - ref).max() / np.abs(ref).max()
err_copy = np.abs(h_copy - ref).max() / np.abs(ref).max()
print(f"relative error: original {err_orig:.1e}, copy {err_copy:.1e}")
ok = err_orig < 1e-3 and err_copy < 1e-3
print("OK" if ok else "MISMATCH: the copy lost the partial derivatives")
sys.exit(0 if ok else 1)
