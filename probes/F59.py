# probe F59 (properties C09): exits 1 while the defect is present, 0 when it is gone
"""simulate(..., kvalue=..., init=<StateMatrix>) silently ignores kvalue (and tvalue)."""
import sys
import numpy as np
import epgpy as epg

kvalue, tau, Dc = 5e4, 10.0, 2e-3  # rad/m per unit shift, ms, mm^2/s
# spin echo with diffusion weighting: the only attenuation is exp(-b D), b = k^2 tau (first interval, constant k)
seq = [epg.T(90, 90), epg.S(1), epg.D(tau, Dc), epg.T(180, 0), epg.S(1), epg.D(tau, Dc), epg.ADC]

truth = np.exp(-((kvalue * 1e-3) ** 2) * (tau * 1e-3) * Dc)  # Stejskal-Tanner, k in rad/mm, tau in s

sig_arr = abs(epg.simulate(seq, kvalue=kvalue, init=[0, 0, 1]).item())
init = epg.StateMatrix([0, 0, 1])
sig_sm = abs(epg.simulate(seq, kvalue=kvalue, init=init).item())
sig_sm2 = abs(epg.simulate(seq, init=epg.StateMatrix([0, 0, 1], kvalue=kvalue)).item())

print(f"ground truth exp(-b D)                          : {truth:.6f}")
print(f"simulate(kvalue=k, init=[0, 0, 1])              : {sig_arr:.6f}")
print(f"simulate(init=StateMatrix([0,0,1], kvalue=k))   : {sig_sm2:.6f}")
print(f"simulate(kvalue=k, init=StateMatrix([0, 0, 1])) : {sig_sm:.6f}   <-- kvalue ignored")
ok = all(np.isclose(s, truth, rtol=1e-6) for s in (sig_arr, sig_sm, sig_sm2))
print("OK" if ok else "MISMATCH")
sys.exit(0 if ok else 1)
