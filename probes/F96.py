# probe F96 (properties C19, C02, C03, C09): exits 1 while the defect is present, 0 when it is gone
"""simulate(seq, init=<state matrix carrying partials>, max_nstate=n): the option reaches the main state
matrix only, the partial-derivative state matrices continue uncapped -> Jacobian differs from the one-shot
simulation (and from finite differences of the signal); a later differentiated operator raises."""
import sys
import numpy as np
from epgpy import operators as ops, functions, statematrix

def head(alpha, diff):
    kw = {"order1": "alpha"} if diff else {}
    return [ops.T(90, 90), ops.S(1), ops.E(5, 1000, 50), ops.T(alpha, 0, **kw)]

tail = [ops.S(1), ops.E(5, 1000, 50), ops.T(150, 0)] * 6 + [ops.S(1), ops.ADC]
probe = ["F0", ops.Jacobian("alpha")]

# ground truth 1: the same operators in one go; ground truth 2: finite differences of the signal
sig1, jac1 = functions.simulate(head(120.0, True) + tail, probe=probe, max_nstate=2)
f = lambda a: functions.simulate(head(a, False) + tail, max_nstate=2)
fd = (f(120.0 + 1e-4) - f(120.0 - 1e-4)) / 2e-4

# continued simulation: the head applied by hand (1 state, below the cap), the tail with simulate(init=...)
sm = statematrix.StateMatrix()
for op in head(120.0, True):
    sm = op(sm)
sig2, jac2 = functions.simulate(tail, init=sm, probe=probe, max_nstate=2)

print("signal   one-shot", sig1.ravel(), " continued", sig2.ravel())
print("dF0/dalpha one-shot", jac1.ravel(), " finite diff.", fd.ravel(), " continued", jac2.ravel())
ok = np.allclose(sig1, sig2) and np.allclose(jac1, fd, atol=1e-7) and np.allclose(jac2, jac1, atol=1e-9)

# a differentiated operator in the continuation
try:
    functions.simulate([ops.S(1), ops.S(1), ops.T(30, 0, order1="alpha"), ops.ADC], init=sm, probe=probe, max_nstate=2)
    print("continuation with a differentiated operator: ok")
except ValueError as exc:
    print("continuation with a differentiated operator raises:", exc)
    ok = False
sys.exit(0 if ok else 1)
