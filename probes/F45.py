# probe F45 (properties C16): exits 1 while the defect is present, 0 when it is gone
"""ArrayCollection.update() / StateMatrix.states setter silently accept shape-incompatible arrays
(fallback to set(check=False)) and leave the collection in an unusable state."""
import sys
import numpy as np
from epgpy.statematrix import ArrayCollection, StateMatrix

bad = 0
def attempt(label, func, should_raise):
    global bad
    try:
        out, raised = func(), False
    except Exception as exc:
        out, raised = f"{type(exc).__name__}: {exc}", True
    ok = raised == should_raise
    bad += not ok
    print(f"{label}: observed {'raise' if raised else 'no error'} ({out}), expected {'raise' if should_raise else 'no error'}  {'ok' if ok else 'MISMATCH'}")

coll = ArrayCollection()
coll.set("a", np.zeros((2, 3)))
coll.set("b", np.ones((2, 3)))
attempt("set('a', shape (4,3)) in a (2,3) collection", lambda: coll.set("a", np.zeros((4, 3))), True)
attempt("update('a', shape (4,3)) in a (2,3) collection", lambda: coll.update("a", np.zeros((4, 3))), True)
print("  collection shape now", coll.shape, "(expected (2, 3))")
attempt("get('b') afterwards", lambda: coll.get("b").shape, False)

sm = StateMatrix(density=[1, 2])  # shape (2,), 1 state
attempt("sm.states = array for 3 voxels", lambda: setattr(sm, "states", np.zeros((3, 1, 3))), True)
attempt("sm.equilibrium afterwards", lambda: sm.equilibrium.shape, False)
sm = StateMatrix(density=[1, 2])
attempt("sm.states = array with 3 states (equilibrium has 1)", lambda: setattr(sm, "states", np.zeros((2, 3, 3))), True)
print("  named axis:", sm.arrays.axes, " states:", sm.states.shape, " equilibrium:", sm.equilibrium.shape, "(sizes must agree)")
bad += sm.states.shape[-2] != sm.equilibrium.shape[-2]

sys.exit(1 if bad else 0)
