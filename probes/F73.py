# probe F73 (properties C06): exits 1 while the defect is present, 0 when it is gone
"""The virtual (Sequence) X operator does not accept `axis`: inside a Sequence the compartments can only be
placed on axis 0, which is where variables (flip angle, T2, ...) put their batch axis."""
import sys
import numpy as np
from epgpy import operators as ops, functions, sequence as sq

k, tau, T2 = 0.3, 5.0, [[20.0, 60.0]]
alphas = [30.0, 60.0, 90.0]  # values of the variable `alpha`: batch axis 0

# ground truth with the plain operators: compartments on axis 1
ref = functions.simulate([ops.T(alphas, 90), ops.X(tau, k, T2=T2, axis=1), ops.ADC])
ref = np.moveaxis(ref, 0, -1)  # Sequence.signal puts the ADC axis last
print("ground truth signal, shape", ref.shape, "\n", np.round(ref[..., 0].real, 4))
try:
    seq = sq.Sequence([sq.T("alpha", 90), sq.X("tau", k, T2=T2, axis=1), sq.ADC])
    obs = seq.signal(alpha=alphas, tau=tau)
    print("observed signal, shape", obs.shape, "\n", np.round(obs[..., 0].real, 4))
    ok = obs.shape == ref.shape and np.allclose(obs, ref)
except Exception as exc:
    print("observed: sequence.X('tau', k, T2=..., axis=1) raised %s: %s" % (type(exc).__name__, exc))
    ok = False
sys.exit(0 if ok else 1)
