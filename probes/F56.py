# probe F56 (properties C08): exits 1 while the defect is present, 0 when it is gone
"""Batched real-valued shift (shift-prune): coordinates of merged states are not antisymmetric
-> after T and D the state matrix itself is ill-formed (Z(-k) != conj(Z(k)))."""
import sys
import numpy as np
import epgpy as epg

np.set_printoptions(precision=4, suppress=True, linewidth=150)
T, S, D = epg.T, epg.S, epg.D
opts = dict(kgrid=0.5e5, kvalue=1e5)  # grid = half a unit shift
k = np.array([[0.3], [0.3]])  # the same shift for two batch entries -> method 'shift-prune'

sm = epg.StateMatrix(shape=(2,), **opts)
for op in [T(40, 0), S(1), T(40, 0), S(k)]:
    sm = op(sm)
co = sm.coords[..., 0]
print("coords after batched S(0.3)   :", co[0])

# ground truth 1: the definition (antisymmetric about the centre, centre 0);
# for reference, the un-batched version of the same shift
ref = epg.StateMatrix(**opts)
for op in [T(40, 0), S(1), T(40, 0), S(k[:1])]:
    ref = op(ref)
print("coords after un-batched S(0.3):", ref.coords[0, :, 0], "(antisymmetric)")
bad_coords = not np.allclose(co, -co[..., ::-1])
print("coords antisymmetric:", not bad_coords, "  expected: True")

# consequence: diffusion weights Z(k) and Z(-k) differently -> Z(-k) != conj(Z(k))
sm = D(20, 3e-3)(T(40, 0)(sm))
Z = sm.states[0, :, 2]
print("Z(k)       :", Z.real)
print("conj Z(-k) :", Z[::-1].conj().real, " expected: equal to the line above")
bad_Z = not np.allclose(Z, Z[::-1].conj())
try:  # the package's own check of a state matrix
    epg.StateMatrix(sm.states)
    rejected = False
except ValueError as exc:
    rejected = True
    print("StateMatrix(sm.states) ->", exc)

sys.exit(1 if (bad_coords or bad_Z or rejected) else 0)
