# probe F114 (properties C11): exits 1 while the defect is present, 0 when it is gone
"""repeat() does not substitute inside nested operator lists (e.g. the output of an inner repeat(), or a
sub-block written as a list), although Sequence accepts nested lists everywhere: the mapping is silently
skipped for those operators, so substitution by repeat() does not commute with evaluation."""
import sys
import numpy as np
from epgpy import sequence as sq

ops = sq.operators
a, tau = sq.Variable("a"), sq.Variable("tau")
exc, rfc, rlx, spl = ops.T(a, 90), ops.T(2 * a, 0), ops.E(tau, 1000, 80), ops.S(1)
echo = [spl, rfc, spl, rlx, "ADC"]

# same block, written flat and with the echo part as a nested list (multi-echo with 2 echoes, 2 TRs)
flat = sq.Sequence(sq.repeat([exc, rlx] + echo + echo, 2, a="a_{}", tau=[4.0, 6.0]))
nested = sq.Sequence(sq.repeat([exc, rlx, sq.repeat(echo, 2)], 2, a="a_{}", tau=[4.0, 6.0]))

values = {"a_1": 80.0, "a_2": 70.0}
truth = flat.signal(**values)
print("flat   variables:", sorted(map(str, flat.variables)))
print("nested variables:", sorted(map(str, nested.variables)))
print("nested operators:", nested.operators[:7])
print("flat   signal:", np.round(truth.ravel(), 6))
try:
    sig = nested.signal(**values)
    print("nested signal:", np.round(sig.ravel(), 6))
    ok = sig.shape == truth.shape and np.allclose(sig, truth)
except Exception as err:
    print("nested signal:", type(err).__name__, err)
    ok = False
# even when the un-substituted variables are supplied, the values differ (2*a instead of 2*a_n, tau not 4/6)
sig2 = nested.signal(**values, a=10.0, tau=1.0)
print("nested signal with a=10, tau=1 also given:", np.round(sig2.ravel(), 6))
ok = ok and np.allclose(sig2, truth)
print("OK" if ok else "MISMATCH")
sys.exit(0 if ok else 1)
