# probe F22 (properties C04, C15): exits 1 while the defect is present, 0 when it is gone
"""DFT / Imaging probes at positions with MORE components than the sequence's shift dimension:
after 1-D shifts (S(1), wavenumber along x only) a 3-D position (x, y, z) is evaluated with the phase
k*(x+y+z) instead of k*x (silently wrong); after 2-D shifts the same call raises ValueError.
Ground truth: Bloch isochromat at that position."""
import sys
import numpy as np
import epgpy as epg

pos = np.array([[0.3, 0.5, -0.2], [0.1, -0.4, 0.7]])  # two 3-D positions


def rot(alpha, phi):
    a, p = np.deg2rad(alpha), np.deg2rad(phi)
    rx = np.array([[1, 0, 0], [0, np.cos(a), -np.sin(a)], [0, np.sin(a), np.cos(a)]])
    rz = lambda q: np.array([[np.cos(q), -np.sin(q), 0], [np.sin(q), np.cos(q), 0], [0, 0, 1]])
    return rz(p) @ rx @ rz(-p)


def bloch(rf, ks, r):
    m = np.array([0.0, 0.0, 1.0])
    for (alpha, phi), k in zip(rf, ks):
        m = rot(alpha, phi) @ m
        k = np.r_[np.atleast_1d(k), 0, 0][:3]  # missing gradient components are zero
        ang = float(np.dot(k, r))
        m = np.array([[np.cos(ang), -np.sin(ang), 0], [np.sin(ang), np.cos(ang), 0], [0, 0, 1]]) @ m
    return m[0] + 1j * m[1]


rf = [(40, 20), (120, -30), (70, 10)]
ok = True
for name, ks in [("1-D shifts S(1)", [1, 1, 2]), ("2-D shifts S([1,2])", [[1, 2], [1, -1], [0, 1]])]:
    seq = [op for (a, p), k in zip(rf, ks) for op in (epg.T(a, p), epg.S(k))]
    ref = np.array([bloch(rf, ks, r) for r in pos])
    for probe in (epg.DFT(pos), epg.Imaging(pos, voxel_shape="point", reduce=False)):
        try:
            out = np.ravel(epg.simulate(seq + [probe]))
        except Exception as exc:
            out = f"{type(exc).__name__}: {str(exc)[:60]}"
        good = not isinstance(out, str) and np.allclose(out, ref)
        print(f"{name:20s} {probe!r:8s} observed={out}\n{'':30s}expected={ref}  {'ok' if good else 'WRONG'}")
        ok &= good
sys.exit(0 if ok else 1)
