# probe F70 (properties C20): exits 1 while the defect is present, 0 when it is gone
"""Negative times are rejected by G, C, Wait and `duration=` ("Cannot have negative time" / "duration < 0"),
but E, P, X and D simulate them: relaxation / diffusion turn into amplification (|F| > 1).
Ground truth: the property (an exception, as for G(-1, g), C(-1), E(-1, .., duration=True)); tau = 0 is accepted."""
import sys
import numpy as np
import epgpy as epg

sm = epg.S(1)(epg.T(90, 90)(epg.StateMatrix(kvalue=1e4)))  # |F+1| = 1
cases = {
    "G(-1, 10)              ": lambda: epg.G(-1, 10),
    "C(-1)                  ": lambda: epg.C(-1),
    "E(-10,..,duration=True)": lambda: epg.E(-10, 1000, 10, duration=True),
    "E(-10, 1000, 10)       ": lambda: epg.E(-10, 1000, 10)(sm),
    "E([5,-10], 1000, 10)   ": lambda: epg.E([5, -10], 1000, 10)(sm),
    "P(-10, 0.1)            ": lambda: epg.P(-10, 0.1)(sm),
    "D(-10, 1.0)            ": lambda: epg.D(-10, 1.0)(sm),
    "X(-10, 0.05, T2=[10,5])": lambda: epg.X(-10, 0.05, T2=[10, 5])(sm),
}
bad = False
for label, func in cases.items():
    try:
        out = func()
    except Exception as exc:
        print(f"{label}: rejected, {type(exc).__name__}: {exc}")
        continue
    if isinstance(out, epg.StateMatrix):
        print(f"{label}: ACCEPTED and simulated, max|F| = {np.abs(out.F).max():.4f} (expected: exception)")
        bad = True
    else:
        print(f"{label}: ACCEPTED (expected: exception)")
        bad = True
# adjacent boundary value: tau = 0 must be accepted and be the identity
for op in (epg.E(0, 1000, 10), epg.P(0, 0.1), epg.D(0, 1.0), epg.X(0, 0.05, T2=[10, 5])):
    ok = np.allclose(np.abs(op(sm).F).max(), 1)
    print(f"{op.name}: tau=0 accepted, identity: {ok}")
    bad |= not ok
sys.exit(1 if bad else 0)
