# probe F68 (properties C20, C11): exits 1 while the defect is present, 0 when it is gone
"""Sequence.jacobian / hessian w.r.t. a variable that drives an operator which cannot be differentiated
(D, X, S, Adc(phase=...)): the request is not rejected, the operator's contribution is silently dropped.
Ground truth: central finite differences of Sequence.signal."""
import sys, warnings
import numpy as np
from epgpy import sequence as sq

warnings.simplefilter("ignore")
ops = sq.operators
opt = {"kvalue": 3e3}
block = lambda: [ops.S(1), ops.D("tau", 2.0, 1), ops.E("tau", 1000, 50)]
seqs = {
    "tau in E and D": sq.Sequence([ops.T(90, 90), *block(), ops.T(180, 0), *block(), "ADC"], options=opt),
    "tau in D only ": sq.Sequence(
        [ops.T(90, 90), ops.S(1), ops.D("tau", 2.0, 1), ops.T(180, 0), ops.S(1), ops.D("tau", 2.0, 1), "ADC"],
        options=opt,
    ),
    "tau in X only ": sq.Sequence([ops.T(30, 90), ops.X("tau", 0.05, T1=[1000, 300], T2=[80, 20]), "ADC"]),
}
tau, h, bad = 10.0, 1e-4, False
for label, seq in seqs.items():
    fd = (seq.signal(tau=tau + h) - seq.signal(tau=tau - h)) / (2 * h)
    try:
        _, jac = seq.jacobian(["tau"], tau=tau)
    except ValueError as exc:
        print(f"{label}: rejected ({exc}) -> fine")
        continue
    jac = jac[..., 0]
    ok = np.allclose(jac, fd, rtol=1e-4, atol=1e-9)
    print(f"{label}: jacobian d/dtau = {np.ravel(jac).real}, finite differences = {np.ravel(fd).real}  {'ok' if ok else 'MISMATCH'}")
    bad |= not ok
sys.exit(1 if bad else 0)
