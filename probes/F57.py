# probe F57 (properties C08): exits 1 while the defect is present, 0 when it is gone
"""C(tau) with a list (or tuple) of times raises in the constructor: common.map_arrays(tau) takes the list for a
collection of parameters and returns it unconverted (every other operator accepts lists)."""
import sys
import numpy as np
import epgpy as epg

T, C = epg.T, epg.C
taus = [1.0, 2.0]


def run(op):
    sm = op(T(30, 0)(epg.StateMatrix(kgrid=0.5)))
    return sm.shape, np.asarray(sm.t)  # accumulated time of every state


exp = run(C(np.array(taus)))  # ground truth: the same times as an array
try:
    obs = run(C(taus))
except Exception as exc:
    obs = f"{type(exc).__name__}: {exc}"
print("C([1.0, 2.0])           ->", obs)
print("C(np.array([1.0, 2.0])) ->", exp)
ok = not isinstance(obs, str) and obs[0] == exp[0] and np.allclose(obs[1], exp[1])
sys.exit(0 if ok else 1)
