# probe F16 (properties C02, C13): exits 1 while the defect is present, 0 when it is gone
"""Array-valued shifts (S/G with a k vector) prune the partial state matrices independently of
the main state matrix: later accumulation adds misaligned states (silently) or raises."""
import sys
import numpy as np
from epgpy import operators as ops, functions
from epgpy.diff import Jacobian


def seq(alpha, k1, k2, diff=True):
    o = {"order1": "alpha"} if diff else {}
    # imperfect inversion, spoiler, excitation with the same (miscalibrated) angle, rewinder
    return [ops.T(alpha, 0.0, **o), ops.S(k1), ops.T(alpha, 90.0, **o), ops.S(k2), ops.ADC]


alpha, h = 180.0, 1e-5
bad = False
# (a) silently wrong value: vector shift versus finite differences and versus the scalar-shift path
jac_nd = functions.simulate(seq(alpha, [0, 0, 1], [0, 0, -1]), probe=Jacobian("alpha"))[0, 0, 0]
jac_1d = functions.simulate(seq(alpha, 1, -1), probe=Jacobian("alpha"))[0, 0, 0]
fd = (functions.simulate(seq(alpha + h, [0, 0, 1], [0, 0, -1], False))
      - functions.simulate(seq(alpha - h, [0, 0, 1], [0, 0, -1], False)))[0, 0] / (2 * h)
print("dF0/dalpha  S([0,0,1]):", jac_nd, "  S(1):", jac_1d, "  finite diff:", fd)
bad |= not np.isclose(jac_nd, fd, rtol=1e-4, atol=1e-8)

# (b) exception: T1 column of a plain gradient-echo train with a vector shift
def gre(T1, k, diff=True):
    o = {"order1": "T1"} if diff else {}
    return [ops.T(30.0, 0.0), ops.E(5.0, T1, 40.0, **o), ops.S(k)] * 3 + [ops.ADC]

fd = (functions.simulate(gre(300 + 1e-3, [1, 0, 0], False)) - functions.simulate(gre(300 - 1e-3, [1, 0, 0], False)))[0, 0] / 2e-3
try:
    jac = functions.simulate(gre(300.0, [1, 0, 0]), probe=Jacobian("T1", probe="F0"))[0, 0, 0]
    print("dF0/dT1 S([1,0,0]):", jac, " finite diff:", fd)
    bad |= not np.isclose(jac, fd, rtol=1e-4, atol=1e-10)
except Exception as exc:
    print("dF0/dT1 S([1,0,0]): raised", type(exc).__name__, exc, " expected (finite diff):", fd,
          " S(1):", functions.simulate(gre(300.0, 1), probe=Jacobian("T1"))[0, 0, 0])
    bad = True
sys.exit(1 if bad else 0)
