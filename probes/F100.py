# probe F100 (properties C15): exits 1 while the defect is present, 0 when it is gone
"""Imaging(voxel_shape='box', voxel_size=[dx,dy,dz]) on a state matrix with ONE gradient axis:
the (nstate,1) wavenumbers are broadcast against the 3 sizes, the form factor becomes
sinc(k dx/2) sinc(k dy/2) sinc(k dz/2) instead of sinc(k dx/2).
Ground truth: Bloch isochromats uniformly filling the box (only x matters: the gradient is along x)."""
import sys
import numpy as np
import epgpy as epg
from numpy.polynomial.legendre import leggauss

pos = np.array([[0.37, 0.10, -0.20]])  # one voxel, 3-D position
size = [0.8, 0.5, 1.3]  # 3-D box
rf1, rlx, rf2, rf3 = epg.T(30, 20), epg.E(5, 100, 20), epg.T(60, 70), epg.T(40, 10)

def signal(voxel_size, extra=()):
    adc = epg.Imaging(pos, voxel_shape="box", voxel_size=voxel_size, reduce=False)
    seq = [rf1, epg.S(1), *extra, rlx, rf2, epg.S(1), adc, rf3, epg.S(-1), adc]
    return epg.simulate(seq)[:, 0, 0]

obs = signal(size)

# Bloch: isochromats at Gauss-Legendre nodes across the box (y, z: no gradient, nothing to average)
u, w = leggauss(40)
x = pos[0, 0] + 0.5 * size[0] * u
P = lambda k: epg.P(1, k * x / 2 / np.pi)  # precession by the angle k.x
iso = epg.simulate([rf1, P(1), rlx, rf2, P(1), epg.ADC, rf3, P(-1), epg.ADC])
exp = (iso * w / 2).sum(axis=-1)

print("Imaging, voxel_size=[dx,dy,dz], 1 gradient axis :", obs)
print("Bloch isochromats filling the box               :", exp)
print("Imaging, voxel_size=dx (scalar)                 :", signal(size[0]))
print("Imaging, same 3-vector once C() is in the seq.  :", signal(size, extra=[epg.C(1)]))
ok = np.allclose(obs, exp, atol=1e-8)
print("AGREE" if ok else "DISAGREE")
sys.exit(0 if ok else 1)
