# probe F47 (properties C16): exits 1 while the defect is present, 0 when it is gone
"""StateMatrix.zeros passes nstate/shape/check to copy(), which stores unknown keywords as options:
the options of the zero matrix differ from the original and stack()/unstack() raise TypeError."""
import sys
import numpy as np
from epgpy.statematrix import StateMatrix

bad = 0
sm = StateMatrix(density=[1, 2, 3], kgrid=2)
zeros = sm.zeros
print(f"options: observed {zeros.options}, expected {sm.options}")
bad += zeros.options != sm.options

for label, func in [
    ("zeros.unstack()", lambda: [p.shape for p in zeros.unstack()]),
    ("zeros.stack([zeros])", lambda: zeros.stack([zeros]).shape),
]:
    expected = {"zeros.unstack()": [(1,)] * 3, "zeros.stack([zeros])": (2, 3)}[label]
    try:
        observed = func()
    except Exception as exc:
        observed = f"{type(exc).__name__}: {exc}"
    print(f"{label}: observed {observed}, expected {expected}")
    bad += observed != expected

sys.exit(1 if bad else 0)
