# probe F21 (properties C04): exits 1 while the defect is present, 0 when it is gone
"""shift-prune (batched float shifts) snaps the stored wavenumbers onto kgrid and keeps shifting
the snapped values: echoes are lost and position-resolved signals are wrong, although kgrid (0.25)
is finer than the smallest wavenumber gap (0.3). Ground truth: per-entry scalar runs (shift-merge
back-end, same kgrid) and a direct Bloch simulation."""
import sys
import numpy as np
import epgpy as epg

kgrid = 0.25
ks = np.array([[[0.3], [0.6]], [[0.6], [0.3]], [[-0.9], [-0.9]]])  # 3 shifts x 2 entries x 1-D
x = 2.0  # position (m)


def bloch(shifts, x):
    m = -1j  # after T(90, 0) on Mz=1: M+ = -i
    return m * np.exp(1j * np.sum(shifts) * x)


# batched run: F0 after the 3 shifts (net shift = 0: full echo), DFT at x after the first shift
seq = [epg.T(90, 0), epg.S(ks[0]), epg.DFT([x]), epg.S(ks[1]), epg.S(ks[2]), epg.ADC]
dft_b, f0_b = epg.simulate(seq, kgrid=kgrid, asarray=False)
dft_b, f0_b = np.ravel(dft_b), np.ravel(f0_b)

ok = True
for i in range(2):
    seq_i = [epg.T(90, 0), epg.S(ks[0, i]), epg.DFT([x]), epg.S(ks[1, i]), epg.S(ks[2, i]), epg.ADC]
    dft_s, f0_s = epg.simulate(seq_i, kgrid=kgrid, asarray=False)  # scalar: shift-merge
    dft_s, f0_s = np.ravel(dft_s)[0], np.ravel(f0_s)[0]
    ref_dft, ref_f0 = bloch(ks[:1, i], x), bloch(ks[:, i], x)
    print(f"entry {i}: F0  batched={f0_b[i]:.4f}  scalar={f0_s:.4f}  bloch={ref_f0:.4f}")
    print(f"entry {i}: DFT batched={dft_b[i]:.4f}  scalar={dft_s:.4f}  bloch={ref_dft:.4f}")
    ok &= np.allclose([f0_b[i], dft_b[i]], [ref_f0, ref_dft], atol=1e-6)
    ok &= np.allclose([f0_s, dft_s], [ref_f0, ref_dft], atol=1e-6)

print("OK" if ok else "MISMATCH")
sys.exit(0 if ok else 1)
