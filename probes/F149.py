# probe F149 (properties C11): exits 1 while the defect is present, 0 when it is gone
"""2317eef: `Expression.__array_ufunc__ = None` also turns every numpy ufunc CALL on an expression into
a TypeError. Before the commit numpy's object loops deferred to the Expression operators
(__abs__, __neg__, __mul__, __pow__, ...), so np.abs(var), np.negative(var), np.square(var),
np.power(var, 2), np.multiply(90, var), np.add(var, 1) built valid expressions (scalar operands)."""
import sys
import numpy as np
from epgpy.sequence import Sequence, Variable, operators

b1 = Variable("b1")
cases = {
    "np.abs(b1)": (lambda: np.abs(b1), 0.9),
    "np.negative(b1)": (lambda: np.negative(b1), 0.9),
    "np.square(b1)": (lambda: np.square(b1), 0.81),
    "np.power(b1, 2)": (lambda: np.power(b1, 2), 0.81),
    "np.multiply(90, b1)": (lambda: np.multiply(90, b1), -81.0),
    "np.add(b1, 1)": (lambda: np.add(b1, 1), 0.1),
}
failed = False
for name, (build, expected) in cases.items():
    try:
        observed = build()(b1=-0.9)
        bad = not np.isclose(observed, expected)
    except Exception as exc:
        observed, bad = f"raised {type(exc).__name__}: {exc}", True
    print(f"{name} at b1=-0.9: observed {observed}; expected {expected}")
    failed |= bad

# in a sequence: flip angle 90 * |b1|, same signal as the builtin abs()
try:
    observed = Sequence([operators.T(90 * np.abs(b1), 90), "ADC"])(b1=-0.5)
except Exception as exc:
    observed, failed = f"raised {type(exc).__name__}", True
expected = Sequence([operators.T(90 * abs(b1), 90), "ADC"])(b1=-0.5)
print(f"T(90 * np.abs(b1), 90): observed {observed}; expected {expected}")

# the repaired form itself must keep working
left = (np.array([30.0, 60.0]) * b1)(b1=0.5)
print("array * b1:", left, "expected [15. 30.]")
failed |= not np.allclose(left, [15.0, 30.0])
sys.exit(1 if failed else 0)
