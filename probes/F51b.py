# probe F51 (properties C05, C08, C14, C09): exits 1 while the defect is present, 0 when it is gone
"""D writes its result into `sm.states[...]` in place: it raises whenever the state matrix has to grow at D
(batched tau / tensor / k) or when the stored states are a broadcast view (batch carried by the coordinates
after a batched shift, or by the equilibrium after PD(..., reset=False))."""
import sys
import numpy as np
import epgpy as epg

T, S, D, PD = epg.T, epg.S, epg.D, epg.PD
opts = dict(kvalue=1e5)
bad = False


def attempt(label, make, expected):
    global bad
    try:
        sm = make()
        obs = fmax(sm)
    except Exception as exc:  # noqa
        obs = f"{type(exc).__name__}: {str(exc)[:75]}"
    ok = not isinstance(obs, str) and np.allclose(obs, expected)
    bad |= not ok
    print(f"{label}\n   observed: {obs}\n   expected: {np.asarray(expected)}")


def fmax(sm):
    return np.abs(sm.states[..., 0]).max(axis=-1).ravel()  # the only populated F+ state of every entry


def prep():
    return S(1)(T(90, 90)(epg.StateMatrix(**opts)))


# 1. batched diffusion time on an un-batched state matrix (T, E, ... grow the state matrix in the same situation)
taus = [10.0, 20.0]
exp = [fmax(D(t, 3e-3)(prep()))[0] for t in taus]
attempt("D([10,20], 3e-3)(S(1)(T(90,90)(sm)))", lambda: D(taus, 3e-3)(prep()), exp)

# 2. batch carried by the coordinates only (batched integer shift), scalar D
ks = np.array([[1, 0, 0], [2, 0, 0]])
exp = [fmax(D(10, 3e-3)(S(k[None])(T(90, 90)(epg.StateMatrix(**opts)))))[0] for k in ks]
attempt("D(10, 3e-3)(S([[1,0,0],[2,0,0]])(T(90,90)(sm)))",
        lambda: D(10, 3e-3)(S(ks)(T(90, 90)(epg.StateMatrix(**opts)))), exp)

# 3. batch carried by the equilibrium only
exp = [fmax(D(10, 3e-3)(PD(p, reset=False)(prep())))[0] for p in (1.0, 2.0)]
attempt("D(10, 3e-3)(PD([1,2], reset=False)(S(1)(T(90,90)(sm))))",
        lambda: D(10, 3e-3)(PD([1.0, 2.0], reset=False)(prep())), exp)

sys.exit(1 if bad else 0)
