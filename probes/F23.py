# probe F23 (properties C04, C13): exits 1 while the defect is present, 0 when it is gone
"""per-axis kgrid (documented: "grid: gridsize (scalar or kdim)") cannot be used in a sequence whose
number of k-dimensions grows (here 3-D gradients followed by the time axis of C): the list is
multiplied by ones(current kdim) and raises; an ndarray kgrid always raises (truth value).
The scalar kgrid=0.05 (same grid on every axis) works and agrees with Bloch: that is the ground truth."""
import sys
import numpy as np
import epgpy as epg

x, f = np.array([[0.3, -0.2, 0.5]]), 0.04  # position (m), off-resonance (kHz)
seq = [epg.System(modulation=1j * f), epg.T(60, 10), epg.S([0.3, 0.2, 0.1]), epg.C(0.5), epg.T(100, 40)]
seq += [epg.S([0.6, -0.2, 0.1]), epg.C(1.5), epg.Imaging(x, voxel_shape="point", reduce=False)]


def rot(alpha, phi):
    a, p = np.deg2rad(alpha), np.deg2rad(phi)
    rx = np.array([[1, 0, 0], [0, np.cos(a), -np.sin(a)], [0, np.sin(a), np.cos(a)]])
    rz = lambda q: np.array([[np.cos(q), -np.sin(q), 0], [np.sin(q), np.cos(q), 0], [0, 0, 1]])
    return rz(p) @ rx @ rz(-p)


m = np.array([0.0, 0.0, 1.0])
for (alpha, phi), k, tau in [((60, 10), [0.3, 0.2, 0.1], 0.5), ((100, 40), [0.6, -0.2, 0.1], 1.5)]:
    m = rot(alpha, phi) @ m
    ang = np.dot(k, x[0]) + 2 * np.pi * f * tau
    m = np.array([[np.cos(ang), -np.sin(ang), 0], [np.sin(ang), np.cos(ang), 0], [0, 0, 1]]) @ m
ref = m[0] + 1j * m[1]

ok = True
grids = {"scalar 0.05": 0.05, "list [.05]*3": [0.05] * 3, "list [.05]*3+[.1]": [0.05] * 3 + [0.1],
         "ndarray [.05]*3": np.array([0.05] * 3)}
for name, kgrid in grids.items():
    try:
        out = complex(np.ravel(epg.simulate(seq, kgrid=kgrid))[0])
        good = np.isclose(out, ref)
    except Exception as exc:
        out, good = f"{type(exc).__name__}: {str(exc)[:70]}", False
    print(f"kgrid={name:18s} observed={out}  expected={ref:.6f}  {'ok' if good else 'FAIL'}")
    ok &= bool(good)
sys.exit(0 if ok else 1)
