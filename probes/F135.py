# probe F135 (properties C07, C11): exits 1 while the defect is present, 0 when it is gone
"""C07 defect 3: the virtual (Sequence) operators T, Phi, E, P, R reject `axes=`, although their signature
(copied from the concrete operators) advertises it: inside a Sequence a parameter cannot be placed on
a requested grid axis. Ground truth: the concrete operators with the same arguments, and the scalar simulations.
"""
import sys
import inspect
import numpy as np
import epgpy as epg
from epgpy import sequence

alpha = np.array([30.0, 60.0])  # variable, grid axis 0
T2 = np.array([40.0, 60.0, 80.0])  # constant array, wanted on grid axis 1

# ground truth: concrete operators
concrete = [epg.T(alpha, 90), epg.E(5, 1000, T2, axes=1), epg.S(1), epg.T(alpha, 0), epg.E(5, 1000, T2, axes=1), epg.S(1), epg.ADC]
truth = epg.simulate(concrete)[0]  # (2, 3)
scalar = np.array(
    [[epg.simulate([epg.T(a, 90), epg.E(5, 1000, t), epg.S(1), epg.T(a, 0), epg.E(5, 1000, t), epg.S(1), epg.ADC])[0, 0] for t in T2] for a in alpha]
)
assert np.allclose(truth, scalar)
print("concrete operators, axes=1: shape", truth.shape, "= scalar simulations")

vo = sequence.operators
print("signature of the virtual E:", inspect.signature(vo.E.__init__))
ok = True
for name, args in [("T", ("a", 90)), ("Phi", ("a",)), ("E", (5, 1000, T2)), ("P", (5, "a")), ("R", ("a", 0))]:
    try:
        getattr(vo, name)(*args, axes=1)
    except Exception as exc:
        print(f"sequence.operators.{name}(..., axes=1) raises {exc!r}"[:110])
        ok = False
if ok:
    rlx = vo.E(5, 1000, T2, axes=1)
    seq = sequence.Sequence([vo.T("a", 90), rlx, vo.S(1), vo.T("a", 0), rlx, vo.S(1), "ADC"])
    sig = seq.signal(a=alpha)[..., 0]
    print("Sequence signal shape", sig.shape)
    ok = sig.shape == truth.shape and np.allclose(sig, truth)
print("observed == ground truth:", ok)
sys.exit(0 if ok else 1)
