# probe F148 (properties C12, C02): exits 1 while the defect is present, 0 when it is gone
"""deaca3c: modify(att=...) scales an ARRAY coefficient of `alpha` with numpy (trailing-axis) broadcasting,
whereas att is aligned with alpha from the first axis: ValueError (sizes differ) or wrong Jacobian (sizes equal).
alpha = alpha0 + c * x per entry is what Sequence.build declares for T(b1 * [30, 60], ...)."""
import sys
import numpy as np
from epgpy import functions, operators as ops

alpha0, c = np.array([30.0, 60.0]), np.array([2.0, 3.0])


def sequence(x, declare):
    kw = {"order1": {"x": {"alpha": c}}} if declare else {}
    rf = ops.T(alpha0 + c * x, 10.0, **kw)
    return [rf, ops.E(5, 100, 30), rf, ops.ADC]


def jacobian(att):  # d signal / dx of the modified sequence: (n_alpha, n_att)
    seq = functions.modify(sequence(0.0, True), att=att)
    return functions.simulate(seq, probe=ops.Jacobian(["x"]))[0, ..., 0]


def reference(att, h=1e-4):  # finite differences on the signal, no declaration involved
    sig = lambda x: functions.simulate(functions.modify(sequence(x, False), att=att))[0]
    return (sig(h) - sig(-h)) / (2 * h)


def attempt(label, call, expected):
    try:
        print(f"{label}: observed {call()}; expected {expected}")
        return False
    except Exception as exc:
        print(f"{label}: raised {type(exc).__name__}: {exc}; expected {expected}")
        return True


failed = False
for att in ([0.8, 0.9], [0.8, 0.9, 1.1]):
    errors = []
    failed |= attempt(f"att={att} Jacobian error", lambda: errors.append(np.abs(jacobian(att) - reference(att)).max()) or errors[0], "< 1e-8")
    failed |= not (errors and errors[0] < 1e-8)

# same line: a scalar declaration becomes an array coefficient after a first modify(att=array)
rf = ops.T(35.0, 20.0, order1=["alpha"])
twice = lambda: functions.simulate(functions.modify(functions.modify([rf, ops.ADC], att=[0.7, 0.9]), att=[1.1, 1.2, 1.3])).shape
failed |= attempt("modify twice, signal shape", twice, (1, 2, 3))
# same line: a coefficient given as a list (accepted by T itself) with a scalar att
rf = ops.T([30.0, 60.0], 10.0, order1={"x": {"alpha": [2.0, 3.0]}})
failed |= attempt("list coefficient, att=0.8", lambda: functions.modify([rf, ops.ADC], att=0.8) and "ok", "ok")
sys.exit(1 if failed else 0)
