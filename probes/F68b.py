# probe F68 (properties C20, C11): exits 1 while the defect is present, 0 when it is gone
"""Sequence.jacobian accepts variables that parameterise non-differentiable virtual operators (D, PD, Adc phase, X, ...)
and silently returns 0 for them: VirtualOperator.build only forms derivatives for DiffOperator subclasses,
Sequence.build validates the requested names against ALL sequence variables.
(No partial derivative exists before these operators here, so this is not the propagation issue of plain operators.)"""
import sys
import numpy as np
from epgpy.sequence import Sequence, operators as ops

np.set_printoptions(precision=6, suppress=True)
ok = True

def check(label, seq, var, vals, h=1e-6):
    global ok
    try:
        _, jac = seq.jacobian([var], **vals)
    except ValueError as exc:  # a clear rejection is as good as the right value
        print(f"{label}: rejected ({exc})")
        return
    p, m = dict(vals), dict(vals)
    p[var] += h; m[var] -= h
    fd = (seq.signal(**p) - seq.signal(**m)) / (2 * h)
    good = np.allclose(jac[..., 0], fd, rtol=1e-4, atol=1e-9)
    print(f"{label}: jacobian d/d{var} = {jac[..., 0].ravel()}, finite difference of signal() = {fd.ravel()}",
          "" if good else "  <-- WRONG")
    ok &= good

# diffusion coefficient of a spin echo with diffusion weighting
se = [ops.T(90, 90), ops.S(1), ops.D(10, "D", 100.0), ops.E(10, 1000, 50),
      ops.T(180, 0), ops.S(1), ops.D(10, "D", 100.0), ops.E(10, 1000, 50), "ADC"]
check("D(tau, 'D', k)", Sequence(se), "D", dict(D=2.0))
# proton density
check("PD('pd')      ", Sequence([ops.PD("pd"), ops.T(90, 90), ops.E(5, 1000, 50), "ADC"]), "pd", dict(pd=2.0))
# receiver phase
check("Adc(phase='p')", Sequence([ops.T(90, 90), ops.E(5, 1000, 50), ops.Adc(phase="p")]), "p", dict(p=20.0))
# the same variable in a differentiable operator is handled (control)
check("E(5,1000,'T2')", Sequence([ops.T(90, 90), ops.E(5, 1000, "T2"), "ADC"]), "T2", dict(T2=50.0))

print("AGREE" if ok else "DISAGREE")
sys.exit(0 if ok else 1)
