# probe F65 (properties C18): exits 1 while the defect is present, 0 when it is gone
"""RFPulse(..., phi=array): the phase offset test `if offset:` raises for arrays (lists fail on `-offset`),
although a phase offset is just Phi(-phi) ... Phi(phi) and Phi accepts arrays."""
import sys
import numpy as np
import epgpy as epg
from epgpy import rfpulse

values = np.array([0.3, 0.8j, -0.6, 0.4 + 0.4j, 0.2])
phis = np.array([30.0, 60.0, 90.0])
# ground truth: offset == multiplying all samples by exp(i*offset), one scalar pulse per entry
ref = np.array([
    rfpulse.RFPulse(values * np.exp(1j * np.radians(p)), 2.0, rf=0.5, T2=10, g=0.1)(epg.StateMatrix()).states[0, 0]
    for p in phis
])
print("ground truth:\n", np.round(ref, 4))
ok = True
for label, phi in [("array", phis), ("list", list(phis))]:
    try:
        obs = rfpulse.RFPulse(values, 2.0, rf=0.5, phi=phi, T2=10, g=0.1)(epg.StateMatrix()).states[:, 0]
        print(f"observed (phi as {label}):\n", np.round(obs, 4))
        ok &= np.allclose(obs, ref)
    except Exception as exc:
        print(f"observed (phi as {label}): raises", type(exc).__name__, exc)
        ok = False
# the explicit composition works, so nothing else stands in the way
seq = [epg.Phi(-phis)] + list(rfpulse.RFPulse(values, 2.0, rf=0.5, T2=10, g=0.1).operators) + [epg.Phi(phis)]
print("explicit Phi(-phis) | pulse | Phi(phis) agrees:", np.allclose(epg.MultiOperator(seq)(epg.StateMatrix()).states[:, 0], ref))
print("OK" if ok else "DEFECT")
sys.exit(0 if ok else 1)
