# probe F86 (properties C17): exits 1 while the defect is present, 0 when it is gone
"""Sequence.crlb(variables, gradient='T1'): a single gradient variable given as a string
(accepted for `variables`, and by Sequence.hessian for both lists) is split into characters."""
import sys, warnings
import numpy as np
from epgpy.sequence import Sequence, Variable, operators as vo

warnings.simplefilter("ignore")
T, S, E, ADC = vo.T, vo.S, vo.E, vo.ADC


def make(t1, t2, b1):
    b = Variable(b1)
    return Sequence([T(90 * b, 90)] + [E(5, t1, t2), S(1), T(150 * b, 0), S(1), E(5, t1, t2), ADC] * 6)


def fd(seq, variables, name, vals, eps=1e-4):
    vp, vm = dict(vals), dict(vals)
    vp[name] += eps
    vm[name] -= eps
    return (seq.crlb(variables)(vp) - seq.crlb(variables)(vm)) / 2 / eps


ok = True
# 1. ordinary names: raises
seq, vals = make("T1", "T2", "b1"), dict(T1=1000.0, T2=50.0, b1=0.9)
expected = fd(seq, ["T2", "b1"], "T1", vals)
print("crlb(['T2','b1'], gradient='T1')   expected gradient", expected, "(list form gives",
      seq.crlb(["T2", "b1"], gradient=["T1"])(vals)[1].ravel(), ")")
try:
    grad = seq.crlb(["T2", "b1"], gradient="T1")(vals)[1]
    print("  observed", grad)
    ok &= np.allclose(grad.ravel(), expected, rtol=1e-3)
except Exception as exc:
    print("  raised", type(exc).__name__, exc)
    ok = False
# 2. names that are made of other names: silently the gradient along other variables
seq, vals = make("ab", "a", "b"), dict(ab=1000.0, a=50.0, b=0.9)
expected = fd(seq, ["a", "b"], "ab", vals)
grad = seq.crlb(["a", "b"], gradient="ab")(vals)[1]
print("crlb(['a','b'], gradient='ab')   observed", grad, " expected (d/d ab)", expected)
ok &= grad.shape == (1, 1) and np.allclose(grad.ravel(), expected, rtol=1e-3)
sys.exit(0 if ok else 1)
