# probe F108 (properties C12): exits 1 while the defect is present, 0 when it is gone
"""modify(seq, T2=array) with expand=True (default): "non-scalar parameters are added as new dimensions to
the sequence" -- but the batch axis carried by an ARRAY DURATION is not counted as a dimension of the sequence.
A spin echo whose echo time is swept through the durations, modified with a T2 array of the same length, is
simulated on the diagonal TE[i] <-> T2[i] (shape (3,)) instead of the grid TE[i] x T2[j] (shape (3, 3)).
Ground truth: the closed form exp(-TE/T2) and per-index scalar simulations."""
import sys
import numpy as np
import epgpy as epg

TE = np.array([5.0, 10.0, 20.0])
T2 = np.array([30.0, 50.0, 80.0])


def spin_echo(te):
    return [epg.T(90, 90), epg.S(1, duration=te / 2), epg.T(180, 0), epg.S(1, duration=te / 2), epg.ADC]


mod = epg.modify(spin_echo(TE), T2=T2)  # expand=True
times, sig = epg.simulate(mod, adc_time=True)
sig = np.abs(sig[0])

# ground truth: one scalar simulation per (TE, T2) pair
ref = np.array([[abs(epg.simulate(epg.modify(spin_echo(te), T2=t2))[0, 0]) for t2 in T2] for te in TE])
assert np.allclose(ref, np.exp(-TE[:, None] / T2[None, :]))  # closed form

np.set_printoptions(precision=5, suppress=True)
print("acquisition times:", times[0])
print("modify(expand=True), shape", sig.shape, ":\n", sig)
print("expected grid TE x T2, shape", ref.shape, ":\n", ref)
ok = sig.shape == ref.shape and np.allclose(sig, ref)
if not ok and sig.shape == (3,):
    print("observed values are the diagonal of the expected grid:", np.allclose(sig, np.diag(ref)))
sys.exit(0 if ok else 1)
