# probe F143 (properties C19, C02): exits 1 while the defect is present, 0 when it is gone
"""c736da2 (on top of a7dccbe): simulate(init=<StateMatrix carrying partials>, coords=...) relabels the
coordinate table of the main state matrix only; the partials keep the old table, so the next integer
n-D shift lays main and partials out differently (ValueError, or misaligned rows).
Ground truth: central finite differences through the same call without partials
(a7dccbe alone, which passed `coords` to the partials too, matches them to 1e-12)."""
import sys
import numpy as np
from epgpy import operators as op, functions as fn, statematrix as stm

k = np.array([[1, 0, 0]])


def block(a, T2, d, probe):
    ops = [op.T(a, 90, order1="alpha" if d else False), op.E(5, 1000, T2, order1="T2" if d else False), op.S(k)]
    return ops + ([op.Jacobian(["magnitude", "alpha", "T2"]) if d else op.ADC] if probe else [])


def prep(a, T2, d):
    sm = stm.StateMatrix([0, 0, 1])
    for o in block(a, T2, d, False) * 3:
        sm = o(sm)
    return sm


def run(a, T2, d):
    sm = prep(a, T2, d)
    # option under test: new labels for the states (here: another wavenumber unit)
    return np.asarray(fn.simulate(block(a, T2, d, True) * 4, init=sm, coords=2 * sm.coords))


a, T2, h = 40.0, 60.0, 1e-4
expected = np.stack(
    [run(a, T2, False), (run(a + h, T2, False) - run(a - h, T2, False)) / (2 * h), (run(a, T2 + h, False) - run(a, T2 - h, False)) / (2 * h)],
    axis=-1,
)
try:
    observed = run(a, T2, True)
    err = np.abs(observed - expected).max()
    print("observed:\n", np.round(observed[:, 0], 6), "\nexpected (finite differences):\n", np.round(expected[:, 0], 6))
    print("max abs error:", err)
    ok = err < 1e-6
except Exception as exc:
    print(f"observed {type(exc).__name__}: {exc}")
    print("expected (finite differences):\n", np.round(expected[:, 0], 6))
    ok = False
sys.exit(0 if ok else 1)
