# probe F67 (properties C17, C11, C19): exits 1 while the defect is present, 0 when it is gone
"""Sequence.jacobian / hessian / crlb ignore what the sequence's Adc operators acquire (attr=, weights=, reduce=):
they always probe F0 of every batch entry, so the returned 'signal' differs from seq.signal() and the
Jacobian is not the derivative of seq.signal()."""
import sys
import numpy as np
from epgpy.sequence import Sequence, operators as ops

ok = True
np.set_printoptions(precision=6, suppress=True)

def fd(seq, var, vals, h=1e-6):
    p, m = dict(vals), dict(vals)
    p[var] = vals[var] + h
    m[var] = vals[var] - h
    return (seq.signal(**p) - seq.signal(**m)) / (2 * h)

# (a) longitudinal magnetisation: Adc(attr='Z0')
adc = ops.Adc(attr="Z0")
seq = Sequence([ops.T("a", 90), ops.E(5, 800, 40), adc, ops.T("a", 90), ops.E(5, 800, 40), adc])
vals = dict(a=30.0)
sig = seq.signal(**vals)
sig2, jac = seq.jacobian(["a"], **vals)
print("(a) seq.signal()            :", sig.real)
print("    signal from jacobian()  :", sig2.real)
print("    jacobian d/da           :", jac[..., 0].real)
print("    finite diff. of signal(): ", fd(seq, "a", vals).real)
ok &= np.allclose(sig, sig2) and np.allclose(jac[..., 0], fd(seq, "a", vals), atol=1e-6)

# (b) weighted sum over the batch axis: Adc(weights=[0.2, 0.8])
seq = Sequence([ops.T("a", 90), ops.E(5, 800, "T2"), ops.Adc(weights=[0.2, 0.8])])
vals = dict(a=30.0, T2=np.array([40.0, 80.0]))
sig = seq.signal(**vals)
sig2, jac = seq.jacobian(["a"], **vals)
print("(b) seq.signal()            :", sig.real, "shape", sig.shape)
print("    signal from jacobian()  :", sig2.real.ravel(), "shape", sig2.shape)
print("    jacobian d/da           :", jac[..., 0].real.ravel(), "shape", jac.shape)
print("    finite diff. of signal(): ", fd(seq, "a", vals).real)
ok &= sig.shape == sig2.shape and np.allclose(sig, sig2)

print("AGREE" if ok else "DISAGREE")
sys.exit(0 if ok else 1)
