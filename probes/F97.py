# probe F97 (properties C10): exits 1 while the defect is present, 0 when it is gone
"""Grouping with '*' fails for the public Offset operator ("empty operator with possibly negative duration"):
MultiOperator.__init__ passes the SUM of its members' durations through the 'duration >= 0' validation
meant for user-given durations, so any group whose summed duration is negative raises ValueError,
whereas the same operators written flat or as a nested list simulate fine (acquisition time -2)."""
import sys
import numpy as np
from epgpy import operators as ops, functions

T, E, ADC, Offset, Wait = ops.T, ops.E, ops.ADC, ops.Offset, ops.Wait
exc, rlx, off = T(90, 90), E(5, 1000, 50, duration=True), Offset(-7)  # time origin placed 7 ms after the excitation

t_flat, s_flat = functions.simulate([exc, off, rlx, ADC], adc_time=True)
t_nest, s_nest = functions.simulate([exc, [off, [rlx]], ADC], adc_time=True)
print("flat   [T, Offset(-7), E(5), ADC]      -> time", t_flat, "signal", np.ravel(s_flat))
print("nested [T, [Offset(-7), [E(5)]], ADC]  -> time", t_nest, "signal", np.ravel(s_nest))
ok = np.allclose(t_flat, [-2]) and np.allclose(t_nest, t_flat)

for label, make in [
    ("exc * off * rlx * ADC", lambda: exc * off * rlx * ADC),
    ("[exc, off * rlx, ADC]", lambda: [exc, off * rlx, ADC]),
    ("MultiOperator([exc, off, rlx, ADC])", lambda: ops.MultiOperator([exc, off, rlx, ADC])),
]:
    try:
        seq = make()
        multi = seq if isinstance(seq, ops.MultiOperator) else seq[1]
        t, s = functions.simulate(seq, adc_time=True)
        good = np.allclose(t, t_flat) and np.allclose(s, s_flat)
        print(f"{label:36s}: group duration {multi.duration}, time {t}, signal {np.ravel(s)}")
    except ValueError as exc_:
        good = False
        print(f"{label:36s}: raises ValueError: {exc_}   (expected time {t_flat})")
    ok &= good
print("OK" if ok else "MISMATCH")
sys.exit(0 if ok else 1)
