# probe F27 (properties C07): exits 1 while the defect is present, 0 when it is gone
"""C07 defect 4: X(tau, khi, ...) with an n-D kinetic matrix (batch of exchange rates built with
exchange_matrix): khi is neither moved like tau/T1/T2/g (exchange axis) nor given append-aligned batch
axes -> silently wrong signals when the axis sizes coincide, ValueError otherwise."""
import sys
import numpy as np
from epgpy import operators as ops, functions as fn, exchange

T1, T2, g = np.array([800.0, 300.0]), np.array([60.0, 20.0]), np.array([0.0, 0.02])  # 2 compartments
rates = np.array([0.01, 0.05, 0.2])  # exchange rates (1/ms)
taus = np.array([3.0, 5.0, 7.0, 9.0])  # mixing times (ms)


def seq(X):
    return [ops.T(40, 90), X, ops.T(40, 0), X, ops.ADC]


def scalar(rate, tau=5.0):  # 2-compartment signal for one rate and one mixing time
    return fn.simulate(seq(ops.X(tau, rate, T1=T1, T2=T2, g=g)))[0]


def report(label, call, expected):
    try:
        out = call()
    except ValueError as exc:
        print(f"{label}: ValueError: {str(exc)[:75]}")
        return 1
    ok = out.shape == expected.shape and np.allclose(out, expected)
    print(f"{label}: shape {out.shape} max|vectorised - scalar| = {abs(out - expected).max():.3g}",
          "ok" if ok else "MISMATCH")
    if not ok:
        print("   vectorised:", out.ravel()[:4].round(4), "...\n   scalar    :", expected.ravel()[:4].round(4), "...")
    return 0 if ok else 1


bad = 0
# (a) compartments on grid axis 0, rates on axis 1: khi has shape (2, nrate, 2)
for nr in (2, 3):  # nr == number of compartments -> silent
    khi = exchange.exchange_matrix(rates[:nr], axis=0)
    ref = np.stack([scalar(r) for r in rates[:nr]], axis=1)  # 2 x nr
    bad += report(f"(a) axis=0, {nr} rates", lambda: fn.simulate(
        seq(ops.X(5.0, khi, axis=0, T1=T1, T2=T2, g=g)))[0], ref)
# (b) default axis: rates on axis 0, compartments on axis 1, mixing times on axis 2
khi = exchange.exchange_matrix(rates)  # (3, 2, 2)
for nt in (3, 4):  # nt == number of rates -> silent
    ref = np.stack([np.stack([scalar(r, t) for t in taus[:nt]], -1) for r in rates])  # 3 x 2 x nt
    bad += report(f"(b) axis=-1, {nt} mixing times", lambda: fn.simulate(
        seq(ops.X(taus[None, None, :nt], khi, T1=T1[None], T2=T2[None], g=g[None])))[0], ref)
print("failures:", bad)
sys.exit(1 if bad else 0)
