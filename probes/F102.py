# probe F102 (properties C15): exits 1 while the defect is present, 0 when it is gone
"""Voxel positions taken from System(coords=...) (Imaging() without coords) together with a per-voxel
modulation / weights array taken from System(): the system collection stores `coords` as a batch array,
its (npos, ndim) axes become batch axes and every other system array is expanded to that rank:
modulation (npos,) -> (npos,1): the image is an (npos x npos) outer product, the default reduce=True sum
is wrong; weights (npos,) raise. The probe's own arguments (same arrays) work.
Ground truth: one Bloch isochromat per voxel (point voxel) with that voxel's off-resonance frequency."""
import sys
import numpy as np
import epgpy as epg

pos = np.array([[0.1, 0.2], [0.5, 0.1], [-0.3, 0.7], [0.9, -0.4]])  # 4 voxels, 2-D
freq = np.array([0.01, -0.02, 0.03, 0.015])  # off-resonance of each voxel (kHz)
rf1, rf2 = epg.T(40, 20), epg.T(60, 70)
k1, k2 = np.array([1, 0]), np.array([1, 1])

def run(pre, adc):
    return epg.simulate(pre + [rf1, epg.S(k1), epg.C(2), rf2, epg.S(k2), epg.C(1), adc])

own = run([], epg.Imaging(pos, modulation=1j * freq, voxel_shape="point"))
obs = run([epg.System(coords=pos, modulation=1j * freq)], epg.Imaging(voxel_shape="point"))
img = run([epg.System(coords=pos, modulation=1j * freq)], epg.Imaging(voxel_shape="point", reduce=False))

# Bloch: isochromat p at pos[p] precessing at freq[p] during the accumulated times
P = lambda k, tau: epg.P(1, pos @ k / 2 / np.pi) * epg.P(tau, freq)
exp = epg.simulate([rf1, P(k1, 2), rf2, P(k2, 1), epg.ADC]).sum(axis=-1)

print("System(coords, modulation) + Imaging()   :", obs, " image shape", img.shape[1:])
print("Imaging(coords, modulation=...)          :", own)
print("sum of the 4 Bloch isochromats           :", exp)
try:
    run([epg.System(coords=pos, weights=np.ones(4))], epg.Imaging(voxel_shape="point"))
    print("System(coords, weights): accepted")
except ValueError as exc:
    print("System(coords, weights=ones(4)) raises   :", exc)
ok = np.allclose(obs, exp, atol=1e-8)
print("AGREE" if ok else "DISAGREE")
sys.exit(0 if ok else 1)
