# probe F134 (properties C13): exits 1 while the defect is present, 0 when it is gone
"""C13 defect 2: the state cap (max_nstate option / nmax argument) is silently ignored by the
real-valued back-ends (shift-merge / shift-prune).

The same integer-size steps, typed as floats (S([1.0, 0.0]), G(tau, g), or any integer S() applied after
one C(0.5) / G has turned the coordinates into floats), keep states whose wavenumber index exceeds n:
the table grows without bound although a cap was requested.
Ground truth: the property (no state with an index > n is kept) and the integer-typed run of the same steps.
"""
import sys
import numpy as np
import epgpy as epg

n, nrep = 2, 8

def run(step, **opts):
    sm = epg.StateMatrix(**opts)
    for _ in range(nrep):
        sm = epg.S(step)(epg.E(5, 1000, 100)(epg.T(30, 90)(sm)))
    return sm.nstate, float(np.abs(sm.coords).max())

ns_i, kmax_i = run([1, 0], max_nstate=n)
ns_f, kmax_f = run([1.0, 0.0], max_nstate=n, kgrid=0.1)
print(f"integer steps, max_nstate={n}: nstate={ns_i}, largest index={kmax_i}")
print(f"float steps,   max_nstate={n}: nstate={ns_f}, largest index={kmax_f}   (expected <= {n})")

# nmax argument of the operator, and an integer shift after a real-valued time accumulation
sm = epg.StateMatrix(kgrid=0.1)
for _ in range(nrep):
    sm = epg.S([1.0, 0.0], nmax=n)(epg.T(30, 90)(sm))
kmax_a = float(np.abs(sm.coords).max())
print(f"S([1.0, 0.0], nmax={n}): largest index={kmax_a}   (expected <= {n})")

sm = epg.C(0.5)(epg.StateMatrix(kgrid=0.1, max_nstate=n))
for _ in range(nrep):
    sm = epg.S(1)(epg.T(30, 90)(sm))
kmax_c = float(np.abs(sm.coords[..., :3]).max())
print(f"C(0.5) then S(1) x{nrep}, max_nstate={n}: largest wavenumber index={kmax_c}   (expected <= {n})")

ok = max(kmax_i, kmax_f, kmax_a, kmax_c) <= n
print("OK" if ok else "DEFECT: cap ignored for real-valued shifts")
sys.exit(0 if ok else 1)
