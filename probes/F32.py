# probe F32 (properties C10, C12): exits 1 while the defect is present, 0 when it is gone
"""Composed durations ignore the package's axis convention (parameter axes are aligned from
the FIRST axis): '@' adds the operands' duration arrays with numpy (last-axis) broadcasting,
'*' adds them in place.  -> transposed durations, or exceptions on operands that combine fine."""
import sys
import numpy as np
from epgpy import operators as ops

E, S = ops.E, ops.S
tau1 = np.array([1.0, 2.0, 3.0])  # axis 0
tau2 = np.arange(1.0, 10.0).reshape(3, 3)  # axes 0, 1
a = E(tau1, 1000, 50, duration=True)
b = E(tau2, 1000, 50, duration=True)
expected = tau1[:, None] + tau2  # duration of entry [i, j] = tau1[i] + tau2[i, j]
ok = True

c = a @ b
print("(a @ b).shape:", c.shape, " arr entry [2,0] uses tau1[2]:",
      np.isclose(c.arr[2, 0, 2], np.exp(-(tau1[2] + tau2[2, 0]) / 1000)))
print("(a @ b).duration =\n", c.duration, "\nexpected =\n", expected)
ok &= np.shape(c.duration) == expected.shape and np.allclose(c.duration, expected)

for label, make, exp in [
    ("a * b", lambda: a * b, expected),
    ("a @ E(tau(3,2))", lambda: a @ E(tau2[:, :2], 1000, 50, duration=True), tau1[:, None] + tau2[:, :2]),
    ("E(int tau) * S(1, duration=0.5)", lambda: E([5, 10, 15], 1000, 50, duration=True) * S(1, duration=0.5),
     np.array([5.5, 10.5, 15.5])),
]:
    try:
        d = make().duration
        good = np.shape(d) == exp.shape and np.allclose(d, exp)
        print(f"{label}: duration = {np.asarray(d).tolist()}  expected {exp.tolist()}")
    except Exception as exc:
        good = False
        print(f"{label}: raises {type(exc).__name__}: {exc}  (expected duration {exp.tolist()})")
    ok &= good
print("OK" if ok else "MISMATCH")
sys.exit(0 if ok else 1)
