# probe F60 (properties C09): exits 1 while the defect is present, 0 when it is gone
"""Probe operators (ADC, Adc, Probe, Jacobian, Imaging, ...) applied out of place return the INPUT object,
not a copy: the result aliases the input, and a later in-place operator on the result rewrites the input."""
import sys
import numpy as np
import epgpy as epg

sm0 = epg.StateMatrix([0, 0, 1])
before = sm0.states.copy()            # ground truth: an out-of-place call must leave sm0 as it is, for ever

sm1 = epg.ADC(sm0)                    # out of place (inplace=False is the default)
ref = epg.Wait(1.0)(sm0)              # another operator that does nothing: returns an independent copy
print("ADC(sm0) is sm0      :", sm1 is sm0, " (Wait(1)(sm0) is sm0:", ref is sm0, ")")

sm1 = epg.T(90, 0)(sm1, inplace=True)  # continue the history in place on the *result*
sm1 = epg.S(1)(sm1, inplace=True)

print("sm0.states before    :", before.ravel())
print("sm0.states afterwards:", sm0.states.ravel(), " nstate:", sm0.nstate)
ok = sm0.states.shape == before.shape and np.allclose(sm0.states, before)
print("OK" if ok else "MISMATCH: the input of an out-of-place call was modified through its alias")
sys.exit(0 if ok else 1)
