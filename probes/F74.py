# probe F74 (properties C06): exits 1 while the defect is present, 0 when it is gone
"""The conservation check of X uses an absolute tolerance (allclose(K @ density, 0), atol=1e-8): kinetic
matrices that satisfy detailed balance to machine precision are rejected once the rates are large
(the package's own tests use 1e10 /ms as 'fast exchange')."""
import sys
import numpy as np
from epgpy import operators as ops, statematrix, exchange

bad = False
for rate in (1e8, 1e9, 1e10):
    for dens in ([0.7, 0.3], [0.9, 0.1], [0.6, 0.4], [0.1, 0.3]):
        khi = exchange.exchange_matrix(rate, densities=dens)  # K[i,j] * dens[j] = K[j,i] * dens[i]
        resid = np.abs(khi @ dens).max() / np.abs(khi).max()  # relative residual of K @ density = 0
        # start with all transverse magnetization in compartment 0; fast exchange, no relaxation:
        # the total (1.0) is conserved and shared in proportion to the densities
        sm = statematrix.StateMatrix([[[1, 1, 0]], [[0, 0, 0]]], density=dens)
        expected = np.array(dens) / np.sum(dens)
        try:
            obs = ops.X(1.0, khi)(sm).F0.real
            ok = np.allclose(obs, expected, atol=1e-6)
            msg = str(obs)
        except RuntimeError as exc:
            ok, msg = False, "RuntimeError: %s" % exc
        if not ok:
            bad = True
            print(f"rate={rate:g} densities={dens} |K d|/|K|={resid:.1e}  expected F0={expected}  observed: {msg}")
print("all accepted" if not bad else "conserving kinetic matrices were rejected")
sys.exit(1 if bad else 0)
