# probe F25 (properties C04, C07): exits 1 while the defect is present, 0 when it is gone
"""G(tau, gradient) with an array of durations (one per simulated signal, like C(tau) or E(tau, ...)):
tau is multiplied straight into the gradient array, so its axis lands on the gradient-COMPONENT axis:
G([1., 2.], 10.) becomes ONE 2-D shift (kx, ky) = (k1, k2) instead of two batch entries with 1-D shifts,
G([1., 2., 3.], [g, 0, 0]) silently uses tau[0] only, G([1., 2.], [g, 0, 0]) raises.
Ground truth: one scalar simulation per duration."""
import sys
import numpy as np
import epgpy as epg

g = 10.0  # mT/m
taus = [1.0, 2.0]  # ms


def spin_echo(grad1):
    # dephase with grad1, refocus, rephase with 1 ms: only the entry with tau == 1 ms gives an echo
    seq = [epg.T(90, 0), grad1, epg.T(180, 0), epg.G(1.0, g), epg.ADC]
    return np.ravel(epg.simulate(seq, kgrid=1.0))


ref = np.array([spin_echo(epg.G(tau, g))[0] for tau in taus])  # per-index scalar runs: [echo, 0]

ok = True
cases = {"G([1,2], 10.)": lambda: epg.G(taus, g),
         "G([1,2,3], [10,0,0])": lambda: epg.G(taus + [3.0], [g, 0, 0]),
         "G([1,2], [10,0,0])": lambda: epg.G(taus, [g, 0, 0])}
for name, make in cases.items():
    expected = ref if "3" not in name else np.r_[ref, 0]
    try:
        op = make()
        out = spin_echo(op)
        info = f"op.shape={op.shape} k.shape={op.k.shape} F0={np.round(out, 4)}"
        good = out.shape == expected.shape and np.allclose(out, expected, atol=1e-6)
    except Exception as exc:
        info, good = f"{type(exc).__name__}: {str(exc)[:60]}", False
    print(f"{name:22s} observed: {info}\n{'':22s} expected: op.shape=({len(expected)},) F0={np.round(expected, 4)}"
          f"  {'ok' if good else 'FAIL'}")
    ok &= bool(good)
sys.exit(0 if ok else 1)
