# probe F51 (properties C05, C08, C14, C09): exits 1 while the defect is present, 0 when it is gone
"""D raises on state matrices whose stored states lack a batch axis of the result.

D._apply writes into `sm.states[..., i]`. When the batch shape comes from the coordinates (a shift per batch
entry), from the equilibrium (PD per entry) or from D's own tau, `sm.states` is a read-only broadcast view or is
too small: ValueError. (simulate() hides it: it materialises the full batch shape beforehand.)
Ground truth: the documented attenuation exp(-k^2 tau D) of the shifted F state, entry by entry.
"""
import sys
import numpy as np
import epgpy as epg

KV, TAU, DIFF = 1e4, 10.0, 2.0  # rad/m, ms, mm^2/s
expected = lambda k, tau: np.exp(-((k * KV * 1e-3) ** 2) * tau * 1e-3 * DIFF)
ok = True


def attempt(label, make, truth):
    global ok
    try:
        sm = make()
        val = np.abs(np.asarray(sm.F)[..., -1])  # F+ of the highest state
        good = np.allclose(val, truth)
        print(f"{label}: |F+| = {val}  expected {truth}")
    except Exception as exc:
        good = False
        print(f"{label}: raised {type(exc).__name__}: {exc}   expected |F+| = {truth}")
    ok &= good


exc = epg.T(90, 90)
sm0 = epg.StateMatrix(kvalue=KV)

# 1. a shift per batch entry, then diffusion
attempt("S([[1],[2]]) then D(tau, D)",
        lambda: epg.D(TAU, DIFF)(epg.S([[1], [2]])(exc(sm0))),
        expected(np.array([1, 2]), TAU))
# 2. a diffusion time per batch entry on an unbatched state matrix
attempt("S(1) then D([tau, 2 tau], D)",
        lambda: epg.D([TAU, 2 * TAU], DIFF)(epg.S(1)(exc(sm0))),
        expected(1, np.array([TAU, 2 * TAU])))
# 3. control: the same through simulate()
sig = epg.simulate([exc, epg.S(1), epg.D([TAU, 2 * TAU], DIFF), epg.Adc("F")], kvalue=KV)
print("simulate():", np.abs(sig[0, :, -1]), " expected", expected(1, np.array([TAU, 2 * TAU])))
sys.exit(0 if ok else 1)
