# probe F51 (properties C05, C08, C14, C09): exits 1 while the defect is present, 0 when it is gone
"""C05 defect 3: D._apply writes `sm.states[..., 0] = ...` in place. Whenever the operator carries a
batch (tau array, a tensor or a shift per entry) that the stored states do not have yet, or the states
are a read-only broadcast view (batched shift / batched density), the call raises - E and T accept the
same state matrices. Ground truth: one scalar simulation per batch entry."""
import sys
import numpy as np
from epgpy import operators as ops, functions, statematrix

kv, d = 3e4, 1.5
T, S, D, E, ADC = ops.T, ops.S, ops.D, ops.E, ops.ADC
taus = np.array([1.0, 2.0, 4.0])
Dm = np.diag([1.0, 2.0, 3.0])
bad = False


def check(name, func, expected):
    global bad
    try:
        obs = np.ravel(func())
        ok = np.allclose(obs, expected)
        print(f"{name}: observed {obs}  expected {expected}  {'ok' if ok else 'WRONG'}")
    except Exception as exc:
        ok = False
        print(f"{name}: RAISED {type(exc).__name__}: {exc}  expected {expected}")
    bad |= not ok


sm1 = S(1)(T(90, 90)(statematrix.StateMatrix(kvalue=kv)))  # F+1 = 1
# (a) tau array applied to an unbatched state matrix (E(taus, ...) and T(alphas, ...) work here)
ref = np.array([D(t, d)(sm1).states[0, -1, 0] for t in taus])
check("E(taus)(sm) shape", lambda: E(taus, 1e3, 1e2)(sm1).shape, (3,))
check("D(taus, d)(sm)", lambda: D(taus, d)(sm1).states[:, -1, 0], ref)
# (b) same through simulate() with init=StateMatrix
seq = lambda t: [T(90, 90), S(1), D(t, d, 1), T(180, 0), S(1), D(t, d, 1), ADC]
ref = np.array([np.ravel(functions.simulate(seq(t), kvalue=kv))[0] for t in taus])
check("simulate(init=sm)", lambda: functions.simulate(seq(taus), init=statematrix.StateMatrix(kvalue=kv)), ref)
# (c) a shift per batch entry, then D: the states are a read-only broadcast view
ks = np.array([[1, 0, 0], [0, 1, 0]])
sm0 = T(90, 90)(statematrix.StateMatrix(kvalue=kv))
ref = np.array([D(2.0, Dm)(S(k)(sm0)).states[0, -1, 0] for k in ks])
check("D(2, Dm)(S(ks)(sm))", lambda: D(2.0, Dm)(S(ks)(sm0)).states[..., 0].sum(axis=-1), ref)
# (d) transverse start with a batched density
smd = statematrix.StateMatrix([1, 1, 0], density=[1, 2], kvalue=kv)
check("D on density batch", lambda: D(2.0, d)(smd).states[:, 0, 0], np.array([1, 1]))
sys.exit(1 if bad else 0)
