# probe F81 (properties C03): exits 1 while the defect is present, 0 when it is gone
"""Mixed second derivative of one operator whose parameters are driven by two variables through
array coefficients of different rank: the product c1*c2 of the first-order coefficients is formed
with numpy (last-axis) alignment whereas the operator aligns its parameters from the first axis."""
import sys
import numpy as np
import epgpy as epg
from epgpy import sequence as sq

a, b = sq.Variable("a"), sq.Variable("b")
ca = np.array([1.0, 2, 3])  # tau = a * ca     -> axis 0
cb = np.array([[1, 1.5, 2], [1, 2, 3], [2, 3, 4.0]])  # T2 = b * cb -> axes (0, 1)
seq = sq.Sequence([sq.T(30, 90), sq.E(a * ca, 500, b * cb), "ADC"])
a0, b0 = 5.0, 30.0
sig, jac, hes = seq.hessian(["a", "b"], a=a0, b=b0)
sig, jac, hes = sig[..., 0], jac[..., 0, :], hes[..., 0, :, :]  # single ADC

# ground truth: F0 = c exp(-tau/T2) = c exp(-a r / b) with r[i, j] = ca[i] / cb[i, j]
r = ca[:, None] / cb
ref_a = -r / b0 * sig
ref_ab = sig * r / b0**2 * (1 - a0 * r / b0)
ref_aa = sig * (r / b0) ** 2

np.set_printoptions(precision=4, linewidth=150)
print("dF0/da    max rel. error:", np.abs(jac[..., 0] - ref_a).max() / np.abs(ref_a).max())
print("H[a,a]    max rel. error:", np.abs(hes[..., 0, 0] - ref_aa).max() / np.abs(ref_aa).max())
print("H[a,b] observed (abs):\n", np.abs(hes[..., 0, 1]))
print("H[a,b] expected (abs):\n", np.abs(ref_ab))
err = np.abs(hes[..., 0, 1] - ref_ab).max() / np.abs(ref_ab).max()
print("H[a,b]    max rel. error:", err, " symmetric:", np.allclose(hes[..., 0, 1], hes[..., 1, 0]))

# same declarations given by hand to the operator
op = epg.E(a0 * ca, 500, b0 * cb, order1={"a": {"tau": ca}, "b": {"T2": cb}}, order2=["a", "b"])
h2 = epg.simulate([epg.T(30, 90), op, epg.ADC], probe=epg.Hessian(["a", "b"]))[0]
print("by hand:  max rel. error:", np.abs(h2[..., 0, 1] - ref_ab).max() / np.abs(ref_ab).max())
sys.exit(1 if err > 1e-8 else 0)
