# probe F30 (properties C10): exits 1 while the defect is present, 0 when it is gone
"""An operator built with '@' no longer forms the cross 2nd-order partials with variables
that are already carried by the state matrix (auto cross derivatives are switched off):
(1) [T(order2='alpha'), E@E(order2='T2')] loses d2/dalpha dT2,
(2) A @ (B @ C) gives a wrong ('alpha','phi') entry whereas (A @ B) @ C is right."""
import sys, warnings
import numpy as np
from epgpy import operators as ops, functions

warnings.simplefilter("ignore")
T, E, ADC, Hessian = ops.T, ops.E, ops.ADC, ops.Hessian
ok = True
# (1) variable 'alpha' declared before the combined block
rf = T(30, 20, order2="alpha")
e1, e2 = E(2, 100, 30, 0.1, order2="T2"), E(3, 100, 30, 0.1, order2="T2")
hes = Hessian(["alpha", "T2"])
flat = functions.simulate([rf, e1, e2, ADC], probe=hes)[0, 0]
comb = functions.simulate([rf, e1 @ e2, ADC], probe=hes)[0, 0]
f0 = lambda a, t2: functions.simulate([T(a, 20), E(2, 100, t2, 0.1), E(3, 100, t2, 0.1), ADC])[0, 0]
h = 1e-3
fd = (f0(30 + h, 30 + h) - f0(30 + h, 30 - h) - f0(30 - h, 30 + h) + f0(30 - h, 30 - h)) / (4 * h * h)
print("(1) d2F0/dalpha dT2: finite diff. %s | flat %s | rf, e1@e2 %s" % (fd, flat[0, 1], comb[0, 1]))
ok &= np.isclose(comb[0, 1], fd, rtol=1e-4, atol=1e-10)

# (2) association: alpha, phi are variables of A; phi is also a variable of B
A = T(20, 30, order1=["alpha", "phi"], order2=True)
B = T(40, 30, order2="phi")
C = T(15, 5)
hes = Hessian(["alpha", "phi"])
flat = functions.simulate([A, B, C, ADC], probe=hes)[0, 0]
left = functions.simulate([(A @ B) @ C, ADC], probe=hes)[0, 0]
right = functions.simulate([A @ (B @ C), ADC], probe=hes)[0, 0]
f0 = lambda a, p: functions.simulate([T(a, p), T(40, p), C, ADC])[0, 0]
h = 1e-2
fd = (f0(20 + h, 30 + h) - f0(20 + h, 30 - h) - f0(20 - h, 30 + h) + f0(20 - h, 30 - h)) / (4 * h * h)
print("(2) d2F0/dalpha dphi: finite diff. %s | flat %s" % (fd, flat[0, 1]))
print("    (A@B)@C %s | A@(B@C) %s" % (left[0, 1], right[0, 1]))
ok &= np.isclose(left[0, 1], fd, rtol=1e-4) and np.isclose(right[0, 1], fd, rtol=1e-4)
print("OK" if ok else "MISMATCH")
sys.exit(0 if ok else 1)
