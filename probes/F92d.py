# probe F92 (properties C05, C06, C08, C18, C01, C12): exits 1 while the defect is present, 0 when it is gone
"""RFPulse.copy() (Operator.copy(name=, duration=), the documented way to rename / re-time an operator) returns an
unusable object: Operator.copy builds the copy with __new__ and sets only name and duration, and MultiOperator
(hence RFPulse) does not override it: the copy has no operators / _shape / _nshift (nor values, rf, alpha).
Ground truth: the copy acts as the same ordered product of hard pulses and evolutions as the original."""
import sys
import numpy as np
import epgpy as epg
from epgpy import rfpulse

values = np.array([0.3, 0.8j, -0.6, 0.4 + 0.4j, 0.2])
pulse = rfpulse.RFPulse(values, 2.0, rf=0.5, phi=20.0, T1=100.0, T2=10.0, g=0.1)
sm0 = epg.S(1)(epg.T(40, 10)(epg.StateMatrix()))
ref = pulse(sm0).states
print("original pulse: duration", pulse.duration, " shape", pulse.shape, " n.operators", len(pulse))
print("ground truth F0, Z0:", np.round(ref[0, 1, [0, 2]], 5))
ok = True
for label, make in {
    "pulse.copy()": lambda: pulse.copy(),
    "pulse.copy(name='exc')": lambda: pulse.copy(name="exc"),
    "MultiOperator: (T*E).copy()": lambda: (epg.T(30, 0) * epg.E(1, 100, 10)).copy(),
}.items():
    try:
        new = make()
        src = pulse if "pulse" in label else epg.T(30, 0) * epg.E(1, 100, 10)
        obs = new(sm0).states
        expected = src(sm0).states
        good = np.allclose(obs, expected) and new.shape == src.shape and new.duration == src.duration
        print(f"{label}: F0, Z0 = {np.round(obs[0, 1, [0, 2]], 5)}  {'ok' if good else 'WRONG'}")
        ok &= bool(good)
        ok &= epg.get_adc_times([new, epg.ADC]) == epg.get_adc_times([src, epg.ADC])
    except Exception as exc:
        print(f"{label}: raises {type(exc).__name__}: {exc}")
        ok = False
print("OK" if ok else "DEFECT")
sys.exit(0 if ok else 1)
