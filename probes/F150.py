# probe F150 (properties C12, C10): exits 1 while the defect is present, 0 when it is gone
"""ec9414c (incomplete): a multi-operator whose members' durations live on different grid axes
can now be built, but simulate() / get_adc_times() still add the durations of the (flattened)
members with numpy trailing-axis alignment, so the very sequence of the commit message cannot be run."""
import sys
import numpy as np
import epgpy as epg

tau1, tau2 = [1.0, 2.0], [3.0, 4.0, 5.0]
block = epg.E(tau1, 1e3, 1e2, duration=True) * epg.E(tau2, 1e3, 1e2, axes=1, duration=True)
expected = np.add.outer(tau1, tau2)  # (2, 3): per-index sum of the two delays
print("block.duration:", np.asarray(block.duration).tolist(), "(expected", expected.tolist(), ")")
bad = not np.allclose(block.duration, expected)

seq = [epg.T(90, 90), block, epg.ADC]
# ground truth: one scalar simulation per grid index
ref_sig = np.zeros((2, 3), dtype=complex)
for i, t1 in enumerate(tau1):
    for j, t2 in enumerate(tau2):
        s = epg.simulate([epg.T(90, 90), epg.E(t1, 1e3, 1e2), epg.E(t2, 1e3, 1e2), epg.ADC])
        ref_sig[i, j] = np.ravel(s)[0]
for label, call in [
    ("simulate(seq, adc_time=True)", lambda: epg.simulate(seq, adc_time=True)),
    ("get_adc_times(seq)", lambda: (epg.functions.get_adc_times(seq), None)),
]:
    try:
        times, sig = call()
        times = np.asarray(times)[0]
        ok = times.shape == (2, 3) and np.allclose(times, expected)
        if sig is not None:
            ok = ok and np.allclose(np.asarray(sig)[0], ref_sig)
        print(label, "-> times", times.tolist(), "expected", expected.tolist())
        bad = bad or not ok
    except Exception as exc:
        print(label, "RAISED", type(exc).__name__, exc, "| expected times", expected.tolist())
        bad = True
sys.exit(1 if bad else 0)
