# probe F69 (properties C05, C20): exits 1 while the defect is present, 0 when it is gone
"""D(tau, D, k): tensor / shift dimensions that do not match the wavenumber dimension of the state matrix
are not rejected when one of the sizes is 1: numpy broadcasting silently simulates something else.
Ground truth: the defining formula attenuation = exp(-Tr(b D)), b = tau (k1 k1' + (k1 kd' + kd k1')/2 + kd kd'/3)."""
import sys
import numpy as np
import epgpy as epg

kv, tau, bad = 1e4, 10.0, False  # kvalue (rad/m per unit shift), time (ms)
b1 = tau * 1e-3 * (kv * 1e-3) ** 2  # b-value (s/mm2) of the state k = 1


def report(label, func, expected):
    global bad
    try:
        obs = func()
    except ValueError as exc:
        print(f"{label}: rejected ({exc}) -> fine")
        return
    ok = np.allclose(obs, expected)
    print(f"{label}: observed {np.round(obs, 6)}, expected {np.round(expected, 6)} (or ValueError)  {'ok' if ok else 'MISMATCH'}")
    bad |= not ok


# (a) 3x3 tensor on a state matrix with 1-d wavenumbers (integer shifts S(1)): k = [k, 0, 0] -> Tr(bD) = b Dxx
sm1 = epg.S(1)(epg.T(90, 90)(epg.StateMatrix(kvalue=kv)))
report("3x3 tensor diag(1,2,3), 1-d states ", lambda: abs(epg.D(tau, np.diag([1.0, 2, 3]))(sm1).F[..., -1]), np.exp(-b1 * 1.0))
# (b) 1x1 tensor on 3-d wavenumbers k = [1,2,3]: Tr(bD) = b_xx D
sm3 = epg.S([1, 2, 3])(epg.T(90, 90)(epg.StateMatrix(kvalue=kv)))
report("1x1 tensor [[0.1]], 3-d states      ", lambda: abs(epg.D(tau, [[0.1]])(sm3).F[..., -1]), np.exp(-b1 * 0.1))
# (c) scalar shift k=1 ("this operator must come right after an operator S(k)"): S(1) shifts 3-d states by [1,0,0]
sm4 = epg.S(1)(sm3)  # F+ state at k2 = [2,2,3]
k2, kd = np.array([2.0, 2, 3]) * kv * 1e-3, np.array([1.0, 0, 0]) * kv * 1e-3
k1 = k2 - kd
trb = tau * 1e-3 * (k1 @ k1 + k1 @ kd + kd @ kd / 3)
for k in (1, [1]):
    report(f"scalar D=0.1, k={k!s:4}, 3-d states       ", lambda: abs(epg.D(tau, 0.1, k=k)(sm4).F[..., -1]), np.exp(-trb * 0.1))
ref = abs(epg.D(tau, 0.1, k=[1, 0, 0])(sm4).F[..., -1])
print("   (explicit k=[1,0,0] gives", np.round(ref, 6), ", k=[1,1,1] gives", np.round(abs(epg.D(tau, 0.1, k=[1, 1, 1])(sm4).F[..., -1]), 6), ")")
sys.exit(1 if bad else 0)
