# probe F98 (properties C08, C16, C04): exits 1 while the defect is present, 0 when it is gone
"""StateMatrix.resize(n) (zero padding) on a state matrix with n-D wavenumbers (coords):
the padded rows get the wavenumber (0,0,0); at the next integer shift they collide with the
real k=0 state and overwrite it -> the simulation continued after resize() differs from the
same simulation without resize() (and from the 1-D simulation, where resize() is harmless)."""
import sys
import numpy as np
import epgpy as epg
from epgpy.statematrix import StateMatrix


def run(shift, resize_at=None):
    p, m = shift, ([-x for x in shift] if isinstance(shift, list) else -shift)
    ops = [epg.T(40, 10), epg.E(5, 100, 20), epg.S(p), epg.T(70, 30), epg.S(p),
           epg.T(120, 0), epg.S(m), epg.E(5, 100, 20), epg.S(m)]
    sm, out = StateMatrix(), []
    for i, op in enumerate(ops):
        sm = op(sm)
        if i == resize_at:
            before = (sm.F0.copy(), sm.Z0.copy())
            sm.resize(sm.nstate + 2)  # pad with empty states: the magnetisation is unchanged
            assert np.allclose(sm.F0, before[0]) and np.allclose(sm.Z0, before[1])
        out.append([complex(np.ravel(sm.F0)[0]), complex(np.ravel(sm.Z0)[0])])
    return np.array(out)


truth = run(1)  # 1-D integer shifts
truth_resized = run(1, resize_at=2)  # resize() is harmless in 1-D
nd = run([1, 0, 0])  # same gradient as a 3-D shift
nd_resized = run([1, 0, 0], resize_at=2)  # + resize(nstate + 2) after the first shift

np.set_printoptions(precision=4, suppress=True, linewidth=150)
print("F0, Z0 after each operator")
print("1-D (ground truth)      :\n", truth[3:].T)
print("n-D without resize()    :\n", nd[3:].T)
print("n-D with resize() midway:\n", nd_resized[3:].T)
ok = (np.allclose(truth, truth_resized) and np.allclose(truth, nd) and np.allclose(truth, nd_resized))
print("agree:", ok, " max |diff| =", abs(nd_resized - truth).max())
sys.exit(0 if ok else 1)
