# probe F120 (properties C02, C03): exits 1 while the defect is present, 0 when it is gone
"""E(tau, T1, T2, order1=...) with relaxation times given as small-integer arrays (int16 / uint16 / uint8,
the usual storage of T1 / T2 maps): the operator itself is right (it only divides), but the closed-form
derivative arrays square the integer array (T1**2, T2**2) in its own dtype: 800**2 and 200**2 overflow
int16 and the T1 / T2 columns of the Jacobian are silently wrong (even the sign).

Ground truth: the same simulation with the same values as float arrays, and central finite differences."""
import sys
import numpy as np
import epgpy as epg

T1 = np.array([800, 1200], dtype=np.int16)
T2 = np.array([60, 200], dtype=np.int16)


def simulate(T1, T2, diff=True):
    relax = epg.E(10, T1, T2, order1=["T1", "T2"] if diff else False)
    seq = [epg.T(30, 90), relax, epg.ADC]
    if not diff:
        return np.stack(epg.simulate(seq, probe=["F0", "Z0"]))[:, 0]
    return np.stack(epg.simulate(seq, probe=[epg.Jacobian(["T1", "T2"], probe=p) for p in ("F0", "Z0")]))[:, 0]


print("signal identical for int16 and float parameters:", np.allclose(simulate(T1, T2, False), simulate(T1 * 1.0, T2 * 1.0, False)))
jac_int = simulate(T1, T2)
jac_flt = simulate(T1.astype(float), T2.astype(float))
h = 1e-4
fd = np.stack(
    [(simulate(T1 + h, T2, False) - simulate(T1 - h, T2, False)) / (2 * h), (simulate(T1, T2 + h, False) - simulate(T1, T2 - h, False)) / (2 * h)],
    axis=-1,
)
print("dZ0/dT1 int16 parameters  :", jac_int[1, :, 0].real)
print("dZ0/dT1 float parameters  :", jac_flt[1, :, 0].real)
print("dZ0/dT1 finite differences:", fd[1, :, 0].real)
print("dF0/dT2 int16 parameters  :", jac_int[0, :, 1].real)
print("dF0/dT2 float parameters  :", jac_flt[0, :, 1].real)
print("dF0/dT2 finite differences:", fd[0, :, 1].real)
ok = np.allclose(jac_int, jac_flt, rtol=1e-8, atol=1e-14) and np.allclose(jac_int, fd, rtol=1e-4, atol=1e-10)
print("AGREE" if ok else "DISAGREE")
sys.exit(0 if ok else 1)
