# probe F29 (properties C10): exits 1 while the defect is present, 0 when it is gone
"""'@' drops the mixed 2nd-order partials between the variables of its two operands.
T(order2='alpha') then E(order2='T2') applied in order yields order2[('T2','alpha')];
the combined operator T @ E silently loses it (Hessian probe returns 0)."""
import sys, warnings
import numpy as np
from epgpy import operators as ops, functions, statematrix

warnings.simplefilter("ignore")
al, ph, tau, T1, T2, g = 30.0, 20.0, 5.0, 100.0, 30.0, 0.1
rf = ops.T(al, ph, order2="alpha")
rlx = ops.E(tau, T1, T2, g, order2="T2")
hes = ops.Hessian(["alpha", "T2"])
spoil, adc = ops.S(1), ops.ADC
# second TR so that F0 depends on both variables
flat = functions.simulate([rf, rlx, spoil, rf, rlx, adc], probe=hes)[0, 0]
comb = functions.simulate([rf @ rlx, spoil, rf @ rlx, adc], probe=hes)[0, 0]


def f0(a, t2):  # plain simulation, no derivatives
    seq = [ops.T(a, ph), ops.E(tau, T1, t2, g), spoil, ops.T(a, ph), ops.E(tau, T1, t2, g), adc]
    return functions.simulate(seq)[0, 0]


h = 1e-3  # central finite difference of d2 F0 / dalpha dT2
fd = (f0(al + h, T2 + h) - f0(al + h, T2 - h) - f0(al - h, T2 + h) + f0(al - h, T2 - h)) / (4 * h * h)

sm = (rf @ rlx)(statematrix.StateMatrix())
sm_seq = rlx(rf(statematrix.StateMatrix()))
print("order2 keys, in order :", sorted(sm_seq.order2))
print("order2 keys, combined :", sorted(sm.order2))
print("d2F0/dalpha dT2  finite differences:", fd)
print("d2F0/dalpha dT2  flat sequence     :", flat[0, 1])
print("d2F0/dalpha dT2  with '@'          :", comb[0, 1])
ok = np.allclose(comb, flat, atol=1e-9) and np.isclose(comb[0, 1], fd, rtol=1e-4, atol=1e-9)
print("OK" if ok else "MISMATCH")
sys.exit(0 if ok else 1)
