# probe F152 (properties C11): exits 1 while the defect is present, 0 when it is gone
"""b1132fb: np.<ufunc>(array, Expression) builds an object array of expressions instead of an Expression."""
import sys
import numpy as np
from epgpy import sequence as sq

ops = sq.operators
a = sq.Variable("a")
arr = np.array([0.5, 1.0])
bad = 0

ref = sq.Sequence([ops.T(arr * a, 90), ops.E(5, 1000, 100), ops.ADC])(a=60.0)  # operator form: fine
for label, call in [
    ("np.multiply(arr, a)", lambda: np.multiply(arr, a)),
    ("np.multiply(a, arr)", lambda: np.multiply(a, arr)),
    # (the reviewer's third case, np.add(arr, a) - a, equals arr, not arr * a: removed, it cannot match the reference)
]:
    kind = "(call raised)"
    try:
        alpha = call()
        kind = type(alpha).__name__
        seq = sq.Sequence([ops.T(alpha, 90), ops.E(5, 1000, 100), ops.ADC])
        variables = set(map(str, seq.variables))
        sig = seq(a=60.0)
        ok = isinstance(alpha, sq.Expression) and variables == {"a"} and np.allclose(sig, ref)
        print(f"{label}: type {kind}, variables {variables}, signal ok: {bool(ok)}")
    except Exception as exc:
        ok = False
        print(f"{label}: type {kind}; simulation raises {type(exc).__name__}: {str(exc)[:90]}")
    bad += not ok
print("expected: an Expression of variable 'a' equal to arr * a (signal", np.round(ref.ravel(), 6), ")")
sys.exit(1 if bad else 0)
