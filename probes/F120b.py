# probe F120 (properties C02, C03): exits 1 while the defect is present, 0 when it is gone
"""Relaxation times given as an integer array (e.g. int32: the default integer of numpy < 2 on Windows, typical of
values read from files): the signal and the first derivatives are right, but the second derivatives with respect to
T1 / T2 are silently wrong: relaxation_d2_T1 / relaxation_d2_T2 evaluate tau**2 / T**4 - 2 * tau / T**3 in integer
arithmetic, and T**4 (T**3) overflows for T > 215 (1290) in int32 (T > 55108 in int64). No warning is raised."""
import sys
import numpy as np
import epgpy as epg

names = ["T1", "T2"]


def sequence(T1, T2, declare=True):
    kw = dict(order2=True) if declare else {}
    rlx, rf = epg.E(5, T1, T2, **kw), epg.T(30, 0)
    return [rf, rlx, epg.ADC, rlx, epg.S(1)] * 3


T1, T2 = [800, 1400], [60, 300]
sig_i = epg.simulate(sequence(np.array(T1, dtype=np.int32), np.array(T2, dtype=np.int32), False))
sig_f = epg.simulate(sequence(np.array(T1, dtype=float), np.array(T2, dtype=float), False))
print("signal, int32 vs float parameters, max deviation:", np.abs(sig_i - sig_f).max())

probes = [epg.Jacobian(names), epg.Hessian(names)]
jac_i, hes_i = epg.simulate(sequence(np.array(T1, dtype=np.int32), np.array(T2, dtype=np.int32)), probe=probes)
jac_f, hes_f = epg.simulate(sequence(np.array(T1, dtype=float), np.array(T2, dtype=float)), probe=probes)

# independent ground truth for the diagonal entries: finite differences of the signal (last echo)
def fd(which, k, h=0.5):
    def f(d):
        t1, t2 = float(T1[k]), float(T2[k])
        t1, t2 = (t1 + d, t2) if which == 0 else (t1, t2 + d)
        return epg.simulate(sequence(t1, t2, False))[-1, 0]
    return (f(h) - 2 * f(0) + f(-h)) / h**2

print("Jacobian, int32 vs float, max relative deviation:", np.abs(jac_i - jac_f).max() / np.abs(jac_f).max())
ok = True
for k in range(2):
    for v, name in enumerate(names):
        got, ref, ref_fd = hes_i[-1, k, v, v].imag, hes_f[-1, k, v, v].imag, fd(v, k).imag
        bad = abs(got - ref) > 1e-6 * abs(ref)
        ok &= not bad
        print(f"T1={T1[k]}, T2={T2[k]}: d2 Im(F0)/d{name}2 int32 {got: .6e} | float {ref: .6e} | finite diff. {ref_fd: .6e}" + ("   <-- wrong" if bad else ""))
print("OK" if ok else "MISMATCH: integer overflow in the second-order relaxation derivatives")
sys.exit(0 if ok else 1)
