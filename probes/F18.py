# probe F18 (properties C02, C07): exits 1 while the defect is present, 0 when it is gone
"""R(rT, rL, r0=...) with parameters of different ranks: the operator aligns them on the first
axes, but the derivative arrays d/drL, d/dr0 (and d/drT) are aligned on the last axis."""
import sys
import numpy as np
from epgpy import operators as ops, functions
from epgpy.diff import Jacobian

rT = np.array([[0.1, 0.2, 0.3], [0.4, 0.5, 0.6], [0.7, 0.8, 0.9]])  # shape (3, 3)
rL = np.array([0.05, 0.5, 1.5])  # shape (3,): goes with axis 0 of rT
r0 = np.array([0.3, 0.6, 2.0])  # shape (3,)
variables = ["rT", "rL", "r0"]


def seq(rT, rL, r0):
    r = ops.R(rT, rL, r0=r0, order1=True)
    return [ops.T(40.0, 30.0), r, ops.T(70.0, 0.0), r, ops.ADC]


jac = functions.simulate(seq(rT, rL, r0), probe=Jacobian(variables, probe="Z0"))[0]  # (3, 3, nvar)
sig = functions.simulate(seq(rT, rL, r0), probe="Z0")[0]
# ground truth: scalar simulation for every index pair (i, j) -> (rT[i, j], rL[i], r0[i])
ref = np.zeros((3, 3, 3), dtype=complex)
for i in range(3):
    for j in range(3):
        assert np.isclose(sig[i, j], functions.simulate(seq(rT[i, j], rL[i], r0[i]), probe="Z0")[0, 0])
        ref[i, j] = functions.simulate(seq(rT[i, j], rL[i], r0[i]), probe=Jacobian(variables, probe="Z0"))[0, 0]
np.set_printoptions(precision=4, suppress=True)
bad = False
for n, var in enumerate(variables):
    print(f"dZ0/d{var} vectorised:\n", jac[..., n].real, "\nper-index scalar simulations:\n", ref[..., n].real)
    bad |= not np.allclose(jac[..., n], ref[..., n], atol=1e-10)
sys.exit(1 if bad else 0)
