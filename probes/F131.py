# probe F131 (properties C03, C20): exits 1 while the defect is present, 0 when it is gone
"""order2 given as a LIST of parameter names (documented: "str <parameter name> (or list of): compute all 2nd order
partial derivatives for selected variables"; docs/differentiation.md: "passing single parameters (not pairs) to the
`order2` keyword automatically activates 1st and 2nd order differentiation with respect to these parameters")
raises ValueError('order1 must be set.'), whereas the single-name form order2="T2" activates order1 by itself."""
import sys
import numpy as np
import epgpy as epg


def sequence(alpha, T2, tau, form):
    if form == "none":
        rf, rlx = epg.T(alpha, 90), epg.E(tau, 1400, T2)
    elif form == "list":  # automatic mode, list of names
        rf, rlx = epg.T(alpha, 90, order2=["alpha"]), epg.E(tau, 1400, T2, order2=["T2", "tau"])
    elif form == "reference":  # the same request, spelled with order1 as well (accepted)
        rf = epg.T(alpha, 90, order1=["alpha"], order2=["alpha"])
        rlx = epg.E(tau, 1400, T2, order1=["T2", "tau"], order2=["T2", "tau"])
    return [rf, rlx, epg.ADC, rlx, epg.S(1)] * 4


x0 = (30.0, 40.0, 5.0)
names = ["alpha", "T2", "tau"]
ref = epg.simulate(sequence(*x0, "reference"), probe=epg.Hessian(names))
# ground truth for one entry: finite differences of the signal, d2/dT2 dtau at the last echo
f = lambda a, t2, tau: epg.simulate(sequence(a, t2, tau, "none"))[-1, 0]
h = 0.05
fd = (f(30, 40 + h, 5 + h) - f(30, 40 + h, 5 - h) - f(30, 40 - h, 5 + h) + f(30, 40 - h, 5 - h)) / (4 * h * h)
print(f"d2 F0/dT2 dtau at the last echo: finite differences {fd:.6e}, order1+order2 lists {ref[-1, 0, 1, 2]:.6e}")

try:
    hes = epg.simulate(sequence(*x0, "list"), probe=epg.Hessian(names))
except Exception as exc:
    print("order2=[names] alone -> exception:", repr(exc))
    sys.exit(1)
err = np.abs(hes - ref).max() / np.abs(ref).max()
print(f"order2=[names] alone: {hes[-1, 0, 1, 2]:.6e}, max relative deviation from the reference {err:.1e}")
sys.exit(0 if err < 1e-10 else 1)
