# probe F42 (properties C15): exits 1 while the defect is present, 0 when it is gone
"""The property says weights, phase and modulation are equivalent whether they come from System()
or from the probe's own arguments.  weights and modulation are read from the system arrays,
`phase` is not: System(phase=...) is silently ignored by Imaging.
Closed form: T(90, 90) gives M+ = 1, S(1) gives exp(i x); a phase offset of p degrees
multiplies the probed value by exp(i p pi / 180)."""
import sys
import numpy as np
import epgpy as epg

pos = np.array([[0.3], [-0.4]])
p = 30.0
expected = np.exp(1j * pos[:, 0]) * np.exp(1j * np.deg2rad(p))
core = [epg.T(90, 90), epg.S(1)]

own = epg.simulate(core + [epg.Imaging(pos, voxel_shape="point", reduce=False, phase=p)])[0, 0]
sys_ = epg.simulate([epg.System(phase=p)] + core + [epg.Imaging(pos, voxel_shape="point", reduce=False)])[0, 0]
# control: same comparison for weights and modulation-free path
w_own = epg.simulate(core + [epg.Imaging(pos, voxel_shape="point", reduce=False, weights=2.0)])[0, 0]
w_sys = epg.simulate([epg.System(weights=2.0)] + core + [epg.Imaging(pos, voxel_shape="point", reduce=False)])[0, 0]

print("expected            :", np.round(expected, 4))
print("Imaging(phase=30)   :", np.round(own, 4), "OK" if np.allclose(own, expected) else "MISMATCH")
print("System(phase=30)    :", np.round(sys_, 4), "OK" if np.allclose(sys_, expected) else "MISMATCH (phase ignored)")
print("control weights=2 own/system:", np.round(w_own, 4), np.round(w_sys, 4))
ok = np.allclose(own, expected) and np.allclose(sys_, expected) and np.allclose(w_own, w_sys)
sys.exit(0 if ok else 1)
