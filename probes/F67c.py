# probe F67 (properties C17, C11, C19): exits 1 while the defect is present, 0 when it is gone
"""Sequence.jacobian / Sequence.hessian replace the sequence's own Adc (attr=, weights=, reduce=) by the default F0 ADC:
asking for derivatives changes the simulated signal, and the Jacobian is the one of F0, not of the acquired quantity.
Ground truth: seq.signal(...) itself and its central finite differences.
"""
import sys, warnings
import numpy as np
from epgpy.sequence import Sequence, Variable, operators as vo

warnings.simplefilter("ignore")
a, T1, T2 = Variable("a"), Variable("T1"), Variable("T2")
vals = dict(a=30.0, T1=800.0, T2=50.0)


def fd(seq, var, h=1e-4):
    vp, vm = dict(vals), dict(vals)
    vp[var] += h
    vm[var] -= h
    return (seq.signal(**vp) - seq.signal(**vm)) / (2 * h)


ok = True
# 1. ADC recording the longitudinal magnetisation
seq = Sequence([vo.T(a, 90), vo.E(5, T1, T2), vo.S(1), vo.T(a, 0), vo.S(1), vo.E(5, T1, T2), vo.Adc(attr="Z0")])
sig = seq.signal(**vals)
sig_j, jac = seq.jacobian(["a", "T1"], **vals)
sig_h, _, hes = seq.hessian(["a"], **vals)
truth = np.stack([fd(seq, "a"), fd(seq, "T1")], axis=-1)
print("Adc(attr='Z0')  seq.signal      :", sig.ravel())
print("                jacobian()[0]   :", sig_j.ravel(), "  hessian()[0]:", sig_h.ravel())
print("                jacobian()[1]   :", jac.ravel())
print("                finite diff     :", truth.ravel())
ok &= np.allclose(sig_j, sig) and np.allclose(sig_h, sig) and np.allclose(jac, truth, rtol=1e-5, atol=1e-10)

# 2. ADC summing the batch axis with weights
seq = Sequence([vo.T(a, 90), vo.E(5, T1, T2), vo.Adc(weights=[0.2, 0.8])])
vals["T2"] = np.array([40.0, 60.0])
sig = seq.signal(**vals)
sig_j, jac = seq.jacobian(["a"], **vals)
truth = fd(seq, "a")[..., None]
print("Adc(weights=..) seq.signal      :", sig.shape, sig.ravel())
print("                jacobian()[0]   :", sig_j.shape, sig_j.ravel())
print("                jacobian()[1]   :", jac.shape, jac.ravel(), " finite diff:", truth.shape, truth.ravel())
ok &= sig_j.shape == sig.shape and np.allclose(sig_j, sig) and jac.shape == truth.shape and np.allclose(jac, truth, rtol=1e-5)

print("OK" if ok else "DEFECT: activating differentiation changed the simulated signal")
sys.exit(0 if ok else 1)
