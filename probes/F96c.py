# probe F96 (properties C19, C02, C03, C09): exits 1 while the defect is present, 0 when it is gone
"""simulate(seq, init=<state matrix carrying partials>, max_nstate=N): the option reaches the state matrix
but not the partial-derivative state matrices it carries: the signal is truncated to N phase states, its
Jacobian / Hessian are not (silently wrong), or, once an operator carries the variable again, ValueError."""
import sys
import numpy as np
import epgpy as epg

names = ["alpha", "T2"]
# stage 2 does not depend on the variables: a refocusing train with a state cap
stage2 = [epg.T(120, 0), epg.S(1), epg.E(5, 600, 70.0), epg.ADC, epg.E(5, 600, 70.0), epg.S(1)] * 5


def run(alpha, T2, declare, **opts):
    kw = dict(order2=True) if declare else {}
    sm = epg.StateMatrix()
    for op in [epg.T(alpha, 90, **kw), epg.E(5, 600, T2, **kw), epg.S(1)]:  # stage 1 (automatic mode)
        sm = op(sm)
    probe = [epg.Hessian(names)] if declare else None
    return epg.simulate(stage2, init=sm, probe=probe, **opts)


def fd_hessian(f, x, h):
    """central finite differences of the (truncated) signal itself"""
    n = len(x)
    H = np.zeros(f(*x).shape + (n, n), dtype=complex)
    for i in range(n):
        for j in range(n):
            def ev(si, sj):
                y = list(x)
                y[i] += si * h[i]
                y[j] += sj * h[j]
                return f(*y)
            H[..., i, j] = (ev(1, 1) - ev(1, -1) - ev(-1, 1) + ev(-1, -1)) / (4 * h[i] * h[j]) if i != j else (
                ev(0.5, 0.5) - 2 * ev(0, 0) + ev(-0.5, -0.5)) / h[i] ** 2
    return H


x0, h = [70.0, 60.0], [0.5, 0.5]
ok = True
for opts in ({}, {"max_nstate": 2}):
    try:
        hes = run(*x0, True, **opts)
    except Exception as exc:
        print(opts, "-> exception:", repr(exc))
        ok = False
        continue
    ref = fd_hessian(lambda a, t: run(a, t, False, **opts), x0, h)
    err = np.abs(hes - ref).max() / np.abs(ref).max()
    print(f"options {opts}: last echo  d2/dalpha2 = {hes[-1, 0, 0, 0].real:.6e} (finite differences {ref[-1, 0, 0, 0].real:.6e}),"
          f"  d2/dalpha dT2 = {hes[-1, 0, 0, 1].real:.6e} ({ref[-1, 0, 0, 1].real:.6e}),  max rel. error {err:.1e}")
    ok &= err < 1e-4
print("OK" if ok else "MISMATCH: the partials carried by `init` ignore the simulate() options")
sys.exit(0 if ok else 1)
