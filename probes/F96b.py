# probe F96 (properties C19, C02, C03, C09): exits 1 while the defect is present, 0 when it is gone
"""simulate(seq, init=<StateMatrix carrying partials>, max_nstate=n): the state-matrix options are applied
to the main state matrix only; the partial-derivative state matrices copied from `init` keep the old
options (no cap), so they evolve through the shifts with a different number of phase states.
The signal is right, the Jacobian is the one of the UN-capped simulation (silently), or the next
operator that differentiates the same variable raises 'operands could not be broadcast'.

Ground truth: (a) the same operators simulated in one go with the same option, (b) central finite
differences of the continued simulation itself."""
import sys
import numpy as np
import epgpy as epg

relax = epg.E(5, 800, 50)
rest = [epg.S(1), relax, epg.T(60, 0), epg.S(1), relax, epg.T(60, 0), epg.S(-1), relax, epg.T(60, 0), epg.S(-1), epg.ADC]
opts = {"max_nstate": 1}


def excitation(alpha, diff=True):
    return epg.T(alpha, 0, order1="alpha" if diff else False)


def continued(alpha, diff=True):
    sm = excitation(alpha, diff)(epg.StateMatrix())  # carries sm.order1['alpha']
    return epg.simulate(rest, init=sm, probe=epg.Jacobian(["alpha"]) if diff else None, **opts)


one_go = epg.simulate([excitation(30.0)] + rest, probe=epg.Jacobian(["alpha"]), **opts)[0, 0, 0]
observed = continued(30.0)[0, 0, 0]
h = 1e-6
fdiff = ((continued(30 + h, False) - continued(30 - h, False)) / (2 * h))[0, 0]
uncapped = epg.simulate([excitation(30.0)] + rest, probe=epg.Jacobian(["alpha"]))[0, 0, 0]

print("dF0/dalpha, simulate(rest, init=sm, max_nstate=1):", observed)
print("dF0/dalpha, one simulation with max_nstate=1     :", one_go)
print("dF0/dalpha, finite differences of the former     :", fdiff)
print("(dF0/dalpha without any cap                      :", uncapped, ")")
ok = np.isclose(observed, one_go, rtol=1e-6, atol=1e-10) and np.isclose(observed, fdiff, rtol=1e-4, atol=1e-8)
print("AGREE" if ok else "DISAGREE")
sys.exit(0 if ok else 1)
