# probe F145 (properties C14): exits 1 while the defect is present, 0 when it is gone
"""8904cb4 incomplete: float32 parameters given as numpy *scalars* or 0-d arrays (an element b1map[i] of a
float32 map, or a float32 scalar next to a float32 map) are not promoted: T, Phi, P are still evaluated in
single precision (isometries only to 1e-7, the error accumulates)."""
import sys
import numpy as np
import epgpy as epg
from epgpy import operators as ops

f32 = np.float32
amap = np.array([33.3, 41.0], dtype=f32)  # flip-angle (B1) map
gmap = np.array([0.013, 0.021], dtype=f32)  # B0 map (kHz)


def energy(sm):
    s = sm.states
    return float(np.sum(np.abs(s[..., 0]) ** 2 + np.abs(s[..., 1]) ** 2 + 2 * np.abs(s[..., 2]) ** 2))


def drift(op, nrep=2000):
    sm = epg.StateMatrix([1, 1, 0.5], shape=op.shape)
    e0 = energy(sm)
    for _ in range(nrep):
        sm = op(sm)
    return abs(energy(sm) / e0 - 1)


cases = {
    "T(float32 map, float32 map)   [repaired form]": (ops.T(amap, np.array([77.7, 12.0], dtype=f32)), ops.T(amap.astype(float), np.array([77.7, 12.0], dtype=f32).astype(float))),
    "T(amap[0], float32(77.7))     [numpy scalars]": (ops.T(amap[0], f32(77.7)), ops.T(float(amap[0]), float(f32(77.7)))),
    "T(float32 map, float32(77.7)) [map + scalar]": (ops.T(amap, f32(77.7)), ops.T(amap.astype(float), float(f32(77.7)))),
    "Phi(0-d float32 array)": (ops.Phi(np.array(77.7, dtype=f32)), ops.Phi(float(f32(77.7)))),
    "P(float32 map tau, gmap[0])": (ops.P(np.array([1.7, 2.9], dtype=f32), gmap[0]), ops.P(np.array([1.7, 2.9], dtype=f32).astype(float), float(gmap[0]))),
}
bad = 0
for name, (op, ref) in cases.items():
    coef = op.arr if hasattr(op, "arr") else op.mat
    cref = ref.arr if hasattr(ref, "arr") else ref.mat
    err, d = np.abs(coef - cref).max(), drift(op)
    ok = err < 1e-13 and d < 1e-11
    bad += not ok
    print(f"{name}: coefficient error {err:.1e} (expected < 1e-13), energy drift after 2000 applications {d:.1e} (expected < 1e-11) -> {'ok' if ok else 'WRONG'}")
sys.exit(1 if bad else 0)
