# probe F52 (properties C05, C14, C07): exits 1 while the defect is present, 0 when it is gone
"""C05 defect 4: D.shape / the constructor check align the batch axes of tau, D and k by their LAST
axes (numpy style), whereas D._apply (and every other operator) aligns them from the FIRST axis.
tau[i, j] with one tensor / one shift per i (shapes (2,3), (2,3,3), (2,3)) is rejected, while the
transposed tau (3,2) is accepted with a shape that _apply cannot honour."""
import sys
import numpy as np
from epgpy import operators as ops, functions

kv = 3e4
T, S, D, ADC = ops.T, ops.S, ops.D, ops.ADC
taus = np.array([[1.0, 2.0, 4.0], [3.0, 5.0, 0.5]])  # (2, 3)
ks = np.array([[1, 0, 0], [0, 2, 1]])  # one 3-D shift per first-axis entry
Ds = np.stack([np.diag([1.0, 2.0, 3.0]), np.array([[2, 0.3, 0.1], [0.3, 1, 0.2], [0.1, 0.2, 0.5]])])


def seq(tau, Dv, k, dop=None):
    dop = dop or D(tau, Dv, k)
    return [T(90, 90), S(k), dop, T(180, 0), S(k), dop, ADC]


# ground truth: one scalar simulation per (i, j)
ref = np.array([[np.ravel(functions.simulate(seq(taus[i, j], Ds[i], ks[i]), kvalue=kv))[0] for j in range(3)] for i in range(2)])
print("expected |F0| (2x3):\n", abs(ref))
bad = False
try:
    dop = D(taus, Ds, ks)
    print("D(tau(2,3), D(2,3,3), k(2,3)).shape =", dop.shape)
    obs = np.asarray(functions.simulate(seq(taus, Ds, ks, dop), kvalue=kv))[0]
    print("observed |F0|:\n", abs(obs))
    bad |= obs.shape != ref.shape or not np.allclose(obs, ref)
except Exception as exc:
    print(f"RAISED {type(exc).__name__}: {exc}")
    bad = True
# the transposed tau is accepted (trailing alignment) although the batch axis of D/k is the first one
try:
    print("D(tau(3,2), D(2,3,3), k(2,3)).shape =", D(taus.T, Ds, ks).shape, "(should be rejected)")
    bad = True
except ValueError:
    print("transposed tau rejected (fine)")
sys.exit(1 if bad else 0)
