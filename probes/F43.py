# probe F43 (properties C16): exits 1 while the defect is present, 0 when it is gone
"""ArrayCollection.update() (and StateMatrix.copy(states=/equilibrium=/coords=), states setter) assigns in place
with NumPy trailing-axis broadcasting/casting instead of the collection's own rules (zero padding of named axes,
expand-axis convention, value preservation)."""
import sys
import numpy as np
from epgpy import operators as ops
from epgpy.statematrix import ArrayCollection, StateMatrix

bad = 0
def report(label, observed, expected):
    global bad
    ok = np.shape(observed) == np.shape(expected) and np.allclose(observed, expected)
    bad += not ok
    print(f"{label}\n  observed: {np.asarray(observed).tolist()}\n  expected: {np.asarray(expected).tolist()}  {'ok' if ok else 'MISMATCH'}")

# (a) new equilibrium with 1 state on a 5-state matrix: must be zero padded (as the constructor does), not replicated
ref = StateMatrix([0, 0, 1], equilibrium=[0, 0, 2], nstate=2)
new = StateMatrix([0, 0, 1], nstate=2).copy(equilibrium=[0, 0, 2])
report("copy(equilibrium=[0,0,2]): Z equilibrium per state", new.equilibrium[0, :, 2].real, ref.equilibrium[0, :, 2].real)
relax = ops.E(50, 100, 30)
report("Z states after E(50,100,30)", relax(new).Z[0].real, relax(ref).Z[0].real)
new = StateMatrix(nstate=2).copy([[0.5, 0.5, 1]])
report("copy(states=[[.5,.5,1]]): F per state", new.F[0].real, [0, 0, 0.5, 0, 0])

# (b) same rule at the container level: update(resize=True) vs the padding rule of set(resize=True)
coll = ArrayCollection()
coll.set("ref", np.zeros((1, 5)), layout=[..., "n"])
coll.set("a", np.zeros((1, 5)), layout=[..., "n"])
coll.update("a", np.array([[7.0]]), resize=True)
report("update('a', [[7]], resize=True) on named axis of size 5", coll.get("a"), [[0, 0, 7, 0, 0]])

# (c) expand_axis=-1 (new axes are appended): a rank-1 update must vary along the FIRST axis, as set() does
coll = ArrayCollection(expand_axis=-1)
coll.set("b", np.zeros((2, 2)))
coll.set("a", np.zeros((2, 2)))
coll.update("a", np.array([10.0, 20.0]))
report("expand_axis=-1: update('a', [10,20]) in a (2,2) collection", coll.get("a"), [[10, 10], [20, 20]])

# (d) values are truncated when the stored array is of integer type (e.g. the coordinates of setup_coords)
sm = StateMatrix(nstate=1)
sm.setup_coords(1)
report("copy(coords=coords/2)", sm.copy(coords=sm.coords / 2).coords[0, :, 0], [-0.5, 0, 0.5])

sys.exit(1 if bad else 0)
