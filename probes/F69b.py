# probe F69 (properties C05, C20): exits 1 while the defect is present, 0 when it is gone
"""C05 defect 2: D(tau, D, k) with a scalar k (the companion of S(k)) on a state matrix whose
coordinates have several columns (after a 3-D shift, or with time accumulation C(tau)):
S(1) shifts along the first axis only, but D subtracts k*kvalue from EVERY coordinate column
to get the pre-shift wavenumber, so the ramp b-matrix is wrong (silently over-attenuated)."""
import sys
import numpy as np
from epgpy import operators as ops, functions

kv, tau, d = 3e4, 2.0, 1.5  # rad/m, ms, mm^2/s
T, S, D, C, ADC = ops.T, ops.S, ops.D, ops.C, ops.ADC
expected = np.exp(-2 / 3 * (kv * 1e-3) ** 2 * tau * 1e-3 * d)  # spin echo, two ramps 0->k


def echo(seq, **opts):
    out = functions.simulate(seq, kvalue=kv, asarray=False, **opts)
    return abs(np.sum(out[0]))


cases = {
    # reference: plain 1-D phase states
    "1-D: S(1), D(k=1)": echo([T(90, 90), S(1), D(tau, d, 1), T(180, 0), S(1), D(tau, d, 1), ADC]),
    # same sequence with time accumulation (coords = kx, ky, kz, t)
    "S(1), C(tau), D(k=1)": echo(
        [T(90, 90), S(1), C(tau), D(tau, d, 1), T(180, 0), S(1), C(tau), D(tau, d, 1), ADC], kgrid=1e-3
    ),
    "S(1), C(tau), D(k=[1,0,0])": echo(
        [T(90, 90), S(1), C(tau), D(tau, d, [1, 0, 0]), T(180, 0), S(1), C(tau), D(tau, d, [1, 0, 0]), ADC], kgrid=1e-3
    ),
    # 3-D coordinates (a y-gradient was played and rewound before), then the 1-D forms S(1), D(k=1)
    "3-D coords: S(1), D(k=1)": echo(
        [T(90, 90), S([0, 1, 0]), S([0, -1, 0]), S(1), D(tau, d, 1), T(180, 0), S(1), D(tau, d, 1), ADC]
    ),
}
bad = False
for name, obs in cases.items():
    ok = np.isclose(obs, expected, rtol=1e-6)
    bad |= not ok
    print(f"{name:30s} observed {obs:.6e}  expected {expected:.6e}  {'ok' if ok else 'WRONG'}")
sys.exit(1 if bad else 0)
