# probe F85 (properties C17): exits 1 while the defect is present, 0 when it is gone
"""confint / crlb_split update their result in place: inputs whose batch shape is larger
than the Jacobian's (several observation vectors or weight sets for one Jacobian) raise."""
import sys
import numpy as np
from epgpy import stats

rng = np.random.default_rng(0)
B, n, p = 4, 7, 3
jac = rng.normal(size=(n, p)) + 1j * rng.normal(size=(n, p))  # one model Jacobian
pred = rng.normal(size=n) + 1j * rng.normal(size=n)
obs = pred + 0.1 * (rng.normal(size=(B, n)) + 1j * rng.normal(size=(B, n)))  # B noisy observations
tval = 2.7764451051977987  # t quantile, 95%, 4 degrees of freedom
inv = np.linalg.inv((jac.conj().T @ jac).real)
expected = np.array(
    [tval * np.sqrt(np.diag(inv) * np.sum(abs(obs[b] - pred) ** 2) / (n - p)) for b in range(B)]
)
ok = True
print("confint(obs[B, n], pred[n], jac[n, p])")
try:
    cints, cband = stats.confint(obs, pred, jac)
    print("  observed    :", cints.tolist())
    ok &= np.allclose(cints, expected)
except Exception as exc:
    print("  raised", type(exc).__name__, exc)
    ok = False
print("  ground truth:", expected.tolist())
# the same call goes through (and is right) as soon as a Hessian is passed
cints, _ = stats.confint(obs, pred, jac, np.zeros((n, p, p)))
print("  with a zero Hessian:", np.allclose(cints, expected))

W = rng.uniform(1, 2, size=(B, p))  # B weight sets for one Jacobian
expected = (W * np.diag(inv)).T
print("crlb_split(J[n, p], W[B, p])   (crlb(J, W=W) accepts it:", np.allclose(stats.crlb(jac, W=W), expected.sum(0)), ")")
try:
    split = stats.crlb_split(jac, W=W)
    print("  observed    :", split.tolist())
    ok &= np.allclose(split, expected)
except Exception as exc:
    print("  raised", type(exc).__name__, exc)
    ok = False
print("  ground truth:", expected.tolist())
sys.exit(0 if ok else 1)
