# probe F24 (properties C04): exits 1 while the defect is present, 0 when it is gone
"""1-D integer back-end (S(int)) shifts `sm.states` in place, but `sm.states` is a read-only broadcast
view whenever another array of the state matrix (equilibrium set by PD(..., reset=False) or density=,
coordinates written by a batched shift) has a batch axis that the stored states do not have:
S(1) raises "assignment destination is read-only" where the n-D back-end S([1]) works.
Same root: SPOILER right after a batched S applied to un-batched states.  Ground truth: Bloch."""
import sys
import numpy as np
import epgpy as epg

x = 0.7  # position (m)
pd = np.array([1.0, 2.0])


def run(s1, s2):
    sm = epg.PD(pd, reset=False)(epg.T(30, 0)(epg.StateMatrix()))  # two densities, states untouched
    sm = s2(epg.T(60, 0)(epg.E(10.0, 100.0, 50.0)(s1(sm))))
    return np.broadcast_to((sm.F * np.exp(1j * sm.k[..., 0] * x)).sum(-1), (2,))  # M+ at x


def spoil():
    sm = epg.S([[1], [2]])(epg.T(30, 0)(epg.StateMatrix()))  # per-entry shift, states not batched
    sm = epg.SPOILER(sm)
    return np.broadcast_to(sm.F0, (2,))


def bloch(m0):
    a, b = np.deg2rad(30), np.deg2rad(60)
    mxy, mz = -1j * np.sin(a), np.cos(a)  # T(30, 0) on Mz=1 (before PD changes the equilibrium)
    mxy, mz = mxy * np.exp(1j * x) * np.exp(-10 / 50), mz * np.exp(-0.1) + m0 * (1 - np.exp(-0.1))
    mxy = np.cos(b / 2) ** 2 * mxy + np.sin(b / 2) ** 2 * np.conj(mxy) - 1j * np.sin(b) * mz
    return mxy * np.exp(-1j * x)


ref = np.array([bloch(m0) for m0 in pd])
cases = {"S([1]) .. S([-1]) (n-D)": (lambda: run(epg.S([1]), epg.S([-1])), ref),
         "S(1) .. S(-1)     (1-D)": (lambda: run(epg.S(1), epg.S(-1)), ref),
         "S(batched), SPOILER: F0": (spoil, np.zeros(2))}
ok = True
for name, (func, expected) in cases.items():
    try:
        out = func()
        good = np.allclose(out, expected)
    except Exception as exc:
        out, good = f"{type(exc).__name__}: {exc}", False
    print(f"{name}: observed={out}\n{'':25s}expected={expected}  {'ok' if good else 'FAIL'}")
    ok &= bool(good)
sys.exit(0 if ok else 1)
