# probe F147 (properties C07, C02): exits 1 while the defect is present, 0 when it is gone
"""b4837ea (and the same idiom in fa7d179) regression: with a tuple `axes` that leaves a gap after the
axes used by a lower-rank array, `set_axes(0, array, axes)` asks for more new axes than the array can take:
AxisError. Before, the coefficient / duration stayed on grid axis 0, which is right when axes[0] == 0."""
import sys
import numpy as np
from epgpy import operators as ops, functions

rng = np.random.default_rng(0)
a, b, c = 2, 3, 2
alpha = rng.uniform(20, 60, (a, b, c))  # 3-d flip angle array placed on grid axes (0, 1, 3)
coef = rng.uniform(0.5, 2, a)  # d(alpha)/dv, one value per entry of the first axis
tau = rng.uniform(1, 5, a)
T1 = rng.uniform(500, 900, (a, b, c))
bad = 0

try:  # b4837ea: 1-d order1 coefficient of a 3-d parameter
    op = ops.T(alpha, 90, axes=(0, 1, 3), order1={"v": {"alpha": coef}})
    jac = functions.simulate([op, ops.ADC], probe=ops.Jacobian(["v"]))[0, ..., 0]
    ref = np.array([[[functions.simulate(
        [ops.T(alpha[i, j, k], 90, order1={"v": {"alpha": coef[i]}}), ops.ADC], probe=ops.Jacobian(["v"]))[0, 0, 0]
        for k in range(c)] for j in range(b)] for i in range(a)])
    ok = jac.shape == (a, b, 1, c) and np.allclose(jac[:, :, 0], ref)
    print(f"T(axes=(0,1,3), 1-d coefficient): Jacobian shape {jac.shape}, equal to per-index simulations: {ok}")
except Exception as exc:
    ok = False
    print(f"T(axes=(0,1,3), 1-d coefficient): {type(exc).__name__}: {exc}")
bad += not ok

try:  # fa7d179: 1-d tau (duration=True) next to a 3-d T1
    op = ops.E(tau, T1, 50.0, axes=(0, 1, 3), duration=True)
    dur = np.asarray(op.duration)
    ok = op.shape == (a, b, 1, c) and np.allclose(dur.reshape(dur.shape + (1,) * (4 - dur.ndim)), tau[:, None, None, None])
    print(f"E(axes=(0,1,3), 1-d tau, duration=True): duration shape {dur.shape}, on grid axis 0: {ok}")
except Exception as exc:
    ok = False
    print(f"E(axes=(0,1,3), 1-d tau, duration=True): {type(exc).__name__}: {exc}")
bad += not ok
print("expected: both operators are built (shape (2, 3, 1, 2)), coefficient / duration on grid axis 0 as before")
sys.exit(1 if bad else 0)
