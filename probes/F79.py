# probe F79 (properties C14): exits 1 while the defect is present, 0 when it is gone
"""StateMatrix.norm is not the r.m.s. magnetisation length when the shifts differ per batch entry.

With S(k) carrying one shift per batch entry, a wavenumber of ONE entry can be stored in several rows of the
shared state table (F0/Z0 were taught to add such rows up, `norm` was not): the rows are squared one by one.
Ground truth: (a) the same sequence run entry by entry, (b) a Bloch simulation of 64 isochromats per entry.
"""
import sys
import numpy as np
import epgpy as epg

K = [np.array([[1], [1]]), np.array([[2], [1]]), np.array([[1], [1]])]  # per-entry shifts of the 3 gradients
RF = [(60, 20), (70, 50), (50, 0), (40, 10)]
TAU, T1, T2 = 5.0, 50.0, 20.0

def run(ks):
    sm = epg.StateMatrix()
    for (a, p), k in zip(RF, ks):
        sm = epg.E(TAU, T1, T2)(epg.S(k)(epg.T(a, p)(sm)))
    return epg.T(*RF[-1])(sm)

def bloch_rms(ks, n=64):
    x = 2 * np.pi * np.arange(n) / n
    mp, mz = np.zeros(n, complex), np.ones(n, complex)
    for (a, p), k in zip(RF, list(ks) + [None]):
        a, p = np.deg2rad(a), np.deg2rad(p)
        c2, s2, e = np.cos(a / 2) ** 2, np.sin(a / 2) ** 2, np.exp(1j * p)
        mp, mz = (c2 * mp + e**2 * s2 * mp.conj() - 1j * e * np.sin(a) * mz,
                  -0.5j * np.sin(a) * (mp / e - e * mp.conj()) + np.cos(a) * mz)
        if k is not None:  # gradient, then relaxation
            mp = mp * np.exp(1j * k * x) * np.exp(-TAU / T2)
            mz = mz * np.exp(-TAU / T1) + 1 - np.exp(-TAU / T1)
    return np.sqrt(np.mean(np.abs(mp) ** 2 + np.abs(mz) ** 2))

batched = run(K)
ok = True
for i in range(2):
    single = run([k[i] for k in K])
    truth = bloch_rms([int(k[i, 0]) for k in K])
    print(f"entry {i}: batched sm.norm = {batched.norm[i]:.6f}   entry alone: {single.norm[0]:.6f}"
          f"   Bloch r.m.s. |M|: {truth:.6f}   (F0 agrees: {np.isclose(batched.F0[i], single.F0[0])})")
    ok &= bool(np.isclose(batched.norm[i], truth))

# same attribute, wrong shape: it is computed on the stored (not broadcast) states
sm = epg.StateMatrix([1, 1, 0], density=[1, 2, 3])
print("shape of the state matrix:", sm.shape, "  shape of sm.norm:", np.shape(sm.norm))
ok &= np.shape(sm.norm) == tuple(sm.shape)
sys.exit(0 if ok else 1)
