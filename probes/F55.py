# probe F55 (properties C19): exits 1 while the defect is present, 0 when it is gone
"""R(rT, rL) (r0 left at its default None) cannot be differentiated with order1=True / order2=True ("compute all"):
AssertionError('r0 cannot be None') from the r0 derivative, although rT and rL are perfectly differentiable.
Ground truth: the same operator with the parameters named explicitly, and the closed form d/drT exp(-rT) = -exp(-rT).
"""
import sys, warnings
import numpy as np
import epgpy as epg

warnings.simplefilter("ignore")
rT, rL = 0.3, 0.1
sm0 = epg.StateMatrix([1, 1, 0.5])
ref = epg.R(rT, rL, order1=["rT", "rL"], order2=["rT", "rL"])(sm0)
print("explicit names: signal", ref.F0, " dF0/drT", ref.order1["rT"].F0, " closed form", -np.exp(-rT),
      " d2F0/drT2", ref.order2[("rT", "rT")].F0)

ok = True
for kwargs in (dict(order1=True), dict(order2=True)):
    try:
        sm = epg.R(rT, rL, **kwargs)(sm0)
        same = np.allclose(sm.states, ref.states) and np.allclose(sm.order1["rT"].states, ref.order1["rT"].states)
        print(f"R(rT, rL, {kwargs}): signal", sm.F0, " dF0/drT", sm.order1["rT"].F0, " same as explicit:", same)
        ok &= same
    except Exception as exc:
        print(f"R(rT, rL, {kwargs}) raised {exc!r}  (expected: signal {ref.F0}, dF0/drT {ref.order1['rT'].F0})")
        ok = False
print("OK" if ok else "DEFECT: activating all derivatives of R raises when r0 is not given")
sys.exit(0 if ok else 1)
