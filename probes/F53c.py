# probe F53 (properties C11, C03, C19): exits 1 while the defect is present, 0 when it is gone
"""Sequence.hessian drops the second derivative of a parameter expression when it is below numpy's absolute tolerance
(np.allclose(d2param, 0), atol=1e-8): the Hessian depends on the units (scale) of the variable.
Flip angle alpha = 1e-9 * x**2 (degrees) with x = 2e5  <=>  alpha = 10 * y**2 with y = x / 1e5 = 2.
Ground truth: central finite differences of seq.signal, and the rescaled sequence (d2/dx2 = d2/dy2 / 1e10).
"""
import sys, warnings
import numpy as np
from epgpy.sequence import Sequence, Variable, operators as vo

warnings.simplefilter("ignore")
x, y = Variable("x"), Variable("y")
seq_x = Sequence([vo.T(1e-9 * x * x, 90), vo.E(5, 1000, 50), "ADC"])
seq_y = Sequence([vo.T(10 * y * y, 90), vo.E(5, 1000, 50), "ADC"])

x0, h = 2e5, 100.0
sig, jac, hes = seq_x.hessian(["x"], x=x0)
fdiff = (seq_x.signal(x=x0 + h) - 2 * seq_x.signal(x=x0) + seq_x.signal(x=x0 - h)) / h**2
_, jac_y, hes_y = seq_y.hessian(["y"], y=x0 / 1e5)

print("signal                        :", sig.ravel()[0])
print("d/dx   observed               :", jac.ravel()[0].real, "  rescaled truth:", jac_y.ravel()[0].real / 1e5)
print("d2/dx2 observed               :", hes.ravel()[0].real)
print("d2/dx2 finite differences     :", fdiff.ravel()[0].real)
print("d2/dx2 from the rescaled seq. :", hes_y.ravel()[0].real / 1e10)
# what the operator was given
op = seq_x.build({"x": x0}, order1=["x"], order2=[("x", "x")])[0]
print("operator declarations         :", op.order1, op.order2, " (d2alpha/dx2 = 2e-9 is missing)")

ok = np.allclose(hes, hes_y / 1e10, rtol=1e-6, atol=0) and np.allclose(hes, fdiff, rtol=1e-3, atol=0)
print("OK" if ok else "DEFECT: Hessian entry wrong (coefficient 2e-9 of dT/dalpha was treated as zero)")
sys.exit(0 if ok else 1)
