# probe F23b (properties C13): exits 1 while the defect is present, 0 when it is gone
"""State-matrix options read with `option or default` (shift.py): an ndarray grid size / cap
raises, and prune=0 (pruning disabled) silently falls back to the operator's 1e-8."""
import sys
import numpy as np
from epgpy import operators as ops, functions

T, S, ADC = ops.T, ops.S, ops.ADC
fail = False

# 1. per-axis grid size (documented: "grid: gridsize (scalar or kdim)") as ndarray option
k = [0.5, 0.2, 0.1]
seq = [T(90, 90), S(k), T(60, 0), S(k), ADC]
ref = functions.simulate(seq, kgrid=[0.1, 0.2, 0.3])  # same grid as a list: works
try:
    obs = functions.simulate(seq, kgrid=np.array([0.1, 0.2, 0.3]))
except Exception as exc:
    obs = f"{type(exc).__name__}: {exc}"
    fail = True
print("kgrid=list    :", ref.ravel())
print("kgrid=ndarray :", obs)

# 2. per-axis cap ("nmax: int (d-array of int)") as ndarray
seq = [T(90, 90), S([1, 1, 0]), T(60, 0), S([1, 1, 0]), ADC]
ref = functions.simulate(seq, max_nstate=[1, 2, 1])
try:
    obs = functions.simulate(seq, max_nstate=np.array([1, 2, 1]))
except Exception as exc:
    obs = f"{type(exc).__name__}: {exc}"
    fail = True
print("max_nstate=list    :", ref.ravel())
print("max_nstate=ndarray :", obs)

# 3. prune=0 option: a 3e-9 echo must survive when pruning is disabled
a = 2e-7  # degrees -> transverse magnetisation 3.5e-9 < default tolerance 1e-8
mk = lambda **kw: [T(a, 90), S([0.5, 0.0], **kw), T(180, 0), S([0.5, 0.0], **kw), ADC]
exact = np.sin(np.deg2rad(a))
arg = abs(functions.simulate(mk(prune=0), kgrid=1e-3).ravel()[0])
opt = abs(functions.simulate(mk(), kgrid=1e-3, prune=0).ravel()[0])
print(f"echo exact {exact:.3e} | S(k, prune=0): {arg:.3e} | option prune=0: {opt:.3e}")
fail |= not np.isclose(opt, exact, rtol=1e-6, atol=0)
sys.exit(1 if fail else 0)
