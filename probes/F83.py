# probe F83 (properties C11): exits 1 while the defect is present, 0 when it is gone
"""Sequence.jacobian: derivative coefficients of an expression are aligned with the FIRST batch axis,
whereas the expression value itself is evaluated with numpy broadcasting (LAST axis).
alpha = a * w with a of shape (3,1) and w of shape (3,): alpha[i,j] = a[i]*w[j], dalpha/da[i,j] = w[j],
but the coefficient w is applied as w[i]."""
import sys
import numpy as np
from epgpy.sequence import Sequence, Variable, Constant, operators as ops

a = Variable("a")
w = np.array([10.0, 20.0, 30.0])
seq = Sequence([ops.T(a * Constant(w), 90), ops.E(5, 1000, 50), "ADC"])
av = np.array([[1.0], [1.5], [2.0]])  # shape (3,1): signal has batch shape (3,3)

sig, jac = seq.jacobian(["a"], a=av)
jac = jac[..., 0, 0]

# ground truth 1: central finite differences of seq.signal itself
h = 1e-6
fd = ((seq.signal(a=av + h) - seq.signal(a=av - h)) / (2 * h))[..., 0]
# ground truth 2: per-index scalar sequences
ref = np.zeros((3, 3), complex)
for i in range(3):
    for j in range(3):
        sij = Sequence([ops.T(a * w[j], 90), ops.E(5, 1000, 50), "ADC"])
        s, d = sij.jacobian(["a"], a=av[i, 0])
        assert np.allclose(s[0, 0], sig[i, j, 0])  # the signal itself agrees
        ref[i, j] = d[0, 0, 0]

np.set_printoptions(precision=5, suppress=True)
print("dS/da from Sequence.jacobian (batch 3x3):\n", jac.real)
print("dS/da per-index scalar sequences:\n", ref.real)
print("dS/da finite differences of seq.signal:\n", fd.real)
ok = np.allclose(jac, ref, atol=1e-8) and np.allclose(jac, fd, atol=1e-6)
print("AGREE" if ok else "DISAGREE (max abs error %.3g)" % np.abs(jac - ref).max())
sys.exit(0 if ok else 1)
