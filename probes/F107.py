# probe F107 (properties C12, C02): exits 1 while the defect is present, 0 when it is gone
"""modify(seq, att=...) silently drops the differentiation declarations (order1 / order2) of the T operators:
a Jacobian probe of the modified sequence returns exactly 0 for the flip angle.
Ground truth: (a) central finite differences of the modified sequence's own signal w.r.t. the flip angle,
(b) the sequence written by hand with the scaled flip angle (what modify() is documented to be equal to)."""
import sys
import numpy as np
import epgpy as epg

alpha, att, T2, h = np.array([30.0, 60.0, 90.0]), 0.8, 50.0, 1e-4


def seq(a):
    exc = epg.T(a, 90, order1="alpha", duration=1)
    return [exc, epg.S(1, duration=5), epg.T(160, 0), epg.S(1, duration=5), epg.ADC, epg.Jacobian("alpha")]


mod = epg.modify(seq(alpha), T2=T2, att=att)
sig, jac = epg.simulate(mod, asarray=False)
sig, jac = sig, jac[..., 0]

# (a) finite differences of the modified sequence (nominal flip angle alpha)
fd = (
    epg.simulate(epg.modify(seq(alpha + h), T2=T2, att=att), asarray=False)[0]
    - epg.simulate(epg.modify(seq(alpha - h), T2=T2, att=att), asarray=False)[0]
) / (2 * h)

# (b) hand-written equivalent: flip angles scaled by att, E(duration) after every operator with a duration
E = lambda tau: epg.E(tau, 1e10, T2)
hand = [epg.T(alpha * att, 90, order1="alpha"), E(1), epg.S(1), E(5), epg.T(160 * att, 0), epg.S(1), E(5),
        epg.ADC, epg.Jacobian("alpha")]
sig_h, jac_h = epg.simulate(hand, asarray=False)
jac_h = jac_h[..., 0]  # derivative w.r.t. the applied angle att*alpha; fd = att * jac_h

np.set_printoptions(precision=6, suppress=True)
print("signal   modify :", sig, "\n         by hand:", sig_h)
print("dS/dalpha modify            :", jac)
print("dS/dalpha finite differences:", fd)
print("dS/d(att*alpha) by hand     :", jac_h, " (times att:", att * jac_h, ")")

ok_signal = np.allclose(sig, sig_h)
ok_jac = np.allclose(jac, fd, atol=1e-6) or np.allclose(jac, jac_h, atol=1e-8)
print("signal agrees:", ok_signal, "| Jacobian agrees:", ok_jac)
sys.exit(0 if (ok_signal and ok_jac) else 1)
