# probe F110 (properties C12, C01, C07): exits 1 while the defect is present, 0 when it is gone
"""simulate(seq, init=<StateMatrix>) does not give the initial state matrix the batch shape of the sequence
(simulate(seq) and simulate(seq, init=<array>) do: StateMatrix(init, shape=getshape(seq))).  An acquisition placed
before the first batched operator then returns a value of shape (1,) while the later ones have the sequence's
shape: the default asarray=True raises 'inhomogeneous shape', asarray=False returns ragged values.
Ground truth: Bloch isochromats (nothing is dephased at the acquisitions: F0 is M+ of a single isochromat)."""
import sys
import numpy as np
import epgpy as epg

alpha = np.array([20.0, 50.0])
tau, T1, T2 = 10.0, 200.0, 40.0
seq = [epg.T(30, 90), epg.ADC, epg.E(tau, T1, T2), epg.T(alpha, 90), epg.ADC]

# Bloch: rotation about y (phi = 90): M+ = sin(a) Mz + cos(a) M+ (all real), Mz = cos(a) Mz - sin(a) M+
a0 = np.deg2rad(30.0)
mp, mz = np.sin(a0), np.cos(a0)
truth0 = np.full(2, mp)
mp, mz = mp * np.exp(-tau / T2), 1 + (mz - 1) * np.exp(-tau / T1)
a = np.deg2rad(alpha)
truth1 = np.sin(a) * mz + np.cos(a) * mp
truth = np.stack([truth0, truth1])
print("ground truth (Bloch)        :", np.round(truth, 6).tolist())

ok = True
for label, init in [("init=None", None), ("init=[0, 0, 1]", [0, 0, 1]), ("init=StateMatrix()", epg.StateMatrix())]:
    try:
        obs = epg.simulate(seq, init=init)
        good = obs.shape == truth.shape and np.allclose(obs, truth)
        print(f"{label:28s}:", np.round(obs.real, 6).tolist(), "shape", obs.shape, "OK" if good else "WRONG")
    except Exception as exc:
        good = False
        ragged = epg.simulate(seq, init=init, asarray=False)
        print(f"{label:28s}: raises {type(exc).__name__}: {str(exc)[:60]}...")
        print(f"{'':28s}  asarray=False gives shapes", [np.shape(v) for v in ragged], "expected", [truth.shape[1:]] * 2)
    ok &= good
sys.exit(0 if ok else 1)
