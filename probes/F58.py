# probe F58 (properties C11): exits 1 while the defect is present, 0 when it is gone
"""Sequence.__setitem__ with index -1 inserts instead of replacing: the single-operator branch turns the index
into slice(item, item + 1) = slice(-1, 0), an empty slice in front of the last operator.
seq[-1] = op leaves the old last operator in place (here: two ADCs, one extra acquired value)."""
import sys
import numpy as np
import epgpy as epg
from epgpy.sequence import Sequence, operators as ops

vops = [ops.T("a", 90), ops.E(5, 1000, "T2"), "ADC"]
seq = Sequence(vops)
seq[-1] = ops.Adc(attr="Z0")  # replace the last operator: acquire Z0 instead of F0

# ground truth: the same edit on a plain list, built by hand with the evaluated arguments
ref_ops = [epg.T(30.0, 90), epg.E(5, 1000, 40.0), epg.ADC]
ref_ops[-1] = epg.Adc(attr="Z0")
ref = np.moveaxis(np.asarray(epg.simulate(ref_ops)), 0, -1)

sig = seq.signal(a=30.0, T2=40.0)
print("sequence after seq[-1] = Adc(attr='Z0'):", seq.operators)
print("expected operators                     :", [ops.T("a", 90), ops.E(5, 1000, "T2"), ops.Adc(attr="Z0")])
print("seq.signal :", sig, "shape", sig.shape)
print("hand-built :", ref, "shape", ref.shape)
# control: any other index replaces
seq2 = Sequence(vops)
seq2[-2] = ops.E(10, 1000, "T2")
print("control seq[-2] = E(10, ...):", seq2.operators)
ok = len(seq) == 3 and sig.shape == ref.shape and np.allclose(sig, ref)
print("AGREE" if ok else "DISAGREE")
sys.exit(0 if ok else 1)
