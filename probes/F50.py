# probe F50 (properties C08, C14, C01): exits 1 while the defect is present, 0 when it is gone
"""PD stores a real (or integer) equilibrium; when the state matrix grows at PD / RESET the states are
replaced by that real array, and every later T / E / P raises (complex result cannot be cast)."""
import sys
import numpy as np
import epgpy as epg

T, E, S, PD, RESET = epg.T, epg.E, epg.S, epg.PD, epg.RESET
pds = [1.0, 2.0]
bad = False


def attempt(label, make, expected):
    global bad
    try:
        sm = make()
        obs = np.asarray(sm.F0)
    except Exception as exc:  # noqa
        obs = f"{type(exc).__name__}: {str(exc)[:70]}"
    ok = not isinstance(obs, str) and np.allclose(obs, expected)
    bad |= not ok
    print(f"{label}\n   observed: {obs}\n   expected: {np.asarray(expected)}")


# ground truth: one scalar simulation per proton density
exp1 = [T(30, 0)(PD(p)(epg.StateMatrix())).F0[0] for p in pds]
sm = PD(pds)(epg.StateMatrix())
print("after PD([1., 2.]): shape", sm.shape, " states dtype", sm.states.dtype, " (expected complex128)")
attempt("T(30,0)(PD([1.,2.])(StateMatrix())).F0", lambda: T(30, 0)(PD(pds)(epg.StateMatrix())), exp1)

exp2 = [E(5, 100, 20)(T(30, 0)(PD(p)(epg.StateMatrix()))).F0[0] for p in pds]
attempt("E(5,100,20)(T(30,0)(PD(np.array([1,2]))(StateMatrix()))).F0",
        lambda: E(5, 100, 20)(T(30, 0)(PD(np.array([1, 2]))(epg.StateMatrix()))), exp2)

# same through RESET: PD(..., reset=False) then RESET
def seq3(pd):
    sm = T(90, 90)(epg.StateMatrix())
    sm = RESET(PD(pd, reset=False)(sm))
    return T(30, 0)(sm)
exp3 = [seq3(p).F0[0] for p in pds]
attempt("T(30,0)(RESET(PD([1.,2.], reset=False)(T(90,90)(sm)))).F0", lambda: seq3(pds), exp3)

sys.exit(1 if bad else 0)
