# probe F37 (properties C13): exits 1 while the defect is present, 0 when it is gone
"""shift.shift1d(states, n, nmax=...) (documented not-in-place by default):
 (a) once the cap is reached (nstate == nmax) it shifts the CALLER's array in place,
 (b) when the input holds more states than the cap it returns an empty array."""
import sys
import numpy as np
from epgpy import shift


def reference(states, n, nmax):
    """defining formula: F+ moves k -> k+n, F- moves k -> k-n, |k| > nmax dropped"""
    ns = (len(states) - 1) // 2
    out = np.zeros((2 * nmax + 1, 3), dtype=complex)
    for i, k in enumerate(range(-ns, ns + 1)):
        if abs(k + n) <= nmax:
            out[k + n + nmax, 0] = states[i, 0]
        if abs(k - n) <= nmax:
            out[k - n + nmax, 1] = states[i, 1]
        if abs(k) <= nmax:
            out[k + nmax, 2] = states[i, 2]
    return out


fail = False
# (a) nstate == nmax == 2
sm = np.zeros((5, 3), dtype=complex)
sm[2] = [1, 1, 0.3]; sm[3, 0] = sm[1, 1] = 0.5; sm[4, 0] = sm[0, 1] = 0.25
sm0 = sm.copy()
out = shift.shift1d(sm, 1, nmax=2)  # inplace=False is the default
print("(a) result correct          :", np.allclose(out, reference(sm0, 1, 2)))
print("    input left untouched    :", np.array_equal(sm, sm0), "(expected True)")
print("    input F+ column before  :", sm0[:, 0].real, "\n    input F+ column after   :", sm[:, 0].real)
fail |= not np.array_equal(sm, sm0)

# (b) input with 3 states, cap 2
sm = np.zeros((7, 3), dtype=complex)
sm[3] = [1, 1, 0.3]; sm[5, 0] = sm[1, 1] = 0.5; sm[6, 0] = sm[0, 1] = 0.25
ref = reference(sm, -1, 2)
out = shift.shift1d(sm.copy(), -1, nmax=2)
print("(b) expected shape", ref.shape, "F+ column", ref[:, 0].real)
print("    observed shape", out.shape, "F+ column", out[..., 0].real)
fail |= out.shape != ref.shape or not np.allclose(out, ref)
sys.exit(1 if fail else 0)
