# probe F44 (properties C16): exits 1 while the defect is present, 0 when it is gone
"""StateMatrix.unstack() iterates over the un-broadcast coordinates: entries are dropped (axis=0) or the wrong
axis is moved (axis>0) as soon as the coordinates are shared by the batch (any common nd shift)."""
import sys
import numpy as np
from epgpy import operators as ops
from epgpy.statematrix import StateMatrix

bad = 0
sm = StateMatrix(density=[1, 2, 3])  # 3 voxels
sm = ops.T(30, 0)(sm)
sm = ops.S([[1, 0, 0]])(sm)  # same 3d gradient for all voxels
print("state matrix:", sm, "states", sm.states.shape, "stored coords", sm.coords.shape)

parts = list(sm.unstack())
print(f"unstack(axis=0): observed {len(parts)} matrices, expected {sm.shape[0]}")
bad += len(parts) != sm.shape[0]
full = sm.arrays.get("coords")  # coordinates with the common broadcast shape
for i in range(sm.shape[0]):
    ok = i < len(parts) and np.allclose(parts[i].states, sm.states[i]) and np.allclose(parts[i].coords, full[i])
    print(f"  entry {i}: Z0 expected {sm.Z0[i].real:.3f}, observed", f"{parts[i].Z0[0].real:.3f}" if i < len(parts) else "MISSING")
    bad += not ok

sm2 = StateMatrix(density=[[1, 2, 3], [4, 5, 6]])  # shape (2, 3)
sm2 = ops.S([[1, 0, 0]])(ops.T(30, 0)(sm2))
try:
    shapes = [p.shape for p in sm2.unstack(axis=1)]
except Exception as exc:
    shapes = repr(exc)
print(f"unstack(axis=1) of shape (2,3): observed {shapes}, expected {[(2,)] * 3}")
bad += shapes != [(2,)] * 3

sys.exit(1 if bad else 0)
