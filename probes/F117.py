# probe F117 (properties C06): exits 1 while the defect is present, 0 when it is gone
"""X returns NO exchange at all when the evolution matrix -K + R is not diagonalisable (expm goes through eig).
One-way conversion A -> B (K = [[k, 0], [-k, 0]]; detailed balance and K @ density = 0 hold for the equilibrium
density [0, 1], e.g. a hyperpolarised substrate A without thermal polarisation) with k + 1/T1_A = 1/T1_B:
the generator of the longitudinal ODE is the Jordan block [[-a, 0], [k, -a]] and X silently gives exp(-a tau) * I."""
import sys
import numpy as np
from epgpy import operators as ops, statematrix

k, tau = 0.02, 10.0  # 1/ms, ms
T1 = [50.0, 25.0]  # k + 1/50 == 1/25 exactly; T2 chosen the same way
K = [[k, 0.0], [-k, 0.0]]
dens = [0.0, 1.0]
assert np.allclose(np.dot(K, dens), 0) and np.allclose(np.sum(K, axis=0), 0)  # conserves equilibrium and total


def integrate(rates, m0, meq, n=20000):
    """RK4 integration of dM/dt = (-K - diag(rates)) (M - Meq)"""
    A = -np.array(K) - np.diag(rates)
    m, h = np.array(m0, dtype=float) - meq, tau / n
    for _ in range(n):
        k1 = A @ m; k2 = A @ (m + h / 2 * k1); k3 = A @ (m + h / 2 * k2); k4 = A @ (m + h * k3)
        m = m + h / 6 * (k1 + 2 * k2 + 2 * k3 + k4)
    return m + meq


sm = statematrix.StateMatrix([[[0.5, 0.5, 1.0]], [[0, 0, 1.0]]], density=dens)
out = ops.X(tau, K, T1=T1, T2=T1)(sm)
refZ = integrate(1 / np.array(T1), [1.0, 1.0], np.array(dens))
refF = integrate(1 / np.array(T1), [0.5, 0.0], 0.0)
a = k + 1 / T1[0]
print("closed form        Z:", [np.exp(-a * tau), 1 + k * tau * np.exp(-a * tau)], " F:", [0.5 * np.exp(-a * tau), 0.5 * k * tau * np.exp(-a * tau)])
print("ODE (RK4)          Z:", refZ, " F:", refF)
print("epgpy X            Z:", out.Z0.real, " F:", out.F0.real)
# generic neighbour (T1_B = 25.001): fine
out2 = ops.X(tau, K, T1=[50.0, 25.001], T2=[50.0, 25.001])(sm)
print("epgpy X, T1_B=25.001 Z:", out2.Z0.real, " F:", out2.F0.real)
ok = np.allclose(out.Z0.real, refZ, atol=1e-6) and np.allclose(out.F0.real, refF, atol=1e-6)
print("OK" if ok else "MISMATCH: the magnetisation transferred to compartment B is missing")
sys.exit(0 if ok else 1)
