# probe F139 (properties C17): exits 1 while the defect is present, 0 when it is gone
"""3fc8b9c: Sequence.confint now only asks that obs and prediction broadcast, so observations
whose last axis is not nADC (a column vector / the (nADC, 1) layout returned by simulate(),
a single value, a 0-d array) are no longer rejected: they broadcast against the nADC axis and
a meaningless interval of the wrong shape is returned silently. Before: ValueError."""
import sys
import numpy as np
from epgpy import sequence as sq

ops = sq.operators
T2, b1 = sq.Variable("T2"), sq.Variable("b1")
seq = sq.Sequence([ops.T(90 * b1, 90)] + [ops.E(5, 1000, T2), ops.T(180 * b1, 0), ops.E(5, 1000, T2), "ADC"] * 8)
values = dict(b1=0.9, T2=30.0)
pred = seq.signal(**values)  # (1, nADC)
rng = np.random.default_rng(0)
obs = (pred + 0.01 * rng.standard_normal(pred.shape))[0]  # (nADC,)

bad = 0
try:  # the form the commit enables must keep working
    good = seq.confint(obs, ["T2", "b1"])(**values)
    print("obs (nADC,)  -> accepted,", np.shape(good), np.ravel(good))
except ValueError as exc:
    bad += 1
    print("obs (nADC,)  -> WRONG, rejected:", exc)
cases = {
    "obs (nADC, 1) column / simulate() layout": obs[:, None],
    "obs (1,) single value": obs[:1],
    "obs 0-d": np.asarray(obs[0]),
}
for label, o in cases.items():
    try:
        got = seq.confint(o, ["T2", "b1"])(**values)
    except ValueError as exc:
        print(f"{label}: ok, rejected ({exc})")
        continue
    bad += 1
    print(f"{label}: WRONG\n  observed: accepted, intervals of shape {np.shape(got)}: {np.ravel(got)[:4]}")
    print("  expected: ValueError 'Mismatch between observation and prediction shapes' (last axis must be nADC=8)")

sys.exit(1 if bad else 0)
