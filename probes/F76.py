# probe F76 (properties C01): exits 1 while the defect is present, 0 when it is gone
"""simulate(seq, density=pd) / simulate(seq, equilibrium=...): the documented default initial state is the
equilibrium, but simulate() always starts from [0, 0, 1]: the ensemble starts at Mz = 1 while its
equilibrium is pd (StateMatrix(density=pd) itself starts at equilibrium)."""
import sys
import numpy as np
import epgpy as epg

pd = np.array([2.0, 0.5])
alpha, tau, T1, T2 = 90.0, 50.0, 100.0, 30.0
seq = [epg.T(alpha, 90), epg.ADC, epg.E(tau, T1, T2), epg.T(alpha, 90), epg.ADC]

# ground truth (Bloch, nothing is dephased): start at equilibrium M = (0, 0, pd)
#   1st pulse (90 deg about y): M+ = pd, Mz = 0
#   relaxation: M+ = pd exp(-tau/T2), Mz = pd (1 - exp(-tau/T1));  2nd pulse: M+ <- Mz, Mz <- -M+
truth = np.array([pd * np.sin(np.deg2rad(alpha)), pd * (1 - np.exp(-tau / T1))])
# the state matrix started at its equilibrium agrees with it
ref = epg.simulate(seq, init=epg.StateMatrix(density=pd))
assert np.allclose(ref, truth)

bad = False
calls = {
    "simulate(seq, density=pd)": lambda: epg.simulate(seq, density=pd),
    "simulate(seq, equilibrium=[[[0,0,pd0]],[[0,0,pd1]]])": lambda: epg.simulate(
        seq, equilibrium=[[[0, 0, pd[0]]], [[0, 0, pd[1]]]]
    ),
}
for name, call in calls.items():
    obs = np.asarray(call())
    ok = obs.shape == truth.shape and np.allclose(obs, truth)
    print(f"{name}: F0 at the two acquisitions\n   observed {obs.real.round(4).tolist()}"
          f"\n   truth    {truth.round(4).tolist()}", "" if ok else "  <-- MISMATCH")
    bad |= not ok
sys.exit(1 if bad else 0)
