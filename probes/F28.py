# probe F28 (properties C07, C12): exits 1 while the defect is present, 0 when it is gone
"""C07 defect 5: functions.modify(seq, att=...) rebuilds every T operator as T(alpha * att, phi) and drops
its `axes=` placement: a flip-angle list placed on grid axis 1 silently moves to axis 0, where it is
paired index-by-index with the parameter living there (wrong output shape and wrong values)."""
import sys
import numpy as np
from epgpy import operators as ops, functions as fn

FA = np.array([180.0, 150.0])  # refocusing angles, placed on grid axis 1 with axes=1
T2 = np.array([30.0, 60.0])  # T2 values on grid axis 0
att = np.array([1.0, 0.9, 0.8])  # B1 attenuations: new axis 2 added by modify(expand=True)


def seq(fa, T2, axes=None):
    relax = ops.E(5, 1000, T2)
    return [ops.T(90, 90), ops.S(1), relax, ops.T(fa, 0, axes=axes), ops.S(1), relax, ops.ADC]


base = seq(FA, T2, axes=1)
print("getshape(sequence)              :", fn.getshape(base))  # (2, 2)
new = fn.modify(base, att=att)
shape = fn.getshape(new)
print("getshape(modify(sequence, att)) :", shape, "(expected (2, 2, 3))")
sig = fn.simulate(new)[0]

bad = int(tuple(shape) != (2, 2, 3))
for i in range(2):  # T2 index
    for j in range(2):  # flip angle index
        for k in range(3):  # attenuation index
            # ground truth: scalar simulation with both flip angles attenuated by hand
            ref = fn.simulate([ops.T(90 * att[k], 90)] + seq(FA[j] * att[k], T2[i])[1:])[0, 0]
            got = sig[i, j, k] if sig.shape == (2, 2, 3) else sig[i, 0, k]  # axis 1 has collapsed
            ok = np.isclose(got, ref)
            bad += not ok
            print(f"T2[{i}] FA[{j}] att[{k}]: modified sequence={got:.5f} scalar={ref:.5f}",
                  "ok" if ok else "MISMATCH")
print("failures:", bad)
sys.exit(1 if bad else 0)
